"""C14 - DFA closure constructions and finite-language helpers vs the proved models (Model/DFAOps.v, Model/Lang.v)."""
import itertools
import coqlit as L
import gen as G
import conv

COQ_IMPORTS = ['Model.DFA', 'Model.NFA', 'Model.DFAOps', 'Model.Lang', 'Judge.C14_judge']
PDA_FREE = True      # no PDA is involved: the recycling pass runs with GambaTools.pda_epsilon_closure_max_iterations = 3
LOG_SAFE = True      # no printed output is read back: the recycling pass runs with GambaTools.enable_logging = True
RULE = ('pairs: all ordered pairs of total DFAs with <=2 states over {a} and a seeded sample of pairs over {a,b} (<=3 states), random pairs <=5 states x <=3 symbols: union / intersection / symmetric difference products; '
        'singles: all DFAs 2x2 and 3x1 (thorough: 4x1, 3x2 sample) and random <=7 states: complement, reverse, no_prefix, no_extend, remove_unreachable_states, reachable_states(q, 0|1); '
        'partial DFAs (random entries removed): make_total; finite languages: all subsets of words <=2 over {a,b} of size <=3 (quick: sample) and random languages: the helpers of language_algorithms. '
        'Relation: result valid and language-equal (exact, verified dfa_equivb / subset construction) to the proved model result; helpers: set equality. '
        'Non-trivial = result automaton has >= 2 states and a non-empty, non-full language sample / language with >= 2 words; distinct by input text.')
RULE += ' Added after the seeded rounds: more than ten numbered states (q9 / q10, trap9 / trap10), unusual state names.'
CODES = {10: 'dfa_union invalid', 11: 'dfa_union language wrong', 12: 'dfa_union raised', 13: 'dfa_intersection invalid', 14: 'dfa_intersection language wrong', 15: 'dfa_intersection raised',
         16: 'dfa_symmetric_difference invalid', 17: 'dfa_symmetric_difference language wrong', 18: 'dfa_symmetric_difference raised',
         20: 'dfa_complement invalid', 21: 'dfa_complement language wrong', 22: 'dfa_complement raised', 23: 'dfa_reverse initial state not fresh',
         24: 'dfa_reverse invalid', 25: 'dfa_reverse language wrong', 26: 'dfa_reverse raised', 27: 'dfa_no_prefix invalid', 28: 'dfa_no_prefix language wrong', 29: 'dfa_no_prefix raised',
         30: 'dfa_no_extend invalid', 31: 'dfa_no_extend language wrong', 32: 'dfa_no_extend raised', 33: 'dfa_remove_unreachable_states invalid', 34: 'dfa_remove_unreachable_states language wrong',
         35: 'dfa_remove_unreachable_states raised', 36: 'dfa_remove_unreachable_states left an unreachable state', 37: 'dfa_reachable_states wrong',
         40: 'trap state not fresh', 41: 'dfa_make_total invalid (not total)', 42: 'dfa_make_total language wrong', 43: 'dfa_make_total raised',
         50: 'language_reverse wrong', 51: 'language_no_prefix wrong', 52: 'language_no_extend wrong', 53: 'concatenation wrong', 54: 'union wrong', 55: 'intersection wrong',
         56: 'symmetric_difference wrong', 57: 'words_of_length_n wrong', 58: 'words_up_to_n wrong', 9: 'generated DFA invalid (harness)'}
ASSUMPTIONS = ['DFAs valid and over a common alphabet; the epsilon symbol used by dfa_reverse/dfa_no_prefix is not in Sigma']
RESIDUE = 'state naming by str.format (pairs, fresh_state) modelled by pairs / an abstract fresh code'


def gen(rng, tier):
    quick = tier == 'quick'
    cases = []
    small = G.all_dfas(1, 'a') + G.all_dfas(2, 'a')
    for d1 in small:
        for d2 in small:
            cases.append({'kind': 'pair', 'D1': d1, 'D2': d2})
    pool = G.all_dfas(2, 'ab') + G.all_dfas(3, 'a')
    for _ in range(150 if quick else 3000):
        d1 = rng.choice(pool)
        d2 = rng.choice([x for x in pool if x['Sigma'] == d1['Sigma']])
        cases.append({'kind': 'pair', 'D1': d1, 'D2': d2})
    for _ in range(150 if quick else 2500):
        sigma = rng.choice(['a', 'ab', 'abc', ''])
        cases.append({'kind': 'pair', 'D1': G.random_dfa(rng, rng.randint(1, 5), sigma), 'D2': G.random_dfa(rng, rng.randint(1, 5), sigma, names=['p%d' % i for i in range(rng.randint(1, 5))])})
    for _ in range(60 if quick else 1000):
        sigma = rng.choice(['a', 'ab'])
        cases.append({'kind': 'pair', 'D1': G.random_dfa(rng, rng.randint(2, 3), sigma, names=['p', 'p_1', 'p_1_q']), 'D2': G.random_dfa(rng, 2, sigma, names=['q', '1_q'])})
    singles = G.all_dfas(2, 'ab') + G.all_dfas(3, 'a') + G.all_dfas(1, 'ab')
    if not quick:
        singles += G.all_dfas(4, 'a') + rng.sample(G.all_dfas(3, 'ab'), 2000)
    for _ in range(250 if quick else 3000):
        names = None
        if rng.random() < 0.3:
            names = ['q%d' % i for i in range(1, rng.randint(2, 6))]   # collide with fresh_state hints q1, q2, ...
        n = len(names) if names else rng.randint(1, 7)
        singles.append(G.random_dfa(rng, n, rng.choice(['a', 'ab', 'abc']), names=names))
    # more than ten numbered states (q9 / q10 / q11: text order differs from numeric order) and tricky names
    for _ in range(25 if quick else 400):
        names = ['q%d' % i for i in range(rng.choice([0, 1]), rng.randint(11, 13))]
        singles.append(G.random_dfa(rng, len(names), rng.choice(['a', 'ab']), names=names, pfinal=0.2))
    for _ in range(40 if quick else 600):
        k = rng.randint(2, 6)
        singles.append(G.random_dfa(rng, k, rng.choice(['a', 'ab']), names=G.tricky_names(rng, k)))
    for d in singles:
        cases.append({'kind': 'one', 'D': d})
    for _ in range(150 if quick else 2000):
        names = ['trap1', 'q0', 'q1'] if rng.random() < 0.2 else None
        d = G.random_dfa(rng, len(names) if names else rng.randint(1, 5), rng.choice(['a', 'ab']), names=names)
        d['delta'] = [e for e in d['delta'] if rng.random() < 0.7]
        cases.append({'kind': 'total', 'D': d})
    for _ in range(15 if quick else 300):
        names = ['trap%d' % i for i in range(1, rng.randint(11, 12))] + ['s']
        d = G.random_dfa(rng, len(names), 'a', names=names)
        d['q0'] = 's'
        d['delta'] = [e for e in d['delta'] if rng.random() < 0.8]
        cases.append({'kind': 'total', 'D': d})
    words = [''.join(w) for k in range(3) for w in itertools.product('ab', repeat=k)]
    langs = [list(c) for k in range(4) for c in itertools.combinations(words, k)]
    if quick:
        langs = rng.sample(langs, 60)
    for l1 in langs:
        cases.append({'kind': 'lang', 'L1': l1, 'L2': rng.choice(langs), 'Sigma': ['a', 'b'], 'n': rng.randint(0, 3)})
    for _ in range(100 if quick else 2000):
        mk = lambda: list({''.join(rng.choice('ab') for _ in range(rng.randint(0, 4))) for _ in range(rng.randint(0, 6))})
        cases.append({'kind': 'lang', 'L1': mk(), 'L2': mk(), 'Sigma': rng.choice([['a'], ['a', 'b'], []]), 'n': rng.randint(0, 3)})
    return cases


def observe(c):
    from implutil import safe, ok
    import gambatools.dfa_algorithms as A
    import gambatools.language_algorithms as LA
    k = c['kind']
    if k == 'pair':
        D1, D2 = conv.dfa_obj(c['D1']), conv.dfa_obj(c['D2'])
        out = {}
        for name, f in (('u', A.dfa_union), ('i', A.dfa_intersection), ('s', A.dfa_symmetric_difference)):
            r = safe(f, D1, D2)
            out[name] = conv.dfa_case(r[1]) if ok(r) else None
        return out
    if k == 'one':
        D = conv.dfa_obj(c['D'])
        out = {}
        r = safe(A.dfa_complement, D)
        out['comp'] = conv.dfa_case(r[1]) if ok(r) else None
        r = safe(A.dfa_reverse, D)
        out['rev'] = conv.nfa_case(r[1]) if ok(r) else None
        r = safe(A.dfa_no_prefix, D)
        out['np'] = conv.nfa_case(r[1]) if ok(r) else None
        r = safe(A.dfa_no_extend, D)
        out['nx'] = conv.dfa_case(r[1]) if ok(r) else None
        r = safe(A.dfa_remove_unreachable_states, D)
        out['rm'] = conv.dfa_case(r[1]) if ok(r) else None
        reach = []
        for q in c['D']['Q']:
            for depth in (0, 1):
                r = safe(A.dfa_reachable_states, D, q, depth)
                reach.append([q, depth, sorted(r[1]) if ok(r) else None])
        out['reach'] = reach
        return out
    if k == 'total':
        D = conv.dfa_obj(c['D'], check=False)
        r = safe(A.dfa_make_total, D)
        return {'tot': conv.dfa_case(r[1]) if ok(r) else None, 'err': None if ok(r) else r[1]}
    L1, L2 = set(c['L1']), set(c['L2'])
    S = set(c['Sigma'])
    out = {}
    for name, f, args in (('rev', LA.language_reverse, (L1,)), ('np', LA.language_no_prefix, (L1,)), ('nx', LA.language_no_extend, (L1,)),
                          ('conc', LA.concatenation, (L1, L2)), ('uni', LA.union, (L1, L2)), ('int', LA.intersection, (L1, L2)),
                          ('sym', LA.symmetric_difference, (L1, L2)), ('wn', LA.words_of_length_n, (S, c['n'])), ('wu', LA.words_up_to_n, (S, c['n']))):
        r = safe(f, *args)
        out[name] = sorted(r[1]) if ok(r) else None
    return out


def _odfa(d, st, sy):
    return 'None' if d is None else '(Some %s)' % L.dfa(d, st, sy)


def _onfa(n, st, sy, epscode):
    if n is None:
        return 'None'
    f = lambda a: epscode if a == n['eps'] else sy(a)
    delta = L.lst(L.pair(L.pair(L.nat(st(q)), L.nat(f(a))), L.nats(st(t) for t in ts)) for (q, a, ts) in n['delta'])
    return '(Some (mkNFA %s %s %s %s %s %s))' % (L.nats(st(q) for q in n['Q']), L.nats(sy(a) for a in n['Sigma']), delta, L.nat(st(n['q0'])), L.nats(st(q) for q in n['F']), L.nat(epscode))


def _one_lits(c, o=None):
    d = c['D']
    st, sy = L.state_names(d), L.symbol_names(d)
    epscode = sy(('eps', 'ε'))
    fresh = None
    if o is not None and o['rev'] is not None:
        fresh = st(o['rev']['q0'])
    else:
        fresh = st('__fresh__')
    return d, st, sy, epscode, fresh


def encode(c, o):
    k = c['kind']
    if k == 'pair':
        sy = L.symbol_names(c['D1'], c['D2'])
        s1, s2 = L.state_names(c['D1']), L.state_names(c['D2'])
        outs = []
        for name in 'uis':
            outs.append(_odfa(o[name], L.Names(), sy) if o[name] is None or all(a in sy.m for a in o[name]['Sigma']) else 'None')
        return 'judge_C14_pair %s %s %s' % (L.dfa(c['D1'], s1, sy), L.dfa(c['D2'], s2, sy), ' '.join(outs))
    if k == 'one':
        d, st, sy, epscode, fresh = _one_lits(c, o)
        dl = L.dfa(d, st, sy)
        reach = L.lst(L.pair(L.nat(st(q)), L.nat(depth), L.option(r, lambda r: L.nats(st(x) for x in r))) for q, depth, r in o['reach'])
        return 'judge_C14_one %s %s %d %d %s %s %s %s %s' % (dl, _odfa(o['comp'], st, sy), fresh, epscode, _onfa(o['rev'], st, sy, epscode), _onfa(o['np'], st, sy, epscode),
                                                          _odfa(o['nx'], st, sy), _odfa(o['rm'], st, sy), reach)
    if k == 'total':
        d = c['D']
        st, sy = L.state_names(d), L.symbol_names(d)
        dl = L.dfa(d, st, sy)
        if o['tot'] is None:
            return 'judge_C14_total %s %d None' % (dl, st('__trap__'))
        new = [q for q in o['tot']['Q'] if q not in d['Q']]
        trap = st(new[0]) if new else st('__trap__')
        return 'judge_C14_total %s %d %s' % (dl, trap, _odfa(o['tot'], st, sy))
    sy = L.Names()
    for a in 'ab':
        sy(a)
    W = lambda ws: L.lst(L.wordc(w, sy) for w in ws)
    O = lambda ws: L.option(ws, W)
    return 'judge_C14_lang %s %s %s %d %s' % (W(c['L1']), W(c['L2']), L.nats(sy(a) for a in c['Sigma']), c['n'],
                                              ' '.join(O(o[x]) for x in ('rev', 'np', 'nx', 'conc', 'uni', 'int', 'sym', 'wn', 'wu')))


def explain(c):
    k = c['kind']
    if k == 'pair':
        sy = L.symbol_names(c['D1'], c['D2'])
        return 'explain_C14_pair %s %s' % (L.dfa(c['D1'], L.state_names(c['D1']), sy), L.dfa(c['D2'], L.state_names(c['D2']), sy))
    if k == 'one':
        d, st, sy, epscode, fresh = _one_lits(c)
        return 'explain_C14_one %s %d %d' % (L.dfa(d, st, sy), fresh, epscode)
    if k == 'total':
        d = c['D']
        st, sy = L.state_names(d), L.symbol_names(d)
        return 'dfa_make_total %d %s' % (st('__trap__'), L.dfa(d, st, sy))
    sy = L.Names()
    for a in 'ab':
        sy(a)
    W = lambda ws: L.lst(L.wordc(w, sy) for w in ws)
    return 'explain_C14_lang %s %s' % (W(c['L1']), W(c['L2']))


def key(c):
    k = c['kind']
    if k == 'pair':
        return 'pair|' + conv.dfa_text(c['D1']) + '|' + conv.dfa_text(c['D2'])
    if k in ('one', 'total'):
        return k + '|' + conv.dfa_text(c['D'])
    return 'lang|%s|%s|%s|%d' % (sorted(c['L1']), sorted(c['L2']), c['Sigma'], c['n'])


def nontrivial(c, o):
    k = c['kind']
    if k == 'pair':
        return len(c['D1']['Q']) >= 2 and len(c['D2']['Q']) >= 2 and 0 < len(c['D1']['F']) and 0 < len(c['D2']['F'])
    if k == 'one':
        return len(c['D']['Q']) >= 2 and 0 < len(c['D']['F']) < len(c['D']['Q'])
    if k == 'total':
        return len(c['D']['delta']) < len(c['D']['Q']) * len(c['D']['Sigma'])
    return len(c['L1']) >= 2


def describe(c):
    k = c['kind']
    if k == 'pair':
        return {'kind': k, 'D1': conv.dfa_text(c['D1']), 'D2': conv.dfa_text(c['D2'])}
    if k in ('one', 'total'):
        return {'kind': k, 'D': conv.dfa_text(c['D'])}
    return c


def reproduce(c):
    k = c['kind']
    if k == 'pair':
        return 'from gambatools.dfa_algorithms import *; D1 = parse_dfa(%r); D2 = parse_dfa(%r); dfa_union(D1, D2); dfa_intersection(D1, D2); dfa_symmetric_difference(D1, D2)' % (conv.dfa_text(c['D1']), conv.dfa_text(c['D2']))
    if k == 'one':
        return 'from gambatools.dfa_algorithms import *; D = parse_dfa(%r); dfa_complement(D); dfa_reverse(D); dfa_no_prefix(D); dfa_no_extend(D); dfa_remove_unreachable_states(D)' % conv.dfa_text(c['D'])
    if k == 'total':
        d = c['D']
        return 'from gambatools.dfa import DFA; from gambatools.dfa_algorithms import *; D = DFA(%r, %r, %r, %r, %r, check_validity=False); dfa_make_total(D)' % (
            set(d['Q']), set(d['Sigma']), {(q, a): t for q, a, t in d['delta']}, d['q0'], set(d['F']))
    return 'from gambatools.language_algorithms import *; L1 = %r; L2 = %r; language_no_prefix(L1); language_no_extend(L1); language_reverse(L1); concatenation(L1, L2)' % (set(c['L1']), set(c['L2']))


def signature(c, o, code):
    return 'C14:code%d:%s' % (code, key(c))


def distribution(cases, obs):
    d = {}
    for c in cases:
        d[c['kind']] = d.get(c['kind'], 0) + 1
    return d


def shrink(c):
    out = []
    k = c['kind']
    if k == 'lang':
        for key_ in ('L1', 'L2'):
            for w in c[key_]:
                out.append(dict(c, **{key_: [x for x in c[key_] if x != w]}))
        return out
    for name in (['D1', 'D2'] if k == 'pair' else ['D']):
        d = c[name]
        for q in d['Q']:
            if q == d['q0']:
                continue
            e = {'Q': [x for x in d['Q'] if x != q], 'Sigma': d['Sigma'], 'q0': d['q0'], 'F': [x for x in d['F'] if x != q],
                 'delta': [[p, a, (d['q0'] if t == q else t)] for (p, a, t) in d['delta'] if p != q]}
            out.append(dict(c, **{name: e}))
    return out


LEVEL_TEXT = ('Machine-checked Coq theorems for all valid DFAs (pairs over a common alphabet): the models of the union / intersection / symmetric-difference products, complement, reversal, prefix-free and '
              'non-extendable restrictions, unreachable-state removal, reachable-state computation and totalisation are valid automata with exactly the stated languages (all words), and the finite-language '
              'helpers compute exactly the documented set operations. Tied to the Python by in-Coq evaluation with an exact (verified) equivalence test between the implementation result and the model result.')
LEVEL_NOTE = 'Trusted: Coq kernel + vm_compute, models Model/DFAOps.v, Model/Lang.v (dfa_make_total and language_no_prefix as repaired by fixes F1, F4), harness. No axioms. dict keys unique (NoDup) is a hypothesis of two theorems.'
TECHNIQUE = 'Coq proofs by induction on words + verified DFA/NFA equivalence oracle evaluated in Coq on implementation outputs'
