"""Driver of one property check:  build the Coq theorems, run the implementation on generated
cases, evaluate the Coq model + judge on the same cases inside Coq (vm_compute), compare, report."""
import argparse
import atexit
import concurrent.futures as cf
import glob
import hashlib
import importlib
import json
import os
import random
import re
import shutil
import subprocess
import sys
import time

HERE = os.path.dirname(os.path.abspath(__file__))
VERIF = os.path.dirname(HERE)
COQ = os.path.join(VERIF, 'coq')
REPO_SRC = os.environ.get('GT_SRC', '/repo/src')
PY = '/venv/bin/python' if os.path.exists('/venv/bin/python') else sys.executable
NPROC = int(os.environ.get('VERIF_JOBS', '16'))
sys.path.insert(0, HERE)

FORBIDDEN = r'\b(Admitted|admit|Axiom|Parameter|Conjecture|Admit Obligations)\b|Unset Guard|bypass_check|type-in-type|impredicative-set|Unset Universe Checking|Unset Positivity'

TRUSTED_BASE = [
    'Coq 8.16.1 kernel (coqc) and its vm_compute reduction machine (used to evaluate the model and judge on every case); no native_compute',
    'no axioms: every theorem in Properties/ is reported "Closed under the global context" by Print Assumptions (captured below on every run)',
    'hand-written Gallina model of the Python routines (theories/Model/*.v); tied to /repo/src by this correspondence run, not by a translator',
    'harness: case generators, encoding of Python values as Coq literals (names -> small nat codes, sets -> lists), canonicalisation, worker time limits',
    'Python runtime semantics outside the modelled routines (str, set/dict iteration order sampled through PYTHONHASHSEED, copy.deepcopy, re, ANTLR runtime)',
]


_CHILDREN = set()


def sh(cmd, timeout=None, cwd=None, env=None):
    if _ABORT[0]:
        return 1, 'aborted: deadline reached'
    p = subprocess.Popen(cmd, stdout=subprocess.PIPE, stderr=subprocess.STDOUT, text=True, cwd=cwd, env=env, start_new_session=True)
    _CHILDREN.add(p)
    try:
        out, _ = p.communicate(timeout=timeout)
    except subprocess.TimeoutExpired:
        _kill(p)
        out, _ = p.communicate()
    finally:
        _CHILDREN.discard(p)
    return p.returncode, out


def _kill(p):
    try:
        os.killpg(p.pid, 9)          # the child leads its own session: its descendants (timeout -> coqc) go with it
    except Exception:
        try:
            p.kill()
        except Exception:
            pass


class Deadline(Exception):
    pass


_ABORT = [False]


def _on_deadline(signum, frame):
    _ABORT[0] = True
    for ch in list(_CHILDREN):
        _kill(ch)
    raise Deadline('the check did not finish within %s s (on the pinned tree it takes a fraction of that)' % os.environ.get('VERIF_DEADLINE_USED', '?'))


# ----------------------------------------------------------------------------------------- build
def gen_project():
    files = sorted(glob.glob(os.path.join(COQ, 'theories', '**', '*.v'), recursive=True))
    rel = [os.path.relpath(f, COQ) for f in files]
    text = '-Q theories GT\n-arg -w -arg -notation-overridden,-ambiguous-paths,-deprecated-hint-without-locality\n' + '\n'.join(rel) + '\n'
    p = os.path.join(COQ, '_CoqProject')
    old = open(p).read() if os.path.exists(p) else ''
    if old != text or not os.path.exists(os.path.join(COQ, 'Makefile.coq')):
        with open(p, 'w') as f:
            f.write(text)
        sh(['coq_makefile', '-f', '_CoqProject', '-o', 'Makefile.coq'], cwd=COQ)


def make(targets, timeout=3000):
    """Full .vo build of the targets (and dependencies) under a lock; returns (ok, log)."""
    lock = os.path.join(COQ, '.build.lock')
    cmd = ['flock', lock, 'timeout', str(timeout), 'make', '-f', 'Makefile.coq', '-j', str(NPROC)] + targets
    gen_lock = ['flock', lock, 'true']
    sh(gen_lock)
    gen_project()
    rc, out = sh(cmd, cwd=COQ)
    return rc == 0, out


def hygiene():
    bad = []
    for f in glob.glob(os.path.join(COQ, 'theories', '**', '*.v'), recursive=True):
        txt = open(f).read()
        txt = re.sub(r'\(\*.*?\*\)', '', txt, flags=re.S)
        for m in re.finditer(FORBIDDEN, txt):
            bad.append('%s: %s' % (os.path.relpath(f, COQ), m.group(0)))
    return bad


def print_assumptions(prop, work, extra=()):
    """Re-check Properties/<prop>.v (statements closed by `exact`) and capture Print Assumptions; `extra`: further files of
    Properties/ that belong to the property (theorems that import the first file)."""
    theorems, res, rc, out = print_assumptions1(prop, work)
    for e in extra:
        t2, r2, rc2, out2 = print_assumptions1(e, work)
        theorems, rc, out = theorems + t2, rc or rc2, out + out2
        res.update(r2)
    return theorems, res, rc, out


def print_assumptions1(prop, work):
    src = os.path.join(COQ, 'theories', 'Properties', prop + '.v')
    text = open(src).read()
    theorems = re.findall(r'^\s*(?:Theorem|Lemma|Corollary)\s+(\w+)', text, flags=re.M)
    tmp = os.path.join(work, 'PA_%s.v' % prop)
    shutil.copy(src, tmp)
    rc, out = sh(['timeout', '600', 'coqc', '-Q', os.path.join(COQ, 'theories'), 'GT', '-noglob', '-o', os.path.join(work, 'PA_%s.vo' % prop), tmp])
    res = {}
    if rc == 0:
        blocks = re.split(r'(?=Closed under the global context|Axioms:)', out)
        blocks = [b.strip() for b in blocks if b.strip()]
        printed = [x.split('.')[-1] for x in re.findall(r'Print Assumptions\s+([\w.]+?)\.(?:\s|$)', text)]
        for name, b in zip(printed, blocks):
            res[name] = ' '.join(b.split())
    return theorems, res, rc, out


# ----------------------------------------------------------------------------------------- implementation side
RECYCLE_CHUNK = 20


def run_workers(prop, cases, hashseed, work, tag, recycle=False):
    """Run the implementation on all cases (in parallel chunks) with the given PYTHONHASHSEED.
    recycle: the library objects of a chunk are re-used from case to case (refilled in place, see conv.py); chunks of RECYCLE_CHUNK cases."""
    n = len(cases)
    if n == 0:
        return []
    nchunks = min(NPROC, max(1, n // 8))
    size = RECYCLE_CHUNK if recycle else (n + nchunks - 1) // nchunks
    chunks = [cases[i:i + size] for i in range(0, n, size)]
    env = dict(os.environ)
    env.update({'PYTHONHASHSEED': str(hashseed), 'PYTHONPATH': REPO_SRC, 'PYTHONDONTWRITEBYTECODE': '1', 'GT_SRC': REPO_SRC,
                'GAMBATOOLS_VERIF': '1', 'VERIF_WORK': work, 'TMPDIR': work, 'VERIF_RECYCLE': '1' if recycle else '0'})

    def one(i):
        fin = os.path.join(work, 'in_%s_%d.json' % (tag, i))
        fout = os.path.join(work, 'out_%s_%d.json' % (tag, i))
        with open(fin, 'w') as f:
            json.dump(chunks[i], f)
        rc, out = sh([PY, os.path.join(HERE, 'worker.py'), prop, fin, fout], env=env, timeout=3600)
        if rc != 0 or not os.path.exists(fout):
            raise RuntimeError('worker failed (rc=%s):\n%s' % (rc, out[-3000:]))
        with open(fout) as f:
            return json.load(f)

    with cf.ThreadPoolExecutor(NPROC) as ex:
        parts = list(ex.map(one, range(len(chunks))))
    obs = [o for p in parts for o in p]
    for o in obs:
        if isinstance(o, dict) and '__harness_error__' in o:
            raise RuntimeError('harness error while observing: ' + o['__harness_error__'])
    return obs


# ----------------------------------------------------------------------------------------- model side
SHARD_TIMEOUT = int(os.environ.get('VERIF_SHARD_SECONDS', '900'))
CASE_TIMEOUT = int(os.environ.get('VERIF_CASE_SECONDS', '240'))


def coq_eval(mod, terms, work, tag, what='failures', limit=None, fallback=True):
    """terms: list of Coq terms of type nat (judge codes).  Returns list of (index, code) with code != 0."""
    shards = []
    cur, cur_bytes, base = [], 0, 0
    for i, t in enumerate(terms):
        cur.append(t)
        cur_bytes += len(t)
        if len(cur) >= getattr(mod, 'SHARD', 300) or cur_bytes > 400000:
            shards.append((base, cur))
            base, cur, cur_bytes = i + 1, [], 0
    if cur:
        shards.append((base, cur))

    def one(k):
        base, ts = shards[k]
        fn = os.path.join(work, 'cases_%s_%d.v' % (tag, k))
        rc, out = run_file(fn, ts, limit or SHARD_TIMEOUT)
        resource = lambda rc_, out_: rc_ != 0 and (rc_ in (124, 137, 139, -9, -11) or 'Out of memory' in out_ or 'Stack overflow' in out_ or 'Error' not in out_)
        if resource(rc, out) and not fallback:
            raise RuntimeError('shard exceeded its budget of %s s' % limit)
        if resource(rc, out):
            # the shard did not finish within its budget: evaluate its cases one by one; a case that still does not finish gets
            # code 98 (the judge could not be evaluated on this observation - the correspondence is not established for it)
            res = []
            for j, t in enumerate(ts):
                fj = os.path.join(work, 'cases_%s_%d_%d.v' % (tag, k, j))
                rcj, outj = run_file(fj, [t], CASE_TIMEOUT)
                if resource(rcj, outj):
                    res.append((base + j, 98))
                elif rcj != 0:
                    raise RuntimeError('coqc failed on %s:\n%s' % (fj, outj[-3000:]))
                else:
                    res.extend((base + j + a, b) for a, b in parse(outj))
            return res
        if rc != 0:
            raise RuntimeError('coqc failed on %s:\n%s' % (fn, out[-3000:]))
        return [(base + a, b) for a, b in parse(out)]

    def run_file(fn, ts, limit):
        with open(fn, 'w') as f:
            f.write('From GT Require Import Base.Prelude Judge.Common %s.\n' % ' '.join(mod.COQ_IMPORTS))
            f.write('Definition results : list nat := [\n' + ';\n'.join(ts) + '\n].\n')
            f.write('Definition fr : list (nat * nat) := Eval vm_compute in (failures results).\nEval vm_compute in fr.\nEval vm_compute in (length fr).\n')
        return sh(['timeout', '-s', 'KILL', str(limit), 'coqc', '-Q', os.path.join(COQ, 'theories'), 'GT', '-noglob', '-o', fn + 'o', fn])

    def parse(out):
        m = re.search(r'=\s*(.*?)\s*:\s*list \(nat \* nat\)', out, flags=re.S)
        if not m:
            raise RuntimeError('cannot parse coqc output:\n' + out[-2000:])
        got = [(int(a), int(b)) for a, b in re.findall(r'\(\s*(\d+)\s*,\s*(\d+)\s*\)', m.group(1))]   # Coq may break the line after '('
        n = re.search(r'=\s*(\d+)\s*:\s*nat\s*$', out.strip())
        if not n or int(n.group(1)) != len(got):                                     # the count printed by Coq itself must agree with what was parsed
            raise RuntimeError('parsed %d failures, Coq counted %s:\n%s' % (len(got), n.group(1) if n else '?', out[-2000:]))
        return got

    with cf.ThreadPoolExecutor(NPROC) as ex:
        parts = list(ex.map(one, range(len(shards))))
    return [x for p in parts for x in p]


def coq_explain(mod, term, work, tag):
    fn = os.path.join(work, 'explain_%s.v' % tag)
    with open(fn, 'w') as f:
        f.write('From GT Require Import Base.Prelude Judge.Common %s.\n' % ' '.join(mod.COQ_IMPORTS))
        f.write('Eval vm_compute in (%s).\n' % term)
    rc, out = sh(['timeout', '300', 'coqc', '-Q', os.path.join(COQ, 'theories'), 'GT', '-noglob', '-o', fn + 'o', fn])
    return ' '.join(out.split())[:6000]


# ----------------------------------------------------------------------------------------- findings
def load_known():
    p = os.path.join(VERIF, 'known_findings.json')
    if not os.path.exists(p):
        return {'findings': [], 'fixed': []}
    return json.load(open(p))


def evaluate(mod, prop, cases, seed, work, tag, recycle=False, limit=None, fallback=True):
    obs = run_workers(prop, cases, seed, work, tag, recycle=recycle)
    terms = [mod.encode(c, o) for c, o in zip(cases, obs)]
    fails = coq_eval(mod, terms, work, tag, limit=limit, fallback=fallback)
    return obs, fails


def shrink(mod, prop, case, code, seed, work):
    if not hasattr(mod, 'shrink'):
        return case
    rounds = 0
    deadline = time.time() + float(os.environ.get('VERIF_SHRINK_SECONDS', '120'))
    while rounds < 25 and time.time() < deadline:
        cands = list(mod.shrink(case))[:200]
        if not cands:
            break
        try:
            # a round that does not finish within what is left of the shrinking budget ends the shrinking (the case found so far is reported)
            obs, fails = evaluate(mod, prop, cands, seed, work, 'shr%d' % rounds, limit=max(20, int(deadline - time.time()) + 20), fallback=False)
        except RuntimeError:
            break
        keep = [i for i, c in fails if c == code]
        if not keep:
            break
        case = cands[keep[0]]
        rounds += 1
    return case


# ----------------------------------------------------------------------------------------- main
def main():
    ap = argparse.ArgumentParser()
    ap.add_argument('prop')
    ap.add_argument('--tier', default=os.environ.get('VERIF_TIER') or 'quick')
    ap.add_argument('--replay')
    args = ap.parse_args()
    prop, tier = args.prop, args.tier
    if tier not in ('quick', 'thorough'):
        tier = 'quick'
    seed0 = int(os.environ.get('VERIF_SEED', '0') or 0)
    t0 = time.time()
    # overall budget: a change that makes the implementation (or the judge on its output) many times slower must end in a verdict, not in
    # an external time-out.  quick: 780 s (the slowest quick check takes under 300 s on the pinned tree), thorough: 4 h.
    import signal
    deadline = int(os.environ.get('VERIF_DEADLINE') or ('780' if tier == 'quick' else '14400'))
    os.environ['VERIF_DEADLINE_USED'] = str(deadline)
    signal.signal(signal.SIGALRM, _on_deadline)
    signal.alarm(deadline)
    mod = importlib.import_module('props.' + prop)
    work = os.path.join(VERIF, '.work', '%s-%d' % (prop, os.getpid()))
    os.makedirs(work, exist_ok=True)
    atexit.register(lambda: shutil.rmtree(work, ignore_errors=True))
    EVID = os.environ.get('VERIF_EVIDENCE_DIR') or os.path.join(VERIF, 'evidence')     # runs against seeded changes write their evidence elsewhere
    os.makedirs(EVID, exist_ok=True)
    os.makedirs(os.path.join(VERIF, 'replays'), exist_ok=True)

    # --- 1. theorems
    judge_targets = ['theories/Judge/%s_judge.vo' % j for j in [getattr(mod, 'JUDGE', prop)] + list(getattr(mod, 'EXTRA_JUDGES', []))]
    okj, logj = make(judge_targets)
    if not okj:
        print(logj[-4000:])
        print('HARNESS-ERROR: the judge for %s does not build' % prop)
        sys.exit(2)
    extra = getattr(mod, 'EXTRA_TARGETS', [])
    xprops = list(getattr(mod, 'EXTRA_PROPERTIES', []))
    okp, logp = make(['theories/Properties/%s.vo' % p_ for p_ in [prop] + xprops] + extra)
    theorems, pa, parc, paout = print_assumptions(prop, work, xprops) if okp else ([t for p_ in [prop] + xprops for t in re.findall(r'^\s*(?:Theorem|Lemma|Corollary)\s+(\w+)', open(os.path.join(COQ, 'theories', 'Properties', p_ + '.v')).read(), flags=re.M)], {}, 1, logp)
    bad = hygiene()
    closed = [t for t in theorems if pa.get(t, '').startswith('Closed under the global context')]
    std_axioms = {t: pa[t] for t in theorems if t in pa and t not in closed}
    allowed = getattr(mod, 'ALLOWED_AXIOMS', [])
    discharged = len(closed) + sum(1 for t, txt in std_axioms.items() if all(any(a in line for a in allowed) for line in re.findall(r'(\w[\w.]*)\s*:', txt)) and allowed)
    proofs_ok = okp and parc == 0 and not bad and discharged == len(theorems) and len(theorems) > 0

    # --- replay mode
    if args.replay:
        rp = json.load(open(args.replay))
        if rp.get('kind') == 'no-failing-input-found' and 'case' not in rp:
            print('replay names a broken obligation, no input: %s; proofs_ok now = %s' % (rp.get('broken'), proofs_ok))
            sys.exit(0 if proofs_ok else 1)
        case = rp['case']
        hs = rp.get('hashseed', 0)
        if rp.get('recycle'):
            seq = rp.get('predecessors', []) + [case]
            obs, fails = evaluate(mod, prop, seq, hs, work, 'replay', recycle=True)
            obs, fails = obs[-1:], [(0, c) for i, c in fails if i == len(seq) - 1]
        else:
            obs, fails = evaluate(mod, prop, [case], hs, work, 'replay')
        print('observation:', json.dumps(obs[0])[:2000])
        fails = [f for f in fails if f[1] != 1]          # code 1 is the informational layer, never a violation
        if fails:
            print('still failing: code %d (%s)' % (fails[0][1], mod.CODES.get(fails[0][1], '?')))
            print('VIOLATION property=%s replay=%s' % (prop, args.replay))
            sys.exit(1)
        print('replay passes on the current tree')
        sys.exit(0)

    # --- 2. cases
    rng = random.Random(seed0 * 1000003 + int(hashlib.sha256(prop.encode()).hexdigest()[:8], 16))
    corpus = []
    for f in sorted(glob.glob(os.path.join(HERE, 'corpus', prop, '*.json'))):
        corpus.append(json.load(open(f)))
    gen = mod.gen(rng, tier)
    cases = corpus + gen
    seeds = mod.hashseeds(tier) if hasattr(mod, 'hashseeds') else [0]

    # --- 3./4. implementation vs model
    all_fails = []  # (hashseed, index, code)
    obs_by_seed = {}
    struct_only = 0
    for hs in seeds:
        obs, fails = evaluate(mod, prop, cases, hs, work, 'hs%d' % hs)
        obs_by_seed[hs] = obs
        for i, c in fails:
            if c == 1:
                struct_only += 1
            else:
                all_fails.append((hs, i, c))

    # --- object-recycling pass: a sample of the cases is run again, in chunks, with the library objects of a chunk refilled in
    #     place from case to case (conv.py); anything the library remembers per object is then stale
    recycle_info = None
    rec_cases, rec_index = [], []
    if getattr(mod, 'RECYCLE', True) and os.environ.get('VERIF_NO_RECYCLE') != '1':
        limit = int(os.environ.get('VERIF_RECYCLE_CASES', '240' if tier == 'quick' else '4000'))
        idx = list(range(len(cases)))
        if len(idx) > limit:
            idx = sorted(random.Random(seed0 + 77).sample(idx, limit))
        random.Random(seed0 + 78).shuffle(idx)         # neighbours in a chunk should be unrelated objects
        rec_index = idx
        rec_cases = [cases[i] for i in idx]
        robs, rfails = evaluate(mod, prop, rec_cases, seeds[0], work, 'rec', recycle=True)
        obs_by_seed['recycle'] = {i: o for i, o in zip(idx, robs)}
        for j, c in rfails:
            if c == 1:
                continue
            # only what fails here but not in the ordinary pass of the same hash seed is attributed to recycling
            if not any(h == seeds[0] and i == idx[j] for h, i, _ in all_fails):
                all_fails.append(('recycle', idx[j], c))
        recycle_info = {'cases': len(idx), 'chunk': RECYCLE_CHUNK}
    # --- values that must not depend on the hash seed (C19): compared across the runs
    if hasattr(mod, 'stable_values') and len(seeds) > 1:
        base = obs_by_seed[seeds[0]]
        for hs in seeds[1:]:
            for i, (o0, o1) in enumerate(zip(base, obs_by_seed[hs])):
                v0, v1 = mod.stable_values(cases[i], o0), mod.stable_values(cases[i], o1)
                if v0 != v1:
                    all_fails.append((hs, i, 99))
    # --- classify
    known = load_known()
    kf = [k for k in known.get('findings', []) if k['property'] == prop]
    violations = []
    known_hits = {}
    seen_sig = set()
    for hs, i, c in all_fails:
        sig = mod.signature(cases[i], obs_by_seed[hs][i], c) if hasattr(mod, 'signature') else 'code%d' % c
        hit = next((k for k in kf if k['signature'] == sig), None)
        if hit:
            known_hits.setdefault(hit['id'], (hit, 0))
            known_hits[hit['id']] = (hit, known_hits[hit['id']][1] + 1)
            continue
        if (sig, c) in seen_sig:
            continue
        seen_sig.add((sig, c))
        violations.append((hs, i, c, sig))

    for fid, (hit, cnt) in sorted(known_hits.items()):
        print('KNOWN-FINDING: property=%s %s %s (%d cases in this run)' % (prop, fid, hit['text'], cnt))

    # report at most 4 violations, preferring distinct codes
    violations.sort(key=lambda v: v[2])
    chosen, codes_seen = [], set()
    for v in violations:
        if v[2] not in codes_seen:
            codes_seen.add(v[2])
            chosen.append(v)
    for v in violations:
        if v not in chosen and len(chosen) < 2:
            chosen.append(v)
    replay_paths = []
    nfif = set()
    for hs, i, c, sig in chosen[:4]:
        if c == 98:
            # the judge could not be evaluated on this observation within its budget: the correspondence is not established
            # for this case, no failing input is exhibited
            h = hashlib.sha256(json.dumps(cases[i], sort_keys=True).encode()).hexdigest()[:8]
            rp = os.path.join(VERIF, 'replays', '%s-%s.json' % (prop, h))
            with open(rp, 'w') as f:
                json.dump({'property': prop, 'kind': 'no-failing-input-found', 'code': 98,
                           'broken': 'correspondence Judge/%s_judge.v on this case: evaluation inside Coq exceeded %d s (the implementation returned an object far '
                                     'larger than the model predicts, or the model diverges on it)' % (getattr(mod, 'JUDGE', prop), CASE_TIMEOUT),
                           'signature': sig, 'hashseed': hs, 'case': cases[i], 'observed': obs_by_seed[hs][i],
                           'readable': mod.describe(cases[i]) if hasattr(mod, 'describe') else None,
                           'replay_cmd': './check %s --replay %s' % (prop, rp)}, f, indent=1, ensure_ascii=False)
            replay_paths.append(rp)
            nfif.add(rp)
            continue
        if hs == 'recycle':
            j = rec_index.index(i)
            start = (j // RECYCLE_CHUNK) * RECYCLE_CHUNK
            h = hashlib.sha256(json.dumps(cases[i], sort_keys=True).encode()).hexdigest()[:8]
            rp = os.path.join(VERIF, 'replays', '%s-%s-seq.json' % (prop, h))
            with open(rp, 'w') as f:
                json.dump({'property': prop, 'kind': 'failing-input', 'code': c, 'meaning': mod.CODES.get(c, ''), 'signature': sig, 'hashseed': seeds[0],
                           'recycle': True, 'note': 'call sequence in ONE process: the predecessors are run first, every library object is the object of the '
                           'previous case refilled in place (harness/conv.py); the last case is the one judged', 'predecessors': rec_cases[start:j],
                           'case': cases[i], 'observed': obs_by_seed['recycle'][i],
                           'readable': mod.describe(cases[i]) if hasattr(mod, 'describe') else None,
                           'replay_cmd': './check %s --replay %s' % (prop, rp)}, f, indent=1, ensure_ascii=False)
            if rp not in replay_paths:
                replay_paths.append(rp)
            continue
        try:
            small = shrink(mod, prop, cases[i], c, hs, work)
            obs1, fails1 = evaluate(mod, prop, [small], hs, work, 'final')
            if not fails1:
                small = cases[i]
                obs1 = [obs_by_seed[hs][i]]
            expl = coq_explain(mod, mod.explain(small), work, 'x') if hasattr(mod, 'explain') else ''
        except Deadline:
            # the overall budget ran out while the failing input was being minimised: report the input as found
            _ABORT[0] = False
            small, obs1, expl = cases[i], [obs_by_seed[hs][i]], '(not evaluated: the overall time budget ran out during minimisation)'
        h = hashlib.sha256(json.dumps(small, sort_keys=True).encode()).hexdigest()[:8]
        rp = os.path.join(VERIF, 'replays', '%s-%s.json' % (prop, h))
        with open(rp, 'w') as f:
            json.dump({'property': prop, 'kind': 'failing-input', 'code': c, 'meaning': mod.CODES.get(c, ''), 'signature': sig,
                       'hashseed': hs, 'case': small, 'observed': obs1[0], 'model': expl,
                       'readable': mod.describe(small) if hasattr(mod, 'describe') else None,
                       'reproduce': mod.reproduce(small) if hasattr(mod, 'reproduce') else None,
                       'replay_cmd': './check %s --replay %s' % (prop, rp)}, f, indent=1, ensure_ascii=False)
        if rp not in replay_paths:
            replay_paths.append(rp)

    nviol = len(replay_paths)
    if not proofs_ok and nviol == 0:
        rp = os.path.join(VERIF, 'replays', '%s-obligation.json' % prop)
        with open(rp, 'w') as f:
            json.dump({'property': prop, 'kind': 'no-failing-input-found',
                       'broken': 'theories/Properties/%s.v' % prop, 'build_ok': okp, 'forbidden_tokens': bad,
                       'theorems': theorems, 'print_assumptions': pa, 'log_tail': (logp if not okp else paout)[-3000:],
                       'searched': '%d cases x hash seeds %s, no disagreement between implementation and model' % (len(cases), seeds)}, f, indent=1)
        replay_paths.append(rp)

    # --- thorough tier: independent re-check of the compiled property library with coqchk (prints the axioms it relies on)
    coqchk_summary = None
    if tier == 'thorough' and okp and os.environ.get('VERIF_NO_COQCHK') != '1':
        rc_chk, out_chk = sh(['timeout', '1800', 'coqchk', '-silent', '-o', '-Q', os.path.join(COQ, 'theories'), 'GT', 'GT.Properties.%s' % prop] + ['GT.Properties.%s' % x for x in getattr(mod, 'EXTRA_PROPERTIES', [])])
        tail = out_chk.strip().split('\n')[-25:]
        coqchk_summary = {'exit': rc_chk, 'tail': tail}
        if rc_chk != 0:
            proofs_ok = False
    # --- evidence
    keys = set()
    nontriv = 0
    for c, o in zip(cases, obs_by_seed[seeds[0]]):
        k = mod.key(c) if hasattr(mod, 'key') else json.dumps(c, sort_keys=True)
        if k in keys:
            continue
        keys.add(k)
        if mod.nontrivial(c, o):
            nontriv += 1
    dist = mod.distribution(cases, obs_by_seed[seeds[0]]) if hasattr(mod, 'distribution') else {}
    samples = [mod.describe(c) if hasattr(mod, 'describe') else c for c in (gen[:2] + gen[-1:] if gen else cases[:2])]
    ev = {
        'property_id': prop, 'tier': tier, 'seed': seed0, 'level': 'proof', 'wall_s': round(time.time() - t0, 2),
        'violations': nviol + (0 if proofs_ok or nviol else 1),
        'coverage': {
            'obligations': len(theorems), 'discharged': discharged if okp else 0,
            'theorems': theorems, 'partial_statements': [t for t in theorems if t.endswith('_partial')],
            'checker_cmd': 'make -C coq -f Makefile.coq theories/Properties/%s.vo && coqc Properties/%s.v (Print Assumptions) && coqc cases_*.v (vm_compute judge)' % (prop, prop),
            'trusted_base': TRUSTED_BASE + getattr(mod, 'TRUSTED_EXTRA', []),
            'print_assumptions': pa, 'forbidden_tokens_found': bad, 'coqchk': coqchk_summary,
            'evaluations': len(cases) * len(seeds) + (recycle_info or {}).get('cases', 0), 'distinct_nontrivial': nontriv,
            'rule': mod.RULE + (' One extra pass re-runs a sample of the cases with the library objects refilled in place from case to case (object recycling, harness/conv.py): results remembered per object are then stale.' + (' In that pass the PDA closure limit is set to 3 (no PDA is involved in this property, the setting must not matter).' if getattr(mod, 'PDA_FREE', False) else '') + (' In that pass logging is switched on (GambaTools.enable_logging = True), which must not change any result.' if getattr(mod, 'LOG_SAFE', False) else '') if recycle_info else ''), 'hashseeds': seeds, 'corpus_cases': len(corpus), 'object_recycling_pass': recycle_info,
            'structural_layer_only_mismatches': struct_only,
            'known_findings_hit': {k: v[1] for k, v in known_hits.items()},
            'distribution': dist, 'samples': samples,
            'modelled_not_verified': getattr(mod, 'RESIDUE', ''),
        },
        'assumptions': getattr(mod, 'ASSUMPTIONS', []),
    }
    with open(os.path.join(EVID, prop + '.json'), 'w') as f:
        json.dump(ev, f, indent=1, ensure_ascii=False)

    print('%s tier=%s: %d theorems (%d discharged), %d cases x %d hash seeds, %d non-trivial distinct, %d structural-only, %d violations, %.1fs'
          % (prop, tier, len(theorems), ev['coverage']['discharged'], len(cases), len(seeds), nontriv, struct_only, nviol, time.time() - t0))
    if nviol:
        for rp in replay_paths:
            print('VIOLATION property=%s replay=%s%s' % (prop, rp, ' no-failing-input-found' if rp in nfif else ''))
        sys.exit(1)
    if not proofs_ok:
        print('VIOLATION property=%s replay=%s no-failing-input-found' % (prop, replay_paths[0]))
        sys.exit(1)
    sys.exit(0)


if __name__ == '__main__':
    try:
        main()
    except SystemExit:
        raise
    except BaseException:
        # The correspondence could not be evaluated at all (the implementation made the observation code or the judge fail in a way
        # that does not happen on the pinned tree).  The property is then not shown to hold: reported as a violation without a failing
        # input, naming what broke (never silently, never as a bare non-zero exit).
        import traceback
        tb = traceback.format_exc()
        for ch in list(_CHILDREN):
            _kill(ch)
        print(tb)
        prop = next((a for a in sys.argv[1:] if re.fullmatch(r'C\d\d', a)), 'unknown')
        rp = os.path.join(VERIF, 'replays', '%s-correspondence.json' % prop)
        os.makedirs(os.path.dirname(rp), exist_ok=True)
        with open(rp, 'w') as f:
            json.dump({'property': prop, 'kind': 'no-failing-input-found', 'broken': 'the correspondence run of %s could not be completed' % prop,
                       'traceback': tb[-4000:]}, f, indent=1)
        print('VIOLATION property=%s replay=%s no-failing-input-found' % (prop, rp))
        sys.exit(1)
