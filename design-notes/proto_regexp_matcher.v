From Coq Require Import List Arith Bool Lia.
Import ListNotations.
Inductive re := Zero | One | Sym (a:nat) | Plus (r s:re) | Cat (r s:re) | Star (r:re).
Definition word := list nat.
Fixpoint acc (r:re) (w:word) {struct r} : bool :=
  match r with
  | Zero => false
  | One => match w with [] => true | _ => false end
  | Sym a => match w with [b] => Nat.eqb a b | _ => false end
  | Plus r1 r2 => acc r1 w || acc r2 w
  | Cat r1 r2 => existsb (fun k => acc r1 (firstn k w) && acc r2 (skipn k w)) (seq 0 (S (length w)))
  | Star r1 =>
     (fix star (n:nat) (w:word) {struct n} : bool :=
        match w with
        | [] => true
        | _ => match n with
               | 0 => false
               | S n' => existsb (fun k => acc r1 (firstn k w) && star n' (skipn k w)) (seq 1 (length w))
               end
        end) (length w) w
  end.
Eval vm_compute in acc (Star (Plus (Sym 0) (Cat (Sym 1) (Sym 1)))) [0;1;1;0;1;1;1;1].
Eval vm_compute in acc (Star (Star (Plus One (Sym 0)))) [0;0;0;1].
Inductive lang : re -> word -> Prop :=
| LOne : lang One []
| LSym a : lang (Sym a) [a]
| LPlusL r s w : lang r w -> lang (Plus r s) w
| LPlusR r s w : lang s w -> lang (Plus r s) w
| LCat r s u v : lang r u -> lang s v -> lang (Cat r s) (u++v)
| LStar0 r : lang (Star r) []
| LStarS r u v : lang r u -> lang (Star r) v -> lang (Star r) (u++v).
