"""C12 - an exercise checker never prints OK for an answer that violates the exercise criterion."""
import exercises2 as E
import coqlit as L

COQ_IMPORTS = ['Model.DFA', 'Model.NFA', 'Model.Regexp', 'Model.CFG', 'Model.Lang', 'Model.CYK', 'Model.Checkers', 'Model.PDA', 'Judge.Common', 'Judge.C12_judge', 'Judge.C12fb_judge']
EXTRA_JUDGES = ['C12fb']
RULE = ('exercise instances of the 31 exercise kinds (language from word list for DFA / NFA / regexp / grammar, language from a reference file (DFA, NFA, regexp answers against DFA, NFA, regexp files), accept/reject lists for CFG and DFA, automata_checker.check_{dfa,nfa}_for_given_language, union, intersection, symmetric difference, complement, reverse, '
        'minimal DFA (quotient and Hopcroft answers), NFA-to-DFA, DFA-to-regexp, CYK table, leftmost / rightmost / any derivation, Chomsky phases 1-5) with random references; for each the library\'s own answer '
        '(notebooks/make_notebook.apply_command) and single-fault perturbations of it (dropped / duplicated / replaced token or character, dropped or swapped line, flipped accepting state). '
        'The real check_* function runs with stdout captured; the answer is parsed with the parser the checker uses and the proved model checker (Model/Checkers.v) decides the criterion inside Coq. '
        'Relation: printed OK implies criterion; every printed counterexample word ("word w should (not) be accepted") is judged against the bounded languages of answer and reference computed by the proved enumerators: genuine, right polarity, minimal length in its difference set for the language-comparison feedback. Non-trivial = at least one perturbed answer is rejected and the own answer is accepted; distinct by (kind, seed).')
CODES = {1: 'undecidable within the oracle budget', 15: 'a reported counterexample word is not genuine / has the wrong polarity / is not of minimal length'}
for c, k in [(10, 'language-from-words'), (20, 'accept/reject lists'), (30, 'product automaton'), (40, 'complement'), (50, 'reverse'), (60, 'minimal DFA'), (70, 'NFA-to-DFA'),
             (80, 'DFA-to-regexp'), (90, 'CYK table'), (100, 'derivation'), (110, 'Chomsky phase'), (120, 'language-from-file'), (130, 'given-language (automata_checker)')]:
    CODES[c] = k + ' checker printed OK for an answer that violates the criterion'
    CODES[c + 1] = k + ': the library\'s own answer was not accepted'
    CODES[c + 2] = k + ': the model checker rejects the library\'s own answer'
ASSUMPTIONS = ['the formal reading of each exercise criterion is the one fixed in DESIGN.md section 6 (C12) and Model/Checkers.v']
RESIDUE = 'answer parsing (covered by C16/C17), print / stdout capture, IPython display'
SHARD = 12
MUST_OK = False


def hashseeds(tier):
    # the reported counterexample is chosen from a Python set: sampled under several iteration orders
    return [0, 1, 2] if tier == 'quick' else list(range(8))


def gen(rng, tier):
    return E.gen_cases(rng, 8 if tier == 'quick' else 120, 5 if tier == 'quick' else 8)


def observe(c):
    return E.observe(c)


def encode(c, o):
    if o.get('setup_error'):
        return '0'
    terms = []
    for a in o['answers']:
        terms.append('(%s)' % E.encode_answer(c, o, a, MUST_OK))
        fb = E.encode_feedback(c, o, a)
        if fb:
            terms.append('(%s)' % fb)
    return 'worst_code %s' % L.lst(terms)


def key(c):
    return '%s|%d' % (c['ex'], c['seed'])


def nontrivial(c, o):
    a = o['answers']
    return bool(a) and a[0]['printed_ok'] and any(not x['printed_ok'] for x in a[1:])


def describe(c):
    return {k: v for k, v in c.items()}


def reproduce(c):
    return 'see "observed": each answer text with the checker output; exercise kind %s' % c['ex']


def signature(c, o, code):
    return 'C12:code%d:%s' % (code, key(c))


def distribution(cases, obs):
    d = {'answers': 0, 'printed_ok': 0, 'rejected': 0, 'unparsed': 0, 'setup_errors': 0, 'per_kind': {}}
    for c, o in zip(cases, obs):
        d['per_kind'][c['ex']] = d['per_kind'].get(c['ex'], 0) + 1
        if o.get('setup_error'):
            d['setup_errors'] += 1
        for a in o['answers']:
            d['answers'] += 1
            d['printed_ok' if a['printed_ok'] else 'rejected'] += 1
            d['unparsed'] += 1 if a['parsed'] is None else 0
    return d


def shrink(c):
    return []


LEVEL_TEXT = ('Coq theorems: the model of every checker decision (Model/Checkers.v) implies the exercise criterion stated over the specification languages (compare_languages reports a genuine, minimal-length '
              'counterexample with the right polarity; structural checks are the criterion itself) - see evidence for _partial items. Tied to the Python by running the real checkers on own and perturbed answers and '
              'evaluating the model checker inside Coq on the parsed objects: a printed OK must be backed by the criterion.')
LEVEL_NOTE = 'Trusted: Coq kernel + vm_compute, Model/Checkers.v (check_dfa_complement and check_cyk_matrix as repaired by fixes F5, F6), the library parsers for the answer text (C16/C17), stdout capture. No axioms.'
TECHNIQUE = 'Coq proof of checker soundness over object-level models + in-Coq evaluation of the criterion on real checker runs (fault-injected answers)'
