(* Object-level model of gambatools.automata_checker._compare_words / check_{dfa,nfa}_for_given_language and of
   notebook.check_language_from_file (check_equal_languages = compare_languages on the two generated languages).
   `pick` = next(iter(set)) (an arbitrary element).  Result of compare_words: None = {'correct': True};
   Some (true, w) = "word w should not be accepted" (w accepted but not expected); Some (false, w) = "word w is not
   accepted" (w expected but not accepted).  The replacement of the word 'ε' by '' in the expected list is done by the
   harness when it splits the language string.  Definitions only. *)
From GT Require Import Base.Prelude Model.DFA Model.NFA Model.Checkers.

Definition compare_words (pick : picker word) (accepted expected : list word) : option (bool * word) :=
  if seteqb accepted expected then None
  else match pick (diff accepted expected) with
       | Some (w, _) => Some (true, w)
       | None => match pick (diff expected accepted) with
                 | Some (w, _) => Some (false, w)
                 | None => None            (* unreachable: the sets differ *)
                 end
       end.
Definition given_language_ok (pick : picker word) (accepted expected : list word) : bool :=
  match compare_words pick accepted expected with None => true | Some _ => false end.

(* check_language_from_file: feedback = compare_languages (generate_language A1 n) (generate_language A2 n) *)
Definition check_language_from_file (A1 A2 : list word) : bool := lang_ok A1 A2.
