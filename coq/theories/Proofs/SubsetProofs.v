(* Property C03: the subset construction nfa_to_dfa (Model/NFA.v) yields a valid, total DFA over the same
   alphabet with the same language, all of whose states are reachable; it terminates within 2^|Q|+1 rounds.
   Corollaries: the NFA/DFA and NFA/NFA equivalence tests of Decide/DFAEquiv.v are exact. *)
From GT Require Import Base.Prelude Base.Worklist Base.Sort Model.DFA Model.NFA Decide.DFAEquiv
  Proofs.WorklistProofs Proofs.NFAProofs Proofs.DFAEquivProofs.

(* ---------------------------------------------------------------- generic helpers *)
Fixpoint powerset {A} (l : list A) : list (list A) :=
  match l with
  | [] => [[]]
  | x :: l' => map (cons x) (powerset l') ++ powerset l'
  end.

Lemma powerset_length {A} (l : list A) : length (powerset l) = 2 ^ length l.
Proof.
  induction l as [|x l IH]; [reflexivity|].
  cbn [powerset length]. rewrite app_length, map_length, IH, Nat.pow_succ_r'. lia.
Qed.

Lemma filter_powerset {A} (f : A -> bool) (l : list A) : In (filter f l) (powerset l).
Proof.
  induction l as [|x l IH]; [left; reflexivity|].
  cbn [filter powerset]. apply in_or_app. destruct (f x); [left; apply in_map; exact IH | right; exact IH].
Qed.

Lemma update_In {K V} `{Eqb K} (k : K) (v : V) (m : list (K * V)) k' v' :
  In (k', v') (update k v m) -> (k', v') = (k, v) \/ In (k', v') m.
Proof.
  induction m as [|[k0 v0] m IH]; cbn [update].
  - intros [E|[]]. left. symmetry. exact E.
  - destruct (eqb k k0).
    + intros [E|Hin]; [left; symmetry; exact E | right; right; exact Hin].
    + intros [E|Hin]; [right; left; exact E|]. destruct (IH Hin) as [E|Hin2]; [left; exact E | right; right; exact Hin2].
Qed.

Lemma rev_eq_cons {A} (l : list A) x r : rev l = x :: r -> l = rev r ++ [x].
Proof. intros E. rewrite <- (rev_involutive l), E. reflexivity. Qed.

Lemma rev_eq_nil {A} (l : list A) : rev l = [] -> l = [].
Proof. intros E. rewrite <- (rev_involutive l), E. reflexivity. Qed.

Section SubsetP.
  Context {A : Type} `{Eqb A}.
  Variable canon : list A -> list A.
  Hypothesis canon_In : forall l y, In y (canon l) <-> In y l.
  Hypothesis canon_ext : forall l1 l2, (forall y, In y l1 <-> In y l2) -> canon l1 = canon l2.

  Definition state : Type := (list (list A) * list ((list A * nat) * list A) * list (list A) * list (list A))%type.
  Definition stQ (st : state) : list (list A) := fst (fst (fst st)).
  Definition stTodo (st : state) : list (list A) := snd st.

  Section Fixed.
    Variable N : nfa A.
    Hypothesis Hwf : nfa_wf N.

    (* one step of the subset automaton, and its initial state *)
    Definition T (X : list A) (a : nat) : list A := canon (eclose N (big_union (map (fun q1 => ndelta N q1 a) X))).
    Definition Q0 : list A := canon (eclose N [nq0 N]).

    Lemma succ_incl X a : incl (big_union (map (fun q1 => ndelta N q1 a) X)) (nQ N).
    Proof.
      intros p Hp. apply big_union_In in Hp. destruct Hp as (l & Hl & Hp).
      apply in_map_iff in Hl. destruct Hl as (q & <- & _). apply (ndelta_wf N q a Hwf). exact Hp.
    Qed.

    Lemma T_In X a p : In p (T X a) <-> exists q q1, In q X /\ In q1 (ndelta N q a) /\ eps_star N q1 p.
    Proof.
      unfold T. rewrite canon_In, (eclose_spec N _ Hwf (succ_incl X a)). split.
      - intros (s & Hs & Hst). apply big_union_In in Hs. destruct Hs as (l & Hl & Hs).
        apply in_map_iff in Hl. destruct Hl as (q & <- & Hq). exists q, s. auto.
      - intros (q & q1 & Hq & Hq1 & Hst). exists q1. split; [|exact Hst]. apply big_union_In.
        exists (ndelta N q a). split; [|exact Hq1]. apply in_map_iff. exists q. auto.
    Qed.

    Lemma q0_incl : incl [nq0 N] (nQ N).
    Proof. intros x [<-|[]]. destruct Hwf as (Hq & _). exact Hq. Qed.

    Lemma Q0_In q : In q Q0 <-> eps_star N (nq0 N) q.
    Proof.
      unfold Q0. rewrite canon_In, (eclose_spec N _ Hwf q0_incl). split.
      - intros (s & [<-|[]] & Hs). exact Hs.
      - intros Hs. exists (nq0 N). split; [left; reflexivity | exact Hs].
    Qed.

    Lemma fold_T_spec : forall (w : word) X p, In p (fold_left T w X) <-> exists q, In q X /\ spath N q w p.
    Proof.
      induction w as [|a w IH]; intros X p; cbn [fold_left spath].
      - split; [intros Hp; exists p; split; [exact Hp | reflexivity] | intros (q & Hq & <-); exact Hq].
      - rewrite IH. split.
        + intros (p1 & Hp1 & Hs). apply T_In in Hp1. destruct Hp1 as (q & q1 & Hq & Hq1 & Hst).
          exists q. split; [exact Hq|]. exists q1, p1. auto.
        + intros (q & Hq & q1 & p1 & Hq1 & Hst & Hs). exists p1. split; [|exact Hs].
          apply T_In. exists q, q1. auto.
    Qed.

    Lemma fold_T_path (w : word) p : In p (fold_left T w Q0) <-> nfa_path N (nq0 N) w p.
    Proof.
      rewrite fold_T_spec, nfa_path_spath. split.
      - intros (q & Hq & Hs). exists q. split; [apply Q0_In; exact Hq | exact Hs].
      - intros (q & Hq & Hs). exists q. split; [apply Q0_In; exact Hq | exact Hs].
    Qed.

    (* every set produced by the construction is the canonical form of a subset of the NFA states *)
    Definition is_subset (X : list A) : Prop := exists Y, incl Y (nQ N) /\ X = canon Y.

    Lemma T_subset X a : is_subset (T X a).
    Proof. eexists. split; [|reflexivity]. apply (eclose_incl N _ Hwf (succ_incl X a)). Qed.

    Lemma Q0_subset : is_subset Q0.
    Proof. eexists. split; [|reflexivity]. apply (eclose_incl N _ Hwf q0_incl). Qed.

    Lemma count_subsets (Q : list (list A)) : NoDup Q -> (forall X, In X Q -> is_subset X) ->
      length Q <= 2 ^ length (nQ N).
    Proof.
      intros Hnd Hsub. rewrite <- powerset_length, <- (map_length canon (powerset (nQ N))).
      apply NoDup_incl_length; [exact Hnd|]. intros X HX. destruct (Hsub X HX) as (Y & HY & ->).
      replace (canon Y) with (canon (filter (fun x => mem x Y) (nQ N))).
      - apply in_map. apply filter_powerset.
      - apply canon_ext. intros y. rewrite filter_In, mem_In. split; [tauto|]. intros Hy. split; [apply HY; exact Hy | exact Hy].
    Qed.

    (* ---- invariants ---- *)
    Definition Core (st : state) : Prop :=
      let '(Q, delta, F, todo) := st in
      In Q0 Q /\ incl todo Q /\ NoDup Q /\
      (forall X, In X Q -> is_subset X) /\
      (forall X a Y, In ((X, a), Y) delta -> In X Q /\ In a (nS N) /\ Y = T X a /\ In Y Q) /\
      (forall X, In X F <-> In X Q /\ meetsb X (nF N) = true) /\
      (forall X, In X Q -> exists w : word, Forall (fun a => In a (nS N)) w /\ X = fold_left T w Q0).

    (* every state of Q is still on todo, or is the one being processed (symbols sig remain), or has a full row *)
    Definition Rows (Q1 : list A) (sig : list nat) (st : state) : Prop :=
      let '(Q, delta, F, todo) := st in
      In Q1 Q /\ incl sig (nS N) /\
      forall X a, In X Q -> In a (nS N) -> In X todo \/ (X = Q1 /\ In a sig) \/ lookup (X, a) delta <> None.

    Lemma row_cons Q1 a sig Q delta F todo :
      n2d_row canon N Q1 (a :: sig) (Q, delta, F, todo) =
      n2d_row canon N Q1 sig
        (if mem (T Q1 a) Q then Q else Q ++ [T Q1 a], update (Q1, a) (T Q1 a) delta,
         (if meetsb (T Q1 a) (nF N) then add (T Q1 a) F else F),
         if mem (T Q1 a) Q then todo else todo ++ [T Q1 a]).
    Proof. cbn [n2d_row]. unfold T. destruct (mem _ Q); reflexivity. Qed.

    Lemma row_inv : forall sig Q1 st, Core st -> Rows Q1 sig st ->
      Core (n2d_row canon N Q1 sig st) /\ Rows Q1 [] (n2d_row canon N Q1 sig st).
    Proof.
      induction sig as [|a sig IH]; intros Q1 [[[Q delta] F] todo] HC HR.
      - cbn [n2d_row]. split; assumption.
      - rewrite row_cons. set (Q2 := T Q1 a).
        destruct HC as (C1 & C2 & C3 & C4 & C5 & C6 & C7). destruct HR as (R1 & R2 & R3).
        set (Q' := if mem Q2 Q then Q else Q ++ [Q2]).
        set (todo' := if mem Q2 Q then todo else todo ++ [Q2]).
        assert (HQ' : forall X, In X Q' <-> In X Q \/ X = Q2).
        { intros X. unfold Q'. destruct (mem Q2 Q) eqn:Em.
          - apply mem_In in Em. split; [auto | intros [HX| ->]; assumption].
          - rewrite in_app_iff. cbn [In]. split; [intros [HX|[HX|[]]]; auto | intros [HX|HX]; auto]. }
        assert (Ht1 : forall X, In X todo -> In X todo').
        { intros X HX. unfold todo'. destruct (mem Q2 Q); [exact HX | apply in_or_app; left; exact HX]. }
        assert (Ht2 : forall X, In X todo' -> In X todo \/ X = Q2).
        { intros X. unfold todo'. destruct (mem Q2 Q); [auto|]. rewrite in_app_iff. cbn [In].
          intros [HX|[HX|[]]]; auto. }
        assert (Ht3 : In Q2 Q \/ In Q2 todo').
        { unfold todo'. destruct (mem Q2 Q) eqn:Em; [left; apply mem_In; exact Em|].
          right. apply in_or_app. right. left. reflexivity. }
        assert (Hnd' : NoDup Q').
        { unfold Q'. destruct (mem Q2 Q) eqn:Em; [exact C3|]. apply mem_nIn in Em.
          apply NoDup_app_intro; [exact C3 | constructor; [intros [] | constructor] |].
          intros x Hx [<-|[]]. contradiction. }
        assert (Ha : In a (nS N)) by (apply R2; left; reflexivity).
        apply IH.
        + (* Core *)
          split; [apply HQ'; left; exact C1|].
          split. { intros X HX. apply HQ'. apply Ht2 in HX. destruct HX as [HX|HX]; [left; apply C2; exact HX | right; exact HX]. }
          split; [exact Hnd'|].
          split. { intros X HX. apply HQ' in HX. destruct HX as [HX| ->]; [apply C4; exact HX | apply T_subset]. }
          split.
          { intros X b Y Hin. apply update_In in Hin. destruct Hin as [E|Hin].
            - inversion E; subst X b Y. split; [apply HQ'; left; exact R1|]. split; [exact Ha|].
              split; [reflexivity | apply HQ'; right; reflexivity].
            - destruct (C5 X b Y Hin) as (D1 & D2 & D3 & D4).
              split; [apply HQ'; left; exact D1|]. split; [exact D2|]. split; [exact D3 | apply HQ'; left; exact D4]. }
          split.
          { intros X. destruct (meetsb Q2 (nF N)) eqn:Em2.
            - rewrite add_In, HQ', C6. split.
              + intros [->|[HX HM]]; [split; [right; reflexivity | exact Em2] | split; [left; exact HX | exact HM]].
              + intros [[HX| ->] HM]; [right; split; assumption | left; reflexivity].
            - rewrite HQ', C6. split.
              + intros [HX HM]. split; [left; exact HX | exact HM].
              + intros [[HX| ->] HM]; [split; assumption | congruence]. }
          intros X HX. apply HQ' in HX. destruct HX as [HX| ->]; [apply C7; exact HX|].
          destruct (C7 Q1 R1) as (w & Hw & E). exists (w ++ [a]). split.
          * apply Forall_app. split; [exact Hw | constructor; [exact Ha | constructor]].
          * rewrite fold_left_app. cbn [fold_left]. rewrite <- E. reflexivity.
        + (* Rows *)
          split; [apply HQ'; left; exact R1|].
          split; [intros b Hb; apply R2; right; exact Hb|].
          assert (Hold : forall X b, In X Q -> In b (nS N) ->
                    In X todo' \/ X = Q1 /\ In b sig \/ lookup (X, b) (update (Q1, a) Q2 delta) <> None).
          { intros X b HX Hb. destruct (R3 X b HX Hb) as [Hc|[[-> Hc]|Hc]].
            - left. apply Ht1. exact Hc.
            - destruct Hc as [<-|Hc]; [|right; left; split; [reflexivity | exact Hc]].
              right. right. rewrite lookup_update, eqb_refl. discriminate.
            - right. right. rewrite lookup_update. destruct (eqb (X, b) (Q1, a)); [discriminate | exact Hc]. }
          intros X b HX Hb. apply HQ' in HX. destruct HX as [HX| ->]; [apply Hold; assumption|].
          destruct Ht3 as [Hc|Hc]; [apply Hold; assumption | left; exact Hc].
    Qed.

    Lemma row_lengths : forall sig Q1 st,
      length (stQ (n2d_row canon N Q1 sig st)) + length (stTodo st) =
      length (stQ st) + length (stTodo (n2d_row canon N Q1 sig st)).
    Proof.
      induction sig as [|a sig IH]; intros Q1 [[[Q delta] F] todo].
      - cbn [n2d_row]. lia.
      - rewrite row_cons. unfold stQ, stTodo in *. cbn [fst snd] in *.
        destruct (mem (T Q1 a) Q).
        + specialize (IH Q1 (Q, update (Q1, a) (T Q1 a) delta, if meetsb (T Q1 a) (nF N) then add (T Q1 a) F else F, todo)).
          cbn [fst snd] in IH. exact IH.
        + specialize (IH Q1 (Q ++ [T Q1 a], update (Q1, a) (T Q1 a) delta,
                             if meetsb (T Q1 a) (nF N) then add (T Q1 a) F else F, todo ++ [T Q1 a])).
          cbn [fst snd] in IH. rewrite !app_length in IH. cbn [length] in IH. lia.
    Qed.

    (* loop invariant between rounds: every state of Q is on todo or has a full row *)
    Definition Closed (st : state) : Prop :=
      let '(Q, delta, F, todo) := st in
      forall X a, In X Q -> In a (nS N) -> In X todo \/ lookup (X, a) delta <> None.

    Lemma Rows_Closed Q1 st : Rows Q1 [] st -> Closed st.
    Proof.
      destruct st as [[[Q delta] F] todo]. intros (_ & _ & R3) X a HX Ha.
      destruct (R3 X a HX Ha) as [Hc|[[_ []]|Hc]]; [left; exact Hc | right; exact Hc].
    Qed.

    Lemma pop_inv Q delta F todo Q1 rest : Core (Q, delta, F, todo) -> Closed (Q, delta, F, todo) ->
      rev todo = Q1 :: rest ->
      Core (Q, delta, F, rev rest) /\ Rows Q1 (nS N) (Q, delta, F, rev rest).
    Proof.
      intros (C1 & C2 & C3 & C4 & C5 & C6 & C7) HR Er. apply rev_eq_cons in Er. subst todo.
      split.
      - split; [exact C1|]. split; [intros X HX; apply C2, in_or_app; left; exact HX|].
        split; [exact C3|]. split; [exact C4|]. split; [exact C5|]. split; [exact C6 | exact C7].
      - split; [apply C2, in_or_app; right; left; reflexivity|]. split; [apply incl_refl|].
        intros X a HX Ha. destruct (HR X a HX Ha) as [Hc|Hc]; [|right; right; exact Hc].
        apply in_app_or in Hc. destruct Hc as [Hc|[<-|[]]]; [left; exact Hc | right; left; split; [reflexivity | exact Ha]].
    Qed.

    Lemma loop_inv : forall fuel st Q delta F, Core st -> Closed st ->
      n2d_loop canon N fuel st = Some (Q, delta, F) ->
      Core (Q, delta, F, []) /\ Closed (Q, delta, F, []).
    Proof.
      induction fuel as [|f IH]; intros [[[Q1 delta1] F1] todo1] Q delta F HC HR E; cbn [n2d_loop] in E; [discriminate|].
      destruct (rev todo1) as [|X rest] eqn:Er.
      - apply rev_eq_nil in Er. subst todo1. inversion E; subst. split; assumption.
      - destruct (pop_inv _ _ _ _ _ _ HC HR Er) as [HC1 HR1].
        destruct (row_inv _ _ _ HC1 HR1) as [HC2 HR2].
        apply (IH _ _ _ _ HC2 (Rows_Closed _ _ HR2) E).
    Qed.

    Lemma Core_count st : Core st -> length (stQ st) <= 2 ^ length (nQ N).
    Proof.
      destruct st as [[[Q delta] F] todo]. intros (_ & _ & C3 & C4 & _). apply count_subsets; assumption.
    Qed.

    Lemma loop_term : forall fuel st, Core st -> Closed st ->
      2 ^ length (nQ N) - length (stQ st) + length (stTodo st) < fuel ->
      n2d_loop canon N fuel st <> None.
    Proof.
      induction fuel as [|f IH]; intros [[[Q delta] F] todo] HC HR Hf; [lia|].
      cbn [n2d_loop]. destruct (rev todo) as [|X rest] eqn:Er; [discriminate|].
      destruct (pop_inv _ _ _ _ _ _ HC HR Er) as [HC1 HR1].
      destruct (row_inv _ _ _ HC1 HR1) as [HC2 HR2].
      apply IH; [exact HC2 | apply (Rows_Closed _ _ HR2) |].
      pose proof (row_lengths (nS N) X (Q, delta, F, rev rest)) as Hl.
      pose proof (Core_count _ HC2) as Hc.
      apply rev_eq_cons in Er. subst todo.
      unfold stQ, stTodo in *. cbn [fst snd] in *. rewrite app_length in Hf. cbn [length] in Hf. lia.
    Qed.

    Definition st0 : state := ([Q0], [], (if meetsb Q0 (nF N) then [Q0] else []), [Q0]).

    Lemma st0_inv : Core st0 /\ Closed st0.
    Proof.
      unfold st0. split.
      - split; [left; reflexivity|]. split; [apply incl_refl|].
        split; [constructor; [intros [] | constructor]|].
        split; [intros X [<-|[]]; apply Q0_subset|].
        split; [intros X a Y []|].
        split.
        + intros X. destruct (meetsb Q0 (nF N)) eqn:Em; cbn [In].
          * split; [intros [<-|[]]; split; [left; reflexivity | exact Em] | intros [HX _]; exact HX].
          * split; [intros [] | intros [[<-|[]] HM]; congruence].
        + intros X [<-|[]]. exists []. split; [constructor | reflexivity].
      - intros X a HX _. left. exact HX.
    Qed.

    Lemma to_dfa_unfold fuel : nfa_to_dfa_fuel canon N fuel =
      match n2d_loop canon N fuel st0 with
      | Some (Q, delta, F) => Some (mkDFA Q (nS N) delta Q0 F)
      | None => None
      end.
    Proof. reflexivity. Qed.

    (* ---- what the final state gives ---- *)
    Section Final.
      Variables (Q : list (list A)) (delta : list ((list A * nat) * list A)) (F : list (list A)).
      Hypothesis HC : Core (Q, delta, F, []).
      Hypothesis HR : Closed (Q, delta, F, []).
      Let D : dfa (list A) := mkDFA Q (nS N) delta Q0 F.

      Lemma final_delta X a : In X Q -> In a (nS N) -> ddelta D X a = Some (T X a) /\ In (T X a) Q.
      Proof.
        intros HX Ha. destruct HC as (_ & _ & _ & _ & C5 & _). unfold ddelta. cbn [dD D].
        destruct (HR X a HX Ha) as [[]|Hl].
        destruct (lookup (X, a) delta) as [Y|] eqn:E; [|contradiction].
        apply lookup_In in E. destruct (C5 _ _ _ E) as (_ & _ & -> & HY). split; [reflexivity | exact HY].
      Qed.

      Lemma final_wf : dfa_wf D.
      Proof.
        pose proof HC as (C1 & _ & _ & _ & C5 & C6 & _).
        split; [exact C1|]. split; [intros X HX; apply C6 in HX; apply HX|]. split.
        - intros X a Y Hin. destruct (C5 X a Y Hin) as (D1 & D2 & _ & D4). auto.
        - intros X a HX Ha. cbn [dQ dS D] in HX, Ha. destruct (final_delta X a HX Ha) as [E _]. rewrite E. discriminate.
      Qed.

      Lemma final_drun : forall (w : word) X, In X Q -> Forall (fun a => In a (nS N)) w ->
        drun D X w = fold_left T w X /\ In (fold_left T w X) Q.
      Proof.
        induction w as [|a w IH]; intros X HX Hw; cbn [drun fold_left]; [split; [reflexivity | exact HX]|].
        inversion Hw as [|a' w' Ha Hw']; subst. destruct (final_delta X a HX Ha) as [E HT].
        unfold dstep. rewrite E. apply IH; assumption.
      Qed.

      Lemma final_path (w : word) X : Forall (fun a => In a (nS N)) w ->
        (dfa_path D Q0 w X <-> X = fold_left T w Q0).
      Proof.
        intros Hw. pose proof HC as (C1 & _).
        rewrite (drun_path D final_wf w Q0 C1 Hw X). destruct (final_drun w Q0 C1 Hw) as [-> _]. tauto.
      Qed.

      Lemma final_lang (w : word) : Forall (fun a => In a (nS N)) w -> (dfa_lang D w <-> nfa_lang N w).
      Proof.
        intros Hw. pose proof HC as (C1 & _ & _ & _ & _ & C6 & _).
        rewrite (dfa_lang_drun D w final_wf Hw). cbn [dq0 dF D].
        destruct (final_drun w Q0 C1 Hw) as [-> HQ]. rewrite C6, meetsb_spec. unfold nfa_lang. split.
        - intros [_ (p & Hp & HF)]. exists p. split; [apply fold_T_path; exact Hp | exact HF].
        - intros (p & Hp & HF). split; [exact HQ|]. exists p. split; [apply fold_T_path; exact Hp | exact HF].
      Qed.

      Lemma final_reach X : In X Q -> exists w, Forall (fun a => In a (nS N)) w /\ dfa_path D Q0 w X.
      Proof.
        intros HX. pose proof HC as (_ & _ & _ & _ & _ & _ & C7). destruct (C7 X HX) as (w & Hw & E).
        exists w. split; [exact Hw | apply final_path; assumption].
      Qed.
    End Final.
  End Fixed.

  Theorem nfa_to_dfa_correct (N : nfa A) fuel D : nfa_wf N -> nfa_to_dfa_fuel canon N fuel = Some D ->
    dfa_wf D /\ dS D = nS N /\
    (forall w, Forall (fun a => In a (nS N)) w -> (dfa_lang D w <-> nfa_lang N w)) /\
    (forall q, In q (dq0 D) <-> eps_star N (nq0 N) q) /\
    (forall S0, In S0 (dQ D) -> exists w, Forall (fun a => In a (nS N)) w /\ dfa_path D (dq0 D) w S0) /\
    NoDup (dQ D).
  Proof using All.
    intros Hwf E. rewrite to_dfa_unfold in E.
    destruct (n2d_loop canon N fuel (st0 N)) as [[[Q delta] F]|] eqn:El; [|discriminate].
    inversion E; subst D. clear E.
    destruct (st0_inv N Hwf) as [HC0 HR0].
    destruct (loop_inv N Hwf fuel _ _ _ _ HC0 HR0 El) as [HC HR].
    split; [apply (final_wf N Q delta F HC HR)|].
    split; [reflexivity|].
    split; [intros w Hw; apply (final_lang N Hwf Q delta F HC HR w Hw)|].
    split; [intros q; apply (Q0_In N Hwf)|].
    split; [intros S0 HS0; apply (final_reach N Q delta F HC HR S0 HS0)|].
    destruct HC as (_ & _ & C3 & _). exact C3.
  Qed.

  Theorem nfa_to_dfa_terminates (N : nfa A) fuel : nfa_wf N -> S (2 ^ length (nQ N)) <= fuel ->
    nfa_to_dfa_fuel canon N fuel <> None.
  Proof using All.
    intros Hwf Hf. rewrite to_dfa_unfold.
    destruct (st0_inv N Hwf) as [HC0 HR0].
    pose proof (loop_term N Hwf fuel (st0 N) HC0 HR0) as Ht.
    destruct (n2d_loop canon N fuel (st0 N)) as [[[Q delta] F]|]; [discriminate|].
    exfalso. apply Ht; [|reflexivity]. unfold st0, stQ, stTodo. cbn [fst snd length].
    assert (1 <= 2 ^ length (nQ N)) by (apply Nat.neq_0_lt_0, Nat.pow_nonzero; discriminate). lia.
  Qed.
End SubsetP.

(* ---------------------------------------------------------------- instances for nat states (canon_nat) *)
Definition all_reachable {A} `{Eqb A} (D : dfa A) : Prop :=
  forall q, In q (dQ D) -> exists w, Forall (fun a => In a (dS D)) w /\ dfa_path D (dq0 D) w q.

Corollary nfa_det_correct (N : nfa nat) : nfa_wf N ->
  exists D, nfa_det N = Some D /\ dfa_wf D /\ dS D = nS N /\
    (forall w, Forall (fun a => In a (nS N)) w -> (dfa_lang D w <-> nfa_lang N w)) /\
    (forall q, In q (dQ D) -> exists w, Forall (fun a => In a (dS D)) w /\ dfa_path D (dq0 D) w q) /\
    (forall q, In q (dq0 D) <-> eps_star N (nq0 N) q) /\
    NoDup (dQ D).
Proof.
  intros Hwf. unfold nfa_det.
  pose proof (nfa_to_dfa_terminates canon_nat (fun l y => canon_nat_In y l) canon_nat_ext N (S (2 ^ length (nQ N))) Hwf (le_n _)) as Ht.
  destruct (nfa_to_dfa_fuel canon_nat N (S (2 ^ length (nQ N)))) as [D|] eqn:E; [|contradiction].
  destruct (nfa_to_dfa_correct canon_nat (fun l y => canon_nat_In y l) canon_nat_ext N _ D Hwf E) as (H1 & H2 & H3 & H4 & H5 & H6).
  exists D. split; [reflexivity|]. split; [exact H1|]. split; [exact H2|]. split; [exact H3|].
  split; [rewrite H2; exact H5|]. split; [exact H4 | exact H6].
Qed.

Corollary nfa_det_all_reachable (N : nfa nat) D : nfa_wf N -> nfa_det N = Some D -> all_reachable_b D = true.
Proof.
  intros Hwf E. destruct (nfa_det_correct N Hwf) as (D' & E' & H1 & _ & _ & H5 & _).
  rewrite E in E'. inversion E'; subst D'. apply (all_reachable_b_correct D H1). exact H5.
Qed.

Lemma Forall_seteq_nat (l1 l2 : list nat) (w : word) : seteq l1 l2 ->
  Forall (fun a => In a l1) w -> Forall (fun a => In a l2) w.
Proof. intros He Hw. eapply Forall_impl; [|exact Hw]. intros a Ha. apply He; exact Ha. Qed.

Corollary nfa_dfa_equivb_correct {B} `{Eqb B} (N : nfa nat) (D : dfa B) : nfa_wf N -> dfa_wf D ->
  (nfa_dfa_equivb N D = true <->
   seteq (nS N) (dS D) /\ forall w, Forall (fun a => In a (nS N)) w -> (nfa_lang N w <-> dfa_lang D w)).
Proof.
  intros HwfN HwfD. unfold nfa_dfa_equivb.
  destruct (nfa_det_correct N HwfN) as (DN & E & H1 & H2 & H3 & _). rewrite E.
  rewrite (dfa_equivb_correct DN D H1 HwfD), H2. split.
  - intros [Hs Hl]. split; [exact Hs|]. intros w Hw. rewrite <- (H3 w Hw). apply Hl; exact Hw.
  - intros [Hs Hl]. split; [exact Hs|]. intros w Hw. rewrite (H3 w Hw). apply Hl; exact Hw.
Qed.

Corollary nfa_equivb_correct (N1 N2 : nfa nat) : nfa_wf N1 -> nfa_wf N2 ->
  (nfa_equivb N1 N2 = true <->
   seteq (nS N1) (nS N2) /\ forall w, Forall (fun a => In a (nS N1)) w -> (nfa_lang N1 w <-> nfa_lang N2 w)).
Proof.
  intros Hwf1 Hwf2. unfold nfa_equivb.
  destruct (nfa_det_correct N1 Hwf1) as (D1 & E1 & H11 & H12 & H13 & _).
  destruct (nfa_det_correct N2 Hwf2) as (D2 & E2 & H21 & H22 & H23 & _). rewrite E1, E2.
  rewrite (dfa_equivb_correct D1 D2 H11 H21), H12, H22. split.
  - intros [Hs Hl]. split; [exact Hs|]. intros w Hw.
    rewrite <- (H13 w Hw), <- (H23 w (Forall_seteq_nat _ _ w Hs Hw)). apply Hl; exact Hw.
  - intros [Hs Hl]. split; [exact Hs|]. intros w Hw.
    rewrite (H13 w Hw), (H23 w (Forall_seteq_nat _ _ w Hs Hw)). apply Hl; exact Hw.
Qed.

Print Assumptions nfa_to_dfa_correct.
Print Assumptions nfa_to_dfa_terminates.
Print Assumptions nfa_det_correct.
Print Assumptions nfa_det_all_reachable.
Print Assumptions nfa_dfa_equivb_correct.
Print Assumptions nfa_equivb_correct.
