(* Code 1 = the implementation differs from the concrete model (informational: the property-level relation is judged
   separately and a different but admissible naming / layout policy is not a violation).
   Judges for the models that were added later: concrete fresh-name policies (FreshName.v), the regexp concrete
   syntaxes (RegexpSyntax.v), the simple CFG text format (CFGText.v), pda_simulate_word / cfg_derive_word (Simulate2.v). *)
From GT Require Import Base.Prelude Model.Tokens Model.NFA Model.PDA Model.CFG Model.CYK Model.Regexp Model.Simulate
     Model.FreshName Model.RegexpSyntax Model.CFGText Model.Simulate2 Judge.Common.

(* cfg_fresh_variable(G, hint) / fresh_state(Q, hint): names as tokens; o = the implementation's result *)
Definition judge_fresh_variable (V : list token) (hint : token) (o : option token) : nat :=
  check (eqb o (fresh_variable V hint)) 1.
Definition judge_fresh_state (Q : list token) (hint : token) (o : option token) : nat :=
  check (eqb o (FreshName.fresh_state Q hint)) 1.

(* regexp syntaxes: the three printed texts (character codes) and what the ANTLR parsers made of the simple / full text *)
Definition judge_re_syntax (r : re) (t_simple t_full t_str : option (list nat)) (p_simple : option re) (p_full : option re) : nat :=
  worst_code [ check (eqb t_simple (Some (print_simple r))) 1;
               check (eqb t_full (Some (print_full r))) 1;
               check (eqb t_str (Some (print_str r))) 1;
               (* the reference parser (proved: parse (print r) = lassoc r) against the generated parser *)
               check (match p_simple, parse_simple (print_simple r) with Some a, Some b => re_eqb a b | None, None => true | _, _ => false end) 1;
               check (match p_full with Some a => re_eqb a r | None => false end) 1 ].

(* simple CFG text: lines (variable, alternatives) as split by the harness; G = the grammar object; o = re-parsed grammar *)
Definition cfg_same (G1 G2 : cfg) : bool :=
  seteqb (gV G1) (gV G2) && seteqb (gSg G1) (gSg G2) && Nat.eqb (gS G1) (gS G2) &&
  seteqb (map rule_key (gR G1)) (map rule_key (gR G2)) && Nat.eqb (length (gR G1)) (length (gR G2)).
Definition judge_cfg_text (G : cfg) (printed : option (list cfg_line)) (reparsed : option cfg) : nat :=
  worst_code [ check (eqb printed (print_cfg_simple G)) 1;
               match printed with
               | Some lines => check (match reparsed, parse_cfg_text lines with Some a, Some b => cfg_same a b | None, None => true | _, _ => false end) 1
               | None => 0
               end ].

(* cfg_derive_word is deterministic: the implementation's derivation must be the model's (informational layer: code 1) *)
Definition judge_derive_model (G : cfg) (w : word) (mode : nat) (o : option (list (list sym))) : nat :=
  match o, cfg_derive G w mode with
  | Some a, Some b => if eqb a b then 0 else 1
  | None, None => 0
  | _, _ => 1
  end.

(* ---- grammar utilities outside the Chomsky pipeline (Model/CFGMisc.v): productive variables, removal of unproductive
   variables and of rules A -> A, right-linear grammar -> NFA.  Results as sets (Python sets / rule lists). ---- *)
From GT Require Import Model.CFGMisc Decide.DFAEquiv.
Definition cfg_same_rules (G1 G2 : cfg) : bool :=
  seteqb (gV G1) (gV G2) && seteqb (gSg G1) (gSg G2) && Nat.eqb (gS G1) (gS G2) && eqb (map rule_key (gR G1)) (map rule_key (gR G2)).
Definition judge_cfg_misc (G : cfg) (productive : option (list nat)) (inprod useless : option cfg) : nat :=
  worst_code [ check (match productive with Some p => seteqb p (cfg_productive_variables G) | None => false end) 1;
               check (match inprod with Some G1 => cfg_same_rules G1 (cfg_remove_inproductive G) | None => false end) 1;
               check (match useless with Some G1 => cfg_same_rules G1 (cfg_remove_useless_rules G) | None => false end) 1 ].
(* cfg_to_nfa: o = the implementation's NFA (None = it raised); compared by language through the verified oracle *)
Definition judge_cfg_to_nfa (eps geps : nat) (G : cfg) (o : option (nfa nat)) : nat :=
  match o, cfg_to_nfa eps geps G with
  | None, None => 0
  | Some N, Some M => match nfa_equivb_f 400 N M with Some true => 0 | Some false => 1 | None => 0 end
  | _, _ => 1
  end.

(* ---- names of subset states (Model/Naming.v: print_state_set = '{' + ','.join(sorted(Q)) + '}'): the state names of the
   implementation's DFA are exactly the names the model computes for the subsets of the model's subset automaton.
   names = the harness's table code -> token of the NFA state names. ---- *)
From GT Require Import Model.DFA Model.Naming.
Definition name_of (names : list (nat * token)) (q : nat) : token := match lookup q names with Some t => t | None => [] end.
Definition judge_subset_names (names : list (nat * token)) (N : nfa nat) (implQ : list token) (implq0 : token) : nat :=
  match nfa_det N with
  | Some D => worst_code [ check (seteqb (map (fun S0 => state_set_name (map (name_of names) S0)) (dQ D)) implQ) 1;
                           check (eqb (state_set_name (map (name_of names) (dq0 D))) implq0) 1 ]
  | None => 0
  end.

(* ---- pda_to_cfg, larger automata: the words of length <= n generated by the returned grammar (enumerated by the library's own
   cfg_words_up_to_n, which C02 / C07 judge separately) against the proved-exact bounded language of the model PDA ---- *)
From GT Require Import Model.PDA.
Definition judge_cfg_words_of_pda (P : pda) (n : nat) (ows : option (list word)) : nat :=
  match ows with
  | None => 0
  | Some ws => let '(L, tr) := pda_words pick_head P 2000 n in if tr then 1 else check (seteqb L ws) 44
  end.

(* ---- minimisers on large DFAs (Decide/Moore.v: a fast, proved computation of the Myhill-Nerode classes): the result is a valid DFA
   over the same alphabet, language-equivalent (product reachability), has as many states as D has classes (C04_spec, 
   moore_count_of_min_spec) and its own states are pairwise distinguishable (its class count equals its state count).
   Result states are coded injectively by the harness; their names are not interpreted. ---- *)
From GT Require Import Decide.Moore.
Definition judge_min_big (D : dfa nat) (o : option (dfa nat)) (c : nat) : nat :=
  match o with
  | None => c
  | Some R =>
    if negb (dfa_wf_b R) then c + 1
    else if negb (seteqb (dS R) (dS D)) then c + 1
    else if negb (dfa_equivb D R) then c + 2
    else if negb (Nat.eqb (moore_count R) (length (dedup (dQ R)))) then c + 3
    else if negb (Nat.eqb (length (dedup (dQ R))) (moore_count D)) then c + 4
    else 0
  end.
Definition judge_C04_big (D : dfa nat) (o_min o_quo o_hop : option (dfa nat)) (unchanged : bool) : nat :=
  worst_code [ check (dfa_wf_b D) 9; judge_min_big D o_min 10; judge_min_big D o_quo 20; judge_min_big D o_hop 30; check unchanged 40 ].
