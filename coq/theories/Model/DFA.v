(* Model of gambatools.dfa / dfa_algorithms (acceptance, enumeration, validity) and the textbook
   specification of the language of a DFA.  States are of any type with a boolean equality; symbols are nat codes.
   A Python dict is an association list looked up by first match (keys of a dict are unique). *)
From GT Require Import Base.Prelude.

Section DFA.
  Context {A : Type} `{Eqb A}.

  Record dfa := mkDFA { dQ : list A; dS : list nat; dD : list ((A * nat) * A); dq0 : A; dF : list A }.

  Definition ddelta (D : dfa) (q : A) (a : nat) : option A := lookup (q, a) (dD D).

  (* ---- specification ---- *)
  Inductive dfa_path (D : dfa) : A -> word -> A -> Prop :=
  | dp_nil q : dfa_path D q [] q
  | dp_cons q a q1 w q2 : ddelta D q a = Some q1 -> dfa_path D q1 w q2 -> dfa_path D q (a :: w) q2.
  Definition dfa_lang (D : dfa) (w : word) : Prop := exists qf, dfa_path D (dq0 D) w qf /\ In qf (dF D).

  (* class invariant, DFA._check_validity *)
  Definition dfa_wf (D : dfa) : Prop :=
    In (dq0 D) (dQ D) /\ incl (dF D) (dQ D) /\
    (forall q a q1, In ((q, a), q1) (dD D) -> In q (dQ D) /\ In a (dS D) /\ In q1 (dQ D)) /\
    (forall q a, In q (dQ D) -> In a (dS D) -> ddelta D q a <> None).
  Definition dfa_wf_b (D : dfa) : bool :=
    mem (dq0 D) (dQ D) && subsetb (dF D) (dQ D) &&
    forallb (fun e => let '((q, a), q1) := e in mem q (dQ D) && mem a (dS D) && mem q1 (dQ D)) (dD D) &&
    forallb (fun q => forallb (fun a => match ddelta D q a with Some _ => true | None => false end) (dS D)) (dQ D).

  (* ---- dfa_accepts_word: None models KeyError ---- *)
  Fixpoint dfa_run (D : dfa) (q : A) (w : word) : option A :=
    match w with
    | [] => Some q
    | a :: w' => match ddelta D q a with None => None | Some q1 => dfa_run D q1 w' end
    end.
  Definition dfa_accepts (D : dfa) (w : word) : option bool :=
    match dfa_run D (dq0 D) w with None => None | Some q => Some (mem q (dF D)) end.

  (* ---- dfa_words_up_to_n: frontier W of (state, word) pairs; words collected when the target is final ---- *)
  Definition dfa_words_step (D : dfa) (W : list (A * word)) : option (list (A * word)) :=
    fold_right (fun qw acc =>
      match acc with None => None | Some l =>
        fold_right (fun a acc2 =>
          match acc2 with None => None | Some l2 =>
            match ddelta D (fst qw) a with None => None | Some q1 => Some ((q1, snd qw ++ [a]) :: l2) end end)
          (Some l) (dS D) end) (Some []) W.
  Fixpoint dfa_words_loop (D : dfa) (n : nat) (W : list (A * word)) (words : list word) : option (list word) :=
    match n with
    | 0 => Some words
    | S n' => match dfa_words_step D W with
              | None => None
              | Some W1 => dfa_words_loop D n' W1 (words ++ map snd (filter (fun qw => mem (fst qw) (dF D)) W1))
              end
    end.
  Definition dfa_words (D : dfa) (n : nat) : option (list word) :=
    dfa_words_loop D n [(dq0 D, [])] (if mem (dq0 D) (dF D) then [[]] else []).

  (* total transition function under wf (used by constructions) *)
  Definition dstep (D : dfa) (q : A) (a : nat) : A := match ddelta D q a with Some q1 => q1 | None => q end.
  Fixpoint drun (D : dfa) (q : A) (w : word) : A := match w with [] => q | a :: w' => drun D (dstep D q a) w' end.
End DFA.
Arguments dfa A : clear implicits.
