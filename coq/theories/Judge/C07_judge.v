From GT Require Import Base.Prelude Model.CFG Model.Chomsky Model.CYK Judge.Common.

Definition idV (l : list nat) := l.

(* per word: implementation verdict of cfg_accepts_word, and (CNF grammars only) the cells of cfg_cyk_matrix
   given for every 0 <= i <= j < n *)
Definition word_obs := (word * option bool * option (list ((nat * nat) * list nat)))%type.

(* the grammar the acceptance test works on: G itself when in CNF, its conversion otherwise (computed once;
   cfg_accepts idV stream G w = option_map (fun Gc => cnf_accepts Gc w) (cnf_of G stream) by definition) *)
Definition cnf_of (G : cfg) (stream : list nat) : option cfg :=
  if is_chomsky_b G then Some G else option_map fst (to_chomsky idV stream G).

Definition judge_word (G : cfg) (oGc : option cfg) (o : word_obs) : nat :=
  let '(w, oacc, ocells) := o in
  worst_code [
    check (eqb oacc (option_map (fun Gc => cnf_accepts Gc w) oGc)) 2;
    if is_chomsky_b G then
      match ocells with
      | None => match w with [] => 0 | _ => 3 end
      | Some cells =>
        let X := cyk G w in
        check (forallb (fun i => forallb (fun j => seteqb (cget X i j) (match lookup (i, j) cells with Some s => s | None => [] end))
                                          (seq i (length w - i))) (seq 0 (length w))) 3
      end
    else 0 ].

Definition judge_C07 (G : cfg) (stream : list nat) (ochom : option bool) (obs : list word_obs) : nat :=
  worst_code (check (cfg_wf_b G) 9 :: check (eqb ochom (Some (is_chomsky_b G))) 4 :: map (judge_word G (cnf_of G stream)) obs).

Definition explain_C07 (G : cfg) (stream : list nat) (ws : list word) :=
  (is_chomsky_b G, map (fun w => (cfg_accepts idV stream G w, if is_chomsky_b G then cyk G w else [])) ws).
