"""C03 - subset construction vs the proved model and the exact NFA/DFA equivalence oracle."""
import coqlit as L
import gen as G
import conv
import syntax as SX
from props.C01 import nfa_lit

COQ_IMPORTS = ['Model.DFA', 'Model.NFA', 'Model.Tokens', 'Model.Naming', 'Judge.Common', 'Judge.C03_judge', 'Judge.Extra_judge']
PDA_FREE = True      # no PDA is involved: the recycling pass runs with GambaTools.pda_epsilon_closure_max_iterations = 3
LOG_SAFE = True      # no printed output is read back: the recycling pass runs with GambaTools.enable_logging = True
EXTRA_JUDGES = ['Extra']
RULE = ('all 2-state epsilon-NFAs over one symbol (1024; thorough: a sample of 2 symbols), random epsilon-NFAs <=6 states x <=3 symbols with epsilon cycles, dead ends, empty/full F, empty alphabet, '
        'under 2 (quick) / 8 (thorough) PYTHONHASHSEED values; nfa_to_dfa; each DFA state name is read back as a set of NFA states. Relation: total valid DFA, same alphabet, language-equal to the NFA '
        '(exact: verified product-reachability test against the model subset automaton), initial state = epsilon closure of the NFA initial state, every state reachable; structural layer: identical subsets and transitions. '
        'Non-trivial = the NFA has an epsilon move and the DFA has >= 2 states; distinct by NFA text.')
RULE += ' Added after the seeded rounds: unusual state names (q1 / q10, separators), epsilon chains of 16-19 states (subset labels > 64 characters), plain-dict partial relations, the state names themselves compared with the Naming model (informational).'
CODES = {2: 'nfa_to_dfa raised / timed out', 3: 'result is not a valid total DFA', 4: 'alphabet changed', 5: 'DFA not language-equivalent to the NFA', 6: 'initial state is not the epsilon closure of the NFA initial state',
         7: 'result has an unreachable state', 8: 'internal: model out of fuel', 9: 'generated NFA invalid (harness)', 10: 'the input NFA was modified', 1: 'structure differs from the model, property-level relation holds'}
ASSUMPTIONS = ['state names contain no comma or brace (print_state_set injective)']
RESIDUE = 'print_state_set naming modelled by sorted lists; defaultdict lookups'


def hashseeds(tier):
    return [0, 1] if tier == 'quick' else list(range(8))


def gen(rng, tier):
    quick = tier == 'quick'
    ns = G.all_nfas(2, 'a')
    if not quick:
        ns += rng.sample(G.all_nfas(2, 'ab'), 3000)
    for _ in range(300 if quick else 4000):
        sigma = rng.choice(['a', 'ab', 'abc', 'ab', ''])
        ns.append(G.random_nfa(rng, rng.randint(1, 6), sigma, rng.choice(['_', '', 'e']), peps=rng.choice([0.0, 0.25, 0.5])))
    # state names that are substrings / prefixes of each other, contain separators, or sort differently as text and as numbers
    for _ in range(150 if quick else 2500):
        k = rng.randint(2, 6)
        ns.append(G.random_nfa(rng, k, rng.choice(['a', 'ab']), rng.choice(['_', '']), names=G.tricky_names(rng, k), peps=rng.choice([0.0, 0.3])))
    # long epsilon chains: the names of the subsets are long and share long prefixes
    for _ in range(25 if quick else 400):
        ns.append(G.chain_nfa(rng, sigma=rng.choice(['ab', 'a']), eps=rng.choice(['_', ''])))
    cases = [{'N': n} for n in ns]
    # partial transition relations stored in a plain dict (no defaultdict): a missing key means "no transition"
    for _ in range(150 if quick else 2500):
        k = rng.randint(2, 6)
        n = G.random_nfa(rng, k, rng.choice(['a', 'ab']), rng.choice(['_', '']), peps=rng.choice([0.2, 0.4]), density=rng.choice([0.3, 0.6]))
        cases.append({'N': n, 'plain': True})
    # the same NFA object is modified in place (transitions added / removed, accepting set changed) and determinised again
    for _ in range(120 if quick else 1500):
        sigma = rng.choice(['a', 'ab'])
        k = rng.randint(1, 5)
        n1 = G.random_nfa(rng, k, sigma, '_', peps=0.3)
        n2 = G.random_nfa(rng, k, sigma, '_', peps=0.3)
        cases.append({'N': n1, 'then': n2})
    return cases


def observe(c):
    from gambatools.nfa_algorithms import nfa_to_dfa
    from implutil import safe, ok
    N = conv.nfa_obj(c['N'], plain_dict=bool(c.get('plain')))
    before = conv.nfa_case(N)
    r = safe(nfa_to_dfa, N)
    out = {'D': conv.dfa_case(r[1]) if ok(r) else None, 'unchanged': conv.nfa_case(N) == before}
    if c.get('then'):
        n2 = c['then']
        N.delta.clear()
        for (q, a, qs) in n2['delta']:
            N.delta[(q, a)] = set(qs)
        N.F.clear()
        N.F.update(n2['F'])
        r2 = safe(nfa_to_dfa, N)
        out['D2'] = conv.dfa_case(r2[1]) if ok(r2) else None
    return out


def _parse_set(name, st, idx):
    if name.startswith('{') and name.endswith('}'):
        inner = name[1:-1]
        parts = [p for p in inner.split(',') if p != ''] if inner else []
        if all(st.known(p) for p in parts):
            return sorted(st(p) for p in parts)
    return [100 + idx]


def encode(c, o):
    t = _encode1(c['N'], o['D'], o['unchanged'])
    if c.get('then'):
        t = 'worst_code [%s; %s]' % (t, _encode1(c['then'], o.get('D2'), True))
    return t


def _encode1(n, d, unchanged):
    o = {'unchanged': unchanged}
    lit, st, f = nfa_lit(n)
    if d is None:
        return 'judge_C03 %s None %s' % (lit, L.boolean(o['unchanged']))
    names = {q: _parse_set(q, st, i) for i, q in enumerate(d['Q'])}
    S = lambda q: L.nats(names[q])
    sig = {a: f(a) if a in n['Sigma'] else 90 + i for i, a in enumerate(d['Sigma'])}
    delta = L.lst(L.pair(L.pair(S(q), L.nat(sig[a])), S(t)) for (q, a, t) in d['delta'])
    dl = '(mkDFA %s %s %s %s %s)' % (L.lst(S(q) for q in d['Q']), L.nats(sig[a] for a in d['Sigma']), delta, S(d['q0']), L.lst(S(q) for q in d['F']))
    main = 'judge_C03 %s (Some %s) %s' % (lit, dl, L.boolean(o['unchanged']))
    # the state names themselves (print_state_set, Model/Naming.v): informational layer
    if all(SX.codes(q) is not None for q in list(n['Q']) + list(d['Q'])) and len(n['Q']) <= 8:
        table = L.lst(L.pair(L.nat(st(q)), SX.tok(q)) for q in n['Q'])
        return 'worst_code [%s; judge_subset_names %s %s %s %s]' % (main, table, lit, L.lst(SX.tok(q) for q in d['Q']), SX.tok(d['q0']))
    return main


def explain(c):
    return 'explain_C03 %s' % nfa_lit(c['N'])[0]


def key(c):
    return conv.nfa_text(c['N'])


def nontrivial(c, o):
    return o['D'] is not None and len(o['D']['Q']) >= 2 and any(a == c['N']['eps'] for (_, a, _) in c['N']['delta'])


def describe(c):
    return {'nfa': conv.nfa_text(c['N'])}


def reproduce(c):
    return 'from gambatools.nfa_algorithms import *; N = parse_nfa(%r); D = nfa_to_dfa(N); print(D)  # compare dfa_accepts_word(D, w) with nfa_accepts_word(N, w)' % conv.nfa_text(c['N'])


def signature(c, o, code):
    return 'C03:code%d:%s' % (code, key(c))


def distribution(cases, obs):
    d = {'nfa_states': {}, 'dfa_states': {}, 'eps_cycle': 0, 'empty_alphabet': 0}
    for c, o in zip(cases, obs):
        k = str(len(c['N']['Q']))
        d['nfa_states'][k] = d['nfa_states'].get(k, 0) + 1
        if o['D']:
            r = str(len(o['D']['Q']))
            d['dfa_states'][r] = d['dfa_states'].get(r, 0) + 1
        d['eps_cycle'] += 1 if G.nfa_has_eps_cycle(c['N']) else 0
        d['empty_alphabet'] += 0 if c['N']['Sigma'] else 1
    return d


def shrink(c):
    from props.C01 import shrink as s1
    return [{'N': x['N']} for x in s1({'kind': 'nfa', 'N': c['N'], 'ws': [], 'sets': []})]


LEVEL_TEXT = ('Machine-checked Coq theorems for every valid NFA: the model of nfa_to_dfa terminates within 2^|Q| iterations and returns a valid total DFA over the same alphabet with exactly the NFA language (all words), '
              'whose initial state is the epsilon closure of the NFA initial state and all of whose states are reachable; the equivalence oracle applied to the implementation output is itself proved exact.')
LEVEL_NOTE = 'Trusted: Coq kernel + vm_compute, model Model/NFA.v (nfa_to_dfa_fuel), harness (state-name parsing). No axioms.'
TECHNIQUE = 'Coq proof (worklist invariant, powerset counting for termination) + verified NFA/DFA equivalence oracle evaluated in Coq on implementation outputs'
