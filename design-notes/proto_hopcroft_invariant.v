(* Design note (calibration sketch, no axioms): the abstract core of the correctness argument for
   dfa_hopfcroft *as implemented* (DESIGN.md §10a).  Sets of states are predicates; a partition is
   a list of blocks; W is the waiting set, which may contain stale splitters.

   Proved here:
   - stability w.r.t. (S,b) is preserved by refinement and is closed under union and difference
     (indeed a Boolean algebra), hence under the generated closure `gen`;
   - one pop-and-split round preserves the invariant "every block is generated from the sets the
     partition is already stable for and the waiting splitters";
   - when the waiting set is empty the invariant gives stability of the partition w.r.t. all of
     its own blocks, for every symbol.  *)
From Coq Require Import List.
Import ListNotations.

Section Hopcroft.
  Variable St : Type.
  Variable delta : St -> nat -> St.
  Definition set := St -> Prop.
  Definition seq (A B : set) : Prop := forall x, A x <-> B x.
  Definition sub (A B : set) : Prop := forall x, A x -> B x.
  Definition union (A B : set) : set := fun x => A x \/ B x.
  Definition diff (A B : set) : set := fun x => A x /\ ~ B x.

  (* block C is stable w.r.t. splitter (S, b) *)
  Definition bstable (C S : set) (b : nat) : Prop :=
    (forall p, C p -> S (delta p b)) \/ (forall p, C p -> ~ S (delta p b)).
  Definition stable (P : list set) (S : set) (b : nat) : Prop := forall C, In C P -> bstable C S b.
  Definition refines (P' P : list set) : Prop := forall C', In C' P' -> exists C, In C P /\ sub C' C.

  Lemma bstable_sub C C' S b : sub C' C -> bstable C S b -> bstable C' S b.
  Proof. intros Hs [H|H]; [left|right]; intros p Hp; apply H, Hs, Hp. Qed.

  Lemma stable_refines P P' S b : refines P' P -> stable P S b -> stable P' S b.
  Proof. intros Hr Hst C' HC'. destruct (Hr C' HC') as (C & HC & Hsub). eapply bstable_sub; eauto. Qed.

  Lemma bstable_ext C S S' b : seq S S' -> bstable C S b -> bstable C S' b.
  Proof. intros He [H|H]; [left|right]; intros p Hp; specialize (H p Hp); firstorder. Qed.

  Lemma bstable_union C S1 S2 b : bstable C S1 b -> bstable C S2 b -> bstable C (union S1 S2) b.
  Proof. unfold bstable, union. intros [H1|H1] [H2|H2]; firstorder. Qed.

  (* needs excluded middle on membership only in the form already provided by stability itself *)
  Lemma bstable_diff C S1 S2 b : bstable C S1 b -> bstable C S2 b -> bstable C (diff S1 S2) b.
  Proof. unfold bstable, diff. intros [H1|H1] [H2|H2]; firstorder. Qed.

  (* sets generated from a base by union, difference and extensional equality *)
  Inductive gen (Base : set -> Prop) : set -> Prop :=
  | gen_base S : Base S -> gen Base S
  | gen_union S1 S2 : gen Base S1 -> gen Base S2 -> gen Base (union S1 S2)
  | gen_diff S1 S2 : gen Base S1 -> gen Base S2 -> gen Base (diff S1 S2)
  | gen_ext S S' : seq S S' -> gen Base S -> gen Base S'.

  Lemma gen_mono (B1 B2 : set -> Prop) : (forall S, B1 S -> B2 S) -> forall S, gen B1 S -> gen B2 S.
  Proof. intros H S HS. induction HS; [apply gen_base; auto | apply gen_union; auto | apply gen_diff; auto | eapply gen_ext; eauto]. Qed.

  Lemma gen_stable P b S : gen (fun S => stable P S b) S -> stable P S b.
  Proof.
    intros HS. induction HS as [S HS|S1 S2 _ IH1 _ IH2|S1 S2 _ IH1 _ IH2|S S' He _ IH]; auto.
    - intros C HC. apply bstable_union; auto.
    - intros C HC. apply bstable_diff; auto.
    - intros C HC. eapply bstable_ext; eauto.
  Qed.

  (* the waiting set: pairs (splitter, symbol) *)
  Definition waiting := list (set * nat).
  Definition base (P : list set) (W : waiting) (b : nat) : set -> Prop :=
    fun S => stable P S b \/ exists S', In (S', b) W /\ seq S S'.
  Definition Inv (P : list set) (W : waiting) : Prop := forall b B, In B P -> gen (base P W b) B.

  (* termination of the while loop: W = [] *)
  Theorem inv_final P : Inv P [] -> forall b B, In B P -> stable P B b.
  Proof.
    intros HI b B HB. apply gen_stable. eapply gen_mono; [|apply HI; exact HB].
    intros S [H|(S' & [] & _)]. exact H.
  Qed.

  (* One round.  (S0,a0) was popped: W = (S0,a0) :: Wrest up to order.  P' is the partition after the
     for-loop; the round is described by what the code guarantees about it:
       - P' refines P;
       - P' is stable w.r.t. (S0,a0)  (every block was split against it, singletons are trivially stable);
       - every new block B' is either an old block, or one of the halves B1, B2 of an old block B, and then
         for every symbol b one half was put into the new waiting set W'. *)
  Definition round_ok (P : list set) (Wrest : waiting) (S0 : set) (a0 : nat) (P' : list set) (W' : waiting) : Prop :=
    refines P' P /\
    stable P' S0 a0 /\
    (forall S b, In (S, b) Wrest -> In (S, b) W') /\
    (forall B', In B' P' ->
        In B' P \/
        exists B B1 B2, In B P /\ seq B (union B1 B2) /\ (forall x, B1 x -> ~ B2 x) /\ (seq B' B1 \/ seq B' B2) /\
                        forall b, In (B1, b) W' \/ In (B2, b) W').

  Theorem round_preserves P Wrest S0 a0 P' W' :
    Inv P ((S0, a0) :: Wrest) -> round_ok P Wrest S0 a0 P' W' -> Inv P' W'.
  Proof.
    intros HI (Href & Hst0 & Hkeep & Hnew) b B' HB'.
    (* the base only grows *)
    assert (Hmono : forall S, base P ((S0, a0) :: Wrest) b S -> base P' W' b S).
    { intros S [Hs|(S' & Hin & He)].
      - left. eapply stable_refines; eauto.
      - destruct Hin as [Heq|Hin].
        + inversion Heq; subst. left. intros C HC. eapply bstable_ext; [|apply Hst0; exact HC].
          intros x; symmetry; apply He.
        + right. exists S'. split; auto. }
    destruct (Hnew B' HB') as [Hold|(B & B1 & B2 & HB & Hsplit & Hdisj & Hwhich & Hw)].
    - eapply gen_mono; [exact Hmono|]. apply HI. exact Hold.
    - assert (HgB : gen (base P' W' b) B) by (eapply gen_mono; [exact Hmono|]; apply HI; exact HB).
      assert (Hb1 : In (B1, b) W' -> gen (base P' W' b) B1).
      { intros Hin. apply gen_base. right. exists B1. split; auto. intros x; tauto. }
      assert (Hb2 : In (B2, b) W' -> gen (base P' W' b) B2).
      { intros Hin. apply gen_base. right. exists B2. split; auto. intros x; tauto. }
      assert (H12 : gen (base P' W' b) B1 /\ gen (base P' W' b) B2).
      { destruct (Hw b) as [Hin|Hin].
        - split; [auto|]. apply gen_ext with (diff B B1); [|apply gen_diff; auto].
          intros x. unfold diff. specialize (Hsplit x). specialize (Hdisj x). unfold union in Hsplit. tauto.
        - split; [|auto]. apply gen_ext with (diff B B2); [|apply gen_diff; auto].
          intros x. unfold diff. specialize (Hsplit x). specialize (Hdisj x). unfold union in Hsplit. tauto. }
      destruct Hwhich as [He|He]; [apply gen_ext with B1 | apply gen_ext with B2]; try tauto;
        intros x; symmetry; apply He.
  Qed.

  (* initial state of the algorithm: P = {F, Q\F} (non-empty ones), W = {(min(F,Q\F), b) | b} *)
  Theorem inv_initial (Qs F : set) (P : list set) (W : waiting) (Sg : list nat) :
    (forall p b, Qs p -> Qs (delta p b)) ->                     (* delta is closed on Q *)
    (forall C, In C P -> sub C Qs) ->
    (forall B, In B P -> seq B Qs \/ seq B (fun x => Qs x /\ F x) \/ seq B (fun x => Qs x /\ ~ F x)) ->
    (forall x, Qs x -> F x \/ ~ F x) ->
    (forall b, In ((fun x => Qs x /\ F x), b) W \/ In ((fun x => Qs x /\ ~ F x), b) W) ->
    Inv P W.
  Proof.
    intros Hclosed HPQ Hshape Hdec HW b B HB.
    assert (HQ : gen (base P W b) Qs).
    { apply gen_base. left. intros C HC. left. intros p Hp. apply Hclosed, (HPQ C HC), Hp. }
    destruct (Hshape B HB) as [He|[He|He]].
    - apply gen_ext with Qs; auto. intros x; symmetry; apply He.
    - destruct (HW b) as [Hin|Hin].
      + apply gen_base. right. eexists. split; [exact Hin|exact He].
      + apply gen_ext with (diff Qs (fun x => Qs x /\ ~ F x)).
        * intros x. unfold diff. specialize (He x). specialize (Hdec x). tauto.
        * apply gen_diff; auto. apply gen_base. right. eexists. split; [exact Hin|]. intros x; tauto.
    - destruct (HW b) as [Hin|Hin].
      + apply gen_ext with (diff Qs (fun x => Qs x /\ F x)).
        * intros x. unfold diff. specialize (He x). tauto.
        * apply gen_diff; auto. apply gen_base. right. eexists. split; [exact Hin|]. intros x; tauto.
      + apply gen_base. right. eexists. split; [exact Hin|exact He].
  Qed.
End Hopcroft.
