(* Model of the Chomsky-normal-form conversion of gambatools.cfg_algorithms, phase by phase:
   cfg_fresh_variable, cfg_add_new_start_variable_in_place, cfg_nullable_variables, expand_nullable_variables,
   cfg_remove_epsilon_rules_in_place, cfg_derivable_variables, cfg_eliminate_unit_rules_in_place,
   cfg_make_rules_of_length_two_in_place, cfg_eliminate_terminals_in_place, cfg_to_chomsky.
   Fresh variable names are taken from a stream supplied by the caller (the names the implementation actually
   chose); a name that is already in V makes the phase fail (None) — cfg_fresh_variable itself is modelled on
   character strings in FreshName.v and proved to return a name outside V.  Definitions only. *)
From GT Require Import Base.Prelude Model.CFG.

(* ---- helper: take a fresh name ---- *)
Definition take_fresh (V : list nat) (stream : list nat) : option (nat * list nat) :=
  match stream with
  | [] => None
  | x :: rest => if mem x V then None else Some (x, rest)
  end.
Fixpoint take_fresh_n (n : nat) (V : list nat) (stream : list nat) : option (list nat * list nat * list nat) :=
  (* returns (names, V extended, remaining stream); each name is added to V before the next is taken *)
  match n with
  | 0 => Some ([], V, stream)
  | S n' => match take_fresh V stream with
            | None => None
            | Some (x, rest) => match take_fresh_n n' (V ++ [x]) rest with
                                | None => None
                                | Some (xs, V', rest') => Some (x :: xs, V', rest')
                                end
            end
  end.

Definition max_id (R : list rule) : nat := fold_left (fun m r => Nat.max m (rid r)) R 0.

(* ---- phase 1: new start variable ---- *)
Definition add_start (stream : list nat) (G : cfg) : option (cfg * list nat) :=
  match take_fresh (gV G) stream with
  | None => None
  | Some (S0, rest) => Some (mkCFG (gV G ++ [S0]) (gSg G) (mkRule S0 (S (max_id (gR G))) [Var (gS G)] :: gR G) S0, rest)
  end.

(* ---- phase 2: epsilon rules ---- *)
(* one round of the `while True` loop; rules are scanned in order and `nullable` grows during the scan *)
Definition nullable_round (R : list rule) (nullable : list nat) : list nat * bool :=
  fold_left (fun (st : list nat * bool) r =>
    let '(nl, ch) := st in
    if negb (mem (rvar r) nl) && forallb (fun x => is_var x && mem (sname x) nl) (rrhs r) then (nl ++ [rvar r], true) else (nl, ch))
    R (nullable, false).
Fixpoint nullable_loop (R : list rule) (fuel : nat) (nullable : list nat) : option (list nat) :=
  match fuel with
  | 0 => None
  | S f => let '(nl, ch) := nullable_round R nullable in if ch then nullable_loop R f nl else Some nl
  end.
Definition cfg_nullable (G : cfg) : option (list nat) := nullable_loop (gR G) (S (S (length (gR G)))) [].

Fixpoint expand_nullable (x : list sym) (W : list nat) : list (list sym) :=
  match x with
  | [] => [[]]
  | s :: x' => let y := expand_nullable x' W in
               map (cons s) y ++ (if is_var s && mem (sname s) W then y else [])
  end.

Fixpoint remove_dup_rules (R : list rule) (seen : list rule) : list rule :=
  match R with
  | [] => []
  | r :: R' => if existsb (rule_eqb r) seen then remove_dup_rules R' seen else r :: remove_dup_rules R' (seen ++ [r])
  end.
Fixpoint renumber (R : list rule) (i : nat) : list rule :=
  match R with [] => [] | r :: R' => mkRule (rvar r) i (rrhs r) :: renumber R' (S i) end.

Definition remove_eps (G : cfg) : option cfg :=
  match cfg_nullable G with
  | None => None
  | Some W =>
    let R1 := flat_map (fun r =>
                flat_map (fun symbols =>
                  match symbols with
                  | [] => if mem (rvar r) W && negb (Nat.eqb (rvar r) (gS G)) then [] else [mkRule (rvar r) 0 []]
                  | _ => [mkRule (rvar r) 0 symbols]
                  end) (expand_nullable (rrhs r) W)) (gR G) in
    Some (mkCFG (gV G) (gSg G) (renumber (remove_dup_rules R1 []) 0) (gS G))
  end.

(* ---- phase 3: unit rules ---- *)
Definition is_unit (r : rule) : bool := match rrhs r with [x] => is_var x | _ => false end.
(* `B in V` compares strings: a one-symbol alternative whose symbol's name is a variable name *)
Definition unit_target (G : cfg) (r : rule) : option nat :=
  match rrhs r with [x] => if mem (sname x) (gV G) then Some (sname x) else None | _ => None end.
Definition derivable_step (G : cfg) (W1 : list nat) (W : list nat) : list nat :=
  fold_left (fun W r => match unit_target G r with
                        | Some B => if mem (rvar r) W1 then add B W else W
                        | None => W end) (gR G) W.
Fixpoint derivable_loop (G : cfg) (fuel : nat) (W1 W : list nat) : option (list nat) :=
  (* while W1 != W: W1 = W.copy(); ... *)
  match fuel with
  | 0 => None
  | S f => if seteqb W1 W then Some W else derivable_loop G f W (derivable_step G W W)
  end.
Definition cfg_derivable (G : cfg) (A : nat) : option (list nat) :=
  let W0 := fold_left (fun W r => if Nat.eqb (rvar r) A then match unit_target G r with Some B => add B W | None => W end else W) (gR G) [] in
  match derivable_loop G (S (S (length (gV G)))) [] W0 with
  | None => None
  | Some W => Some (filter (fun B => negb (Nat.eqb B A)) W)
  end.

Definition put_start_in_front (S0 : nat) (R : list rule) : list rule :=
  (* swap R[0] with the first rule whose variable is S *)
  match R with
  | [] => []
  | r0 :: rest =>
    if Nat.eqb (rvar r0) S0 then R
    else (fix go (pre post : list rule) : list rule :=
            match post with
            | [] => R
            | r :: post' => if Nat.eqb (rvar r) S0 then r :: pre ++ r0 :: post' else go (pre ++ [r]) post'
            end) [] rest
  end.

(* `ordV` = iteration order of the set G.V *)
Definition elim_unit (ordV : list nat -> list nat) (G : cfg) : option cfg :=
  let step := fun (acc : option (list rule)) A =>
    match acc, cfg_derivable G A with
    | Some R1, Some W =>
      Some (fold_left (fun R1 r =>
              if mem (rvar r) W && negb (is_unit r)
              then let r1 := mkRule A (rid r) (rrhs r) in if existsb (rule_eqb r1) R1 then R1 else R1 ++ [r1]
              else R1) (gR G) R1)
    | _, _ => None
    end in
  match fold_left step (ordV (gV G)) (Some (gR G)) with
  | None => None
  | Some R1 => Some (mkCFG (gV G) (gSg G) (put_start_in_front (gS G) (filter (fun r => negb (is_unit r)) R1)) (gS G))
  end.

(* ---- phase 4: rules of length two ---- *)
(* chain A -> u0 A0 ; A0 -> u1 A1 ; ... ; A_{n-3} -> u_{n-2} u_{n-1}  for fresh A0..A_{n-3} *)
Fixpoint chain_rules (names : list nat) (u : list sym) (next : nat) : list rule :=
  match names, u with
  | [Ak], _ => [mkRule Ak next u]                                   (* last: A[-1] -> u[-2:] *)
  | Ak :: ((Ak1 :: _) as names'), x :: u' => mkRule Ak next [x; Var Ak1] :: chain_rules names' u' (S next)
  | _, _ => []
  end.
(* state: V, rules appended so far, remaining stream, alternatives already rewritten (id -> new symbols), next id *)
Definition len2_step (st : option (list nat * list rule * list rule * list nat * list (nat * list sym) * nat)) (r : rule)
  : option (list nat * list rule * list rule * list nat * list (nat * list sym) * nat) :=
  match st with
  | None => None
  | Some (V, head, appended, stream, done, next) =>
    match lookup (rid r) done with
    | Some newrhs => Some (V, head ++ [mkRule (rvar r) (rid r) newrhs], appended, stream, done, next)   (* shared alternative, already short *)
    | None =>
      let u := rrhs r in
      let n := length u in
      if Nat.leb n 2 then Some (V, head ++ [r], appended, stream, done, next)
      else match take_fresh_n (n - 2) V stream with
           | None => None
           | Some (names, V', stream') =>
             match u, names with
             | u0 :: urest, A0 :: _ =>
               let newrhs := [u0; Var A0] in
               Some (V', head ++ [mkRule (rvar r) (rid r) newrhs], appended ++ chain_rules names urest next, stream',
                     (rid r, newrhs) :: done, next + length names)
             | _, _ => None
             end
           end
    end
  end.
Definition len_two (stream : list nat) (G : cfg) : option (cfg * list nat) :=
  match fold_left len2_step (gR G) (Some (gV G, [], [], stream, [], S (max_id (gR G)))) with
  | None => None
  | Some (V, head, appended, stream', _, _) => Some (mkCFG V (gSg G) (head ++ appended) (gS G), stream')
  end.

(* ---- phase 5: terminals ---- *)
Definition term_step (st : option (list nat * list rule * list (nat * nat) * list nat)) (r : rule)
  : option (list nat * list rule * list (nat * nat) * list nat) :=
  match st with
  | None => None
  | Some (V, out, repl, stream) =>
    if Nat.leb 2 (length (rrhs r)) then
      match fold_left (fun (acc : option (list nat * list sym * list (nat * nat) * list nat)) (x : sym) =>
               match acc with
               | None => None
               | Some (V, syms, repl, stream) =>
                 if is_var x then Some (V, syms ++ [x], repl, stream)
                 else match lookup (sname x) repl with
                      | Some A => Some (V, syms ++ [Var A], repl, stream)
                      | None => match take_fresh V stream with
                                | None => None
                                | Some (A, rest) => Some (V ++ [A], syms ++ [Var A], repl ++ [(sname x, A)], rest)
                                end
                      end
               end) (rrhs r) (Some (V, [], repl, stream)) with
      | None => None
      | Some (V', syms, repl', stream') => Some (V', out ++ [mkRule (rvar r) (rid r) syms], repl', stream')
      end
    else Some (V, out ++ [r], repl, stream)
  end.
Definition elim_terminals (stream : list nat) (G : cfg) : option (cfg * list nat) :=
  match fold_left term_step (gR G) (Some (gV G, [], [], stream)) with
  | None => None
  | Some (V, out, repl, stream') =>
    let base := S (max_id (gR G)) in
    Some (mkCFG V (gSg G) (out ++ map (fun ta => mkRule (snd ta) (base + fst ta) [Tm (fst ta)]) repl) (gS G), stream')
  end.

(* ---- cfg_to_chomsky ---- *)
Definition to_chomsky (ordV : list nat -> list nat) (stream : list nat) (G : cfg) : option (cfg * list nat) :=
  match add_start stream G with
  | None => None
  | Some (G1, s1) =>
    match remove_eps G1 with
    | None => None
    | Some G2 =>
      match elim_unit ordV G2 with
      | None => None
      | Some G3 =>
        match len_two s1 G3 with
        | None => None
        | Some (G4, s4) => elim_terminals s4 G4
        end
      end
    end
  end.
