From GT Require Import Base.Prelude Model.DFA Model.NFA Model.Iso Decide.DFAEquiv Judge.Common.

(* implementation verdicts: None = exception / timeout, Some b = returned b *)
Definition judge_C20 (D1 D2 : dfa nat) (oiso oiso1 : option bool) : nat :=
  worst_code [ check (dfa_wf_b D1 && dfa_wf_b D2) 9;
               check (eqb oiso (iso_matrix pick_head D1 D2)) 2;
               check (eqb oiso1 (iso1 pick_head D1 D2)) 3;
               (* internal consistency of the two proved-equal models and of the corollary iso -> equivalent *)
               check (eqb (iso_matrix pick_head D1 D2) (iso1 pick_last D1 D2)) 8;
               check (match iso1 pick_head D1 D2 with Some true => dfa_equivb D1 D2 | _ => true end) 8 ].
Definition explain_C20 (D1 D2 : dfa nat) := (iso_matrix pick_head D1 D2, iso1 pick_head D1 D2, dfa_equivb D1 D2).
