(* C10 — PDA normal forms and the conversion PDA -> CFG (gambatools.pda_algorithms:
   pda_to_one_accepting_state_in_place, pda_to_accept_on_empty_stack_in_place (as repaired by fix F10),
   pda_to_push_pop_in_place, pda_to_cfg).
   "Each normal-form routine yields a valid PDA with the same language and the announced shape (one accepting
   state / accepting only with an empty stack / every transition either pushes or pops exactly one symbol); the
   grammar produced by pda_to_cfg is valid, has the input alphabet of the PDA as terminals and generates exactly
   the language of the PDA."
   Model: Model/PDA.v (automaton, `moves`, `pda_reach`, `pda_lang` = acceptance by final state from the empty
   stack, `pda_wf` = PDA._check_validity) and Model/PDAConv.v (the routines).  Conventions:
   * a configuration is (state, stack) and the TOP OF THE STACK IS THE HEAD OF THE LIST (the Python keeps the top
     at the end of its list; the harness reverses stacks);
   * `peps P` is the epsilon symbol, used both for "reads no input" and for "no stack symbol";
   * the fresh names chosen by the implementation are replayed through the arguments: `states` is the stream of
     the fresh state names (fresh_state) in the order in which the implementation drew them, `bottom` is the
     fresh bottom-of-stack marker and `dummy` the fresh stack symbol of the push/pop format (fresh_symbol).
     A routine of the model fails (None) when a replayed name is not fresh; every statement below holds for
     whatever names are supplied, provided the routine succeeds;
   * the grammar variable A_pq of Sipser's construction is encoded by `pairv p q = p * 40 + q`, which is
     injective for state codes < 40: hence the hypotheses `q < 40` on the states of the automaton and on the
     names of the stream (the harness codes states below 40).  They are needed: C10_small_states_needed shows a
     valid push/pop automaton with a state 40 whose grammar generates a word that the automaton rejects;
   * pda_to_push_pop needs `dummy <> peps P` (the Python only asserts `dummy not in Gamma`):
     C10_push_pop_dummy_must_differ_from_epsilon shows that with dummy = epsilon the result is neither valid nor
     in push/pop format.
   Proofs: Proofs/PDAConvProofs.v, Proofs/PDA2CFGProofs.v, Proofs/PDA2CFGFinal.v. *)
From GT Require Import Base.Prelude Model.NFA Model.PDA Model.CFG Model.PDAConv
  Proofs.PDAConvProofs Proofs.PDA2CFGProofs Proofs.PDA2CFGFinal.
From GT Require Model.Tokens Model.Naming Proofs.NamingProofs.

(* one accepting state *)
Theorem C10_one_accepting_state : forall (states : list nat) (P P' : pda) (rest : list nat),
  pda_wf P -> to_one_accept states P = Some (P', rest) ->
  pda_wf P' /\ length (dedup (pF P')) = 1 /\ pSg P' = pSg P /\ pGm P' = pGm P /\ peps P' = peps P /\ pq0 P' = pq0 P /\
  (forall w, pda_lang P' w <-> pda_lang P w).
Proof. exact to_one_accept_correct. Qed.
(* ---- names of the grammar variables of pda_to_cfg ("{}'{}".format(p, q), Model/Naming.v): the model uses p*40+q
   (hypothesis small_states); for state names without a quote (all \w+ names) different pairs get different strings ---- *)
Theorem C10_variable_names_injective : forall p q p' q' : Tokens.token,
  ~ In 39 p -> ~ In 39 q -> ~ In 39 p' -> ~ In 39 q' ->
  Naming.var_name p q = Naming.var_name p' q' -> p = p' /\ q = q'.
Proof. exact NamingProofs.var_name_inj. Qed.

Print Assumptions C10_one_accepting_state.

(* accept on empty stack: same language, a single accepting state, and that state is only ever reached with an
   empty stack; the push/pop format is preserved *)
Theorem C10_accept_on_empty_stack : forall (bottom : nat) (states : list nat) (P P' : pda) (rest : list nat),
  pda_wf P -> to_empty_stack bottom states P = Some (P', rest) ->
  pda_wf P' /\ pSg P' = pSg P /\ peps P' = peps P /\ (exists qa, pF P' = [qa]) /\
  (forall w, pda_lang P' w <-> pda_lang P w) /\
  (forall w q st, In q (pF P') -> pda_reach P' (pq0 P', []) w (q, st) -> st = []) /\
  (pda_is_push_pop P = true -> pda_is_push_pop P' = true).
Proof. exact to_empty_stack_correct. Qed.
Print Assumptions C10_accept_on_empty_stack.

(* the routine fails exactly when the marker is not fresh (or is epsilon) or one of the three state names is
   missing / not fresh *)
Theorem C10_empty_stack_failure : forall (bottom : nat) (states : list nat) (P : pda),
  to_empty_stack bottom states P = None <->
  (In bottom (pGm P) \/ bottom = peps P \/
   match states with
   | qi :: qd :: qa :: _ => In qi (pQ P) \/ In qd (pQ P ++ [qi]) \/ In qa (pQ P ++ [qi; qd])
   | _ => True
   end).
Proof. exact to_empty_stack_none. Qed.
Print Assumptions C10_empty_stack_failure.

(* push/pop format *)
Theorem C10_push_pop : forall (dummy : nat) (states : list nat) (P P' : pda) (rest : list nat),
  pda_wf P -> dummy <> peps P -> to_push_pop dummy states P = Some (P', rest) ->
  pda_wf P' /\ pda_is_push_pop P' = true /\ length (dedup (pF P')) = 1 /\ pSg P' = pSg P /\ peps P' = peps P /\
  (forall w, pda_lang P' w <-> pda_lang P w).
Proof. exact to_push_pop_correct. Qed.
Print Assumptions C10_push_pop.

(* Sipser, Lemma 2.27: the variable A_pq generates exactly the words that take the automaton from p with an empty
   stack to q with an empty stack *)
Theorem C10_sipser_lemma : forall (P : pda) (p q : nat) (x : word),
  pda_wf P -> pda_is_push_pop P = true -> (forall s, In s (pQ P) -> s < 40) -> In p (pQ P) -> In q (pQ P) ->
  Forall (fun a => a <> peps P) x ->
  (yields (pda_to_cfg_core P) (Var (pairv p q)) x <-> pda_reach P (p, []) x (q, [])).
Proof. exact sipser_2_27. Qed.
Print Assumptions C10_sipser_lemma.

(* the grammar of a normalised automaton *)
Theorem C10_pda_to_cfg_core : forall (P : pda) (qa : nat),
  pda_wf P -> pda_is_push_pop P = true -> (forall s, In s (pQ P) -> s < 40) -> pF P = [qa] ->
  (forall w st, pda_reach P (pq0 P, []) w (qa, st) -> st = []) ->
  forall w, Forall (fun a => a <> peps P) w -> (cfg_lang (pda_to_cfg_core P) w <-> pda_lang P w).
Proof. exact pda_to_cfg_core_correct. Qed.
Print Assumptions C10_pda_to_cfg_core.

(* the whole conversion *)
Theorem C10_pda_to_cfg : forall (bottom dummy : nat) (states : list nat) (P : pda) (G : cfg),
  pda_wf P -> dummy <> peps P ->
  (forall q, In q (pQ P) -> q < 40) -> (forall q, In q states -> q < 40) ->
  pda_to_cfg bottom dummy states P = Some G ->
  cfg_wf G /\ gSg G = pSg P /\ forall w, cfg_lang G w <-> pda_lang P w.
Proof. exact pda_to_cfg_correct. Qed.
Print Assumptions C10_pda_to_cfg.

(* the bound on the state codes cannot be dropped: pairv 0 40 = pairv 1 0.  Nothing can be done from the initial
   state 0 (the language is empty), but the start variable A_{0,40} has the code of A_{1,0}, which derives 5 6 *)
Theorem C10_small_states_needed :
  let P := mkPDA [0; 1; 40] [5; 6] [7] [((1, 5, 9), [(1, 7)]); ((1, 6, 7), [(0, 9)])] 0 [40] 9 in
  pda_wf P /\ pda_is_push_pop P = true /\ pF P = [40] /\
  (forall w st, pda_reach P (pq0 P, []) w (40, st) -> st = []) /\
  cfg_lang (pda_to_cfg_core P) [5; 6] /\ ~ pda_lang P [5; 6].
Proof. exact small_states_needed. Qed.
Print Assumptions C10_small_states_needed.

(* dummy = epsilon (= 9) is accepted by the routine, and the result is neither valid nor in push/pop format *)
Theorem C10_push_pop_dummy_must_differ_from_epsilon :
  let P := mkPDA [0; 1] [5] [7] [((0, 5, 9), [(1, 9)])] 0 [1] 9 in
  pda_wf P /\
  exists P' rest, to_push_pop 9 [2; 3] P = Some (P', rest) /\ pda_wf_b P' = false /\ pda_is_push_pop P' = false.
Proof. exact to_push_pop_dummy_eps_cex. Qed.
Print Assumptions C10_push_pop_dummy_must_differ_from_epsilon.
Print Assumptions C10_variable_names_injective.
