(* C16 (automata part) — "Printing an object and parsing the text returns the same object: for every DFA, NFA, PDA and
   Turing machine over single-character symbols with a printable epsilon / blank symbol, parsing the printed text
   yields an automaton with identical states, alphabets, transitions, initial and accepting / halting states."

   Token-level models: Model/Printer.v (print_dfa / print_nfa / print_pda / print_tm; `ord`, `ordP` stand for
   sorted(...): ANY functions returning a permutation of their argument) and Model/Parser.v (parse_dfa / parse_nfa /
   parse_pda / parse_tm).  The re-parsed object is equal to the printed one as sets, field by field
   (Proofs/ParserProofs.v):
     tdfa_equiv : seteq Q, Sigma, delta, F; equal lookup in delta; equal q0
     tnfa_equiv : seteq Q, Sigma, F; equal q0, epsilon; the same transition relation
                  tn_step N p a q := exists s, lookup (p, a) (tnD N) = Some s /\ In q s
                  (a key whose target set is empty prints nothing and disappears: C16_nfa_empty_target_key_vanishes)
     tpda_equiv : seteq Q, Sigma, Gamma, delta, F; equal q0, epsilon
     ttm_equiv  : seteq Q, Sigma, Gamma; equal lookup in delta; equal q0, accept, reject, blank
   Side conditions (each is needed, see the witnesses at the end):
     - the object satisfies its class invariant (t*_wf_b), state lists and accepting sets are duplicate-free
       (a repeated name is rejected by the parser), delta of a DFA / NFA / TM is a dict (unique keys);
     - every state name matches \w+ (re_word; in particular it does not start with '%');
     - every state that is the SOURCE of a printed transition is not one of states / final / initial / a keyword of the
       format (kw_dfa = input_symbols only: parse_dfa passes dfa_keywords(), so a DFA state may be named like a
       keyword of another format, e.g. blank / accept); target-only states such as the default halting states
       `accept` / `reject` of a TM are unrestricted;
     - DFA / NFA input symbols match \w+ (they may be longer than one character), the NFA epsilon is a non-empty word;
     - PDA input symbols and epsilon are single \w characters, stack symbols single characters of the label class;
       TM tape symbols (incl. blank) are single characters of the TM label class.
   The regular-expression and grammar parts of C16 are handled by the correspondence harness / other files. *)
From Coq Require Import Permutation.
From GT Require Import Base.Prelude Model.Tokens Model.Parser Model.Printer Proofs.ParserProofs.

Theorem C16_print_parse_dfa : forall (ord : list token -> list token) (ordP : list (token * token) -> list (token * token)),
  (forall l, Permutation (ord l) l) -> (forall l, Permutation (ordP l) l) ->
  forall D : tdfa,
    tdfa_wf_b D = true -> NoDup (tdQ D) -> NoDup (tdF D) -> NoDup (map fst (tdD D)) ->
    (forall q, In q (tdQ D) -> re_word q = true) ->
    (forall p a q, In ((p, a), q) (tdD D) -> is_reserved kw_dfa p = false) ->
    (forall a, In a (tdS D) -> re_word a = true) ->
    exists D', parse_dfa (print_dfa ord ordP D) = Some D' /\ tdfa_equiv D D'.
Proof. exact print_parse_dfa. Qed.

Theorem C16_print_parse_nfa : forall (ord : list token -> list token) (ordP : list (token * token) -> list (token * token)),
  (forall l, Permutation (ord l) l) -> (forall l, Permutation (ordP l) l) ->
  forall N : tnfa,
    tnfa_wf_b N = true -> NoDup (tnQ N) -> NoDup (tnF N) -> NoDup (map fst (tnD N)) ->
    (forall q, In q (tnQ N) -> re_word q = true) ->
    (forall p a s, In ((p, a), s) (tnD N) -> s <> [] -> is_reserved kw_nfa p = false) ->
    (forall a, In a (tnS N) -> re_word a = true) -> tneps N <> [] ->
    exists N', parse_nfa (print_nfa ord ordP N) = Some N' /\ tnfa_equiv N N'.
Proof. exact print_parse_nfa. Qed.

Theorem C16_print_parse_pda : forall (ord : list token -> list token) (ordP : list (token * token) -> list (token * token)),
  (forall l, Permutation (ord l) l) -> (forall l, Permutation (ordP l) l) ->
  forall P : tpda,
    tpda_wf_b P = true -> NoDup (tpQ P) -> NoDup (tpF P) ->
    (forall q, In q (tpQ P) -> re_word q = true) ->
    (forall p a u q v, In (p, a, u, q, v) (tpD P) -> is_reserved kw_pda p = false) ->
    (forall a, In a (tpS P) -> single_w a) -> (forall u, In u (tpG P) -> single_sym u) -> single_w (tpeps P) ->
    exists P', parse_pda (print_pda ord ordP P) = Some P' /\ tpda_equiv P P'.
Proof. exact print_parse_pda. Qed.

Theorem C16_print_parse_tm : forall (ord : list token -> list token) (ordP : list (token * token) -> list (token * token)),
  (forall l, Permutation (ord l) l) -> (forall l, Permutation (ordP l) l) ->
  forall T : ttm,
    ttm_wf_b T = true -> NoDup (ttQ T) -> NoDup (map fst (ttD T)) ->
    (forall q, In q (ttQ T) -> re_word q = true) ->
    (forall p a v, In ((p, a), v) (ttD T) -> is_reserved kw_tm p = false) ->
    (forall g, In g (ttG T) -> single_tm g) ->
    exists T', parse_tm (print_tm ord ordP T) = Some T' /\ ttm_equiv T T'.
Proof. exact print_parse_tm. Qed.

(* the printed transition lines carry exactly the transitions (a permutation), whatever the order of the pairs *)
Theorem C16_regroup_perm : forall ordP : list (token * token) -> list (token * token),
  (forall l, Permutation (ordP l) l) -> forall trs, Permutation (regroup ordP trs) trs.
Proof. exact regroup_perm. Qed.

(* state names matching \w+ never start a comment *)
Theorem C16_re_word_not_percent : forall q, re_word q = true -> starts_percent q = false.
Proof. exact re_word_not_percent. Qed.

(* ---- witnesses: the side conditions are needed ---- *)
Require Coq.Strings.String.
Module C16_witness.
  Import Coq.Strings.String.
  Local Open Scope string_scope.
  Import ParserExamples.

  Theorem C16_dfa_other_keyword_state_ok :
    let D := mkTDFA [tok "blank"] [tok "a"] [((tok "blank", tok "a"), tok "blank")] (tok "blank") [] in
    tdfa_wf_b D = true /\ parse_dfa (print_dfa idT idP D) = Some D.
  Proof. exact dfa_other_keyword_state_ok. Qed.

  Theorem C16_dfa_accept_state_ok :
    let D := mkTDFA [tok "accept"; tok "reject"] [tok "a"]
               [((tok "accept", tok "a"), tok "reject"); ((tok "reject", tok "a"), tok "accept")] (tok "accept") [tok "accept"] in
    tdfa_wf_b D = true /\ parse_dfa (print_dfa idT idP D) = Some D.
  Proof. exact dfa_accept_state_ok. Qed.

  Theorem C16_dfa_keyword_state_rejected :
    let D := mkTDFA [tok "input_symbols"] [tok "a"] [((tok "input_symbols", tok "a"), tok "input_symbols")] (tok "input_symbols") [] in
    tdfa_wf_b D = true /\ parse_dfa (print_dfa idT idP D) = None.
  Proof. exact dfa_keyword_state_rejected. Qed.

  Theorem C16_dfa_states_state_rejected :
    let D := mkTDFA [tok "states"] [tok "a"] [((tok "states", tok "a"), tok "states")] (tok "states") [] in
    tdfa_wf_b D = true /\ parse_dfa (print_dfa idT idP D) = None.
  Proof. exact dfa_states_state_rejected. Qed.

  Theorem C16_nfa_other_keyword_state_ok :
    let N := mkTNFA [tok "blank"] [tok "a"] [((tok "blank", tok "a"), [tok "blank"])] (tok "blank") [] (tok "_") in
    tnfa_wf_b N = true /\ parse_nfa (print_nfa idT idP N) = Some N.
  Proof. exact nfa_other_keyword_state_ok. Qed.

  Theorem C16_nfa_keyword_state_rejected :
    let N := mkTNFA [tok "epsilon"] [tok "a"] [((tok "epsilon", tok "a"), [tok "epsilon"])] (tok "epsilon") [] (tok "_") in
    tnfa_wf_b N = true /\ parse_nfa (print_nfa idT idP N) = None.
  Proof. exact nfa_keyword_state_rejected. Qed.

  Theorem C16_tm_default_halting_names_ok :
    let T := mkTTM [tok "p"; tok "accept"; tok "reject"] [tok "a"] [tok "a"; tok "_"]
               [((tok "p", tok "a"), (tok "accept", tok "a", true)); ((tok "p", tok "_"), (tok "reject", tok "a", false))]
               (tok "p") (tok "accept") (tok "reject") (tok "_") in
    ttm_wf_b T = true /\ parse_tm (print_tm idT idP T) = Some T.
  Proof. exact tm_default_halting_names_ok. Qed.

  Theorem C16_nfa_empty_target_key_vanishes :
    let N := mkTNFA [tok "p"] [tok "a"] [((tok "p", tok "a"), [])] (tok "p") [] (tok "_") in
    tnfa_wf_b N = true /\ option_map tnD (parse_nfa (print_nfa idT idP N)) = Some [].
  Proof. exact nfa_empty_target_key_vanishes. Qed.

  Theorem C16_dfa_duplicate_final_rejected :
    let D := mkTDFA [tok "p"] [] [] (tok "p") [tok "p"; tok "p"] in
    tdfa_wf_b D = true /\ parse_dfa (print_dfa idT idP D) = None.
  Proof. exact dfa_duplicate_final_rejected. Qed.

  Theorem C16_tm_duplicate_key_differs :
    let T := mkTTM [tok "p"; tok "qa"; tok "qr"] [tok "a"] [tok "a"; tok "_"]
               [((tok "p", tok "a"), (tok "qa", tok "a", true)); ((tok "p", tok "a"), (tok "qr", tok "a", false))]
               (tok "p") (tok "qa") (tok "qr") (tok "_") in
    ttm_wf_b T = true /\
    option_map (fun T' => lookup (tok "p", tok "a") (ttD T')) (parse_tm (print_tm idT idP T)) = Some (Some (tok "qr", tok "a", false)) /\
    lookup (tok "p", tok "a") (ttD T) = Some (tok "qa", tok "a", true).
  Proof. exact tm_duplicate_key_differs. Qed.

  Theorem C16_pda_long_stack_symbol_rejected :
    let P := mkTPDA [tok "p"] [tok "a"] [tok "XY"] [(tok "p", tok "a", tok "XY", tok "p", tok "_")] (tok "p") [] (tok "_") in
    tpda_wf_b P = true /\ parse_pda (print_pda idT idP P) = None.
  Proof. exact pda_long_stack_symbol_rejected. Qed.

  Theorem C16_dfa_long_symbol_ok :
    let D := mkTDFA [tok "p"] [tok "ab"] [((tok "p", tok "ab"), tok "p")] (tok "p") [] in
    parse_dfa (print_dfa idT idP D) = Some D.
  Proof. exact dfa_long_symbol_ok. Qed.
End C16_witness.

Print Assumptions C16_print_parse_dfa.
Print Assumptions C16_print_parse_nfa.
Print Assumptions C16_print_parse_pda.
Print Assumptions C16_print_parse_tm.
Print Assumptions C16_regroup_perm.
Print Assumptions C16_re_word_not_percent.
Print Assumptions C16_witness.C16_dfa_other_keyword_state_ok.
Print Assumptions C16_witness.C16_dfa_accept_state_ok.
Print Assumptions C16_witness.C16_dfa_keyword_state_rejected.
Print Assumptions C16_witness.C16_dfa_states_state_rejected.
Print Assumptions C16_witness.C16_nfa_other_keyword_state_ok.
Print Assumptions C16_witness.C16_nfa_keyword_state_rejected.
Print Assumptions C16_witness.C16_tm_default_halting_names_ok.
Print Assumptions C16_witness.C16_nfa_empty_target_key_vanishes.
Print Assumptions C16_witness.C16_dfa_duplicate_final_rejected.
Print Assumptions C16_witness.C16_tm_duplicate_key_differs.
Print Assumptions C16_witness.C16_pda_long_stack_symbol_rejected.
Print Assumptions C16_witness.C16_dfa_long_symbol_ok.
