(* Proofs about Model/CFGMisc.v: productive variables, removal of unproductive variables and of useless rules,
   cfg_put_start_variable_in_front, cfg_to_nfa, cfg_to_dfa.  Stdlib only, no axioms. *)
From GT Require Import Base.Prelude Model.CFG Model.Chomsky Model.DFA Model.NFA Model.CFGMisc.
From GT Require Import Proofs.CFGBasics Proofs.NFAProofs.
From Coq Require Import Permutation.

(* ========================================================================================== *)
(* generic facts *)

Lemma NoDup_snoc' {A} (l : list A) x : NoDup l -> ~ In x l -> NoDup (l ++ [x]).
Proof.
  induction l as [|a l IH]; cbn; intros Hnd Hn.
  - constructor; [intros [] | constructor].
  - inversion Hnd as [|a' l' Ha Hl]; subst. constructor.
    + rewrite in_app_iff; cbn. intuition.
    + apply IH; auto.
Qed.

(* a grammar with more rules has more parse trees *)
Lemma yields_mono_mut (G G' : cfg) : (forall A rhs, has_rule G A rhs -> has_rule G' A rhs) ->
  (forall s w, yields G s w -> yields G' s w) /\ (forall l w, yields_list G l w -> yields_list G' l w).
Proof.
  intros Hr. apply yields_mutind.
  - intros a. constructor.
  - intros A rhs w HA _ IH. apply y_var with rhs; [apply Hr; exact HA | exact IH].
  - constructor.
  - intros x xs w1 w2 _ IH1 _ IH2. constructor; assumption.
Qed.

Lemma cfg_lang_mono (G G' : cfg) : gS G = gS G' -> (forall A rhs, has_rule G A rhs -> has_rule G' A rhs) ->
  forall w, cfg_lang G w -> cfg_lang G' w.
Proof.
  intros ES Hr w Hw. apply derives_yields in Hw. apply derives_yields. unfold yields_lang in *.
  rewrite <- ES. apply (proj1 (yields_mono_mut G G' Hr)). exact Hw.
Qed.

(* "A derives the terminal word w" in terms of parse trees *)
Lemma derives_var_yields G A w : derives G [Var A] (tword w) <-> yields G (Var A) w.
Proof. rewrite derives_yields_list. apply yields_list_single. Qed.

(* ========================================================================================== *)
(* cfg_productive_variables *)

Definition pinv (G : cfg) (p : list nat) : Prop :=
  NoDup p /\ forall A, In A p -> In A (map rvar (gR G)) /\ exists w, yields G (Var A) w.

Lemma productive_alt_yields G p : (forall A, In A p -> exists w, yields G (Var A) w) ->
  forall l, productive_alt p l = true -> exists w, yields_list G l w.
Proof.
  intros Hp l. induction l as [|x l IH]; cbn [productive_alt forallb]; intros H.
  - exists []. constructor.
  - apply andb_true_iff in H. destruct H as [Hx Hl]. destruct (IH Hl) as [w2 Hw2].
    destruct x as [b n]. unfold productive_sym in Hx. cbn [is_var sname fst snd] in Hx. destruct b.
    + cbn [negb orb] in Hx. apply mem_In in Hx. destruct (Hp n Hx) as [w1 Hw1].
      exists (w1 ++ w2). constructor; [exact Hw1 | exact Hw2].
    + exists ([n] ++ w2). constructor; [constructor | exact Hw2].
Qed.

Lemma ppass_spec G R : incl R (gR G) -> forall p ch p' ch',
  fold_left productive_step R (p, ch) = (p', ch') -> pinv G p ->
  pinv G p' /\ exists added, p' = p ++ added /\
    (ch' = false -> ch = false /\ added = [] /\ forall r, In r R -> productive_cond p r = false) /\
    (ch' = true -> ch = true \/ added <> []).
Proof.
  induction R as [|r R IH]; intros HR p ch p' ch' E Hinv.
  - cbn in E. inversion E; subst. split; [exact Hinv|]. exists []. rewrite app_nil_r.
    split; [reflexivity|]. split.
    + intros ->. repeat split. intros r [].
    + intros ->. left; reflexivity.
  - cbn [fold_left productive_step] in E. destruct (productive_cond p r) eqn:Ec.
    + assert (Hinv2 : pinv G (p ++ [rvar r])).
      { destruct Hinv as [Hnd Hall]. unfold productive_cond in Ec. apply andb_true_iff in Ec. destruct Ec as [Hn Hf].
        apply negb_true_iff, mem_nIn in Hn. split.
        - apply NoDup_snoc'; [exact Hnd | exact Hn].
        - intros A HA. apply in_app_iff in HA. destruct HA as [HA|[<-|[]]]; [apply Hall; exact HA|].
          split.
          + apply in_map. apply HR. left; reflexivity.
          + destruct (productive_alt_yields G p (fun B HB => proj2 (Hall B HB)) _ Hf) as [w Hw].
            exists w. apply y_var with (rrhs r); [|exact Hw].
            exists r. split; [apply HR; left; reflexivity | auto]. }
      destruct (IH (fun x Hx => HR x (or_intror Hx)) _ _ _ _ E Hinv2) as [Hi [added [En [Hf Ht]]]].
      split; [exact Hi|]. exists (rvar r :: added). split; [rewrite En, <- app_assoc; reflexivity|]. split.
      * intros Hc. destruct (Hf Hc) as [Hd _]. discriminate.
      * intros _. right. discriminate.
    + destruct (IH (fun x Hx => HR x (or_intror Hx)) _ _ _ _ E Hinv) as [Hi [added [En [Hf Ht]]]].
      split; [exact Hi|]. exists added. split; [exact En|]. split.
      * intros Hc. destruct (Hf Hc) as [H1 [H2 H3]]. repeat split; auto.
        intros r' [<-|Hr']; [exact Ec | apply H3; exact Hr'].
      * exact Ht.
Qed.

Lemma pinv_length G p : pinv G p -> length p <= length (gR G).
Proof.
  intros [Hnd Hall]. rewrite <- (map_length rvar (gR G)). apply NoDup_incl_length; [exact Hnd|].
  intros A HA. apply Hall. exact HA.
Qed.

(* the loop stops with changed = False before the fuel is used up *)
Lemma ploop_spec G : forall fuel p, pinv G p -> length (gR G) - length p < fuel ->
  pinv G (productive_loop (gR G) fuel p) /\
  (forall r, In r (gR G) -> productive_cond (productive_loop (gR G) fuel p) r = false).
Proof.
  induction fuel as [|f IH]; intros p Hinv Hf; [lia|].
  cbn [productive_loop]. unfold productive_pass.
  destruct (fold_left productive_step (gR G) (p, false)) as [p' ch'] eqn:E.
  destruct (ppass_spec G (gR G) (incl_refl _) _ _ _ _ E Hinv) as [Hinv' [added [En [Hfalse Htrue]]]].
  destruct ch'.
  - apply IH; [exact Hinv'|].
    destruct (Htrue eq_refl) as [Hc|Hne]; [discriminate|].
    pose proof (pinv_length G _ Hinv') as Hl. rewrite En in Hl |- *. rewrite app_length in Hl |- *.
    destruct added as [|a added]; [congruence|]. cbn [length] in Hl |- *. lia.
  - destruct (Hfalse eq_refl) as [_ [Ha Hcl]]. subst added. rewrite app_nil_r in En. subst p'.
    split; [exact Hinv | exact Hcl].
Qed.

Lemma pinv_nil G : pinv G [].
Proof. split; [constructor | intros A []]. Qed.

Lemma productive_closed G r : In r (gR G) -> productive_cond (cfg_productive_variables G) r = false.
Proof.
  intros Hr. apply (ploop_spec G (S (length (gR G))) [] (pinv_nil G)); [cbn; lia | exact Hr].
Qed.

Lemma productive_pinv G : pinv G (cfg_productive_variables G).
Proof. apply (ploop_spec G (S (length (gR G))) [] (pinv_nil G)). cbn; lia. Qed.

Lemma pass_closed R : forall p ch, (forall r, In r R -> productive_cond p r = false) ->
  fold_left productive_step R (p, ch) = (p, ch).
Proof.
  induction R as [|r R IH]; intros p ch Hcl; [reflexivity|].
  cbn [fold_left productive_step]. rewrite (Hcl r (or_introl eq_refl)). apply IH.
  intros r' Hr'. apply Hcl. right; exact Hr'.
Qed.

(* the fuel suffices: the value returned is a fixpoint of the loop body with changed = False *)
Theorem productive_fixpoint G :
  productive_pass (gR G) (cfg_productive_variables G) = (cfg_productive_variables G, false).
Proof. unfold productive_pass. apply pass_closed. intros r Hr. apply productive_closed; exact Hr. Qed.

(* ... hence more fuel does not change the result *)
Theorem productive_fuel_irrelevant G k :
  productive_loop (gR G) (S k) (cfg_productive_variables G) = cfg_productive_variables G.
Proof. cbn [productive_loop]. rewrite productive_fixpoint. reflexivity. Qed.

Lemma productive_complete_mut G p : (forall r, In r (gR G) -> productive_cond p r = false) ->
  (forall s w, yields G s w -> productive_sym p s = true) /\
  (forall l w, yields_list G l w -> productive_alt p l = true).
Proof.
  intros Hcl. apply yields_mutind.
  - intros a. reflexivity.
  - intros A rhs w [r [Hr [Hv Hrhs]]] _ IH.
    specialize (Hcl r Hr). unfold productive_cond in Hcl. rewrite Hrhs, IH, andb_true_r in Hcl.
    apply negb_false_iff in Hcl. rewrite Hv in Hcl. unfold productive_sym. cbn [Var is_var sname fst snd negb orb]. exact Hcl.
  - reflexivity.
  - intros x xs w1 w2 _ IH1 _ IH2. cbn [productive_alt forallb]. rewrite IH1. exact IH2.
Qed.

Theorem productive_yields G A : In A (cfg_productive_variables G) <-> exists w, yields G (Var A) w.
Proof.
  split.
  - intros HA. apply (proj2 (productive_pinv G)). exact HA.
  - intros [w Hw]. pose proof (proj1 (productive_complete_mut G _ (@productive_closed G)) _ _ Hw) as Hs.
    unfold productive_sym in Hs. cbn [Var is_var sname fst snd negb orb] in Hs. apply mem_In. exact Hs.
Qed.

Theorem productive_sound_complete G A :
  In A (cfg_productive_variables G) <-> exists w : word, derives G [Var A] (tword w).
Proof.
  rewrite productive_yields. split; intros [w Hw]; exists w; apply derives_var_yields; exact Hw.
Qed.

Theorem productive_NoDup G : NoDup (cfg_productive_variables G) /\ incl (cfg_productive_variables G) (map rvar (gR G)).
Proof.
  destruct (productive_pinv G) as [Hnd Hall]. split; [exact Hnd | intros A HA; apply Hall; exact HA].
Qed.

Lemma yields_list_productive G l w : yields_list G l w -> productive_alt (cfg_productive_variables G) l = true.
Proof. apply (productive_complete_mut G _ (@productive_closed G)). Qed.

(* ========================================================================================== *)
(* cfg_remove_inproductive_variables *)

Lemma remove_inproductive_has_rule G A rhs :
  has_rule (cfg_remove_inproductive G) A rhs <->
  has_rule G A rhs /\ In A (cfg_productive_variables G) /\ productive_alt (cfg_productive_variables G) rhs = true.
Proof.
  unfold has_rule, cfg_remove_inproductive. cbn [gR]. split.
  - intros [r [Hr [Hv Hrhs]]]. apply filter_In in Hr. destruct Hr as [Hr Hp].
    unfold productive_rule in Hp. apply andb_true_iff in Hp. destruct Hp as [Hm Ha]. apply mem_In in Hm.
    subst A rhs. split; [exists r; auto | auto].
  - intros [[r [Hr [Hv Hrhs]]] [HA Ha]]. exists r. split; [|auto]. apply filter_In. split; [exact Hr|].
    unfold productive_rule. subst A rhs. rewrite Ha, andb_true_r. apply mem_In. exact HA.
Qed.

Lemma remove_inproductive_yields_mut G :
  (forall s w, yields G s w -> yields (cfg_remove_inproductive G) s w) /\
  (forall l w, yields_list G l w -> yields_list (cfg_remove_inproductive G) l w).
Proof.
  apply yields_mutind.
  - intros a. constructor.
  - intros A rhs w HA Hl IH. apply y_var with rhs; [|exact IH].
    apply remove_inproductive_has_rule. split; [exact HA|]. split.
    + apply productive_yields. exists w. apply y_var with rhs; assumption.
    + apply yields_list_productive with w. exact Hl.
  - constructor.
  - intros x xs w1 w2 _ IH1 _ IH2. constructor; assumption.
Qed.

(* no hypothesis is needed; if the start variable is unproductive both languages are empty
   (and the start variable of the result is not in its V) *)
Theorem remove_inproductive_lang G w : cfg_lang (cfg_remove_inproductive G) w <-> cfg_lang G w.
Proof.
  split.
  - apply cfg_lang_mono; [reflexivity|]. intros A rhs HA. apply remove_inproductive_has_rule in HA. tauto.
  - intros Hw. apply derives_yields in Hw. apply derives_yields. unfold yields_lang in *.
    change (gS (cfg_remove_inproductive G)) with (gS G). apply remove_inproductive_yields_mut. exact Hw.
Qed.

(* every variable of the result is productive in the result *)
Theorem remove_inproductive_all_productive G A :
  In A (gV (cfg_remove_inproductive G)) -> exists w, derives (cfg_remove_inproductive G) [Var A] (tword w).
Proof.
  cbn [cfg_remove_inproductive gV]. intros HA. apply filter_In in HA. destruct HA as [_ HA]. apply mem_In in HA.
  apply productive_yields in HA. destruct HA as [w Hw]. exists w. apply derives_var_yields.
  apply remove_inproductive_yields_mut. exact Hw.
Qed.

Theorem remove_inproductive_wf G : cfg_wf G -> cfg_wf (cfg_remove_inproductive G).
Proof.
  intros Hwf r Hr. cbn [cfg_remove_inproductive gR gV gSg] in *. apply filter_In in Hr. destruct Hr as [Hr Hp].
  unfold productive_rule in Hp. apply andb_true_iff in Hp. destruct Hp as [Hm Ha].
  destruct (Hwf r Hr) as [Hv Hx]. split.
  - apply filter_In. split; [exact Hv | exact Hm].
  - intros x Hin. specialize (Hx x Hin). unfold productive_alt in Ha. rewrite forallb_forall in Ha. specialize (Ha x Hin).
    unfold productive_sym in Ha. destruct (is_var x).
    + cbn [negb orb] in Ha. apply filter_In. split; [exact Hx | exact Ha].
    + exact Hx.
Qed.

Theorem remove_inproductive_start G : In (gS G) (gV (cfg_remove_inproductive G)) <-> In (gS G) (gV G) /\ exists w, cfg_lang G w.
Proof.
  cbn [cfg_remove_inproductive gV]. rewrite filter_In, mem_In, productive_sound_complete. unfold cfg_lang. tauto.
Qed.

(* ========================================================================================== *)
(* cfg_remove_useless_rules *)

Lemma remove_useless_has_rule G A rhs :
  has_rule (cfg_remove_useless_rules G) A rhs <-> exists r, In r (gR G) /\ rvar r = A /\ rrhs r = rhs /\ is_useless r = false.
Proof.
  unfold has_rule, cfg_remove_useless_rules. cbn [gR]. split.
  - intros [r [Hr [Hv Hrhs]]]. apply filter_In in Hr. destruct Hr as [Hr Hu]. apply negb_true_iff in Hu. exists r. auto.
  - intros [r [Hr [Hv [Hrhs Hu]]]]. exists r. split; [|auto]. apply filter_In. split; [exact Hr | rewrite Hu; reflexivity].
Qed.

Lemma is_useless_true r : is_useless r = true -> rrhs r = [Var (rvar r)] \/ rrhs r = [Tm (rvar r)].
Proof.
  unfold is_useless. destruct (rrhs r) as [|[b n] [|y l]]; try discriminate. cbn [sname snd].
  intros E. apply Nat.eqb_eq in E. subst n. destruct b; [left | right]; reflexivity.
Qed.

Lemma remove_useless_yields_mut G : (forall r, In r (gR G) -> rrhs r <> [Tm (rvar r)]) ->
  (forall s w, yields G s w -> yields (cfg_remove_useless_rules G) s w) /\
  (forall l w, yields_list G l w -> yields_list (cfg_remove_useless_rules G) l w).
Proof.
  intros Hno. apply yields_mutind.
  - intros a. constructor.
  - intros A rhs w [r [Hr [Hv Hrhs]]] _ IH. destruct (is_useless r) eqn:Eu.
    + apply is_useless_true in Eu. destruct Eu as [Eu|Eu]; [|exfalso; exact (Hno r Hr Eu)].
      rewrite Hv in Eu. rewrite <- Hrhs, Eu in IH. apply yields_list_single. exact IH.
    + apply y_var with rhs; [|exact IH]. apply remove_useless_has_rule. exists r. auto.
  - constructor.
  - intros x xs w1 w2 _ IH1 _ IH2. constructor; assumption.
Qed.

(* The hypothesis excludes a rule A -> a whose terminal a has the same name as the variable A: Python compares
   the strings, so such a rule is removed although it is not useless (see remove_useless_rules_cex). *)
Theorem remove_useless_rules_lang G w : (forall r, In r (gR G) -> rrhs r <> [Tm (rvar r)]) ->
  (cfg_lang (cfg_remove_useless_rules G) w <-> cfg_lang G w).
Proof.
  intros Hno. split.
  - apply cfg_lang_mono; [reflexivity|]. intros A rhs HA. apply remove_useless_has_rule in HA.
    destruct HA as [r [Hr [Hv [Hrhs _]]]]. exists r. auto.
  - intros Hw. apply derives_yields in Hw. apply derives_yields. unfold yields_lang in *.
    change (gS (cfg_remove_useless_rules G)) with (gS G). apply (remove_useless_yields_mut G Hno). exact Hw.
Qed.

(* the usual situation: a valid grammar whose variables and terminals have different names *)
Corollary remove_useless_rules_lang_wf G w : cfg_wf G -> (forall A, In A (gV G) -> ~ In A (gSg G)) ->
  (cfg_lang (cfg_remove_useless_rules G) w <-> cfg_lang G w).
Proof.
  intros Hwf Hdis. apply remove_useless_rules_lang. intros r Hr E. destruct (Hwf r Hr) as [Hv Hx].
  specialize (Hx (Tm (rvar r))). rewrite E in Hx. specialize (Hx (or_introl eq_refl)). cbn in Hx.
  exact (Hdis _ Hv Hx).
Qed.

Theorem remove_useless_rules_wf G : cfg_wf G -> cfg_wf (cfg_remove_useless_rules G).
Proof.
  intros Hwf r Hr. cbn [cfg_remove_useless_rules gR gV gSg] in *. apply filter_In in Hr. apply Hwf. tauto.
Qed.

Theorem remove_useless_rules_none_left G r : In r (gR (cfg_remove_useless_rules G)) -> rrhs r <> [Var (rvar r)].
Proof.
  cbn [cfg_remove_useless_rules gR]. intros Hr E. apply filter_In in Hr. destruct Hr as [_ Hu].
  unfold is_useless in Hu. rewrite E in Hu. cbn [Var sname snd] in Hu. rewrite Nat.eqb_refl in Hu. discriminate.
Qed.

Definition useless_cex_G : cfg := mkCFG [0] [0] [mkRule 0 0 [Tm 0]] 0.
(* Python: CFG({Variable('S')}, {Terminal('S')}, [Rule(Variable('S'), Alternative([Terminal('S')]))], Variable('S')):
   the language {S} becomes empty *)
Theorem remove_useless_rules_cex :
  cfg_wf useless_cex_G /\ cfg_lang useless_cex_G [0] /\ ~ cfg_lang (cfg_remove_useless_rules useless_cex_G) [0].
Proof.
  split; [apply cfg_wf_b_spec; vm_compute; reflexivity|]. split.
  - apply derives_yields. unfold yields_lang. apply y_var with [Tm 0].
    + exists (mkRule 0 0 [Tm 0]). cbn. auto.
    + apply yields_list_single. constructor.
  - intros Hc. apply derives_yields in Hc. unfold yields_lang in Hc. apply yields_var_inv in Hc.
    destruct Hc as [rhs [[r [Hr _]] _]]. vm_compute in Hr. exact Hr.
Qed.

(* ========================================================================================== *)
(* cfg_put_start_variable_in_front *)

Lemma psf_perm' s R : Permutation (put_start_in_front s R) R.
Proof.
  unfold put_start_in_front. destruct R as [|r0 rest]; [constructor|].
  destruct (Nat.eqb (rvar r0) s); [apply Permutation_refl|].
  match goal with |- Permutation (?f [] rest) _ => set (go := f) end.
  assert (Hgo : forall post pre, pre ++ post = rest -> Permutation (go pre post) (r0 :: rest)).
  { induction post as [|r post IH]; intros pre Hp.
    - apply Permutation_refl.
    - change (go pre (r :: post)) with (if Nat.eqb (rvar r) s then r :: pre ++ r0 :: post else go (pre ++ [r]) post).
      destruct (Nat.eqb (rvar r) s).
      + rewrite <- Hp.
        transitivity (pre ++ r :: r0 :: post); [apply Permutation_middle|].
        transitivity (pre ++ r0 :: r :: post); [apply Permutation_app_head, perm_swap|].
        symmetry. apply (Permutation_middle pre (r :: post) r0).
      + apply IH. rewrite <- app_assoc. exact Hp. }
  apply Hgo. reflexivity.
Qed.

Theorem put_start_in_front_perm G : Permutation (gR (cfg_put_start_in_front G)) (gR G).
Proof. apply psf_perm'. Qed.

Theorem put_start_in_front_fields G :
  gV (cfg_put_start_in_front G) = gV G /\ gSg (cfg_put_start_in_front G) = gSg G /\ gS (cfg_put_start_in_front G) = gS G.
Proof. repeat split. Qed.

Lemma put_start_in_front_has_rule G A rhs : has_rule (cfg_put_start_in_front G) A rhs <-> has_rule G A rhs.
Proof.
  unfold has_rule. split; intros [r [Hr Hrest]]; exists r; (split; [|exact Hrest]).
  - apply (Permutation_in _ (put_start_in_front_perm G)). exact Hr.
  - apply (Permutation_in _ (Permutation_sym (put_start_in_front_perm G))). exact Hr.
Qed.

Theorem put_start_in_front_lang G w : cfg_lang (cfg_put_start_in_front G) w <-> cfg_lang G w.
Proof.
  split; (apply cfg_lang_mono; [reflexivity|]); intros A rhs HA; apply put_start_in_front_has_rule; exact HA.
Qed.

Theorem put_start_in_front_wf G : cfg_wf G -> cfg_wf (cfg_put_start_in_front G).
Proof.
  intros Hwf r Hr. apply (Permutation_in _ (put_start_in_front_perm G)) in Hr. exact (Hwf r Hr).
Qed.

(* what the routine is for: afterwards the first rule is a rule of the start variable, if there is one *)
Theorem put_start_in_front_head G : (exists r, In r (gR G) /\ rvar r = gS G) ->
  exists r0 rest, gR (cfg_put_start_in_front G) = r0 :: rest /\ rvar r0 = gS G.
Proof.
  intros [r [Hr Hv]]. cbn [cfg_put_start_in_front gR]. unfold put_start_in_front.
  destruct (gR G) as [|r0 rest]; [destruct Hr|].
  destruct (Nat.eqb (rvar r0) (gS G)) eqn:E0; [exists r0, rest; split; [reflexivity | apply Nat.eqb_eq; exact E0]|].
  destruct Hr as [<-|Hr]; [rewrite Hv, Nat.eqb_refl in E0; discriminate|].
  match goal with |- exists a b, ?f [] rest = _ /\ _ => set (go := f) end.
  assert (Hgo : forall post pre, In r post -> exists a b, go pre post = a :: b /\ rvar a = gS G).
  { induction post as [|r1 post IH]; intros pre Hin; [destruct Hin|].
    change (go pre (r1 :: post)) with (if Nat.eqb (rvar r1) (gS G) then r1 :: pre ++ r0 :: post else go (pre ++ [r1]) post).
    destruct (Nat.eqb (rvar r1) (gS G)) eqn:E1.
    - exists r1, (pre ++ r0 :: post). split; [reflexivity | apply Nat.eqb_eq; exact E1].
    - destruct Hin as [<-|Hin]; [rewrite Hv, Nat.eqb_refl in E1; discriminate|]. apply IH. exact Hin. }
  apply Hgo. exact Hr.
Qed.

(* ========================================================================================== *)
(* cfg_to_nfa *)

(* ---- the classification of alternatives ---- *)
Lemma kind_eps_inv geps rhs : alt_kind_of geps rhs = KEps -> rhs = [] \/ exists x, rhs = [x] /\ sname x = geps.
Proof.
  destruct rhs as [|x [|y [|z l]]]; cbn [alt_kind_of]; intros E.
  - left; reflexivity.
  - right. exists x. split; [reflexivity|]. destruct (Nat.eqb (sname x) geps) eqn:En; [apply Nat.eqb_eq; exact En|].
    destruct (is_var x); discriminate.
  - destruct (negb (is_var x) && is_var y); discriminate.
  - discriminate.
Qed.

Lemma kind_eps_trans_inv geps rhs B : alt_kind_of geps rhs = KEpsTrans B -> rhs = [Var B] /\ B <> geps.
Proof.
  destruct rhs as [|[b n] [|y [|z l]]]; cbn [alt_kind_of sname is_var fst snd]; intros E.
  - discriminate.
  - destruct (Nat.eqb n geps) eqn:En; [discriminate|]. apply Nat.eqb_neq in En.
    destruct b; [|discriminate]. inversion E; subst. split; [reflexivity | exact En].
  - destruct (negb b && is_var y); discriminate.
  - discriminate.
Qed.

Lemma kind_trans_inv geps rhs a B : alt_kind_of geps rhs = KTrans a B -> rhs = [Tm a; Var B].
Proof.
  destruct rhs as [|[b n] [|[b2 n2] [|z l]]]; cbn [alt_kind_of sname is_var fst snd]; intros E.
  - discriminate.
  - destruct (Nat.eqb n geps); [discriminate|]. destruct b; discriminate.
  - destruct b, b2; cbn [negb andb] in E; try discriminate. inversion E; subst. reflexivity.
  - discriminate.
Qed.

(* the accepted shapes *)
Definition alt_ok (geps : nat) (rhs : list sym) : Prop :=
  rhs = [] \/ (exists x, rhs = [x] /\ sname x = geps) \/ (exists B, rhs = [Var B]) \/ (exists a B, rhs = [Tm a; Var B]).

Lemma kind_ok_iff geps rhs : alt_kind_of geps rhs <> KBad <-> alt_ok geps rhs.
Proof.
  unfold alt_ok. split.
  - intros Hk. destruct (alt_kind_of geps rhs) eqn:E.
    + apply kind_eps_inv in E. tauto.
    + apply kind_eps_trans_inv in E. right; right; left. exists B. tauto.
    + apply kind_trans_inv in E. right; right; right. exists a, B. exact E.
    + contradiction.
  - intros [->|[[x [-> Hx]]|[[B ->]|[a [B ->]]]]]; cbn [alt_kind_of Var Tm sname is_var fst snd negb andb].
    + discriminate.
    + apply Nat.eqb_eq in Hx. rewrite Hx. discriminate.
    + destruct (Nat.eqb B geps); discriminate.
    + discriminate.
Qed.

(* when no one-symbol alternative is named like G.epsilon, the kinds are exactly the three textbook shapes *)
Lemma kind_of_nil geps : alt_kind_of geps [] = KEps.
Proof. reflexivity. Qed.
Lemma kind_of_var geps B : B <> geps -> alt_kind_of geps [Var B] = KEpsTrans B.
Proof. intros Hn. cbn [alt_kind_of Var sname is_var fst snd]. apply Nat.eqb_neq in Hn. rewrite Hn. reflexivity. Qed.
Lemma kind_of_trans geps a B : alt_kind_of geps [Tm a; Var B] = KTrans a B.
Proof. reflexivity. Qed.

(* ---- the transition dictionary ---- *)
Lemma delta_get_add q a q1 d q' a' :
  delta_get (delta_add q a q1 d) q' a' = if eqb (q', a') (q, a) then add q1 (delta_get d q a) else delta_get d q' a'.
Proof.
  unfold delta_add. unfold delta_get at 1. rewrite lookup_update.
  destruct (eqb (q', a') (q, a)); reflexivity.
Qed.

Lemma In_delta_get_add q a q1 d q' a' x :
  In x (delta_get (delta_add q a q1 d) q' a') <-> In x (delta_get d q' a') \/ (q' = q /\ a' = a /\ x = q1).
Proof.
  rewrite delta_get_add. destruct (eqb (q', a') (q, a)) eqn:E.
  - apply eqb_true in E. inversion E; subst. rewrite add_In. intuition.
  - apply eqb_neq in E. split; [auto|]. intros [Hx|[-> [-> _]]]; [exact Hx | exfalso; apply E; reflexivity].
Qed.

Lemma In_update {K V} `{Eqb K} (k : K) (v : V) m k' v' : In (k', v') (update k v m) -> (k', v') = (k, v) \/ In (k', v') m.
Proof.
  induction m as [|[k0 v0] m IH]; cbn [update].
  - intros [E|[]]. left; symmetry; exact E.
  - destruct (eqb k k0).
    + intros [E|Hin]; [left; symmetry; exact E | right; right; exact Hin].
    + intros [E|Hin]; [right; left; exact E|]. destruct (IH Hin) as [E|Hm]; [left; exact E | right; right; exact Hm].
Qed.

Definition trans_of (eps geps : nat) (r : rule) (q a q1 : nat) : Prop :=
  rvar r = q /\ ((alt_kind_of geps (rrhs r) = KEpsTrans q1 /\ a = eps) \/ alt_kind_of geps (rrhs r) = KTrans a q1).
Definition final_of (geps : nat) (r : rule) (q : nat) : Prop := rvar r = q /\ alt_kind_of geps (rrhs r) = KEps.

Lemma nfa_fold_none eps geps R : fold_left (nfa_conv_step eps geps) R None = None.
Proof. induction R as [|r R IH]; [reflexivity | exact IH]. Qed.

Lemma nfa_fold_spec eps geps R : forall d F d' F',
  fold_left (nfa_conv_step eps geps) R (Some (d, F)) = Some (d', F') ->
  (forall r, In r R -> alt_kind_of geps (rrhs r) <> KBad) /\
  (forall q, In q F' <-> In q F \/ exists r, In r R /\ final_of geps r q) /\
  (forall q a q1, In q1 (delta_get d' q a) <-> In q1 (delta_get d q a) \/ exists r, In r R /\ trans_of eps geps r q a q1).
Proof.
  induction R as [|r R IH]; intros d F d' F' E.
  - cbn in E. inversion E; subst. split; [intros r []|]. split.
    + intros q. split; [auto | intros [Hq|[r [[] _]]]; exact Hq].
    + intros q a q1. split; [auto | intros [Hq|[r [[] _]]]; exact Hq].
  - cbn [fold_left nfa_conv_step] in E. destruct (alt_kind_of geps (rrhs r)) as [|B|a0 B|] eqn:Ek.
    + destruct (IH _ _ _ _ E) as [Hk [HF HD]]. split; [|split].
      * intros r' [<-|Hr']; [rewrite Ek; discriminate | apply Hk; exact Hr'].
      * intros q. rewrite HF, add_In. split.
        -- intros [[->|Hq]|[r' [Hr' Hf]]].
           ++ right. exists r. split; [left; reflexivity | split; [reflexivity | exact Ek]].
           ++ left; exact Hq.
           ++ right. exists r'. split; [right; exact Hr' | exact Hf].
        -- intros [Hq|[r' [[<-|Hr'] Hf]]].
           ++ left; right; exact Hq.
           ++ left; left. destruct Hf as [Hv _]. symmetry; exact Hv.
           ++ right. exists r'. auto.
      * intros q a q1. rewrite HD. split.
        -- intros [Hq|[r' [Hr' Ht]]]; [left; exact Hq | right; exists r'; split; [right; exact Hr' | exact Ht]].
        -- intros [Hq|[r' [[<-|Hr'] Ht]]]; [left; exact Hq | | right; exists r'; auto].
           destruct Ht as [_ [[Ht _]|Ht]]; rewrite Ek in Ht; discriminate.
    + destruct (IH _ _ _ _ E) as [Hk [HF HD]]. split; [|split].
      * intros r' [<-|Hr']; [rewrite Ek; discriminate | apply Hk; exact Hr'].
      * intros q. rewrite HF. split.
        -- intros [Hq|[r' [Hr' Hf]]]; [left; exact Hq | right; exists r'; split; [right; exact Hr' | exact Hf]].
        -- intros [Hq|[r' [[<-|Hr'] Hf]]]; [left; exact Hq | | right; exists r'; auto].
           destruct Hf as [_ Hf]. rewrite Ek in Hf. discriminate.
      * intros q a q1. rewrite HD, In_delta_get_add. split.
        -- intros [[Hq|[-> [-> ->]]]|[r' [Hr' Ht]]].
           ++ left; exact Hq.
           ++ right. exists r. split; [left; reflexivity|]. split; [reflexivity|]. left. split; [exact Ek | reflexivity].
           ++ right. exists r'. split; [right; exact Hr' | exact Ht].
        -- intros [Hq|[r' [[<-|Hr'] Ht]]].
           ++ left; left; exact Hq.
           ++ left; right. destruct Ht as [Hv [[Ht Ha]|Ht]]; rewrite Ek in Ht; [|discriminate].
              inversion Ht; subst. auto.
           ++ right. exists r'. auto.
    + destruct (IH _ _ _ _ E) as [Hk [HF HD]]. split; [|split].
      * intros r' [<-|Hr']; [rewrite Ek; discriminate | apply Hk; exact Hr'].
      * intros q. rewrite HF. split.
        -- intros [Hq|[r' [Hr' Hf]]]; [left; exact Hq | right; exists r'; split; [right; exact Hr' | exact Hf]].
        -- intros [Hq|[r' [[<-|Hr'] Hf]]]; [left; exact Hq | | right; exists r'; auto].
           destruct Hf as [_ Hf]. rewrite Ek in Hf. discriminate.
      * intros q a q1. rewrite HD, In_delta_get_add. split.
        -- intros [[Hq|[-> [-> ->]]]|[r' [Hr' Ht]]].
           ++ left; exact Hq.
           ++ right. exists r. split; [left; reflexivity|]. split; [reflexivity|]. right. exact Ek.
           ++ right. exists r'. split; [right; exact Hr' | exact Ht].
        -- intros [Hq|[r' [[<-|Hr'] Ht]]].
           ++ left; left; exact Hq.
           ++ left; right. destruct Ht as [Hv [[Ht Ha]|Ht]]; rewrite Ek in Ht; [discriminate|].
              inversion Ht; subst. auto.
           ++ right. exists r'. auto.
    + rewrite nfa_fold_none in E. discriminate.
Qed.

Lemma nfa_fold_none_iff eps geps R : forall d F,
  fold_left (nfa_conv_step eps geps) R (Some (d, F)) = None <-> exists r, In r R /\ alt_kind_of geps (rrhs r) = KBad.
Proof.
  induction R as [|r R IH]; intros d F.
  - cbn. split; [discriminate | intros [r [[] _]]].
  - cbn [fold_left nfa_conv_step]. destruct (alt_kind_of geps (rrhs r)) as [|B|a0 B|] eqn:Ek.
    + rewrite IH. split; intros [r' [Hr' Hb]]; exists r'.
      * split; [right; exact Hr' | exact Hb].
      * destruct Hr' as [<-|Hr']; [rewrite Ek in Hb; discriminate | auto].
    + rewrite IH. split; intros [r' [Hr' Hb]]; exists r'.
      * split; [right; exact Hr' | exact Hb].
      * destruct Hr' as [<-|Hr']; [rewrite Ek in Hb; discriminate | auto].
    + rewrite IH. split; intros [r' [Hr' Hb]]; exists r'.
      * split; [right; exact Hr' | exact Hb].
      * destruct Hr' as [<-|Hr']; [rewrite Ek in Hb; discriminate | auto].
    + rewrite nfa_fold_none. split; [|reflexivity]. intros _. exists r. split; [left; reflexivity | exact Ek].
Qed.

(* validity of the dictionary built from a valid grammar *)
Definition dentry_ok (V Sg : list nat) (eps : nat) (d : list ((nat * nat) * list nat)) : Prop :=
  forall q a s, In ((q, a), s) d -> In q V /\ (In a Sg \/ a = eps) /\ incl s V.

Lemma delta_add_ok V Sg eps q a q1 d : dentry_ok V Sg eps d -> In q V -> (In a Sg \/ a = eps) -> In q1 V ->
  dentry_ok V Sg eps (delta_add q a q1 d).
Proof.
  intros Hd Hq Ha Hq1 q' a' s Hin. unfold delta_add in Hin. apply In_update in Hin. destruct Hin as [E|Hin].
  - inversion E; subst. split; [exact Hq|]. split; [exact Ha|]. intros x Hx. apply add_In in Hx.
    destruct Hx as [->|Hx]; [exact Hq1|]. unfold delta_get in Hx.
    destruct (lookup (q, a) d) as [s0|] eqn:El; [|destruct Hx]. apply lookup_In in El. apply (Hd _ _ _ El). exact Hx.
  - apply (Hd _ _ _ Hin).
Qed.

Lemma nfa_fold_ok eps geps V Sg R : forall d F d' F',
  fold_left (nfa_conv_step eps geps) R (Some (d, F)) = Some (d', F') ->
  (forall r, In r R -> In (rvar r) V /\
     forall x, In x (rrhs r) -> if is_var x then In (sname x) V else In (sname x) Sg) ->
  dentry_ok V Sg eps d -> incl F V -> dentry_ok V Sg eps d' /\ incl F' V.
Proof.
  induction R as [|r R IH]; intros d F d' F' E Hwf Hd HF.
  - cbn in E. inversion E; subst. auto.
  - cbn [fold_left nfa_conv_step] in E. destruct (Hwf r (or_introl eq_refl)) as [Hv Hx].
    assert (Hwf' : forall r', In r' R -> In (rvar r') V /\
              forall x, In x (rrhs r') -> if is_var x then In (sname x) V else In (sname x) Sg)
      by (intros r' Hr'; apply Hwf; right; exact Hr').
    destruct (alt_kind_of geps (rrhs r)) as [|B|a0 B|] eqn:Ek.
    + apply (IH _ _ _ _ E Hwf' Hd). intros x Hin. apply add_In in Hin. destruct Hin as [->|Hin]; [exact Hv | apply HF; exact Hin].
    + apply kind_eps_trans_inv in Ek. destruct Ek as [Ek _]. rewrite Ek in Hx.
      specialize (Hx (Var B) (or_introl eq_refl)). cbn in Hx.
      apply (IH _ _ _ _ E Hwf'); [|exact HF]. apply delta_add_ok; auto.
    + apply kind_trans_inv in Ek. rewrite Ek in Hx.
      pose proof (Hx (Tm a0) (or_introl eq_refl)) as H1. pose proof (Hx (Var B) (or_intror (or_introl eq_refl))) as H2.
      cbn in H1, H2. apply (IH _ _ _ _ E Hwf'); [|exact HF]. apply delta_add_ok; auto.
    + rewrite nfa_fold_none in E. discriminate.
Qed.

(* ---- unfolding the three layers of cfg_to_nfa ---- *)
Lemma cfg_to_nfa_some eps geps G N : cfg_to_nfa eps geps G = Some N ->
  In (gS G) (gV G) /\ nfa_wf N /\
  exists d F, fold_left (nfa_conv_step eps geps) (gR G) (Some ([], [])) = Some (d, F) /\
              N = mkNFA (gV G) (gSg G) d (gS G) F eps.
Proof.
  unfold cfg_to_nfa, cfg_to_nfa_res, cfg_to_nfa_raw.
  destruct (mem (gS G) (gV G)) eqn:Em; cbn [negb conv_option]; [|discriminate]. apply mem_In in Em.
  destruct (fold_left (nfa_conv_step eps geps) (gR G) (Some ([], []))) as [[d F]|]; [|discriminate].
  destruct (nfa_wf_b (mkNFA (gV G) (gSg G) d (gS G) F eps)) eqn:Ew; cbn [conv_option]; [|discriminate].
  intros E. inversion E; subst. split; [exact Em|]. split; [apply nfa_wf_b_spec; exact Ew|].
  exists d, F. auto.
Qed.

(* ---- language ---- *)
Section NfaLang.
  Variables (eps geps : nat) (G : cfg) (N : nfa nat).
  Hypothesis Heps : neps N = eps.
  Hypothesis HF : forall q, In q (nF N) <-> exists r, In r (gR G) /\ final_of geps r q.
  Hypothesis HD : forall q a q1, In q1 (ndelta N q a) <-> exists r, In r (gR G) /\ trans_of eps geps r q a q1.
  Hypothesis Hk : forall r, In r (gR G) -> alt_kind_of geps (rrhs r) <> KBad.
  (* no alternative consisting of one symbol whose name is G.epsilon *)
  Hypothesis Hgeps : forall r, In r (gR G) -> forall x, rrhs r = [x] -> sname x <> geps.
  (* the empty string '' is not used as a terminal in front of a variable *)
  Hypothesis Hempty : forall r, In r (gR G) -> forall B, rrhs r <> [Tm eps; Var B].

  Lemma final_rule q : In q (nF N) -> has_rule G q [].
  Proof.
    intros Hq. apply HF in Hq. destruct Hq as [r [Hr [Hv Hkind]]]. apply kind_eps_inv in Hkind.
    destruct Hkind as [E|[x [E Hx]]]; [exists r; auto | exfalso; exact (Hgeps r Hr x E Hx)].
  Qed.

  Lemma nfa_path_yields q w qf : nfa_path N q w qf -> In qf (nF N) -> ~ In eps w -> yields G (Var q) w.
  Proof.
    intros Hp. induction Hp as [q|q q1 w q2 Hin Hp IH|q a q1 w q2 Hin Hp IH]; intros Hqf Hw.
    - apply y_var with []; [apply final_rule; exact Hqf | constructor].
    - rewrite Heps in Hin. apply HD in Hin. destruct Hin as [r [Hr [Hv [[Hkind _]|Hkind]]]].
      + apply kind_eps_trans_inv in Hkind. destruct Hkind as [E _].
        apply y_var with [Var q1]; [exists r; auto|]. apply yields_list_single. apply IH; assumption.
      + apply kind_trans_inv in Hkind. exfalso. exact (Hempty r Hr q1 Hkind).
    - assert (Ha : a <> eps) by (intros ->; apply Hw; left; reflexivity).
      assert (Hw' : ~ In eps w) by (intros Hc; apply Hw; right; exact Hc).
      apply HD in Hin. destruct Hin as [r [Hr [Hv [[_ Hc]|Hkind]]]]; [contradiction|].
      apply kind_trans_inv in Hkind.
      apply y_var with [Tm a; Var q1]; [exists r; auto|]. apply yields_list_pair.
      exists [a], w. split; [reflexivity|]. split; [constructor | apply IH; assumption].
  Qed.

  Definition accepts_from (q : nat) (w : word) : Prop := exists qf, nfa_path N q w qf /\ In qf (nF N).

  Lemma yields_nfa_path_mut :
    (forall s w, yields G s w -> forall A, s = Var A -> accepts_from A w) /\
    (forall l w, yields_list G l w ->
       (l = [] -> w = []) /\
       (forall B, l = [Var B] -> accepts_from B w) /\
       (forall a B, l = [Tm a; Var B] -> exists w', w = a :: w' /\ accepts_from B w')).
  Proof.
    apply yields_mutind.
    - intros a A E. discriminate.
    - intros A rhs w [r [Hr [Hv Hrhs]]] _ [IH0 [IH1 IH2]] A' E. inversion E; subst A'. clear E.
      pose proof (Hk r Hr) as Hkind. apply kind_ok_iff in Hkind. rewrite Hrhs in Hkind.
      destruct Hkind as [E|[[x [E Hx]]|[[B E]|[a [B E]]]]].
      + rewrite (IH0 E). exists A. split; [constructor|]. apply HF. exists r. split; [exact Hr|].
        split; [exact Hv | rewrite Hrhs, E; reflexivity].
      + exfalso. rewrite <- Hrhs in E. exact (Hgeps r Hr x E Hx).
      + destruct (IH1 B E) as [qf [Hp Hqf]]. exists qf. split; [|exact Hqf].
        apply np_eps with B; [|exact Hp]. rewrite Heps. apply HD. exists r. split; [exact Hr|]. split; [exact Hv|].
        left. split; [|reflexivity]. rewrite Hrhs, E. apply kind_of_var.
        intros Hc. rewrite <- Hrhs in E. exact (Hgeps r Hr (Var B) E Hc).
      + destruct (IH2 a B E) as [w' [-> [qf [Hp Hqf]]]]. exists qf. split; [|exact Hqf].
        apply np_sym with B; [|exact Hp]. apply HD. exists r. split; [exact Hr|]. split; [exact Hv|].
        right. rewrite Hrhs, E. reflexivity.
    - split; [reflexivity|]. split; [intros B E; discriminate | intros a B E; discriminate].
    - intros x xs w1 w2 Hx IHx Hxs [IH0 [IH1 IH2]]. split; [intros E; discriminate|]. split.
      + intros B E. inversion E; subst. rewrite (IH0 eq_refl), app_nil_r. apply IHx. reflexivity.
      + intros a B E. inversion E; subst. apply yields_tm_inv in Hx. subst w1.
        exists w2. split; [reflexivity|]. apply IH1. reflexivity.
  Qed.

  Lemma nfa_lang_iff_yields A w : ~ In eps w -> (accepts_from A w <-> yields G (Var A) w).
  Proof.
    intros Hw. split.
    - intros [qf [Hp Hqf]]. apply nfa_path_yields with qf; assumption.
    - intros Hy. apply (proj1 yields_nfa_path_mut _ _ Hy). reflexivity.
  Qed.
End NfaLang.

Lemma cfg_to_nfa_charact eps geps G N : cfg_to_nfa eps geps G = Some N ->
  nfa_wf N /\ nQ N = gV G /\ nS N = gSg G /\ nq0 N = gS G /\ neps N = eps /\
  (forall q, In q (nF N) <-> exists r, In r (gR G) /\ final_of geps r q) /\
  (forall q a q1, In q1 (ndelta N q a) <-> exists r, In r (gR G) /\ trans_of eps geps r q a q1) /\
  (forall r, In r (gR G) -> alt_kind_of geps (rrhs r) <> KBad).
Proof.
  intros E. apply cfg_to_nfa_some in E. destruct E as [_ [Hwf [d [F [Ef ->]]]]].
  apply nfa_fold_spec in Ef. destruct Ef as [Hk [HF HD]].
  split; [exact Hwf|]. cbn [nQ nS nq0 neps nF]. repeat (split; [reflexivity|]). split; [|split; [|exact Hk]].
  - intros q. rewrite HF. cbn [In]. tauto.
  - intros q a q1. change (ndelta (mkNFA (gV G) (gSg G) d (gS G) F eps) q a) with (delta_get d q a).
    rewrite HD. unfold delta_get. cbn [lookup In]. tauto.
Qed.

(* Main theorem, with the weakest hypotheses of this development:
   (1) no alternative consists of one symbol named G.epsilon (see cfg_to_nfa_geps_cex, cfg_to_nfa_geps_var_cex),
   (2) the empty string (the NFA's epsilon) is not a terminal in front of a variable,
   (3) the word does not contain the NFA's epsilon symbol (nfa_path lets such a letter take an epsilon move). *)
Theorem cfg_to_nfa_lang_gen eps geps G N : cfg_to_nfa eps geps G = Some N ->
  (forall r, In r (gR G) -> forall x, rrhs r = [x] -> sname x <> geps) ->
  (forall r, In r (gR G) -> forall B, rrhs r <> [Tm eps; Var B]) ->
  nfa_wf N /\ forall w, ~ In eps w -> (nfa_lang N w <-> cfg_lang G w).
Proof.
  intros E Hgeps Hempty. apply cfg_to_nfa_charact in E.
  destruct E as [Hwf [_ [_ [Eq0 [Eeps [HF [HD Hk]]]]]]]. split; [exact Hwf|]. intros w Hw.
  rewrite derives_yields. unfold yields_lang, nfa_lang. rewrite Eq0.
  apply (nfa_lang_iff_yields eps geps G N Eeps HF HD Hk Hgeps Hempty (gS G) w Hw).
Qed.

(* the requested form: a valid grammar, words over Sigma.  (That '' is not in Sigma and S is in V follows from
   the success of the NFA constructor.) *)
Theorem cfg_to_nfa_lang eps geps G N : cfg_to_nfa eps geps G = Some N -> cfg_wf G ->
  (forall r, In r (gR G) -> forall x, rrhs r = [x] -> sname x <> geps) ->
  nfa_wf N /\ In (gS G) (gV G) /\ ~ In eps (gSg G) /\
  forall w, Forall (fun a => In a (gSg G)) w -> (nfa_lang N w <-> cfg_lang G w).
Proof.
  intros E Hwf Hgeps. pose proof (cfg_to_nfa_charact _ _ _ _ E) as [HwfN [_ [ES [_ [Eeps _]]]]].
  assert (Hne : ~ In eps (gSg G)). { destruct HwfN as [_ [_ [Hn _]]]. rewrite Eeps, ES in Hn. exact Hn. }
  assert (Hempty : forall r, In r (gR G) -> forall B, rrhs r <> [Tm eps; Var B]).
  { intros r Hr B Er. destruct (Hwf r Hr) as [_ Hx]. specialize (Hx (Tm eps)). rewrite Er in Hx.
    apply Hne. exact (Hx (or_introl eq_refl)). }
  destruct (cfg_to_nfa_lang_gen eps geps G N E Hgeps Hempty) as [_ Hl].
  split; [exact HwfN|]. split; [apply (cfg_to_nfa_some _ _ _ _ E)|]. split; [exact Hne|].
  intros w Hw. apply Hl. intros Hc. rewrite Forall_forall in Hw. exact (Hne (Hw _ Hc)).
Qed.

(* the usual situation: G.epsilon is neither a terminal of Sigma nor a variable *)
Corollary cfg_to_nfa_lang_wf eps geps G N : cfg_to_nfa eps geps G = Some N -> cfg_wf G ->
  ~ In geps (gSg G) -> ~ In geps (gV G) ->
  nfa_wf N /\ forall w, Forall (fun a => In a (gSg G)) w -> (nfa_lang N w <-> cfg_lang G w).
Proof.
  intros E Hwf Hg1 Hg2. assert (Hgeps : forall r, In r (gR G) -> forall x, rrhs r = [x] -> sname x <> geps).
  { intros r Hr x Er Hx. destruct (Hwf r Hr) as [_ Hin]. specialize (Hin x). rewrite Er in Hin.
    specialize (Hin (or_introl eq_refl)). rewrite Hx in Hin. destruct (is_var x); contradiction. }
  destruct (cfg_to_nfa_lang eps geps G N E Hwf Hgeps) as [H1 [_ [_ H2]]]. auto.
Qed.

(* ---- the hypothesis on G.epsilon is needed ---- *)
(* Python: G = CFG({Variable('S')}, {Terminal('ε')}, [Rule(Variable('S'), Alternative([Terminal('ε')]))], Variable('S'))
   (G.epsilon is the default Terminal('ε')): L(G) = {"ε"} but cfg_to_nfa(G) accepts exactly the empty word. *)
Definition geps_cex_G : cfg := mkCFG [0] [50] [mkRule 0 0 [Tm 50]] 0.
Theorem cfg_to_nfa_geps_cex :
  cfg_wf geps_cex_G /\ ~ In 99 (gSg geps_cex_G) /\ In (gS geps_cex_G) (gV geps_cex_G) /\
  exists N, cfg_to_nfa 99 50 geps_cex_G = Some N /\ nfa_wf N /\
    Forall (fun a => In a (gSg geps_cex_G)) [] /\ nfa_lang N [] /\ ~ cfg_lang geps_cex_G [] /\
    Forall (fun a => In a (gSg geps_cex_G)) [50] /\ cfg_lang geps_cex_G [50] /\ ~ nfa_lang N [50].
Proof.
  split; [apply cfg_wf_b_spec; vm_compute; reflexivity|].
  split; [intros [E|[]]; discriminate|]. split; [left; reflexivity|].
  eexists. split; [vm_compute; reflexivity|]. split; [apply nfa_wf_b_spec; vm_compute; reflexivity|].
  split; [constructor|]. split; [|split; [|split; [|split]]].
  - exists 0. split; [constructor | left; reflexivity].
  - intros Hc. apply derives_yields in Hc. unfold yields_lang in Hc. apply yields_var_inv in Hc.
    destruct Hc as [rhs [[r [[<-|[]] [_ <-]]] Hl]]. cbn [rrhs] in Hl. apply yields_list_single, yields_tm_inv in Hl. discriminate.
  - constructor; [left; reflexivity | constructor].
  - apply derives_yields. unfold yields_lang. apply y_var with [Tm 50].
    + exists (mkRule 0 0 [Tm 50]). cbn. auto.
    + apply yields_list_single. constructor.
  - intros [qf [Hp _]].
    inversion Hp as [q1 Eq Ew|q1 q2 w' q3 Hin Hp' Eq Ew|q1 a q2 w' q3 Hin Hp' Eq Ew]; subst; destruct Hin.
Qed.

(* the same with a *variable* named like G.epsilon: S -> E, E -> a S with E = G.epsilon.
   Python: CFG({Variable('S'), Variable('ε')}, {Terminal('a')}, [Rule(Variable('S'), Alternative([Variable('ε')])),
                Rule(Variable('ε'), Alternative([Terminal('a'), Variable('S')]))], Variable('S'))
   has an empty language, but cfg_to_nfa makes S accepting. *)
Definition geps_var_cex_G : cfg := mkCFG [0; 50] [10] [mkRule 0 0 [Var 50]; mkRule 50 1 [Tm 10; Var 0]] 0.
Theorem cfg_to_nfa_geps_var_cex :
  cfg_wf geps_var_cex_G /\ ~ In 50 (gSg geps_var_cex_G) /\
  exists N, cfg_to_nfa 99 50 geps_var_cex_G = Some N /\ nfa_lang N [] /\ forall w, ~ cfg_lang geps_var_cex_G w.
Proof.
  split; [apply cfg_wf_b_spec; vm_compute; reflexivity|]. split; [intros [E|[]]; discriminate|].
  eexists. split; [vm_compute; reflexivity|]. split.
  - exists 0. split; [constructor | left; reflexivity].
  - intros w Hc. assert (Hp : In 0 (cfg_productive_variables geps_var_cex_G)).
    { apply productive_sound_complete. exists w. exact Hc. }
    vm_compute in Hp. exact Hp.
Qed.

(* ---- the restriction on the words is needed ---- *)
Lemma yields_alphabet_mut G : cfg_wf G ->
  (forall s w, yields G s w -> (is_var s = false -> In (sname s) (gSg G)) -> Forall (fun a => In a (gSg G)) w) /\
  (forall l w, yields_list G l w -> (forall x, In x l -> is_var x = false -> In (sname x) (gSg G)) ->
     Forall (fun a => In a (gSg G)) w).
Proof.
  intros Hwf. apply yields_mutind.
  - intros a Ha. constructor; [apply Ha; reflexivity | constructor].
  - intros A rhs w [r [Hr [Hv Hrhs]]] _ IH _. apply IH. intros x Hx Hb.
    destruct (Hwf r Hr) as [_ Hall]. rewrite Hrhs in Hall. specialize (Hall x Hx). rewrite Hb in Hall. exact Hall.
  - intros _. constructor.
  - intros x xs w1 w2 _ IH1 _ IH2 Hall. apply Forall_app. split.
    + apply IH1. intros Hb. apply Hall; [left; reflexivity | exact Hb].
    + apply IH2. intros y Hy. apply Hall. right; exact Hy.
Qed.

(* the words of a valid grammar are words over Sigma *)
Theorem cfg_lang_alphabet G w : cfg_wf G -> cfg_lang G w -> Forall (fun a => In a (gSg G)) w.
Proof.
  intros Hwf Hw. apply derives_yields in Hw. unfold yields_lang in Hw.
  apply (proj1 (yields_alphabet_mut G Hwf) _ _ Hw). intros Hc. discriminate.
Qed.

(* S -> A, A -> eps: the NFA "reads" its epsilon symbol along the epsilon move (np_sym has no guard), the grammar
   does not generate that word *)
Definition word_cex_G : cfg := mkCFG [0; 1] [10] [mkRule 0 0 [Var 1]; mkRule 1 1 []] 0.
Theorem cfg_to_nfa_word_condition_needed :
  cfg_wf word_cex_G /\ (forall r, In r (gR word_cex_G) -> forall x, rrhs r = [x] -> sname x <> 50) /\
  exists N, cfg_to_nfa 99 50 word_cex_G = Some N /\ nfa_lang N [99] /\ ~ cfg_lang word_cex_G [99].
Proof.
  assert (Hwf : cfg_wf word_cex_G) by (apply cfg_wf_b_spec; vm_compute; reflexivity).
  split; [exact Hwf|]. split.
  { intros r [<-|[<-|[]]] x E Hx; [|discriminate E]. inversion E; subst x. discriminate Hx. }
  eexists. split; [vm_compute; reflexivity|]. split.
  - exists 1. split; [|left; reflexivity]. apply np_sym with (q1 := 1); [vm_compute; auto | constructor].
  - intros Hc. apply (cfg_lang_alphabet _ _ Hwf) in Hc. inversion Hc as [|a l Ha _]; subst.
    destruct Ha as [E|[]]. discriminate.
Qed.

(* ---- totality / the RuntimeError ---- *)
Theorem cfg_to_nfa_res_runtime_error eps geps G :
  cfg_to_nfa_res eps geps G = ConvRuntimeError <->
  In (gS G) (gV G) /\ exists r, In r (gR G) /\ ~ alt_ok geps (rrhs r).
Proof.
  unfold cfg_to_nfa_res, cfg_to_nfa_raw. destruct (mem (gS G) (gV G)) eqn:Em; cbn [negb].
  - apply mem_In in Em.
    destruct (fold_left (nfa_conv_step eps geps) (gR G) (Some ([], []))) as [[d F]|] eqn:Ef.
    + split.
      * destruct (nfa_wf_b _); discriminate.
      * intros [_ [r [Hr Hb]]]. exfalso. apply nfa_fold_spec in Ef. destruct Ef as [Hk _].
        apply Hb. apply kind_ok_iff. apply Hk. exact Hr.
    + split; [|reflexivity]. intros _. split; [exact Em|]. apply nfa_fold_none_iff in Ef.
      destruct Ef as [r [Hr Hb]]. exists r. split; [exact Hr|]. rewrite <- kind_ok_iff, Hb. intros Hc. apply Hc. reflexivity.
  - apply mem_nIn in Em. split; [discriminate | intros [Hc _]; contradiction].
Qed.

Theorem cfg_to_nfa_res_stop_iteration eps geps G :
  cfg_to_nfa_res eps geps G = ConvStopIteration <-> ~ In (gS G) (gV G).
Proof.
  unfold cfg_to_nfa_res. destruct (mem (gS G) (gV G)) eqn:Em; cbn [negb].
  - apply mem_In in Em. split; [|intros Hc; contradiction].
    destruct (cfg_to_nfa_raw eps geps G) as [N|]; [destruct (nfa_wf_b N)|]; discriminate.
  - apply mem_nIn in Em. split; [intros _; exact Em | reflexivity].
Qed.

(* for a valid grammar whose start variable is declared and whose Sigma does not contain '',
   the conversion succeeds iff every alternative has one of the accepted shapes *)
Theorem cfg_to_nfa_total eps geps G : cfg_wf G -> In (gS G) (gV G) -> ~ In eps (gSg G) ->
  (forall r, In r (gR G) -> alt_ok geps (rrhs r)) -> exists N, cfg_to_nfa eps geps G = Some N.
Proof.
  intros Hwf HS Heps Hok. unfold cfg_to_nfa, cfg_to_nfa_res, cfg_to_nfa_raw.
  apply mem_In in HS. rewrite HS. cbn [negb].
  destruct (fold_left (nfa_conv_step eps geps) (gR G) (Some ([], []))) as [[d F]|] eqn:Ef.
  - destruct (nfa_fold_ok eps geps (gV G) (gSg G) (gR G) _ _ _ _ Ef Hwf) as [Hd HF].
    { intros q a s []. } { intros q []. }
    assert (Hw : nfa_wf (mkNFA (gV G) (gSg G) d (gS G) F eps)).
    { split; [apply mem_In; exact HS|]. split; [exact HF|]. split; [exact Heps|]. exact Hd. }
    apply nfa_wf_b_spec in Hw. rewrite Hw. eexists. reflexivity.
  - exfalso. apply nfa_fold_none_iff in Ef. destruct Ef as [r [Hr Hb]].
    specialize (Hok r Hr). apply kind_ok_iff in Hok. contradiction.
Qed.

Theorem cfg_to_nfa_none_iff eps geps G : cfg_wf G -> In (gS G) (gV G) -> ~ In eps (gSg G) ->
  (cfg_to_nfa eps geps G = None <-> exists r, In r (gR G) /\ ~ alt_ok geps (rrhs r)).
Proof.
  intros Hwf HS Heps. split.
  - intros En. destruct (forallb (fun r => match alt_kind_of geps (rrhs r) with KBad => false | _ => true end) (gR G)) eqn:Ea.
    + exfalso. rewrite forallb_forall in Ea. destruct (cfg_to_nfa_total eps geps G Hwf HS Heps) as [N EN].
      * intros r Hr. apply kind_ok_iff. specialize (Ea r Hr). intros Hc. rewrite Hc in Ea. discriminate.
      * rewrite EN in En. discriminate.
    + assert (Hex : exists r, In r (gR G) /\ alt_kind_of geps (rrhs r) = KBad).
      { clear -Ea. induction (gR G) as [|r R IH]; [discriminate|]. cbn [forallb] in Ea.
        destruct (alt_kind_of geps (rrhs r)) eqn:Ek; cbn [andb] in Ea;
          try (destruct (IH Ea) as [r' [Hr' Hb]]; exists r'; split; [right; exact Hr' | exact Hb]).
        exists r. split; [left; reflexivity | exact Ek]. }
      destruct Hex as [r [Hr Hb]]. exists r. split; [exact Hr|]. rewrite <- kind_ok_iff, Hb. intros Hc; apply Hc; reflexivity.
  - intros Hex. pose proof (proj2 (cfg_to_nfa_res_runtime_error eps geps G) (conj HS Hex)) as Er.
    unfold cfg_to_nfa. rewrite Er. reflexivity.
Qed.

(* ========================================================================================== *)
(* cfg_to_dfa *)

Definition alt_ok_dfa (geps : nat) (rhs : list sym) : Prop :=
  rhs = [] \/ (exists x, rhs = [x] /\ sname x = geps) \/ (exists a B, rhs = [Tm a; Var B]).
Definition dkind_ok (k : alt_kind) : Prop := k = KEps \/ exists a B, k = KTrans a B.

Lemma dkind_ok_iff geps rhs : dkind_ok (alt_kind_of geps rhs) <-> alt_ok_dfa geps rhs.
Proof.
  unfold dkind_ok, alt_ok_dfa. split.
  - intros [E|[a [B E]]].
    + apply kind_eps_inv in E. tauto.
    + apply kind_trans_inv in E. right; right. exists a, B. exact E.
  - intros [->|[[x [-> Hx]]|[a [B ->]]]]; cbn [alt_kind_of Tm Var sname is_var fst snd negb andb].
    + left; reflexivity.
    + apply Nat.eqb_eq in Hx. rewrite Hx. left; reflexivity.
    + right. exists a, B. reflexivity.
Qed.

Lemma dfa_fold_none geps R : fold_left (dfa_conv_step geps) R None = None.
Proof. induction R as [|r R IH]; [reflexivity | exact IH]. Qed.

Lemma dfa_fold_spec geps R : forall d F d' F',
  fold_left (dfa_conv_step geps) R (Some (d, F)) = Some (d', F') ->
  (forall r, In r R -> dkind_ok (alt_kind_of geps (rrhs r))) /\
  (forall q, In q F' <-> In q F \/ exists r, In r R /\ final_of geps r q) /\
  (forall q a,
     (lookup (q, a) d' = lookup (q, a) d /\ forall r B, In r R -> rvar r = q -> alt_kind_of geps (rrhs r) <> KTrans a B) \/
     (exists r B, In r R /\ rvar r = q /\ alt_kind_of geps (rrhs r) = KTrans a B /\ lookup (q, a) d' = Some B)).
Proof.
  induction R as [|r R IH]; intros d F d' F' E.
  - cbn in E. inversion E; subst. split; [intros r []|]. split.
    + intros q. split; [auto | intros [Hq|[r [[] _]]]; exact Hq].
    + intros q a. left. split; [reflexivity | intros r B []].
  - cbn [fold_left dfa_conv_step] in E. destruct (alt_kind_of geps (rrhs r)) as [|B0|a0 B0|] eqn:Ek.
    + destruct (IH _ _ _ _ E) as [Hk [HF HD]]. split; [|split].
      * intros r' [<-|Hr']; [rewrite Ek; left; reflexivity | apply Hk; exact Hr'].
      * intros q. rewrite HF, add_In. split.
        -- intros [[->|Hq]|[r' [Hr' Hf]]].
           ++ right. exists r. split; [left; reflexivity | split; [reflexivity | exact Ek]].
           ++ left; exact Hq.
           ++ right. exists r'. split; [right; exact Hr' | exact Hf].
        -- intros [Hq|[r' [[<-|Hr'] Hf]]].
           ++ left; right; exact Hq.
           ++ left; left. destruct Hf as [Hv _]. symmetry; exact Hv.
           ++ right. exists r'. auto.
      * intros q a. destruct (HD q a) as [[El Hno]|[r' [B [Hr' Hrest]]]].
        -- left. split; [exact El|]. intros r' B [<-|Hr'] Hv; [rewrite Ek; discriminate | apply Hno; assumption].
        -- right. exists r', B. split; [right; exact Hr' | exact Hrest].
    + rewrite dfa_fold_none in E. discriminate.
    + destruct (IH _ _ _ _ E) as [Hk [HF HD]]. split; [|split].
      * intros r' [<-|Hr']; [rewrite Ek; right; exists a0, B0; reflexivity | apply Hk; exact Hr'].
      * intros q. rewrite HF. split.
        -- intros [Hq|[r' [Hr' Hf]]]; [left; exact Hq | right; exists r'; split; [right; exact Hr' | exact Hf]].
        -- intros [Hq|[r' [[<-|Hr'] Hf]]]; [left; exact Hq | | right; exists r'; auto].
           destruct Hf as [_ Hf]. rewrite Ek in Hf. discriminate.
      * intros q a. destruct (HD q a) as [[El Hno]|[r' [B [Hr' Hrest]]]].
        -- rewrite lookup_update in El. destruct (eqb (q, a) (rvar r, a0)) eqn:Eq.
           ++ apply eqb_true in Eq. inversion Eq; subst. right. exists r, B0.
              split; [left; reflexivity|]. split; [reflexivity|]. split; [exact Ek | exact El].
           ++ apply eqb_neq in Eq. left. split; [exact El|]. intros r' B [<-|Hr'] Hv; [|apply Hno; assumption].
              rewrite Ek. intros Hc. inversion Hc; subst. apply Eq. reflexivity.
        -- right. exists r', B. split; [right; exact Hr' | exact Hrest].
    + rewrite dfa_fold_none in E. discriminate.
Qed.

Lemma dfa_fold_none_iff geps R : forall d F,
  fold_left (dfa_conv_step geps) R (Some (d, F)) = None <-> exists r, In r R /\ ~ dkind_ok (alt_kind_of geps (rrhs r)).
Proof.
  induction R as [|r R IH]; intros d F.
  - cbn. split; [discriminate | intros [r [[] _]]].
  - cbn [fold_left dfa_conv_step]. destruct (alt_kind_of geps (rrhs r)) as [|B0|a0 B0|] eqn:Ek.
    + rewrite IH. split; intros [r' [Hr' Hb]]; exists r'.
      * split; [right; exact Hr' | exact Hb].
      * destruct Hr' as [<-|Hr']; [exfalso; apply Hb; rewrite Ek; left; reflexivity | auto].
    + rewrite dfa_fold_none. split; [|reflexivity]. intros _. exists r. split; [left; reflexivity|].
      rewrite Ek. intros [Hc|[a [B Hc]]]; discriminate.
    + rewrite IH. split; intros [r' [Hr' Hb]]; exists r'.
      * split; [right; exact Hr' | exact Hb].
      * destruct Hr' as [<-|Hr']; [exfalso; apply Hb; rewrite Ek; right; exists a0, B0; reflexivity | auto].
    + rewrite dfa_fold_none. split; [|reflexivity]. intros _. exists r. split; [left; reflexivity|].
      rewrite Ek. intros [Hc|[a [B Hc]]]; discriminate.
Qed.

Lemma cfg_to_dfa_some chk geps G D : cfg_to_dfa chk geps G = Some D ->
  In (gS G) (gV G) /\ (chk = true -> dfa_wf D) /\
  exists d F, fold_left (dfa_conv_step geps) (gR G) (Some ([], [])) = Some (d, F) /\
              D = mkDFA (gV G) (gSg G) d (gS G) F.
Proof.
  unfold cfg_to_dfa, cfg_to_dfa_res, cfg_to_dfa_raw.
  destruct (mem (gS G) (gV G)) eqn:Em; cbn [negb conv_option]; [|discriminate]. apply mem_In in Em.
  destruct (fold_left (dfa_conv_step geps) (gR G) (Some ([], []))) as [[d F]|]; [|discriminate].
  destruct (negb chk || dfa_wf_b (mkDFA (gV G) (gSg G) d (gS G) F)) eqn:Ew; cbn [conv_option]; [|discriminate].
  intros E. inversion E; subst. split; [exact Em|]. split.
  - intros ->. cbn [negb orb] in Ew. apply dfa_wf_b_spec. exact Ew.
  - exists d, F. auto.
Qed.

(* the grammar is deterministic: a variable has at most one successor per terminal *)
Definition cfg_deterministic (G : cfg) : Prop :=
  forall r1 r2 a B1 B2, In r1 (gR G) -> In r2 (gR G) -> rvar r1 = rvar r2 ->
    rrhs r1 = [Tm a; Var B1] -> rrhs r2 = [Tm a; Var B2] -> B1 = B2.

Section DfaLang.
  Variables (geps : nat) (G : cfg) (D : dfa nat).
  Hypothesis HF : forall q, In q (dF D) <-> exists r, In r (gR G) /\ final_of geps r q.
  Hypothesis HD : forall q a B, ddelta D q a = Some B <-> exists r, In r (gR G) /\ rvar r = q /\ rrhs r = [Tm a; Var B].
  Hypothesis Hk : forall r, In r (gR G) -> alt_ok_dfa geps (rrhs r).
  Hypothesis Hgeps : forall r, In r (gR G) -> forall x, rrhs r = [x] -> sname x <> geps.

  Lemma dfa_path_yields q w qf : dfa_path D q w qf -> In qf (dF D) -> yields G (Var q) w.
  Proof.
    intros Hp. induction Hp as [q|q a q1 w q2 Hd Hp IH]; intros Hqf.
    - apply HF in Hqf. destruct Hqf as [r [Hr [Hv Hkind]]]. apply kind_eps_inv in Hkind.
      destruct Hkind as [E|[x [E Hx]]]; [|exfalso; exact (Hgeps r Hr x E Hx)].
      apply y_var with []; [exists r; auto | constructor].
    - apply HD in Hd. destruct Hd as [r [Hr [Hv Hrhs]]].
      apply y_var with [Tm a; Var q1]; [exists r; auto|]. apply yields_list_pair.
      exists [a], w. split; [reflexivity|]. split; [constructor | apply IH; exact Hqf].
  Qed.

  Definition daccepts_from (q : nat) (w : word) : Prop := exists qf, dfa_path D q w qf /\ In qf (dF D).

  Lemma yields_dfa_path_mut :
    (forall s w, yields G s w -> forall A, s = Var A -> daccepts_from A w) /\
    (forall l w, yields_list G l w ->
       (l = [] -> w = []) /\
       (forall B, l = [Var B] -> daccepts_from B w) /\
       (forall a B, l = [Tm a; Var B] -> exists w', w = a :: w' /\ daccepts_from B w')).
  Proof.
    apply yields_mutind.
    - intros a A E. discriminate.
    - intros A rhs w [r [Hr [Hv Hrhs]]] _ [IH0 [IH1 IH2]] A' E. inversion E; subst A'. clear E.
      pose proof (Hk r Hr) as Hkind. rewrite Hrhs in Hkind.
      destruct Hkind as [E|[[x [E Hx]]|[a [B E]]]].
      + rewrite (IH0 E). exists A. split; [constructor|]. apply HF. exists r. split; [exact Hr|].
        split; [exact Hv | rewrite Hrhs, E; reflexivity].
      + exfalso. rewrite <- Hrhs in E. exact (Hgeps r Hr x E Hx).
      + destruct (IH2 a B E) as [w' [-> [qf [Hp Hqf]]]]. exists qf. split; [|exact Hqf].
        apply dp_cons with B; [|exact Hp]. apply HD. exists r. split; [exact Hr|]. split; [exact Hv|].
        rewrite Hrhs. exact E.
    - split; [reflexivity|]. split; [intros B E; discriminate | intros a B E; discriminate].
    - intros x xs w1 w2 Hx IHx Hxs [IH0 [IH1 IH2]]. split; [intros E; discriminate|]. split.
      + intros B E. inversion E; subst. rewrite (IH0 eq_refl), app_nil_r. apply IHx. reflexivity.
      + intros a B E. inversion E; subst. apply yields_tm_inv in Hx. subst w1.
        exists w2. split; [reflexivity|]. apply IH1. reflexivity.
  Qed.

  Lemma dfa_lang_iff_yields A w : daccepts_from A w <-> yields G (Var A) w.
  Proof.
    split.
    - intros [qf [Hp Hqf]]. apply dfa_path_yields with qf; assumption.
    - intros Hy. apply (proj1 yields_dfa_path_mut _ _ Hy). reflexivity.
  Qed.
End DfaLang.

(* cfg_to_dfa is correct for deterministic grammars (delta[q, a] = q1 overwrites: see cfg_to_dfa_det_cex) whose
   one-symbol alternatives are not named G.epsilon.  Words need not be restricted; the DFA is valid (in particular
   total) when check_validity is set. *)
Theorem cfg_to_dfa_lang chk geps G D : cfg_to_dfa chk geps G = Some D ->
  (forall r, In r (gR G) -> forall x, rrhs r = [x] -> sname x <> geps) ->
  cfg_deterministic G ->
  (chk = true -> dfa_wf D) /\ dQ D = gV G /\ dS D = gSg G /\ dq0 D = gS G /\
  forall w, dfa_lang D w <-> cfg_lang G w.
Proof.
  intros E Hgeps Hdet. apply cfg_to_dfa_some in E. destruct E as [_ [Hwf [d [F [Ef ->]]]]].
  split; [exact Hwf|]. cbn [dQ dS dq0]. repeat (split; [reflexivity|]).
  apply dfa_fold_spec in Ef. destruct Ef as [Hk [HF HD]].
  intros w. rewrite derives_yields. unfold yields_lang, dfa_lang. cbn [dq0 dF].
  apply (dfa_lang_iff_yields geps G (mkDFA (gV G) (gSg G) d (gS G) F)).
  - intros q. cbn [dF]. rewrite HF. cbn [In]. tauto.
  - intros q a B. unfold ddelta. cbn [dD]. split.
    + intros El. destruct (HD q a) as [[El' _]|[r [B' [Hr [Hv [Hkind El']]]]]].
      * rewrite El in El'. discriminate.
      * rewrite El in El'. inversion El'; subst B'. exists r. split; [exact Hr|]. split; [exact Hv|].
        apply kind_trans_inv in Hkind. exact Hkind.
    + intros [r [Hr [Hv Hrhs]]]. destruct (HD q a) as [[_ Hno]|[r' [B' [Hr' [Hv' [Hkind El']]]]]].
      * exfalso. apply (Hno r B Hr Hv). rewrite Hrhs. reflexivity.
      * apply kind_trans_inv in Hkind. rewrite El'. f_equal.
        apply (Hdet r' r a B' B Hr' Hr); [congruence | exact Hkind | exact Hrhs].
  - intros r Hr. apply dkind_ok_iff. apply Hk. exact Hr.
  - exact Hgeps.
Qed.

(* without determinism the last rule wins.  S -> aA | aS, A -> aA | eps:  L(G) = a+ but the DFA accepts nothing.
   Python: cfg_to_dfa(parse_simple_cfg('S -> aA | aS\nA -> aA | _')) *)
Definition det_cex_G : cfg :=
  mkCFG [0; 1] [10] [mkRule 0 0 [Tm 10; Var 1]; mkRule 0 1 [Tm 10; Var 0]; mkRule 1 2 [Tm 10; Var 1]; mkRule 1 3 []] 0.
Theorem cfg_to_dfa_det_cex :
  cfg_wf det_cex_G /\ (forall r, In r (gR det_cex_G) -> forall x, rrhs r = [x] -> sname x <> 50) /\
  exists D, cfg_to_dfa true 50 det_cex_G = Some D /\ dfa_wf D /\ cfg_lang det_cex_G [10] /\ ~ dfa_lang D [10].
Proof.
  split; [apply cfg_wf_b_spec; vm_compute; reflexivity|]. split.
  { intros r Hr x E. cbn in Hr. repeat (destruct Hr as [<-|Hr]; [discriminate E|]). destruct Hr. }
  eexists. split; [vm_compute; reflexivity|]. split; [apply dfa_wf_b_spec; vm_compute; reflexivity|]. split.
  - apply derives_yields. unfold yields_lang. apply y_var with [Tm 10; Var 1].
    + exists (mkRule 0 0 [Tm 10; Var 1]). cbn. auto.
    + apply yields_list_pair. exists [10], []. split; [reflexivity|]. split; [constructor|].
      apply y_var with []; [|constructor]. exists (mkRule 1 3 []). cbn. auto 10.
  - intros [qf [Hp Hqf]]. inversion Hp as [|q a q1 w q2 Hd Hp' E1 E2 E3]; subst.
    vm_compute in Hd. inversion Hd; subst q1. inversion Hp'; subst. destruct Hqf as [Hc|[]]. discriminate.
Qed.

Theorem cfg_to_dfa_res_runtime_error chk geps G :
  cfg_to_dfa_res chk geps G = ConvRuntimeError <->
  In (gS G) (gV G) /\ exists r, In r (gR G) /\ ~ alt_ok_dfa geps (rrhs r).
Proof.
  unfold cfg_to_dfa_res, cfg_to_dfa_raw. destruct (mem (gS G) (gV G)) eqn:Em; cbn [negb].
  - apply mem_In in Em.
    destruct (fold_left (dfa_conv_step geps) (gR G) (Some ([], []))) as [[d F]|] eqn:Ef.
    + split.
      * destruct (negb chk || dfa_wf_b _); discriminate.
      * intros [_ [r [Hr Hb]]]. exfalso. apply dfa_fold_spec in Ef. destruct Ef as [Hk _].
        apply Hb. apply dkind_ok_iff. apply Hk. exact Hr.
    + split; [|reflexivity]. intros _. split; [exact Em|]. apply dfa_fold_none_iff in Ef.
      destruct Ef as [r [Hr Hb]]. exists r. split; [exact Hr|]. rewrite <- dkind_ok_iff. exact Hb.
  - apply mem_nIn in Em. split; [discriminate | intros [Hc _]; contradiction].
Qed.

(* without the validity check the conversion succeeds exactly when S is declared and all alternatives are accepted *)
Theorem cfg_to_dfa_unchecked_total geps G : In (gS G) (gV G) ->
  (forall r, In r (gR G) -> alt_ok_dfa geps (rrhs r)) -> exists D, cfg_to_dfa false geps G = Some D.
Proof.
  intros HS Hok. unfold cfg_to_dfa, cfg_to_dfa_res, cfg_to_dfa_raw. apply mem_In in HS. rewrite HS. cbn [negb orb].
  destruct (fold_left (dfa_conv_step geps) (gR G) (Some ([], []))) as [[d F]|] eqn:Ef.
  - eexists. reflexivity.
  - exfalso. apply dfa_fold_none_iff in Ef. destruct Ef as [r [Hr Hb]]. apply Hb. apply dkind_ok_iff. apply Hok. exact Hr.
Qed.

(* ========================================================================================== *)
(* boolean checkers for the hypotheses of the theorems above (so that they can be evaluated on concrete grammars) *)

Definition no_geps_alt_b (geps : nat) (G : cfg) : bool :=
  forallb (fun r => match rrhs r with [x] => negb (Nat.eqb (sname x) geps) | _ => true end) (gR G).
Lemma no_geps_alt_b_spec geps G :
  no_geps_alt_b geps G = true <-> (forall r, In r (gR G) -> forall x, rrhs r = [x] -> sname x <> geps).
Proof.
  unfold no_geps_alt_b. rewrite forallb_forall. split.
  - intros Hb r Hr x E Hx. specialize (Hb r Hr). rewrite E in Hb. apply negb_true_iff, Nat.eqb_neq in Hb. contradiction.
  - intros Hn r Hr. destruct (rrhs r) as [|x [|y l]] eqn:E; try reflexivity.
    apply negb_true_iff, Nat.eqb_neq. exact (Hn r Hr x E).
Qed.

Definition no_tm_self_b (G : cfg) : bool := forallb (fun r => negb (eqb (rrhs r) [Tm (rvar r)])) (gR G).
Lemma no_tm_self_b_spec G : no_tm_self_b G = true <-> (forall r, In r (gR G) -> rrhs r <> [Tm (rvar r)]).
Proof.
  unfold no_tm_self_b. rewrite forallb_forall. split.
  - intros Hb r Hr. specialize (Hb r Hr). apply negb_true_iff in Hb. apply eqb_neq in Hb. exact Hb.
  - intros Hn r Hr. apply negb_true_iff. apply eqb_neq. exact (Hn r Hr).
Qed.

Definition all_alt_ok_b (geps : nat) (G : cfg) : bool :=
  forallb (fun r => match alt_kind_of geps (rrhs r) with KBad => false | _ => true end) (gR G).
Lemma all_alt_ok_b_spec geps G : all_alt_ok_b geps G = true <-> (forall r, In r (gR G) -> alt_ok geps (rrhs r)).
Proof.
  unfold all_alt_ok_b. rewrite forallb_forall. split.
  - intros Hb r Hr. apply kind_ok_iff. specialize (Hb r Hr). intros Hc. rewrite Hc in Hb. discriminate.
  - intros Hok r Hr. specialize (Hok r Hr). apply kind_ok_iff in Hok. destruct (alt_kind_of geps (rrhs r)); auto.
Qed.

Definition trans_alt (rhs : list sym) : option (nat * nat) :=
  match rhs with [x; y] => if negb (is_var x) && is_var y then Some (sname x, sname y) else None | _ => None end.
Definition cfg_deterministic_b (G : cfg) : bool :=
  forallb (fun r1 => forallb (fun r2 =>
    match trans_alt (rrhs r1), trans_alt (rrhs r2) with
    | Some (a1, B1), Some (a2, B2) => negb (Nat.eqb (rvar r1) (rvar r2) && Nat.eqb a1 a2) || Nat.eqb B1 B2
    | _, _ => true
    end) (gR G)) (gR G).
Lemma cfg_deterministic_b_spec G : cfg_deterministic_b G = true -> cfg_deterministic G.
Proof.
  unfold cfg_deterministic_b. intros Hb r1 r2 a B1 B2 H1 H2 Hv E1 E2.
  rewrite forallb_forall in Hb. specialize (Hb r1 H1). rewrite forallb_forall in Hb. specialize (Hb r2 H2).
  rewrite E1, E2 in Hb. cbn [trans_alt Tm Var is_var sname fst snd negb andb] in Hb.
  rewrite Hv, !Nat.eqb_refl in Hb. cbn [andb negb orb] in Hb. apply Nat.eqb_eq. exact Hb.
Qed.

(* ========================================================================================== *)
(* non-vacuity: the hypotheses of the theorems hold for concrete grammars *)

(* S -> aS | bA | A ; A -> aA | eps     (S = 0, A = 1, a = 10, b = 11, '' = 99, G.epsilon = 50) *)
Definition ex_G : cfg :=
  mkCFG [0; 1] [10; 11]
        [mkRule 0 0 [Tm 10; Var 0]; mkRule 0 1 [Tm 11; Var 1]; mkRule 0 2 [Var 1]; mkRule 1 3 [Tm 10; Var 1]; mkRule 1 4 []] 0.
(* S -> aS | bA | eps ; A -> aA | bA | eps *)
Definition ex_GD : cfg :=
  mkCFG [0; 1] [10; 11]
        [mkRule 0 0 [Tm 10; Var 0]; mkRule 0 1 [Tm 11; Var 1]; mkRule 0 2 [];
         mkRule 1 3 [Tm 10; Var 1]; mkRule 1 4 [Tm 11; Var 1]; mkRule 1 5 []] 0.
(* S -> AB | a ; A -> aA ; B -> b ; C -> C ; D -> BD | eps : A and C are unproductive, C -> C is useless *)
Definition ex_GU : cfg :=
  mkCFG [0; 1; 2; 3; 4] [10; 11]
        [mkRule 0 0 [Var 1; Var 2]; mkRule 0 1 [Tm 10]; mkRule 1 2 [Tm 10; Var 1]; mkRule 2 3 [Tm 11];
         mkRule 3 4 [Var 3]; mkRule 4 5 [Var 2; Var 4]; mkRule 4 6 []] 0.

Example ex_productive :
  cfg_productive_variables ex_GU = [0; 2; 4] /\
  (exists w, derives ex_GU [Var 4] (tword w)) /\ ~ (exists w, derives ex_GU [Var 1] (tword w)).
Proof.
  split; [vm_compute; reflexivity|]. split.
  - apply productive_sound_complete. vm_compute. auto.
  - intros Hc. apply productive_sound_complete in Hc. vm_compute in Hc. intuition discriminate.
Qed.

Example ex_remove_inproductive :
  cfg_remove_inproductive ex_GU =
    mkCFG [0; 2; 4] [10; 11] [mkRule 0 1 [Tm 10]; mkRule 2 3 [Tm 11]; mkRule 4 5 [Var 2; Var 4]; mkRule 4 6 []] 0 /\
  cfg_wf ex_GU /\ (cfg_lang (cfg_remove_inproductive ex_GU) [10] <-> cfg_lang ex_GU [10]).
Proof.
  split; [vm_compute; reflexivity|]. split; [apply cfg_wf_b_spec; vm_compute; reflexivity|].
  apply remove_inproductive_lang.
Qed.

Example ex_remove_useless_rules :
  (forall r, In r (gR ex_GU) -> rrhs r <> [Tm (rvar r)]) /\
  cfg_wf ex_GU /\ (forall A, In A (gV ex_GU) -> ~ In A (gSg ex_GU)) /\
  length (gR (cfg_remove_useless_rules ex_GU)) = 6.
Proof.
  split; [apply no_tm_self_b_spec; vm_compute; reflexivity|].
  split; [apply cfg_wf_b_spec; vm_compute; reflexivity|]. split; [|vm_compute; reflexivity].
  intros A HA Hc. cbn in HA, Hc. intuition (subst; discriminate).
Qed.

Example ex_put_start_in_front :
  let G := mkCFG [0; 1; 2; 3; 4] [10; 11] (gR ex_GU) 2 in
  (exists r, In r (gR G) /\ rvar r = gS G) /\
  map rvar (gR (cfg_put_start_in_front G)) = [2; 0; 1; 0; 3; 4; 4].
Proof.
  split; [|vm_compute; reflexivity]. exists (mkRule 2 3 [Tm 11]). cbn. auto 10.
Qed.

Example ex_cfg_to_nfa :
  cfg_wf ex_G /\ In (gS ex_G) (gV ex_G) /\ ~ In 99 (gSg ex_G) /\
  (forall r, In r (gR ex_G) -> forall x, rrhs r = [x] -> sname x <> 50) /\
  (forall r, In r (gR ex_G) -> alt_ok 50 (rrhs r)) /\
  cfg_to_nfa 99 50 ex_G =
    Some (mkNFA [0; 1] [10; 11] [((0, 10), [0]); ((0, 11), [1]); ((0, 99), [1]); ((1, 10), [1])] 0 [1] 99) /\
  Forall (fun a => In a (gSg ex_G)) [10; 11; 10].
Proof.
  split; [apply cfg_wf_b_spec; vm_compute; reflexivity|]. split; [left; reflexivity|].
  split; [cbn; intuition discriminate|].
  split; [apply no_geps_alt_b_spec; vm_compute; reflexivity|].
  split; [apply all_alt_ok_b_spec; vm_compute; reflexivity|].
  split; [vm_compute; reflexivity|].
  repeat (apply Forall_cons; [cbn; auto|]). apply Forall_nil.
Qed.

(* a rule of another shape: RuntimeError *)
Example ex_cfg_to_nfa_error :
  cfg_to_nfa_res 99 50 ex_GU = ConvRuntimeError /\ cfg_to_nfa 99 50 ex_GU = None /\
  cfg_to_nfa_res 99 50 (mkCFG [1] [10] [] 0) = ConvStopIteration /\
  cfg_to_nfa_res 99 50 (mkCFG [0] [] [mkRule 0 0 [Tm 10; Var 0]] 0) = ConvAssertionError.
Proof. repeat split; vm_compute; reflexivity. Qed.

Example ex_cfg_to_dfa :
  (forall r, In r (gR ex_GD) -> forall x, rrhs r = [x] -> sname x <> 50) /\ cfg_deterministic ex_GD /\
  cfg_to_dfa true 50 ex_GD =
    Some (mkDFA [0; 1] [10; 11] [((0, 10), 0); ((0, 11), 1); ((1, 10), 1); ((1, 11), 1)] 0 [0; 1]) /\
  cfg_to_dfa_res true 50 ex_G = ConvRuntimeError.
Proof.
  split; [apply no_geps_alt_b_spec; vm_compute; reflexivity|].
  split; [apply cfg_deterministic_b_spec; vm_compute; reflexivity|].
  split; vm_compute; reflexivity.
Qed.

Print Assumptions productive_fixpoint.
Print Assumptions productive_fuel_irrelevant.
Print Assumptions productive_sound_complete.
Print Assumptions productive_NoDup.
Print Assumptions remove_inproductive_lang.
Print Assumptions remove_inproductive_all_productive.
Print Assumptions remove_inproductive_wf.
Print Assumptions remove_inproductive_start.
Print Assumptions remove_useless_rules_lang.
Print Assumptions remove_useless_rules_lang_wf.
Print Assumptions remove_useless_rules_wf.
Print Assumptions remove_useless_rules_none_left.
Print Assumptions remove_useless_rules_cex.
Print Assumptions put_start_in_front_perm.
Print Assumptions put_start_in_front_lang.
Print Assumptions put_start_in_front_wf.
Print Assumptions put_start_in_front_head.
Print Assumptions cfg_to_nfa_charact.
Print Assumptions cfg_to_nfa_lang_gen.
Print Assumptions cfg_to_nfa_lang.
Print Assumptions cfg_to_nfa_lang_wf.
Print Assumptions cfg_to_nfa_geps_cex.
Print Assumptions cfg_to_nfa_geps_var_cex.
Print Assumptions cfg_lang_alphabet.
Print Assumptions cfg_to_nfa_word_condition_needed.
Print Assumptions cfg_to_nfa_res_runtime_error.
Print Assumptions cfg_to_nfa_res_stop_iteration.
Print Assumptions cfg_to_nfa_total.
Print Assumptions cfg_to_nfa_none_iff.
Print Assumptions cfg_to_dfa_lang.
Print Assumptions cfg_to_dfa_det_cex.
Print Assumptions cfg_to_dfa_res_runtime_error.
Print Assumptions cfg_to_dfa_unchecked_total.
Print Assumptions no_geps_alt_b_spec.
Print Assumptions no_tm_self_b_spec.
Print Assumptions all_alt_ok_b_spec.
Print Assumptions cfg_deterministic_b_spec.
Print Assumptions ex_cfg_to_nfa.
Print Assumptions ex_cfg_to_dfa.
