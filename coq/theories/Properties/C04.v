(* placeholder until Proofs/MinimizeProofs.v exists: statements are filled in by the build round *)
From GT Require Import Base.Prelude Model.DFA Model.NFA Model.Minimize.
