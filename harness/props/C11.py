"""C11 - TM simulation vs the proved model (Model/TM.v)."""
import itertools
import coqlit as L
import conv

COQ_IMPORTS = ['Model.TM', 'Judge.C11_judge']
PDA_FREE = True      # no PDA is involved: the recycling pass runs with GambaTools.pda_epsilon_closure_max_iterations = 3
LOG_SAFE = True      # no printed output is read back: the recycling pass runs with GambaTools.enable_logging = True
RULE = ('all TMs with one working state over Gamma={a,blank} (169) and a seeded sample of those with two working states (17^4 space), plus random TMs with <= 4 working '
        'states over <= 3 tape symbols (partial delta, left moves at cell 0, blank writes, loops, halting initial state); each with all input words of length <= 3 (<= 2 for '
        '|Sigma|=2) and budgets {0,1,2,5,40}. Observed: tm_accepts_word, tm_simulate_word (every configuration), tm_words_up_to_n. '
        'Non-trivial = the runs of the machine show at least two of the three verdicts or a trace of length >= 4; distinct by machine text.')
RULE += (" Added after the seeded rounds: other blank symbols than '_', words containing tape symbols outside the input alphabet, "
         "machines that erase a prefix of the input and come back over the blanks (words up to length 5).")
CODES = {2: 'tm_accepts_word verdict differs from the proved model', 3: 'tm_simulate_word trace differs from the proved model',
         4: 'tm_words_up_to_n differs from the proved enumeration', 9: 'generated TM is not valid (harness)'}
RESIDUE = 'Python list mutation of the tape (tape[head] = b, append) is modelled by set_nth / ++; Symbol/State are str'
ASSUMPTIONS = ['q_accept <> q_reject (class invariant asserted by TM._check_validity)']
BUDGETS = [0, 1, 2, 5, 40]


def _mk(states, sigma, gamma, delta, q0='q0', words=None, budgets=None):
    Q = states + ['acc', 'rej']
    ws = []
    maxlen = 3 if len(sigma) <= 1 else 2
    for n in range(maxlen + 1):
        for w in itertools.product(sigma, repeat=n):
            ws.append(''.join(w))
    # words that contain tape symbols which are not input symbols (the property speaks of every word): the verdict is still defined
    extra = [g for g in gamma if g not in sigma]
    for g in extra[:2]:
        ws += [g] + [a + g for a in sigma[:1]]
    if words is not None:
        ws = words
    runs = [[w, k] for w in ws for k in (budgets or BUDGETS)]
    return {'Q': Q, 'Sigma': sigma, 'Gamma': gamma, 'delta': delta, 'q0': q0, 'qa': 'acc', 'qr': 'rej', 'blank': '_',
            'runs': runs, 'enum': [[0, 5], [2, 40], [3, 2]]}


def eraser_tm(rng):
    sigma = rng.choice([['a'], ['a', 'b']])
    e = rng.randint(1, 3)
    states = ['q%d' % i for i in range(e)] + ['s']
    delta = []
    for i in range(e):
        last = i == e - 1
        for x in sigma:
            if rng.random() < 0.9:
                delta.append(['q%d' % i, x, 's' if last else 'q%d' % (i + 1), '_', ('L' if rng.random() < 0.8 else 'R') if last else 'R'])
    delta.append(['s', '_', 's', '_', 'R'])
    for x in sigma:
        r = rng.random()
        if r < 0.5:
            delta.append(['s', x, 'acc', x, 'R'])
        elif r < 0.7:
            delta.append(['s', x, 'rej', x, 'R'])
        elif r < 0.85:
            delta.append(['s', x, 's', '_', 'L'])          # erase it too and turn round
    ws = set()
    for n in range(e + 3):
        for _ in range(3):
            ws.add(''.join(rng.choice(sigma) for _ in range(n)))
    return _mk(states, sigma, sigma + ['_'], delta, words=sorted(ws), budgets=[0, 2, e + 2, e + 4, 40])


def _entries(states, gamma):
    opts = [None]
    for q in states + ['acc', 'rej']:
        for b in gamma:
            for d in 'LR':
                opts.append((q, b, d))
    return opts


def gen(rng, tier):
    cases = []
    gamma = ['a', '_']
    # exhaustive: one working state
    opts = _entries(['q0'], gamma)
    for e0 in opts:
        for e1 in opts:
            delta = [['q0', g] + list(e) for g, e in zip(gamma, (e0, e1)) if e is not None]
            cases.append(_mk(['q0'], ['a'], gamma, delta))
    # sample: two working states
    opts2 = _entries(['q0', 'q1'], gamma)
    for _ in range(150 if tier == 'quick' else 3000):
        es = [rng.choice(opts2) for _ in range(4)]
        keys = [('q0', 'a'), ('q0', '_'), ('q1', 'a'), ('q1', '_')]
        delta = [[p, g] + list(e) for (p, g), e in zip(keys, es) if e is not None]
        cases.append(_mk(['q0', 'q1'], ['a'], gamma, delta))
    # random larger
    for _ in range(150 if tier == 'quick' else 3000):
        n = rng.randint(1, 4)
        states = ['q%d' % i for i in range(n)]
        sigma = rng.choice([['a'], ['a', 'b'], []])
        gamma = sigma + ['_'] + (['x'] if rng.random() < 0.5 else [])
        delta = []
        for p in states:
            for g in gamma:
                if rng.random() < 0.75:
                    delta.append([p, g, rng.choice(states + ['acc', 'rej'] + states), rng.choice(gamma), rng.choice('LLR' if rng.random() < 0.3 else 'LRR')])
        q0 = 'q0'
        x = rng.random()
        if x < 0.04:
            q0 = 'acc'
        elif x < 0.08:
            q0 = 'rej'
        cases.append(_mk(states, sigma, gamma, delta, q0))
    # machines that write blanks INSIDE the used part of the tape and come back over them: erase the first e cells, step back, skip the
    # blanks to the right in one state, decide on the first symbol behind them (longer words than the other families use)
    for _ in range(40 if tier == 'quick' else 600):
        cases.append(eraser_tm(rng))
    # other blank symbols than '_' (the TM constructor and parse_tm accept any symbol; '□' is parse_tm's second default)
    out = []
    for i, c in enumerate(cases):
        out.append(c)
        if i % 3 == 0:
            b = ['□', 'B', ' ', '0'][(i // 3) % 4]
            if b not in c['Gamma']:
                r = lambda x: b if x == '_' else x
                out.append(dict(c, Gamma=[r(x) for x in c['Gamma']], delta=[[p_, r(g), q_, r(h), d_] for p_, g, q_, h, d_ in c['delta']], blank=b))
    return out


def observe(c):
    from gambatools.tm_algorithms import tm_accepts_word, tm_simulate_word, tm_words_up_to_n
    from implutil import safe, ok
    T = conv.tm_obj(c)
    runs = []
    for w, k in c['runs']:
        v = safe(tm_accepts_word, T, w, k)
        t = safe(tm_simulate_word, T, w, k)
        runs.append({'v': [v[1]] if ok(v) else None,
                     't': [[q, list(tape), h] for (q, tape, h) in t[1]] if ok(t) else None,
                     'err': None if ok(v) and ok(t) else (v[1] if not ok(v) else t[1])})
    enum = []
    for n, k in c['enum']:
        e = safe(tm_words_up_to_n, T, n, k, timeout=10)
        enum.append(sorted(e[1]) if ok(e) else None)
    return {'runs': runs, 'enum': enum}


def _names(c):
    st, sy = L.Names(), L.Names()
    for q in c['Q']:
        st(q)
    for a in c['Gamma']:
        sy(a)
    for a in c['Sigma']:
        sy(a)
    return st, sy


def tm_lit(c, st, sy):
    delta = L.lst(L.pair(L.pair(L.nat(st(p)), L.nat(sy(a))), L.pair(L.nat(st(q)), L.nat(sy(b)), L.boolean(d == 'L'))) for (p, a, q, b, d) in c['delta'])
    return '(mkTM %s %s %s %s %d %d %d %d)' % (L.nats(st(q) for q in c['Q']), L.nats(sy(a) for a in c['Sigma']), L.nats(sy(a) for a in c['Gamma']),
                                               delta, st(c['q0']), st(c['qa']), st(c['qr']), sy(c['blank']))


def encode(c, o):
    st, sy = _names(c)
    T = tm_lit(c, st, sy)
    runs = []
    for (w, k), r in zip(c['runs'], o['runs']):
        v = 'None' if r['v'] is None else '(Some %s)' % L.option(r['v'][0], L.boolean)
        if r['t'] is None:
            t = 'None'
        else:
            t = '(Some %s)' % L.lst(L.pair(L.nat(st(q)), L.nats(sy(a) for a in tape), L.nat(h)) for (q, tape, h) in r['t'])
        runs.append(L.pair(L.nats(sy(a) for a in w), L.nat(k), v, t))
    enum = []
    for (n, k), e in zip(c['enum'], o['enum']):
        enum.append(L.pair(L.nat(n), L.nat(k), L.option(e, lambda ws: L.lst(L.nats(sy(a) for a in w) for w in ws))))
    return 'judge_C11 %s %s %s' % (T, L.lst(runs), L.lst(enum))


def explain(c):
    st, sy = _names(c)
    return 'explain_C11 %s %s' % (tm_lit(c, st, sy), L.lst(L.pair(L.nats(sy(a) for a in w), L.nat(k)) for w, k in c['runs'][:12]))


def key(c):
    return conv.tm_text(c)


def nontrivial(c, o):
    vs = set()
    longest = 0
    for r in o['runs']:
        if r['v'] is not None:
            vs.add(str(r['v'][0]))
        if r['t'] is not None:
            longest = max(longest, len(r['t']))
    return len(vs) >= 2 or longest >= 4


def describe(c):
    return {'tm': conv.tm_text(c), 'runs': c['runs'][:10], 'enum': c['enum']}


def reproduce(c):
    return ('from gambatools.tm_algorithms import *; T = parse_tm(%r); '
            '[(w, k, tm_accepts_word(T, w, k), tm_simulate_word(T, w, k)) for (w, k) in %r]' % (conv.tm_text(c), c['runs'][:6]))


def signature(c, o, code):
    if c['q0'] in (c['qa'], c['qr']):
        return 'C11:halting-initial-state'
    return 'C11:code%d:%s' % (code, conv.tm_text(c))


def distribution(cases, obs):
    d = {'working_states': {}, 'verdict_true': 0, 'verdict_false': 0, 'verdict_undecided': 0, 'exceptions': 0, 'q0_halting': 0, 'max_trace_len': 0}
    for c, o in zip(cases, obs):
        k = str(len(c['Q']) - 2)
        d['working_states'][k] = d['working_states'].get(k, 0) + 1
        d['q0_halting'] += 1 if c['q0'] in (c['qa'], c['qr']) else 0
        for r in o['runs']:
            if r['v'] is None:
                d['exceptions'] += 1
            elif r['v'][0] is True:
                d['verdict_true'] += 1
            elif r['v'][0] is False:
                d['verdict_false'] += 1
            else:
                d['verdict_undecided'] += 1
            if r['t']:
                d['max_trace_len'] = max(d['max_trace_len'], len(r['t']))
    return d


def shrink(c):
    out = []
    for i in range(len(c['delta'])):
        d = dict(c)
        d['delta'] = c['delta'][:i] + c['delta'][i + 1:]
        out.append(d)
    if len(c['runs']) > 1:
        for i in range(len(c['runs'])):
            d = dict(c)
            d['runs'] = [c['runs'][i]]
            d['enum'] = []
            out.append(d)
    elif c['enum']:
        d = dict(c)
        d['enum'] = []
        out.append(d)
    if len(c['enum']) > 1 or (c['enum'] and c['runs']):
        for i in range(len(c['enum'])):
            d = dict(c)
            d['enum'] = [c['enum'][i]]
            d['runs'] = []
            out.append(d)
    return out


LEVEL_TEXT = ('Machine-checked Coq theorems for all TMs, words and budgets: the three-valued verdict of the model of tm_accepts_word is characterised exactly by the Sipser '
              'semantics on an infinite tape (refinement proof for the lazily extended list tape), is monotone in the budget, and the recorded trace is the iterated step '
              'function, stops at the first halting state and agrees with the verdict. The model is tied to the Python by in-Coq evaluation on every generated case.')
LEVEL_NOTE = ('Trusted: Coq kernel + vm_compute, hand-written model Model/TM.v, harness. No axioms. The halting-initial-state case is modelled as repaired (fix F11).')
TECHNIQUE = 'Coq refinement proof (list tape vs infinite tape) + induction on the step budget; in-Coq differential correspondence'
