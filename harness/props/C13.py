"""C13 - the library's own answers (apply_command) are accepted by the corresponding checkers."""
import exercises2 as E
import coqlit as L
import props.C12 as C12

COQ_IMPORTS = C12.COQ_IMPORTS
RULE = ('exercise instances of the 31 exercise kinds (see C12) with random reference DFAs / NFAs / regexps and non-degenerate grammars (every variable derives a non-empty word): the answer computed by notebooks/make_notebook.apply_command '
        '(generator + printer) is fed to the corresponding check_* function (parser + checker) with stdout captured; the shipped examples are included. Relation: the checker prints OK, and the proved model checker accepts the '
        'parsed answer. Non-trivial = the answer text has >= 3 lines or >= 5 characters; distinct by (kind, seed).')
CODES = C12.CODES
ASSUMPTIONS = ['grammars non-degenerate; alphabets without the characters 0 and 1 for the DFA-to-regexp exercise (known finding F14)']
RESIDUE = C12.RESIDUE
SHARD = 25
JUDGE = 'C12'
EXTRA_JUDGES = C12.EXTRA_JUDGES


def gen(rng, tier):
    import gen as G
    cases = E.gen_cases(rng, 14 if tier == 'quick' else 200, 1)
    # the shipped example examples/dfa1.dfa has the alphabet {0, 1}: DFA-to-regexp exercise over such an alphabet (known finding F14)
    for _ in range(3 if tier == 'quick' else 30):
        d = G.random_dfa(rng, rng.randint(2, 3), '01')
        if 0 < len(d['F']) < len(d['Q']):
            cases.append({'ex': 'dfa2regexp', 'seed': rng.randrange(10 ** 9), 'perturb': 0, 'length': 4, 'D': d, 'max_states': 0})
    return cases


def observe(c):
    return E.observe(c)


def encode(c, o):
    if o.get('setup_error'):
        return '3'
    return 'worst_code %s' % L.lst('(%s)' % E.encode_answer(c, o, a, True) for a in o['answers'])


CODES = dict(CODES)
CODES[3] = 'the library could not produce its own answer (apply_command raised)'


def key(c):
    return '%s|%d' % (c['ex'], c['seed'])


def nontrivial(c, o):
    return bool(o['answers']) and len(o['answers'][0]['text']) >= 5


def describe(c):
    return {k: v for k, v in c.items()}


def reproduce(c):
    return 'see "observed": the own answer text with the checker output; exercise kind %s' % c['ex']


def signature(c, o, code):
    a = o['answers'][0] if o.get('answers') else None
    if c['ex'] == 'dfa2regexp' and 'D' in c and any(s in '01' for s in c['D']['Sigma']):
        return 'C13:dfa2regexp:alphabet-contains-0-or-1'
    return 'C13:code%d:%s' % (code, key(c))


def distribution(cases, obs):
    return C12.distribution(cases, obs)


LEVEL_TEXT = ('Coq theorems: for each generator/checker pair the model checker accepts the model generator\'s answer (corollaries of the construction theorems C03, C04, C06, C07, C08, C14, C15) - see evidence for _partial '
              'items. Tied to the Python by running apply_command -> printer -> parser -> checker on random references and evaluating the model checker on the parsed answer inside Coq.')
LEVEL_NOTE = 'Trusted: Coq kernel + vm_compute, Model/Checkers.v, the library parsers for the answer text (C16/C17), stdout capture. No axioms. Known finding F14 (alphabet containing 0/1 in the DFA-to-regexp exercise).'
TECHNIQUE = 'Coq corollaries of the construction theorems + end-to-end composition (generator, printer, parser, checker) with the model checker evaluated in Coq'
