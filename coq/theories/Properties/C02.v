(* C02 — Bounded language enumeration is exact for every formalism: nothing longer than n, nothing missing, nothing extra.
   One theorem per kind of object; the right-hand sides are the specification languages (dfa_lang, nfa_lang, re_lang,
   cfg_lang, pda_lang) or, for Turing machines, the proved three-valued verdict under the same step budget.
   PDA: under "no epsilon-closure was truncated" (second component false); soundness holds unconditionally. *)
From GT Require Import Base.Prelude Model.DFA Model.NFA Model.Regexp Model.TM Model.CFG Model.Chomsky Model.CYK Model.PDA.
From GT Require Import Proofs.EnumProofs Proofs.RegexpProofs Proofs.TMProofs Proofs.ChomskyFinal Proofs.PDAProofs.
From GT Require Proofs.ChomskyEpsUnitProofs.

Theorem C02_dfa : forall (D : dfa nat) (n : nat), dfa_wf D -> exists L, dfa_words D n = Some L /\
  forall w, In w L <-> length w <= n /\ Forall (fun a => In a (dS D)) w /\ dfa_lang D w.
Proof. exact (fun D n => dfa_words_lang D n). Qed.

Theorem C02_nfa : forall (N : nfa nat) (n : nat), nfa_wf N -> exists L, nfa_words N n = Some L /\
  forall w, In w L <-> length w <= n /\ Forall (fun a => In a (nS N)) w /\ nfa_lang N w.
Proof. exact (fun N n => nfa_words_lang N n). Qed.

Theorem C02_regexp : forall (r : re) (n : nat) (w : word), In w (re_words r n) <-> length w <= n /\ re_lang r w.
Proof. exact re_words_exact. Qed.

Theorem C02_tm : forall (T : tm) (n k : nat) (w : word),
  In w (tm_words T n k) <-> length w <= n /\ Forall (fun a => In a (tSg T)) w /\ tm_accepts T w k = Some true.
Proof. exact tm_words_exact. Qed.

Theorem C02_cfg_cnf : forall (G : cfg) (n : nat) (w : word), is_chomsky G -> (In w (cnf_words G n) <-> length w <= n /\ cfg_lang G w).
Proof. exact Proofs.CFGEnumProofs.cnf_words_exact. Qed.

(* arbitrary grammars: the enumerator converts to CNF first; `stream` = the fresh names used by the conversion,
   `ordV` = iteration order of the set V; names_disjoint = variable and terminal names are different strings *)
Theorem C02_cfg : forall (ordV : list nat -> list nat) (stream : list nat) (G : cfg) (n : nat) (L : list word),
  cfg_wf G -> ChomskyEpsUnitProofs.names_disjoint G -> In (gS G) (gV G) -> ChomskyEpsUnitProofs.perm_order ordV ->
  (forall x, In x stream -> ~ In x (gSg G)) ->
  cfg_words ordV stream G n = Some L -> forall w, In w L <-> length w <= n /\ cfg_lang G w.
Proof. exact cfg_words_exact. Qed.

Theorem C02_pda : forall (pick : picker config) (P : pda) (limit n : nat) (L : list word), picker_ok pick -> pda_wf P ->
  pda_words pick P limit n = (L, false) ->
  forall w, In w L <-> length w <= n /\ Forall (fun a => In a (pSg P)) w /\ pda_lang P w.
Proof. exact pda_words_exact. Qed.

Theorem C02_pda_sound : forall (pick : picker config) (P : pda) (limit n : nat) (L : list word) (tr : bool), picker_ok pick -> pda_wf P ->
  pda_words pick P limit n = (L, tr) ->
  forall w, In w L -> length w <= n /\ Forall (fun a => In a (pSg P)) w /\ pda_lang P w.
Proof. exact pda_words_sound. Qed.

Print Assumptions C02_dfa.
Print Assumptions C02_nfa.
Print Assumptions C02_regexp.
Print Assumptions C02_tm.
Print Assumptions C02_cfg_cnf.
Print Assumptions C02_cfg.
Print Assumptions C02_pda.
Print Assumptions C02_pda_sound.
