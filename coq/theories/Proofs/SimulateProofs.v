(* Property C15: the witness checkers for runs / derivations are sound against the textbook specifications,
   and the models of dfa_simulate_word / nfa_simulate_word (with nfa_find_epsilon_path, nfa_find_transition)
   return runs accepted by the checkers (for every admissible pick). *)
From GT Require Import Base.Prelude Model.DFA Model.NFA Model.PDA Model.CFG Model.Simulate
  Proofs.WorklistProofs Proofs.NFAProofs Proofs.PDAProofs Proofs.CFGBasics.

(* ================================================================= generic list facts *)
Lemma last_default {X} (x : X) l d d' : last (x :: l) d = last (x :: l) d'.
Proof.
  revert x. induction l as [|y l IH]; intros x; [reflexivity|].
  change (last (y :: l) d = last (y :: l) d'). apply IH.
Qed.

Lemma last_cons_cons {X} (x y : X) l d : last (x :: y :: l) d = last (y :: l) d.
Proof. reflexivity. Qed.

Lemma last_app_ne {X} (l1 : list X) x l2 d : last (l1 ++ x :: l2) d = last (x :: l2) d.
Proof.
  induction l1 as [|y l1 IH]; [reflexivity|].
  cbn [app]. destruct (l1 ++ x :: l2) eqn:E; [destruct l1; discriminate|].
  rewrite last_cons_cons. exact IH.
Qed.

Lemma chain_ok_cons {X} (step : X -> X -> bool) x y l :
  chain_ok step (x :: y :: l) = step x y && chain_ok step (y :: l).
Proof. reflexivity. Qed.

Lemma chain_ok_nth {X} (step : X -> X -> bool) : forall l, chain_ok step l = true ->
  forall i d, S i < length l -> step (nth i l d) (nth (S i) l d) = true.
Proof.
  induction l as [|x l IH]; intros Hc i d Hi; [cbn [length] in Hi; lia|].
  destruct l as [|y l]; [cbn [length] in Hi; lia|].
  rewrite chain_ok_cons in Hc. apply andb_true_iff in Hc. destruct Hc as [Hs Hc].
  destruct i as [|i]; [exact Hs|].
  change (step (nth i (y :: l) d) (nth (S i) (y :: l) d) = true). apply IH; [exact Hc|].
  cbn [length] in Hi |- *. lia.
Qed.

(* ================================================================= 1. witness checkers *)
Section CheckersP.
  Context {A : Type} `{Eqb A}.

  Lemma dfa_run_ok_from_sound (D : dfa A) : forall (w : word) run q, dfa_run_ok_from D q w run = true ->
    (exists qf, dfa_path D q w qf /\ forall d, last (map fst run) d = qf) /\ length run = S (length w) /\
    (forall i d, i <= length w -> snd (nth i run d) = skipn i w).
  Proof.
    induction w as [|a w1 IH]; intros run q Hok.
    - destruct run as [|[q' w'] rest]; [discriminate|]. cbn [dfa_run_ok_from] in Hok.
      apply andb_true_iff in Hok. destruct Hok as [Hok Hm].
      apply andb_true_iff in Hok. destruct Hok as [Eq Ew]. apply eqb_true in Eq. apply eqb_true in Ew. subst q' w'.
      destruct rest as [|c rest']; [|discriminate]. split; [|split].
      + exists q. split; [constructor | intros d; reflexivity].
      + reflexivity.
      + intros i d Hi. cbn [length] in Hi. assert (Ei : i = 0) by lia. subst i. reflexivity.
    - destruct run as [|[q' w'] rest]; [discriminate|]. cbn [dfa_run_ok_from] in Hok.
      apply andb_true_iff in Hok. destruct Hok as [Hok Hm].
      apply andb_true_iff in Hok. destruct Hok as [Eq Ew]. apply eqb_true in Eq. apply eqb_true in Ew. subst q' w'.
      destruct rest as [|c rest']; [discriminate|].
      destruct (ddelta D q a) as [q1|] eqn:Ed; [|discriminate].
      destruct (IH (c :: rest') q1 Hm) as ((qf & Hp & Hl) & Hlen & Hnth). split; [|split].
      + exists qf. split; [apply dp_cons with q1; assumption|]. intros d. cbn [map]. cbn [map] in Hl.
        rewrite last_cons_cons. apply Hl.
      + cbn [length]. cbn [length] in Hlen. lia.
      + intros i d Hi. destruct i as [|i]; [reflexivity|]. cbn [nth skipn]. apply Hnth. cbn [length] in Hi. lia.
  Qed.

  Theorem dfa_run_ok_sound (D : dfa A) (w : word) (run : list (A * word)) : dfa_run_ok D w run = true ->
    (exists qf, dfa_path D (dq0 D) w qf /\ last (map fst run) (dq0 D) = qf) /\ length run = S (length w) /\
    (forall i, i <= length w -> snd (nth i run (dq0 D, [])) = skipn i w).
  Proof.
    intros Hok. destruct (dfa_run_ok_from_sound D w run (dq0 D) Hok) as ((qf & Hp & Hl) & Hlen & Hnth).
    split; [exists qf; split; [exact Hp | apply Hl]|]. split; [exact Hlen|]. intros i Hi. apply Hnth; exact Hi.
  Qed.

  Lemma nfa_step_ok_spec (N : nfa A) c1 c2 : nfa_step_ok N c1 c2 = true ->
    (snd c1 = snd c2 /\ In (fst c2) (ndelta N (fst c1) (neps N))) \/
    (exists a, snd c1 = a :: snd c2 /\ a <> neps N /\ In (fst c2) (ndelta N (fst c1) a)).
  Proof.
    unfold nfa_step_ok. intros Hs. apply orb_true_iff in Hs. destruct Hs as [Hs|Hs].
    - apply andb_true_iff in Hs. destruct Hs as [E Hm]. apply eqb_true in E. apply mem_In in Hm. left. split; assumption.
    - destruct (snd c1) as [|a w1]; [discriminate|].
      apply andb_true_iff in Hs. destruct Hs as [Hs Hm]. apply andb_true_iff in Hs. destruct Hs as [E Hn].
      apply eqb_true in E. apply mem_In in Hm. apply negb_true_iff, Nat.eqb_neq in Hn.
      right. exists a. subst w1. split; [reflexivity|]. split; assumption.
  Qed.

  Lemma nfa_chain_path (N : nfa A) qf : forall l c, chain_ok (nfa_step_ok N) (c :: l) = true ->
    last (c :: l) c = (qf, []) -> nfa_path N (fst c) (snd c) qf.
  Proof.
    induction l as [|c2 l IH]; intros c Hc Hl.
    - cbn [last] in Hl. subst c. apply np_nil.
    - rewrite chain_ok_cons in Hc. apply andb_true_iff in Hc. destruct Hc as [Hs Hc].
      rewrite last_cons_cons, (last_default c2 l c c2) in Hl. specialize (IH c2 Hc Hl).
      destruct (nfa_step_ok_spec N c c2 Hs) as [[Ew Hin]|(a & Ew & _ & Hin)].
      + rewrite Ew. eapply np_eps; eassumption.
      + rewrite Ew. eapply np_sym; eassumption.
  Qed.

  Theorem nfa_run_ok_sound (N : nfa A) (w : word) (run : list (A * word)) : nfa_run_ok N w run = true ->
    nfa_lang N w /\ hd_error run = Some (nq0 N, w) /\ (exists qf, last run (nq0 N, w) = (qf, []) /\ In qf (nF N)).
  Proof.
    unfold nfa_run_ok. destruct run as [|c0 l]; [discriminate|]. intros Hok.
    apply andb_true_iff in Hok. destruct Hok as [Hok Hl]. apply andb_true_iff in Hok. destruct Hok as [E0 Hc].
    apply eqb_true in E0. subst c0.
    destruct (last ((nq0 N, w) :: l) (nq0 N, w)) as [qf wf] eqn:El.
    apply andb_true_iff in Hl. destruct Hl as [HF Hwf]. apply mem_In in HF.
    destruct wf as [|b wf]; [|discriminate].
    split; [|split].
    - exists qf. split; [|exact HF]. exact (nfa_chain_path N qf l (nq0 N, w) Hc El).
    - reflexivity.
    - exists qf. split; [reflexivity | exact HF].
  Qed.

  (* every step of an accepted run is an epsilon move (input unchanged) or a move on the first unread letter *)
  Theorem nfa_run_ok_steps (N : nfa A) (w : word) (run : list (A * word)) : nfa_run_ok N w run = true ->
    forall i d, S i < length run ->
      (snd (nth i run d) = snd (nth (S i) run d) /\ In (fst (nth (S i) run d)) (ndelta N (fst (nth i run d)) (neps N))) \/
      (exists a, snd (nth i run d) = a :: snd (nth (S i) run d) /\ a <> neps N /\
                 In (fst (nth (S i) run d)) (ndelta N (fst (nth i run d)) a)).
  Proof.
    unfold nfa_run_ok. destruct run as [|c0 l]; [discriminate|]. intros Hok i d Hi.
    apply andb_true_iff in Hok. destruct Hok as [Hok _]. apply andb_true_iff in Hok. destruct Hok as [_ Hc].
    apply nfa_step_ok_spec. apply chain_ok_nth; assumption.
  Qed.
End CheckersP.

(* ---------------- PDA ---------------- *)
Lemma pda_step_ok_spec (P : pda) q1 w1 s1 q2 w2 s2 : pda_step_ok P (q1, w1, s1) (q2, w2, s2) = true ->
  (w1 = w2 /\ In (q2, s2) (moves P (peps P) (q1, s1))) \/
  (exists a, w1 = a :: w2 /\ a <> peps P /\ In (q2, s2) (moves P a (q1, s1))).
Proof.
  unfold pda_step_ok. intros Hs. apply orb_true_iff in Hs. destruct Hs as [Hs|Hs].
  - apply andb_true_iff in Hs. destruct Hs as [E Hm]. apply eqb_true in E. apply mem_In in Hm. left. split; assumption.
  - destruct w1 as [|a w1']; [discriminate|].
    apply andb_true_iff in Hs. destruct Hs as [Hs Hm]. apply andb_true_iff in Hs. destruct Hs as [E Hn].
    apply eqb_true in E. apply mem_In in Hm. apply negb_true_iff, Nat.eqb_neq in Hn.
    right. exists a. subst w1'. split; [reflexivity|]. split; assumption.
Qed.

Lemma pda_chain_reach (P : pda) qf sf : forall l q w s, chain_ok (pda_step_ok P) ((q, w, s) :: l) = true ->
  last ((q, w, s) :: l) (q, w, s) = (qf, [], sf) -> pda_reach P (q, s) w (qf, sf).
Proof.
  induction l as [|[[q2 w2] s2] l IH]; intros q w s Hc Hl.
  - cbn [last] in Hl. inversion Hl; subst. apply pr_refl.
  - rewrite chain_ok_cons in Hc. apply andb_true_iff in Hc. destruct Hc as [Hs Hc].
    rewrite last_cons_cons, (last_default (q2, w2, s2) l (q, w, s) (q2, w2, s2)) in Hl. specialize (IH q2 w2 s2 Hc Hl).
    destruct (pda_step_ok_spec P q w s q2 w2 s2 Hs) as [[Ew Hin]|(a & Ew & Hne & Hin)].
    + subst w2. eapply pr_eps; eassumption.
    + subst w. eapply pr_sym; eassumption.
Qed.

Theorem pda_run_ok_sound (P : pda) (w : word) (run : list (nat * word * list nat)) :
  pda_run_ok P w run = true -> pda_lang P w.
Proof.
  unfold pda_run_ok. destruct run as [|c0 l]; [discriminate|]. intros Hok.
  apply andb_true_iff in Hok. destruct Hok as [Hok Hl]. apply andb_true_iff in Hok. destruct Hok as [E0 Hc].
  apply eqb_true in E0. subst c0.
  destruct (last ((pq0 P, w, []) :: l) (pq0 P, w, [])) as [[qf wf] sf] eqn:El.
  apply andb_true_iff in Hl. destruct Hl as [HF Hwf]. apply mem_In in HF.
  destruct wf as [|b wf]; [|discriminate].
  exists qf, sf. split; [exact HF|]. exact (pda_chain_reach P qf sf l (pq0 P) w [] Hc El).
Qed.

(* a stronger reading: the run starts in the initial configuration and ends in an accepting state, input consumed *)
Theorem pda_run_ok_shape (P : pda) (w : word) (run : list (nat * word * list nat)) :
  pda_run_ok P w run = true ->
  hd_error run = Some (pq0 P, w, []) /\ exists qf sf, last run (pq0 P, w, []) = (qf, [], sf) /\ In qf (pF P) /\
                                                     pda_reach P (pq0 P, []) w (qf, sf).
Proof.
  unfold pda_run_ok. destruct run as [|c0 l]; [discriminate|]. intros Hok.
  apply andb_true_iff in Hok. destruct Hok as [Hok Hl]. apply andb_true_iff in Hok. destruct Hok as [E0 Hc].
  apply eqb_true in E0. subst c0.
  destruct (last ((pq0 P, w, []) :: l) (pq0 P, w, [])) as [[qf wf] sf] eqn:El.
  apply andb_true_iff in Hl. destruct Hl as [HF Hwf]. apply mem_In in HF.
  destruct wf as [|b wf]; [|discriminate].
  split; [reflexivity|]. exists qf, sf. split; [reflexivity|]. split; [exact HF|].
  exact (pda_chain_reach P qf sf l (pq0 P) w [] Hc El).
Qed.

Theorem pda_run_ok_steps (P : pda) (w : word) (run : list (nat * word * list nat)) : pda_run_ok P w run = true ->
  forall i d, S i < length run ->
    let '(q1, w1, s1) := nth i run d in let '(q2, w2, s2) := nth (S i) run d in
    (w1 = w2 /\ In (q2, s2) (moves P (peps P) (q1, s1))) \/
    (exists a, w1 = a :: w2 /\ a <> peps P /\ In (q2, s2) (moves P a (q1, s1))).
Proof.
  unfold pda_run_ok. destruct run as [|c0 l]; [discriminate|]. intros Hok i d Hi.
  apply andb_true_iff in Hok. destruct Hok as [Hok _]. apply andb_true_iff in Hok. destruct Hok as [_ Hc].
  pose proof (chain_ok_nth (pda_step_ok P) (c0 :: l) Hc i d Hi) as Hs.
  destruct (nth i (c0 :: l) d) as [[q1 w1] s1]. destruct (nth (S i) (c0 :: l) d) as [[q2 w2] s2].
  apply pda_step_ok_spec. exact Hs.
Qed.

(* ---------------- CFG derivations ---------------- *)
Definition all_terminals (x : list sym) : bool := forallb (fun s => negb (is_var s)) x.

Lemma split_leftmost_spec : forall x pre A post, split_leftmost x = Some (pre, A, post) <->
  x = pre ++ Var A :: post /\ forallb (fun s => negb (is_var s)) pre = true.
Proof.
  induction x as [|[b n] x IH]; intros pre A post; cbn [split_leftmost].
  - split; [discriminate|]. intros [E _]. destruct pre; discriminate.
  - unfold is_var, sname. cbn [fst snd]. destruct b.
    + split.
      * intros E. inversion E; subst. split; reflexivity.
      * intros [E Hp]. destruct pre as [|s pre].
        -- cbn [app] in E. inversion E; subst. reflexivity.
        -- cbn [app] in E. inversion E; subst. cbn [forallb is_var fst negb andb] in Hp. discriminate.
    + split.
      * destruct (split_leftmost x) as [[[pre' A'] post']|] eqn:Es; [|discriminate].
        intros E. inversion E; subst. destruct (proj1 (IH pre' A post) eq_refl) as [Ex Hp]. subst x.
        split; [reflexivity|]. cbn [forallb is_var fst negb andb]. exact Hp.
      * intros [E Hp]. destruct pre as [|s pre].
        -- cbn [app] in E. inversion E.
        -- cbn [app] in E. inversion E; subst. cbn [forallb] in Hp. apply andb_true_iff in Hp. destruct Hp as [_ Hp].
           rewrite (proj2 (IH pre A post) (conj eq_refl Hp)). reflexivity.
Qed.

Lemma forallb_rev {X} (f : X -> bool) l : forallb f (rev l) = forallb f l.
Proof.
  destruct (forallb f l) eqn:E.
  - rewrite forallb_forall in *. intros x Hx. apply E. apply in_rev; exact Hx.
  - destruct (forallb f (rev l)) eqn:E2; [|reflexivity].
    rewrite <- E. symmetry. rewrite forallb_forall in *. intros x Hx. apply E2. apply in_rev. rewrite rev_involutive; exact Hx.
Qed.

Lemma split_rightmost_spec x pre A post : split_rightmost x = Some (pre, A, post) <->
  x = pre ++ Var A :: post /\ forallb (fun s => negb (is_var s)) post = true.
Proof.
  unfold split_rightmost. split.
  - destruct (split_leftmost (rev x)) as [[[pre' A'] post']|] eqn:Es; [|discriminate].
    intros E. inversion E; subst. apply split_leftmost_spec in Es. destruct Es as [Ex Hp].
    split.
    + rewrite <- (rev_involutive x), Ex, rev_app_distr. cbn [rev]. rewrite <- app_assoc. reflexivity.
    + rewrite forallb_rev. exact Hp.
  - intros [Ex Hp].
    assert (Es : split_leftmost (rev x) = Some (rev post, A, rev pre)).
    { apply split_leftmost_spec. split.
      - rewrite Ex, rev_app_distr. cbn [rev]. rewrite <- app_assoc. reflexivity.
      - rewrite forallb_rev. exact Hp. }
    rewrite Es, !rev_involutive. reflexivity.
Qed.

Lemma rule_existsb_spec (G : cfg) A (y pre post : list sym) :
  existsb (fun r => Nat.eqb (rvar r) A && eqb y (pre ++ rrhs r ++ post)) (gR G) = true <->
  exists rhs, has_rule G A rhs /\ y = pre ++ rhs ++ post.
Proof.
  rewrite existsb_exists. split.
  - intros (r & Hr & Hb). apply andb_true_iff in Hb. destruct Hb as [Ev Ey].
    apply Nat.eqb_eq in Ev. apply eqb_true in Ey. exists (rrhs r). split; [|exact Ey]. exists r. auto.
  - intros (rhs & (r & Hr & Ev & Er) & Ey). exists r. split; [exact Hr|]. apply andb_true_iff. split.
    + apply Nat.eqb_eq; exact Ev.
    + subst rhs y. apply eqb_refl.
Qed.

(* the step relation checked by deriv_step_ok, exactly *)
Theorem deriv_step_ok_leftmost (G : cfg) (x y : list sym) : deriv_step_ok G 0 x y = true <->
  exists pre A post rhs, x = pre ++ Var A :: post /\ y = pre ++ rhs ++ post /\ has_rule G A rhs /\
                         forallb (fun s => negb (is_var s)) pre = true.
Proof.
  unfold deriv_step_ok. cbn [Nat.eqb]. split.
  - destruct (split_leftmost x) as [[[pre A] post]|] eqn:Es; [|discriminate].
    intros He. apply split_leftmost_spec in Es. destruct Es as [Ex Hp].
    apply rule_existsb_spec in He. destruct He as (rhs & Hr & Ey).
    exists pre, A, post, rhs. auto.
  - intros (pre & A & post & rhs & Ex & Ey & Hr & Hp).
    rewrite (proj2 (split_leftmost_spec x pre A post) (conj Ex Hp)).
    apply rule_existsb_spec. exists rhs. auto.
Qed.

Theorem deriv_step_ok_rightmost (G : cfg) (mode : nat) (x y : list sym) : mode <> 0 -> (deriv_step_ok G mode x y = true <->
  exists pre A post rhs, x = pre ++ Var A :: post /\ y = pre ++ rhs ++ post /\ has_rule G A rhs /\
                         forallb (fun s => negb (is_var s)) post = true).
Proof.
  intros Hm. unfold deriv_step_ok. apply Nat.eqb_neq in Hm. rewrite Hm. split.
  - destruct (split_rightmost x) as [[[pre A] post]|] eqn:Es; [|discriminate].
    intros He. apply split_rightmost_spec in Es. destruct Es as [Ex Hp].
    apply rule_existsb_spec in He. destruct He as (rhs & Hr & Ey).
    exists pre, A, post, rhs. auto.
  - intros (pre & A & post & rhs & Ex & Ey & Hr & Hp).
    rewrite (proj2 (split_rightmost_spec x pre A post) (conj Ex Hp)).
    apply rule_existsb_spec. exists rhs. auto.
Qed.

Lemma deriv_step_ok_derives (G : cfg) mode x y t : deriv_step_ok G mode x y = true -> derives G y t -> derives G x t.
Proof.
  intros Hs Hd. destruct (Nat.eq_dec mode 0) as [->|Hm].
  - apply deriv_step_ok_leftmost in Hs. destruct Hs as (pre & A & post & rhs & -> & -> & Hr & _).
    eapply d_step; eassumption.
  - apply (deriv_step_ok_rightmost G mode x y Hm) in Hs. destruct Hs as (pre & A & post & rhs & -> & -> & Hr & _).
    eapply d_step; eassumption.
Qed.

Lemma deriv_chain_derives (G : cfg) mode : forall l x, chain_ok (deriv_step_ok G mode) (x :: l) = true ->
  derives G x (last (x :: l) x).
Proof.
  induction l as [|y l IH]; intros x Hc.
  - cbn [last]. constructor.
  - rewrite chain_ok_cons in Hc. apply andb_true_iff in Hc. destruct Hc as [Hs Hc].
    rewrite last_cons_cons, (last_default y l x y).
    eapply deriv_step_ok_derives; [exact Hs | apply IH; exact Hc].
Qed.

Theorem derivation_ok_sound (G : cfg) (mode : nat) (w : word) (steps : list (list sym)) :
  derivation_ok G mode w steps = true -> cfg_lang G w.
Proof.
  unfold derivation_ok. destruct steps as [|x0 l]; [discriminate|]. intros Hok.
  apply andb_true_iff in Hok. destruct Hok as [Hok El]. apply andb_true_iff in Hok. destruct Hok as [E0 Hc].
  apply eqb_true in E0. apply eqb_true in El. subst x0. unfold cfg_lang. rewrite <- El.
  apply deriv_chain_derives with mode. exact Hc.
Qed.

(* shape of an accepted derivation: first form = start variable, last form = the word, consecutive forms are steps *)
Theorem derivation_ok_shape (G : cfg) (mode : nat) (w : word) (steps : list (list sym)) :
  derivation_ok G mode w steps = true ->
  hd_error steps = Some [Var (gS G)] /\ last steps [] = tword w /\
  forall i, S i < length steps -> deriv_step_ok G mode (nth i steps []) (nth (S i) steps []) = true.
Proof.
  unfold derivation_ok. destruct steps as [|x0 l]; [discriminate|]. intros Hok.
  apply andb_true_iff in Hok. destruct Hok as [Hok El]. apply andb_true_iff in Hok. destruct Hok as [E0 Hc].
  apply eqb_true in E0. apply eqb_true in El. subst x0. split; [reflexivity|]. split.
  - rewrite (last_default [Var (gS G)] l [] [Var (gS G)]). exact El.
  - clear El. revert Hc. generalize [Var (gS G)] as x. induction l as [|y l IH]; intros x Hc i Hi.
    + cbn [length] in Hi. lia.
    + rewrite chain_ok_cons in Hc. apply andb_true_iff in Hc. destruct Hc as [Hs Hc].
      destruct i as [|i]; [exact Hs|].
      change (deriv_step_ok G mode (nth i (y :: l) []) (nth (S i) (y :: l) []) = true).
      apply IH; [exact Hc|]. cbn [length] in Hi |- *. lia.
Qed.

(* ================================================================= 2. dfa_simulate_word *)
Section DFASimP.
  Context {A : Type} `{Eqb A}.

  Lemma dfa_simulate_from_correct (D : dfa A) : dfa_wf D -> forall (w : word) q, In q (dQ D) -> Forall (fun a => In a (dS D)) w ->
    exists run, dfa_simulate_from D q w = Some run /\ dfa_run_ok_from D q w run = true.
  Proof.
    intros Hwf. induction w as [|a w IH]; intros q Hq Hw.
    - exists [(q, [])]. split; [reflexivity|]. cbn [dfa_run_ok_from]. rewrite !eqb_refl. reflexivity.
    - inversion Hw as [|a' w' Ha Hw']; subst. cbn [dfa_simulate_from].
      destruct (ddelta D q a) as [q1|] eqn:Ed.
      + destruct (IH q1 (ddelta_wf D q a q1 Hwf Ed) Hw') as (r & Er & Hr). rewrite Er.
        exists ((q, a :: w) :: r). split; [reflexivity|]. cbn [dfa_run_ok_from]. rewrite !eqb_refl, Ed.
        destruct r as [|c r]; [destruct w; discriminate|]. exact Hr.
      + exfalso. destruct Hwf as (_ & _ & _ & Ht). apply (Ht q a Hq Ha Ed).
  Qed.

  Theorem dfa_simulate_correct (D : dfa A) (w : word) : dfa_wf D -> Forall (fun a => In a (dS D)) w ->
    exists run, dfa_simulate D w = Some run /\ dfa_run_ok D w run = true.
  Proof.
    intros Hwf Hw. apply dfa_simulate_from_correct; [exact Hwf | | exact Hw]. destruct Hwf as (Hq & _); exact Hq.
  Qed.
End DFASimP.

(* ================================================================= 3. nfa_simulate_word *)
Section NFASimP.
  Context {A : Type} `{Eqb A}.

  (* epsilon paths as lists of states: epath N p0 [p0; ...; f] f *)
  Inductive epath (N : nfa A) : A -> list A -> A -> Prop :=
  | ep_one q : epath N q [q] q
  | ep_cons q q1 l f : In q1 (ndelta N q (neps N)) -> epath N q1 l f -> epath N q (q :: l) f.

  Lemma epath_snoc (N : nfa A) p l s t : epath N p l s -> In t (ndelta N s (neps N)) -> epath N p (l ++ [t]) t.
  Proof.
    intros Hp. induction Hp as [q|q q1 l f Hin Hp IH]; intros Ht.
    - cbn [app]. apply ep_cons with t; [exact Ht | apply ep_one].
    - cbn [app]. apply ep_cons with q1; [exact Hin | apply IH; exact Ht].
  Qed.

  Lemma epath_eps_star (N : nfa A) p l f : epath N p l f -> eps_star N p f.
  Proof.
    intros Hp. induction Hp as [q|q q1 l f Hin Hp IH]; [apply es_refl|]. eapply es_step; eassumption.
  Qed.

  Lemma epath_hd (N : nfa A) p l f : epath N p l f -> exists l', l = p :: l'.
  Proof. intros Hp. destruct Hp as [q|q q1 l f Hin Hp]; eexists; reflexivity. Qed.

  (* the explicit reading used in the final statements *)
  Definition is_eps_path (N : nfa A) (R : list A) (f : A) (path : list A) : Prop :=
    exists p0, hd_error path = Some p0 /\ In p0 R /\ last path p0 = f /\
      forall i, S i < length path -> In (nth (S i) path f) (ndelta N (nth i path f) (neps N)).

  Lemma epath_explicit (N : nfa A) p l f : epath N p l f ->
    hd_error l = Some p /\ (forall d, last l d = f) /\
    forall i d, S i < length l -> In (nth (S i) l d) (ndelta N (nth i l d) (neps N)).
  Proof.
    intros Hp. induction Hp as [q|q q1 l f Hin Hp IH].
    - split; [reflexivity|]. split; [intros d; reflexivity|]. intros i d Hi. cbn [length] in Hi. lia.
    - destruct IH as (Hhd & Hl & Hn). destruct (epath_hd _ _ _ _ Hp) as [l' ->].
      split; [reflexivity|]. split.
      + intros d. rewrite last_cons_cons. apply Hl.
      + intros i d Hi. destruct i as [|i].
        * cbn [nth]. exact Hin.
        * change (In (nth (S i) (q1 :: l') d) (ndelta N (nth i (q1 :: l') d) (neps N))). apply Hn.
          cbn [length] in Hi |- *. lia.
  Qed.

  Lemma epath_is_eps_path (N : nfa A) R p l f : In p R -> epath N p l f -> is_eps_path N R f l.
  Proof.
    intros HR Hp. destruct (epath_explicit _ _ _ _ Hp) as (Hhd & Hl & Hn). exists p.
    split; [exact Hhd|]. split; [exact HR|]. split; [apply Hl|]. intros i Hi. apply Hn; exact Hi.
  Qed.

  (* ---------------- back-pointers ---------------- *)
  Inductive bp_ok (N : nfa A) (R : list A) : list (A * A) -> Prop :=
  | bpo_nil : bp_ok N R []
  | bpo_snoc bp t s : bp_ok N R bp -> In s R \/ In s (map fst bp) -> ~ In t (map fst bp) ->
                      In t (ndelta N s (neps N)) -> bp_ok N R (bp ++ [(t, s)]).

  Lemma lookup_app_notin (t : A) (bp ext : list (A * A)) : ~ In t (map fst bp) -> lookup t (bp ++ ext) = lookup t ext.
  Proof.
    induction bp as [|[k v] bp IH]; intros Hn; [reflexivity|].
    cbn [app lookup]. cbn [map fst In] in Hn. destruct (eqb t k) eqn:E.
    - apply eqb_true in E. subst k. exfalso. apply Hn. left; reflexivity.
    - apply IH. intros Hc. apply Hn. right; exact Hc.
  Qed.

  Lemma make_path_in_R (R : list A) bp fuel q acc : In q R -> make_path R bp fuel q acc = Some (q :: acc).
  Proof. intros Hq. apply mem_In in Hq. destruct fuel; cbn [make_path]; rewrite Hq; reflexivity. Qed.

  Lemma make_path_ok (N : nfa A) R bp : bp_ok N R bp -> forall ext q fuel acc, In q R \/ In q (map fst bp) ->
    length bp <= fuel ->
    exists p0 path, make_path R (bp ++ ext) fuel q acc = Some (path ++ acc) /\ In p0 R /\ epath N p0 path q.
  Proof.
    intros Hok. induction Hok as [|bp t s Hok IH Hs Ht Hts]; intros ext q fuel acc Hq Hf.
    - destruct Hq as [Hq|[]]. exists q, [q]. split; [apply make_path_in_R; exact Hq|]. split; [exact Hq | apply ep_one].
    - rewrite <- app_assoc. cbn [app].
      destruct (mem q R) eqn:Em.
      { apply mem_In in Em. exists q, [q]. split; [apply make_path_in_R; exact Em|]. split; [exact Em | apply ep_one]. }
      rewrite app_length in Hf. cbn [length] in Hf.
      destruct Hq as [Hq|Hq]; [apply mem_In in Hq; congruence|].
      rewrite map_app, in_app_iff in Hq. cbn [map fst In] in Hq. destruct Hq as [Hq|[Hq|[]]].
      + apply IH; [right; exact Hq | lia].
      + subst q. destruct fuel as [|fu]; [lia|]. cbn [make_path]. rewrite Em.
        rewrite lookup_app_notin by exact Ht. cbn [lookup]. rewrite eqb_refl.
        destruct (IH ((t, s) :: ext) s fu (t :: acc) Hs) as (p0 & path & Em' & Hp0 & Hp); [lia|].
        exists p0, (path ++ [t]). split; [rewrite <- app_assoc; exact Em'|]. split; [exact Hp0|].
        apply epath_snoc with s; assumption.
  Qed.

  Lemma bp_ok_extend (N : nfa A) R src : forall news bp, bp_ok N R bp -> In src R \/ In src (map fst bp) -> NoDup news ->
    (forall t, In t news -> In t (ndelta N src (neps N)) /\ ~ In t (map fst bp)) ->
    bp_ok N R (bp ++ map (fun t => (t, src)) news).
  Proof.
    induction news as [|t news IH]; intros bp Hok Hsrc Hnd Hn.
    - cbn [map]. rewrite app_nil_r. exact Hok.
    - cbn [map]. change ((t, src) :: map (fun t0 => (t0, src)) news) with ([(t, src)] ++ map (fun t0 => (t0, src)) news).
      rewrite app_assoc. inversion Hnd as [|t' news' Hnt Hnd']; subst.
      destruct (Hn t (or_introl eq_refl)) as [Ht1 Ht2].
      apply IH.
      + apply bpo_snoc; assumption.
      + rewrite map_app, in_app_iff. destruct Hsrc as [Hs|Hs]; [left; exact Hs | right; left; exact Hs].
      + exact Hnd'.
      + intros t0 Ht0. destruct (Hn t0 (or_intror Ht0)) as [H1 H2]. split; [exact H1|].
        rewrite map_app, in_app_iff. cbn [map fst In]. intros [Hc|[Hc|[]]]; [contradiction|]. subst t0. contradiction.
  Qed.

  Lemma keys_news (src : A) (news : list A) : map fst (map (fun t => (t, src)) news) = news.
  Proof. rewrite map_map. cbn [fst]. apply map_id. Qed.

  (* ---------------- visit_targets ---------------- *)
  Lemma visit_targets_spec (f src : A) : forall targets visited todo bp v' t' bp' found,
    visit_targets f src targets visited todo bp = (v', t', bp', found) ->
    exists news, v' = visited ++ news /\ bp' = bp ++ map (fun t => (t, src)) news /\ NoDup news /\
      (forall t, In t news -> In t targets /\ ~ In t visited) /\
      (if found then In f news
       else t' = todo ++ news /\ ~ In f news /\ forall t, In t targets -> In t visited \/ In t news).
  Proof.
    induction targets as [|t ts IH]; intros visited todo bp v' t' bp' found Ev; cbn [visit_targets] in Ev.
    - inversion Ev; subst. exists []. cbn [map]. rewrite !app_nil_r. split; [reflexivity|]. split; [reflexivity|].
      split; [constructor|]. split; [intros t []|]. split; [reflexivity|]. split; [intros []|]. intros t [].
    - destruct (mem t visited) eqn:Em.
      + apply mem_In in Em. destruct (IH _ _ _ _ _ _ _ Ev) as (news & Ev' & Ebp & Hnd & Hn & Hf).
        exists news. split; [exact Ev'|]. split; [exact Ebp|]. split; [exact Hnd|]. split.
        * intros t0 Ht0. destruct (Hn t0 Ht0) as [H1 H2]. split; [right; exact H1 | exact H2].
        * destruct found; [exact Hf|]. destruct Hf as (Et & Hnf & Hall). split; [exact Et|]. split; [exact Hnf|].
          intros t0 [<-|Ht0]; [left; exact Em | apply Hall; exact Ht0].
      + apply mem_nIn in Em. destruct (eqb t f) eqn:Etf.
        * apply eqb_true in Etf. subst t. inversion Ev; subst. exists [f]. split; [reflexivity|]. split; [reflexivity|].
          split; [constructor; [intros [] | constructor]|]. split.
          -- intros t0 [<-|[]]. split; [left; reflexivity | exact Em].
          -- left; reflexivity.
        * apply eqb_neq in Etf. destruct (IH _ _ _ _ _ _ _ Ev) as (news & Ev' & Ebp & Hnd & Hn & Hf).
          exists (t :: news). split; [rewrite Ev', <- app_assoc; reflexivity|].
          split; [rewrite Ebp, <- app_assoc; reflexivity|].
          split.
          { constructor; [|exact Hnd]. intros Hc. destruct (Hn t Hc) as [_ H2]. apply H2. apply in_or_app. right. left. reflexivity. }
          split.
          { intros t0 [<-|Ht0]; [split; [left; reflexivity | exact Em]|].
            destruct (Hn t0 Ht0) as [H1 H2]. split; [right; exact H1|]. intros Hc. apply H2. apply in_or_app. left; exact Hc. }
          destruct found.
          { right; exact Hf. }
          destruct Hf as (Et & Hnf & Hall). split; [rewrite Et, <- app_assoc; reflexivity|]. split.
          { intros [Hc|Hc]; [apply Etf; exact Hc | apply Hnf; exact Hc]. }
          intros t0 [<-|Ht0]; [right; left; reflexivity|].
          destruct (Hall t0 Ht0) as [Hc|Hc]; [|right; right; exact Hc].
          apply in_app_or in Hc. destruct Hc as [Hc|[<-|[]]]; [left; exact Hc | right; left; reflexivity].
  Qed.

  (* ---------------- the BFS loop ---------------- *)
  Variable pick : picker A.
  Hypothesis Hpick : picker_ok pick.

  Definition LInv (N : nfa A) (R visited todo : list A) (bp : list (A * A)) : Prop :=
    bp_ok N R bp /\ (forall v, In v visited <-> In v R \/ In v (map fst bp)) /\ incl todo visited.

  Lemma LInv_step (N : nfa A) R f visited todo bp src rest v' t' bp' found :
    LInv N R visited todo bp -> pick todo = Some (src, rest) ->
    visit_targets f src (ndelta N src (neps N)) visited rest bp = (v', t', bp', found) ->
    bp_ok N R bp' /\ (forall v, In v v' <-> In v R \/ In v (map fst bp')) /\ (found = false -> incl t' v') /\
    (found = true -> In f (map fst bp')).
  Proof.
    intros (Hok & Hv & Ht) Hp Ev. destruct (picker_some pick todo src rest Hpick Hp) as [Hperm _].
    destruct (visit_targets_spec _ _ _ _ _ _ _ _ _ _ Ev) as (news & -> & -> & Hnd & Hn & Hf).
    assert (Hsrc : In src R \/ In src (map fst bp)) by (apply Hv, Ht, Hperm; left; reflexivity).
    split; [|split; [|split]].
    - apply bp_ok_extend; try assumption. intros t Hin. destruct (Hn t Hin) as [H1 H2]. split; [exact H1|].
      intros Hc. apply H2. apply Hv. right; exact Hc.
    - intros v. rewrite map_app, keys_news, !in_app_iff, Hv. tauto.
    - intros ->. destruct Hf as (-> & _ & _). intros x Hx. apply in_app_or in Hx. apply in_or_app.
      destruct Hx as [Hx|Hx]; [left; apply Ht, Hperm; right; exact Hx | right; exact Hx].
    - intros ->. rewrite map_app, keys_news. apply in_or_app. right; exact Hf.
  Qed.

  Lemma find_eps_loop_sound (N : nfa A) R f : forall fuel visited todo bp path, LInv N R visited todo bp ->
    find_eps_loop pick N R f fuel visited todo bp = Some path -> exists p0, In p0 R /\ epath N p0 path f.
  Proof.
    induction fuel as [|fu IH]; intros visited todo bp path HI Ef; [discriminate|].
    cbn [find_eps_loop] in Ef. destruct (pick todo) as [[src rest]|] eqn:Hp; [|discriminate].
    destruct (visit_targets f src (ndelta N src (neps N)) visited rest bp) as [[[v' t'] bp'] found] eqn:Ev.
    destruct (LInv_step _ _ _ _ _ _ _ _ _ _ _ _ HI Hp Ev) as (Hok' & Hv' & Ht' & Hf').
    destruct found.
    - destruct (make_path_ok _ _ _ Hok' [] f (S (length bp')) [] (or_intror (Hf' eq_refl))) as (p0 & path' & Em & Hp0 & Hpath); [lia|].
      rewrite !app_nil_r in Em. rewrite Em in Ef. inversion Ef; subst path'. exists p0. split; assumption.
    - apply (IH v' t' bp' path); [|exact Ef]. split; [exact Hok'|]. split; [exact Hv' | apply Ht'; reflexivity].
  Qed.

  Lemma eps_closed_star (N : nfa A) (V : list A) : (forall x y, In x V -> In y (ndelta N x (neps N)) -> In y V) ->
    forall r f, eps_star N r f -> In r V -> In f V.
  Proof.
    intros Hcl r f Hs. induction Hs as [q|q q1 q2 Hin Hs IH]; intros Hq; [exact Hq|]. apply IH. apply Hcl with q; assumption.
  Qed.

  Lemma find_eps_loop_complete (N : nfa A) R f : nfa_wf N -> forall fuel visited todo bp, LInv N R visited todo bp ->
    ~ In f visited ->
    (forall x y, In x visited -> ~ In x todo -> In y (ndelta N x (neps N)) -> In y visited) ->
    NoDup visited -> incl visited (nQ N) ->
    length (nQ N) + length todo - length visited < fuel ->
    (exists r, In r visited /\ eps_star N r f) ->
    find_eps_loop pick N R f fuel visited todo bp <> None.
  Proof.
    intros Hwf. induction fuel as [|fu IH]; intros visited todo bp HI Hnf Hcl Hnd Hincl Hfuel (r & Hr & Hrf); [lia|].
    cbn [find_eps_loop]. destruct (pick todo) as [[src rest]|] eqn:Hp.
    - destruct (visit_targets f src (ndelta N src (neps N)) visited rest bp) as [[[v' t'] bp'] found] eqn:Ev.
      destruct (LInv_step _ _ _ _ _ _ _ _ _ _ _ _ HI Hp Ev) as (Hok' & Hv' & Ht' & Hf').
      destruct (picker_some pick todo src rest Hpick Hp) as [Hperm Hlen].
      destruct found.
      + destruct (make_path_ok _ _ _ Hok' [] f (S (length bp')) [] (or_intror (Hf' eq_refl))) as (p0 & path' & Em & _); [lia|].
        rewrite !app_nil_r in Em. rewrite Em. discriminate.
      + destruct (visit_targets_spec _ _ _ _ _ _ _ _ _ _ Ev) as (news & -> & -> & Hndn & Hn & (-> & Hfn & Hall)).
        assert (Hnd' : NoDup (visited ++ news)).
        { apply NoDup_app_intro; [exact Hnd | exact Hndn|]. intros x Hx Hc. destruct (Hn x Hc) as [_ H2]. contradiction. }
        assert (Hincl' : incl (visited ++ news) (nQ N)).
        { intros x Hx. apply in_app_or in Hx. destruct Hx as [Hx|Hx]; [apply Hincl; exact Hx|].
          destruct (Hn x Hx) as [H1 _]. apply (ndelta_wf N src (neps N) Hwf); exact H1. }
        apply IH.
        * split; [exact Hok'|]. split; [exact Hv' | apply Ht'; reflexivity].
        * intros Hc. apply in_app_or in Hc. destruct Hc as [Hc|Hc]; contradiction.
        * intros x y Hx Hnx Hy. apply in_or_app.
          assert (Hxn : ~ In x news) by (intros Hc; apply Hnx; apply in_or_app; right; exact Hc).
          assert (Hxr : ~ In x rest) by (intros Hc; apply Hnx; apply in_or_app; left; exact Hc).
          apply in_app_or in Hx. destruct Hx as [Hx|Hx]; [|contradiction].
          destruct (eqb_dec x src) as [->|Hne].
          -- apply Hall; exact Hy.
          -- left. apply Hcl with x; [exact Hx | | exact Hy]. intros Hc. apply Hperm in Hc. destruct Hc as [Hc|Hc]; contradiction.
        * exact Hnd'.
        * exact Hincl'.
        * pose proof (NoDup_incl_length Hnd' Hincl') as Hle. rewrite !app_length in *. lia.
        * exists r. split; [apply in_or_app; left; exact Hr | exact Hrf].
    - exfalso. apply (picker_none pick todo Hpick) in Hp. subst todo. apply Hnf.
      apply (eps_closed_star N visited) with r; [|exact Hrf | exact Hr].
      intros x y Hx Hy. apply Hcl with x; [exact Hx | intros [] | exact Hy].
  Qed.

  Lemma LInv_init (N : nfa A) R : LInv N R (dedup R) (dedup R) [].
  Proof.
    split; [constructor|]. split; [|apply incl_refl]. intros v. rewrite dedup_In. cbn [map In]. tauto.
  Qed.

  Lemma nfa_find_epsilon_path_epath (N : nfa A) R f path :
    nfa_find_epsilon_path pick N R f = Some path -> exists p0, In p0 R /\ epath N p0 path f.
  Proof.
    unfold nfa_find_epsilon_path. destruct (mem f R) eqn:Em.
    - intros E. inversion E; subst. apply mem_In in Em. exists f. split; [exact Em | apply ep_one].
    - apply find_eps_loop_sound. apply LInv_init.
  Qed.

  Theorem nfa_find_epsilon_path_correct (N : nfa A) R f path : nfa_wf N -> incl R (nQ N) ->
    nfa_find_epsilon_path pick N R f = Some path ->
    exists p0, hd_error path = Some p0 /\ In p0 R /\ last path p0 = f /\
      forall i, S i < length path -> In (nth (S i) path f) (ndelta N (nth i path f) (neps N)).
  Proof.
    intros _ _ E. destruct (nfa_find_epsilon_path_epath N R f path E) as (p0 & Hp0 & Hp).
    exact (epath_is_eps_path N R p0 path f Hp0 Hp).
  Qed.

  Theorem nfa_find_epsilon_path_complete (N : nfa A) R f : nfa_wf N -> incl R (nQ N) ->
    (exists r, In r R /\ eps_star N r f) -> nfa_find_epsilon_path pick N R f <> None.
  Proof.
    intros Hwf HR (r & Hr & Hrf). unfold nfa_find_epsilon_path. destruct (mem f R) eqn:Em; [discriminate|].
    apply mem_nIn in Em. apply find_eps_loop_complete; try assumption.
    - apply LInv_init.
    - rewrite dedup_In. exact Em.
    - intros x y Hx Hnx. contradiction.
    - apply dedup_NoDup.
    - intros x Hx. apply HR. apply (proj1 (dedup_In x R)). exact Hx.
    - lia.
    - exists r. split; [apply dedup_In; exact Hr | exact Hrf].
  Qed.
End NFASimP.

(* ---------------- the forward history and the backward reconstruction ---------------- *)
Section NFASimRun.
  Context {A : Type} `{Eqb A}.
  Variable pick : picker A.
  Hypothesis Hpick : picker_ok pick.
  Variable N : nfa A.
  Hypothesis Hwf : nfa_wf N.

  Lemma do_transition_In a R p : In p (nfa_do_transition N a R) <-> exists r, In r R /\ In p (ndelta N r a).
  Proof.
    unfold nfa_do_transition. rewrite big_union_In. split.
    - intros (l & Hl & Hp). apply in_map_iff in Hl. destruct Hl as (r & <- & Hr). exists r. split; assumption.
    - intros (r & Hr & Hp). exists (ndelta N r a). split; [|exact Hp]. apply in_map_iff. exists r. split; [reflexivity | exact Hr].
  Qed.

  Lemma do_transition_incl a R : incl (nfa_do_transition N a R) (nQ N).
  Proof. intros p Hp. apply do_transition_In in Hp. destruct Hp as (r & _ & Hp). apply (ndelta_wf N r a Hwf); exact Hp. Qed.

  (* the last set of the history *)
  Fixpoint nfa_final (w : word) (E : list A) : list A :=
    match w with [] => E | a :: w' => nfa_final w' (eclose N (nfa_do_transition N a E)) end.

  Lemma history_snoc : forall (w : word) a E,
    nfa_history N (w ++ [a]) E =
    nfa_history N w E ++ [nfa_do_transition N a (nfa_final w E); eclose N (nfa_do_transition N a (nfa_final w E))].
  Proof.
    induction w as [|b w IH]; intros a E; [reflexivity|].
    cbn [app nfa_history nfa_final]. rewrite IH. reflexivity.
  Qed.

  Lemma final_snoc : forall (w : word) a E, nfa_final (w ++ [a]) E = eclose N (nfa_do_transition N a (nfa_final w E)).
  Proof. induction w as [|b w IH]; intros a E; [reflexivity|]. cbn [app nfa_final]. apply IH. Qed.

  Lemma last_history : forall (w : word) E d, last (E :: nfa_history N w E) d = nfa_final w E.
  Proof.
    induction w as [|a w IH]; intros E d; [reflexivity|].
    cbn [nfa_history nfa_final]. rewrite !last_cons_cons. apply IH.
  Qed.

  Lemma final_incl : forall (w : word) E, incl E (nQ N) -> incl (nfa_final w E) (nQ N).
  Proof.
    induction w as [|a w IH]; intros E HE; [exact HE|]. cbn [nfa_final]. apply IH.
    apply eclose_incl; [exact Hwf | apply do_transition_incl].
  Qed.

  Lemma final_spec : forall (w : word) E q, incl E (nQ N) -> (In q (nfa_final w E) <-> exists p, In p E /\ spath N p w q).
  Proof.
    induction w as [|a w IH]; intros E q HE; cbn [nfa_final spath].
    - split; [intros Hq; exists q; split; [exact Hq | reflexivity] | intros (p & Hp & <-); exact Hp].
    - rewrite IH by (apply eclose_incl; [exact Hwf | apply do_transition_incl]). split.
      + intros (p & Hp & Hs). apply (eclose_spec N _ Hwf (do_transition_incl a E)) in Hp.
        destruct Hp as (s & Hs1 & Hsp). apply do_transition_In in Hs1. destruct Hs1 as (r & Hr & Hrs).
        exists r. split; [exact Hr|]. exists s, p. auto.
      + intros (r & Hr & s & p & Hrs & Hsp & Hs). exists p. split; [|exact Hs].
        apply (eclose_spec N _ Hwf (do_transition_incl a E)). exists s. split; [|exact Hsp].
        apply do_transition_In. exists r. split; assumption.
  Qed.

  Definition E0 : list A := eclose N [nq0 N].

  Lemma q0_incl : incl [nq0 N] (nQ N).
  Proof. intros x [<-|[]]. destruct Hwf as (Hq & _); exact Hq. Qed.

  Lemma E0_spec p : In p E0 <-> eps_star N (nq0 N) p.
  Proof.
    unfold E0. rewrite (eclose_spec N [nq0 N] Hwf q0_incl). split.
    - intros (s & [<-|[]] & Hs). exact Hs.
    - intros Hs. exists (nq0 N). split; [left; reflexivity | exact Hs].
  Qed.

  Lemma E0_incl : incl E0 (nQ N).
  Proof. apply eclose_incl; [exact Hwf | exact q0_incl]. Qed.

  Lemma final_path (w : word) q : In q (nfa_final w E0) <-> nfa_path N (nq0 N) w q.
  Proof.
    rewrite (final_spec w E0 q E0_incl), nfa_path_spath. split.
    - intros (p & Hp & Hs). exists p. split; [apply E0_spec; exact Hp | exact Hs].
    - intros (p & Hp & Hs). exists p. split; [apply E0_spec; exact Hp | exact Hs].
  Qed.

  (* the reversed history *)
  Definition RH (w : word) : list (list A) := (rev (nfa_history N w E0) ++ [E0]) ++ [[nq0 N]].

  Lemma RH_snoc (w : word) a : RH (w ++ [a]) =
    eclose N (nfa_do_transition N a (nfa_final w E0)) :: nfa_do_transition N a (nfa_final w E0) :: RH w.
  Proof. unfold RH. rewrite history_snoc, rev_app_distr. reflexivity. Qed.

  Lemma RH_hd (w : word) : RH w = nfa_final w E0 :: tl (RH w).
  Proof.
    destruct w as [|b w'] using rev_ind; [reflexivity|]. rewrite RH_snoc, final_snoc. reflexivity.
  Qed.

  (* prefixing a partial run with an epsilon path *)
  Lemma prefix_run p0 path front (cur : word) (result : list (A * word)) :
    epath N p0 path front -> hd_error result = Some (front, cur) -> chain_ok (nfa_step_ok N) result = true ->
    hd_error (map (fun r => (r, cur)) (removelast path) ++ result) = Some (p0, cur) /\
    chain_ok (nfa_step_ok N) (map (fun r => (r, cur)) (removelast path) ++ result) = true /\
    forall d, last (map (fun r => (r, cur)) (removelast path) ++ result) d = last result d.
  Proof.
    intros Hp. induction Hp as [q|q q1 l f Hin Hp IH]; intros Hhd Hc.
    - cbn [removelast map app]. split; [exact Hhd|]. split; [exact Hc|]. intros d; reflexivity.
    - destruct (IH Hhd Hc) as (Hhd' & Hc' & Hl'). destruct (epath_hd _ _ _ _ Hp) as [l' ->].
      change (removelast (q :: q1 :: l')) with (q :: removelast (q1 :: l')). cbn [map app].
      destruct (map (fun r => (r, cur)) (removelast (q1 :: l')) ++ result) as [|c r1] eqn:Er; [discriminate|].
      cbn [hd_error] in Hhd'. inversion Hhd'; subst c.
      split; [reflexivity|]. split.
      + rewrite chain_ok_cons, Hc', andb_true_r. unfold nfa_step_ok. cbn [fst snd].
        rewrite eqb_refl. apply mem_In in Hin. rewrite Hin. reflexivity.
      + intros d. rewrite last_cons_cons. apply Hl'.
  Qed.

  Lemma find_transition_some (R : list A) a target : (exists r, In r R /\ In target (ndelta N r a)) ->
    exists src, nfa_find_transition N R a target = Some src /\ In src R /\ In target (ndelta N src a).
  Proof.
    intros (r & Hr & Ht). unfold nfa_find_transition.
    destruct (find (fun src => mem target (ndelta N src a)) R) as [src|] eqn:Ef.
    - apply find_some in Ef. destruct Ef as [Hs Hm]. apply mem_In in Hm. exists src. auto.
    - exfalso. apply (find_none _ _ Ef) in Hr. apply mem_In in Ht. congruence.
  Qed.

  Lemma nfa_back_ok : forall (w : word), Forall (fun a => a <> neps N) w -> forall front cur result,
    In front (nfa_final w E0) -> hd_error result = Some (front, cur) -> chain_ok (nfa_step_ok N) result = true ->
    exists front' result', nfa_back pick N (rev w) (tl (RH w)) front cur result = Some (front', w ++ cur, result') /\
      In front' E0 /\ hd_error result' = Some (front', w ++ cur) /\ chain_ok (nfa_step_ok N) result' = true /\
      forall d, last result' d = last result d.
  Proof.
    induction w as [|a w IH] using rev_ind; intros Hw front cur result Hfront Hhd Hc.
    - exists front, result. cbn [rev nfa_back app]. split; [reflexivity|]. split; [exact Hfront|].
      split; [exact Hhd|]. split; [exact Hc | intros d; reflexivity].
    - apply Forall_app in Hw. destruct Hw as [Hw Ha]. inversion Ha as [|a' l' Hane _]; subst.
      rewrite rev_unit, RH_snoc. cbn [tl]. rewrite (RH_hd w). cbn [nfa_back].
      set (T := nfa_do_transition N a (nfa_final w E0)) in *.
      rewrite final_snoc in Hfront. fold T in Hfront.
      apply (eclose_spec N T Hwf (do_transition_incl a _)) in Hfront.
      destruct (nfa_find_epsilon_path pick N T front) as [path|] eqn:Ep;
        [|exfalso; exact (nfa_find_epsilon_path_complete pick Hpick N T front Hwf (do_transition_incl a _) Hfront Ep)].
      destruct (nfa_find_epsilon_path_epath pick Hpick N T front path Ep) as (p0 & Hp0 & Hpath).
      destruct (epath_hd _ _ _ _ Hpath) as [l' ->].
      apply do_transition_In in Hp0.
      destruct (find_transition_some (nfa_final w E0) a p0 Hp0) as (src & Ef & Hsrc & Hstep). rewrite Ef.
      destruct (prefix_run p0 (p0 :: l') front cur result Hpath Hhd Hc) as (Hhd1 & Hc1 & Hl1).
      set (result1 := map (fun r => (r, cur)) (removelast (p0 :: l')) ++ result) in *.
      destruct (IH Hw src (a :: cur) ((src, a :: cur) :: result1) Hsrc eq_refl) as (front' & result' & Eb & Hf' & Hhd' & Hc' & Hl').
      + destruct result1 as [|c r1]; [discriminate|]. cbn [hd_error] in Hhd1. inversion Hhd1; subst c.
        rewrite chain_ok_cons, Hc1, andb_true_r. unfold nfa_step_ok. cbn [fst snd].
        apply orb_true_iff. right. rewrite eqb_refl. apply Nat.eqb_neq in Hane. rewrite Hane.
        apply mem_In in Hstep. rewrite Hstep. reflexivity.
      + exists front', result'. rewrite <- app_assoc. cbn [app]. split; [exact Eb|]. split; [exact Hf'|].
        split; [exact Hhd'|]. split; [exact Hc'|]. intros d. rewrite Hl'.
        destruct result1 as [|c r1]; [discriminate|]. rewrite last_cons_cons. apply Hl1.
  Qed.

  Lemma word_no_eps (w : word) : Forall (fun a => In a (nS N)) w -> Forall (fun a => a <> neps N) w.
  Proof.
    intros Hw. destruct Hwf as (_ & _ & Hne & _). apply Forall_forall. intros a Ha Hc. subst a.
    rewrite Forall_forall in Hw. apply Hne, Hw, Ha.
  Qed.

  Lemma nfa_simulate_unfold (w : word) : nfa_simulate pick N w =
    match pick (filter (fun r => mem r (nF N)) (nfa_final w E0)) with
    | None => None
    | Some (front, _) =>
      match nfa_back pick N (rev w) (tl (RH w)) front [] [(front, [])] with
      | None => None
      | Some (front', word', result) =>
        match nfa_find_epsilon_path pick N [nq0 N] front' with
        | None => None
        | Some path => Some (map (fun r => (r, word')) (removelast path) ++ result)
        end
      end
    end.
  Proof.
    unfold nfa_simulate. cbv zeta. fold E0. rewrite last_cons_cons, last_history. reflexivity.
  Qed.

  Theorem nfa_simulate_sound (w : word) : Forall (fun a => In a (nS N)) w -> nfa_accepts N w = Some true ->
    exists run, nfa_simulate pick N w = Some run /\ nfa_run_ok N w run = true.
  Proof.
    intros Hw Hacc. destruct (nfa_accepts_correct N w Hwf Hw) as (b & Eb & Hb). rewrite Hacc in Eb. inversion Eb; subst b.
    destruct (proj1 Hb eq_refl) as (qf & Hpath & HF).
    rewrite nfa_simulate_unfold.
    set (Ff := filter (fun r => mem r (nF N)) (nfa_final w E0)).
    assert (Hqf : In qf Ff).
    { apply filter_In. split; [apply final_path; exact Hpath | apply mem_In; exact HF]. }
    destruct Hpick as [_ Hsome]. destruct (Hsome Ff) as (front & rest & Ep & Hperm & _).
    { intros Hc. rewrite Hc in Hqf. destruct Hqf. }
    rewrite Ep. assert (Hfr : In front Ff) by (apply Hperm; left; reflexivity).
    apply filter_In in Hfr. destruct Hfr as [Hfr HfrF].
    destruct (nfa_back_ok w (word_no_eps w Hw) front [] [(front, [])] Hfr eq_refl eq_refl)
      as (front' & result' & Eb' & Hf' & Hhd' & Hc' & Hl').
    rewrite Eb'. rewrite app_nil_r in *.
    assert (Hex : exists r, In r [nq0 N] /\ eps_star N r front').
    { exists (nq0 N). split; [left; reflexivity | apply E0_spec; exact Hf']. }
    destruct (nfa_find_epsilon_path pick N [nq0 N] front') as [path|] eqn:Epath;
      [|exfalso; exact (nfa_find_epsilon_path_complete pick (conj (proj1 Hpick) Hsome) N [nq0 N] front' Hwf q0_incl Hex Epath)].
    destruct (nfa_find_epsilon_path_epath pick (conj (proj1 Hpick) Hsome) N [nq0 N] front' path Epath) as (p0 & Hp0 & Hp).
    destruct Hp0 as [<-|[]].
    destruct (prefix_run (nq0 N) path front' w result' Hp Hhd' Hc') as (Hhd1 & Hc1 & Hl1).
    eexists. split; [reflexivity|].
    set (run := map (fun r => (r, w)) (removelast path) ++ result') in *.
    unfold nfa_run_ok. destruct run as [|c0 run']; [discriminate|]. cbn [hd_error] in Hhd1. inversion Hhd1; subst c0.
    rewrite eqb_refl, Hc1, Hl1, Hl'. cbn [last andb]. rewrite HfrF. reflexivity.
  Qed.

  Theorem nfa_simulate_none (w : word) : Forall (fun a => In a (nS N)) w -> nfa_accepts N w = Some false ->
    nfa_simulate pick N w = None.
  Proof.
    intros Hw Hacc. destruct (nfa_accepts_correct N w Hwf Hw) as (b & Eb & Hb). rewrite Hacc in Eb. inversion Eb; subst b.
    rewrite nfa_simulate_unfold.
    destruct (filter (fun r => mem r (nF N)) (nfa_final w E0)) as [|x l] eqn:Ef.
    - destruct Hpick as [Hnil _]. rewrite Hnil. reflexivity.
    - exfalso. assert (Hx : In x (filter (fun r => mem r (nF N)) (nfa_final w E0))) by (rewrite Ef; left; reflexivity).
      apply filter_In in Hx. destruct Hx as [Hx HxF]. apply mem_In in HxF. apply final_path in Hx.
      assert (Ht : false = true) by (apply Hb; exists x; split; assumption). discriminate.
  Qed.
End NFASimRun.

Print Assumptions dfa_run_ok_sound.
Print Assumptions nfa_run_ok_sound.
Print Assumptions pda_run_ok_sound.
Print Assumptions derivation_ok_sound.
Print Assumptions deriv_step_ok_leftmost.
Print Assumptions deriv_step_ok_rightmost.
Print Assumptions dfa_simulate_correct.
Print Assumptions nfa_find_epsilon_path_correct.
Print Assumptions nfa_find_epsilon_path_complete.
Print Assumptions nfa_simulate_sound.
Print Assumptions nfa_simulate_none.
