From GT Require Import Base.Prelude Model.DFA Model.NFA Model.PDA Model.CFG Model.Chomsky Model.CYK Model.Simulate Judge.Common.

Definition judge_C15_dfa (D : dfa nat) (runs : list (word * option (list (nat * word)))) : nat :=
  worst_code (check (dfa_wf_b D) 9 :: map (fun x => let '(w, o) := x in
     match o with
     | None => 10
     | Some run => worst_code [check (eqb (Some run) (dfa_simulate D w)) 11; check (dfa_run_ok D w run) 12]
     end) runs).

(* NFA: for accepted words a genuine accepting run must be returned, for rejected words nothing *)
Definition judge_C15_nfa (N : nfa nat) (runs : list (word * option (option (list (nat * word))))) : nat :=
  worst_code (check (nfa_wf_b N) 9 :: map (fun x => let '(w, o) := x in
     match o, nfa_accepts N w with
     | None, _ => 20                                       (* raised or did not terminate in time *)
     | Some (Some run), Some true => check (nfa_run_ok N w run) 21
     | Some None, Some false => 0
     | Some (Some _), Some false => 22
     | Some None, Some true => 23
     | _, None => 8
     end) runs ++
     (* the model of the routine itself returns a valid run (two pick strategies) *)
     map (fun x => let w := fst x in
        match nfa_accepts N w with
        | Some true => check (match nfa_simulate pick_head N w, nfa_simulate pick_last N w with
                              | Some r1, Some r2 => nfa_run_ok N w r1 && nfa_run_ok N w r2 | _, _ => false end) 8
        | _ => check (match nfa_simulate pick_head N w with None => true | Some _ => false end) 8
        end) runs).

Definition judge_C15_pda (P : pda) (limit : nat) (runs : list (word * option (option (list (nat * word * list nat))))) : nat :=
  worst_code (check (pda_wf_b P) 9 :: map (fun x => let '(w, o) := x in
     let '(v, tr) := pda_accepts pick_head P limit w in
     match o with
     (* v = true is sound even when a closure was truncated (C09): the word is accepted, so a run must be returned in finite time *)
     | None => if v then 30 else if tr then 1 else 30
     | Some (Some run) => check (pda_run_ok P w run) 31           (* a returned run must always be genuine *)
     | Some None => if v then 33 else if tr then 1 else 0
     end) runs).

(* the same with the verdict of the implementation's own acceptance test (same process, same limit) for every word: under a truncated
   closure the implementation and the model may explore different configurations (C09 demands soundness only there), so "accepted"
   is what the implementation's test says; the model's verdict is used where that test raised *)
Definition judge_C15_pda2 (P : pda) (limit : nat) (runs : list (word * option (option (list (nat * word * list nat))))) (accs : list (option bool)) : nat :=
  worst_code (check (pda_wf_b P) 9 :: map (fun xa => let '((w, o), ia) := xa in
     let '(v, tr) := pda_accepts pick_head P limit w in
     let eff := match ia with Some b => if tr then b else v | None => v end in
     match o with
     | None => if eff then 30 else if tr then 1 else 30
     | Some (Some run) => check (pda_run_ok P w run) 31
     | Some None => if eff then 33 else if tr then 1 else 0
     end) (combine runs accs)).

(* CNF grammar, non-empty words: mode 0 leftmost, 1 rightmost; o = None: raised *)
Definition judge_C15_cfg (G : cfg) (runs : list (word * nat * option (list (list sym)))) : nat :=
  worst_code (check (cfg_wf_b G && is_chomsky_b G) 9 :: map (fun x => let '(w, mode, o) := x in
     match o, cnf_accepts G w with
     | Some steps, true => check (derivation_ok G mode w steps) 41
     | None, true => 40
     | Some _, false => 42
     | None, false => 0
     end) runs).

Definition explain_C15_nfa (N : nfa nat) (ws : list word) := map (fun w => (nfa_accepts N w, nfa_simulate pick_head N w)) ws.
