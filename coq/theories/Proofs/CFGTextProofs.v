(* Proofs about Model/CFGText.v: a grammar in simple format whose variables all have rules is printed to lines that
   re-parse to an equal grammar (C16, grammar part): same variables and terminals as sets, same start variable,
   the same rules grouped by left-hand side in the order of first appearance (a permutation of the rules). *)
From Coq Require Import Permutation.
From GT Require Import Base.Prelude Model.Tokens Model.CFG Model.CFGText.

(* the rules (as keys) grouped by left-hand side, for the left-hand sides ks *)
Definition group_by (ks : list nat) (l : list (nat * list sym)) : list (nat * list sym) :=
  flat_map (fun X => filter (fun p => Nat.eqb (fst p) X) l) ks.

(* ---- generic list facts ---- *)
Lemma filter_or_perm {A} (f g : A -> bool) (l : list A) :
  (forall x, In x l -> f x = true -> g x = false) ->
  Permutation (filter f l ++ filter g l) (filter (fun x => f x || g x) l).
Proof.
  induction l as [|x l IH]; intros Hd; cbn [filter app]; [constructor|].
  assert (IH' : Permutation (filter f l ++ filter g l) (filter (fun x => f x || g x) l)).
  { apply IH. intros y Hy. apply Hd. right. exact Hy. }
  destruct (f x) eqn:Ef.
  - rewrite (Hd x (or_introl eq_refl) Ef). cbn [orb app]. constructor. exact IH'.
  - destruct (g x) eqn:Eg; cbn [orb].
    + apply Permutation_sym. apply Permutation_cons_app. apply Permutation_sym. exact IH'.
    + exact IH'.
Qed.

Lemma filter_all {A} (f : A -> bool) (l : list A) : (forall x, In x l -> f x = true) -> filter f l = l.
Proof.
  induction l as [|x l IH]; intros H; cbn [filter]; [reflexivity|].
  rewrite (H x (or_introl eq_refl)). f_equal. apply IH. intros y Hy. apply H. right. exact Hy.
Qed.

Lemma group_by_perm ks l : NoDup ks ->
  Permutation (group_by ks l) (filter (fun p => mem (fst p) ks) l).
Proof.
  induction ks as [|X ks IH]; intros Hnd.
  - assert (E : filter (fun p : nat * list sym => mem (fst p) []) l = []).
    { induction l as [|p l IHl]; cbn; auto. }
    rewrite E. constructor.
  - inversion Hnd as [|? ? HX Hnd']; subst.
    change (group_by (X :: ks) l) with (filter (fun p => Nat.eqb (fst p) X) l ++ group_by ks l).
    eapply Permutation_trans; [apply Permutation_app_head; apply IH; exact Hnd'|].
    change (fun p : nat * list sym => mem (fst p) (X :: ks)) with (fun p : nat * list sym => Nat.eqb (fst p) X || mem (fst p) ks).
    apply (filter_or_perm (fun p => Nat.eqb (fst p) X) (fun p => mem (fst p) ks)).
    intros p _ Hp. apply Nat.eqb_eq in Hp. rewrite Hp. apply mem_nIn. exact HX.
Qed.

Lemma group_by_all_perm ks l : NoDup ks -> (forall p, In p l -> In (fst p) ks) -> Permutation (group_by ks l) l.
Proof.
  intros Hnd Hall. eapply Permutation_trans; [apply group_by_perm; exact Hnd|].
  rewrite filter_all; [apply Permutation_refl|]. intros p Hp. apply mem_In. apply Hall. exact Hp.
Qed.

(* ---- ordered_variables ---- *)
Lemma ordered_from_In R : forall done X, In X (ordered_from done R) <-> In X (map rvar R) /\ ~ In X done.
Proof.
  induction R as [|r R IH]; intros done X; cbn [ordered_from map].
  - cbn. tauto.
  - destruct (mem (rvar r) done) eqn:Em.
    + apply mem_In in Em. rewrite IH. cbn [In]. split.
      * intros [H1 H2]. tauto.
      * intros [[H1|H1] H2]; [subst X; contradiction | tauto].
    + apply mem_nIn in Em. cbn [In]. rewrite IH. cbn [In].
      destruct (Nat.eq_dec (rvar r) X) as [E|E].
      * subst X. tauto.
      * tauto.
Qed.

Lemma ordered_from_NoDup R : forall done, NoDup (ordered_from done R).
Proof.
  induction R as [|r R IH]; intros done; cbn [ordered_from]; [constructor|].
  destruct (mem (rvar r) done); [apply IH|].
  constructor; [|apply IH]. rewrite ordered_from_In. cbn [In]. tauto.
Qed.

Lemma ordered_variables_In G X : In X (ordered_variables G) <-> In X (map rvar (gR G)).
Proof. unfold ordered_variables. rewrite ordered_from_In. cbn. tauto. Qed.

(* ---- one alternative ---- *)
Definition sym_ok (eps : nat) (x : sym) : Prop := parse_symbol (sname x) = x /\ sname x <> eps /\ sname x <> c_at.

Lemma parse_print_alt eps rhs : (forall x, In x rhs -> sym_ok eps x) -> (rhs = [] -> eps = c_eps) ->
  parse_alternative eps (print_alt rhs) = Some rhs.
Proof.
  intros Hok He. unfold parse_alternative. destruct rhs as [|x t].
  - rewrite (He eq_refl). cbn [print_alt]. rewrite eqb_refl.
    destruct (eqb [c_eps] [c_at]) eqn:E; [apply eqb_true in E; discriminate E | reflexivity].
  - clear He. cbn [print_alt]. destruct (Hok x (or_introl eq_refl)) as [_ [Hx1 Hx2]].
    destruct (eqb (map sname (x :: t)) [c_at]) eqn:E1.
    { apply eqb_true in E1. cbn [map] in E1. inversion E1. contradiction. }
    destruct (eqb (map sname (x :: t)) [eps]) eqn:E2.
    { apply eqb_true in E2. cbn [map] in E2. inversion E2. contradiction. }
    f_equal. rewrite map_map. rewrite <- (map_id (x :: t)) at 2. apply map_ext_in.
    intros y Hy. apply (Hok y Hy).
Qed.

(* ---- the lines ---- *)
Lemma parse_rule_line eps X alts : (forall rhs, In rhs alts -> parse_alternative eps (print_alt rhs) = Some rhs) ->
  parse_rule eps (X, map print_alt alts) = map (fun rhs => (X, rhs)) alts.
Proof.
  unfold parse_rule. cbn [fst snd]. induction alts as [|rhs alts IH]; intros H; cbn [map flat_map]; [reflexivity|].
  rewrite (H rhs (or_introl eq_refl)). cbn [app]. f_equal. apply IH. intros y Hy. apply H. right. exact Hy.
Qed.

Lemma alternatives_keys R X :
  map (fun rhs => (X, rhs)) (alternatives_of R X) = filter (fun p => Nat.eqb (fst p) X) (map rule_key R).
Proof.
  unfold alternatives_of. induction R as [|r R IH]; cbn [filter map]; [reflexivity|].
  cbn [rule_key fst]. destruct (Nat.eqb (rvar r) X) eqn:E; cbn [map]; [|exact IH].
  apply Nat.eqb_eq in E. rewrite IH. unfold rule_key at 2. rewrite E. reflexivity.
Qed.

Lemma parse_lines_group eps R ks :
  (forall r, In r R -> parse_alternative eps (print_alt (rrhs r)) = Some (rrhs r)) ->
  flat_map (parse_rule eps) (map (fun X => (X, map print_alt (alternatives_of R X))) ks) = group_by ks (map rule_key R).
Proof.
  intros H. induction ks as [|X ks IH]; cbn [map flat_map]; [reflexivity|].
  unfold group_by. cbn [flat_map]. fold (group_by ks (map rule_key R)). rewrite <- IH. f_equal.
  rewrite parse_rule_line; [apply alternatives_keys|].
  intros rhs Hrhs. unfold alternatives_of in Hrhs. apply in_map_iff in Hrhs. destruct Hrhs as [r [<- Hr]].
  apply filter_In in Hr. apply H. apply Hr.
Qed.

Lemma number_from_keys l : forall i, map rule_key (number_from i l) = l.
Proof.
  induction l as [|[A rhs] l IH]; intros i; cbn [number_from map]; [reflexivity|].
  rewrite IH. reflexivity.
Qed.

Lemma number_from_ids l : forall i, map rid (number_from i l) = seq i (length l).
Proof.
  induction l as [|[A rhs] l IH]; intros i; cbn [number_from map length seq]; [reflexivity|].
  rewrite IH. reflexivity.
Qed.

Lemma terminals_of_In a rhs : In a (terminals_of rhs) <-> In (Tm a) rhs.
Proof.
  unfold terminals_of. rewrite in_map_iff. split.
  - intros [x [E Hx]]. apply filter_In in Hx. destruct Hx as [Hx Hv]. destruct x as [b n]. cbn in E, Hv. subst n.
    destruct b; [discriminate|]. exact Hx.
  - intros H. exists (Tm a). split; [reflexivity|]. apply filter_In. split; [exact H | reflexivity].
Qed.

(* ---- symbols of a well-formed simple grammar ---- *)
Lemma simple_sym_ok eps (G : cfg) :
  (forall A, In A (gV G) -> 165 <= A <= 190) -> (forall a, In a (gSg G) -> 197 <= a <= 222) -> cfg_wf G ->
  ~ In eps (gV G) -> ~ In eps (gSg G) ->
  forall r x, In r (gR G) -> In x (rrhs r) -> sym_ok eps x.
Proof.
  intros HV HS Hwf He1 He2 r x Hr Hx. destruct (Hwf r Hr) as [_ Hsyms]. specialize (Hsyms x Hx).
  destruct x as [b n]. unfold sym_ok, parse_symbol, is_lower_code, c_at. cbn [is_var sname fst snd] in *.
  destruct b.
  - pose proof (HV n Hsyms) as Hn. split; [|split].
    + assert (E1 : Nat.leb 197 n = false) by (apply Nat.leb_gt; lia).
      assert (E2 : Nat.eqb n c_eps = false) by (apply Nat.eqb_neq; unfold c_eps; lia).
      rewrite E1, E2. reflexivity.
    + intros ->. contradiction.
    + lia.
  - pose proof (HS n Hsyms) as Hn. split; [|split].
    + assert (E1 : Nat.leb 197 n = true) by (apply Nat.leb_le; lia).
      assert (E2 : Nat.leb n 222 = true) by (apply Nat.leb_le; lia).
      rewrite E1, E2. reflexivity.
    + intros ->. contradiction.
    + lia.
Qed.

(* ---- C16, grammars ---- *)
Theorem print_parse_cfg_lines : forall (eps : nat) (G : cfg),
  (forall A, In A (gV G) -> 165 <= A <= 190) ->
  (forall a, In a (gSg G) -> 197 <= a <= 222) ->
  cfg_wf G ->
  (forall A, In A (gV G) -> exists r, In r (gR G) /\ rvar r = A) ->
  (forall a, In a (gSg G) -> exists r, In r (gR G) /\ In (Tm a) (rrhs r)) ->
  (exists r R', gR G = r :: R' /\ rvar r = gS G) ->
  ~ In eps (gV G) -> ~ In eps (gSg G) ->
  ((exists r, In r (gR G) /\ rrhs r = []) -> eps = c_eps) ->
  exists G', parse_cfg_lines eps (print_cfg_lines G) = Some G' /\
    seteq (gV G') (gV G) /\ seteq (gSg G') (gSg G) /\ gS G' = gS G /\
    map rule_key (gR G') = group_by (ordered_variables G) (map rule_key (gR G)) /\
    Permutation (map rule_key (gR G')) (map rule_key (gR G)) /\
    map rid (gR G') = seq 0 (length (gR G')).
Proof.
  intros eps G HV HS Hwf Hrules Hterm Hfirst He1 He2 He3.
  assert (Hflat : flat_map (parse_rule eps) (print_cfg_lines G) = group_by (ordered_variables G) (map rule_key (gR G))).
  { unfold print_cfg_lines. apply parse_lines_group. intros r Hr. apply parse_print_alt.
    - intros x Hx. apply (simple_sym_ok eps G HV HS Hwf He1 He2 r x Hr Hx).
    - intros E. apply He3. exists r. split; [exact Hr | exact E]. }
  assert (Hperm : Permutation (group_by (ordered_variables G) (map rule_key (gR G))) (map rule_key (gR G))).
  { apply group_by_all_perm; [apply ordered_from_NoDup|].
    intros p Hp. apply in_map_iff in Hp. destruct Hp as [r [<- Hr]]. cbn [rule_key fst].
    apply ordered_variables_In. apply in_map. exact Hr. }
  destruct Hfirst as [r0 [R0 [ER ES]]].
  assert (Hhd : exists T, group_by (ordered_variables G) (map rule_key (gR G)) = (gS G, rrhs r0) :: T).
  { unfold ordered_variables. rewrite ER. cbn [ordered_from mem existsb map]. unfold group_by. cbn [flat_map filter].
    cbn [rule_key fst]. rewrite Nat.eqb_refl. cbn [app]. eexists. unfold rule_key at 1. rewrite ES. reflexivity. }
  destruct Hhd as [T ET].
  unfold parse_cfg_lines. rewrite Hflat.
  remember (group_by (ordered_variables G) (map rule_key (gR G))) as R' eqn:ER'.
  rewrite ET. rewrite <- ET.
  eexists. split; [reflexivity|]. cbn [gV gSg gS gR].
  split; [|split; [|split; [reflexivity|split; [apply number_from_keys|split]]]].
  - intros A. rewrite dedup_In. split.
    + intros HA. apply in_map_iff in HA. destruct HA as [p [<- Hp]].
      apply (Permutation_in _ Hperm) in Hp. apply in_map_iff in Hp. destruct Hp as [r [<- Hr]].
      apply (Hwf r Hr).
    + intros HA. destruct (Hrules A HA) as [r [Hr <-]].
      apply in_map_iff. exists (rule_key r). split; [reflexivity|].
      apply (Permutation_in _ (Permutation_sym Hperm)). apply in_map. exact Hr.
  - intros a. rewrite dedup_In, in_flat_map. split.
    + intros [p [Hp Ha]]. apply terminals_of_In in Ha.
      apply (Permutation_in _ Hperm) in Hp. apply in_map_iff in Hp. destruct Hp as [r [<- Hr]].
      cbn [rule_key snd] in Ha. destruct (Hwf r Hr) as [_ Hsyms]. apply (Hsyms (Tm a) Ha).
    + intros Ha. destruct (Hterm a Ha) as [r [Hr Hin]]. exists (rule_key r). split.
      * apply (Permutation_in _ (Permutation_sym Hperm)). apply in_map. exact Hr.
      * apply terminals_of_In. exact Hin.
  - rewrite number_from_keys. exact Hperm.
  - rewrite number_from_ids. f_equal. rewrite <- (map_length rule_key (number_from 0 R')).
    rewrite number_from_keys. reflexivity.
Qed.

(* the printer accepts such a grammar *)
Theorem print_cfg_simple_some : forall G : cfg,
  (forall A, In A (gV G) -> 165 <= A <= 190) -> (forall a, In a (gSg G) -> 197 <= a <= 222) ->
  print_cfg_simple G = Some (print_cfg_lines G).
Proof.
  intros G HV HS. unfold print_cfg_simple, cfg_is_simple_b.
  assert (E1 : forallb is_upper_code (gV G) = true).
  { apply forallb_forall. intros A HA. apply HV in HA. unfold is_upper_code. apply andb_true_iff. split; apply Nat.leb_le; lia. }
  assert (E2 : forallb is_lower_code (gSg G) = true).
  { apply forallb_forall. intros a Ha. apply HS in Ha. unfold is_lower_code. apply orb_true_iff. left.
    apply andb_true_iff. split; apply Nat.leb_le; lia. }
  rewrite E1, E2. reflexivity.
Qed.

(* with the parser's own choice of the epsilon character ('ε' if it occurs in the text, else '_') *)
Lemma detect_eps_cases lines : detect_eps lines = c_eps \/ detect_eps lines = c_underscore.
Proof. unfold detect_eps. match goal with |- context [if ?c then _ else _] => destruct c end; auto. Qed.

Lemma detect_eps_empty_rule G : (exists r, In r (gR G) /\ rrhs r = []) -> detect_eps (print_cfg_lines G) = c_eps.
Proof.
  intros [r [Hr E]]. unfold detect_eps.
  match goal with |- context [if ?c then _ else _] => assert (Ex : c = true) end.
  { apply existsb_exists. exists (rvar r, map print_alt (alternatives_of (gR G) (rvar r))). split.
    - unfold print_cfg_lines. apply in_map_iff. exists (rvar r). split; [reflexivity|].
      apply ordered_variables_In. apply in_map. exact Hr.
    - cbn [fst snd]. apply orb_true_iff. right. apply existsb_exists. exists [c_eps]. split; [|reflexivity].
      apply in_map_iff. exists []. split; [reflexivity|]. unfold alternatives_of. apply in_map_iff. exists r.
      split; [exact E|]. apply filter_In. split; [exact Hr | apply Nat.eqb_refl]. }
  rewrite Ex. reflexivity.
Qed.

Theorem print_parse_cfg_text : forall G : cfg,
  (forall A, In A (gV G) -> 165 <= A <= 190) ->
  (forall a, In a (gSg G) -> 197 <= a <= 222) ->
  cfg_wf G ->
  (forall A, In A (gV G) -> exists r, In r (gR G) /\ rvar r = A) ->
  (forall a, In a (gSg G) -> exists r, In r (gR G) /\ In (Tm a) (rrhs r)) ->
  (exists r R', gR G = r :: R' /\ rvar r = gS G) ->
  exists G', parse_cfg_text (print_cfg_lines G) = Some G' /\
    seteq (gV G') (gV G) /\ seteq (gSg G') (gSg G) /\ gS G' = gS G /\
    map rule_key (gR G') = group_by (ordered_variables G) (map rule_key (gR G)) /\
    Permutation (map rule_key (gR G')) (map rule_key (gR G)) /\
    map rid (gR G') = seq 0 (length (gR G')).
Proof.
  intros G HV HS Hwf Hrules Hterm Hfirst. unfold parse_cfg_text.
  apply print_parse_cfg_lines; try assumption.
  - intros Hc. apply HV in Hc. destruct (detect_eps_cases (print_cfg_lines G)) as [E|E]; rewrite E in Hc;
      unfold c_eps, c_underscore in Hc; lia.
  - intros Hc. apply HS in Hc. destruct (detect_eps_cases (print_cfg_lines G)) as [E|E]; rewrite E in Hc;
      unfold c_eps, c_underscore in Hc; lia.
  - apply detect_eps_empty_rule.
Qed.

Print Assumptions print_parse_cfg_lines.
Print Assumptions print_cfg_simple_some.
Print Assumptions print_parse_cfg_text.
