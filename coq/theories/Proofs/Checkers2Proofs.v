(* Soundness of the given-language checker (automata_checker._compare_words) and of the from-file checker, for every
   choice `pick` of the reported word. *)
From GT Require Import Base.Prelude Model.DFA Model.NFA Model.Checkers Model.Checkers2 Proofs.CheckersProofs.

Lemma pick_member {X} (pick : picker X) (l : list X) x r : picker_ok pick -> pick l = Some (x, r) -> In x l.
Proof.
  intros [Hnil Hok] Hp. destruct l as [|y l'].
  - rewrite Hnil in Hp. discriminate.
  - destruct (Hok (y :: l')) as (x' & r' & Hp' & Hin & _); [discriminate|].
    rewrite Hp in Hp'. inversion Hp'; subst. apply Hin. left; reflexivity.
Qed.

Lemma pick_nonempty {X} (pick : picker X) (l : list X) : picker_ok pick -> l <> [] -> exists x r, pick l = Some (x, r).
Proof. intros [_ Hok] Hl. destruct (Hok l Hl) as (x & r & Hp & _). eauto. Qed.

(* correct = True exactly when the two word sets are equal *)
Theorem compare_words_none (pick : picker word) (A E : list word) : picker_ok pick ->
  (compare_words pick A E = None <-> seteq A E).
Proof.
  intros Hp. unfold compare_words. destruct (seteqb A E) eqn:Hs.
  - apply seteqb_seteq in Hs. split; auto.
  - assert (Hn : ~ seteq A E) by (intro Hq; apply seteqb_seteq in Hq; congruence).
    split; [|intro Hq; contradiction].
    destruct (pick (diff A E)) as [[w r]|] eqn:H1; [discriminate|].
    destruct (pick (diff E A)) as [[w r]|] eqn:H2; [discriminate|].
    intros _. exfalso. apply Hn. intro x.
    destruct (diff A E) as [|a l1] eqn:D1.
    2:{ destruct (pick_nonempty pick (a :: l1) Hp) as (x' & r' & Hx); [discriminate|]. congruence. }
    destruct (diff E A) as [|b l2] eqn:D2.
    2:{ destruct (pick_nonempty pick (b :: l2) Hp) as (x' & r' & Hx); [discriminate|]. congruence. }
    split; intro Hx.
    + destruct (mem x E) eqn:Hm; [apply mem_In; exact Hm|].
      assert (In x (diff A E)) as Hd. { apply diff_In. split; [exact Hx|]. intro Hc. apply mem_In in Hc. congruence. }
      rewrite D1 in Hd. destruct Hd.
    + destruct (mem x A) eqn:Hm; [apply mem_In; exact Hm|].
      assert (In x (diff E A)) as Hd. { apply diff_In. split; [exact Hx|]. intro Hc. apply mem_In in Hc. congruence. }
      rewrite D2 in Hd. destruct Hd.
Qed.

(* a reported word is genuine and has the right polarity *)
Theorem compare_words_extra (pick : picker word) (A E : list word) (w : word) : picker_ok pick ->
  compare_words pick A E = Some (true, w) -> In w A /\ ~ In w E.
Proof.
  intros Hp. unfold compare_words. destruct (seteqb A E); [discriminate|].
  destruct (pick (diff A E)) as [[v r]|] eqn:H1.
  - intros Heq. inversion Heq; subst. apply diff_In. eapply pick_member; eauto.
  - destruct (pick (diff E A)) as [[v r]|]; discriminate.
Qed.

Theorem compare_words_missing (pick : picker word) (A E : list word) (w : word) : picker_ok pick ->
  compare_words pick A E = Some (false, w) -> In w E /\ ~ In w A.
Proof.
  intros Hp. unfold compare_words. destruct (seteqb A E); [discriminate|].
  destruct (pick (diff A E)) as [[v r]|] eqn:H1; [discriminate|].
  destruct (pick (diff E A)) as [[v r]|] eqn:H2; [|discriminate].
  intros Heq. inversion Heq; subst. apply diff_In. eapply pick_member; eauto.
Qed.

Theorem given_language_ok_spec (pick : picker word) (A E : list word) : picker_ok pick ->
  (given_language_ok pick A E = true <-> seteq A E).
Proof.
  intros Hp. unfold given_language_ok. rewrite <- (compare_words_none pick A E Hp).
  destruct (compare_words pick A E); split; try reflexivity; discriminate.
Qed.

Theorem check_language_from_file_spec (A1 A2 : list word) : check_language_from_file A1 A2 = true <-> seteq A1 A2.
Proof. apply lang_ok_spec. Qed.

(* ---- lifted to the objects: the answer / reference languages are those of the proved enumerators ---- *)
From GT Require Import Model.Regexp Proofs.EnumProofs Proofs.RegexpProofs.

(* the bounded language L of an object whose membership predicate is P *)
Definition bounded_lang (n : nat) (P : word -> Prop) (L : list word) : Prop := forall w, In w L <-> length w <= n /\ P w.

Lemma dfa_bounded {A} `{Eqb A} (D : dfa A) n L : dfa_wf D -> dfa_words D n = Some L ->
  bounded_lang n (fun w => Forall (fun a => In a (dS D)) w /\ dfa_lang D w) L.
Proof. intros Hwf HL. destruct (dfa_words_lang D n Hwf) as (L' & E & HL'). rewrite HL in E. inversion E; subst. exact HL'. Qed.
Lemma nfa_bounded {A} `{Eqb A} (N : nfa A) n L : nfa_wf N -> nfa_words N n = Some L ->
  bounded_lang n (fun w => Forall (fun a => In a (nS N)) w /\ nfa_lang N w) L.
Proof. intros Hwf HL. destruct (nfa_words_lang N n Hwf) as (L' & E & HL'). rewrite HL in E. inversion E; subst. exact HL'. Qed.
Lemma re_bounded (r : re) n : bounded_lang n (re_lang r) (re_words r n).
Proof. intro w. apply re_words_exact. Qed.

(* language from a reference file, any two kinds of objects: OK only if the two languages agree on every word <= n *)
Theorem from_file_sound (n : nat) (P1 P2 : word -> Prop) (L1 L2 : list word) :
  bounded_lang n P1 L1 -> bounded_lang n P2 L2 -> check_language_from_file L1 L2 = true ->
  forall w, length w <= n -> (P1 w <-> P2 w).
Proof.
  intros H1 H2 Hc w Hw. apply check_language_from_file_spec in Hc.
  split; intro Hp.
  - assert (In w L1) as Hi by (apply H1; auto). apply Hc in Hi. apply H2 in Hi. tauto.
  - assert (In w L2) as Hi by (apply H2; auto). apply Hc in Hi. apply H1 in Hi. tauto.
Qed.
(* and conversely the checker accepts whenever they agree (no spurious rejection) *)
Theorem from_file_complete (n : nat) (P1 P2 : word -> Prop) (L1 L2 : list word) :
  bounded_lang n P1 L1 -> bounded_lang n P2 L2 -> (forall w, length w <= n -> (P1 w <-> P2 w)) ->
  check_language_from_file L1 L2 = true.
Proof.
  intros H1 H2 Hq. apply check_language_from_file_spec. intro w. rewrite (H1 w), (H2 w).
  split; intros [Hl Hp]; (split; [exact Hl|]); apply (Hq w Hl); exact Hp.
Qed.

(* given language (word list): correct only if the word list is exactly the bounded language of the answer *)
Theorem given_language_sound (pick : picker word) (n : nat) (P : word -> Prop) (L words : list word) : picker_ok pick ->
  bounded_lang n P L -> given_language_ok pick L words = true -> forall w, In w words <-> length w <= n /\ P w.
Proof.
  intros Hp HL Hc w. apply (given_language_ok_spec pick L words Hp) in Hc. rewrite <- (HL w). symmetry. apply Hc.
Qed.

(* a counterexample reported by the from-file checkers (compare_languages) on the generated languages is a word <= n on
   which the two objects differ, with the stated polarity, and no shorter word is an extra word *)
Theorem from_file_feedback_extra (n : nat) (P1 P2 : word -> Prop) (L1 L2 : list word) (w : word) :
  bounded_lang n P1 L1 -> bounded_lang n P2 L2 -> compare_languages L1 L2 = Some (true, w) ->
  length w <= n /\ P1 w /\ ~ P2 w /\ forall v, length v <= n -> P1 v -> ~ P2 v -> length w <= length v.
Proof.
  intros H1 H2 Hc. destruct (compare_languages_extra L1 L2 Hc) as (Hi & Hn & Hmin).
  apply H1 in Hi. destruct Hi as [Hl Hp]. repeat split; auto.
  - intro Hq. apply Hn. apply H2. auto.
  - intros v Hv Hp1 Hp2. apply Hmin; [apply H1; auto|]. intro Hq. apply H2 in Hq. tauto.
Qed.
Theorem from_file_feedback_missing (n : nat) (P1 P2 : word -> Prop) (L1 L2 : list word) (w : word) :
  bounded_lang n P1 L1 -> bounded_lang n P2 L2 -> compare_languages L1 L2 = Some (false, w) ->
  length w <= n /\ P2 w /\ ~ P1 w /\ forall v, length v <= n -> P2 v -> ~ P1 v -> length w <= length v.
Proof.
  intros H1 H2 Hc. destruct (compare_languages_missing L1 L2 Hc) as (_ & Hi & Hn & Hmin).
  apply H2 in Hi. destruct Hi as [Hl Hp]. repeat split; auto.
  - intro Hq. apply Hn. apply H1. auto.
  - intros v Hv Hp1 Hp2. apply Hmin; [apply H2; auto|]. intro Hq. apply H1 in Hq. tauto.
Qed.
