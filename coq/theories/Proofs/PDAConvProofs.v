(* Proofs about the PDA normal forms (Model/PDAConv.v): to_one_accept, to_empty_stack, to_push_pop.
   Stdlib only, no axioms. *)
From GT Require Import Base.Prelude Model.NFA Model.PDA Model.CFG Model.PDAConv Proofs.WorklistProofs Proofs.PDAProofs.
Import ListNotations.

(* ------------------------------------------------------------------------------------------------ *)
(* transitions of an association list, d_add                                                         *)
(* ------------------------------------------------------------------------------------------------ *)

Definition dict := list ((nat * nat * nat) * list (nat * nat)).

Definition ent (k : nat * nat * nat) (tg : list (nat * nat)) : list trans :=
  map (fun qv => (fst (fst k), snd (fst k), snd k, fst qv, snd qv)) tg.

Definition trs (d : dict) : list trans := flat_map (fun e => ent (fst e) (snd e)) d.

Lemma transitions_trs P : transitions P = trs (pD P).
Proof.
  unfold transitions, trs. apply flat_map_ext. intros [[[p a] u] tg]. reflexivity.
Qed.

Lemma trs_app d1 d2 : trs (d1 ++ d2) = trs d1 ++ trs d2.
Proof. unfold trs. apply flat_map_app. Qed.

Lemma trs_cons k tg d : trs ((k, tg) :: d) = ent k tg ++ trs d.
Proof. reflexivity. Qed.

Lemma ent_In k tg t : In t (ent k tg) <-> exists x, In x tg /\ t = (fst (fst k), snd (fst k), snd k, fst x, snd x).
Proof.
  unfold ent. rewrite in_map_iff. split; intros (x & H1 & H2).
  - exists x. split; [exact H2 | symmetry; exact H1].
  - exists x. split; [symmetry; exact H2 | exact H1].
Qed.

Definition tr_of (k : nat * nat * nat) (x : nat * nat) : trans := (fst (fst k), snd (fst k), snd k, fst x, snd x).

Lemma trs_d_add k x d t : In t (trs (d_add k x d)) <-> In t (trs d) \/ t = tr_of k x.
Proof.
  unfold d_add. destruct (lookup k d) as [old|] eqn:El.
  - destruct (lookup_split _ _ El) as (m1 & m2 & Em & Hu). rewrite Hu, Em.
    rewrite !trs_app, !trs_cons, !in_app_iff, !ent_In. unfold tr_of. split.
    + intros [H|[(y & Hy & Ey)|H]].
      * left; left; exact H.
      * apply add_In in Hy. destruct Hy as [Hy|Hy].
        -- subst y. right. exact Ey.
        -- left. right. left. exists y. split; assumption.
      * left; right; right; exact H.
    + intros [[H|[(y & Hy & Ey)|H]]|H].
      * left; exact H.
      * right; left. exists y. split; [apply add_In; right; exact Hy | exact Ey].
      * right; right; exact H.
      * right; left. exists x. split; [apply add_In; left; reflexivity | exact H].
  - rewrite trs_app, in_app_iff. unfold trs at 2. cbn [flat_map fst snd]. rewrite app_nil_r, ent_In. unfold tr_of. split.
    + intros [H|(y & [Hy|[]] & Ey)]; [left; exact H | subst y; right; exact Ey].
    + intros [H|H]; [left; exact H | right; exists x; split; [left; reflexivity | exact H]].
Qed.

Lemma keys_d_add k x d k' : In k' (map fst (d_add k x d)) <-> In k' (map fst d) \/ k' = k.
Proof.
  unfold d_add. destruct (lookup k d) as [old|] eqn:El.
  - destruct (lookup_split _ _ El) as (m1 & m2 & Em & Hu). rewrite Hu, Em.
    rewrite !map_app. cbn [map fst]. rewrite !in_app_iff. cbn [In]. split.
    + intros [H|[H|H]]; [left; left; exact H | right; symmetry; exact H | left; right; right; exact H].
    + intros [[H|[H|H]]|H]; [left; exact H | right; left; exact H | right; right; exact H | right; left; symmetry; exact H].
  - rewrite map_app, in_app_iff. cbn [map fst In]. split.
    + intros [H|[H|[]]]; [left; exact H | right; symmetry; exact H].
    + intros [H|H]; [left; exact H | right; left; symmetry; exact H].
Qed.

(* every key has a transition: invariant of d_add *)
Definition keys_live (d : dict) : Prop :=
  forall k, In k (map fst d) -> exists x, In (tr_of k x) (trs d).

Lemma keys_live_d_add k x d : keys_live d -> keys_live (d_add k x d).
Proof.
  intros Hl k' Hk'. apply keys_d_add in Hk'. destruct Hk' as [Hk'|Hk'].
  - destruct (Hl k' Hk') as (y & Hy). exists y. apply trs_d_add. left. exact Hy.
  - subst k'. exists x. apply trs_d_add. right. reflexivity.
Qed.

(* folding d_add *)
Lemma trs_fold_d_add {X} (kf : X -> nat * nat * nat) (vf : X -> nat * nat) (l : list X) (d : dict) t :
  In t (trs (fold_left (fun d x => d_add (kf x) (vf x) d) l d)) <-> In t (trs d) \/ exists x, In x l /\ t = tr_of (kf x) (vf x).
Proof.
  apply (@fold_left_additive dict X trans (fun d x => d_add (kf x) (vf x) d) (fun d t => In t (trs d)) (fun x t => t = tr_of (kf x) (vf x))).
  intros s x t'. apply trs_d_add.
Qed.

Lemma keys_fold_d_add {X} (kf : X -> nat * nat * nat) (vf : X -> nat * nat) (l : list X) (d : dict) k :
  In k (map fst (fold_left (fun d x => d_add (kf x) (vf x) d) l d)) <-> In k (map fst d) \/ exists x, In x l /\ k = kf x.
Proof.
  apply (@fold_left_additive dict X _ (fun d x => d_add (kf x) (vf x) d) (fun d k => In k (map fst d)) (fun x k => k = kf x)).
  intros s x t'. apply keys_d_add.
Qed.

Lemma keys_live_fold_d_add {X} (kf : X -> nat * nat * nat) (vf : X -> nat * nat) (l : list X) : forall (d : dict),
  keys_live d -> keys_live (fold_left (fun d x => d_add (kf x) (vf x) d) l d).
Proof.
  induction l as [|x l IH]; intros d Hd; cbn [fold_left]; [exact Hd|].
  apply IH. apply keys_live_d_add. exact Hd.
Qed.

(* ------------------------------------------------------------------------------------------------ *)
(* moves                                                                                             *)
(* ------------------------------------------------------------------------------------------------ *)

Definition ostk (e x : nat) : list nat := if Nat.eqb x e then [] else [x].

Lemma moves_In P a q st q' st' :
  In (q', st') (moves P a (q, st)) <->
  exists u v s, In (q, a, u, q', v) (transitions P) /\ st = ostk (peps P) u ++ s /\ st' = ostk (peps P) v ++ s.
Proof.
  unfold moves. rewrite in_flat_map. cbn [fst snd]. split.
  - intros ([[[[p a1] u] q1] v] & Ht & Hc).
    destruct (Nat.eqb p q && Nat.eqb a1 a && can_pop_push P st u) eqn:Eb; [|destruct Hc].
    destruct Hc as [Hc|[]]. inversion Hc; subst q1 st'. clear Hc.
    apply andb_true_iff in Eb. destruct Eb as [Eb E3]. apply andb_true_iff in Eb. destruct Eb as [E1 E2].
    apply Nat.eqb_eq in E1. apply Nat.eqb_eq in E2. subst p a1.
    exists u, v. unfold can_pop_push in E3. unfold pop_push, ostk.
    destruct (Nat.eqb u (peps P)) eqn:Eu.
    + exists st. split; [exact Ht|]. split; [reflexivity|]. destruct (Nat.eqb v (peps P)); reflexivity.
    + cbn [orb] in E3. destruct st as [|x s]; [discriminate|]. apply Nat.eqb_eq in E3. subst x.
      exists s. split; [exact Ht|]. split; [reflexivity|]. cbn [tl]. destruct (Nat.eqb v (peps P)); reflexivity.
  - intros (u & v & s & Ht & Es & Es'). exists (q, a, u, q', v). split; [exact Ht|].
    rewrite !Nat.eqb_refl. cbn [andb]. subst st st'. unfold can_pop_push, pop_push, ostk.
    destruct (Nat.eqb u (peps P)) eqn:Eu; cbn [orb app tl].
    + left. destruct (Nat.eqb v (peps P)); reflexivity.
    + rewrite Nat.eqb_refl. left. destruct (Nat.eqb v (peps P)); reflexivity.
Qed.

Lemma moves_mono P P' a c c' : peps P' = peps P -> incl (transitions P) (transitions P') ->
  In c' (moves P a c) -> In c' (moves P' a c).
Proof.
  intros Ee Hi. destruct c as [q st], c' as [q' st']. rewrite !moves_In. rewrite Ee.
  intros (u & v & s & Ht & E1 & E2). exists u, v, s. split; [apply Hi; exact Ht | split; assumption].
Qed.

Lemma moves_frame P a q st q' st' fr : In (q', st') (moves P a (q, st)) -> In (q', st' ++ fr) (moves P a (q, st ++ fr)).
Proof.
  rewrite !moves_In. intros (u & v & s & Ht & E1 & E2). exists u, v, (s ++ fr).
  split; [exact Ht|]. subst st st'. rewrite !app_assoc. split; reflexivity.
Qed.

(* ------------------------------------------------------------------------------------------------ *)
(* pda_reach                                                                                         *)
(* ------------------------------------------------------------------------------------------------ *)

Lemma pda_reach_app P c u c1 v c2 : pda_reach P c u c1 -> pda_reach P c1 v c2 -> pda_reach P c (u ++ v) c2.
Proof.
  intros H1 H2. induction H1 as [c|c c0 w c1 Hm Hr IH|c a c0 w c1 Ha Hm Hr IH]; cbn [app].
  - exact H2.
  - apply pr_eps with c0; [exact Hm | apply IH; exact H2].
  - apply pr_sym with c0; [exact Ha | exact Hm | apply IH; exact H2].
Qed.

Lemma pda_reach_snoc_eps P c w c1 c2 : pda_reach P c w c1 -> In c2 (moves P (peps P) c1) -> pda_reach P c w c2.
Proof.
  intros H1 Hm. rewrite <- (app_nil_r w). apply pda_reach_app with c1; [exact H1|].
  apply pr_eps with c2; [exact Hm | apply pr_refl].
Qed.

Lemma pda_reach_snoc_sym P c w c1 a c2 : pda_reach P c w c1 -> a <> peps P -> In c2 (moves P a c1) -> pda_reach P c (w ++ [a]) c2.
Proof.
  intros H1 Ha Hm. apply pda_reach_app with c1; [exact H1|].
  apply pr_sym with c2; [exact Ha | exact Hm | apply pr_refl].
Qed.

(* a move on the letter a, where a may be epsilon: the word read is [ostk eps a] *)

Lemma pda_reach_snoc P c w c1 a c2 : pda_reach P c w c1 -> In c2 (moves P a c1) -> pda_reach P c (w ++ ostk (peps P) a) c2.
Proof.
  intros H1 Hm. unfold ostk. destruct (Nat.eqb a (peps P)) eqn:Ea.
  - apply Nat.eqb_eq in Ea. subst a. rewrite app_nil_r. apply pda_reach_snoc_eps with c1; assumption.
  - apply Nat.eqb_neq in Ea. apply pda_reach_snoc_sym with c1; assumption.
Qed.

(* induction from the right, from a fixed start configuration *)
Lemma pda_reach_ind_r (P : pda) (c0 : config) (R : word -> config -> Prop) :
  R [] c0 ->
  (forall w c a c', pda_reach P c0 w c -> R w c -> In c' (moves P a c) -> R (w ++ ostk (peps P) a) c') ->
  forall w c, pda_reach P c0 w c -> R w c.
Proof.
  intros H0 Hstep.
  assert (Hg : forall c w c', pda_reach P c w c' -> forall w0, pda_reach P c0 w0 c -> R w0 c -> R (w0 ++ w) c').
  { intros c w c' Hr. induction Hr as [c|c c1 w c2 Hm Hr IH|c a c1 w c2 Ha Hm Hr IH]; intros w0 Hr0 HR.
    - rewrite app_nil_r. exact HR.
    - assert (HR1 := Hstep w0 c (peps P) c1 Hr0 HR Hm). unfold ostk in HR1. rewrite Nat.eqb_refl, app_nil_r in HR1.
      apply IH; [apply pda_reach_snoc_eps with c; assumption | exact HR1].
    - assert (HR1 := Hstep w0 c a c1 Hr0 HR Hm). unfold ostk in HR1.
      apply Nat.eqb_neq in Ha. rewrite Ha in HR1. apply Nat.eqb_neq in Ha.
      replace (w0 ++ a :: w) with ((w0 ++ [a]) ++ w) by (rewrite <- app_assoc; reflexivity).
      apply IH; [apply pda_reach_snoc_sym with c; assumption | exact HR1]. }
  intros w c Hr. apply (Hg c0 w c Hr [] (pr_refl P c0) H0).
Qed.

Lemma pda_reach_mono P P' c w c' : peps P' = peps P -> incl (transitions P) (transitions P') ->
  pda_reach P c w c' -> pda_reach P' c w c'.
Proof.
  intros Ee Hi Hr. induction Hr as [c|c c1 w c2 Hm Hr IH|c a c1 w c2 Ha Hm Hr IH].
  - apply pr_refl.
  - apply pr_eps with c1; [rewrite Ee; apply (moves_mono P P'); assumption | exact IH].
  - apply pr_sym with c1; [rewrite Ee; exact Ha | apply (moves_mono P P'); assumption | exact IH].
Qed.

Lemma pda_reach_frame P q st w q' st' fr : pda_reach P (q, st) w (q', st') -> pda_reach P (q, st ++ fr) w (q', st' ++ fr).
Proof.
  intros Hr. remember (q, st) as c eqn:Ec. remember (q', st') as c' eqn:Ec'. revert q st Ec.
  induction Hr as [c|c c1 w c2 Hm Hr IH|c a c1 w c2 Ha Hm Hr IH]; intros q st Ec; subst.
  - inversion Ec; subst. apply pr_refl.
  - destruct c1 as [q1 st1]. apply pr_eps with (q1, st1 ++ fr); [apply moves_frame; exact Hm | apply IH; reflexivity].
  - destruct c1 as [q1 st1]. apply pr_sym with (q1, st1 ++ fr); [exact Ha | apply moves_frame; exact Hm | apply IH; reflexivity].
Qed.

(* a state without outgoing transitions is stuck *)
Lemma pda_reach_stuck P q st w c : (forall a u q' v, ~ In (q, a, u, q', v) (transitions P)) ->
  pda_reach P (q, st) w c -> w = [] /\ c = (q, st).
Proof.
  intros Hn Hr. inversion Hr as [c0|c0 c1 w0 c2 Hm Hr1|c0 a c1 w0 c2 Ha Hm Hr1]; subst.
  - split; reflexivity.
  - destruct c1 as [q1 st1]. apply moves_In in Hm. destruct Hm as (u & v & s & Ht & _). destruct (Hn _ _ _ _ Ht).
  - destruct c1 as [q1 st1]. apply moves_In in Hm. destruct Hm as (u & v & s & Ht & _). destruct (Hn _ _ _ _ Ht).
Qed.

(* ------------------------------------------------------------------------------------------------ *)
(* well-formedness as a proposition                                                                  *)
(* ------------------------------------------------------------------------------------------------ *)

Definition tr_ok (Q Sg Gm : list nat) (e : nat) (t : trans) : Prop :=
  let '(p, a, u, q, v) := t in
  In p Q /\ (In a Sg \/ a = e) /\ (In u Gm \/ u = e) /\ In q Q /\ (In v Gm \/ v = e).
Definition key_ok (Q Sg Gm : list nat) (e : nat) (k : nat * nat * nat) : Prop :=
  let '(p, a, u) := k in In p Q /\ (In a Sg \/ a = e) /\ (In u Gm \/ u = e).

Lemma pda_wf_iff P : pda_wf P <->
  In (pq0 P) (pQ P) /\ ~ In (peps P) (pSg P) /\ ~ In (peps P) (pGm P) /\ incl (pF P) (pQ P) /\
  (forall t, In t (transitions P) -> tr_ok (pQ P) (pSg P) (pGm P) (peps P) t) /\
  (forall k, In k (map fst (pD P)) -> key_ok (pQ P) (pSg P) (pGm P) (peps P) k).
Proof.
  unfold pda_wf, pda_wf_b. rewrite !andb_true_iff, !negb_true_iff, mem_In, !mem_nIn, subsetb_incl, !forallb_forall.
  assert (Hor : forall x X, mem x X || Nat.eqb x (peps P) = true <-> In x X \/ x = peps P).
  { intros x X. rewrite orb_true_iff, mem_In, Nat.eqb_eq. tauto. }
  split.
  - intros [[[[[H1 H2] H3] H4] H5] H6]. repeat split; try assumption.
    + intros [[[[p a] u] q] v] Ht. specialize (H5 _ Ht). cbn beta iota in H5.
      rewrite !andb_true_iff, !Hor, !mem_In in H5. unfold tr_ok. tauto.
    + intros [[p a] u] Hk. apply in_map_iff in Hk. destruct Hk as ([k tg] & Ek & Hk). cbn [fst] in Ek. subst k.
      specialize (H6 _ Hk). cbn beta iota in H6. rewrite !andb_true_iff, !Hor, !mem_In in H6. unfold key_ok. tauto.
  - intros (H1 & H2 & H3 & H4 & H5 & H6). repeat split; try assumption.
    + intros [[[[p a] u] q] v] Ht. specialize (H5 _ Ht). unfold tr_ok in H5.
      rewrite !andb_true_iff, !Hor, !mem_In. tauto.
    + intros [[[p a] u] tg] Hk. assert (Hk' : In (p, a, u) (map fst (pD P))) by (apply in_map_iff; exists (p, a, u, tg); auto).
      specialize (H6 _ Hk'). unfold key_ok in H6. rewrite !andb_true_iff, !Hor, !mem_In. tauto.
Qed.

Lemma tr_ok_mono Q Sg Gm e Q' Gm' t : incl Q Q' -> incl Gm Gm' -> tr_ok Q Sg Gm e t -> tr_ok Q' Sg Gm' e t.
Proof.
  intros HQ HG. destruct t as [[[[p a] u] q] v]. unfold tr_ok. intros (H1 & H2 & H3 & H4 & H5).
  repeat split; auto; [destruct H3; auto | destruct H5; auto].
Qed.

Lemma tr_ok_key Q Sg Gm e k x : tr_ok Q Sg Gm e (tr_of k x) -> key_ok Q Sg Gm e k.
Proof. destruct k as [[p a] u]. unfold tr_of, tr_ok, key_ok. cbn [fst snd]. tauto. Qed.

Lemma keys_live_ok Q Sg Gm e d : keys_live d -> (forall t, In t (trs d) -> tr_ok Q Sg Gm e t) ->
  forall k, In k (map fst d) -> key_ok Q Sg Gm e k.
Proof.
  intros Hl Ht k Hk. destruct (Hl k Hk) as (x & Hx). apply tr_ok_key with x. apply Ht. exact Hx.
Qed.


Lemma take1_spec used s x rest : take1 used s = Some (x, rest) -> s = x :: rest /\ ~ In x used.
Proof.
  unfold take1. destruct s as [|y s']; [discriminate|]. destruct (mem y used) eqn:Em; [discriminate|].
  intros E. inversion E; subst. split; [reflexivity | apply mem_nIn; exact Em].
Qed.

(* ------------------------------------------------------------------------------------------------ *)
(* one accepting state                                                                               *)
(* ------------------------------------------------------------------------------------------------ *)

Section OneAccept.
  Variable P : pda.
  Variable qa : nat.
  Hypothesis Hwf : pda_wf P.
  Hypothesis Hqa : ~ In qa (pQ P).

  Let e := peps P.
  Definition one_accept_pda : pda :=
    mkPDA (pQ P ++ [qa]) (pSg P) (pGm P)
          (fold_left (fun d q => d_add (q, e, e) (qa, e) d) (dedup (pF P)) (pD P))
          (pq0 P) [qa] e.
  Let P' := one_accept_pda.

  Lemma one_accept_trans t : In t (transitions P') <-> In t (transitions P) \/ exists q, In q (pF P) /\ t = (q, e, e, qa, e).
  Proof.
    rewrite !transitions_trs. unfold P', one_accept_pda. cbn [pD].
    rewrite (trs_fold_d_add (fun q => (q, e, e)) (fun _ => (qa, e))). unfold tr_of. cbn [fst snd].
    split; (intros [H|(q & Hq & Et)]; [left; exact H | right; exists q; split; [|exact Et]]).
    - apply (proj1 (dedup_In _ _)) in Hq. exact Hq.
    - apply dedup_In. exact Hq.
  Qed.

  Lemma one_accept_keys k : In k (map fst (pD P')) <-> In k (map fst (pD P)) \/ exists q, In q (pF P) /\ k = (q, e, e).
  Proof.
    unfold P', one_accept_pda. cbn [pD].
    rewrite (keys_fold_d_add (fun q => (q, e, e)) (fun _ => (qa, e))).
    split; (intros [H|(q & Hq & Et)]; [left; exact H | right; exists q; split; [|exact Et]]).
    - apply (proj1 (dedup_In _ _)) in Hq. exact Hq.
    - apply dedup_In. exact Hq.
  Qed.

  Lemma one_accept_wf : pda_wf P'.
  Proof.
    apply pda_wf_iff in Hwf. destruct Hwf as (W1 & W2 & W3 & W4 & W5 & W6).
    apply pda_wf_iff. unfold P' at 1 2 3 4 5 6 7 8 9 10 11 12 13 14. unfold one_accept_pda at 1 2 3 4 5 6 7 8 9 10 11 12 13 14.
    cbn [pQ pSg pGm pq0 pF peps].
    assert (HQ : incl (pQ P) (pQ P ++ [qa])) by (intros x Hx; apply in_or_app; left; exact Hx).
    split; [apply HQ; exact W1|]. split; [exact W2|]. split; [exact W3|]. split.
    { intros x [Hx|[]]. subst x. apply in_or_app. right. left. reflexivity. }
    split.
    - intros t Ht. apply one_accept_trans in Ht. destruct Ht as [Ht|(q & Hq & Et)].
      + apply tr_ok_mono with (pQ P) (pGm P); [exact HQ | apply incl_refl | apply W5; exact Ht].
      + subst t. unfold tr_ok. fold e. repeat split; auto. apply in_or_app. right. left. reflexivity.
    - intros k Hk. apply one_accept_keys in Hk. destruct Hk as [Hk|(q & Hq & Ek)].
      + specialize (W6 k Hk). destruct k as [[p a] u]. unfold key_ok in *. destruct W6 as (K1 & K2 & K3). auto.
      + subst k. unfold key_ok. fold e. auto.
  Qed.

  Lemma one_accept_incl : incl (transitions P) (transitions P').
  Proof. intros t Ht. apply one_accept_trans. left. exact Ht. Qed.

  Lemma one_accept_qa_stuck a u q' v : ~ In (qa, a, u, q', v) (transitions P').
  Proof.
    apply pda_wf_iff in Hwf. destruct Hwf as (W1 & W2 & W3 & W4 & W5 & W6).
    intros Ht. apply one_accept_trans in Ht. destruct Ht as [Ht|(q & Hq & Et)].
    - apply W5 in Ht. unfold tr_ok in Ht. apply Hqa. tauto.
    - inversion Et; subst q. apply Hqa. apply W4. exact Hq.
  Qed.

  Lemma one_accept_sim c w c' : pda_reach P' c w c' -> In (fst c) (pQ P) ->
    (In (fst c') (pQ P) /\ pda_reach P c w c') \/
    (fst c' = qa /\ exists qf, In qf (pF P) /\ pda_reach P c w (qf, snd c')).
  Proof.
    assert (Hwf' := Hwf). apply pda_wf_iff in Hwf'. destruct Hwf' as (W1 & W2 & W3 & W4 & W5 & W6).
    assert (Hstep : forall a c c1, In (fst c) (pQ P) -> In c1 (moves P' a c) ->
              (In (fst c1) (pQ P) /\ In c1 (moves P a c)) \/ (a = e /\ In (fst c) (pF P) /\ c1 = (qa, snd c))).
    { intros a [q st] [q1 st1] Hq Hm. cbn [fst snd] in *. apply moves_In in Hm.
      destruct Hm as (u & v & s & Ht & E1 & E2). apply one_accept_trans in Ht. destruct Ht as [Ht|(qf & Hqf & Et)].
      - left. split; [apply W5 in Ht; unfold tr_ok in Ht; tauto|].
        apply moves_In. exists u, v, s. auto.
      - right. inversion Et; subst. unfold P', one_accept_pda, ostk. cbn [peps]. fold e. rewrite Nat.eqb_refl. auto. }
    intros Hr. induction Hr as [c|c c1 w c2 Hm Hr IH|c a c1 w c2 Ha Hm Hr IH]; intros Hc.
    - left. split; [exact Hc | apply pr_refl].
    - destruct (Hstep _ _ _ Hc Hm) as [[Hq1 Hm1]|(_ & Hf & E1)].
      + destruct (IH Hq1) as [[Hq2 Hr2]|(Eq2 & qf & Hqf & Hr2)].
        * left. split; [exact Hq2 | apply pr_eps with c1; assumption].
        * right. split; [exact Eq2|]. exists qf. split; [exact Hqf | apply pr_eps with c1; assumption].
      + subst c1. apply pda_reach_stuck in Hr; [|intros; apply one_accept_qa_stuck].
        destruct Hr as [Ew Ec2]. subst w c2. right. cbn [fst snd]. split; [reflexivity|].
        exists (fst c). split; [exact Hf|]. destruct c; apply pr_refl.
    - destruct (Hstep _ _ _ Hc Hm) as [[Hq1 Hm1]|(Ea & _)].
      + destruct (IH Hq1) as [[Hq2 Hr2]|(Eq2 & qf & Hqf & Hr2)].
        * left. split; [exact Hq2 | apply pr_sym with c1; assumption].
        * right. split; [exact Eq2|]. exists qf. split; [exact Hqf | apply pr_sym with c1; assumption].
      + exfalso. apply Ha. exact Ea.
  Qed.

  Lemma one_accept_lang w : pda_lang P' w <-> pda_lang P w.
  Proof.
    assert (Hwf' := Hwf). apply pda_wf_iff in Hwf'. destruct Hwf' as (W1 & W2 & W3 & W4 & W5 & W6).
    unfold pda_lang. split.
    - intros (q & st & Hq & Hr). destruct Hq as [Hq|[]]. subst q.
      apply one_accept_sim in Hr; [|exact W1]. cbn [fst snd] in Hr.
      destruct Hr as [[Hq _]|(_ & qf & Hqf & Hr)]; [contradiction|].
      exists qf, st. split; assumption.
    - intros (q & st & Hq & Hr). exists qa, st. split; [left; reflexivity|].
      apply pda_reach_snoc_eps with (q, st).
      + apply (pda_reach_mono P P'); [reflexivity | exact one_accept_incl | exact Hr].
      + apply moves_In. exists e, e, st. split; [apply one_accept_trans; right; exists q; auto|].
        unfold P', one_accept_pda, ostk. cbn [peps]. fold e. rewrite Nat.eqb_refl. auto.
  Qed.
End OneAccept.

Lemma to_one_accept_cases states P P' rest : to_one_accept states P = Some (P', rest) ->
  (P' = P /\ rest = states /\ length (dedup (pF P)) = 1) \/
  (exists qa, states = qa :: rest /\ ~ In qa (pQ P) /\ P' = one_accept_pda P qa).
Proof.
  unfold to_one_accept. destruct (Nat.eqb (length (dedup (pF P))) 1) eqn:El.
  - apply Nat.eqb_eq in El. intros E. inversion E; subst. left. auto.
  - destruct (take1 (pQ P) states) as [[qa r]|] eqn:Et; [|discriminate].
    apply take1_spec in Et. destruct Et as [Es Hn]. intros E. inversion E; subst. right. exists qa. auto.
Qed.

Theorem to_one_accept_correct states P P' rest : pda_wf P -> to_one_accept states P = Some (P', rest) ->
  pda_wf P' /\ length (dedup (pF P')) = 1 /\ pSg P' = pSg P /\ pGm P' = pGm P /\ peps P' = peps P /\ pq0 P' = pq0 P /\
  (forall w, pda_lang P' w <-> pda_lang P w).
Proof.
  intros Hwf E. apply to_one_accept_cases in E. destruct E as [(-> & _ & Hl)|(qa & _ & Hn & ->)].
  - repeat split; auto.
  - split; [apply one_accept_wf; assumption|]. split; [reflexivity|].
    repeat (split; [reflexivity|]). apply one_accept_lang; assumption.
Qed.

(* the automaton is unchanged exactly when it already has one accepting state; the states only grow *)
Lemma to_one_accept_Q states P P' rest : to_one_accept states P = Some (P', rest) -> incl (pQ P) (pQ P').
Proof.
  intros E. apply to_one_accept_cases in E. destruct E as [(-> & _ & Hl)|(qa & _ & Hn & ->)].
  - apply incl_refl.
  - intros x Hx. cbn [one_accept_pda pQ]. apply in_or_app. left. exact Hx.
Qed.

(* ------------------------------------------------------------------------------------------------ *)
(* extension of a dictionary by d_add: old transitions stay, every new key carries a transition       *)
(* ------------------------------------------------------------------------------------------------ *)

Definition dext (d0 d : dict) : Prop :=
  (forall t, In t (trs d0) -> In t (trs d)) /\
  (forall k, In k (map fst d) -> In k (map fst d0) \/ exists x, In (tr_of k x) (trs d)).

Lemma dext_refl d : dext d d.
Proof. split; [auto | intros k Hk; left; exact Hk]. Qed.

Lemma dext_d_add d0 d k x : dext d0 d -> dext d0 (d_add k x d).
Proof.
  intros [H1 H2]. split.
  - intros t Ht. apply trs_d_add. left. apply H1. exact Ht.
  - intros k' Hk'. apply keys_d_add in Hk'. destruct Hk' as [Hk'|Hk'].
    + destruct (H2 k' Hk') as [H|(y & Hy)]; [left; exact H|]. right. exists y. apply trs_d_add. left. exact Hy.
    + subst k'. right. exists x. apply trs_d_add. right. reflexivity.
Qed.

Lemma dext_fold {X} (f : dict -> X -> dict) d0 : (forall d x, dext d0 d -> dext d0 (f d x)) ->
  forall l d, dext d0 d -> dext d0 (fold_left f l d).
Proof.
  intros Hf. induction l as [|x l IH]; intros d Hd; cbn [fold_left]; [exact Hd|]. apply IH. apply Hf. exact Hd.
Qed.

Lemma dext_keys_ok Q Sg Gm e d0 d : dext d0 d ->
  (forall k, In k (map fst d0) -> key_ok Q Sg Gm e k) -> (forall t, In t (trs d) -> tr_ok Q Sg Gm e t) ->
  forall k, In k (map fst d) -> key_ok Q Sg Gm e k.
Proof.
  intros [_ H2] Hk0 Ht k Hk. destruct (H2 k Hk) as [H|(x & Hx)]; [apply Hk0; exact H|].
  apply tr_ok_key with x. apply Ht. exact Hx.
Qed.

Lemma key_ok_mono Q Sg Gm e Q' Gm' k : incl Q Q' -> incl Gm Gm' -> key_ok Q Sg Gm e k -> key_ok Q' Sg Gm' e k.
Proof.
  intros HQ HG. destruct k as [[p a] u]. unfold key_ok. intros (H1 & H2 & H3).
  repeat split; auto. destruct H3; auto.
Qed.

(* stacks of reachable configurations are over Gamma *)
Lemma pda_reach_inv_QGm P w c : pda_wf P -> pda_reach P (pq0 P, []) w c ->
  In (fst c) (pQ P) /\ Forall (fun x => In x (pGm P)) (snd c).
Proof.
  intros Hwf. apply pda_wf_iff in Hwf. destruct Hwf as (W1 & W2 & W3 & W4 & W5 & W6).
  revert w c. apply pda_reach_ind_r.
  - cbn [fst snd]. split; [exact W1 | constructor].
  - intros w [q st] a [q' st'] _ [HQ HS] Hm. cbn [fst snd] in *.
    apply moves_In in Hm. destruct Hm as (u & v & s & Ht & E1 & E2). apply W5 in Ht. unfold tr_ok in Ht.
    destruct Ht as (_ & _ & _ & Hq' & Hv). split; [exact Hq'|]. subst st st'.
    apply Forall_app in HS. destruct HS as [_ HS]. apply Forall_app. split; [|exact HS].
    unfold ostk. destruct (Nat.eqb v (peps P)) eqn:Ev; [constructor|]. apply Nat.eqb_neq in Ev.
    destruct Hv as [Hv|Hv]; [|contradiction]. constructor; [exact Hv | constructor].
Qed.

Lemma app_last_cons {A} (st0 : list A) b x s : st0 ++ [b] = x :: s ->
  (st0 = [] /\ x = b /\ s = []) \/ exists st1, st0 = x :: st1 /\ s = st1 ++ [b].
Proof.
  destruct st0 as [|y st1]; cbn [app]; intros E; inversion E; subst.
  - left. auto.
  - right. exists st1. auto.
Qed.

Lemma ppt_push P p a q v : v <> peps P -> is_push_pop_t P (p, a, peps P, q, v) = true.
Proof.
  intros Hv. unfold is_push_pop_t. apply Nat.eqb_neq in Hv. rewrite Hv, Nat.eqb_refl. reflexivity.
Qed.
Lemma ppt_pop P p a u q : u <> peps P -> is_push_pop_t P (p, a, u, q, peps P) = true.
Proof.
  intros Hu. unfold is_push_pop_t. apply Nat.eqb_neq in Hu. rewrite Hu, Nat.eqb_refl. reflexivity.
Qed.

(* ------------------------------------------------------------------------------------------------ *)
(* accept on empty stack                                                                             *)
(* ------------------------------------------------------------------------------------------------ *)

Section EmptyStack.
  Variable P : pda.
  Variables bottom qi qd qa : nat.
  Hypothesis Hwf : pda_wf P.
  Hypothesis Hb1 : ~ In bottom (pGm P).
  Hypothesis Hb2 : bottom <> peps P.
  Hypothesis Hqi : ~ In qi (pQ P).
  Hypothesis Hqd : ~ In qd (pQ P ++ [qi]).
  Hypothesis Hqa : ~ In qa (pQ P ++ [qi; qd]).

  Definition empty_stack_dict : dict :=
    let e := peps P in
    let d0 := d_add (qi, e, e) (pq0 P, bottom) (pD P) in
    let d1 := fold_left (fun d q =>
                fold_left (fun d X => d_add (q, e, X) (qd, e) d) (pGm P) (d_add (q, e, bottom) (qa, e) d)) (dedup (pF P)) d0 in
    let d2 := fold_left (fun d X => d_add (qd, e, X) (qd, e) d) (pGm P) d1 in
    d_add (qd, e, bottom) (qa, e) d2.
  Definition empty_stack_pda : pda :=
    mkPDA (pQ P ++ [qi; qd; qa]) (pSg P) (pGm P ++ [bottom]) empty_stack_dict qi [qa] (peps P).
  Let P' := empty_stack_pda.

  Definition es_new (t : trans) : Prop :=
    let e := peps P in
    t = (qi, e, e, pq0 P, bottom) \/
    (exists q, In q (pF P) /\ t = (q, e, bottom, qa, e)) \/
    (exists q X, In q (pF P) /\ In X (pGm P) /\ t = (q, e, X, qd, e)) \/
    (exists X, In X (pGm P) /\ t = (qd, e, X, qd, e)) \/
    t = (qd, e, bottom, qa, e).

  Lemma empty_stack_trans t : In t (transitions P') <-> In t (transitions P) \/ es_new t.
  Proof.
    rewrite !transitions_trs. unfold P', empty_stack_pda, empty_stack_dict. cbn [pD].
    rewrite trs_d_add.
    rewrite (trs_fold_d_add (fun X => (qd, peps P, X)) (fun _ => (qd, peps P))).
    rewrite (@fold_left_additive dict nat trans _ (fun d t => In t (trs d))
               (fun q t => t = (q, peps P, bottom, qa, peps P) \/ exists X, In X (pGm P) /\ t = (q, peps P, X, qd, peps P))).
    2:{ intros s q t'. rewrite (trs_fold_d_add (fun X => (q, peps P, X)) (fun _ => (qd, peps P))), trs_d_add.
        unfold tr_of. cbn [fst snd]. split.
        - intros [[H|H]|H]; [left; exact H | right; left; exact H | right; right; exact H].
        - intros [H|[H|H]]; [left; left; exact H | left; right; exact H | right; exact H]. }
    rewrite trs_d_add. unfold tr_of, es_new. cbn [fst snd]. split.
    - intros [[[[H|H]|(q & Hq & [H|(X & HX & H)])]|(X & HX & H)]|H].
      + left; exact H.
      + right; left; exact H.
      + right; right; left. exists q. split; [apply (proj1 (dedup_In _ _)); exact Hq | exact H].
      + right; right; right; left. exists q, X. split; [apply (proj1 (dedup_In _ _)); exact Hq | split; assumption].
      + right; right; right; right; left. exists X. split; assumption.
      + right; right; right; right; right. exact H.
    - intros [H|[H|[(q & Hq & H)|[(q & X & Hq & HX & H)|[(X & HX & H)|H]]]]].
      + left; left; left; left; exact H.
      + left; left; left; right; exact H.
      + left; left; right. exists q. split; [apply dedup_In; exact Hq | left; exact H].
      + left; left; right. exists q. split; [apply dedup_In; exact Hq | right; exists X; split; assumption].
      + left; right. exists X. split; assumption.
      + right. exact H.
  Qed.

  Lemma empty_stack_dext : dext (pD P) (pD P').
  Proof.
    unfold P', empty_stack_pda, empty_stack_dict. cbn [pD].
    apply dext_d_add. apply dext_fold; [intros d x Hd; apply dext_d_add; exact Hd|].
    apply dext_fold.
    - intros d q Hd. apply dext_fold; [intros d' x Hd'; apply dext_d_add; exact Hd'|]. apply dext_d_add. exact Hd.
    - apply dext_d_add. apply dext_refl.
  Qed.

  Lemma es_distinct : ~ In qi (pQ P) /\ ~ In qd (pQ P) /\ ~ In qa (pQ P) /\ qd <> qi /\ qa <> qi /\ qa <> qd.
  Proof.
    rewrite in_app_iff in Hqd, Hqa. cbn [In] in Hqd, Hqa.
    split; [exact Hqi|]. split; [intros H; apply Hqd; left; exact H|]. split; [intros H; apply Hqa; left; exact H|].
    split; [intros Heq; apply Hqd; right; left; symmetry; exact Heq|].
    split; [intros Heq; apply Hqa; right; left; symmetry; exact Heq|].
    intros Heq; apply Hqa; right; right; left; symmetry; exact Heq.
  Qed.

  Lemma es_Q' : incl (pQ P) (pQ P') /\ In qi (pQ P') /\ In qd (pQ P') /\ In qa (pQ P').
  Proof.
    unfold P', empty_stack_pda. cbn [pQ]. split; [intros x Hx; apply in_or_app; left; exact Hx|].
    repeat split; apply in_or_app; right; cbn [In]; tauto.
  Qed.

  Lemma es_Gm' : incl (pGm P) (pGm P') /\ In bottom (pGm P').
  Proof.
    unfold P', empty_stack_pda. cbn [pGm]. split; [intros x Hx; apply in_or_app; left; exact Hx|].
    apply in_or_app; right; cbn [In]; tauto.
  Qed.

  Lemma empty_stack_wf : pda_wf P'.
  Proof.
    assert (Hwf' := Hwf). apply pda_wf_iff in Hwf'. destruct Hwf' as (W1 & W2 & W3 & W4 & W5 & W6).
    destruct es_Q' as (Q1 & Q2 & Q3 & Q4). destruct es_Gm' as (G1 & G2).
    apply pda_wf_iff.
    assert (Htr : forall t, In t (transitions P') -> tr_ok (pQ P') (pSg P') (pGm P') (peps P') t).
    { intros t Ht. apply empty_stack_trans in Ht. destruct Ht as [Ht|Ht].
      - apply tr_ok_mono with (pQ P) (pGm P); [exact Q1 | exact G1 | apply W5; exact Ht].
      - unfold es_new in Ht. cbn zeta in Ht.
        destruct Ht as [H|[(q & Hq & H)|[(q & X & Hq & HX & H)|[(X & HX & H)|H]]]]; subst t; unfold tr_ok;
          change (peps P') with (peps P); change (pSg P') with (pSg P); repeat split; auto. }
    split; [exact Q2|]. split; [exact W2|]. split.
    { unfold P', empty_stack_pda. cbn [pGm peps]. rewrite in_app_iff. cbn [In]. intros [H|[H|[]]]; [contradiction|].
      apply Hb2. exact H. }
    split. { intros x [Hx|[]]. subst x. exact Q4. }
    split; [exact Htr|].
    apply dext_keys_ok with (pD P); [exact empty_stack_dext| |rewrite <- transitions_trs; exact Htr].
    intros k Hk. apply key_ok_mono with (pQ P) (pGm P); [exact Q1 | exact G1 | apply W6; exact Hk].
  Qed.

  Lemma empty_stack_incl : incl (transitions P) (transitions P').
  Proof. intros t Ht. apply empty_stack_trans. left. exact Ht. Qed.

  (* invariant of the configurations reachable from the new initial configuration *)
  Definition es_inv (w : word) (c : config) : Prop :=
    (fst c = qi /\ snd c = [] /\ w = []) \/
    (In (fst c) (pQ P) /\ exists st', snd c = st' ++ [bottom] /\ pda_reach P (pq0 P, []) w (fst c, st')) \/
    (fst c = qd /\ exists st', snd c = st' ++ [bottom] /\ Forall (fun x => In x (pGm P)) st' /\
        exists qf st'', In qf (pF P) /\ pda_reach P (pq0 P, []) w (qf, st'')) \/
    (fst c = qa /\ snd c = [] /\ exists qf st'', In qf (pF P) /\ pda_reach P (pq0 P, []) w (qf, st'')).

  Lemma ostk_eps e : ostk e e = [].
  Proof. unfold ostk. rewrite Nat.eqb_refl. reflexivity. Qed.
  Lemma ostk_neq e x : x <> e -> ostk e x = [x].
  Proof. intros Hn. unfold ostk. apply Nat.eqb_neq in Hn. rewrite Hn. reflexivity. Qed.

  Lemma Gm_not_eps X : In X (pGm P) -> X <> peps P.
  Proof.
    apply pda_wf_iff in Hwf. destruct Hwf as (W1 & W2 & W3 & W4 & W5 & W6). intros HX Heq. subst X. contradiction.
  Qed.

  Lemma empty_stack_inv w c : pda_reach P' (qi, []) w c -> es_inv w c.
  Proof.
    assert (Hwf' := Hwf). apply pda_wf_iff in Hwf'. destruct Hwf' as (W1 & W2 & W3 & W4 & W5 & W6).
    destruct es_distinct as (D1 & D2 & D3 & D4 & D5 & D6).
    revert w c. apply pda_reach_ind_r.
    - left. auto.
    - intros w [q st] a [q' st'] _ HR Hm. change (peps P') with (peps P).
      apply moves_In in Hm. change (peps P') with (peps P) in Hm.
      destruct Hm as (u & v & s & Ht & E1 & E2). apply empty_stack_trans in Ht.
      unfold es_inv in HR. cbn [fst snd] in HR. unfold es_inv. cbn [fst snd].
      destruct Ht as [Ht|Ht].
      + (* a move of P *)
        assert (Hok := W5 _ Ht). unfold tr_ok in Hok. destruct Hok as (Hq & _ & Hu & Hq' & _).
        destruct HR as [(Eq & _)|[(_ & st0 & Est & Hr)|[(Eq & _)|(Eq & _)]]]; try (subst q; contradiction).
        right; left. split; [exact Hq'|].
        assert (Hs : exists s0, s = s0 ++ [bottom] /\ st0 = ostk (peps P) u ++ s0).
        { unfold ostk in *. destruct (Nat.eqb u (peps P)) eqn:Eu.
          - exists st0. cbn [app] in E1. subst st. auto.
          - apply Nat.eqb_neq in Eu. destruct Hu as [Hu|Hu]; [|contradiction].
            cbn [app] in E1. rewrite Est in E1. apply app_last_cons in E1.
            destruct E1 as [(_ & Eb & _)|(st1 & E0 & Es)]; [subst u; contradiction|].
            exists st1. cbn [app]. auto. }
        destruct Hs as (s0 & Es & Est0). exists (ostk (peps P) v ++ s0).
        split; [subst st' s; rewrite app_assoc; reflexivity|].
        apply pda_reach_snoc with (q, st0); [exact Hr|]. apply moves_In. exists u, v, s0. auto.
      + unfold es_new in Ht. cbn zeta in Ht.
        destruct Ht as [H|[(qf & Hqf & H)|[(qf & X & Hqf & HX & H)|[(X & HX & H)|H]]]]; injection H as -> -> -> -> ->; subst st';
          rewrite ?ostk_eps in *; rewrite app_nil_r; rewrite ?ostk_eps in *; cbn [app] in *.
        * (* qi -> q0, push bottom *)
          destruct HR as [(_ & Est & Ew)|[(Hq & _)|[(Eq & _)|(Eq & _)]]]; try contradiction; try (exfalso; auto; fail).
          rewrite Est in E1. subst s w. right; left. split; [exact W1|]. exists []. rewrite ostk_neq by exact Hb2. split; [reflexivity | apply pr_refl].
        * (* qf -> qa, pop bottom *)
          assert (HqQ : In qf (pQ P)) by (apply W4; exact Hqf).
          destruct HR as [(Eq & _)|[(_ & st0 & Est & Hr)|[(Eq & _)|(Eq & _)]]]; try (subst qf; contradiction).
          rewrite ostk_neq in E1 by exact Hb2. cbn [app] in E1. rewrite Est in E1.
          destruct (pda_reach_inv_QGm P w _ Hwf Hr) as [_ HG]. cbn [snd] in HG.
          apply app_last_cons in E1. destruct E1 as [(E0 & _ & Es)|(st1 & E0 & _)].
          -- subst st0 s. right; right; right. split; [reflexivity|]. split; [reflexivity|]. exists qf, []. auto.
          -- subst st0. inversion HG; subst. contradiction.
        * (* qf -> qd, pop X *)
          assert (HqQ : In qf (pQ P)) by (apply W4; exact Hqf).
          destruct HR as [(Eq & _)|[(_ & st0 & Est & Hr)|[(Eq & _)|(Eq & _)]]]; try (subst qf; contradiction).
          rewrite ostk_neq in E1 by (apply Gm_not_eps; exact HX). cbn [app] in E1. rewrite Est in E1.
          destruct (pda_reach_inv_QGm P w _ Hwf Hr) as [_ HG]. cbn [snd] in HG.
          apply app_last_cons in E1. destruct E1 as [(_ & Eb & _)|(st1 & E0 & Es)]; [subst X; contradiction|].
          subst st0 s. right; right; left. split; [reflexivity|]. exists st1. split; [reflexivity|].
          split; [inversion HG; assumption|]. exists qf, (X :: st1). auto.
        * (* qd -> qd, pop X *)
          destruct HR as [(Eq & _)|[(Hq & _)|[(_ & st0 & Est & HG & Hex)|(Eq & _)]]]; try contradiction; try (exfalso; auto; fail).
          rewrite ostk_neq in E1 by (apply Gm_not_eps; exact HX). cbn [app] in E1. rewrite Est in E1.
          apply app_last_cons in E1. destruct E1 as [(_ & Eb & _)|(st1 & E0 & Es)]; [subst X; contradiction|].
          subst st0 s. right; right; left. split; [reflexivity|]. exists st1. split; [reflexivity|].
          split; [inversion HG; assumption | exact Hex].
        * (* qd -> qa, pop bottom *)
          destruct HR as [(Eq & _)|[(Hq & _)|[(_ & st0 & Est & HG & Hex)|(Eq & _)]]]; try contradiction; try (exfalso; auto; fail).
          rewrite ostk_neq in E1 by exact Hb2. cbn [app] in E1. rewrite Est in E1.
          apply app_last_cons in E1. destruct E1 as [(E0 & _ & Es)|(st1 & E0 & _)].
          -- subst s. right; right; right. auto.
          -- subst st0. inversion HG; subst. contradiction.
  Qed.

  Lemma es_eps_move q u v q' s : In (q, peps P, u, q', v) (transitions P') ->
    In (q', ostk (peps P) v ++ s) (moves P' (peps P') (q, ostk (peps P) u ++ s)).
  Proof.
    intros Ht. change (peps P') with (peps P). apply moves_In. exists u, v, s. change (peps P') with (peps P). auto.
  Qed.

  Lemma empty_stack_drain st : Forall (fun x => In x (pGm P)) st -> pda_reach P' (qd, st ++ [bottom]) [] (qa, []).
  Proof.
    induction st as [|X st IH]; intros HG.
    - cbn [app]. apply pr_eps with (qa, []); [|apply pr_refl].
      assert (Hm := es_eps_move qd bottom (peps P) qa []). rewrite ostk_eps, ostk_neq in Hm by exact Hb2. apply Hm.
      apply empty_stack_trans. right. unfold es_new. cbn zeta. right; right; right; right. reflexivity.
    - inversion HG as [|X' st' HX HG']; subst. apply pr_eps with (qd, st ++ [bottom]); [|apply IH; exact HG'].
      assert (Hm := es_eps_move qd X (peps P) qd (st ++ [bottom])).
      rewrite ostk_eps, ostk_neq in Hm by (apply Gm_not_eps; exact HX). apply Hm.
      apply empty_stack_trans. right. unfold es_new. cbn zeta. right; right; right; left. exists X. auto.
  Qed.

  Lemma empty_stack_complete w qf st : In qf (pF P) -> pda_reach P (pq0 P, []) w (qf, st) -> pda_reach P' (qi, []) w (qa, []).
  Proof.
    intros Hqf Hr. destruct (pda_reach_inv_QGm P w _ Hwf Hr) as [_ HG]. cbn [snd] in HG.
    apply pr_eps with (pq0 P, [bottom]).
    { assert (Hm := es_eps_move qi (peps P) bottom (pq0 P) []). rewrite ostk_eps, ostk_neq in Hm by exact Hb2. apply Hm.
      apply empty_stack_trans. right. unfold es_new. cbn zeta. left. reflexivity. }
    rewrite <- (app_nil_r w). apply pda_reach_app with (qf, st ++ [bottom]).
    { apply (pda_reach_mono P P'); [reflexivity | exact empty_stack_incl|].
      apply (pda_reach_frame P (pq0 P) [] w qf st [bottom]). exact Hr. }
    destruct st as [|X st].
    - cbn [app]. apply pr_eps with (qa, []); [|apply pr_refl].
      assert (Hm := es_eps_move qf bottom (peps P) qa []). rewrite ostk_eps, ostk_neq in Hm by exact Hb2. apply Hm.
      apply empty_stack_trans. right. unfold es_new. cbn zeta. right; left. exists qf. auto.
    - inversion HG as [|X' st' HX HG']; subst. apply pr_eps with (qd, st ++ [bottom]); [|apply empty_stack_drain; exact HG'].
      assert (Hm := es_eps_move qf X (peps P) qd (st ++ [bottom])).
      rewrite ostk_eps, ostk_neq in Hm by (apply Gm_not_eps; exact HX). apply Hm.
      apply empty_stack_trans. right. unfold es_new. cbn zeta. right; right; left. exists qf, X. auto.
  Qed.

  Lemma empty_stack_accepts_empty w q st : In q (pF P') -> pda_reach P' (pq0 P', []) w (q, st) -> st = [].
  Proof.
    destruct es_distinct as (D1 & D2 & D3 & D4 & D5 & D6).
    intros [Hq|[]] Hr. subst q. apply empty_stack_inv in Hr. unfold es_inv in Hr. cbn [fst snd] in Hr.
    destruct Hr as [(Eq & _)|[(Hq & _)|[(Eq & _)|(_ & Est & _)]]]; try contradiction; try (exfalso; auto; fail).
    exact Est.
  Qed.

  Lemma empty_stack_lang w : pda_lang P' w <-> pda_lang P w.
  Proof.
    destruct es_distinct as (D1 & D2 & D3 & D4 & D5 & D6).
    unfold pda_lang. split.
    - intros (q & st & [Hq|[]] & Hr). subst q. apply empty_stack_inv in Hr. unfold es_inv in Hr. cbn [fst snd] in Hr.
      destruct Hr as [(Eq & _)|[(Hq & _)|[(Eq & _)|(_ & _ & qf & st'' & Hqf & Hr)]]]; try contradiction; try (exfalso; auto; fail).
      exists qf, st''. auto.
    - intros (qf & st & Hqf & Hr). exists qa, []. split; [left; reflexivity|].
      apply empty_stack_complete with qf st; assumption.
  Qed.

  Lemma empty_stack_push_pop : pda_is_push_pop P = true -> pda_is_push_pop P' = true.
  Proof.
    unfold pda_is_push_pop. rewrite !forallb_forall. intros H t Ht. apply empty_stack_trans in Ht. destruct Ht as [Ht|Ht].
    - specialize (H t Ht). destruct t as [[[[p a] u] q] v]. exact H.
    - unfold es_new in Ht. cbn zeta in Ht.
      destruct Ht as [Hn|[(q & Hq & Hn)|[(q & X & Hq & HX & Hn)|[(X & HX & Hn)|Hn]]]]; subst t.
      + apply (ppt_push P'). exact Hb2.
      + apply (ppt_pop P'). exact Hb2.
      + apply (ppt_pop P'). apply Gm_not_eps. exact HX.
      + apply (ppt_pop P'). apply Gm_not_eps. exact HX.
      + apply (ppt_pop P'). exact Hb2.
  Qed.
End EmptyStack.

Lemma to_empty_stack_cases bottom states P P' rest : to_empty_stack bottom states P = Some (P', rest) ->
  ~ In bottom (pGm P) /\ bottom <> peps P /\
  exists qi qd qa, states = qi :: qd :: qa :: rest /\
    ~ In qi (pQ P) /\ ~ In qd (pQ P ++ [qi]) /\ ~ In qa (pQ P ++ [qi; qd]) /\ P' = empty_stack_pda P bottom qi qd qa.
Proof.
  unfold to_empty_stack. destruct (mem bottom (pGm P) || Nat.eqb bottom (peps P)) eqn:Eb; [discriminate|].
  apply orb_false_elim in Eb. destruct Eb as [Eb1 Eb2]. apply mem_nIn in Eb1. apply Nat.eqb_neq in Eb2.
  destruct (take1 (pQ P) states) as [[qi s1]|] eqn:E1; [|discriminate].
  destruct (take1 (pQ P ++ [qi]) s1) as [[qd s2]|] eqn:E2; [|discriminate].
  destruct (take1 (pQ P ++ [qi; qd]) s2) as [[qa s3]|] eqn:E3; [|discriminate].
  apply take1_spec in E1. apply take1_spec in E2. apply take1_spec in E3.
  destruct E1 as [-> N1]. destruct E2 as [-> N2]. destruct E3 as [-> N3].
  intros E. inversion E; subst. split; [exact Eb1|]. split; [exact Eb2|]. exists qi, qd, qa. auto.
Qed.

Lemma to_empty_stack_accepts_empty bottom states P P' rest : pda_wf P -> to_empty_stack bottom states P = Some (P', rest) ->
  forall w q st, In q (pF P') -> pda_reach P' (pq0 P', []) w (q, st) -> st = [].
Proof.
  intros Hwf E. apply to_empty_stack_cases in E. destruct E as (B1 & B2 & qi & qd & qa & _ & N1 & N2 & N3 & ->).
  intros w q st. apply empty_stack_accepts_empty; assumption.
Qed.

Lemma to_empty_stack_lang bottom states P P' rest : pda_wf P -> to_empty_stack bottom states P = Some (P', rest) ->
  forall w, pda_lang P' w <-> pda_lang P w.
Proof.
  intros Hwf E. apply to_empty_stack_cases in E. destruct E as (B1 & B2 & qi & qd & qa & _ & N1 & N2 & N3 & ->).
  intros w. apply empty_stack_lang; assumption.
Qed.

Lemma to_empty_stack_wf bottom states P P' rest : pda_wf P -> to_empty_stack bottom states P = Some (P', rest) -> pda_wf P'.
Proof.
  intros Hwf E. apply to_empty_stack_cases in E. destruct E as (B1 & B2 & qi & qd & qa & _ & N1 & N2 & N3 & ->).
  apply empty_stack_wf; assumption.
Qed.

Lemma to_empty_stack_push_pop bottom states P P' rest : pda_wf P -> to_empty_stack bottom states P = Some (P', rest) ->
  pda_is_push_pop P = true -> pda_is_push_pop P' = true.
Proof.
  intros Hwf E. apply to_empty_stack_cases in E. destruct E as (B1 & B2 & qi & qd & qa & _ & N1 & N2 & N3 & ->).
  apply empty_stack_push_pop; assumption.
Qed.

Theorem to_empty_stack_correct bottom states P P' rest : pda_wf P -> to_empty_stack bottom states P = Some (P', rest) ->
  pda_wf P' /\ pSg P' = pSg P /\ peps P' = peps P /\ (exists qa, pF P' = [qa]) /\
  (forall w, pda_lang P' w <-> pda_lang P w) /\
  (forall w q st, In q (pF P') -> pda_reach P' (pq0 P', []) w (q, st) -> st = []) /\
  (pda_is_push_pop P = true -> pda_is_push_pop P' = true).
Proof.
  intros Hwf E.
  split; [apply (to_empty_stack_wf bottom states P P' rest); assumption|].
  assert (E' := E). apply to_empty_stack_cases in E'. destruct E' as (B1 & B2 & qi & qd & qa & _ & N1 & N2 & N3 & EP).
  split; [subst P'; reflexivity|]. split; [subst P'; reflexivity|]. split; [exists qa; subst P'; reflexivity|].
  split; [apply (to_empty_stack_lang bottom states P P' rest); assumption|].
  split; [apply (to_empty_stack_accepts_empty bottom states P P' rest); assumption|].
  apply (to_empty_stack_push_pop bottom states P P' rest); assumption.
Qed.

(* failure is exactly a marker clash or a stream that is exhausted / not fresh *)
Definition fresh3_fails (Q states : list nat) : Prop :=
  match states with
  | qi :: qd :: qa :: _ => In qi Q \/ In qd (Q ++ [qi]) \/ In qa (Q ++ [qi; qd])
  | _ => True
  end.

Lemma take1_none used s : take1 used s = None <-> match s with [] => True | x :: _ => In x used end.
Proof.
  unfold take1. destruct s as [|x s']; [tauto|]. destruct (mem x used) eqn:Em.
  - apply mem_In in Em. tauto.
  - apply mem_nIn in Em. split; [discriminate | contradiction].
Qed.

Lemma to_empty_stack_none bottom states P :
  to_empty_stack bottom states P = None <-> (In bottom (pGm P) \/ bottom = peps P \/ fresh3_fails (pQ P) states).
Proof.
  unfold to_empty_stack. destruct (mem bottom (pGm P) || Nat.eqb bottom (peps P)) eqn:Eb.
  - apply orb_true_iff in Eb. rewrite mem_In, Nat.eqb_eq in Eb. tauto.
  - apply orb_false_elim in Eb. destruct Eb as [Eb1 Eb2]. apply mem_nIn in Eb1. apply Nat.eqb_neq in Eb2.
    assert (Hiff : forall A B : Prop, (A <-> B) -> (A <-> In bottom (pGm P) \/ bottom = peps P \/ B)) by (intros A B HAB; tauto).
    apply Hiff. clear Hiff.
    destruct states as [|qi [|qd [|qa s3]]]; cbn [take1 fresh3_fails].
    + tauto.
    + destruct (mem qi (pQ P)); cbn [take1]; tauto.
    + destruct (mem qi (pQ P)); [tauto|]. cbn [take1]. destruct (mem qd (pQ P ++ [qi])); cbn [take1]; tauto.
    + destruct (mem qi (pQ P)) eqn:E1; [apply mem_In in E1; tauto|]. apply mem_nIn in E1. cbn [take1].
      destruct (mem qd (pQ P ++ [qi])) eqn:E2; [apply mem_In in E2; tauto|]. apply mem_nIn in E2. cbn [take1].
      destruct (mem qa (pQ P ++ [qi; qd])) eqn:E3; [apply mem_In in E3; tauto|]. apply mem_nIn in E3.
      split; [discriminate | tauto].
Qed.

(* ------------------------------------------------------------------------------------------------ *)
(* push/pop format: the fold over the transitions                                                    *)
(* ------------------------------------------------------------------------------------------------ *)

Definition ppb (e : nat) (t : trans) : bool :=
  let '(_, _, u, _, v) := t in (Nat.eqb u e && negb (Nat.eqb v e)) || (negb (Nat.eqb u e) && Nat.eqb v e).

(* the two halves that replace a transition t which is not a push or a pop; m is the intermediate state *)
Definition h1 (e dummy : nat) (t : trans) (m : nat) : trans :=
  let '(p, a, u, q, v) := t in if Nat.eqb u e then (p, a, e, m, dummy) else (p, a, u, m, e).
Definition h2 (e dummy : nat) (t : trans) (m : nat) : trans :=
  let '(p, a, u, q, v) := t in if Nat.eqb u e then (m, e, dummy, q, e) else (m, e, e, q, v).

Definition ppstate := (list nat * dict * list nat)%type.

Record pp_inv (e dummy : nat) (Q1 : list nat) (ts : list trans) (mids : list (trans * nat)) (Q : list nat) (d : dict) : Prop := {
  ppi_Q : Q = Q1 ++ map snd mids;
  ppi_T : forall t', In t' (trs d) <->
            (In t' ts /\ ppb e t' = true) \/ exists t m, In (t, m) mids /\ (t' = h1 e dummy t m \/ t' = h2 e dummy t m);
  ppi_mid : forall t m, In (t, m) mids -> In t ts /\ ppb e t = false;
  ppi_all : forall t, In t ts -> ppb e t = false -> exists m, In (t, m) mids;
  ppi_nodup : NoDup (map snd mids);
  ppi_fresh : forall m, In m (map snd mids) -> ~ In m Q1;
  ppi_live : keys_live d }.

Lemma pp_fold_none e dummy ts : fold_left (pp_step e dummy) ts None = None.
Proof. induction ts as [|t ts IH]; cbn [fold_left pp_step]; [reflexivity | exact IH]. Qed.

Lemma pp_step_inv e dummy Q1 ts mids Q d s t Q' d' s' :
  pp_inv e dummy Q1 ts mids Q d -> pp_step e dummy (Some (Q, d, s)) t = Some (Q', d', s') ->
  exists mids', pp_inv e dummy Q1 (ts ++ [t]) mids' Q' d'.
Proof.
  intros [IQ IT IM IA IN IF IL]. destruct t as [[[[p a] u] q] v]. cbn [pp_step].
  destruct ((Nat.eqb u e && negb (Nat.eqb v e)) || (negb (Nat.eqb u e) && Nat.eqb v e)) eqn:Epp.
  - intros E. inversion E; subst Q' d' s'. clear E. exists mids. split.
    + exact IQ.
    + intros t'. rewrite trs_d_add, IT, in_app_iff. unfold tr_of. cbn [fst snd In]. split.
      * intros [[[H1 H2]|H]|H]; [left; split; [left; exact H1 | exact H2] | right; exact H |].
        subst t'. left. split; [right; left; reflexivity | exact Epp].
      * intros [[[H1|[H1|[]]] H2]|H]; [left; left; split; assumption | right; symmetry; exact H1 | left; right; exact H].
    + intros t m Hm. destruct (IM t m Hm) as [H1 H2]. split; [apply in_or_app; left; exact H1 | exact H2].
    + intros t Ht Hf. apply in_app_or in Ht. destruct Ht as [Ht|[Ht|[]]]; [apply IA; assumption|].
      subst t. unfold ppb in Hf. rewrite Epp in Hf. discriminate.
    + exact IN.
    + exact IF.
    + apply keys_live_d_add. exact IL.
  - destruct (take1 Q s) as [[m rest]|] eqn:Et; [|discriminate]. apply take1_spec in Et. destruct Et as [_ Hm].
    rewrite IQ, in_app_iff in Hm.
    set (t := (p, a, u, q, v)).
    assert (Hd' : exists d1, (forall t', In t' (trs d1) <-> In t' (trs d) \/ t' = h1 e dummy t m \/ t' = h2 e dummy t m) /\
                            keys_live d1 /\
                            (if Nat.eqb u e then Some (Q ++ [m], d_add (m, e, dummy) (q, e) (d_add (p, a, e) (m, dummy) d), rest)
                             else Some (Q ++ [m], d_add (m, e, e) (q, v) (d_add (p, a, u) (m, e) d), rest)) = Some (Q ++ [m], d1, rest)).
    { unfold t, h1, h2. destruct (Nat.eqb u e); eexists; (split; [|split; [|reflexivity]]);
        try (apply keys_live_d_add; apply keys_live_d_add; exact IL);
        intros t'; rewrite !trs_d_add; unfold tr_of; cbn [fst snd]; tauto. }
    destruct Hd' as (d1 & HT1 & HL1 & Eres). rewrite Eres. intros E. inversion E; subst Q' d' s'. clear E Eres.
    assert (Hppt : ppb e t = false) by exact Epp.
    exists (mids ++ [(t, m)]). split.
    + rewrite IQ, map_app, app_assoc. reflexivity.
    + intros t'. rewrite HT1, IT, in_app_iff. cbn [In]. split.
      * intros [[[H1 H2]|(t0 & m0 & H0 & H)]|H].
        -- left. split; [left; exact H1 | exact H2].
        -- right. exists t0, m0. split; [apply in_or_app; left; exact H0 | exact H].
        -- right. exists t, m. split; [apply in_or_app; right; left; reflexivity | exact H].
      * intros [[[H1|[H1|[]]] H2]|(t0 & m0 & H0 & H)].
        -- left; left. split; assumption.
        -- subst t'. rewrite Hppt in H2. discriminate.
        -- apply in_app_or in H0. destruct H0 as [H0|[H0|[]]].
           ++ left; right. exists t0, m0. split; assumption.
           ++ inversion H0; subst t0 m0. right. exact H.
    + intros t0 m0 H0. apply in_app_or in H0. destruct H0 as [H0|[H0|[]]].
      * destruct (IM t0 m0 H0) as [H1 H2]. split; [apply in_or_app; left; exact H1 | exact H2].
      * inversion H0; subst t0 m0. split; [apply in_or_app; right; left; reflexivity | exact Hppt].
    + intros t0 Ht0 Hf. apply in_app_or in Ht0. destruct Ht0 as [Ht0|[Ht0|[]]].
      * destruct (IA t0 Ht0 Hf) as (m0 & H0). exists m0. apply in_or_app. left. exact H0.
      * subst t0. exists m. apply in_or_app. right. left. reflexivity.
    + rewrite map_app. cbn [map snd]. apply NoDup_app_intro; [exact IN | constructor; [intros [] | constructor]|].
      intros x Hx [Hx'|[]]. subst x. apply Hm. right. exact Hx.
    + intros x Hx. rewrite map_app in Hx. apply in_app_or in Hx. destruct Hx as [Hx|[Hx|[]]]; [apply IF; exact Hx|].
      cbn [snd] in Hx. subst x. intros Hc. apply Hm. left. exact Hc.
    + exact HL1.
Qed.

Lemma pp_fold_inv e dummy Q1 s0 ts : forall Q d s,
  fold_left (pp_step e dummy) ts (Some (Q1, [], s0)) = Some (Q, d, s) ->
  exists mids, pp_inv e dummy Q1 ts mids Q d.
Proof.
  induction ts as [|t ts IH] using rev_ind; intros Q d s E.
  - cbn [fold_left] in E. inversion E; subst. exists []. split.
    + cbn [map]. rewrite app_nil_r. reflexivity.
    + intros t'. cbn [trs flat_map In]. split; [intros [] | intros [[[] _]|(t & m & [] & _)]].
    + intros t m [].
    + intros t [].
    + constructor.
    + intros m [].
    + intros k [].
  - rewrite fold_left_app in E. cbn [fold_left] in E.
    destruct (fold_left (pp_step e dummy) ts (Some (Q1, [], s0))) as [[[Q0 d0] s1]|] eqn:E0; [|discriminate].
    destruct (IH Q0 d0 s1 eq_refl) as (mids & Hinv).
    apply (pp_step_inv e dummy Q1 ts mids Q0 d0 s1 t Q d s Hinv E).
Qed.

Lemma mids_functional (mids : list (trans * nat)) t1 t2 m :
  NoDup (map snd mids) -> In (t1, m) mids -> In (t2, m) mids -> t1 = t2.
Proof.
  induction mids as [|[t0 m0] mids IH]; intros Hnd H1 H2; [destruct H1|].
  cbn [map snd] in Hnd. inversion Hnd as [|x l Hn Hnd']; subst.
  assert (Hin : forall t, In (t, m0) mids -> False).
  { intros t Ht. apply Hn. apply in_map_iff. exists (t, m0). auto. }
  destruct H1 as [H1|H1], H2 as [H2|H2].
  - inversion H1; inversion H2; subst. reflexivity.
  - inversion H1; subst. destruct (Hin _ H2).
  - inversion H2; subst. destruct (Hin _ H1).
  - apply IH; assumption.
Qed.

Section PushPop.
  Variable P1 : pda.
  Variable dummy : nat.
  Variables (mids : list (trans * nat)) (Q : list nat) (d : dict).
  Hypothesis Hwf : pda_wf P1.
  Hypothesis Hd1 : ~ In dummy (pGm P1).
  Hypothesis Hd2 : dummy <> peps P1.
  Hypothesis Hinv : pp_inv (peps P1) dummy (pQ P1) (transitions P1) mids Q d.

  Definition push_pop_pda : pda := mkPDA Q (pSg P1) (pGm P1 ++ [dummy]) d (pq0 P1) (pF P1) (peps P1).
  Let P' := push_pop_pda.

  Lemma pp_trans t' : In t' (transitions P') <->
    (In t' (transitions P1) /\ ppb (peps P1) t' = true) \/
    exists t m, In (t, m) mids /\ (t' = h1 (peps P1) dummy t m \/ t' = h2 (peps P1) dummy t m).
  Proof. rewrite transitions_trs. unfold P', push_pop_pda. cbn [pD]. apply (ppi_T _ _ _ _ _ _ _ Hinv). Qed.

  Lemma pp_Q : incl (pQ P1) Q /\ forall t m, In (t, m) mids -> In m Q /\ ~ In m (pQ P1).
  Proof.
    rewrite (ppi_Q _ _ _ _ _ _ _ Hinv). split; [intros x Hx; apply in_or_app; left; exact Hx|].
    intros t m Hm. assert (Hm' : In m (map snd mids)) by (apply in_map_iff; exists (t, m); auto).
    split; [apply in_or_app; right; exact Hm' | apply (ppi_fresh _ _ _ _ _ _ _ Hinv); exact Hm'].
  Qed.

  Lemma ppb_false_cases e u v (p a q : nat) : ppb e (p, a, u, q, v) = false -> (u = e /\ v = e) \/ (u <> e /\ v <> e).
  Proof.
    unfold ppb. destruct (Nat.eqb u e) eqn:Eu, (Nat.eqb v e) eqn:Ev; cbn; try discriminate; intros _.
    - left. split; apply Nat.eqb_eq; assumption.
    - right. split; apply Nat.eqb_neq; assumption.
  Qed.

  (* shape of the two halves *)
  Lemma h_shape p a u q v m : ppb (peps P1) (p, a, u, q, v) = false ->
    (u = peps P1 /\ v = peps P1 /\ h1 (peps P1) dummy (p, a, u, q, v) m = (p, a, peps P1, m, dummy) /\
       h2 (peps P1) dummy (p, a, u, q, v) m = (m, peps P1, dummy, q, peps P1)) \/
    (u <> peps P1 /\ v <> peps P1 /\ h1 (peps P1) dummy (p, a, u, q, v) m = (p, a, u, m, peps P1) /\
       h2 (peps P1) dummy (p, a, u, q, v) m = (m, peps P1, peps P1, q, v)).
  Proof.
    intros Hf. apply ppb_false_cases in Hf. unfold h1, h2. destruct Hf as [[Eu Ev]|[Nu Nv]].
    - left. subst u v. rewrite Nat.eqb_refl. auto.
    - right. apply Nat.eqb_neq in Nu. rewrite Nu. apply Nat.eqb_neq in Nu. auto.
  Qed.

  Lemma push_pop_wf : pda_wf P'.
  Proof.
    assert (Hwf' := Hwf). apply pda_wf_iff in Hwf'. destruct Hwf' as (W1 & W2 & W3 & W4 & W5 & W6).
    destruct pp_Q as [HQ Hmid].
    assert (HG : incl (pGm P1) (pGm P1 ++ [dummy])) by (intros x Hx; apply in_or_app; left; exact Hx).
    assert (HGd : In dummy (pGm P1 ++ [dummy])) by (apply in_or_app; right; left; reflexivity).
    apply pda_wf_iff.
    assert (Htr : forall t, In t (transitions P') -> tr_ok (pQ P') (pSg P') (pGm P') (peps P') t).
    { intros t' Ht'. apply pp_trans in Ht'. unfold P', push_pop_pda. cbn [pQ pSg pGm peps].
      destruct Ht' as [[Ht' _]|(t & m & Hm & Ht')].
      - apply tr_ok_mono with (pQ P1) (pGm P1); [exact HQ | exact HG | apply W5; exact Ht'].
      - destruct (ppi_mid _ _ _ _ _ _ _ Hinv t m Hm) as [Ht Hf]. destruct (Hmid t m Hm) as [HmQ _].
        assert (Hok := W5 t Ht). destruct t as [[[[p a] u] q] v]. unfold tr_ok in Hok. destruct Hok as (O1 & O2 & O3 & O4 & O5).
        destruct (h_shape p a u q v m Hf) as [(Eu & Ev & E1 & E2)|(Nu & Nv & E1 & E2)]; rewrite E1, E2 in Ht';
          destruct Ht' as [Ht'|Ht']; subst t'; unfold tr_ok; repeat split; auto.
        + destruct O3 as [O3|O3]; [left; apply HG; exact O3 | contradiction].
        + destruct O5 as [O5|O5]; [left; apply HG; exact O5 | contradiction]. }
    unfold P' at 1 2 3 4 5 6 7. unfold push_pop_pda at 1 2 3 4 5 6 7. cbn [pQ pSg pGm pq0 pF peps].
    split; [apply HQ; exact W1|]. split; [exact W2|]. split.
    { rewrite in_app_iff. cbn [In]. intros [H|[H|[]]]; [contradiction | apply Hd2; exact H]. }
    split; [intros x Hx; apply HQ, W4; exact Hx|].
    split; [exact Htr|].
    apply keys_live_ok.
    - unfold P', push_pop_pda. cbn [pD]. apply (ppi_live _ _ _ _ _ _ _ Hinv).
    - rewrite <- transitions_trs. exact Htr.
  Qed.

  Lemma push_pop_is_push_pop : pda_is_push_pop P' = true.
  Proof.
    unfold pda_is_push_pop. apply forallb_forall. intros t' Ht'. apply pp_trans in Ht'.
    destruct Ht' as [[_ Ht']|(t & m & Hm & Ht')].
    - destruct t' as [[[[p a] u] q] v]. exact Ht'.
    - destruct (ppi_mid _ _ _ _ _ _ _ Hinv t m Hm) as [Ht Hf]. destruct t as [[[[p a] u] q] v].
      destruct (h_shape p a u q v m Hf) as [(Eu & Ev & E1 & E2)|(Nu & Nv & E1 & E2)]; rewrite E1, E2 in Ht';
        destruct Ht' as [Ht'|Ht']; subst t'.
      + apply (ppt_push P'). exact Hd2.
      + apply (ppt_pop P'). exact Hd2.
      + apply (ppt_pop P'). exact Nu.
      + apply (ppt_push P'). exact Nv.
  Qed.

  (* P1 is simulated by P' *)
  Lemma pp_move_P' q a u v q' s : In (q, a, u, q', v) (transitions P') ->
    In (q', ostk (peps P1) v ++ s) (moves P' a (q, ostk (peps P1) u ++ s)).
  Proof. intros Ht. apply moves_In. exists u, v, s. change (peps P') with (peps P1). auto. Qed.

  Lemma pp_sim_step a c c' : In c' (moves P1 a c) -> pda_reach P' c (ostk (peps P1) a) c'.
  Proof.
    destruct c as [q st], c' as [q' st']. intros Hm. apply moves_In in Hm. destruct Hm as (u & v & s & Ht & E1 & E2). subst st st'.
    destruct (ppb (peps P1) (q, a, u, q', v)) eqn:Hf.
    - apply (pda_reach_snoc P' _ [] _ a _ (pr_refl P' _)). apply pp_move_P'. apply pp_trans. left. auto.
    - destruct (ppi_all _ _ _ _ _ _ _ Hinv _ Ht Hf) as (m & Hm).
      assert (H1 : In (h1 (peps P1) dummy (q, a, u, q', v) m) (transitions P')) by (apply pp_trans; right; exists (q, a, u, q', v), m; auto).
      assert (H2 : In (h2 (peps P1) dummy (q, a, u, q', v) m) (transitions P')) by (apply pp_trans; right; exists (q, a, u, q', v), m; auto).
      destruct (h_shape q a u q' v m Hf) as [(Eu & Ev & E1 & E2)|(Nu & Nv & E1 & E2)]; rewrite E1 in H1; rewrite E2 in H2.
      + subst u v. apply pda_reach_snoc_eps with (m, ostk (peps P1) dummy ++ s).
        * apply (pda_reach_snoc P' _ [] _ a _ (pr_refl P' _)). apply pp_move_P'. exact H1.
        * apply (pp_move_P' m (peps P1) dummy (peps P1) q' s). exact H2.
      + apply pda_reach_snoc_eps with (m, ostk (peps P1) (peps P1) ++ s).
        * apply (pda_reach_snoc P' _ [] _ a _ (pr_refl P' _)). apply pp_move_P'. exact H1.
        * apply (pp_move_P' m (peps P1) (peps P1) v q' s). exact H2.
  Qed.

  Lemma pp_sim c w c' : pda_reach P1 c w c' -> pda_reach P' c w c'.
  Proof.
    intros Hr. induction Hr as [c|c c1 w c2 Hm Hr IH|c a c1 w c2 Ha Hm Hr IH].
    - apply pr_refl.
    - apply pp_sim_step in Hm. rewrite ostk_eps in Hm. apply (pda_reach_app P' c [] c1 w c2 Hm IH).
    - apply pp_sim_step in Hm. rewrite ostk_neq in Hm by exact Ha. apply (pda_reach_app P' c [a] c1 w c2 Hm IH).
  Qed.

  (* moves of P' out of an intermediate state *)
  Lemma pp_mid_moves t m a2 st q2 st2 : In (t, m) mids -> In (q2, st2) (moves P' a2 (m, st)) ->
    exists u2 v2 s2, h2 (peps P1) dummy t m = (m, a2, u2, q2, v2) /\ st = ostk (peps P1) u2 ++ s2 /\ st2 = ostk (peps P1) v2 ++ s2.
  Proof.
    assert (Hwf' := Hwf). apply pda_wf_iff in Hwf'. destruct Hwf' as (W1 & W2 & W3 & W4 & W5 & W6).
    destruct pp_Q as [HQ Hmid].
    intros Hm Hmv. apply moves_In in Hmv. change (peps P') with (peps P1) in Hmv.
    destruct Hmv as (u2 & v2 & s2 & Ht2 & E1 & E2). exists u2, v2, s2. split; [|split; assumption].
    destruct (Hmid t m Hm) as [_ HmQ].
    apply pp_trans in Ht2. destruct Ht2 as [[Ht2 _]|(t3 & m3 & Hm3 & Ht2)].
    - apply W5 in Ht2. unfold tr_ok in Ht2. exfalso. apply HmQ. tauto.
    - destruct (ppi_mid _ _ _ _ _ _ _ Hinv t3 m3 Hm3) as [Ht3 Hf3].
      assert (Hok := W5 t3 Ht3). destruct t3 as [[[[p3 a3] u3] q3] v3]. unfold tr_ok in Hok. destruct Hok as (O1 & _).
      destruct (h_shape p3 a3 u3 q3 v3 m3 Hf3) as [(Eu & Ev & E1' & E2')|(Nu & Nv & E1' & E2')];
        (destruct Ht2 as [Ht2|Ht2]; [rewrite E1' in Ht2; inversion Ht2; subst; contradiction|]).
      + assert (Em : m3 = m) by (rewrite E2' in Ht2; inversion Ht2; reflexivity). subst m3.
        rewrite (mids_functional mids t _ m (ppi_nodup _ _ _ _ _ _ _ Hinv) Hm Hm3). symmetry. exact Ht2.
      + assert (Em : m3 = m) by (rewrite E2' in Ht2; inversion Ht2; reflexivity). subst m3.
        rewrite (mids_functional mids t _ m (ppi_nodup _ _ _ _ _ _ _ Hinv) Hm Hm3). symmetry. exact Ht2.
  Qed.

  Definition pp_R (w : word) (c : config) : Prop :=
    (In (fst c) (pQ P1) /\ pda_reach P1 (pq0 P1, []) w c) \/
    (~ In (fst c) (pQ P1) /\ forall a c2, In c2 (moves P' a c) ->
        a = peps P1 /\ In (fst c2) (pQ P1) /\ pda_reach P1 (pq0 P1, []) w c2).

  Lemma push_pop_inv w c : pda_reach P' (pq0 P1, []) w c -> pp_R w c.
  Proof.
    assert (Hwf' := Hwf). apply pda_wf_iff in Hwf'. destruct Hwf' as (W1 & W2 & W3 & W4 & W5 & W6).
    destruct pp_Q as [HQ Hmid].
    revert w c. apply pda_reach_ind_r.
    - left. cbn [fst]. split; [exact W1 | apply pr_refl].
    - intros w c a c' _ HR Hmv. change (peps P') with (peps P1).
      destruct HR as [[Hq Hr]|[_ Hall]].
      2:{ destruct (Hall a c' Hmv) as (Ea & Hq' & Hr'). subst a. rewrite ostk_eps, app_nil_r. left. auto. }
      destruct c as [q st], c' as [q' st']. cbn [fst] in Hq.
      assert (Hmv' := Hmv). apply moves_In in Hmv'. change (peps P') with (peps P1) in Hmv'.
      destruct Hmv' as (u & v & s & Ht & E1 & E2). apply pp_trans in Ht.
      destruct Ht as [[Ht _]|(t & m & Hm & Ht)].
      + left. cbn [fst]. split; [apply W5 in Ht; unfold tr_ok in Ht; tauto|].
        apply pda_reach_snoc with (q, st); [exact Hr|]. apply moves_In. exists u, v, s. auto.
      + destruct (ppi_mid _ _ _ _ _ _ _ Hinv t m Hm) as [Ht1 Hf]. destruct (Hmid t m Hm) as [_ HmQ].
        destruct t as [[[[p0 a0] u0] q0] v0].
        assert (Hq0 : In q0 (pQ P1)) by (apply W5 in Ht1; unfold tr_ok in Ht1; tauto).
        destruct (h_shape p0 a0 u0 q0 v0 m Hf) as [(Eu & Ev & E1' & E2')|(Nu & Nv & E1' & E2')];
          (destruct Ht as [Ht|Ht]; [|rewrite E2' in Ht; inversion Ht; subst; contradiction]);
          rewrite E1' in Ht; inversion Ht; subst; clear Ht.
        * (* no-op: the dummy has been pushed *)
          right. cbn [fst]. split; [exact HmQ|]. intros a2 [q2 st2] Hm2.
          destruct (pp_mid_moves _ _ _ _ _ _ Hm Hm2) as (u2 & v2 & s2 & Eh & Es & Es2). rewrite E2' in Eh.
          inversion Eh; subst. split; [reflexivity|]. cbn [fst]. split; [exact Hq0|].
          rewrite ostk_neq in Es by exact Hd2. rewrite ostk_eps in *. cbn [app] in *. inversion Es; subst s2.
          eapply pda_reach_snoc; [exact Hr|].
          apply moves_In. do 3 eexists. split; [exact Ht1 | rewrite ostk_eps; split; reflexivity].
        * (* replace: u0 has been popped *)
          right. cbn [fst]. split; [exact HmQ|]. intros a2 [q2 st2] Hm2.
          destruct (pp_mid_moves _ _ _ _ _ _ Hm Hm2) as (u2 & v2 & s2 & Eh & Es & Es2). rewrite E2' in Eh.
          inversion Eh; subst. split; [reflexivity|]. cbn [fst]. split; [exact Hq0|].
          rewrite ostk_eps in *. cbn [app] in *. subst s2.
          eapply pda_reach_snoc; [exact Hr|].
          apply moves_In. do 3 eexists. split; [exact Ht1 | split; reflexivity].
  Qed.

  Lemma push_pop_lang w : pda_lang P' w <-> pda_lang P1 w.
  Proof.
    assert (Hwf' := Hwf). apply pda_wf_iff in Hwf'. destruct Hwf' as (W1 & W2 & W3 & W4 & W5 & W6).
    unfold pda_lang. change (pF P') with (pF P1). change (pq0 P') with (pq0 P1). split.
    - intros (q & st & Hq & Hr). exists q, st. split; [exact Hq|].
      apply push_pop_inv in Hr. destruct Hr as [[_ Hr]|[Hn _]]; [exact Hr|].
      exfalso. apply Hn. apply W4. exact Hq.
    - intros (q & st & Hq & Hr). exists q, st. split; [exact Hq | apply pp_sim; exact Hr].
  Qed.
End PushPop.

Lemma to_push_pop_cases dummy states P P' rest : to_push_pop dummy states P = Some (P', rest) ->
  exists P1 s1 Q d, to_one_accept states P = Some (P1, s1) /\ ~ In dummy (pGm P1) /\
    fold_left (pp_step (peps P1) dummy) (transitions P1) (Some (pQ P1, [], s1)) = Some (Q, d, rest) /\
    P' = mkPDA Q (pSg P1) (pGm P1 ++ [dummy]) d (pq0 P1) (pF P1) (peps P1).
Proof.
  unfold to_push_pop. destruct (to_one_accept states P) as [[P1 s1]|] eqn:E1; [|discriminate].
  destruct (mem dummy (pGm P1)) eqn:Em; [discriminate|]. apply mem_nIn in Em.
  destruct (fold_left (pp_step (peps P1) dummy) (transitions P1) (Some (pQ P1, [], s1))) as [[[Q d] s2]|] eqn:Ef; [|discriminate].
  intros E. inversion E; subst. exists P1, s1, Q, d. auto.
Qed.

(* The hypothesis [dummy <> peps P] is necessary, see to_push_pop_dummy_eps_cex below: the model (like the
   Python, which only asserts `dummy not in Gamma`) does not reject a dummy symbol equal to epsilon. *)
Theorem to_push_pop_correct dummy states P P' rest : pda_wf P -> dummy <> peps P -> to_push_pop dummy states P = Some (P', rest) ->
  pda_wf P' /\ pda_is_push_pop P' = true /\ length (dedup (pF P')) = 1 /\ pSg P' = pSg P /\ peps P' = peps P /\
  (forall w, pda_lang P' w <-> pda_lang P w).
Proof.
  intros Hwf Hd E. apply to_push_pop_cases in E. destruct E as (P1 & s1 & Q & d & E1 & Hd1 & Ef & ->).
  destruct (to_one_accept_correct states P P1 s1 Hwf E1) as (Hwf1 & HF1 & HSg & HGm & He & Hq0 & HL).
  apply pp_fold_inv in Ef. destruct Ef as (mids & Hinv).
  rewrite <- He in Hd.
  split; [apply (push_pop_wf P1 dummy mids Q d); assumption|].
  split; [apply (push_pop_is_push_pop P1 dummy mids Q d); assumption|].
  cbn [pF pSg peps]. split; [exact HF1|]. split; [exact HSg|]. split; [exact He|].
  intros w. rewrite <- HL. apply (push_pop_lang P1 dummy mids Q d); assumption.
Qed.

(* without the hypothesis the result need not be well formed nor in push/pop format (the language is still
   preserved): dummy = epsilon = 9 *)
Definition pp_cex : pda := mkPDA [0; 1] [5] [7] [((0, 5, 9), [(1, 9)])] 0 [1] 9.

Lemma to_push_pop_dummy_eps_cex :
  pda_wf pp_cex /\
  exists P' rest, to_push_pop 9 [2; 3] pp_cex = Some (P', rest) /\ pda_wf_b P' = false /\ pda_is_push_pop P' = false.
Proof.
  split; [vm_compute; reflexivity|].
  eexists. eexists. split; [vm_compute; reflexivity|]. split; vm_compute; reflexivity.
Qed.

(* without the hypothesis, what remains true *)
Theorem to_push_pop_correct_any_dummy dummy states P P' rest : pda_wf P -> to_push_pop dummy states P = Some (P', rest) ->
  length (dedup (pF P')) = 1 /\ pSg P' = pSg P /\ peps P' = peps P /\ pGm P' = pGm P ++ [dummy] /\ pq0 P' = pq0 P.
Proof.
  intros Hwf E. apply to_push_pop_cases in E. destruct E as (P1 & s1 & Q & d & E1 & Hd1 & Ef & ->).
  destruct (to_one_accept_correct states P P1 s1 Hwf E1) as (Hwf1 & HF1 & HSg & HGm & He & Hq0 & HL).
  cbn [pF pSg peps pGm pq0]. rewrite HGm. auto.
Qed.

(* failure of to_push_pop: the dummy is a stack symbol, or the stream of fresh names is exhausted / not fresh *)
Lemma to_push_pop_dummy_clash dummy states P : In dummy (pGm P) -> to_push_pop dummy states P = None.
Proof.
  intros Hd. unfold to_push_pop. destruct (to_one_accept states P) as [[P1 s1]|] eqn:E1; [|reflexivity].
  assert (HG : pGm P1 = pGm P).
  { apply to_one_accept_cases in E1. destruct E1 as [(-> & _)|(qa & _ & _ & ->)]; reflexivity. }
  rewrite HG. apply mem_In in Hd. rewrite Hd. reflexivity.
Qed.

(* Print Assumptions to_one_accept_correct / to_empty_stack_correct / to_empty_stack_none / to_push_pop_correct /
   to_push_pop_dummy_eps_cex: all "Closed under the global context". *)
