(* Token-level text model for the parsers and printers (C16, C17).
   A text is a list of lines; a line is the list of its whitespace-separated words (Python: line.strip().split());
   a word (token) is a list of character codes.  Character coding (fixed by the harness):
     ASCII \w characters (letters, digits, underscore)  ->  100 + ord   (148 .. 222)
     other printable ASCII                               ->  ord        (33 .. 126)
     non-ASCII characters matched by Python's \w         ->  300 .. 399  ('ε' = 301)
     other non-ASCII characters                          ->  400 .. 499  ('□' = 401)
   so that \w is a decidable predicate on codes.  Python's str.split / strip, re.fullmatch on Unicode and the
   classification of non-ASCII characters are performed by the harness (modelled, not verified). *)
From Coq Require Import String Ascii.
From GT Require Import Base.Prelude.

Definition token := list nat.
Definition line := list token.

Definition code_of_ascii (c : ascii) : nat :=
  let n := nat_of_ascii c in
  if ((Nat.leb 48 n && Nat.leb n 57) || (Nat.leb 65 n && Nat.leb n 90) || (Nat.leb 97 n && Nat.leb n 122) || Nat.eqb n 95)%bool then 100 + n else n.
Definition tok (s : string) : token := map code_of_ascii (list_ascii_of_string s).

Definition is_w (c : nat) : bool := (Nat.leb 148 c && Nat.leb c 222) || (Nat.leb 300 c && Nat.leb c 399).
Definition c_eps := 301.      (* 'ε' *)
Definition c_box := 401.      (* '□' *)
Definition c_comma := 44.
Definition c_percent := 37.
Definition c_underscore := 195.  (* 100 + 95 *)
Definition c_L := 176.        (* 100 + 76 *)
Definition c_R := 182.        (* 100 + 82 *)
(* the class [\w\d~!@#$%^&*□] of the PDA / TM label patterns *)
Definition is_sym_char (c : nat) : bool := is_w c || mem c [126; 33; 64; 35; 36; 37; 94; 38; 42].
Definition is_tm_char (c : nat) : bool := is_sym_char c || Nat.eqb c c_box.

(* regular expressions used by the parsers, as predicates on tokens *)
Definition re_word (t : token) : bool := match t with [] => false | _ => forallb is_w t end.            (* \w+ *)
Definition re_any (t : token) : bool := match t with [] => false | _ => true end.                        (* .+  *)
Definition re_pda_label (t : token) : bool :=                                                             (* \w,ss *)
  match t with [a; c; u; v] => is_w a && Nat.eqb c c_comma && is_sym_char u && is_sym_char v | _ => false end.
Definition re_tm_label (t : token) : bool :=                                                              (* ss,[LR] *)
  match t with [a; b; c; d] => is_tm_char a && is_tm_char b && Nat.eqb c c_comma && (Nat.eqb d c_L || Nat.eqb d c_R) | _ => false end.
Definition re_product_state (t : token) : bool :=                                                         (* \(\w+,\w+\) *)
  match t with
  | 40 :: rest =>
    match rev rest with
    | 41 :: rinner =>
      let inner := rev rinner in
      existsb (fun i => re_word (firstn i inner) && (match nth_error inner i with Some 44 => true | _ => false end) && re_word (skipn (S i) inner))
              (seq 0 (length inner))
    | _ => false
    end
  | _ => false
  end.
Definition re_set_state (t : token) : bool :=                                                             (* \{[\w,]*\} *)
  match t with
  | 123 :: rest => match rev rest with 125 :: rinner => forallb (fun c => is_w c || Nat.eqb c c_comma) rinner | _ => false end
  | _ => false
  end.

Definition kw_states := tok "states".
Definition kw_final := tok "final".
Definition kw_initial := tok "initial".
Definition kw_input_symbols := tok "input_symbols".
Definition kw_epsilon := tok "epsilon".
Definition kw_stack_symbols := tok "stack_symbols".
Definition kw_tape_symbols := tok "tape_symbols".
Definition kw_blank := tok "blank".
Definition kw_accept := tok "accept".
Definition kw_reject := tok "reject".

(* decimal rendering of a number (str.format), digits '0'..'9' = 148..157 *)
Fixpoint digits_fuel (fuel n : nat) (acc : token) : token :=
  match fuel with
  | 0 => acc
  | S f => let d := 148 + Nat.modulo n 10 in
           if Nat.ltb n 10 then d :: acc else digits_fuel f (Nat.div n 10) (d :: acc)
  end.
Definition digits (n : nat) : token := digits_fuel (S n) n [].
