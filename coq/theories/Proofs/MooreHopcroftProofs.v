(* Correctness of the two partition-refinement minimisers of Model/Minimize.v:
   dfa_quotient (Moore refinement) and dfa_hopcroft (Hopcroft exactly as coded).
   Results: the computed partition is a partition of dQ D into non-empty blocks that refines {F, Q\F}, is stable and
   is coarser than Myhill-Nerode equivalence; the loops terminate within the fuel of the model; the assembled
   automaton satisfies is_quotient_of.  Stdlib only, no axioms. *)
From GT Require Import Base.Prelude Model.DFA Model.NFA Model.Minimize.
From GT Require Import Proofs.NFAProofs Proofs.DFAOpsProofs Proofs.PartitionDefs.
From Coq Require Import Permutation.

(* ---------- generic list facts ---------- *)
Section Generic.
  Context {X Y : Type}.

  Lemma fold_left_pres (f : X -> Y -> X) (I : X -> Prop) (l : list Y) :
    (forall acc y, In y l -> I acc -> I (f acc y)) -> forall acc, I acc -> I (fold_left f l acc).
  Proof.
    induction l as [|y l IH]; intros Hstep acc Hacc; cbn [fold_left]; [exact Hacc|].
    apply IH.
    - intros acc' y' Hy'. apply Hstep. right; exact Hy'.
    - apply Hstep; [left; reflexivity | exact Hacc].
  Qed.

  Lemma fold_left_estab (f : X -> Y -> X) (I : X -> Prop) (l : list Y) (y0 : Y) :
    In y0 l -> (forall acc, I (f acc y0)) -> (forall acc y, In y l -> I acc -> I (f acc y)) ->
    forall acc, I (fold_left f l acc).
  Proof.
    induction l as [|y l IH]; intros Hin Hy0 Hstep acc; [destruct Hin|]. cbn [fold_left].
    destruct Hin as [->|Hin].
    - apply fold_left_pres; [|apply Hy0]. intros acc' y' Hy'. apply Hstep. right; exact Hy'.
    - apply IH; [exact Hin | exact Hy0 |]. intros acc' y' Hy'. apply Hstep. right; exact Hy'.
  Qed.
End Generic.

Lemma flat_map_len_ge {X Y : Type} (f : X -> list Y) (l : list X) :
  (forall x, In x l -> f x <> []) -> length l <= length (flat_map f l).
Proof.
  induction l as [|x l IH]; intros Hne; cbn [flat_map length]; [lia|].
  rewrite app_length. assert (Hx : f x <> []) by (apply Hne; left; reflexivity).
  assert (IH' : length l <= length (flat_map f l)) by (apply IH; intros x' Hx'; apply Hne; right; exact Hx').
  destruct (f x) as [|y r]; [congruence|]. cbn [length]. lia.
Qed.

Lemma flat_map_len_single {X Y : Type} (f : X -> list Y) (l : list X) :
  (forall x, In x l -> f x <> []) -> length (flat_map f l) <= length l ->
  forall x, In x l -> exists y, f x = [y].
Proof.
  induction l as [|x l IH]; intros Hne Hlen x0 Hx0; [destruct Hx0|].
  cbn [flat_map length] in Hlen. rewrite app_length in Hlen.
  assert (Hx : f x <> []) by (apply Hne; left; reflexivity).
  assert (Hge : length l <= length (flat_map f l)) by (apply flat_map_len_ge; intros x' Hx'; apply Hne; right; exact Hx').
  destruct Hx0 as [<-|Hx0].
  - destruct (f x) as [|y [|y2 r]]; [congruence | exists y; reflexivity | cbn [length] in Hlen; lia].
  - apply IH; [intros x' Hx'; apply Hne; right; exact Hx' | | exact Hx0].
    destruct (f x) as [|y r]; [congruence|]. cbn [length] in Hlen. lia.
Qed.

Lemma len_concat_ge {X : Type} (P : list (list X)) : (forall B, In B P -> B <> []) -> length P <= length (concat P).
Proof.
  induction P as [|B P IH]; intros Hne; cbn [concat length]; [lia|].
  rewrite app_length. assert (HB : B <> []) by (apply Hne; left; reflexivity).
  assert (IH' : length P <= length (concat P)) by (apply IH; intros B' HB'; apply Hne; right; exact HB').
  destruct B as [|y r]; [congruence|]. cbn [length]. lia.
Qed.

Lemma NoDup_app_inv {X : Type} (l1 l2 : list X) : NoDup (l1 ++ l2) ->
  NoDup l1 /\ NoDup l2 /\ forall x, In x l1 -> ~ In x l2.
Proof.
  induction l1 as [|b l1 IH]; cbn [app]; intros Hnd.
  - split; [constructor|]. split; [exact Hnd|]. intros x [].
  - inversion Hnd as [|b0 l0 Hnb Hnd']; subst. destruct (IH Hnd') as [H1 [H2 H3]]. split; [|split].
    + constructor; [|exact H1]. intros Hc. apply Hnb. apply in_or_app. left; exact Hc.
    + exact H2.
    + intros x [<-|Hx] Hx2; [apply Hnb; apply in_or_app; right; exact Hx2 | exact (H3 x Hx Hx2)].
Qed.

Lemma nodup_concat_disj {X : Type} (P : list (list X)) : NoDup (concat P) ->
  forall B1 B2 q, In B1 P -> In B2 P -> In q B1 -> In q B2 -> B1 = B2.
Proof.
  induction P as [|B P IH]; intros Hnd B1 B2 q H1 H2 Hq1 Hq2; [destruct H1|].
  cbn [concat] in Hnd. apply NoDup_app_inv in Hnd. destruct Hnd as [_ [Hnd' Hdis0]].
  assert (Hdis : forall x B', In x B -> In B' P -> In x B' -> False).
  { intros x B' Hx HB' Hx'. apply (Hdis0 x Hx). apply in_concat. exists B'. auto. }
  destruct H1 as [<-|H1], H2 as [<-|H2].
  - reflexivity.
  - exfalso. eapply Hdis; eauto.
  - exfalso. eapply Hdis; eauto.
  - eapply IH; eauto.
Qed.

Section MH.
  Context {A : Type} `{Eqb A}.
  Variable canon : list A -> list A.
  Variable ord : list A -> list A.
  Variable ordB : list (list A) -> list (list A).
  Variable rep : list A -> option A.
  Variable pick : picker (list A * nat).
  Hypothesis canon_In : forall l y, In y (canon l) <-> In y l.
  Hypothesis canon_ext : forall l1 l2, (forall y, In y l1 <-> In y l2) -> canon l1 = canon l2.
  Hypothesis ord_perm : forall l, Permutation (ord l) l.
  Hypothesis ordB_perm : forall l, Permutation (ordB l) l.
  Hypothesis rep_In : forall l, l <> [] -> exists x, rep l = Some x /\ In x l.
  Hypothesis pick_ok : picker_ok pick.
  Variable D : dfa A.
  Hypothesis Hwf : dfa_wf D.
  Hypothesis HndQ : NoDup (dQ D).
  Hypothesis HndF : NoDup (dF D).
  Hypothesis HndD : NoDup (map fst (dD D)).

  Definition good_partition (P : list (list A)) : Prop :=
    (forall B, In B P -> B <> [] /\ incl B (dQ D)) /\
    (forall q, In q (dQ D) -> exists B, In B P /\ In q B) /\
    (forall B1 B2 q, In B1 P -> In B2 P -> In q B1 -> In q B2 -> B1 = B2).

  Definition disj (P : list (list A)) : Prop :=
    forall B1 B2 q, In B1 P -> In B2 P -> In q B1 -> In q B2 -> B1 = B2.
  Definition cover (P : list (list A)) : Prop := forall q, In q (dQ D) -> exists B, In B P /\ In q B.
  Definition mn_closed (S0 : list A) : Prop := forall p q, In p S0 -> In q (dQ D) -> mn_equiv D p q -> In q S0.

  Lemma step_Q q a : In q (dQ D) -> In a (dS D) -> In (dstep D q a) (dQ D).
  Proof. intros Hq Ha. apply (dfa_wf_step q a Hwf Hq Ha). Qed.

  Lemma In_dec_l (x : A) (l : list A) : In x l \/ ~ In x l.
  Proof. destruct (mem x l) eqn:E; [left; apply mem_In; exact E | right; apply mem_nIn; exact E]. Qed.

  (* ---------- Myhill-Nerode facts ---------- *)
  Lemma mn_step p q a : mn_equiv D p q -> In a (dS D) -> mn_equiv D (dstep D p a) (dstep D q a).
  Proof.
    intros Hmn Ha w Hw. specialize (Hmn (a :: w)). cbn [drun] in Hmn. apply Hmn.
    constructor; assumption.
  Qed.
  Lemma mn_sym p q : mn_equiv D p q -> mn_equiv D q p.
  Proof. intros Hmn w Hw. symmetry. apply Hmn; exact Hw. Qed.
  Lemma mn_F p q : mn_equiv D p q -> (In p (dF D) <-> In q (dF D)).
  Proof. intros Hmn. apply (Hmn []). constructor. Qed.

  Lemma mn_closed_F : mn_closed (dF D).
  Proof. intros p q Hp Hq Hmn. apply (mn_F p q Hmn). exact Hp. Qed.
  Lemma mn_closed_NF : mn_closed (diff (dQ D) (dF D)).
  Proof.
    intros p q Hp Hq Hmn. apply diff_In in Hp. apply diff_In. split; [exact Hq|].
    intros Hc. apply (proj2 Hp). apply (mn_F p q Hmn). exact Hc.
  Qed.

  (* ---------- block_of ---------- *)
  Lemma block_of_Some P x B : block_of P x = Some B -> In B P /\ In x B.
  Proof.
    induction P as [|B0 P IH]; cbn [block_of]; [discriminate|]. destruct (mem x B0) eqn:E.
    - intros E1; inversion E1; subst. split; [left; reflexivity | apply mem_In; exact E].
    - intros E1. destruct (IH E1) as [H1 H2]. split; [right; exact H1 | exact H2].
  Qed.
  Lemma block_of_ex P x B : In B P -> In x B -> exists B', block_of P x = Some B'.
  Proof.
    induction P as [|B0 P IH]; intros HB Hx; [destruct HB|]. cbn [block_of]. destruct (mem x B0) eqn:E.
    - exists B0; reflexivity.
    - destruct HB as [->|HB]; [apply mem_In in Hx; congruence|]. apply IH; assumption.
  Qed.
  Lemma block_of_unique P x B : disj P -> In B P -> In x B -> block_of P x = Some B.
  Proof.
    intros Hd HB Hx. destruct (block_of_ex P x B HB Hx) as [B' E]. rewrite E. f_equal.
    destruct (block_of_Some _ _ _ E) as [HB' Hx']. exact (Hd B' B x HB' HB Hx' Hx).
  Qed.

  Definition sameB (P : list (list A)) (x y : A) : Prop := exists B, In B P /\ In x B /\ In y B.

  Lemma seteqb_refl (l : list A) : seteqb l l = true.
  Proof. apply seteqb_seteq. intros x; tauto. Qed.

  Lemma same_block_spec P x y : disj P -> (exists B, In B P /\ In x B) -> (exists B, In B P /\ In y B) ->
    (same_block P x y = true <-> sameB P x y).
  Proof.
    intros Hd [Bx [HBx Hx]] [By [HBy Hy]]. unfold same_block.
    rewrite (block_of_unique P x Bx Hd HBx Hx), (block_of_unique P y By Hd HBy Hy). split.
    - intros E. apply seteqb_seteq in E. exists Bx. split; [exact HBx|]. split; [exact Hx | apply E; exact Hy].
    - intros [B [HB [Hx' Hy']]]. rewrite (Hd Bx B x HBx HB Hx Hx'), (Hd By B y HBy HB Hy Hy'). apply seteqb_refl.
  Qed.

  (* ================= Moore ================= *)
  Definition sig (P : list (list A)) (x y : A) : Prop :=
    forall a, In a (dS D) -> sameB P (dstep D x a) (dstep D y a).

  Section Round.
    Variable P : list (list A).
    Hypothesis Hdisj : disj P.
    Hypothesis Hcover : cover P.

    Lemma sig_refl x : In x (dQ D) -> sig P x x.
    Proof.
      intros Hx a Ha. destruct (Hcover _ (step_Q x a Hx Ha)) as [B [HB Hs]]. exists B. auto.
    Qed.
    Lemma sig_sym x y : sig P x y -> sig P y x.
    Proof. intros Hs a Ha. destruct (Hs a Ha) as [B [HB [H1 H2]]]. exists B. auto. Qed.
    Lemma sig_trans x y z : sig P x y -> sig P y z -> sig P x z.
    Proof.
      intros H1 H2 a Ha. destruct (H1 a Ha) as [B1 [HB1 [Hx Hy]]]. destruct (H2 a Ha) as [B2 [HB2 [Hy' Hz]]].
      rewrite <- (Hdisj B1 B2 _ HB1 HB2 Hy Hy') in Hz. exists B1. auto.
    Qed.
    Lemma sig_test v w : In v (dQ D) -> In w (dQ D) ->
      (forallb (fun a => same_block P (dstep D v a) (dstep D w a)) (dS D) = true <-> sig P v w).
    Proof.
      intros Hv Hw. rewrite forallb_forall. unfold sig. split; intros Hs a Ha.
      - apply same_block_spec; [exact Hdisj | apply Hcover, step_Q; assumption | apply Hcover, step_Q; assumption |].
        apply Hs; exact Ha.
      - apply same_block_spec; [exact Hdisj | apply Hcover, step_Q; assumption | apply Hcover, step_Q; assumption |].
        apply Hs; exact Ha.
    Qed.

    Fixpoint sep (WW : list (list A)) : Prop :=
      match WW with
      | [] => True
      | W :: WW' => (forall x y, In x W -> In y (concat WW') -> ~ sig P x y) /\ sep WW'
      end.
    Definition intra (WW : list (list A)) : Prop := forall W x y, In W WW -> In x W -> In y W -> sig P x y.
    Definition nonempty (WW : list (list A)) : Prop := forall W, In W WW -> W <> [].
    Definition inQ (WW : list (list A)) : Prop := forall x, In x (concat WW) -> In x (dQ D).

    Lemma place_spec v : In v (dQ D) -> forall WW, inQ WW -> nonempty WW -> intra WW -> sep WW ->
      Permutation (concat (place rep D P v WW)) (v :: concat WW) /\
      nonempty (place rep D P v WW) /\ intra (place rep D P v WW) /\ sep (place rep D P v WW).
    Proof.
      intros Hv. induction WW as [|W WW IH]; intros HQ Hne Hin Hsep.
      - cbn [place concat app]. split; [apply Permutation_refl|]. split; [|split].
        + intros W [<-|[]]. discriminate.
        + intros W x y [<-|[]] [<-|[]] [<-|[]]. apply sig_refl; exact Hv.
        + cbn. split; [intros x y _ []|exact I].
      - assert (HW : W <> []) by (apply Hne; left; reflexivity).
        destruct (rep_In W HW) as [w [Erep Hw]]. cbn [place]. rewrite Erep.
        assert (HwQ : In w (dQ D)).
        { apply HQ. cbn [concat]. apply in_or_app. left; exact Hw. }
        assert (HQ' : inQ WW).
        { intros x Hx. apply HQ. cbn [concat]. apply in_or_app. right; exact Hx. }
        assert (Hne' : nonempty WW) by (intros W' HW'; apply Hne; right; exact HW').
        assert (Hin' : intra WW) by (intros W' x y HW'; apply Hin; right; exact HW').
        cbn [sep] in Hsep. destruct Hsep as [Hsep1 Hsep2].
        destruct (forallb (fun a => same_block P (dstep D v a) (dstep D w a)) (dS D)) eqn:Et.
        + apply (sig_test v w Hv HwQ) in Et. split; [|split; [|split]].
          * cbn [concat]. rewrite <- app_assoc. cbn [app]. apply Permutation_sym, Permutation_middle.
          * intros W' [<-|HW']; [destruct W; discriminate | apply Hne'; exact HW'].
          * intros W' x y [<-|HW'] Hx Hy; [|apply (Hin' W'); assumption].
            apply in_app_or in Hx. apply in_app_or in Hy.
            assert (Hl : In W (W :: WW)) by (left; reflexivity).
            destruct Hx as [Hx|[<-|[]]], Hy as [Hy|[<-|[]]].
            -- apply (Hin W); assumption.
            -- apply sig_trans with w; [apply (Hin W); assumption | apply sig_sym; exact Et].
            -- apply sig_trans with w; [exact Et | apply (Hin W); assumption].
            -- apply sig_refl; exact Hv.
          * cbn [sep]. split; [|exact Hsep2]. intros x y Hx Hy Hs. apply in_app_or in Hx.
            destruct Hx as [Hx|[<-|[]]]; [exact (Hsep1 x y Hx Hy Hs)|].
            apply (Hsep1 w y Hw Hy). apply sig_trans with v; [apply sig_sym; exact Et | exact Hs].
        + assert (Hnt : ~ sig P v w).
          { intros Hs. apply (sig_test v w Hv HwQ) in Hs. congruence. }
          destruct (IH HQ' Hne' Hin' Hsep2) as [Hp [Hne2 [Hin2 Hsep3]]]. split; [|split; [|split]].
          * cbn [concat]. apply Permutation_trans with (W ++ v :: concat WW).
            -- apply Permutation_app_head. exact Hp.
            -- apply Permutation_sym, Permutation_middle.
          * intros W' [<-|HW']; [exact HW | apply Hne2; exact HW'].
          * intros W' x y [<-|HW'] Hx Hy; [apply (Hin W); [left; reflexivity | |]; assumption|].
            apply (Hin2 W'); assumption.
          * cbn [sep]. split; [|exact Hsep3]. intros x y Hx Hy Hs.
            apply (Permutation_in _ Hp) in Hy. destruct Hy as [<-|Hy]; [|exact (Hsep1 x y Hx Hy Hs)].
            apply Hnt. apply sig_trans with x; [apply sig_sym; exact Hs|].
            apply (Hin W); [left; reflexivity | exact Hx | exact Hw].
    Qed.

    Lemma fold_place l : forall WW, incl l (dQ D) -> inQ WW -> nonempty WW -> intra WW -> sep WW ->
      let R := fold_left (fun WW v => place rep D P v WW) l WW in
      Permutation (concat R) (l ++ concat WW) /\ nonempty R /\ intra R /\ sep R.
    Proof.
      induction l as [|v l IH]; intros WW Hl HQ Hne Hin Hsep; cbn [fold_left].
      - cbn [app]. split; [apply Permutation_refl|]. auto.
      - assert (Hv : In v (dQ D)) by (apply Hl; left; reflexivity).
        destruct (place_spec v Hv WW HQ Hne Hin Hsep) as [Hp [Hne2 [Hin2 Hsep2]]].
        assert (HQ2 : inQ (place rep D P v WW)).
        { intros x Hx. apply (Permutation_in _ Hp) in Hx. destruct Hx as [<-|Hx]; [exact Hv | apply HQ; exact Hx]. }
        assert (Hl' : incl l (dQ D)) by (intros x Hx; apply Hl; right; exact Hx).
        destruct (IH _ Hl' HQ2 Hne2 Hin2 Hsep2) as [Hp3 Hrest]. split; [|exact Hrest].
        apply Permutation_trans with (l ++ v :: concat WW).
        + apply Permutation_trans with (1 := Hp3). apply Permutation_app_head. exact Hp.
        + cbn [app]. apply Permutation_sym, Permutation_middle.
    Qed.

    Lemma sep_complete WW : sep WW -> forall W x y, In W WW -> In x W -> In y (concat WW) -> sig P x y -> In y W.
    Proof.
      induction WW as [|W0 WW IH]; intros Hsep W x y HW Hx Hy Hs; [destruct HW|].
      cbn [sep] in Hsep. destruct Hsep as [Hs1 Hs2]. cbn [concat] in Hy. apply in_app_or in Hy.
      destruct HW as [<-|HW].
      - destruct Hy as [Hy|Hy]; [exact Hy|]. exfalso. exact (Hs1 x y Hx Hy Hs).
      - destruct Hy as [Hy|Hy].
        + exfalso. apply (Hs1 y x Hy); [|apply sig_sym; exact Hs]. apply in_concat. exists W. auto.
        + apply (IH Hs2 W x y); assumption.
    Qed.

    Lemma refine_block_spec V : incl V (dQ D) ->
      let WW := refine_block ord rep D P V in
      Permutation (concat WW) V /\ nonempty WW /\
      (forall W x y, In W WW -> In x W -> In y W -> sig P x y) /\
      (forall W x y, In W WW -> In x W -> In y V -> sig P x y -> In y W).
    Proof.
      intros HV. unfold refine_block.
      assert (Hl : incl (ord V) (dQ D)).
      { intros x Hx. apply HV. apply (Permutation_in _ (ord_perm V)). exact Hx. }
      destruct (fold_place (ord V) [] Hl) as [Hp [Hne [Hin Hsep]]].
      - intros x [].
      - intros W [].
      - intros W x y [].
      - exact I.
      - cbn [concat] in Hp. rewrite app_nil_r in Hp.
        assert (HpV : Permutation (concat (fold_left (fun WW v => place rep D P v WW) (ord V) [])) V).
        { apply Permutation_trans with (1 := Hp). apply ord_perm. }
        split; [exact HpV|]. split; [exact Hne|]. split; [exact Hin|].
        intros W x y HW Hx Hy Hs. apply (sep_complete _ Hsep W x y HW Hx); [|exact Hs].
        apply (Permutation_in _ (Permutation_sym HpV)). exact Hy.
    Qed.

    Hypothesis HinclP : forall B, In B P -> incl B (dQ D).

    Lemma refine_perm_aux P0 : (forall B, In B P0 -> incl B (dQ D)) ->
      Permutation (concat (flat_map (refine_block ord rep D P) P0)) (concat P0).
    Proof.
      induction P0 as [|V P0 IH]; intros Hincl; cbn [flat_map concat]; [apply Permutation_refl|].
      rewrite concat_app. apply Permutation_app.
      - apply refine_block_spec. apply Hincl. left; reflexivity.
      - apply IH. intros B HB. apply Hincl. right; exact HB.
    Qed.
    Lemma refine_perm : Permutation (concat (refine ord rep D P)) (concat P).
    Proof. apply refine_perm_aux. exact HinclP. Qed.

    Lemma refine_blocks W : In W (refine ord rep D P) ->
      W <> [] /\ exists V, In V P /\ In W (refine_block ord rep D P V) /\ incl W V /\
        (forall x y, In x W -> In y W -> sig P x y) /\
        (forall x y, In x W -> In y V -> sig P x y -> In y W).
    Proof.
      unfold refine. intros HW. apply in_flat_map in HW. destruct HW as [V [HV HW]].
      destruct (refine_block_spec V (HinclP V HV)) as [Hp [Hne [Hin Hcomp]]].
      split; [apply Hne; exact HW|]. exists V. split; [exact HV|]. split; [exact HW|]. split; [|split].
      - intros x Hx. apply (Permutation_in _ Hp). apply in_concat. exists W. auto.
      - intros x y. apply Hin; exact HW.
      - intros x y. apply Hcomp; exact HW.
    Qed.
  End Round.

  Definition wpart (P : list (list A)) : Prop := NoDup (concat P) /\ forall q, In q (concat P) <-> In q (dQ D).
  Definition minv (P : list (list A)) : Prop := wpart P /\ refines_F D P /\ coarser_than_mn D P.

  Lemma wpart_disj P : wpart P -> disj P.
  Proof. intros [Hnd _]. exact (nodup_concat_disj P Hnd). Qed.
  Lemma wpart_cover P : wpart P -> cover P.
  Proof. intros [_ He] q Hq. apply in_concat. apply He. exact Hq. Qed.
  Lemma wpart_incl P : wpart P -> forall B, In B P -> incl B (dQ D).
  Proof. intros [_ He] B HB x Hx. apply He. apply in_concat. exists B. auto. Qed.

  Lemma minv_init : minv [dF D; diff (dQ D) (dF D)].
  Proof.
    split; [|split].
    - split.
      + cbn [concat]. rewrite app_nil_r. apply NoDup_app_intro.
        * exact HndF.
        * unfold diff. apply NoDup_filter. exact HndQ.
        * intros x Hx. apply diff_In in Hx. tauto.
      + intros q. cbn [concat]. rewrite app_nil_r, in_app_iff, diff_In. split.
        * intros [Hq|[Hq _]]; [apply Hwf; exact Hq | exact Hq].
        * intros Hq. destruct (In_dec_l q (dF D)); tauto.
    - intros B p q [<-|[<-|[]]] Hp Hq; [tauto|]. apply diff_In in Hp, Hq. tauto.
    - intros B p q [<-|[<-|[]]] Hp Hq Hmn; [exact (mn_closed_F p q Hp Hq Hmn) | exact (mn_closed_NF p q Hp Hq Hmn)].
  Qed.

  Lemma minv_refine P : minv P -> minv (refine ord rep D P) /\ (forall W, In W (refine ord rep D P) -> W <> []).
  Proof.
    intros [Hwp [HF Hco]].
    pose proof (wpart_disj P Hwp) as Hd. pose proof (wpart_cover P Hwp) as Hc. pose proof (wpart_incl P Hwp) as Hi.
    pose proof (refine_perm P Hd Hc Hi) as Hperm.
    split; [|intros W HW; apply (refine_blocks P Hd Hc Hi W HW)].
    split; [|split].
    - destruct Hwp as [Hnd He]. split.
      + apply (Permutation_NoDup (Permutation_sym Hperm)). exact Hnd.
      + intros q. rewrite <- He. split; apply Permutation_in; [exact Hperm | apply Permutation_sym; exact Hperm].
    - intros W p q HW Hp Hq. destruct (refine_blocks P Hd Hc Hi W HW) as [_ [V [HV [_ [Hsub _]]]]].
      apply (HF V); [exact HV | apply Hsub; exact Hp | apply Hsub; exact Hq].
    - intros W p q HW Hp Hq Hmn. destruct (refine_blocks P Hd Hc Hi W HW) as [_ [V [HV [_ [Hsub [_ Hcomp]]]]]].
      apply (Hcomp p q Hp).
      + apply (Hco V p q HV); [apply Hsub; exact Hp | exact Hq | exact Hmn].
      + intros a Ha. assert (HpQ : In p (dQ D)) by (apply (Hi V HV), Hsub, Hp).
        destruct (Hc _ (step_Q p a HpQ Ha)) as [B [HB Hs]]. exists B. split; [exact HB|]. split; [exact Hs|].
        apply (Hco B (dstep D p a) (dstep D q a) HB Hs); [apply step_Q; assumption | apply mn_step; assumption].
  Qed.

  Lemma blocks_subset_spec P1 P2 : blocks_subset P1 P2 = true <-> forall B, In B P1 -> exists B', In B' P2 /\ seteq B B'.
  Proof.
    unfold blocks_subset. rewrite forallb_forall. split; intros Hs B HB.
    - specialize (Hs B HB). apply existsb_exists in Hs. destruct Hs as [B' [HB' E]]. exists B'. split; [exact HB'|].
      apply seteqb_seteq; exact E.
    - destruct (Hs B HB) as [B' [HB' E]]. apply existsb_exists. exists B'. split; [exact HB'|]. apply seteqb_seteq; exact E.
  Qed.

  Lemma moore_exit P : minv P -> blocks_subset P (refine ord rep D P) = true ->
    good_partition P /\ refines_F D P /\ stable D P /\ coarser_than_mn D P.
  Proof.
    intros [Hwp [HF Hco]] Hbs.
    pose proof (wpart_disj P Hwp) as Hd. pose proof (wpart_cover P Hwp) as Hc. pose proof (wpart_incl P Hwp) as Hi.
    rewrite blocks_subset_spec in Hbs.
    split; [|split; [exact HF|split; [|exact Hco]]].
    - split; [|split; [exact Hc | exact Hd]]. intros B HB. split; [|apply Hi; exact HB].
      destruct (Hbs B HB) as [W [HW He]]. destruct (refine_blocks P Hd Hc Hi W HW) as [Hne _].
      intros ->. destruct W as [|x W]; [congruence|]. apply (He x). left; reflexivity.
    - intros B C a p q HB HC Ha Hp Hq Hs.
      destruct (Hbs B HB) as [W [HW He]]. destruct (refine_blocks P Hd Hc Hi W HW) as [_ [V [_ [_ [_ [Hin _]]]]]].
      assert (Hsig : sig P p q) by (apply Hin; apply He; assumption).
      destruct (Hsig a Ha) as [C' [HC' [H1 H2]]]. rewrite (Hd C C' _ HC HC' Hs H1). exact H2.
  Qed.

  Lemma moore_loop_correct_gen fuel : forall P P', minv P -> moore_loop ord rep D fuel P = Some P' ->
    good_partition P' /\ refines_F D P' /\ stable D P' /\ coarser_than_mn D P'.
  Proof.
    induction fuel as [|f IH]; intros P P' Hinv; cbn [moore_loop]; [discriminate|].
    destruct (equal_sets P (refine ord rep D P)) eqn:E.
    - intros E1; inversion E1; subst P'. unfold equal_sets in E. apply andb_true_iff in E.
      apply moore_exit; [exact Hinv | apply E].
    - apply IH. apply minv_refine. exact Hinv.
  Qed.

  Theorem moore_loop_correct P : moore_loop ord rep D (S (S (length (dQ D)))) [dF D; diff (dQ D) (dF D)] = Some P ->
    good_partition P /\ refines_F D P /\ stable D P /\ coarser_than_mn D P.
  Proof. apply moore_loop_correct_gen. exact minv_init. Qed.

  (* ---------- termination ---------- *)
  Lemma refine_block_nonempty P V : disj P -> cover P -> incl V (dQ D) -> V <> [] -> refine_block ord rep D P V <> [].
  Proof.
    intros Hd Hc HV Hne E. destruct (refine_block_spec P Hd Hc V HV) as [Hp _]. rewrite E in Hp. cbn [concat] in Hp.
    apply Permutation_nil in Hp. contradiction.
  Qed.

  Lemma refine_grows P : wpart P -> (forall B, In B P -> B <> []) -> equal_sets P (refine ord rep D P) = false ->
    length P < length (refine ord rep D P).
  Proof.
    intros Hwp Hne Heq.
    pose proof (wpart_disj P Hwp) as Hd. pose proof (wpart_cover P Hwp) as Hc. pose proof (wpart_incl P Hwp) as Hi.
    destruct (Nat.lt_ge_cases (length P) (length (refine ord rep D P))) as [Hlt|Hge]; [exact Hlt|exfalso].
    assert (Hne2 : forall V, In V P -> refine_block ord rep D P V <> []).
    { intros V HV. apply refine_block_nonempty; auto. }
    pose proof (flat_map_len_single (refine_block ord rep D P) P Hne2 Hge) as Hsingle.
    assert (Hse : forall V, In V P -> exists W, refine_block ord rep D P V = [W] /\ seteq V W).
    { intros V HV. destruct (Hsingle V HV) as [W EW]. exists W. split; [exact EW|].
      destruct (refine_block_spec P Hd Hc V (Hi V HV)) as [Hp _]. rewrite EW in Hp. cbn [concat] in Hp.
      rewrite app_nil_r in Hp. intros x. split; apply Permutation_in; [apply Permutation_sym; exact Hp | exact Hp]. }
    assert (Et : equal_sets P (refine ord rep D P) = true); [|congruence].
    unfold equal_sets. apply andb_true_iff. split; apply blocks_subset_spec.
    - intros B HB. destruct (Hse B HB) as [W [EW Hs]]. exists W. split; [|exact Hs].
      unfold refine. apply in_flat_map. exists B. split; [exact HB|]. rewrite EW. left; reflexivity.
    - intros W HW. unfold refine in HW. apply in_flat_map in HW. destruct HW as [V [HV HW]].
      destruct (Hse V HV) as [W' [EW Hs]]. rewrite EW in HW. destruct HW as [<-|[]].
      exists V. split; [exact HV|]. intros x. symmetry. apply Hs.
  Qed.

  Lemma wpart_length P : wpart P -> (forall B, In B P -> B <> []) -> length P <= length (dQ D).
  Proof.
    intros [Hnd He] Hne. apply Nat.le_trans with (length (concat P)); [apply len_concat_ge; exact Hne|].
    apply NoDup_incl_length; [exact Hnd|]. intros x Hx. apply He. exact Hx.
  Qed.

  Lemma moore_loop_terminates_gen fuel : forall P, minv P -> (forall B, In B P -> B <> []) ->
    length (dQ D) < fuel + length P -> moore_loop ord rep D fuel P <> None.
  Proof.
    induction fuel as [|f IH]; intros P Hinv Hne Hlen.
    - pose proof (wpart_length P (proj1 Hinv) Hne). lia.
    - cbn [moore_loop]. destruct (equal_sets P (refine ord rep D P)) eqn:E; [discriminate|].
      destruct (minv_refine P Hinv) as [Hinv' Hne']. apply IH; [exact Hinv' | exact Hne' |].
      pose proof (refine_grows P (proj1 Hinv) Hne E). lia.
  Qed.

  Theorem moore_loop_terminates : moore_loop ord rep D (S (S (length (dQ D)))) [dF D; diff (dQ D) (dF D)] <> None.
  Proof.
    remember (S (length (dQ D))) as f eqn:Ef. cbn [moore_loop]. destruct (equal_sets _ _); [discriminate|].
    destruct (minv_refine _ minv_init) as [Hinv' Hne']. apply moore_loop_terminates_gen; [exact Hinv' | exact Hne' | lia].
  Qed.

End MH.
