(* Property C01: the executable DFA/NFA acceptance routines (with epsilon closure and the cache tables)
   compute the textbook languages. *)
From GT Require Import Base.Prelude Base.Worklist Model.DFA Model.NFA Proofs.WorklistProofs.

(* ================================================================= DFA *)
Section DFAP.
  Context {A : Type} `{Eqb A}.

  Lemma ddelta_wf (D : dfa A) q a q1 : dfa_wf D -> ddelta D q a = Some q1 -> In q1 (dQ D).
  Proof.
    intros (_ & _ & Hd & _) E. unfold ddelta in E. apply lookup_In in E. apply Hd in E. tauto.
  Qed.

  Lemma dfa_run_correct (D : dfa A) : dfa_wf D -> forall (w : word) q, In q (dQ D) -> Forall (fun a => In a (dS D)) w ->
    exists q', dfa_run D q w = Some q' /\ In q' (dQ D) /\ forall q'', dfa_path D q w q'' <-> q'' = q'.
  Proof.
    intros Hwf. induction w as [|a w IH]; intros q Hq Hw.
    - exists q. cbn [dfa_run]. split; [reflexivity|]. split; [exact Hq|]. intros q''. split.
      + intros Hp. inversion Hp; subst. reflexivity.
      + intros ->. constructor.
    - inversion Hw as [|a' w' Ha Hw']; subst. cbn [dfa_run].
      destruct (ddelta D q a) as [q1|] eqn:Ed.
      + destruct (IH q1 (ddelta_wf D q a q1 Hwf Ed) Hw') as (q' & Er & Hq' & Hp).
        exists q'. split; [exact Er|]. split; [exact Hq'|].
        intros q''. split.
        * intros Hpath. inversion Hpath as [|q0 a0 q10 w0 q20 Ed' Hp']; subst.
          rewrite Ed in Ed'. inversion Ed'; subst. apply Hp; exact Hp'.
        * intros ->. apply dp_cons with q1; [exact Ed | apply Hp; reflexivity].
      + exfalso. destruct Hwf as (_ & _ & _ & Ht). apply (Ht q a Hq Ha Ed).
  Qed.

  Theorem dfa_accepts_correct : forall (D : dfa A) (w : word), dfa_wf D -> Forall (fun a => In a (dS D)) w ->
     exists b, dfa_accepts D w = Some b /\ (b = true <-> dfa_lang D w).
  Proof.
    intros D w Hwf Hw. assert (Hq0 : In (dq0 D) (dQ D)) by (destruct Hwf as (Hq & _); exact Hq).
    destruct (dfa_run_correct D Hwf w (dq0 D) Hq0 Hw) as (q' & Er & Hq' & Hp).
    unfold dfa_accepts. rewrite Er. exists (mem q' (dF D)). split; [reflexivity|].
    rewrite mem_In. unfold dfa_lang. split.
    - intros HF. exists q'. split; [apply Hp; reflexivity | exact HF].
    - intros (qf & Hpath & HF). apply Hp in Hpath. subst qf. exact HF.
  Qed.

  Lemma dfa_wf_b_spec : forall (D : dfa A), dfa_wf_b D = true <-> dfa_wf D.
  Proof.
    intros D. unfold dfa_wf_b, dfa_wf. rewrite !andb_true_iff, mem_In, subsetb_incl, !forallb_forall.
    split.
    - intros (((H1 & H2) & H3) & H4). split; [exact H1|]. split; [exact H2|]. split.
      + intros q a q1 Hin. specialize (H3 _ Hin). cbn in H3.
        rewrite !andb_true_iff, !mem_In in H3. tauto.
      + intros q a Hq Ha. specialize (H4 q Hq). rewrite forallb_forall in H4. specialize (H4 a Ha).
        destruct (ddelta D q a); [discriminate | discriminate].
    - intros (H1 & H2 & H3 & H4). split; [split; [split|]|]; auto.
      + intros [[q a] q1] Hin. apply H3 in Hin. rewrite !andb_true_iff, !mem_In. tauto.
      + intros q Hq. rewrite forallb_forall. intros a Ha. specialize (H4 q a Hq Ha).
        destruct (ddelta D q a); [reflexivity | contradiction].
  Qed.
End DFAP.

(* ================================================================= NFA *)
Lemma add_length {A} `{Eqb A} (x : A) l : length (add x l) <= S (length l).
Proof. unfold add. destruct (mem x l); [lia|]. rewrite app_length. cbn [length]. lia. Qed.

Lemma union_length {A} `{Eqb A} (l2 : list A) : forall l1, length (union l1 l2) <= length l1 + length l2.
Proof.
  induction l2 as [|x l2 IH]; intros l1; cbn [union length]; [lia|].
  specialize (IH (add x l1)). pose proof (add_length x l1). lia.
Qed.

Lemma lookup_map_graph {A B} `{Eqb A} (f : A -> B) (l : list A) (q : A) :
  lookup q (map (fun q => (q, f q)) l) = if mem q l then Some (f q) else None.
Proof.
  induction l as [|x l IH]; cbn [map lookup]; [reflexivity|].
  unfold mem. cbn [existsb]. fold (mem q l). destruct (eqb q x) eqn:E.
  - apply eqb_true in E. subst x. reflexivity.
  - cbn [orb]. exact IH.
Qed.

Lemma picker_some {A} (pick : picker A) todo x rest : picker_ok pick -> pick todo = Some (x, rest) ->
  (forall y, In y todo <-> y = x \/ In y rest) /\ length rest < length todo.
Proof.
  intros [Hnil Hsome] Hp. destruct todo as [|t0 todo0]; [rewrite Hnil in Hp; discriminate|].
  destruct (Hsome (t0 :: todo0)) as (x' & rest' & Hp' & Hperm & Hlen); [discriminate|].
  rewrite Hp in Hp'. inversion Hp'; subst x' rest'. split; assumption.
Qed.

Lemma picker_none {A} (pick : picker A) todo : picker_ok pick -> pick todo = None -> todo = [].
Proof.
  intros [Hnil Hsome] Hp. destruct todo as [|t0 todo0]; [reflexivity|].
  destruct (Hsome (t0 :: todo0)) as (x' & rest' & Hp' & _); [discriminate|]. congruence.
Qed.

Lemma pick_head_ok {A} : picker_ok (@pick_head A).
Proof.
  split; [reflexivity|]. intros [|x r] Hne; [congruence|]. exists x, r. split; [reflexivity|]. split.
  - intros y. cbn [In]. split; (intros [Hy|Hy]; [left; congruence | right; exact Hy]).
  - cbn [length]. lia.
Qed.

Section NFAP.
  Context {A : Type} `{Eqb A}.

  Lemma ndelta_wf (N : nfa A) q a : nfa_wf N -> incl (ndelta N q a) (nQ N).
  Proof.
    intros (_ & _ & _ & Hd). unfold ndelta. destruct (lookup (q, a) (nD N)) as [s|] eqn:E.
    - apply lookup_In in E. apply Hd in E. tauto.
    - intros x [].
  Qed.

  Lemma eps_star_snoc (N : nfa A) q q1 q2 : eps_star N q q1 -> In q2 (ndelta N q1 (neps N)) -> eps_star N q q2.
  Proof.
    intros Hs. induction Hs as [q|q q1 q2' Hin Hs IH]; intros H2.
    - eapply es_step; [exact H2 | apply es_refl].
    - eapply es_step; [exact Hin | apply IH; exact H2].
  Qed.

  Lemma eps_star_trans (N : nfa A) q q1 q2 : eps_star N q q1 -> eps_star N q1 q2 -> eps_star N q q2.
  Proof.
    intros Hs. induction Hs as [q|q q1 q2' Hin Hs IH]; intros H2; [exact H2|].
    eapply es_step; [exact Hin | apply IH; exact H2].
  Qed.

  (* ---------------- epsilon closure ---------------- *)
  Definition EInv (N : nfa A) (S0 result todo : list A) : Prop :=
    (forall x, In x S0 -> In x result) /\
    (forall x, In x result -> exists s, In s S0 /\ eps_star N s x) /\
    (forall x, In x todo -> In x result) /\
    (forall x y, In x result -> ~ In x todo -> In y (ndelta N x (neps N)) -> In y result).

  Lemma EInv_step N S0 result todo x rest Q1 :
    EInv N S0 result todo ->
    (forall y, In y todo <-> y = x \/ In y rest) ->
    (forall z, In z Q1 <-> In z (ndelta N x (neps N)) /\ ~ In z result) ->
    EInv N S0 (result ++ Q1) (union rest Q1).
  Proof.
    intros (I1 & I2 & I3 & I4) Hperm Hin.
    assert (Hx : In x result) by (apply I3, Hperm; left; reflexivity).
    repeat split.
    - intros z Hz. apply in_or_app. left. apply I1; exact Hz.
    - intros z Hz. apply in_app_or in Hz. destruct Hz as [Hz|Hz]; [apply I2; exact Hz|].
      apply Hin in Hz. destruct Hz as [Hz _]. destruct (I2 x Hx) as (s & Hs & Hsx).
      exists s. split; [exact Hs|]. apply eps_star_snoc with x; assumption.
    - intros z Hz. apply in_or_app. apply union_In in Hz. destruct Hz as [Hz|Hz]; [left|right; exact Hz].
      apply I3, Hperm. right; exact Hz.
    - intros u v Hu Hnu Hv. apply in_or_app.
      assert (Hsx : forall z, In z (ndelta N x (neps N)) -> In z result \/ In z Q1).
      { intros z Hz. destruct (mem z result) eqn:Hm; [left; apply mem_In; exact Hm|].
        right. apply Hin. split; [exact Hz | apply mem_nIn; exact Hm]. }
      apply in_app_or in Hu. destruct Hu as [Hu|Hu].
      + destruct (eqb_dec u x) as [Hux|Hux].
        * subst u. apply Hsx; exact Hv.
        * left. apply I4 with u; auto. intros Hc. apply Hperm in Hc. destruct Hc as [Hc|Hc]; [congruence|].
          apply Hnu. apply union_In. left; exact Hc.
      + exfalso. apply Hnu. apply union_In. right; exact Hu.
  Qed.

  Lemma eclose_loop_correct (N : nfa A) (pick : picker A) (S0 : list A) :
    nfa_wf N -> picker_ok pick ->
    forall fuel result todo, EInv N S0 result todo -> NoDup result -> incl result (nQ N) ->
      length (nQ N) + length todo - length result < fuel ->
      exists r, eclose_loop pick N fuel result todo = Some r /\
                (forall q, In q r <-> exists s, In s S0 /\ eps_star N s q) /\ NoDup r /\ incl r (nQ N).
  Proof.
    intros Hwf Hpick. induction fuel as [|f IH]; intros result todo HI Hnd Hincl Hf; [lia|].
    cbn [eclose_loop]. destruct (pick todo) as [[x rest]|] eqn:Hp.
    - destruct (picker_some pick todo x rest Hpick Hp) as [Hperm Hlen].
      set (Q1 := dedup (diff (ndelta N x (neps N)) result)).
      assert (Hin : forall z, In z Q1 <-> In z (ndelta N x (neps N)) /\ ~ In z result).
      { intros z. unfold Q1. rewrite dedup_In, diff_In. tauto. }
      assert (HndQ : NoDup Q1) by (apply dedup_NoDup).
      assert (Hnd' : NoDup (result ++ Q1)).
      { apply NoDup_app_intro; auto. intros z Hz Hc. apply Hin in Hc. tauto. }
      assert (Hincl' : incl (result ++ Q1) (nQ N)).
      { intros z Hz. apply in_app_or in Hz. destruct Hz as [Hz|Hz]; [apply Hincl; exact Hz|].
        apply Hin in Hz. destruct Hz as [Hz _]. apply (ndelta_wf N x (neps N) Hwf); exact Hz. }
      apply IH; auto.
      + apply EInv_step with todo x; assumption.
      + pose proof (NoDup_incl_length Hnd' Hincl') as Hle.
        pose proof (union_length Q1 rest) as Hu.
        rewrite app_length in *. lia.
    - apply (picker_none pick todo Hpick) in Hp. subst todo.
      exists result. split; [reflexivity|]. split; [|split; assumption].
      destruct HI as (I1 & I2 & I3 & I4). intros q. split; [apply I2|].
      intros (s & Hs & Hsq). apply I1 in Hs. revert Hs.
      induction Hsq as [q|q q1 q2 Hq1 Hs IHs]; intros Hq; [exact Hq|].
      apply IHs. apply I4 with q; auto.
  Qed.

  Theorem eclose_correct : forall (N : nfa A) (pick : picker A) (S0 : list A),
    nfa_wf N -> picker_ok pick -> incl S0 (nQ N) ->
    exists r, eclose_with pick N S0 = Some r /\
              (forall q, In q r <-> exists s, In s S0 /\ eps_star N s q) /\ NoDup r /\ incl r (nQ N).
  Proof.
    intros N pick S0 Hwf Hpick Hincl. unfold eclose_with.
    apply eclose_loop_correct; auto.
    - repeat split.
      + intros x Hx. apply dedup_In; exact Hx.
      + intros x Hx. exists x. split; [rewrite <- dedup_In; exact Hx | apply es_refl].
      + auto.
      + intros x y Hx Hn. contradiction.
    - apply dedup_NoDup.
    - intros x Hx. apply Hincl. rewrite <- dedup_In; exact Hx.
    - lia.
  Qed.

  Corollary eclose_spec : forall (N : nfa A) S0, nfa_wf N -> incl S0 (nQ N) ->
    forall q, In q (eclose N S0) <-> exists s, In s S0 /\ eps_star N s q.
  Proof.
    intros N S0 Hwf Hincl q. unfold eclose.
    destruct (eclose_correct N pick_head S0 Hwf pick_head_ok Hincl) as (r & Er & Hr & _).
    rewrite Er. apply Hr.
  Qed.

  Lemma eclose_incl (N : nfa A) S0 : nfa_wf N -> incl S0 (nQ N) -> incl (eclose N S0) (nQ N).
  Proof.
    intros Hwf Hincl. unfold eclose.
    destruct (eclose_correct N pick_head S0 Hwf pick_head_ok Hincl) as (r & Er & _ & _ & Hr).
    rewrite Er. exact Hr.
  Qed.

  Lemma eclose_NoDup (N : nfa A) S0 : nfa_wf N -> incl S0 (nQ N) -> NoDup (eclose N S0).
  Proof.
    intros Hwf Hincl. unfold eclose.
    destruct (eclose_correct N pick_head S0 Hwf pick_head_ok Hincl) as (r & Er & _ & Hr & _).
    rewrite Er. exact Hr.
  Qed.

  (* ---------------- cache tables ---------------- *)
  Lemma nfa_Eq_spec (N : nfa A) q : nfa_wf N -> In q (nQ N) ->
    Eq_get (nfa_Eq N) q = Some (eclose N [q]) /\ forall p, In p (eclose N [q]) <-> eps_star N q p.
  Proof.
    intros Hwf Hq. split.
    - unfold Eq_get, nfa_Eq. rewrite lookup_map_graph. apply mem_In in Hq. rewrite Hq. reflexivity.
    - intros p. rewrite eclose_spec; [|exact Hwf|intros x [<-|[]]; exact Hq]. split.
      + intros (s & [<-|[]] & Hs). exact Hs.
      + intros Hs. exists q. split; [left; reflexivity | exact Hs].
  Qed.

  Lemma union_Eq_spec (N : nfa A) : nfa_wf N -> forall qs, incl qs (nQ N) ->
    exists u, union_Eq (nfa_Eq N) qs = Some u /\ forall p, In p u <-> exists q1, In q1 qs /\ eps_star N q1 p.
  Proof.
    intros Hwf. induction qs as [|q qs IH]; intros Hincl.
    - exists []. split; [reflexivity|]. intros p. split; [intros [] | intros (q1 & [] & _)].
    - destruct IH as (r & Er & Hr); [intros x Hx; apply Hincl; right; exact Hx|].
      destruct (nfa_Eq_spec N q Hwf) as [Eg Hg]; [apply Hincl; left; reflexivity|].
      cbn [union_Eq]. rewrite Eg, Er. exists (union (eclose N [q]) r). split; [reflexivity|].
      intros p. rewrite union_In, Hg, Hr. split.
      + intros [Hs|(q1 & Hq1 & Hs)]; [exists q; split; [left; reflexivity | exact Hs] | exists q1; split; [right; exact Hq1 | exact Hs]].
      + intros (q1 & [<-|Hq1] & Hs); [left; exact Hs | right; exists q1; split; assumption].
  Qed.

  Lemma nfa_Eqa_of_spec (N : nfa A) : nfa_wf N -> forall d : list ((A * nat) * list A),
    (forall k s, In (k, s) d -> incl s (nQ N)) ->
    exists r, nfa_Eqa_of (nfa_Eq N) d = Some r /\
      forall k, lookup k r = match lookup k d with Some s => union_Eq (nfa_Eq N) s | None => None end.
  Proof.
    intros Hwf. induction d as [|[k0 s0] d IH]; intros Hd.
    - exists []. split; [reflexivity|]. intros k. reflexivity.
    - destruct IH as (r & Er & Hr); [intros k s Hin; apply (Hd k s); right; exact Hin|].
      destruct (union_Eq_spec N Hwf s0) as (u & Eu & _); [apply (Hd k0 s0); left; reflexivity|].
      cbn [nfa_Eqa_of]. rewrite Eu, Er. exists ((k0, u) :: r). split; [reflexivity|].
      intros k. cbn [lookup]. destruct (eqb k k0); [symmetry; exact Eu | apply Hr].
  Qed.

  Theorem nfa_cache_correct : forall (N : nfa A), nfa_wf N ->
     (forall q, In q (nQ N) -> exists s, Eq_get (nfa_Eq N) q = Some s /\ forall p, In p s <-> eps_star N q p) /\
     exists Eqa, nfa_Eqa N = Some Eqa /\
       forall q a p, In p (Eqa_get Eqa q a) <-> exists q1, In q1 (ndelta N q a) /\ eps_star N q1 p.
  Proof.
    intros N Hwf. split.
    - intros q Hq. exists (eclose N [q]). apply nfa_Eq_spec; assumption.
    - assert (Hd : forall (k : A * nat) s, In (k, s) (nD N) -> incl s (nQ N)).
      { intros [q a] s Hin. destruct Hwf as (_ & _ & _ & Hd). apply Hd in Hin. tauto. }
      destruct (nfa_Eqa_of_spec N Hwf (nD N) Hd) as (Eqa & E & Hl).
      exists Eqa. split; [exact E|]. intros q a p. unfold Eqa_get, ndelta. rewrite Hl.
      destruct (lookup (q, a) (nD N)) as [s|] eqn:El.
      + apply lookup_In in El. destruct (union_Eq_spec N Hwf s (Hd _ _ El)) as (u & Eu & Hu).
        rewrite Eu. apply Hu.
      + split; [intros [] | intros (q1 & [] & _)].
  Qed.

  (* ---------------- acceptance ---------------- *)
  (* set-stepping semantic: a letter step followed by an epsilon closure *)
  Fixpoint spath (N : nfa A) (q : A) (w : word) (q' : A) : Prop :=
    match w with
    | [] => q = q'
    | a :: w' => exists q1 p, In q1 (ndelta N q a) /\ eps_star N q1 p /\ spath N p w' q'
    end.

  Lemma eps_star_path (N : nfa A) q p w q' : eps_star N q p -> nfa_path N p w q' -> nfa_path N q w q'.
  Proof.
    intros Hs. induction Hs as [q|q q1 q2 Hin Hs IH]; intros Hp; [exact Hp|].
    eapply np_eps; [exact Hin | apply IH; exact Hp].
  Qed.

  Lemma spath_path (N : nfa A) : forall (w : word) q q', spath N q w q' -> nfa_path N q w q'.
  Proof.
    induction w as [|a w IH]; intros q q' Hs; cbn [spath] in Hs.
    - subst q'. apply np_nil.
    - destruct Hs as (q1 & p & Hq1 & Hst & Hs). eapply np_sym; [exact Hq1|].
      apply eps_star_path with p; [exact Hst | apply IH; exact Hs].
  Qed.

  (* nfa_path = epsilon closure, then set-stepping *)
  Lemma nfa_path_spath (N : nfa A) q (w : word) q' :
    nfa_path N q w q' <-> exists p, eps_star N q p /\ spath N p w q'.
  Proof.
    split.
    - intros Hp. induction Hp as [q|q q1 w q2 Hin Hp IH|q a q1 w q2 Hin Hp IH].
      + exists q. split; [apply es_refl | reflexivity].
      + destruct IH as (p & Hs & Hsp). exists p. split; [eapply es_step; eassumption | exact Hsp].
      + destruct IH as (p & Hs & Hsp). exists q. split; [apply es_refl|].
        cbn [spath]. exists q1, p. split; [exact Hin|]. split; assumption.
    - intros (p & Hs & Hsp). apply eps_star_path with p; [exact Hs | apply spath_path; exact Hsp].
  Qed.

  Lemma nfa_step_set_In (Eqa : list ((A * nat) * list A)) X a p :
    In p (nfa_step_set Eqa X a) <-> exists q, In q X /\ In p (Eqa_get Eqa q a).
  Proof.
    unfold nfa_step_set. rewrite big_union_In. split.
    - intros (l & Hl & Hp). apply in_map_iff in Hl. destruct Hl as (q & <- & Hq). exists q. split; assumption.
    - intros (q & Hq & Hp). exists (Eqa_get Eqa q a). split; [|exact Hp]. apply in_map_iff. exists q. split; [reflexivity | exact Hq].
  Qed.

  Lemma fold_step_spec (N : nfa A) Eqa :
    (forall q a p, In p (Eqa_get Eqa q a) <-> exists q1, In q1 (ndelta N q a) /\ eps_star N q1 p) ->
    forall (w : word) X q', In q' (fold_left (nfa_step_set Eqa) w X) <-> exists q, In q X /\ spath N q w q'.
  Proof.
    intros HE. induction w as [|a w IH]; intros X q'; cbn [fold_left spath].
    - split; [intros Hq; exists q'; split; [exact Hq | reflexivity] | intros (q & Hq & <-); exact Hq].
    - rewrite IH. split.
      + intros (p & Hp & Hs). apply nfa_step_set_In in Hp. destruct Hp as (q & Hq & Hp).
        apply HE in Hp. destruct Hp as (q1 & Hq1 & Hst). exists q. split; [exact Hq|].
        exists q1, p. split; [exact Hq1|]. split; assumption.
      + intros (q & Hq & q1 & p & Hq1 & Hst & Hs). exists p. split; [|exact Hs].
        apply nfa_step_set_In. exists q. split; [exact Hq|]. apply HE. exists q1. split; assumption.
  Qed.

  (* the run of the subset simulation is exactly the set of states reachable by nfa_path *)
  Lemma nfa_run_spec (N : nfa A) Eqa S0 : nfa_wf N -> nfa_Eqa N = Some Eqa -> Eq_get (nfa_Eq N) (nq0 N) = Some S0 ->
    forall (w : word) q', In q' (fold_left (nfa_step_set Eqa) w S0) <-> nfa_path N (nq0 N) w q'.
  Proof.
    intros Hwf E ES0 w q'.
    destruct (nfa_cache_correct N Hwf) as [HEq (Eqa' & E' & HEqa)].
    rewrite E in E'. inversion E'; subst Eqa'.
    assert (Hq0 : In (nq0 N) (nQ N)) by (destruct Hwf as (Hq & _); exact Hq).
    destruct (HEq _ Hq0) as (S0' & ES0' & HS0). rewrite ES0 in ES0'. inversion ES0'; subst S0'.
    rewrite (fold_step_spec N Eqa HEqa), nfa_path_spath. split.
    - intros (q & Hq & Hs). exists q. split; [apply HS0; exact Hq | exact Hs].
    - intros (q & Hq & Hs). exists q. split; [apply HS0; exact Hq | exact Hs].
  Qed.

  Theorem nfa_accepts_correct : forall (N : nfa A) (w : word), nfa_wf N -> Forall (fun a => In a (nS N)) w ->
     exists b, nfa_accepts N w = Some b /\ (b = true <-> nfa_lang N w).
  Proof.
    intros N w Hwf _.
    destruct (nfa_cache_correct N Hwf) as [HEq (Eqa & E & HEqa)].
    assert (Hq0 : In (nq0 N) (nQ N)) by (destruct Hwf as (Hq & _); exact Hq).
    destruct (HEq _ Hq0) as (S0 & ES0 & HS0).
    unfold nfa_accepts. rewrite E, ES0.
    exists (meetsb (fold_left (nfa_step_set Eqa) w S0) (nF N)). split; [reflexivity|].
    rewrite meetsb_spec. unfold nfa_lang. split.
    - intros (x & Hx & HF). exists x. split; [|exact HF]. apply (nfa_run_spec N Eqa S0 Hwf E ES0); exact Hx.
    - intros (x & Hx & HF). exists x. split; [|exact HF]. apply (nfa_run_spec N Eqa S0 Hwf E ES0); exact Hx.
  Qed.

  Lemma nfa_wf_b_spec : forall (N : nfa A), nfa_wf_b N = true <-> nfa_wf N.
  Proof.
    intros N. unfold nfa_wf_b, nfa_wf.
    rewrite !andb_true_iff, mem_In, subsetb_incl, negb_true_iff, mem_nIn, forallb_forall.
    split.
    - intros (((H1 & H2) & H3) & H4). split; [exact H1|]. split; [exact H2|]. split; [exact H3|].
      intros q a s Hin. specialize (H4 _ Hin). cbn in H4.
      rewrite !andb_true_iff, orb_true_iff, !mem_In, subsetb_incl, Nat.eqb_eq in H4. tauto.
    - intros (H1 & H2 & H3 & H4). split; [split; [split|]|]; auto.
      intros [[q a] s] Hin. apply H4 in Hin.
      rewrite !andb_true_iff, orb_true_iff, !mem_In, subsetb_incl, Nat.eqb_eq. tauto.
  Qed.
End NFAP.

Print Assumptions dfa_accepts_correct.
Print Assumptions dfa_wf_b_spec.
Print Assumptions eclose_correct.
Print Assumptions eclose_spec.
Print Assumptions nfa_cache_correct.
Print Assumptions nfa_accepts_correct.
Print Assumptions nfa_wf_b_spec.
