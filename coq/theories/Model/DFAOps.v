(* Model of the DFA closure constructions of gambatools.dfa_algorithms: dfa_complement, dfa_product (union /
   intersection / symmetric_difference), dfa_reverse, dfa_no_prefix, dfa_reachable_states,
   dfa_remove_unreachable_states, dfa_no_extend, dfa_make_total(_in_place).  Definitions only.
   Fresh states (fresh_state(Q, hint)) are parameters constrained by `~ In fresh Q` in the theorems. *)
From GT Require Import Base.Prelude Model.DFA Model.NFA.

Section Ops.
  Context {A : Type} `{Eqb A}.

  Definition dfa_complement (D : dfa A) : dfa A :=
    mkDFA (dQ D) (dS D) (dD D) (dq0 D) (diff (dQ D) (dF D)).

  (* fold over a list of options *)
  Fixpoint all_some {X} (l : list (option X)) : option (list X) :=
    match l with
    | [] => Some []
    | None :: _ => None
    | Some x :: l' => match all_some l' with Some r => Some (x :: r) | None => None end
    end.

  (* ---- dfa_reverse: NFA with a fresh initial state and epsilon moves to the old accepting states ---- *)
  Definition dfa_reverse (fresh : A) (eps : nat) (D : dfa A) : option (nfa A) :=
    if mem eps (dS D) then None   (* NFA._check_validity: assert epsilon not in Sigma *)
    else
      let rev_edges := flat_map (fun q1 => flat_map (fun a =>
                         let src := dedup (map (fun e => fst (fst e))
                                      (filter (fun e => eqb (snd e) q1 && Nat.eqb (snd (fst e)) a) (dD D))) in
                         match src with [] => [] | _ => [((q1, a), src)] end) (dS D)) (dQ D) in
      Some (mkNFA (add fresh (dQ D)) (dS D) (rev_edges ++ [((fresh, eps), dF D)]) fresh [dq0 D] eps).

  (* ---- dfa_no_prefix: drop the outgoing transitions of accepting states ---- *)
  Definition dfa_no_prefix (eps : nat) (D : dfa A) : option (nfa A) :=
    if mem eps (dS D) then None
    else Some (mkNFA (dQ D) (dS D)
                 (map (fun e => (fst e, [snd e])) (filter (fun e => negb (mem (fst (fst e)) (dF D))) (dD D)))
                 (dq0 D) (dF D) eps).

  (* ---- dfa_reachable_states(D, q, depth): states reachable from q by a path of length >= min(depth,1) ---- *)
  Fixpoint reach_layer (D : dfa A) (pairs : list (A * nat)) (discovered vnext : list A) : option (list A * list A) :=
    match pairs with
    | [] => Some (discovered, vnext)
    | (u, a) :: ps =>
      match ddelta D u a with
      | None => None     (* KeyError *)
      | Some v => if mem v discovered then reach_layer D ps discovered vnext
                  else reach_layer D ps (discovered ++ [v]) (vnext ++ [v])
      end
    end.
  Fixpoint reach_loop (D : dfa A) (fuel : nat) (discovered V : list A) : option (list A) :=
    match fuel with
    | 0 => None
    | S f => match reach_layer D (list_prod V (dS D)) discovered [] with
             | None => None
             | Some (disc', []) => Some disc'
             | Some (disc', vnext) => reach_loop D f disc' vnext
             end
    end.
  Definition dfa_reachable_states (D : dfa A) (q : A) (depth : nat) : option (list A) :=
    reach_loop D (S (S (length (dQ D)))) (match depth with 0 => [q] | _ => [] end) [q].

  Definition dfa_remove_unreachable_states (D : dfa A) : option (dfa A) :=
    match dfa_reachable_states D (dq0 D) 0 with
    | None => None
    | Some Q1 => Some (mkDFA Q1 (dS D) (filter (fun e => mem (fst (fst e)) Q1) (dD D)) (dq0 D) (inter (dF D) Q1))
    end.

  Definition dfa_no_extend (D : dfa A) : option (dfa A) :=
    match all_some (map (fun qf => match dfa_reachable_states D qf 1 with
                                   | None => None
                                   | Some R => Some (qf, negb (meetsb R (dF D)))
                                   end) (dF D)) with
    | None => None
    | Some l => Some (mkDFA (dQ D) (dS D) (dD D) (dq0 D) (map fst (filter snd l)))
    end.

  (* ---- dfa_make_total_in_place (on a partial automaton): add the trap state, then fill every missing entry ---- *)
  Definition dfa_make_total (trap : A) (D : dfa A) : dfa A :=
    let Q := add trap (dQ D) in
    let missing := filter (fun qa => match ddelta D (fst qa) (snd qa) with None => true | Some _ => false end) (list_prod Q (dS D)) in
    mkDFA Q (dS D) (dD D ++ map (fun qa => (qa, trap)) missing) (dq0 D) (dF D).

  (* partial DFA: the class invariant without totality (objects built with check_validity=False) *)
  Definition pdfa_wf (D : dfa A) : Prop :=
    In (dq0 D) (dQ D) /\ incl (dF D) (dQ D) /\
    (forall q a q1, In ((q, a), q1) (dD D) -> In q (dQ D) /\ In a (dS D) /\ In q1 (dQ D)).
End Ops.

Section Product.
  Context {A B : Type} `{Eqb A} `{Eqb B}.
  (* product_type: 0 = union, 1 = intersection, 2 = symmetric_difference *)
  Definition prod_final (ptype : nat) (D1 : dfa A) (D2 : dfa B) (p : A * B) : bool :=
    let f1 := mem (fst p) (dF D1) in let f2 := mem (snd p) (dF D2) in
    match ptype with 0 => f1 || f2 | 1 => f1 && f2 | _ => xorb f1 f2 end.

  Definition dfa_product (ptype : nat) (D1 : dfa A) (D2 : dfa B) : option (dfa (A * B)) :=
    if negb (seteqb (dS D1) (dS D2)) then None      (* assert Sigma1 == Sigma2 *)
    else
      let states := list_prod (dQ D1) (dQ D2) in
      match all_some (map (fun pa : (A * B) * nat =>
                        match ddelta D1 (fst (fst pa)) (snd pa), ddelta D2 (snd (fst pa)) (snd pa) with
                        | Some x, Some y => Some (pa, (x, y))
                        | _, _ => None
                        end) (list_prod states (dS D1))) with
      | None => None
      | Some delta => Some (mkDFA states (dS D1) delta (dq0 D1, dq0 D2) (filter (prod_final ptype D1 D2) states))
      end.
End Product.
