(* Model of cfg_cyk_matrix, cfg_accepts_word and cfg_words_up_to_n (gambatools.cfg_algorithms).  Definitions only. *)
From GT Require Import Base.Prelude Model.CFG Model.Chomsky.

(* X[i,i] = { A in V | [Terminal(w[i])] in P[A] };  list equality in Python compares names only *)
Definition cyk_base (G : cfg) (a : nat) : list nat :=
  filter (fun A => existsb (fun r => Nat.eqb (rvar r) A && match rrhs r with [x] => Nat.eqb (sname x) a | _ => false end) (gR G)) (gV G).
Definition cyk_pair (G : cfg) (B C : nat) : list nat :=
  filter (fun A => existsb (fun r => Nat.eqb (rvar r) A && match rrhs r with [x; y] => Nat.eqb (sname x) B && Nat.eqb (sname y) C | _ => false end) (gR G)) (gV G).

(* table as association list keyed by (i, j) *)
Definition ctable := list ((nat * nat) * list nat).
Definition cget (X : ctable) (i j : nat) : list nat := match lookup (i, j) X with Some s => s | None => [] end.

Definition cyk_cell (G : cfg) (X : ctable) (i j : nat) : list nat :=
  fold_left (fun acc k =>
    fold_left (fun acc2 BC => union acc2 (cyk_pair G (fst BC) (snd BC))) (list_prod (cget X i k) (cget X (S k) j)) acc)
    (seq i (j - i)) [].
Definition cyk_row (G : cfg) (n m : nat) (X : ctable) : ctable :=
  fold_left (fun X i => X ++ [((i, i + m), cyk_cell G X i (i + m))]) (seq 0 (n - m)) X.
Definition cyk (G : cfg) (w : word) : ctable :=
  let n := length w in
  let X0 := map (fun i => ((i, i), dedup (cyk_base G (nth i w 0)))) (seq 0 n) in
  fold_left (fun X m => cyk_row G n m X) (seq 1 (n - 1)) X0.

(* cfg_accepts_word on a CNF grammar *)
Definition cnf_accepts (G : cfg) (w : word) : bool :=
  match w with
  | [] => has_rule_b (gR G) (gS G) []
  | _ => mem (gS G) (cget (cyk G w) 0 (length w - 1))
  end.
(* cfg_accepts_word: converts first when the grammar is not in CNF; the conversion needs fresh names *)
Definition cfg_accepts (ordV : list nat -> list nat) (stream : list nat) (G : cfg) (w : word) : option bool :=
  if is_chomsky_b G then Some (cnf_accepts G w)
  else match to_chomsky ordV stream G with
       | Some (G', _) => Some (cnf_accepts G' w)
       | None => None
       end.

(* ---- cfg_words_up_to_n (as repaired, fix F12: words of length 1 only when n >= 1) ---- *)
Definition R1_of (G : cfg) (A : nat) : list nat :=     (* terminals a with A -> a *)
  flat_map (fun r => if Nat.eqb (rvar r) A then match rrhs r with [x] => [sname x] | _ => [] end else []) (gR G).
Definition R2_of (G : cfg) (A : nat) : list (list nat) :=   (* [B; C] with A -> B C *)
  flat_map (fun r => if Nat.eqb (rvar r) A then match rrhs r with [x; y] => [[sname x; sname y]] | _ => [] end else []) (gR G).
Fixpoint make_words (G : cfg) (x : list nat) : list word :=
  match x with
  | [] => []
  | [A] => map (fun a => [a]) (R1_of G A)
  | A :: x' => let ws := make_words G x' in flat_map (fun a => map (cons a) ws) (R1_of G A)
  end.
(* replace one variable occurrence by a binary right-hand side, at every position *)
Fixpoint replace_one (G : cfg) (pre x : list nat) : list (list nat) :=
  match x with
  | [] => []
  | A :: x' => map (fun rhs => pre ++ rhs ++ x') (R2_of G A) ++ replace_one G (pre ++ [A]) x'
  end.
Fixpoint forms (G : cfg) (i : nat) : list (list nat) :=     (* sentential forms of i+1 variables *)
  match i with
  | 0 => [[gS G]]
  | S i' => dedup (flat_map (replace_one G []) (forms G i'))
  end.
Definition cnf_words (G : cfg) (n : nat) : list word :=
  (if has_rule_b (gR G) (gS G) [] then [[]] else []) ++
  flat_map (fun i => flat_map (make_words G) (forms G i)) (seq 0 n).
Definition cfg_words (ordV : list nat -> list nat) (stream : list nat) (G : cfg) (n : nat) : option (list word) :=
  if is_chomsky_b G then Some (cnf_words G n)
  else match to_chomsky ordV stream G with
       | Some (G', _) => Some (cnf_words G' n)
       | None => None
       end.
