(* Basic facts on the CFG specification: derivations on sentential forms vs parse trees (yields),
   and the boolean reflections has_rule_b / is_chomsky_b / cfg_wf_b. *)
From GT Require Import Base.Prelude Model.CFG.

(* ---- mutual induction principles ---- *)
Scheme yields_mind := Minimality for yields Sort Prop
  with yields_list_mind := Minimality for yields_list Sort Prop.
Combined Scheme yields_mutind from yields_mind, yields_list_mind.

Definition yields_lang (G : cfg) (w : word) : Prop := yields G (Var (gS G)) w.

Lemma tword_app w1 w2 : tword (w1 ++ w2) = tword w1 ++ tword w2.
Proof. unfold tword. apply map_app. Qed.

Lemma tword_length w : length (tword w) = length w.
Proof. unfold tword. apply map_length. Qed.

Lemma tword_inj w1 w2 : tword w1 = tword w2 -> w1 = w2.
Proof.
  revert w2; induction w1 as [|a w1 IH]; intros [|b w2] E; cbn in E; try discriminate; [reflexivity|].
  inversion E; subst. f_equal. apply IH; assumption.
Qed.

(* ---- yields / yields_list ---- *)
Lemma yields_tm_inv G a w : yields G (Tm a) w -> w = [a].
Proof. intros Hy. inversion Hy; subst. reflexivity. Qed.

Lemma yields_var_inv G A w : yields G (Var A) w -> exists rhs, has_rule G A rhs /\ yields_list G rhs w.
Proof. intros Hy. inversion Hy as [|A' rhs w' Hr Hl]; subst. exists rhs; auto. Qed.

Lemma yields_list_nil_inv G w : yields_list G [] w -> w = [].
Proof. intros Hy. inversion Hy; reflexivity. Qed.

Lemma yields_list_cons_inv G x xs w :
  yields_list G (x :: xs) w -> exists w1 w2, w = w1 ++ w2 /\ yields G x w1 /\ yields_list G xs w2.
Proof. intros Hy. inversion Hy as [|x' xs' w1 w2 H1 H2]; subst. exists w1, w2; auto. Qed.

Lemma yields_list_app G xs ys w1 w2 :
  yields_list G xs w1 -> yields_list G ys w2 -> yields_list G (xs ++ ys) (w1 ++ w2).
Proof.
  revert w1; induction xs as [|x xs IH]; intros w1 H1 H2.
  - apply yields_list_nil_inv in H1. subst. exact H2.
  - apply yields_list_cons_inv in H1. destruct H1 as [u1 [u2 [-> [Hx Hxs]]]].
    rewrite <- app_assoc. cbn [app]. constructor; [exact Hx | apply IH; assumption].
Qed.

Lemma yields_list_split G xs ys w :
  yields_list G (xs ++ ys) w <-> exists w1 w2, w = w1 ++ w2 /\ yields_list G xs w1 /\ yields_list G ys w2.
Proof.
  split.
  - revert w; induction xs as [|x xs IH]; intros w Hy.
    + exists [], w. repeat split; [constructor | exact Hy].
    + cbn [app] in Hy. apply yields_list_cons_inv in Hy. destruct Hy as [u1 [u2 [-> [Hx Hxs]]]].
      apply IH in Hxs. destruct Hxs as [v1 [v2 [-> [Hv1 Hv2]]]].
      exists (u1 ++ v1), v2. rewrite app_assoc. repeat split; [constructor; assumption | assumption].
  - intros [w1 [w2 [-> [H1 H2]]]]. apply yields_list_app; assumption.
Qed.

Lemma yields_list_single G x w : yields_list G [x] w <-> yields G x w.
Proof.
  split.
  - intros Hy. apply yields_list_cons_inv in Hy. destruct Hy as [w1 [w2 [-> [Hx Hn]]]].
    apply yields_list_nil_inv in Hn. subst. rewrite app_nil_r. exact Hx.
  - intros Hy. rewrite <- (app_nil_r w). constructor; [exact Hy | constructor].
Qed.

Lemma yields_list_pair G x y w :
  yields_list G [x; y] w <-> exists w1 w2, w = w1 ++ w2 /\ yields G x w1 /\ yields G y w2.
Proof.
  split.
  - intros Hy. apply yields_list_cons_inv in Hy. destruct Hy as [w1 [w2 [-> [Hx Hn]]]].
    apply yields_list_single in Hn. exists w1, w2; auto.
  - intros [w1 [w2 [-> [Hx Hy]]]]. constructor; [exact Hx | apply yields_list_single; exact Hy].
Qed.

Lemma yields_list_tword G w w' : yields_list G (tword w) w' <-> w' = w.
Proof.
  split.
  - revert w'; induction w as [|a w IH]; intros w' Hy; cbn in Hy.
    + apply yields_list_nil_inv in Hy. exact Hy.
    + apply yields_list_cons_inv in Hy. destruct Hy as [w1 [w2 [-> [Hx Hn]]]].
      apply yields_tm_inv in Hx. apply IH in Hn. subst. reflexivity.
  - intros ->. induction w as [|a w IH]; cbn; [constructor|].
    change (a :: w) with ([a] ++ w). constructor; [constructor | exact IH].
Qed.

(* ---- derivations ---- *)
Lemma derives_trans G u v t : derives G u v -> derives G v t -> derives G u t.
Proof.
  intros H1; induction H1 as [u|u A v rhs t' Hr Hd IH]; intros H2; [exact H2|].
  eapply d_step; [exact Hr | apply IH; exact H2].
Qed.

Lemma derives_ctx G l r u v : derives G u v -> derives G (l ++ u ++ r) (l ++ v ++ r).
Proof.
  intros Hd; induction Hd as [u|u A v rhs t Hr Hd IH]; [constructor|].
  replace (l ++ (u ++ Var A :: v) ++ r) with ((l ++ u) ++ Var A :: (v ++ r))
    by (rewrite <- !app_assoc; reflexivity).
  eapply d_step; [exact Hr|].
  replace ((l ++ u) ++ rhs ++ v ++ r) with (l ++ (u ++ rhs ++ v) ++ r)
    by (rewrite <- !app_assoc; reflexivity).
  exact IH.
Qed.

Lemma derives_rule G A rhs : has_rule G A rhs -> derives G [Var A] rhs.
Proof.
  intros Hr. change [Var A] with ([] ++ Var A :: []).
  eapply d_step; [exact Hr|]. cbn [app]. rewrite app_nil_r. constructor.
Qed.

Lemma derives_app G u1 u2 v1 v2 : derives G u1 v1 -> derives G u2 v2 -> derives G (u1 ++ u2) (v1 ++ v2).
Proof.
  intros H1 H2. apply derives_trans with (v1 ++ u2).
  - generalize (@derives_ctx G [] u2 _ _ H1). cbn [app]. auto.
  - generalize (@derives_ctx G v1 [] _ _ H2). rewrite !app_nil_r. auto.
Qed.

Lemma yields_derives_mut G :
  (forall x w, yields G x w -> derives G [x] (tword w)) /\
  (forall xs w, yields_list G xs w -> derives G xs (tword w)).
Proof.
  apply yields_mutind.
  - intros a. constructor.
  - intros A rhs w Hr _ IH. eapply derives_trans; [apply derives_rule; exact Hr | exact IH].
  - constructor.
  - intros x xs w1 w2 _ IH1 _ IH2. rewrite tword_app. change (x :: xs) with ([x] ++ xs).
    apply derives_app; assumption.
Qed.

Theorem derives_yields_list G u w : derives G u (tword w) <-> yields_list G u w.
Proof.
  split.
  - intros Hd. remember (tword w) as t eqn:Et. revert w Et.
    induction Hd as [u|u A v rhs t Hr Hd IH]; intros w Et.
    + subst u. apply yields_list_tword. reflexivity.
    + specialize (IH w Et). apply yields_list_split in IH. destruct IH as [w1 [w23 [-> [Hu IH]]]].
      apply yields_list_split in IH. destruct IH as [w2 [w3 [-> [Hrhs Hv]]]].
      apply yields_list_app; [exact Hu|]. constructor; [|exact Hv].
      econstructor; [exact Hr | exact Hrhs].
  - apply yields_derives_mut.
Qed.

Theorem derives_yields G w : cfg_lang G w <-> yields_lang G w.
Proof.
  unfold cfg_lang, yields_lang. rewrite derives_yields_list. apply yields_list_single.
Qed.

(* ---- boolean reflections ---- *)
Lemma has_rule_b_spec G A rhs : has_rule_b (gR G) A rhs = true <-> has_rule G A rhs.
Proof.
  unfold has_rule_b, has_rule. rewrite existsb_exists. split.
  - intros [r [Hr Hb]]. apply andb_true_iff in Hb. destruct Hb as [H1 H2].
    apply Nat.eqb_eq in H1. apply eqb_true in H2. exists r; auto.
  - intros [r [Hr [H1 H2]]]. exists r. split; [exact Hr|]. apply andb_true_iff. split.
    + apply Nat.eqb_eq; exact H1.
    + subst rhs. apply eqb_refl.
Qed.

Lemma cfg_wf_b_spec G : cfg_wf_b G = true <-> cfg_wf G.
Proof.
  unfold cfg_wf_b, cfg_wf. rewrite forallb_forall. split.
  - intros Hb r Hr. specialize (Hb r Hr). apply andb_true_iff in Hb. destruct Hb as [H1 H2].
    split; [apply mem_In; exact H1|]. intros x Hx. rewrite forallb_forall in H2. specialize (H2 x Hx).
    destruct (is_var x); apply mem_In; exact H2.
  - intros Hw r Hr. destruct (Hw r Hr) as [H1 H2]. apply andb_true_iff. split; [apply mem_In; exact H1|].
    apply forallb_forall. intros x Hx. specialize (H2 x Hx). destruct (is_var x); apply mem_In; exact H2.
Qed.

Lemma rule_chomsky_b_spec (s : nat) (r : rule) :
  (alt_is_chomsky (rrhs r) && negb (existsb (fun x => is_var x && Nat.eqb (sname x) s) (rrhs r))) &&
  (negb (match rrhs r with [] => true | _ => false end) || Nat.eqb (rvar r) s) = true <->
  ((rrhs r = [] /\ rvar r = s) \/ (exists a, rrhs r = [Tm a]) \/
   (exists B C, rrhs r = [Var B; Var C] /\ B <> s /\ C <> s)).
Proof.
  destruct r as [A id rhs]. cbn [rrhs rvar].
  destruct rhs as [|[b1 n1] [|[b2 n2] [|y rhs]]].
  - cbn. rewrite Nat.eqb_eq. split.
    + intros E. left. auto.
    + intros [[_ E]|[[a E]|[B [C [E _]]]]]; [exact E | discriminate | discriminate].
  - destruct b1; cbn.
    + split; [discriminate|]. intros [[E _]|[[a E]|[B [C [E _]]]]]; discriminate.
    + split; [|reflexivity]. intros _. right; left. exists n1. reflexivity.
  - destruct b1, b2; cbn; try (split; [discriminate|]; intros [[E _]|[[a E]|[B [C [E _]]]]]; discriminate).
    unfold sname; cbn [snd]. rewrite !orb_false_r, andb_true_r, negb_true_iff, orb_false_iff, !Nat.eqb_neq.
    split.
    + intros [H1 H2]. right; right. exists n1, n2. auto.
    + intros [[E _]|[[a E]|[B [C [E [H1 H2]]]]]]; try discriminate. inversion E; subst. auto.
  - split.
    + intros E. apply andb_true_iff in E. destruct E as [E _]. apply andb_true_iff in E. destruct E as [E _].
      cbn in E. discriminate.
    + intros [[E _]|[[a E]|[B [C [E _]]]]]; discriminate.
Qed.

Lemma forallb_andb {A} (f g : A -> bool) l :
  forallb f l && forallb g l = forallb (fun x => f x && g x) l.
Proof.
  induction l as [|x l IH]; cbn; [reflexivity|]. rewrite <- IH.
  destruct (f x), (g x), (forallb f l); reflexivity.
Qed.

Lemma is_chomsky_b_spec G : is_chomsky_b G = true <-> is_chomsky G.
Proof.
  unfold is_chomsky_b, is_chomsky. rewrite forallb_andb, forallb_forall. split.
  - intros Hb r Hr. apply rule_chomsky_b_spec. apply Hb; exact Hr.
  - intros Hc r Hr. apply rule_chomsky_b_spec. apply Hc; exact Hr.
Qed.

(* ---- consequences of Chomsky normal form ---- *)
Lemma chomsky_nullable_mut G : is_chomsky G ->
  (forall x w, yields G x w -> w = [] -> forall A, x = Var A -> A = gS G /\ has_rule G A []) /\
  (forall xs w, yields_list G xs w -> w = [] -> forall B, In (Var B) xs -> B = gS G).
Proof.
  intros Hc. apply yields_mutind.
  - intros a E. discriminate.
  - intros A rhs w Hr Hl IH Ew A' EA. inversion EA; subst A'. subst w.
    destruct Hr as [r [Hin [Hv Hrhs]]]. destruct (Hc r Hin) as [[E1 E2]|[[a E]|[B [C [E [HB _]]]]]].
    + split; [congruence|]. exists r. auto.
    + exfalso. subst rhs. rewrite E in Hl. apply yields_list_single in Hl. apply yields_tm_inv in Hl. discriminate.
    + exfalso. subst rhs. rewrite E in IH. apply HB. apply IH; [reflexivity | left; reflexivity].
  - intros _ B [].
  - intros x xs w1 w2 Hx IHx Hxs IHxs Ew B HB. apply app_eq_nil in Ew. destruct Ew as [E1 E2].
    destruct HB as [HB|HB].
    + apply (IHx E1 B HB).
    + apply IHxs; assumption.
Qed.

Lemma chomsky_nullable G A : is_chomsky G -> yields G (Var A) [] -> A = gS G /\ has_rule G A [].
Proof. intros Hc Hy. eapply (proj1 (@chomsky_nullable_mut G Hc)); [exact Hy | reflexivity | reflexivity]. Qed.

Print Assumptions derives_yields.
Print Assumptions derives_yields_list.
Print Assumptions is_chomsky_b_spec.
