(* C13 — "the library's own answer is accepted": for each generator / checker pair the model checker of
   Model/Checkers.v returns true (= the Python checker prints OK) on the output of the model generator.

   Formal reading, per pair (all at object level; printing the generator's output and parsing it back is C16/C17):
     product      : dfa_product ptype D1 D2 = Some D            => check_dfa_product ptype n D1 D2 D = true
     complement   : check_dfa_complement D1 (dfa_complement D1) = true, for a transition table with unique keys (a Python
                    dict); C13_complement_needs_unique_keys shows that the model rejects a table with a repeated key
     reverse      : dfa_reverse fresh eps D = Some N             => check_dfa_reverse n D N = true
                    (unique keys; `fresh` is not a state of D)
     minimal      : the Moore quotient (dfa_quotient, the checker's own reference) and the Hopcroft result (for every
                    iteration order of the block set and every behaviour of set.pop) are accepted by check_dfa_minimal
     NFA to DFA   : the subset automaton nfa_det N (nfa_to_dfa with sorted subsets), written as an automaton whose state
                    labels are sets (dfa_as_nfa: every transition q -a-> q1 becomes q -a-> {q1}), is accepted
     word lists   : a language is accepted against its own word list whenever the state bound holds
     accept/reject: verdict lists that are all-true / all-false are accepted
     CYK matrix   : the table of cfg_cyk_matrix laid out as the exercise asks (cyk_rows: row k, top-down, holds
                    X[j, j + (n-1-k)] for j = 0..k) is accepted, for a valid grammar in Chomsky normal form
     derivation   : a derivation accepted by the witness checker of C15 (derivation_ok: what cfg_derive_word returns;
                    mode 0 leftmost, otherwise rightmost) is accepted in the same mode, and in mode 2 ("any derivation")
                    whatever its kind; G valid with its start symbol among the variables
     Chomsky      : the result G1 of cfg_to_chomsky passes check_chomsky for every phase number, with start = gS G1
                    (side conditions of the conversion theorem C08). *)
From GT Require Import Base.Prelude Base.Sort Model.DFA Model.NFA Model.DFAOps Model.Minimize Model.Lang Model.Regexp
  Model.CFG Model.Chomsky Model.CYK Model.Simulate Model.Checkers Decide.DFAEquiv.
From GT Require Model.Checkers2 Proofs.Checkers2Proofs.
From GT Require Import Proofs.DFAOpsProofs Proofs.CheckersProofs.
From Coq Require Import Permutation.

Theorem C13_product : forall (A B : Type) (HA : Eqb A) (HB : Eqb B) (ptype n : nat) (D1 : dfa A) (D2 : dfa B) (D : dfa (A * B)),
  dfa_wf D1 -> dfa_wf D2 -> dfa_product ptype D1 D2 = Some D -> check_dfa_product ptype n D1 D2 D = true.
Proof. exact (fun A B HA HB => @own_product_accepted A B HA HB). Qed.

Theorem C13_complement : forall (A : Type) (HA : Eqb A) (D1 : dfa A),
  NoDup (map fst (dD D1)) -> check_dfa_complement D1 (dfa_complement D1) = true.
Proof. exact (fun A HA => @own_complement_accepted A HA). Qed.

(* D_dupkey = ({0,1}, {5}, [((0,5),0); ((0,5),1); ((1,5),1)], 0, {1}) : the key (0,5) occurs twice *)
Theorem C13_complement_needs_unique_keys :
  dfa_wf D_dupkey /\ check_dfa_complement D_dupkey (dfa_complement D_dupkey) = false.
Proof. exact own_complement_needs_unique_keys. Qed.

Theorem C13_reverse : forall (A : Type) (HA : Eqb A) (fresh : A) (eps n : nat) (D : dfa A) (N : nfa A),
  dfa_wf D -> NoDup (map fst (dD D)) -> ~ In fresh (dQ D) -> dfa_reverse fresh eps D = Some N ->
  check_dfa_reverse n D N = true.
Proof. exact (fun A HA => @own_reverse_accepted A HA). Qed.

Theorem C13_minimal_quotient : forall (n : nat) (D : dfa nat) (Dq : dfa (list nat)),
  dfa_wf D -> NoDup (dQ D) -> NoDup (dF D) ->
  dfa_quotient canon_nat (fun l => l) (@hd_error nat) D = Some Dq -> check_dfa_minimal n D Dq = true.
Proof. exact own_minimal_accepted. Qed.

Theorem C13_minimal_hopcroft : forall (n : nat) (ordB : list (list nat) -> list (list nat)) (pick : picker (list nat * nat))
  (D : dfa nat) (Dh : dfa (list nat)),
  (forall l, Permutation (ordB l) l) -> picker_ok pick ->
  dfa_wf D -> NoDup (dQ D) -> NoDup (dF D) ->
  dfa_hopcroft canon_nat ordB pick D = Some Dh -> check_dfa_minimal n D Dh = true.
Proof. exact own_hopcroft_accepted. Qed.

Theorem C13_nfa_to_dfa : forall (eps : nat) (N : nfa nat) (D : dfa (list nat)),
  nfa_wf N -> nfa_det N = Some D ->
  check_nfa_to_dfa N (mkNFA (dQ D) (dS D) (map (fun e => (fst e, [snd e])) (dD D)) (dq0 D) (dF D) eps) = true.
Proof. exact own_nfa2dfa_accepted. Qed.

Theorem C13_words : forall (L : list word) (nstates max_states : nat),
  max_states = 0 \/ nstates <= max_states -> check_language_from_words L nstates max_states L = true.
Proof. exact own_words_accepted. Qed.

Theorem C13_accepts_rejects : forall va vr : list bool,
  Forall (fun b => b = true) va -> Forall (fun b => b = false) vr -> check_accepts_rejects va vr = true.
Proof. exact own_accepts_rejects_accepted. Qed.

Theorem C13_cyk_matrix : forall (G : cfg) (w : word), is_chomsky G -> cfg_wf G ->
  check_cyk_matrix G w
    (map (fun i => map (fun j => cget (cyk G w) j (j + (length w - 1 - i))) (seq 0 (S i))) (seq 0 (length w))) = true.
Proof. exact own_cyk_accepted. Qed.

Theorem C13_derivation : forall (G : cfg) (mode : nat) (w : word) (steps : list (list sym)),
  mode <= 1 -> cfg_wf G -> In (gS G) (gV G) -> derivation_ok G mode w steps = true ->
  check_cfg_derivation G mode w steps = true.
Proof. exact own_derivation_accepted. Qed.

Theorem C13_derivation_any : forall (G : cfg) (m k : nat) (w : word) (steps : list (list sym)),
  cfg_wf G -> In (gS G) (gV G) -> derivation_ok G m w steps = true ->
  check_cfg_derivation G (S (S k)) w steps = true.
Proof. exact own_derivation_accepted_any. Qed.

Theorem C13_chomsky : forall (ordV : list nat -> list nat) (stream : list nat) (G G1 : cfg) (rest : list nat) (phase n : nat),
  (forall l, Permutation (ordV l) l) ->
  cfg_wf G -> (forall x, In x (gV G) -> ~ In x (gSg G)) -> In (gS G) (gV G) -> (forall x, In x stream -> ~ In x (gSg G)) ->
  to_chomsky ordV stream G = Some (G1, rest) -> check_chomsky ordV stream G G1 phase (gS G1) n = true.
Proof. exact own_chomsky_accepted. Qed.

(* ---- language from a reference file / given language: the reference object itself (or any object with the same bounded
   language) is accepted ---- *)
Theorem C13_from_file : forall (n : nat) (P : word -> Prop) (L1 L2 : list word),
  Checkers2Proofs.bounded_lang n P L1 -> Checkers2Proofs.bounded_lang n P L2 -> Checkers2.check_language_from_file L1 L2 = true.
Proof.
  intros n P L1 L2 H1 H2. apply (Checkers2Proofs.from_file_complete n P P L1 L2 H1 H2). intros w _. tauto.
Qed.

Theorem C13_given_language : forall (pick : picker word) (L words : list word), picker_ok pick ->
  (forall w, In w L <-> In w words) -> Checkers2.given_language_ok pick L words = true.
Proof. intros pick L words Hp Hq. apply (Checkers2Proofs.given_language_ok_spec pick L words Hp). exact Hq. Qed.

Print Assumptions C13_product.
Print Assumptions C13_complement.
Print Assumptions C13_complement_needs_unique_keys.
Print Assumptions C13_reverse.
Print Assumptions C13_minimal_quotient.
Print Assumptions C13_minimal_hopcroft.
Print Assumptions C13_nfa_to_dfa.
Print Assumptions C13_words.
Print Assumptions C13_accepts_rejects.
Print Assumptions C13_cyk_matrix.
Print Assumptions C13_derivation.
Print Assumptions C13_derivation_any.
Print Assumptions C13_chomsky.
Print Assumptions C13_from_file.
Print Assumptions C13_given_language.
