(* Model of print_dfa, print_nfa, print_pda, print_tm as token-level texts.  `ord` stands for sorted(...) on
   strings (any order-producing permutation: the parsers build sets, so the order is immaterial for the round trip);
   the transitions are grouped per (source, target) pair, one line per pair with all its labels.  Definitions only. *)
From GT Require Import Base.Prelude Model.Tokens Model.Parser.

Section Printer.
  Variable ord : list token -> list token.
  Variable ordP : list (token * token) -> list (token * token).

  Definition group_lines (trs : list (token * token * token)) : list line :=   (* (p, label, q) *)
    let pairs := ordP (dedup (map (fun t => let '(p, _, q) := t in (p, q)) trs)) in
    map (fun pq => fst pq :: snd pq :: map (fun t => let '(_, a, _) := t in a) (filter (fun t => let '(p, _, q) := t in eqb (p, q) pq) trs)) pairs.

  Definition print_dfa (D : tdfa) : list line :=
    [kw_states :: ord (tdQ D); kw_final :: ord (tdF D); [kw_initial; tdq0 D]; kw_input_symbols :: ord (tdS D)] ++
    group_lines (map (fun e => let '((p, a), q) := e in (p, a, q)) (tdD D)).

  Definition print_nfa (N : tnfa) : list line :=
    [kw_states :: ord (tnQ N); kw_final :: ord (tnF N); [kw_initial; tnq0 N]; kw_input_symbols :: ord (tnS N); [kw_epsilon; tneps N]] ++
    group_lines (flat_map (fun e => let '((p, a), s) := e in map (fun q => (p, a, q)) s) (tnD N)).

  Definition pda_label (a u v : token) : token := a ++ [c_comma] ++ u ++ v.
  Definition print_pda (P : tpda) : list line :=
    [kw_states :: ord (tpQ P); kw_final :: ord (tpF P); [kw_initial; tpq0 P]; kw_input_symbols :: ord (tpS P);
     kw_stack_symbols :: ord (tpG P); [kw_epsilon; tpeps P]] ++
    group_lines (map (fun t => let '(p, a, u, q, v) := t in (p, pda_label a u v, q)) (tpD P)).

  Definition tm_label (a b : token) (isL : bool) : token := a ++ b ++ [c_comma; if isL then c_L else c_R].
  Definition print_tm (T : ttm) : list line :=
    [kw_states :: ord (ttQ T); [kw_initial; ttq0 T]; [kw_accept; ttqa T]; [kw_reject; ttqr T]; kw_input_symbols :: ord (ttS T);
     kw_tape_symbols :: ord (ttG T); [kw_blank; ttblank T]] ++
    group_lines (map (fun e => let '((p, a), (q, b, d)) := e in (p, tm_label a b d, q)) (ttD T)).
End Printer.
