"""C09 - PDA acceptance (sound always, complete below the closure limit) vs the proved model (Model/PDA.v)."""
import coqlit as L
import gen as G
import conv

COQ_IMPORTS = ['Model.NFA', 'Model.PDA', 'Judge.C09_judge']
LOG_SAFE = True      # no printed output is read back: the recycling pass runs with GambaTools.enable_logging = True
RULE = ('random PDAs (1-4 states, input {a,b}, stack {x,y}, epsilon in {_, ε, \'\'}) with push / pop / no-op / replace moves, epsilon moves and epsilon cycles that do or do not grow the stack, '
        'and hand-written families (a^n b^n, pushing epsilon loops); pda_epsilon_closure_max_iterations in {1,2,5,50,1000} and, on a chain of 1100 epsilon moves, limits above the default (1200) (in {1,2,5,20,40} when the PDA has a pushing epsilon move, to bound the evaluation cost of unbounded closures); all words <= 2 (3 for one symbol) plus random words <= 5; under 2 (quick) / 8 (thorough) PYTHONHASHSEED values. '
        'Observed: pda_accepts_word, pda_epsilon_closure of sampled configuration sets, pda_do_transition, pda_can_pop_push, pda_pop_push. Relation: below the limit (model closure not truncated) exact equality; '
        'when truncated, only soundness (every member epsilon-reachable / a True verdict has an accepting computation, decided with a 2x larger budget). '
        'Non-trivial = at least one accepted and one rejected word and at least one epsilon move; distinct by (PDA text, limit).')
RULE += ' Added after the seeded rounds: multi-character stack symbols with coinciding spellings (random and the structured spelling_pda family), dense epsilon graphs with a limit just above the number of configurations, transitions replaced in place and the object queried again.'
CODES = {2: 'pda_epsilon_closure raised', 3: 'pda_epsilon_closure differs from the exact closure although no limit was hit', 4: 'truncated closure lost an argument configuration',
         5: 'pda_accepts_word raised / timed out', 6: 'pda_accepts_word differs from the proved model although no closure hit the limit',
         7: 'pda_accepts_word answered True for a word without accepting computation', 8: 'pda_do_transition differs', 10: 'pda_can_pop_push / pda_pop_push differ',
         9: 'generated PDA invalid (harness)', 1: 'truncated closure: membership undecided within the larger budget'}
ASSUMPTIONS = ['PDA valid (class invariant); epsilon symbol in neither alphabet']
RESIDUE = 'PDAState hashing by str; set.pop order sampled by PYTHONHASHSEED and covered by the pick-quantified theorems; stacks are Python lists with the top at the end (reversed by the harness)'
LIMITS = [1, 2, 5, 50, 1000]
SHARD = 8


def hashseeds(tier):
    return [0, 1] if tier == 'quick' else [0, 1, 2, 3]       # the thorough tier is sized to finish within about 40 minutes


def _anbn(eps='_'):
    return {'Q': ['q0', 'q1', 'q2', 'q3'], 'Sigma': ['a', 'b'], 'Gamma': ['x', '$'], 'eps': eps, 'q0': 'q0', 'F': ['q3', 'q0'],
            'delta': [['q0', eps, eps, 'q1', '$'], ['q1', 'a', eps, 'q1', 'x'], ['q1', 'b', 'x', 'q2', eps], ['q2', 'b', 'x', 'q2', eps], ['q2', eps, '$', 'q3', eps]]}


def _pushloop(eps='_'):
    return {'Q': ['q0', 'q1'], 'Sigma': ['a'], 'Gamma': ['x'], 'eps': eps, 'q0': 'q0', 'F': ['q1'],
            'delta': [['q0', eps, eps, 'q0', 'x'], ['q0', 'a', 'x', 'q1', eps], ['q1', eps, 'x', 'q1', eps]]}


def gen(rng, tier):
    quick = tier == 'quick'
    ps = []
    for e in ['_', 'ε', '']:
        ps.append(_anbn(e))
        ps.append(_pushloop(e))
    for _ in range(220 if quick else 1000):
        ps.append(G.random_pda(rng, rng.randint(1, 4), rng.choice(['a', 'ab', 'ab', '']), rng.choice(['x', 'xy']), rng.choice(['_', 'ε', '']),
                               ntrans=rng.randint(1, 8), kinds=rng.choice([None, ['push', 'pop'], ['push', 'noop', 'pop', 'push'], ['replace', 'push', 'pop']])))
    # stack symbols of several characters (PDA constructor): different stacks whose concatenated spellings coincide
    # (['xy'] and ['x', 'y']) are different configurations
    for _ in range(80 if quick else 500):
        ps.append(G.random_pda(rng, rng.randint(1, 3), rng.choice(['a', 'ab']), ['x', 'y', 'xy'], rng.choice(['_', '']),
                               ntrans=rng.randint(3, 9), kinds=['push', 'pop', 'push', 'pop', 'noop']))
    spell = [G.spelling_pda(rng) for _ in range(10 if quick else 100)]
    cases = [{'P': p, 'limit': 1000, 'ws': ['aab', 'aabb', 'aa', 'ab', 'aabbb', ''], 'sets': [[['s', []]]]} for p in spell]
    # a limit ABOVE the default: a chain of 1100 epsilon moves has a closure of 1101 configurations; with the limit set to
    # 1200 the accepting end of the chain must be found, with 1050 the closure is truncated
    for lim in ([1200] if quick else [1200, 1050]):
        n = 1100
        chain = {'Q': ['c%d' % i for i in range(n + 1)], 'Sigma': ['a'], 'Gamma': ['x'], 'eps': '_', 'q0': 'c0', 'F': ['c%d' % n],
                 'delta': [['c%d' % i, '_', '_', 'c%d' % (i + 1), '_'] for i in range(n)]}
        cases.append({'P': chain, 'limit': lim, 'ws': [''], 'sets': []})
    for i, p in enumerate(ps):
        eps_push = any(t[1] == p['eps'] and t[4] != p['eps'] for t in p['delta'])
        limit = ([1, 2, 5, 20, 40] if eps_push else LIMITS)[i % 5] if i >= 6 else [30, 5][i % 2]
        long_words = G.random_words(rng, p['Sigma'], 4, 5)
        if eps_push and not quick:
            long_words = []       # thorough tier: one of its 1000 random PDAs with a pushing epsilon loop needed more than 240 s per case in the model on words of length 5
        ws = G.words_str(p['Sigma'], 2 if len(p['Sigma']) > 1 else 3) + long_words
        cfgs = [[rng.choice(p['Q']), [rng.choice(p['Gamma'] or ['x']) for _ in range(rng.randint(0, 3))]] for _ in range(3)]
        cases.append({'P': p, 'limit': limit, 'ws': ws, 'sets': [[['q0', []]], cfgs[:1], cfgs]})
    # dense epsilon graphs: k pairwise epsilon-connected states (k + 1 configurations in the closure, about k*k epsilon moves) with a
    # limit just above the number of configurations: the closure must be complete
    for _ in range(12 if quick else 80):
        k = rng.randint(3, 6)
        e = rng.choice(['_', ''])
        Q = ['d%d' % i for i in range(k)] + ['z']
        delta = [[p, e, e, q, e] for p in Q[:k] for q in Q[:k] if p != q or rng.random() < 0.5]
        delta.append([Q[rng.randrange(k)], e, e, 'z', e])
        delta.append(['z', 'a', e, 'z', e])
        rng.shuffle(delta)
        p = {'Q': Q, 'Sigma': ['a'], 'Gamma': ['x'], 'delta': delta, 'q0': 'd0', 'F': ['z'], 'eps': e}
        cases.append({'P': p, 'limit': k + 1 + rng.randint(0, 3), 'ws': ['', 'a', 'aa'], 'sets': [[['d0', []]]]})
    # the same object is queried, its transitions are replaced in place, and it is queried again
    for _ in range(60 if quick else 400):
        sg, gm, e = rng.choice(['a', 'ab']), 'xy', rng.choice(['_', ''])
        n = rng.randint(2, 3)
        p1 = G.random_pda(rng, n, sg, gm, e, ntrans=rng.randint(2, 7), kinds=['push', 'pop', 'noop', 'pop'])
        p2 = G.random_pda(rng, n, sg, gm, e, ntrans=rng.randint(2, 7), kinds=['push', 'pop', 'noop', 'pop'])
        p1['Gamma'] = p2['Gamma'] = sorted(set(p1['Gamma']) | set(p2['Gamma']))
        for pp_ in (p1, p2):
            pp_['delta'] = [t for t in pp_['delta'] if not (t[1] == e and t[4] != e)]
        ws = G.words_str(sg, 2 if len(sg) > 1 else 3)
        cases.append({'P': p1, 'limit': 50, 'ws': ws, 'sets': [[['q0', []]]], 'then': {'P': p2, 'limit': 50, 'ws': ws, 'sets': [[['q0', []]]]}})
    return cases


def _observe1(c, P):
    from gambatools import pda_algorithms as PA
    from gambatools.global_settings import GambaTools
    from implutil import safe, ok
    old = GambaTools.pda_epsilon_closure_max_iterations
    GambaTools.pda_epsilon_closure_max_iterations = c['limit']
    try:
        verdicts = []
        for w in c['ws']:
            r = safe(PA.pda_accepts_word, P, w, timeout=8)
            verdicts.append(bool(r[1]) if ok(r) else None)
        closures, steps = [], []
        for s in c['sets']:
            R = [PA.PDAState(q, list(st)) for q, st in s]
            r = safe(PA.pda_epsilon_closure, P, R, timeout=8)
            closures.append(sorted([x.q, list(x.stack)] for x in r[1]) if ok(r) else None)
            for a in c['P']['Sigma'][:2]:
                t = safe(PA.pda_do_transition, P, a, R)
                steps.append([a, s, sorted([x.q, list(x.stack)] for x in t[1]) if ok(t) else None])
        pp = []
        for q, st in (c['sets'][-1] if c['sets'] else []):
            for u in (c['P']['Gamma'] + [c['P']['eps']])[:3]:
                v = c['P']['Gamma'][0] if c['P']['Gamma'] else c['P']['eps']
                can = safe(PA.pda_can_pop_push, P, list(st), u, v)
                res = safe(PA.pda_pop_push, P, list(st), u, v)
                pp.append([st, u, v, bool(can[1]) if ok(can) else None, ['ok', list(res[1])] if ok(res) else ['err', res[1]]])
    finally:
        GambaTools.pda_epsilon_closure_max_iterations = old
    return {'verdicts': verdicts, 'closures': closures, 'steps': steps, 'pp': pp}


def observe(c):
    """`then`: the same PDA object is modified in place (its transitions replaced) and queried again"""
    P = conv.pda_obj(c['P'])
    o = _observe1(c, P)
    if c.get('then'):
        p2 = c['then']['P']
        P.delta.clear()
        for (p, a, u, q, v) in p2['delta']:
            if (p, a, u) not in P.delta:
                P.delta[(p, a, u)] = set()
            P.delta[(p, a, u)].add((q, v))
        P.F.clear()
        P.F.update(p2['F'])
        o['then'] = _observe1(c['then'], P)
    return o


def encode(c, o):
    if c.get('then'):
        return 'worst_code [%s; %s]' % (_encode1(c, o), _encode1(c['then'], o['then']))
    return _encode1(c, o)


def _encode1(c, o):
    p = c['P']
    st, sy, f = L.pda_names(p)
    lit = L.pda(p, st, f)
    C = lambda cf: L.config(cf, st, f)
    verdicts = L.lst(L.pair(L.nats(f(a) for a in w), L.option(v, L.boolean)) for w, v in zip(c['ws'], o['verdicts']))
    closures = L.lst(L.pair(L.lst(C(x) for x in s), L.option(r, lambda r: L.lst(C(x) for x in r))) for s, r in zip(c['sets'], o['closures']))
    steps = L.lst(L.pair(L.nat(f(a)), L.lst(C(x) for x in s), L.option(r, lambda r: L.lst(C(x) for x in r))) for a, s, r in o['steps'])
    pp = []
    for stack, u, v, can, res in o['pp']:
        rs = 'None' if res[0] == 'err' and res[1] != 'RuntimeError' else ('(Some None)' if res[0] == 'err' else '(Some (Some %s))' % L.nats(f(x) for x in reversed(res[1])))
        pp.append(L.pair(L.nats(f(x) for x in reversed(stack)), L.nat(f(u)), L.nat(f(v)), L.option(can, L.boolean), rs))
    return 'judge_C09 %s %d %s %s %s %s' % (lit, c['limit'], verdicts, closures, steps, L.lst(pp))


def explain(c):
    p = c['P']
    st, sy, f = L.pda_names(p)
    return 'explain_C09 %s %d %s' % (L.pda(p, st, f), c['limit'], L.lst(L.nats(f(a) for a in w) for w in c['ws'][:10]))


def key(c):
    return conv.pda_text(c['P']) + '|%d' % c['limit'] + ('\n=then=>\n' + key(c['then']) if c.get('then') else '')


def nontrivial(c, o):
    return (True in o['verdicts']) and (False in o['verdicts']) and any(t[1] == c['P']['eps'] for t in c['P']['delta'])


def describe(c):
    return {'pda': conv.pda_text(c['P']), 'limit': c['limit'], 'words': c['ws'][:12]}


def reproduce(c):
    return ('from gambatools.pda_algorithms import *; from gambatools.global_settings import GambaTools; GambaTools.pda_epsilon_closure_max_iterations = %d; '
            'P = parse_pda(%r); [pda_accepts_word(P, w) for w in %r]' % (c['limit'], conv.pda_text(c['P']), c['ws'][:8]))


def signature(c, o, code):
    return 'C09:code%d:%s' % (code, key(c))


def distribution(cases, obs):
    d = {'limit': {}, 'accepted': 0, 'rejected': 0, 'states': {}, 'with_eps_moves': 0}
    for c, o in zip(cases, obs):
        d['limit'][str(c['limit'])] = d['limit'].get(str(c['limit']), 0) + 1
        k = str(len(c['P']['Q']))
        d['states'][k] = d['states'].get(k, 0) + 1
        d['accepted'] += sum(1 for v in o['verdicts'] if v is True)
        d['rejected'] += sum(1 for v in o['verdicts'] if v is False)
        d['with_eps_moves'] += 1 if any(t[1] == c['P']['eps'] for t in c['P']['delta']) else 0
    return d


def shrink(c):
    out = []
    p = c['P']
    if len(p['delta']) > 60:
        return []
    for i in range(len(p['delta'])):
        out.append(dict(c, P=dict(p, delta=p['delta'][:i] + p['delta'][i + 1:])))
    if len(c['ws']) > 1:
        for w in c['ws']:
            out.append(dict(c, ws=[w], sets=[]))
    if c['sets']:
        out.append(dict(c, sets=[]))
    return out


LEVEL_TEXT = ('Coq theorems about the model of pda_epsilon_closure / pda_accepts_word for every pop order and every value of the iteration limit: every member of a computed closure is epsilon-reachable and a True '
              'verdict always has an accepting computation (soundness, unconditional); when no closure is truncated the closure is exact and the verdict is complete. Tied to the Python by in-Coq evaluation with the limit varied.')
LEVEL_NOTE = 'Trusted: Coq kernel + vm_compute, model Model/PDA.v, harness (stack reversal, limit setting). No axioms. See evidence for statements still _partial.'
TECHNIQUE = 'Coq proof (worklist invariant under a fuel limit, induction on words) + in-Coq differential correspondence with the limit varied'
