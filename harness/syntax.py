"""Character-level encodings for the concrete-syntax models (Model/RegexpSyntax.v, Model/CFGText.v, Model/FreshName.v)."""
import coqlit as L
import conv
import textmodel as TM


def code(ch):
    return TM.Chars().code(ch)          # ASCII and 'ε' only: the coding is fixed for those


def codes(s):
    """text -> list of character codes; None when a character outside the fixed coding occurs"""
    out = []
    for ch in s:
        if ord(ch) >= 128 and ch not in TM.FIXED:
            return None
        out.append(code(ch))
    return out


def tok(s):
    cs = codes(s)
    assert cs is not None, s
    return L.lst(str(x) for x in cs)


def toks(ss):
    return L.lst(tok(s) for s in ss)


def opt_codes(s):
    if s is None:
        return 'None'
    cs = codes(s)
    return 'None' if cs is None else '(Some %s)' % L.lst(str(x) for x in cs)


def re_chars(t):
    """regexp tree with symbols coded as characters (Sym 'a' = 197)"""
    k = t[0]
    if k == '0':
        return 'Zero'
    if k == '1':
        return 'One'
    if k == 's':
        return '(Sym %d)' % code(conv.SYMS[t[1]])
    if k == '*':
        return '(Star %s)' % re_chars(t[1])
    return '(%s %s %s)' % ('Sum' if k == '+' else 'Cat', re_chars(t[1]), re_chars(t[2]))


def cfg_lines(text):
    """printed simple grammar -> [(lhs, [alternatives])] after the splits of SimpleCFGParser.parse_rule; None if a line has another shape"""
    lines = []
    for line in text.split('\n'):
        line = line.strip()
        if not line:
            continue
        words = line.split('->')
        if len(words) != 2 or len(words[0].strip()) != 1:
            return None
        lines.append((words[0].strip(), [a.strip() for a in words[1].strip().split('|')]))
    return lines


def cfg_lines_lit(lines):
    return L.lst(L.pair(str(code(x)), L.lst(tok(a) for a in alts)) for x, alts in lines)


def cfg_chars(g):
    """grammar case (single-character names) -> cfg literal with names = character codes, rule ids 0.."""
    sym = lambda s: '(%s, %d)' % ('true' if s[0] == 'V' else 'false', code(s[1]))
    rules = L.lst('(mkRule %d %d %s)' % (code(v), i, L.lst(sym(s) for s in rhs)) for i, (v, rhs) in enumerate(g['R']))
    return '(mkCFG %s %s %s %d)' % (L.nats(code(v) for v in g['V']), L.nats(code(t) for t in g['Sigma']), rules, code(g['S']))
