From GT Require Import Base.Prelude Base.Sort Model.DFA Model.NFA Model.DFAOps Model.Lang Decide.DFAEquiv Judge.Common.

Definition keys_unique {K V} `{Eqb K} (m : list (K * V)) : bool := Nat.eqb (length (dedup (map fst m))) (length m).

(* constructed DFA: valid, same alphabet, language-equal (exact) to the proved model's result *)
Definition rel_dfa {B} `{Eqb B} (o : option (dfa nat)) (m : option (dfa B)) (c : nat) : nat :=
  match o, m with
  | Some D', Some M => if negb (dfa_wf_b D') then c else if dfa_equivb D' M then 0 else c + 1
  | None, None => 0          (* both reject (assertion) *)
  | _, _ => c + 2
  end.
Definition rel_nfa (o : option (nfa nat)) (m : option (nfa nat)) (c : nat) : nat :=
  match o, m with
  | Some N', Some M => if negb (nfa_wf_b N') then c else if nfa_equivb N' M then 0 else c + 1
  | None, None => 0
  | _, _ => c + 2
  end.

Definition judge_C14_pair (D1 D2 : dfa nat) (ou oi os : option (dfa nat)) : nat :=
  worst_code [ check (dfa_wf_b D1 && dfa_wf_b D2 && keys_unique (dD D1) && keys_unique (dD D2)) 9;
               rel_dfa ou (dfa_product 0 D1 D2) 10;
               rel_dfa oi (dfa_product 1 D1 D2) 13;
               rel_dfa os (dfa_product 2 D1 D2) 16 ].

(* single DFA: complement, reverse (fresh state code, eps code), no_prefix, no_extend, remove_unreachable,
   reachable_states (per state, depth 0 and 1) *)
Definition judge_C14_one (D : dfa nat) (ocomp : option (dfa nat))
           (fresh eps : nat) (orev : option (nfa nat)) (onp : option (nfa nat))
           (onx : option (dfa nat)) (orm : option (dfa nat))
           (oreach : list (nat * nat * option (list nat))) : nat :=
  worst_code [ check (dfa_wf_b D && keys_unique (dD D)) 9;
               rel_dfa ocomp (Some (dfa_complement D)) 20;
               check (negb (mem fresh (dQ D))) 23;
               rel_nfa orev (dfa_reverse fresh eps D) 24;
               match orev with Some N' => check (Nat.eqb (nq0 N') fresh) 23 | None => 0 end;
               rel_nfa onp (dfa_no_prefix eps D) 27;
               rel_dfa onx (dfa_no_extend D) 30;
               rel_dfa orm (dfa_remove_unreachable_states D) 33;
               match orm with Some D' => check (all_reachable_b D') 36 | None => 0 end;
               check (forallb (fun x => let '(q, depth, o) := x in
                        match o, dfa_reachable_states D q depth with
                        | Some r, Some m => seteqb r m | None, None => true | _, _ => false end) oreach) 37 ].

(* totalisation of a partial DFA *)
Definition judge_C14_total (D : dfa nat) (trap : nat) (o : option (dfa nat)) : nat :=
  worst_code [ check (negb (mem trap (dQ D))) 40; rel_dfa o (Some (dfa_make_total trap D)) 41 ].

(* finite-language helpers *)
Definition oseteq (o : option (list word)) (m : list word) : bool := match o with Some l => seteqb l m | None => false end.
Definition judge_C14_lang (L1 L2 : list word) (Sg : list nat) (n : nat)
           (orev onp onx oconc ouni oint osym own own_upto : option (list word)) : nat :=
  worst_code [ check (oseteq orev (l_reverse L1)) 50; check (oseteq onp (l_no_prefix L1)) 51; check (oseteq onx (l_no_extend L1)) 52;
               check (oseteq oconc (l_concatenation L1 L2)) 53; check (oseteq ouni (l_union L1 L2)) 54; check (oseteq oint (l_intersection L1 L2)) 55;
               check (oseteq osym (l_symmetric_difference L1 L2)) 56; check (oseteq own (l_words_of_length_n Sg n)) 57;
               check (oseteq own_upto (l_words_up_to_n Sg n)) 58 ].

Definition explain_C14_pair (D1 D2 : dfa nat) := (dfa_product 0 D1 D2, dfa_product 1 D1 D2, dfa_product 2 D1 D2).
Definition explain_C14_one (D : dfa nat) (fresh eps : nat) :=
  (dfa_complement D, dfa_reverse fresh eps D, dfa_no_prefix eps D, dfa_no_extend D, dfa_remove_unreachable_states D).
Definition explain_C14_lang (L1 L2 : list word) := (l_reverse L1, l_no_prefix L1, l_no_extend L1, l_concatenation L1 L2).
