(* Correctness of the two partition-refinement minimisers of Model/Minimize.v:
   dfa_quotient (Moore refinement) and dfa_hopcroft (Hopcroft exactly as coded).
   Results: the computed partition is a partition of dQ D into non-empty blocks that refines {F, Q\F}, is stable and
   is coarser than Myhill-Nerode equivalence; the loops terminate within the fuel of the model; the assembled
   automaton satisfies is_quotient_of.  Stdlib only, no axioms. *)
From GT Require Import Base.Prelude Model.DFA Model.NFA Model.Minimize.
From GT Require Import Proofs.NFAProofs Proofs.DFAOpsProofs Proofs.PartitionDefs.
From Coq Require Import Permutation.

(* ---------- generic list facts ---------- *)
Section Generic.
  Context {X Y : Type}.

  Lemma fold_left_pres (f : X -> Y -> X) (I : X -> Prop) (l : list Y) :
    (forall acc y, In y l -> I acc -> I (f acc y)) -> forall acc, I acc -> I (fold_left f l acc).
  Proof.
    induction l as [|y l IH]; intros Hstep acc Hacc; cbn [fold_left]; [exact Hacc|].
    apply IH.
    - intros acc' y' Hy'. apply Hstep. right; exact Hy'.
    - apply Hstep; [left; reflexivity | exact Hacc].
  Qed.

  Lemma fold_left_estab (f : X -> Y -> X) (I : X -> Prop) (l : list Y) (y0 : Y) :
    In y0 l -> (forall acc, I (f acc y0)) -> (forall acc y, In y l -> I acc -> I (f acc y)) ->
    forall acc, I (fold_left f l acc).
  Proof.
    induction l as [|y l IH]; intros Hin Hy0 Hstep acc; [destruct Hin|]. cbn [fold_left].
    destruct Hin as [->|Hin].
    - apply fold_left_pres; [|apply Hy0]. intros acc' y' Hy'. apply Hstep. right; exact Hy'.
    - apply IH; [exact Hin | exact Hy0 |]. intros acc' y' Hy'. apply Hstep. right; exact Hy'.
  Qed.
End Generic.

Lemma flat_map_len_ge {X Y : Type} (f : X -> list Y) (l : list X) :
  (forall x, In x l -> f x <> []) -> length l <= length (flat_map f l).
Proof.
  induction l as [|x l IH]; intros Hne; cbn [flat_map length]; [lia|].
  rewrite app_length. assert (Hx : f x <> []) by (apply Hne; left; reflexivity).
  assert (IH' : length l <= length (flat_map f l)) by (apply IH; intros x' Hx'; apply Hne; right; exact Hx').
  destruct (f x) as [|y r]; [congruence|]. cbn [length]. lia.
Qed.

Lemma flat_map_len_single {X Y : Type} (f : X -> list Y) (l : list X) :
  (forall x, In x l -> f x <> []) -> length (flat_map f l) <= length l ->
  forall x, In x l -> exists y, f x = [y].
Proof.
  induction l as [|x l IH]; intros Hne Hlen x0 Hx0; [destruct Hx0|].
  cbn [flat_map length] in Hlen. rewrite app_length in Hlen.
  assert (Hx : f x <> []) by (apply Hne; left; reflexivity).
  assert (Hge : length l <= length (flat_map f l)) by (apply flat_map_len_ge; intros x' Hx'; apply Hne; right; exact Hx').
  destruct Hx0 as [<-|Hx0].
  - destruct (f x) as [|y [|y2 r]]; [congruence | exists y; reflexivity | cbn [length] in Hlen; lia].
  - apply IH; [intros x' Hx'; apply Hne; right; exact Hx' | | exact Hx0].
    destruct (f x) as [|y r]; [congruence|]. cbn [length] in Hlen. lia.
Qed.

Lemma len_concat_ge {X : Type} (P : list (list X)) : (forall B, In B P -> B <> []) -> length P <= length (concat P).
Proof.
  induction P as [|B P IH]; intros Hne; cbn [concat length]; [lia|].
  rewrite app_length. assert (HB : B <> []) by (apply Hne; left; reflexivity).
  assert (IH' : length P <= length (concat P)) by (apply IH; intros B' HB'; apply Hne; right; exact HB').
  destruct B as [|y r]; [congruence|]. cbn [length]. lia.
Qed.

Lemma NoDup_app_inv {X : Type} (l1 l2 : list X) : NoDup (l1 ++ l2) ->
  NoDup l1 /\ NoDup l2 /\ forall x, In x l1 -> ~ In x l2.
Proof.
  induction l1 as [|b l1 IH]; cbn [app]; intros Hnd.
  - split; [constructor|]. split; [exact Hnd|]. intros x [].
  - inversion Hnd as [|b0 l0 Hnb Hnd']; subst. destruct (IH Hnd') as [H1 [H2 H3]]. split; [|split].
    + constructor; [|exact H1]. intros Hc. apply Hnb. apply in_or_app. left; exact Hc.
    + exact H2.
    + intros x [<-|Hx] Hx2; [apply Hnb; apply in_or_app; right; exact Hx2 | exact (H3 x Hx Hx2)].
Qed.

Lemma nodup_concat_disj {X : Type} (P : list (list X)) : NoDup (concat P) ->
  forall B1 B2 q, In B1 P -> In B2 P -> In q B1 -> In q B2 -> B1 = B2.
Proof.
  induction P as [|B P IH]; intros Hnd B1 B2 q H1 H2 Hq1 Hq2; [destruct H1|].
  cbn [concat] in Hnd. apply NoDup_app_inv in Hnd. destruct Hnd as [_ [Hnd' Hdis0]].
  assert (Hdis : forall x B', In x B -> In B' P -> In x B' -> False).
  { intros x B' Hx HB' Hx'. apply (Hdis0 x Hx). apply in_concat. exists B'. auto. }
  destruct H1 as [<-|H1], H2 as [<-|H2].
  - reflexivity.
  - exfalso. eapply Hdis; eauto.
  - exfalso. eapply Hdis; eauto.
  - eapply IH; eauto.
Qed.

Section MH.
  Context {A : Type} `{Eqb A}.
  Variable canon : list A -> list A.
  Variable ord : list A -> list A.
  Variable ordB : list (list A) -> list (list A).
  Variable rep : list A -> option A.
  Variable pick : picker (list A * nat).
  Hypothesis canon_In : forall l y, In y (canon l) <-> In y l.
  Hypothesis canon_ext : forall l1 l2, (forall y, In y l1 <-> In y l2) -> canon l1 = canon l2.
  Hypothesis ord_perm : forall l, Permutation (ord l) l.
  Hypothesis ordB_perm : forall l, Permutation (ordB l) l.
  Hypothesis rep_In : forall l, l <> [] -> exists x, rep l = Some x /\ In x l.
  Hypothesis pick_ok : picker_ok pick.
  Variable D : dfa A.
  Hypothesis Hwf : dfa_wf D.
  Hypothesis HndQ : NoDup (dQ D).
  Hypothesis HndF : NoDup (dF D).
  Hypothesis HndD : NoDup (map fst (dD D)).

  Definition good_partition (P : list (list A)) : Prop :=
    (forall B, In B P -> B <> [] /\ incl B (dQ D)) /\
    (forall q, In q (dQ D) -> exists B, In B P /\ In q B) /\
    (forall B1 B2 q, In B1 P -> In B2 P -> In q B1 -> In q B2 -> B1 = B2).

  Definition disj (P : list (list A)) : Prop :=
    forall B1 B2 q, In B1 P -> In B2 P -> In q B1 -> In q B2 -> B1 = B2.
  Definition cover (P : list (list A)) : Prop := forall q, In q (dQ D) -> exists B, In B P /\ In q B.
  Definition mn_closed (S0 : list A) : Prop := forall p q, In p S0 -> In q (dQ D) -> mn_equiv D p q -> In q S0.

  Lemma step_Q q a : In q (dQ D) -> In a (dS D) -> In (dstep D q a) (dQ D).
  Proof. intros Hq Ha. apply (dfa_wf_step q a Hwf Hq Ha). Qed.

  Lemma In_dec_l (x : A) (l : list A) : In x l \/ ~ In x l.
  Proof. destruct (mem x l) eqn:E; [left; apply mem_In; exact E | right; apply mem_nIn; exact E]. Qed.

  (* ---------- Myhill-Nerode facts ---------- *)
  Lemma mn_step p q a : mn_equiv D p q -> In a (dS D) -> mn_equiv D (dstep D p a) (dstep D q a).
  Proof.
    intros Hmn Ha w Hw. specialize (Hmn (a :: w)). cbn [drun] in Hmn. apply Hmn.
    constructor; assumption.
  Qed.
  Lemma mn_sym p q : mn_equiv D p q -> mn_equiv D q p.
  Proof. intros Hmn w Hw. symmetry. apply Hmn; exact Hw. Qed.
  Lemma mn_F p q : mn_equiv D p q -> (In p (dF D) <-> In q (dF D)).
  Proof. intros Hmn. apply (Hmn []). constructor. Qed.

  Lemma mn_closed_F : mn_closed (dF D).
  Proof. intros p q Hp Hq Hmn. apply (mn_F p q Hmn). exact Hp. Qed.
  Lemma mn_closed_NF : mn_closed (diff (dQ D) (dF D)).
  Proof.
    intros p q Hp Hq Hmn. apply diff_In in Hp. apply diff_In. split; [exact Hq|].
    intros Hc. apply (proj2 Hp). apply (mn_F p q Hmn). exact Hc.
  Qed.

  (* ---------- block_of ---------- *)
  Lemma block_of_Some P x B : block_of P x = Some B -> In B P /\ In x B.
  Proof.
    induction P as [|B0 P IH]; cbn [block_of]; [discriminate|]. destruct (mem x B0) eqn:E.
    - intros E1; inversion E1; subst. split; [left; reflexivity | apply mem_In; exact E].
    - intros E1. destruct (IH E1) as [H1 H2]. split; [right; exact H1 | exact H2].
  Qed.
  Lemma block_of_ex P x B : In B P -> In x B -> exists B', block_of P x = Some B'.
  Proof.
    induction P as [|B0 P IH]; intros HB Hx; [destruct HB|]. cbn [block_of]. destruct (mem x B0) eqn:E.
    - exists B0; reflexivity.
    - destruct HB as [->|HB]; [apply mem_In in Hx; congruence|]. apply IH; assumption.
  Qed.
  Lemma block_of_unique P x B : disj P -> In B P -> In x B -> block_of P x = Some B.
  Proof.
    intros Hd HB Hx. destruct (block_of_ex P x B HB Hx) as [B' E]. rewrite E. f_equal.
    destruct (block_of_Some _ _ _ E) as [HB' Hx']. exact (Hd B' B x HB' HB Hx' Hx).
  Qed.

  Definition sameB (P : list (list A)) (x y : A) : Prop := exists B, In B P /\ In x B /\ In y B.

  Lemma seteqb_refl (l : list A) : seteqb l l = true.
  Proof. apply seteqb_seteq. intros x; tauto. Qed.

  Lemma same_block_spec P x y : disj P -> (exists B, In B P /\ In x B) -> (exists B, In B P /\ In y B) ->
    (same_block P x y = true <-> sameB P x y).
  Proof.
    intros Hd [Bx [HBx Hx]] [By [HBy Hy]]. unfold same_block.
    rewrite (block_of_unique P x Bx Hd HBx Hx), (block_of_unique P y By Hd HBy Hy). split.
    - intros E. apply seteqb_seteq in E. exists Bx. split; [exact HBx|]. split; [exact Hx | apply E; exact Hy].
    - intros [B [HB [Hx' Hy']]]. rewrite (Hd Bx B x HBx HB Hx Hx'), (Hd By B y HBy HB Hy Hy'). apply seteqb_refl.
  Qed.

  (* ================= Moore ================= *)
  Definition sig (P : list (list A)) (x y : A) : Prop :=
    forall a, In a (dS D) -> sameB P (dstep D x a) (dstep D y a).

  Section Round.
    Variable P : list (list A).
    Hypothesis Hdisj : disj P.
    Hypothesis Hcover : cover P.

    Lemma sig_refl x : In x (dQ D) -> sig P x x.
    Proof.
      intros Hx a Ha. destruct (Hcover _ (step_Q x a Hx Ha)) as [B [HB Hs]]. exists B. auto.
    Qed.
    Lemma sig_sym x y : sig P x y -> sig P y x.
    Proof. intros Hs a Ha. destruct (Hs a Ha) as [B [HB [H1 H2]]]. exists B. auto. Qed.
    Lemma sig_trans x y z : sig P x y -> sig P y z -> sig P x z.
    Proof.
      intros H1 H2 a Ha. destruct (H1 a Ha) as [B1 [HB1 [Hx Hy]]]. destruct (H2 a Ha) as [B2 [HB2 [Hy' Hz]]].
      rewrite <- (Hdisj B1 B2 _ HB1 HB2 Hy Hy') in Hz. exists B1. auto.
    Qed.
    Lemma sig_test v w : In v (dQ D) -> In w (dQ D) ->
      (forallb (fun a => same_block P (dstep D v a) (dstep D w a)) (dS D) = true <-> sig P v w).
    Proof.
      intros Hv Hw. rewrite forallb_forall. unfold sig. split; intros Hs a Ha.
      - apply same_block_spec; [exact Hdisj | apply Hcover, step_Q; assumption | apply Hcover, step_Q; assumption |].
        apply Hs; exact Ha.
      - apply same_block_spec; [exact Hdisj | apply Hcover, step_Q; assumption | apply Hcover, step_Q; assumption |].
        apply Hs; exact Ha.
    Qed.

    Fixpoint sep (WW : list (list A)) : Prop :=
      match WW with
      | [] => True
      | W :: WW' => (forall x y, In x W -> In y (concat WW') -> ~ sig P x y) /\ sep WW'
      end.
    Definition intra (WW : list (list A)) : Prop := forall W x y, In W WW -> In x W -> In y W -> sig P x y.
    Definition nonempty (WW : list (list A)) : Prop := forall W, In W WW -> W <> [].
    Definition inQ (WW : list (list A)) : Prop := forall x, In x (concat WW) -> In x (dQ D).

    Lemma place_spec v : In v (dQ D) -> forall WW, inQ WW -> nonempty WW -> intra WW -> sep WW ->
      Permutation (concat (place rep D P v WW)) (v :: concat WW) /\
      nonempty (place rep D P v WW) /\ intra (place rep D P v WW) /\ sep (place rep D P v WW).
    Proof.
      intros Hv. induction WW as [|W WW IH]; intros HQ Hne Hin Hsep.
      - cbn [place concat app]. split; [apply Permutation_refl|]. split; [|split].
        + intros W [<-|[]]. discriminate.
        + intros W x y [<-|[]] [<-|[]] [<-|[]]. apply sig_refl; exact Hv.
        + cbn. split; [intros x y _ []|exact I].
      - assert (HW : W <> []) by (apply Hne; left; reflexivity).
        destruct (rep_In W HW) as [w [Erep Hw]]. cbn [place]. rewrite Erep.
        assert (HwQ : In w (dQ D)).
        { apply HQ. cbn [concat]. apply in_or_app. left; exact Hw. }
        assert (HQ' : inQ WW).
        { intros x Hx. apply HQ. cbn [concat]. apply in_or_app. right; exact Hx. }
        assert (Hne' : nonempty WW) by (intros W' HW'; apply Hne; right; exact HW').
        assert (Hin' : intra WW) by (intros W' x y HW'; apply Hin; right; exact HW').
        cbn [sep] in Hsep. destruct Hsep as [Hsep1 Hsep2].
        destruct (forallb (fun a => same_block P (dstep D v a) (dstep D w a)) (dS D)) eqn:Et.
        + apply (sig_test v w Hv HwQ) in Et. split; [|split; [|split]].
          * cbn [concat]. rewrite <- app_assoc. cbn [app]. apply Permutation_sym, Permutation_middle.
          * intros W' [<-|HW']; [destruct W; discriminate | apply Hne'; exact HW'].
          * intros W' x y [<-|HW'] Hx Hy; [|apply (Hin' W'); assumption].
            apply in_app_or in Hx. apply in_app_or in Hy.
            assert (Hl : In W (W :: WW)) by (left; reflexivity).
            destruct Hx as [Hx|[<-|[]]], Hy as [Hy|[<-|[]]].
            -- apply (Hin W); assumption.
            -- apply sig_trans with w; [apply (Hin W); assumption | apply sig_sym; exact Et].
            -- apply sig_trans with w; [exact Et | apply (Hin W); assumption].
            -- apply sig_refl; exact Hv.
          * cbn [sep]. split; [|exact Hsep2]. intros x y Hx Hy Hs. apply in_app_or in Hx.
            destruct Hx as [Hx|[<-|[]]]; [exact (Hsep1 x y Hx Hy Hs)|].
            apply (Hsep1 w y Hw Hy). apply sig_trans with v; [apply sig_sym; exact Et | exact Hs].
        + assert (Hnt : ~ sig P v w).
          { intros Hs. apply (sig_test v w Hv HwQ) in Hs. congruence. }
          destruct (IH HQ' Hne' Hin' Hsep2) as [Hp [Hne2 [Hin2 Hsep3]]]. split; [|split; [|split]].
          * cbn [concat]. apply Permutation_trans with (W ++ v :: concat WW).
            -- apply Permutation_app_head. exact Hp.
            -- apply Permutation_sym, Permutation_middle.
          * intros W' [<-|HW']; [exact HW | apply Hne2; exact HW'].
          * intros W' x y [<-|HW'] Hx Hy; [apply (Hin W); [left; reflexivity | |]; assumption|].
            apply (Hin2 W'); assumption.
          * cbn [sep]. split; [|exact Hsep3]. intros x y Hx Hy Hs.
            apply (Permutation_in _ Hp) in Hy. destruct Hy as [<-|Hy]; [|exact (Hsep1 x y Hx Hy Hs)].
            apply Hnt. apply sig_trans with x; [apply sig_sym; exact Hs|].
            apply (Hin W); [left; reflexivity | exact Hx | exact Hw].
    Qed.

    Lemma fold_place l : forall WW, incl l (dQ D) -> inQ WW -> nonempty WW -> intra WW -> sep WW ->
      let R := fold_left (fun WW v => place rep D P v WW) l WW in
      Permutation (concat R) (l ++ concat WW) /\ nonempty R /\ intra R /\ sep R.
    Proof.
      induction l as [|v l IH]; intros WW Hl HQ Hne Hin Hsep; cbn [fold_left].
      - cbn [app]. split; [apply Permutation_refl|]. auto.
      - assert (Hv : In v (dQ D)) by (apply Hl; left; reflexivity).
        destruct (place_spec v Hv WW HQ Hne Hin Hsep) as [Hp [Hne2 [Hin2 Hsep2]]].
        assert (HQ2 : inQ (place rep D P v WW)).
        { intros x Hx. apply (Permutation_in _ Hp) in Hx. destruct Hx as [<-|Hx]; [exact Hv | apply HQ; exact Hx]. }
        assert (Hl' : incl l (dQ D)) by (intros x Hx; apply Hl; right; exact Hx).
        destruct (IH _ Hl' HQ2 Hne2 Hin2 Hsep2) as [Hp3 Hrest]. split; [|exact Hrest].
        apply Permutation_trans with (l ++ v :: concat WW).
        + apply Permutation_trans with (1 := Hp3). apply Permutation_app_head. exact Hp.
        + cbn [app]. apply Permutation_sym, Permutation_middle.
    Qed.

    Lemma sep_complete WW : sep WW -> forall W x y, In W WW -> In x W -> In y (concat WW) -> sig P x y -> In y W.
    Proof.
      induction WW as [|W0 WW IH]; intros Hsep W x y HW Hx Hy Hs; [destruct HW|].
      cbn [sep] in Hsep. destruct Hsep as [Hs1 Hs2]. cbn [concat] in Hy. apply in_app_or in Hy.
      destruct HW as [<-|HW].
      - destruct Hy as [Hy|Hy]; [exact Hy|]. exfalso. exact (Hs1 x y Hx Hy Hs).
      - destruct Hy as [Hy|Hy].
        + exfalso. apply (Hs1 y x Hy); [|apply sig_sym; exact Hs]. apply in_concat. exists W. auto.
        + apply (IH Hs2 W x y); assumption.
    Qed.

    Lemma refine_block_spec V : incl V (dQ D) ->
      let WW := refine_block ord rep D P V in
      Permutation (concat WW) V /\ nonempty WW /\
      (forall W x y, In W WW -> In x W -> In y W -> sig P x y) /\
      (forall W x y, In W WW -> In x W -> In y V -> sig P x y -> In y W).
    Proof.
      intros HV. unfold refine_block.
      assert (Hl : incl (ord V) (dQ D)).
      { intros x Hx. apply HV. apply (Permutation_in _ (ord_perm V)). exact Hx. }
      destruct (fold_place (ord V) [] Hl) as [Hp [Hne [Hin Hsep]]].
      - intros x [].
      - intros W [].
      - intros W x y [].
      - exact I.
      - cbn [concat] in Hp. rewrite app_nil_r in Hp.
        assert (HpV : Permutation (concat (fold_left (fun WW v => place rep D P v WW) (ord V) [])) V).
        { apply Permutation_trans with (1 := Hp). apply ord_perm. }
        split; [exact HpV|]. split; [exact Hne|]. split; [exact Hin|].
        intros W x y HW Hx Hy Hs. apply (sep_complete _ Hsep W x y HW Hx); [|exact Hs].
        apply (Permutation_in _ (Permutation_sym HpV)). exact Hy.
    Qed.

    Hypothesis HinclP : forall B, In B P -> incl B (dQ D).

    Lemma refine_perm_aux P0 : (forall B, In B P0 -> incl B (dQ D)) ->
      Permutation (concat (flat_map (refine_block ord rep D P) P0)) (concat P0).
    Proof.
      induction P0 as [|V P0 IH]; intros Hincl; cbn [flat_map concat]; [apply Permutation_refl|].
      rewrite concat_app. apply Permutation_app.
      - apply refine_block_spec. apply Hincl. left; reflexivity.
      - apply IH. intros B HB. apply Hincl. right; exact HB.
    Qed.
    Lemma refine_perm : Permutation (concat (refine ord rep D P)) (concat P).
    Proof. apply refine_perm_aux. exact HinclP. Qed.

    Lemma refine_blocks W : In W (refine ord rep D P) ->
      W <> [] /\ exists V, In V P /\ In W (refine_block ord rep D P V) /\ incl W V /\
        (forall x y, In x W -> In y W -> sig P x y) /\
        (forall x y, In x W -> In y V -> sig P x y -> In y W).
    Proof.
      unfold refine. intros HW. apply in_flat_map in HW. destruct HW as [V [HV HW]].
      destruct (refine_block_spec V (HinclP V HV)) as [Hp [Hne [Hin Hcomp]]].
      split; [apply Hne; exact HW|]. exists V. split; [exact HV|]. split; [exact HW|]. split; [|split].
      - intros x Hx. apply (Permutation_in _ Hp). apply in_concat. exists W. auto.
      - intros x y. apply Hin; exact HW.
      - intros x y. apply Hcomp; exact HW.
    Qed.
  End Round.

  Definition wpart (P : list (list A)) : Prop := NoDup (concat P) /\ forall q, In q (concat P) <-> In q (dQ D).
  Definition minv (P : list (list A)) : Prop := wpart P /\ refines_F D P /\ coarser_than_mn D P.

  Lemma wpart_disj P : wpart P -> disj P.
  Proof. intros [Hnd _]. exact (nodup_concat_disj P Hnd). Qed.
  Lemma wpart_cover P : wpart P -> cover P.
  Proof. intros [_ He] q Hq. apply in_concat. apply He. exact Hq. Qed.
  Lemma wpart_incl P : wpart P -> forall B, In B P -> incl B (dQ D).
  Proof. intros [_ He] B HB x Hx. apply He. apply in_concat. exists B. auto. Qed.

  Lemma minv_init : minv [dF D; diff (dQ D) (dF D)].
  Proof.
    split; [|split].
    - split.
      + cbn [concat]. rewrite app_nil_r. apply NoDup_app_intro.
        * exact HndF.
        * unfold diff. apply NoDup_filter. exact HndQ.
        * intros x Hx. apply diff_In in Hx. tauto.
      + intros q. cbn [concat]. rewrite app_nil_r, in_app_iff, diff_In. split.
        * intros [Hq|[Hq _]]; [apply Hwf; exact Hq | exact Hq].
        * intros Hq. destruct (In_dec_l q (dF D)); tauto.
    - intros B p q [<-|[<-|[]]] Hp Hq; [tauto|]. apply diff_In in Hp, Hq. tauto.
    - intros B p q [<-|[<-|[]]] Hp Hq Hmn; [exact (mn_closed_F p q Hp Hq Hmn) | exact (mn_closed_NF p q Hp Hq Hmn)].
  Qed.

  Lemma minv_refine P : minv P -> minv (refine ord rep D P) /\ (forall W, In W (refine ord rep D P) -> W <> []).
  Proof.
    intros [Hwp [HF Hco]].
    pose proof (wpart_disj P Hwp) as Hd. pose proof (wpart_cover P Hwp) as Hc. pose proof (wpart_incl P Hwp) as Hi.
    pose proof (refine_perm P Hd Hc Hi) as Hperm.
    split; [|intros W HW; apply (refine_blocks P Hd Hc Hi W HW)].
    split; [|split].
    - destruct Hwp as [Hnd He]. split.
      + apply (Permutation_NoDup (Permutation_sym Hperm)). exact Hnd.
      + intros q. rewrite <- He. split; apply Permutation_in; [exact Hperm | apply Permutation_sym; exact Hperm].
    - intros W p q HW Hp Hq. destruct (refine_blocks P Hd Hc Hi W HW) as [_ [V [HV [_ [Hsub _]]]]].
      apply (HF V); [exact HV | apply Hsub; exact Hp | apply Hsub; exact Hq].
    - intros W p q HW Hp Hq Hmn. destruct (refine_blocks P Hd Hc Hi W HW) as [_ [V [HV [_ [Hsub [_ Hcomp]]]]]].
      apply (Hcomp p q Hp).
      + apply (Hco V p q HV); [apply Hsub; exact Hp | exact Hq | exact Hmn].
      + intros a Ha. assert (HpQ : In p (dQ D)) by (apply (Hi V HV), Hsub, Hp).
        destruct (Hc _ (step_Q p a HpQ Ha)) as [B [HB Hs]]. exists B. split; [exact HB|]. split; [exact Hs|].
        apply (Hco B (dstep D p a) (dstep D q a) HB Hs); [apply step_Q; assumption | apply mn_step; assumption].
  Qed.

  Lemma blocks_subset_spec P1 P2 : blocks_subset P1 P2 = true <-> forall B, In B P1 -> exists B', In B' P2 /\ seteq B B'.
  Proof.
    unfold blocks_subset. rewrite forallb_forall. split; intros Hs B HB.
    - specialize (Hs B HB). apply existsb_exists in Hs. destruct Hs as [B' [HB' E]]. exists B'. split; [exact HB'|].
      apply seteqb_seteq; exact E.
    - destruct (Hs B HB) as [B' [HB' E]]. apply existsb_exists. exists B'. split; [exact HB'|]. apply seteqb_seteq; exact E.
  Qed.

  Lemma moore_exit P : minv P -> blocks_subset P (refine ord rep D P) = true ->
    good_partition P /\ refines_F D P /\ stable D P /\ coarser_than_mn D P.
  Proof.
    intros [Hwp [HF Hco]] Hbs.
    pose proof (wpart_disj P Hwp) as Hd. pose proof (wpart_cover P Hwp) as Hc. pose proof (wpart_incl P Hwp) as Hi.
    rewrite blocks_subset_spec in Hbs.
    split; [|split; [exact HF|split; [|exact Hco]]].
    - split; [|split; [exact Hc | exact Hd]]. intros B HB. split; [|apply Hi; exact HB].
      destruct (Hbs B HB) as [W [HW He]]. destruct (refine_blocks P Hd Hc Hi W HW) as [Hne _].
      intros ->. destruct W as [|x W]; [congruence|]. apply (He x). left; reflexivity.
    - intros B C a p q HB HC Ha Hp Hq Hs.
      destruct (Hbs B HB) as [W [HW He]]. destruct (refine_blocks P Hd Hc Hi W HW) as [_ [V [_ [_ [_ [Hin _]]]]]].
      assert (Hsig : sig P p q) by (apply Hin; apply He; assumption).
      destruct (Hsig a Ha) as [C' [HC' [H1 H2]]]. rewrite (Hd C C' _ HC HC' Hs H1). exact H2.
  Qed.

  Lemma moore_loop_correct_gen fuel : forall P P', minv P -> moore_loop ord rep D fuel P = Some P' ->
    good_partition P' /\ refines_F D P' /\ stable D P' /\ coarser_than_mn D P'.
  Proof.
    induction fuel as [|f IH]; intros P P' Hinv; cbn [moore_loop]; [discriminate|].
    destruct (equal_sets P (refine ord rep D P)) eqn:E.
    - intros E1; inversion E1; subst P'. unfold equal_sets in E. apply andb_true_iff in E.
      apply moore_exit; [exact Hinv | apply E].
    - apply IH. apply minv_refine. exact Hinv.
  Qed.

  Theorem moore_loop_correct P : moore_loop ord rep D (S (S (length (dQ D)))) [dF D; diff (dQ D) (dF D)] = Some P ->
    good_partition P /\ refines_F D P /\ stable D P /\ coarser_than_mn D P.
  Proof. apply moore_loop_correct_gen. exact minv_init. Qed.

  (* ---------- termination ---------- *)
  Lemma refine_block_nonempty P V : disj P -> cover P -> incl V (dQ D) -> V <> [] -> refine_block ord rep D P V <> [].
  Proof.
    intros Hd Hc HV Hne E. destruct (refine_block_spec P Hd Hc V HV) as [Hp _]. rewrite E in Hp. cbn [concat] in Hp.
    apply Permutation_nil in Hp. contradiction.
  Qed.

  Lemma refine_grows P : wpart P -> (forall B, In B P -> B <> []) -> equal_sets P (refine ord rep D P) = false ->
    length P < length (refine ord rep D P).
  Proof.
    intros Hwp Hne Heq.
    pose proof (wpart_disj P Hwp) as Hd. pose proof (wpart_cover P Hwp) as Hc. pose proof (wpart_incl P Hwp) as Hi.
    destruct (Nat.lt_ge_cases (length P) (length (refine ord rep D P))) as [Hlt|Hge]; [exact Hlt|exfalso].
    assert (Hne2 : forall V, In V P -> refine_block ord rep D P V <> []).
    { intros V HV. apply refine_block_nonempty; auto. }
    pose proof (flat_map_len_single (refine_block ord rep D P) P Hne2 Hge) as Hsingle.
    assert (Hse : forall V, In V P -> exists W, refine_block ord rep D P V = [W] /\ seteq V W).
    { intros V HV. destruct (Hsingle V HV) as [W EW]. exists W. split; [exact EW|].
      destruct (refine_block_spec P Hd Hc V (Hi V HV)) as [Hp _]. rewrite EW in Hp. cbn [concat] in Hp.
      rewrite app_nil_r in Hp. intros x. split; apply Permutation_in; [apply Permutation_sym; exact Hp | exact Hp]. }
    assert (Et : equal_sets P (refine ord rep D P) = true); [|congruence].
    unfold equal_sets. apply andb_true_iff. split; apply blocks_subset_spec.
    - intros B HB. destruct (Hse B HB) as [W [EW Hs]]. exists W. split; [|exact Hs].
      unfold refine. apply in_flat_map. exists B. split; [exact HB|]. rewrite EW. left; reflexivity.
    - intros W HW. unfold refine in HW. apply in_flat_map in HW. destruct HW as [V [HV HW]].
      destruct (Hse V HV) as [W' [EW Hs]]. rewrite EW in HW. destruct HW as [<-|[]].
      exists V. split; [exact HV|]. intros x. symmetry. apply Hs.
  Qed.

  Lemma wpart_length P : wpart P -> (forall B, In B P -> B <> []) -> length P <= length (dQ D).
  Proof.
    intros [Hnd He] Hne. apply Nat.le_trans with (length (concat P)); [apply len_concat_ge; exact Hne|].
    apply NoDup_incl_length; [exact Hnd|]. intros x Hx. apply He. exact Hx.
  Qed.

  Lemma moore_loop_terminates_gen fuel : forall P, minv P -> (forall B, In B P -> B <> []) ->
    length (dQ D) < fuel + length P -> moore_loop ord rep D fuel P <> None.
  Proof.
    induction fuel as [|f IH]; intros P Hinv Hne Hlen.
    - pose proof (wpart_length P (proj1 Hinv) Hne). lia.
    - cbn [moore_loop]. destruct (equal_sets P (refine ord rep D P)) eqn:E; [discriminate|].
      destruct (minv_refine P Hinv) as [Hinv' Hne']. apply IH; [exact Hinv' | exact Hne' |].
      pose proof (refine_grows P (proj1 Hinv) Hne E). lia.
  Qed.

  Theorem moore_loop_terminates : moore_loop ord rep D (S (S (length (dQ D)))) [dF D; diff (dQ D) (dF D)] <> None.
  Proof.
    remember (S (length (dQ D))) as f eqn:Ef. cbn [moore_loop]. destruct (equal_sets _ _); [discriminate|].
    destruct (minv_refine _ minv_init) as [Hinv' Hne']. apply moore_loop_terminates_gen; [exact Hinv' | exact Hne' | lia].
  Qed.

  (* ================= assembling the quotient automaton (mk_delta) ================= *)
  Section MkDelta.
    Variable P : list (list A).
    Variable leader : list A -> option A.

    Definition md_step (B : list A) (a : nat) (acc2 : option (list ((list A * nat) * list A))) :=
      match acc2, leader B with
      | Some l, Some v => match block_of P (dstep D v a) with
                          | Some B' => Some (((canon B, a), canon B') :: l)
                          | None => None
                          end
      | _, _ => None
      end.
    Definition md_inner (B : list A) (acc : option (list ((list A * nat) * list A))) (Sg : list nat) :=
      fold_right (md_step B) acc Sg.
    Lemma mk_delta_unfold PL :
      fold_right (fun B acc =>
        fold_right (fun a acc2 =>
          match acc2, leader B with
          | Some l, Some v => match block_of P (dstep D v a) with
                              | Some B' => Some (((canon B, a), canon B') :: l)
                              | None => None
                              end
          | _, _ => None
          end) acc (dS D)) (Some []) PL
      = fold_right (fun B acc => md_inner B acc (dS D)) (Some []) PL.
    Proof. reflexivity. Qed.

    Definition md_entry (B : list A) (e : (list A * nat) * list A) : Prop :=
      exists a v B', In a (dS D) /\ leader B = Some v /\ block_of P (dstep D v a) = Some B' /\
                     e = ((canon B, a), canon B').

    Lemma md_inner_spec B acc Sg : incl Sg (dS D) -> forall l, md_inner B acc Sg = Some l ->
      exists l0 l1, acc = Some l0 /\ l = l1 ++ l0 /\ (forall e, In e l1 -> md_entry B e) /\
                    (forall a, In a Sg -> exists S1, In ((canon B, a), S1) l1).
    Proof.
      induction Sg as [|a Sg IH]; intros Hincl l E.
      - cbn in E. exists l, []. split; [exact E|]. split; [reflexivity|]. split; [intros e []|intros a []].
      - unfold md_inner in E. cbn [fold_right] in E. fold (md_inner B acc Sg) in E.
        unfold md_step in E at 1. destruct (md_inner B acc Sg) as [l'|] eqn:E1; [|discriminate].
        destruct (leader B) as [v|] eqn:Ev; [|discriminate].
        destruct (block_of P (dstep D v a)) as [B'|] eqn:Eb; [|discriminate].
        inversion E; subst l. clear E.
        assert (Hincl' : incl Sg (dS D)) by (intros x Hx; apply Hincl; right; exact Hx).
        destruct (IH Hincl' l' eq_refl) as [l0 [l1 [Ea [El [Hent Hkey]]]]].
        exists l0, (((canon B, a), canon B') :: l1). split; [exact Ea|]. split; [cbn [app]; rewrite El; reflexivity|]. split.
        + intros e [<-|He]; [|apply Hent; exact He]. exists a, v, B'. split; [apply Hincl; left; reflexivity|]. auto.
        + intros a' [<-|Ha']; [exists (canon B'); left; reflexivity|].
          destruct (Hkey a' Ha') as [S1 HS1]. exists S1. right; exact HS1.
    Qed.

    Lemma md_inner_ok B l0 v Sg : leader B = Some v -> (forall a, In a Sg -> block_of P (dstep D v a) <> None) ->
      exists l, md_inner B (Some l0) Sg = Some l.
    Proof.
      intros Ev. induction Sg as [|a Sg IH]; intros Hb.
      - exists l0. reflexivity.
      - destruct IH as [l' El']; [intros a' Ha'; apply Hb; right; exact Ha'|].
        unfold md_inner. cbn [fold_right]. fold (md_inner B (Some l0) Sg). rewrite El'. unfold md_step. rewrite Ev.
        destruct (block_of P (dstep D v a)) as [B'|] eqn:Eb; [eexists; reflexivity|].
        exfalso. apply (Hb a); [left; reflexivity | exact Eb].
    Qed.

    Lemma md_outer_spec PL : forall l, fold_right (fun B acc => md_inner B acc (dS D)) (Some []) PL = Some l ->
      (forall e, In e l -> exists B, In B PL /\ md_entry B e) /\
      (forall B a, In B PL -> In a (dS D) -> exists S1, In ((canon B, a), S1) l).
    Proof.
      induction PL as [|B PL IH]; intros l E.
      - cbn in E. inversion E; subst l. split; [intros e []|intros B a []].
      - cbn [fold_right] in E. apply md_inner_spec in E; [|apply incl_refl].
        destruct E as [l0 [l1 [Ea [El [Hent Hkey]]]]]. destruct (IH l0 Ea) as [IH1 IH2]. subst l. split.
        + intros e He. apply in_app_or in He. destruct He as [He|He].
          * exists B. split; [left; reflexivity | apply Hent; exact He].
          * destruct (IH1 e He) as [B1 [HB1 He1]]. exists B1. split; [right; exact HB1 | exact He1].
        + intros B1 a [<-|HB1] Ha.
          * destruct (Hkey a Ha) as [S1 HS1]. exists S1. apply in_or_app. left; exact HS1.
          * destruct (IH2 B1 a HB1 Ha) as [S1 HS1]. exists S1. apply in_or_app. right; exact HS1.
    Qed.

    Lemma md_outer_ok PL :
      (forall B, In B PL -> exists v, leader B = Some v /\ forall a, In a (dS D) -> block_of P (dstep D v a) <> None) ->
      exists l, fold_right (fun B acc => md_inner B acc (dS D)) (Some []) PL = Some l.
    Proof.
      induction PL as [|B PL IH]; intros Hok.
      - exists []. reflexivity.
      - destruct IH as [l0 El0]; [intros B1 HB1; apply Hok; right; exact HB1|].
        cbn [fold_right]. rewrite El0. destruct (Hok B) as [v [Ev Hb]]; [left; reflexivity|].
        apply md_inner_ok with v; assumption.
    Qed.
  End MkDelta.

  Lemma good_block_of P x : good_partition P -> In x (dQ D) -> exists B, block_of P x = Some B /\ In B P /\ In x B.
  Proof.
    intros [_ [Hc _]] Hx. destruct (Hc x Hx) as [B [HB HxB]]. destruct (block_of_ex P x B HB HxB) as [B' E].
    exists B'. split; [exact E|]. apply block_of_Some. exact E.
  Qed.

  Lemma quotient_assembles_gen P : good_partition P ->
    exists D',
      match mk_delta canon D P rep, block_of P (dq0 D) with
      | Some delta, Some B0 =>
        Some (mkDFA (map canon P) (dS D) delta (canon B0) (map canon (filter (fun B => meetsb B (dF D)) P)))
      | _, _ => None
      end = Some D' /\ is_quotient_of canon D P D'.
  Proof.
    intros Hgp. pose proof Hgp as [Hne [Hc Hd]].
    unfold mk_delta. rewrite mk_delta_unfold.
    destruct (md_outer_ok P rep P) as [delta Edelta].
    { intros B HB. destruct (Hne B HB) as [HBne HBincl]. destruct (rep_In B HBne) as [v [Ev Hv]].
      exists v. split; [exact Ev|]. intros a Ha.
      assert (Hs : In (dstep D v a) (dQ D)) by (apply step_Q; [apply HBincl; exact Hv | exact Ha]).
      destruct (good_block_of P (dstep D v a) Hgp Hs) as [B' [E' _]].
      rewrite E'. discriminate. }
    rewrite Edelta. destruct (md_outer_spec P rep P delta Edelta) as [Hent Hkey].
    destruct (good_block_of P (dq0 D) Hgp (proj1 Hwf)) as [B0 [E0 [HB0 Hq0]]]. rewrite E0.
    eexists. split; [reflexivity|]. unfold is_quotient_of. cbn [dQ dS dD dq0 dF].
    split; [|split; [|split; [|split; [|split]]]].
    - intros S0. rewrite in_map_iff. split; intros [B HB]; exists B; intuition.
    - reflexivity.
    - exists B0. auto.
    - intros S0. rewrite in_map_iff. split.
      + intros [B [E HB]]. apply filter_In in HB. destruct HB as [HB Hm]. apply meetsb_spec in Hm.
        exists B. auto.
      + intros [B [HB [E Hm]]]. exists B. split; [auto|]. apply filter_In. split; [exact HB|]. apply meetsb_spec. exact Hm.
    - intros B a HB Ha. unfold ddelta. cbn [dD].
      destruct (Hkey B a HB Ha) as [S1 HS1].
      destruct (lookup (canon B, a) delta) as [S2|] eqn:El.
      2:{ exfalso. revert El. eapply lookup_not_None. exact HS1. }
      apply lookup_In in El. destruct (Hent _ El) as [B1 [HB1 [a' [v [B' [Ha' [Ev [Eb Ee]]]]]]]].
      inversion Ee as [[Ecan Ea ES2]]. subst a'.
      destruct (Hne B1 HB1) as [HB1ne _]. destruct (rep_In B1 HB1ne) as [v' [Ev' Hv']].
      rewrite Ev in Ev'. inversion Ev'; subst v'.
      destruct (block_of_Some _ _ _ Eb) as [HB' Hs].
      exists v, B'. split; [|auto]. apply canon_In. rewrite Ecan. apply canon_In. exact Hv'.
    - intros k S1 Hk. destruct (Hent _ Hk) as [B1 [HB1 [a' [v [B' [Ha' [Ev [Eb Ee]]]]]]]].
      inversion Ee; subst. exists B1. cbn [fst snd]. auto.
  Qed.

  Theorem dfa_quotient_assembles : exists P D',
    moore_loop ord rep D (S (S (length (dQ D)))) [dF D; diff (dQ D) (dF D)] = Some P /\
    dfa_quotient canon ord rep D = Some D' /\ is_quotient_of canon D P D'.
  Proof.
    destruct (moore_loop ord rep D (S (S (length (dQ D)))) [dF D; diff (dQ D) (dF D)]) as [P|] eqn:E.
    2:{ exfalso. exact (moore_loop_terminates E). }
    destruct (moore_loop_correct P E) as [Hgp _].
    destruct (quotient_assembles_gen P Hgp) as [D' [E' Hq]].
    exists P, D'. split; [reflexivity|]. split; [|exact Hq].
    unfold dfa_quotient. rewrite E. exact E'.
  Qed.

  (* ================= Hopcroft: abstract invariant (cf. design-notes/proto_hopcroft_invariant.v) ================= *)
  Definition bstable (C S0 : list A) (b : nat) : Prop :=
    (forall p, In p C -> In (dstep D p b) S0) \/ (forall p, In p C -> ~ In (dstep D p b) S0).
  Definition pstable (P : list (list A)) (S0 : list A) (b : nat) : Prop := forall C, In C P -> bstable C S0 b.
  Definition prefines (P' P : list (list A)) : Prop := forall C', In C' P' -> exists C, In C P /\ incl C' C.

  Lemma bstable_sub C C' S0 b : incl C' C -> bstable C S0 b -> bstable C' S0 b.
  Proof. intros Hs [Hb|Hb]; [left|right]; intros p Hp; apply Hb, Hs, Hp. Qed.
  Lemma pstable_refines P P' S0 b : prefines P' P -> pstable P S0 b -> pstable P' S0 b.
  Proof. intros Hr Hst C' HC'. destruct (Hr C' HC') as [C [HC Hsub]]. apply bstable_sub with C; [exact Hsub | apply Hst; exact HC]. Qed.
  Lemma bstable_ext C S1 S2 b : seteq S1 S2 -> bstable C S1 b -> bstable C S2 b.
  Proof.
    intros He [Hb|Hb]; [left|right]; intros p Hp.
    - apply He. apply Hb; exact Hp.
    - intros Hc. apply (Hb p Hp). apply He. exact Hc.
  Qed.
  Lemma bstable_diff C S1 S2 S3 b : (forall x, In x S3 <-> In x S1 /\ ~ In x S2) ->
    bstable C S1 b -> bstable C S2 b -> bstable C S3 b.
  Proof.
    intros He [H1|H1] [H2|H2].
    - right. intros p Hp Hc. apply He in Hc. apply (proj2 Hc). apply H2; exact Hp.
    - left. intros p Hp. apply He. split; [apply H1; exact Hp | apply H2; exact Hp].
    - right. intros p Hp Hc. apply He in Hc. apply (H1 p Hp). apply Hc.
    - right. intros p Hp Hc. apply He in Hc. apply (H1 p Hp). apply Hc.
  Qed.

  Inductive gen (Base : list A -> Prop) : list A -> Prop :=
  | gen_base S0 : Base S0 -> gen Base S0
  | gen_diff S1 S2 S3 : gen Base S1 -> gen Base S2 -> (forall x, In x S3 <-> In x S1 /\ ~ In x S2) -> gen Base S3
  | gen_ext S1 S2 : seteq S1 S2 -> gen Base S1 -> gen Base S2.

  Lemma gen_mono (B1 B2 : list A -> Prop) : (forall S0, B1 S0 -> B2 S0) -> forall S0, gen B1 S0 -> gen B2 S0.
  Proof.
    intros Hm S0 HS. induction HS as [S0 HS|S1 S2 S3 _ IH1 _ IH2 He|S1 S2 He _ IH].
    - apply gen_base. apply Hm; exact HS.
    - apply gen_diff with S1 S2; assumption.
    - apply gen_ext with S1; assumption.
  Qed.

  Lemma gen_stable P b S0 : gen (fun S1 => pstable P S1 b) S0 -> pstable P S0 b.
  Proof.
    intros HS. induction HS as [S0 HS|S1 S2 S3 _ IH1 _ IH2 He|S1 S2 He _ IH].
    - exact HS.
    - intros C HC. apply bstable_diff with S1 S2; [exact He | apply IH1; exact HC | apply IH2; exact HC].
    - intros C HC. apply bstable_ext with S1; [exact He | apply IH; exact HC].
  Qed.

  Definition wbase (P : list (list A)) (W : list (list A * nat)) (b : nat) (S0 : list A) : Prop :=
    pstable P S0 b \/ exists S', In (S', b) W /\ seteq S0 S'.
  Definition HInv (P : list (list A)) (W : list (list A * nat)) : Prop :=
    forall b B, In b (dS D) -> In B P -> gen (wbase P W b) B.

  Lemma hinv_final P : HInv P [] -> forall b B, In b (dS D) -> In B P -> pstable P B b.
  Proof.
    intros HI b B Hb HB. apply gen_stable. apply gen_mono with (wbase P [] b); [|apply HI; assumption].
    intros S0 [Hs|[S' [[] _]]]. exact Hs.
  Qed.

  Lemma hinv_weaken P W W' : (forall x, In x W -> In x W') -> HInv P W -> HInv P W'.
  Proof.
    intros Hsub HI b B Hb HB. apply gen_mono with (wbase P W b); [|apply HI; assumption].
    intros S0 [Hs|[S' [Hin He]]]; [left; exact Hs|]. right. exists S'. split; [apply Hsub; exact Hin | exact He].
  Qed.

  Definition halves (Pcal : list (list A)) (Wc : list (list A * nat)) (C : list A) : Prop :=
    In C Pcal \/
    exists B B1 B2, In B Pcal /\ (forall x, In x B <-> In x B1 \/ In x B2) /\ (forall x, In x B1 -> ~ In x B2) /\
      (C = B1 \/ C = B2) /\
      forall b, In b (dS D) -> (exists S', In (S', b) Wc /\ seteq B1 S') \/ (exists S', In (S', b) Wc /\ seteq B2 S').

  Lemma hinv_round P Wrest S0 a0 P' W' :
    HInv P ((S0, a0) :: Wrest) -> prefines P' P -> pstable P' S0 a0 -> incl Wrest W' ->
    (forall C, In C P' -> halves P W' C) -> HInv P' W'.
  Proof.
    intros HI Href Hst0 Hkeep Hnew b B' Hb HB'.
    assert (Hmono : forall S1, wbase P ((S0, a0) :: Wrest) b S1 -> wbase P' W' b S1).
    { intros S1 [Hs|[S' [Hin He]]].
      - left. apply pstable_refines with P; assumption.
      - destruct Hin as [Heq|Hin].
        + inversion Heq; subst S' b. left. intros C HC. apply bstable_ext with S0; [|apply Hst0; exact HC].
          intros x; symmetry; apply He.
        + right. exists S'. split; [apply Hkeep; exact Hin | exact He]. }
    destruct (Hnew B' HB') as [Hold|[B [B1 [B2 [HB [Hsplit [Hdisj [Hwhich Hw]]]]]]]].
    - apply gen_mono with (1 := Hmono). apply HI; assumption.
    - assert (HgB : gen (wbase P' W' b) B) by (apply gen_mono with (1 := Hmono); apply HI; assumption).
      assert (H12 : gen (wbase P' W' b) B1 /\ gen (wbase P' W' b) B2).
      { destruct (Hw b Hb) as [[S' [Hin He]]|[S' [Hin He]]].
        - assert (Hg1 : gen (wbase P' W' b) B1) by (apply gen_base; right; exists S'; auto).
          split; [exact Hg1|]. apply gen_diff with B B1; [exact HgB | exact Hg1|].
          intros x. specialize (Hsplit x). specialize (Hdisj x). tauto.
        - assert (Hg2 : gen (wbase P' W' b) B2) by (apply gen_base; right; exists S'; auto).
          split; [|exact Hg2]. apply gen_diff with B B2; [exact HgB | exact Hg2|].
          intros x. specialize (Hsplit x). specialize (Hdisj x). tauto. }
      destruct Hwhich as [->| ->]; tauto.
  Qed.

  Lemma hinv_init P W : (forall C, In C P -> incl C (dQ D)) ->
    (forall B, In B P -> B = dF D \/ B = diff (dQ D) (dF D)) ->
    (forall b, In b (dS D) -> exists S', In (S', b) W /\ (seteq (dF D) S' \/ seteq (diff (dQ D) (dF D)) S')) ->
    HInv P W.
  Proof.
    intros HPQ Hshape HW b B Hb HB.
    assert (HQ : gen (wbase P W b) (dQ D)).
    { apply gen_base. left. intros C HC. left. intros p Hp. apply step_Q; [apply (HPQ C HC); exact Hp | exact Hb]. }
    destruct (HW b Hb) as [S' [Hin He]].
    assert (Hcases : gen (wbase P W b) (dF D) /\ gen (wbase P W b) (diff (dQ D) (dF D))).
    { destruct He as [He|He].
      - assert (Hg : gen (wbase P W b) (dF D)) by (apply gen_base; right; exists S'; auto).
        split; [exact Hg|]. apply gen_diff with (dQ D) (dF D); [exact HQ | exact Hg|]. intros x. apply diff_In.
      - assert (Hg : gen (wbase P W b) (diff (dQ D) (dF D))) by (apply gen_base; right; exists S'; auto).
        split; [|exact Hg]. apply gen_diff with (dQ D) (diff (dQ D) (dF D)); [exact HQ | exact Hg|].
        intros x. rewrite diff_In. split.
        + intros Hx. split; [apply Hwf; exact Hx | tauto].
        + intros [Hx Hn]. destruct (In_dec_l x (dF D)); tauto. }
    destruct (Hshape B HB) as [->| ->]; tauto.
  Qed.

  (* ================= Hopcroft: the waiting set ================= *)
  Lemma w_eqb_spec (x y : list A * nat) : w_eqb x y = true <-> seteq (fst x) (fst y) /\ snd x = snd y.
  Proof. unfold w_eqb. rewrite andb_true_iff, seteqb_seteq, Nat.eqb_eq. tauto. Qed.
  Lemma w_add_In y x (W : list (list A * nat)) : In y (w_add x W) -> y = x \/ In y W.
  Proof.
    unfold w_add. destruct (existsb (w_eqb x) W); [auto|]. intros Hy. apply in_app_or in Hy.
    destruct Hy as [Hy|[<-|[]]]; auto.
  Qed.
  Lemma w_add_incl x (W : list (list A * nat)) : incl W (w_add x W).
  Proof. unfold w_add. destruct (existsb (w_eqb x) W); intros y Hy; [exact Hy | apply in_or_app; left; exact Hy]. Qed.
  Lemma w_add_has x (W : list (list A * nat)) : exists y, In y (w_add x W) /\ seteq (fst x) (fst y) /\ snd x = snd y.
  Proof.
    unfold w_add. destruct (existsb (w_eqb x) W) eqn:E.
    - apply existsb_exists in E. destruct E as [y [Hy Ey]]. exists y. split; [exact Hy | apply w_eqb_spec; exact Ey].
    - exists x. split; [apply in_or_app; right; left; reflexivity|]. split; [intros z; tauto | reflexivity].
  Qed.
  Lemma w_add_length x (W : list (list A * nat)) : length (w_add x W) <= S (length W).
  Proof. unfold w_add. destruct (existsb (w_eqb x) W); [lia|]. rewrite app_length. cbn [length]. lia. Qed.

  Lemma w_fold (X : list A) l : forall W,
    let R := fold_left (fun Wc b => w_add (X, b) Wc) l W in
    incl W R /\ (forall b, In b l -> exists S', In (S', b) R /\ seteq X S') /\
    (forall y, In y R -> In y W \/ exists b, In b l /\ y = (X, b)) /\ length R <= length W + length l.
  Proof.
    induction l as [|b0 l IH]; intros W; cbn [fold_left].
    - split; [apply incl_refl|]. split; [intros b []|]. split; [intros y Hy; left; exact Hy | cbn [length]; lia].
    - destruct (IH (w_add (X, b0) W)) as [H1 [H2 [H3 H4]]]. split; [|split; [|split]].
      + intros y Hy. apply H1. apply w_add_incl. exact Hy.
      + intros b [<-|Hb]; [|apply H2; exact Hb].
        destruct (w_add_has (X, b0) W) as [[S' b'] [Hy [He Eb]]]. cbn [fst snd] in He, Eb. subst b'.
        exists S'. split; [apply H1; exact Hy | exact He].
      + intros y Hy. destruct (H3 y Hy) as [Hy'|[b [Hb Ey]]].
        * apply w_add_In in Hy'. destruct Hy' as [->|Hy']; [right; exists b0; split; [left; reflexivity|reflexivity] | left; exact Hy'].
        * right. exists b. split; [right; exact Hb | exact Ey].
      + pose proof (w_add_length (X, b0) W). cbn [length]. lia.
  Qed.

  (* ================= Hopcroft: partitions ================= *)
  Definition hpart (P : list (list A)) : Prop :=
    (forall B, In B P -> B <> [] /\ NoDup B /\ incl B (dQ D)) /\ cover P /\ disj P /\ NoDup P.

  Lemma hpart_nodup_concat P : hpart P -> NoDup (concat P).
  Proof.
    intros [Hb [_ [Hd Hnd]]]. induction P as [|B P IH]; cbn [concat]; [constructor|].
    inversion Hnd as [|B0 P0 HnB Hnd']; subst. apply NoDup_app_intro.
    - apply Hb. left; reflexivity.
    - apply IH; [intros B' HB'; apply Hb; right; exact HB' | | exact Hnd'].
      intros B1 B2 q H1 H2. apply Hd; right; assumption.
    - intros x Hx HxB. apply in_concat in Hx. destruct Hx as [B' [HB' Hx]].
      apply HnB. rewrite (Hd B B' x); [exact HB' | left; reflexivity | right; exact HB' | exact HxB | exact Hx].
  Qed.

  Lemma hpart_length P : hpart P -> length P <= length (dQ D).
  Proof.
    intros Hp. apply Nat.le_trans with (length (concat P)).
    - apply len_concat_ge. intros B HB. apply (proj1 Hp B HB).
    - apply NoDup_incl_length; [apply hpart_nodup_concat; exact Hp|].
      intros x Hx. apply in_concat in Hx. destruct Hx as [B [HB Hx]]. apply (proj1 Hp B HB). exact Hx.
  Qed.

  Lemma hpart_good P : hpart P -> good_partition P.
  Proof. intros [Hb [Hc [Hd _]]]. split; [|split; assumption]. intros B HB. destruct (Hb B HB) as [H1 [_ H2]]. auto. Qed.

  Lemma filter_all_true {X : Type} (f : X -> bool) (l : list X) : (forall y, In y l -> f y = true) -> filter f l = l.
  Proof.
    induction l as [|y l IH]; intros Hall; cbn [filter]; [reflexivity|].
    rewrite (Hall y (or_introl eq_refl)). f_equal. apply IH. intros z Hz. apply Hall. right; exact Hz.
  Qed.

  Lemma filter_remove_len {X : Type} (f : X -> bool) (l : list X) (x : X) : NoDup l ->
    (forall y, In y l -> f y = false -> y = x) -> length l <= S (length (filter f l)).
  Proof.
    induction l as [|y l IH]; intros Hnd Hone; cbn [filter length]; [lia|].
    inversion Hnd as [|y0 l0 Hny Hnd']; subst.
    destruct (f y) eqn:Ey.
    - cbn [length]. assert (length l <= S (length (filter f l))); [|lia].
      apply IH; [exact Hnd'|]. intros z Hz. apply Hone. right; exact Hz.
    - rewrite filter_all_true; [lia|]. intros z Hz. destruct (f z) eqn:Ez; [reflexivity|exfalso].
      assert (z = x) by (apply Hone; [right; exact Hz | exact Ez]).
      assert (y = x) by (apply Hone; [left; reflexivity | exact Ey]). subst. contradiction.
  Qed.

  Lemma hpart_split Pc Pb P1 P2 : hpart Pc -> In Pb Pc -> P1 <> [] -> P2 <> [] -> NoDup P1 -> NoDup P2 ->
    (forall x, In x Pb <-> In x P1 \/ In x P2) -> (forall x, In x P1 -> ~ In x P2) ->
    let Pc' := filter (fun B => negb (seteqb B Pb)) Pc ++ [P1; P2] in
    hpart Pc' /\ (forall C, In C Pc' <-> (In C Pc /\ C <> Pb) \/ C = P1 \/ C = P2) /\ length Pc < length Pc'.
  Proof.
    intros [Hb [Hc [Hd Hnd]]] HPb Hne1 Hne2 Hnd1 Hnd2 Hsplit Hdisj12 Pc'.
    assert (HK : forall C, In C Pc -> (seteqb C Pb = false <-> C <> Pb)).
    { intros C HC. split.
      - intros E ->. rewrite seteqb_refl in E. discriminate.
      - intros Hn. destruct (seteqb C Pb) eqn:E; [exfalso|reflexivity]. apply seteqb_seteq in E.
        destruct (Hb C HC) as [HCne _]. destruct C as [|x C]; [congruence|].
        apply Hn. apply (Hd (x :: C) Pb x HC HPb); [left; reflexivity | apply E; left; reflexivity]. }
    assert (HM : forall C, In C Pc' <-> (In C Pc /\ C <> Pb) \/ C = P1 \/ C = P2).
    { intros C. unfold Pc'. rewrite in_app_iff, filter_In, negb_true_iff. cbn [In]. split.
      - intros [[HC E]|[<-|[<-|[]]]]; auto. left. split; [exact HC | apply HK; assumption].
      - intros [[HC Hn]|[->| ->]]; auto. left. split; [exact HC | apply HK; assumption]. }
    assert (Hsub1 : incl P1 Pb) by (intros x Hx; apply Hsplit; left; exact Hx).
    assert (Hsub2 : incl P2 Pb) by (intros x Hx; apply Hsplit; right; exact Hx).
    assert (HPbQ : incl Pb (dQ D)) by (apply (Hb Pb HPb)).
    assert (Hold1 : forall C q, In C Pc -> C <> Pb -> In q C -> In q Pb -> False).
    { intros C q HC Hn HqC HqPb. apply Hn. exact (Hd C Pb q HC HPb HqC HqPb). }
    split; [|split; [exact HM|]].
    - split; [|split; [|split]].
      + intros C HC. apply HM in HC. destruct HC as [[HC _]|[->| ->]]; [apply Hb; exact HC| |].
        * split; [exact Hne1|]. split; [exact Hnd1|]. intros x Hx. apply HPbQ, Hsub1, Hx.
        * split; [exact Hne2|]. split; [exact Hnd2|]. intros x Hx. apply HPbQ, Hsub2, Hx.
      + intros q Hq. destruct (Hc q Hq) as [B [HB HqB]]. destruct (eqb_dec B Pb) as [->|Hn].
        * apply Hsplit in HqB. destruct HqB as [Hq1|Hq2]; [exists P1 | exists P2]; (split; [apply HM; auto | assumption]).
        * exists B. split; [apply HM; left; auto | exact HqB].
      + intros C1 C2 q HC1 HC2 Hq1 Hq2. apply HM in HC1. apply HM in HC2.
        destruct HC1 as [[HC1 Hn1]|[->| ->]], HC2 as [[HC2 Hn2]|[->| ->]]; try reflexivity.
        * exact (Hd C1 C2 q HC1 HC2 Hq1 Hq2).
        * exfalso. apply (Hold1 C1 q HC1 Hn1 Hq1). apply Hsub1; exact Hq2.
        * exfalso. apply (Hold1 C1 q HC1 Hn1 Hq1). apply Hsub2; exact Hq2.
        * exfalso. apply (Hold1 C2 q HC2 Hn2 Hq2). apply Hsub1; exact Hq1.
        * exfalso. exact (Hdisj12 q Hq1 Hq2).
        * exfalso. apply (Hold1 C2 q HC2 Hn2 Hq2). apply Hsub2; exact Hq1.
        * exfalso. exact (Hdisj12 q Hq2 Hq1).
      + unfold Pc'. apply NoDup_app_intro.
        * apply NoDup_filter. exact Hnd.
        * constructor; [|constructor; [intros []|constructor]]. intros [E|[]].
          destruct P1 as [|x P1]; [congruence|]. apply (Hdisj12 x); [left; reflexivity | rewrite E; left; reflexivity].
        * intros C HC HCf. apply filter_In in HCf. destruct HCf as [HCPc E]. apply negb_true_iff in E.
          apply (HK C HCPc) in E. destruct HC as [<-|[<-|[]]].
          -- destruct P1 as [|x P1]; [congruence|]. apply (Hold1 (x :: P1) x HCPc E); [left; reflexivity | apply Hsub1; left; reflexivity].
          -- destruct P2 as [|x P2]; [congruence|]. apply (Hold1 (x :: P2) x HCPc E); [left; reflexivity | apply Hsub2; left; reflexivity].
    - unfold Pc'. rewrite app_length. cbn [length].
      assert (length Pc <= S (length (filter (fun B => negb (seteqb B Pb)) Pc))); [|lia].
      apply filter_remove_len with Pb; [exact Hnd|]. intros C HC E. apply negb_false_iff in E.
      destruct (eqb_dec C Pb) as [->|Hn]; [reflexivity|]. apply (HK C HC) in Hn. congruence.
  Qed.

  (* ================= Hopcroft: one round ================= *)
  Definition hr_step (W : list A) (a : nat) (st : list (list A) * list (list A * nat)) (Pb : list A)
    : list (list A) * list (list A * nat) :=
    let '(Pc, Wc) := st in
    if Nat.eqb (length Pb) 1 then st
    else let '(P1, P2) := split D W a Pb in
         match P1, P2 with
         | [], _ | _, [] => st
         | _, _ =>
           (filter (fun B => negb (seteqb B Pb)) Pc ++ [P1; P2],
            fold_left (fun Wc' b => w_add (min_ P1 P2, b) Wc') (dS D) Wc)
         end.
  Lemma hop_round_unfold W a Pcal Wcal : hop_round ordB D W a Pcal Wcal = fold_left (hr_step W a) (ordB Pcal) (Pcal, Wcal).
  Proof. reflexivity. Qed.

  Lemma hr_step_cases W a Pc Wc Pb :
    let P1 := filter (fun p => mem (dstep D p a) W) Pb in
    let P2 := diff Pb P1 in
    (hr_step W a (Pc, Wc) Pb = (Pc, Wc) /\ (length Pb = 1 \/ P1 = [] \/ P2 = [])) \/
    (P1 <> [] /\ P2 <> [] /\
     hr_step W a (Pc, Wc) Pb = (filter (fun B => negb (seteqb B Pb)) Pc ++ [P1; P2],
                                fold_left (fun Wc' b => w_add (min_ P1 P2, b) Wc') (dS D) Wc)).
  Proof.
    intros P1 P2. unfold hr_step, split. fold P1. fold P2.
    destruct (Nat.eqb (length Pb) 1) eqn:El; [left; split; [reflexivity | left; apply Nat.eqb_eq; exact El]|].
    destruct P1 as [|x1 r1] eqn:E1; [left; split; [reflexivity | right; left; reflexivity]|].
    destruct P2 as [|x2 r2] eqn:E2; [left; split; [reflexivity | right; right; reflexivity]|].
    right. split; [discriminate|]. split; [discriminate|]. reflexivity.
  Qed.

  Definition wok (Wc : list (list A * nat)) : Prop := forall S0 b, In (S0, b) Wc -> In b (dS D) /\ mn_closed S0.

  Definition rinv (Pcal : list (list A)) (rest : list (list A * nat)) (W : list A) (a : nat) (todo : list (list A))
             (st : list (list A) * list (list A * nat)) : Prop :=
    hpart (fst st) /\ (forall B, In B todo -> In B (fst st)) /\ prefines (fst st) Pcal /\
    (forall C, In C (fst st) -> In C todo \/ bstable C W a) /\
    incl rest (snd st) /\ (forall C, In C (fst st) -> halves Pcal (snd st) C) /\ wok (snd st) /\
    coarser_than_mn D (fst st) /\
    length (snd st) + length (dS D) * length Pcal <= length rest + length (dS D) * length (fst st).

  Lemma halves_mono Pcal Wc Wc' C : incl Wc Wc' -> halves Pcal Wc C -> halves Pcal Wc' C.
  Proof.
    intros Hsub [Hold|[B [B1 [B2 [HB [Hs [Hd [Hw Hb]]]]]]]]; [left; exact Hold|].
    right. exists B, B1, B2. split; [exact HB|]. split; [exact Hs|]. split; [exact Hd|]. split; [exact Hw|].
    intros b Hb'. destruct (Hb b Hb') as [[S' [Hin He]]|[S' [Hin He]]]; [left|right]; exists S'; split; auto.
  Qed.

  Lemma rinv_step Pcal rest W a Pb todo st : In a (dS D) -> mn_closed W -> In Pb Pcal -> NoDup (Pb :: todo) ->
    rinv Pcal rest W a (Pb :: todo) st -> rinv Pcal rest W a todo (hr_step W a st Pb).
  Proof.
    intros Ha HWmn HPbP Hnd. destruct st as [Pc Wc]. unfold rinv. cbn [fst snd].
    intros [Hpart [Htodo [Href [Hstab [Hrest [Hhalves [Hwok [Hco Hlen]]]]]]]].
    inversion Hnd as [|Pb0 todo0 HnPb Hnd']; subst.
    assert (HPbPc : In Pb Pc) by (apply Htodo; left; reflexivity).
    set (P1 := filter (fun p => mem (dstep D p a) W) Pb).
    set (P2 := diff Pb P1).
    assert (F1 : forall x, In x P1 <-> In x Pb /\ In (dstep D x a) W).
    { intros x. unfold P1. rewrite filter_In, mem_In. tauto. }
    assert (F2 : forall x, In x P2 <-> In x Pb /\ ~ In x P1) by (intros x; apply diff_In).
    pose proof (hr_step_cases W a Pc Wc Pb) as Hcases. cbv zeta in Hcases. fold P1 in Hcases. fold P2 in Hcases.
    destruct Hcases as [[Est Hwhy]|[Hne1 [Hne2 Est]]]; rewrite Est; cbn [fst snd].
    - (* no split: Pb is stable w.r.t. (W, a) *)
      assert (HstPb : bstable Pb W a).
      { destruct Hwhy as [Hl|[E1|E2]].
        - destruct Pb as [|x [|y r]]; try discriminate. destruct (In_dec_l (dstep D x a) W) as [Hi|Hi].
          + left. intros p [<-|[]]. exact Hi.
          + right. intros p [<-|[]]. exact Hi.
        - right. intros p Hp Hc. assert (Hp1 : In p P1) by (apply F1; auto). rewrite E1 in Hp1. destruct Hp1.
        - left. intros p Hp. destruct (In_dec_l p P1) as [Hi|Hi]; [apply F1; exact Hi|].
          assert (Hp2 : In p P2) by (apply F2; auto). rewrite E2 in Hp2. destruct Hp2. }
      split; [exact Hpart|]. split; [intros B HB; apply Htodo; right; exact HB|]. split; [exact Href|].
      split; [|tauto]. intros C HC. destruct (Hstab C HC) as [[<-|Hin]|Hs]; auto.
    - (* split *)
      assert (Hsplit : forall x, In x Pb <-> In x P1 \/ In x P2).
      { intros x. rewrite F2. destruct (In_dec_l x P1) as [Hi|Hi]; [|tauto]. pose proof (proj1 (F1 x) Hi). tauto. }
      assert (Hdisj12 : forall x, In x P1 -> ~ In x P2) by (intros x Hx Hc; apply F2 in Hc; tauto).
      assert (HndPb : NoDup Pb) by (apply (proj1 Hpart Pb HPbPc)).
      assert (Hnd1 : NoDup P1) by (apply NoDup_filter; exact HndPb).
      assert (Hnd2 : NoDup P2) by (apply NoDup_filter; exact HndPb).
      destruct (hpart_split Pc Pb P1 P2 Hpart HPbPc Hne1 Hne2 Hnd1 Hnd2 Hsplit Hdisj12) as [Hpart' [HM Hlen']].
      set (Pc' := filter (fun B => negb (seteqb B Pb)) Pc ++ [P1; P2]) in *.
      destruct (w_fold (min_ P1 P2) (dS D) Wc) as [Hwi [Hwh [Hwo Hwl]]].
      set (Wc' := fold_left (fun Wc' b => w_add (min_ P1 P2, b) Wc') (dS D) Wc) in *.
      assert (Hmn1 : mn_closed P1).
      { intros p q Hp Hq Hmn. apply F1 in Hp. apply F1. split.
        - apply (Hco Pb p q HPbPc); tauto.
        - apply (HWmn (dstep D p a)); [tauto | apply step_Q; assumption | apply mn_step; assumption]. }
      assert (Hmn2 : mn_closed P2).
      { intros p q Hp Hq Hmn. apply F2 in Hp. apply F2. split.
        - apply (Hco Pb p q HPbPc); tauto.
        - intros Hc. apply (proj2 Hp). apply (Hmn1 q p Hc); [|apply mn_sym; exact Hmn].
          apply (proj1 Hpart Pb HPbPc). tauto. }
      assert (Hmin : min_ P1 P2 = P1 \/ min_ P1 P2 = P2) by (unfold min_; destruct (Nat.leb _ _); auto).
      split; [exact Hpart'|]. split; [|split; [|split; [|split; [|split; [|split; [|split]]]]]].
      + intros B HB. apply HM. left. split; [apply Htodo; right; exact HB|]. intros ->. contradiction.
      + intros C HC. apply HM in HC. destruct HC as [[HC _]|[->| ->]]; [apply Href; exact HC| |].
        * exists Pb. split; [exact HPbP|]. intros x Hx. apply Hsplit; left; exact Hx.
        * exists Pb. split; [exact HPbP|]. intros x Hx. apply Hsplit; right; exact Hx.
      + intros C HC. apply HM in HC. destruct HC as [[HC Hn]|[->| ->]].
        * destruct (Hstab C HC) as [[E|Hin]|Hs]; [congruence | left; exact Hin | right; exact Hs].
        * right. left. intros p Hp. apply F1; exact Hp.
        * right. right. intros p Hp Hc. apply F2 in Hp. apply (proj2 Hp). apply F1. tauto.
      + intros y Hy. apply Hwi. apply Hrest. exact Hy.
      + intros C HC. apply HM in HC. destruct HC as [[HC _]|HC].
        * apply halves_mono with Wc; [exact Hwi | apply Hhalves; exact HC].
        * right. exists Pb, P1, P2. split; [exact HPbP|]. split; [exact Hsplit|]. split; [exact Hdisj12|].
          split; [exact HC|]. intros b Hb. destruct (Hwh b Hb) as [S' [Hin He]].
          destruct Hmin as [E|E]; rewrite E in He; [left|right]; exists S'; auto.
      + intros S0 b Hin. destruct (Hwo _ Hin) as [Hold|[b' [Hb' E]]]; [apply (Hwok S0 b Hold)|].
        inversion E; subst. split; [exact Hb'|]. destruct Hmin as [-> | ->]; assumption.
      + intros C p q HC. apply HM in HC. destruct HC as [[HC _]|[->| ->]]; [apply Hco; exact HC | apply Hmn1 | apply Hmn2].
      + assert (length (dS D) * S (length Pc) <= length (dS D) * length Pc') by (apply Nat.mul_le_mono_l; lia).
        rewrite Nat.mul_succ_r in *. lia.
  Qed.

  Lemma rinv_fold Pcal rest W a : In a (dS D) -> mn_closed W -> forall todo st, incl todo Pcal -> NoDup todo ->
    rinv Pcal rest W a todo st -> rinv Pcal rest W a [] (fold_left (hr_step W a) todo st).
  Proof.
    intros Ha HW. induction todo as [|Pb todo IH]; intros st Hincl Hnd Hinv; cbn [fold_left]; [exact Hinv|].
    apply IH.
    - intros B HB. apply Hincl. right; exact HB.
    - inversion Hnd; assumption.
    - apply rinv_step; [exact Ha | exact HW | apply Hincl; left; reflexivity | exact Hnd | exact Hinv].
  Qed.

  (* ================= Hopcroft: the loop ================= *)
  Definition linv (Pcal : list (list A)) (Wcal : list (list A * nat)) : Prop :=
    hpart Pcal /\ refines_F D Pcal /\ coarser_than_mn D Pcal /\ wok Wcal /\ HInv Pcal Wcal.

  Lemma hop_round_inv Pcal Wcal W a rest : linv Pcal Wcal -> pick Wcal = Some ((W, a), rest) ->
    linv (fst (hop_round ordB D W a Pcal rest)) (snd (hop_round ordB D W a Pcal rest)) /\
    length (snd (hop_round ordB D W a Pcal rest)) + length (dS D) * length Pcal
      <= length rest + length (dS D) * length (fst (hop_round ordB D W a Pcal rest)).
  Proof.
    intros [Hpart [HF [Hco [Hwok HI]]]] Epick.
    destruct (picker_some pick Wcal _ _ pick_ok Epick) as [Hmem _].
    assert (HWin : In (W, a) Wcal) by (apply Hmem; left; reflexivity).
    destruct (Hwok W a HWin) as [Ha HWmn].
    assert (Hrestsub : incl rest Wcal) by (intros y Hy; apply Hmem; right; exact Hy).
    rewrite hop_round_unfold.
    assert (Hinit : rinv Pcal rest W a (ordB Pcal) (Pcal, rest)).
    { unfold rinv. cbn [fst snd]. split; [exact Hpart|].
      split; [intros B HB; apply (Permutation_in _ (ordB_perm Pcal)); exact HB|].
      split; [intros C HC; exists C; split; [exact HC | apply incl_refl]|].
      split; [intros C HC; left; apply (Permutation_in _ (Permutation_sym (ordB_perm Pcal))); exact HC|].
      split; [apply incl_refl|]. split; [intros C HC; left; exact HC|].
      split; [intros S0 b Hin; apply Hwok; apply Hrestsub; exact Hin|]. split; [exact Hco | lia]. }
    assert (Hnd : NoDup (ordB Pcal)).
    { apply (Permutation_NoDup (Permutation_sym (ordB_perm Pcal))). apply Hpart. }
    assert (Hincl : incl (ordB Pcal) Pcal) by (intros B HB; apply (Permutation_in _ (ordB_perm Pcal)); exact HB).
    pose proof (rinv_fold Pcal rest W a Ha HWmn (ordB Pcal) (Pcal, rest) Hincl Hnd Hinit) as Hfin.
    destruct (fold_left (hr_step W a) (ordB Pcal) (Pcal, rest)) as [Pc Wc]. unfold rinv in Hfin. cbn [fst snd] in *.
    destruct Hfin as [Hpart' [_ [Href [Hstab [Hrest [Hhalves [Hwok' [Hco' Hlen]]]]]]]].
    split; [|exact Hlen]. split; [exact Hpart'|]. split; [|split; [exact Hco'|split; [exact Hwok'|]]].
    - intros C p q HC Hp Hq. destruct (Href C HC) as [B [HB Hsub]]. apply (HF B); [exact HB | apply Hsub; exact Hp | apply Hsub; exact Hq].
    - apply hinv_round with Pcal rest W a.
      + apply hinv_weaken with Wcal; [|exact HI]. intros x Hx. apply Hmem in Hx. destruct Hx as [->|Hx]; [left; reflexivity | right; exact Hx].
      + exact Href.
      + intros C HC. destruct (Hstab C HC) as [[]|Hs]. exact Hs.
      + exact Hrest.
      + exact Hhalves.
  Qed.

  Lemma hop_exit P : linv P [] -> good_partition P /\ refines_F D P /\ stable D P /\ coarser_than_mn D P.
  Proof.
    intros [Hpart [HF [Hco [_ HI]]]]. split; [apply hpart_good; exact Hpart|]. split; [exact HF|]. split; [|exact Hco].
    intros B C a p q HB HC Ha Hp Hq Hs.
    destruct (hinv_final P HI a C Ha HC B HB) as [Hall|Hnone]; [apply Hall; exact Hq|].
    exfalso. exact (Hnone p Hp Hs).
  Qed.

  Lemma hop_loop_correct_gen fuel : forall Pcal Wcal P, linv Pcal Wcal -> hop_loop ordB pick D fuel Pcal Wcal = Some P ->
    good_partition P /\ refines_F D P /\ stable D P /\ coarser_than_mn D P.
  Proof.
    induction fuel as [|f IH]; intros Pcal Wcal P Hinv; cbn [hop_loop]; [discriminate|].
    destruct (pick Wcal) as [[[W a] rest]|] eqn:Epick.
    - destruct (hop_round_inv Pcal Wcal W a rest Hinv Epick) as [Hinv' _].
      destruct (hop_round ordB D W a Pcal rest) as [Pc Wc]. cbn [fst snd] in Hinv'. apply IH. exact Hinv'.
    - intros E; inversion E; subst P. apply hop_exit.
      rewrite (picker_none pick Wcal pick_ok Epick) in Hinv. exact Hinv.
  Qed.

  Lemma hop_loop_terminates_gen fuel : forall Pcal Wcal, linv Pcal Wcal ->
    length Wcal + length (dS D) * length (dQ D) < fuel + length (dS D) * length Pcal ->
    hop_loop ordB pick D fuel Pcal Wcal <> None.
  Proof.
    induction fuel as [|f IH]; intros Pcal Wcal Hinv Hlen.
    - pose proof (hpart_length Pcal (proj1 Hinv)) as Hle.
      pose proof (Nat.mul_le_mono_l _ _ (length (dS D)) Hle). lia.
    - cbn [hop_loop]. destruct (pick Wcal) as [[[W a] rest]|] eqn:Epick; [|discriminate].
      destruct (hop_round_inv Pcal Wcal W a rest Hinv Epick) as [Hinv' Hlen'].
      destruct (picker_some pick Wcal _ _ pick_ok Epick) as [_ Hlt].
      destruct (hop_round ordB D W a Pcal rest) as [Pc Wc]. cbn [fst snd] in Hinv', Hlen'. apply IH; [exact Hinv'|]. lia.
  Qed.

  (* initial partition and waiting set of dfa_hopcroft *)
  Definition hop_P0 : list (list A) :=
    filter (fun B => match B with [] => false | _ => true end)
           (if seteqb (dF D) (diff (dQ D) (dF D)) then [dF D] else [dF D; diff (dQ D) (dF D)]).
  Definition hop_W0 : list (list A * nat) :=
    fold_left (fun Wc b => w_add (min_ (dF D) (diff (dQ D) (dF D)), b) Wc) (dS D) [].

  Lemma hop_P0_eq : hop_P0 = filter (fun B => match B with [] => false | _ => true end) [dF D; diff (dQ D) (dF D)].
  Proof.
    unfold hop_P0. destruct (seteqb (dF D) (diff (dQ D) (dF D))) eqn:E; [exfalso|reflexivity].
    apply seteqb_seteq in E. specialize (E (dq0 D)). rewrite diff_In in E.
    pose proof (proj1 Hwf) as Hq0. destruct (In_dec_l (dq0 D) (dF D)); tauto.
  Qed.

  Lemma hop_P0_In B : In B hop_P0 <-> B <> [] /\ (B = dF D \/ B = diff (dQ D) (dF D)).
  Proof.
    rewrite hop_P0_eq, filter_In. cbn [In]. split.
    - intros [[<-|[<-|[]]] E]; (split; [intros E'; rewrite E' in E; discriminate | auto]).
    - intros [Hne [->| ->]]; (split; [auto|]); [destruct (dF D) | destruct (diff (dQ D) (dF D))]; congruence.
  Qed.

  Lemma linv_init : linv hop_P0 hop_W0.
  Proof.
    destruct (w_fold (min_ (dF D) (diff (dQ D) (dF D))) (dS D) []) as [_ [Hwh [Hwo _]]]. fold hop_W0 in Hwh, Hwo.
    assert (Hmin : min_ (dF D) (diff (dQ D) (dF D)) = dF D \/ min_ (dF D) (diff (dQ D) (dF D)) = diff (dQ D) (dF D))
      by (unfold min_; destruct (Nat.leb _ _); auto).
    assert (HNFnd : NoDup (diff (dQ D) (dF D))) by (apply NoDup_filter; exact HndQ).
    assert (HinclP : forall C, In C hop_P0 -> incl C (dQ D)).
    { intros C HC. apply hop_P0_In in HC. destruct HC as [_ [->| ->]]; [apply Hwf|]. intros x Hx. apply diff_In in Hx. tauto. }
    split; [|split; [|split; [|split]]].
    - split; [|split; [|split]].
      + intros B HB. pose proof (HinclP B HB) as Hi. apply hop_P0_In in HB. destruct HB as [Hne [->| ->]]; auto.
      + intros q Hq. destruct (In_dec_l q (dF D)) as [Hi|Hi].
        * exists (dF D). split; [|exact Hi]. apply hop_P0_In. split; [|auto]. intros E. rewrite E in Hi. destruct Hi.
        * assert (Hi' : In q (diff (dQ D) (dF D))) by (apply diff_In; auto).
          exists (diff (dQ D) (dF D)). split; [|exact Hi']. apply hop_P0_In. split; [|auto]. intros E. rewrite E in Hi'. destruct Hi'.
      + intros B1 B2 q H1 H2 Hq1 Hq2. apply hop_P0_In in H1, H2.
        destruct H1 as [_ [->| ->]], H2 as [_ [->| ->]]; try reflexivity; apply diff_In in Hq1 || apply diff_In in Hq2; tauto.
      + rewrite hop_P0_eq. apply NoDup_filter. constructor; [|constructor; [intros []|constructor]].
        intros [E|[]]. pose proof (proj1 Hwf) as Hq0.
        destruct (In_dec_l (dq0 D) (dF D)) as [Hi|Hi].
        * pose proof Hi as Hi2. rewrite <- E in Hi2. apply diff_In in Hi2. tauto.
        * apply Hi. rewrite <- E. apply diff_In. auto.
    - intros B p q HB Hp Hq. apply hop_P0_In in HB. destruct HB as [_ [->| ->]]; [tauto|].
      apply diff_In in Hp, Hq. tauto.
    - intros B p q HB. apply hop_P0_In in HB. destruct HB as [_ [->| ->]]; [apply mn_closed_F | apply mn_closed_NF].
    - intros S0 b Hin. destruct (Hwo _ Hin) as [[]|[b' [Hb' E]]]. inversion E; subst. split; [exact Hb'|].
      destruct Hmin as [-> | ->]; [apply mn_closed_F | apply mn_closed_NF].
    - apply hinv_init.
      + exact HinclP.
      + intros B HB. apply hop_P0_In in HB. tauto.
      + intros b Hb. destruct (Hwh b Hb) as [S' [Hin He]]. exists S'. split; [exact Hin|].
        destruct Hmin as [E|E]; rewrite E in He; auto.
  Qed.

  Theorem hop_loop_correct P : hop_loop ordB pick D (hop_fuel D) hop_P0 hop_W0 = Some P ->
    good_partition P /\ refines_F D P /\ stable D P /\ coarser_than_mn D P.
  Proof. apply hop_loop_correct_gen. exact linv_init. Qed.

  Theorem hop_loop_terminates : hop_loop ordB pick D (hop_fuel D) hop_P0 hop_W0 <> None.
  Proof.
    apply hop_loop_terminates_gen; [exact linv_init|].
    destruct (w_fold (min_ (dF D) (diff (dQ D) (dF D))) (dS D) []) as [_ [_ [_ Hl]]]. fold hop_W0 in Hl.
    cbn [length] in Hl. unfold hop_fuel. cbn [Nat.mul]. rewrite Nat.mul_succ_r. lia.
  Qed.

  (* ================= Hopcroft: assembling the automaton (hop_delta) ================= *)
  Lemma update_In_inv {K V : Type} `{Eqb K} (k : K) (v : V) (m : list (K * V)) e : In e (update k v m) -> e = (k, v) \/ In e m.
  Proof.
    induction m as [|[k' v'] m IH]; cbn [update].
    - intros [<-|[]]. left; reflexivity.
    - destruct (eqb k k').
      + intros [<-|He]; [left; reflexivity | right; right; exact He].
      + intros [<-|He]; [right; left; reflexivity|]. destruct (IH He) as [->|Hin]; [left; reflexivity | right; right; exact Hin].
  Qed.

  Definition hd_entry (P : list (list A)) (e : (list A * nat) * list A) : Prop :=
    exists a Q1 Q2 v, In a (dS D) /\ In Q1 P /\ In Q2 P /\ In v Q1 /\ In (dstep D v a) Q2 /\ e = ((canon Q1, a), canon Q2).

  Lemma meets_map_spec a (Q1 Q2 : list A) :
    meetsb (map (fun q => dstep D q a) Q1) Q2 = true <-> exists v, In v Q1 /\ In (dstep D v a) Q2.
  Proof.
    rewrite meetsb_spec. split.
    - intros [y [Hy Hy2]]. apply in_map_iff in Hy. destruct Hy as [v [<- Hv]]. exists v. auto.
    - intros [v [Hv Hs]]. exists (dstep D v a). split; [apply in_map_iff; exists v; auto | exact Hs].
  Qed.

  Definition hd_step3 (a : nat) (Q1 : list A) (acc2 : list ((list A * nat) * list A)) (Q2 : list A) :=
    if meetsb (map (fun q => dstep D q a) Q1) Q2 then update (canon Q1, a) (canon Q2) acc2 else acc2.
  Lemma hop_delta_unfold P : hop_delta canon ordB D P =
    fold_left (fun acc a => fold_left (fun acc1 Q1 => fold_left (hd_step3 a Q1) (ordB P) acc1) (ordB P) acc) (dS D) [].
  Proof. reflexivity. Qed.

  Lemma hop_delta_entries P : forall e, In e (hop_delta canon ordB D P) -> hd_entry P e.
  Proof.
    rewrite hop_delta_unfold.
    apply (fold_left_pres (fun acc a => fold_left (fun acc1 Q1 => fold_left (hd_step3 a Q1) (ordB P) acc1) (ordB P) acc)
             (fun m => forall e, In e m -> hd_entry P e)); [|intros e []].
    intros acc a Ha Hacc.
    apply (fold_left_pres (fun acc1 Q1 => fold_left (hd_step3 a Q1) (ordB P) acc1) (fun m => forall e, In e m -> hd_entry P e)); [|exact Hacc].
    intros acc1 Q1 HQ1 Hacc1.
    apply (fold_left_pres (hd_step3 a Q1) (fun m => forall e, In e m -> hd_entry P e)); [|exact Hacc1].
    intros acc2 Q2 HQ2 Hacc2 e He. unfold hd_step3 in He.
    destruct (meetsb (map (fun q => dstep D q a) Q1) Q2) eqn:Em; [|apply Hacc2; exact He].
    apply update_In_inv in He. destruct He as [->|He]; [|apply Hacc2; exact He].
    apply meets_map_spec in Em. destruct Em as [v [Hv Hs]]. exists a, Q1, Q2, v.
    split; [exact Ha|]. split; [apply (Permutation_in _ (ordB_perm P)); exact HQ1|].
    split; [apply (Permutation_in _ (ordB_perm P)); exact HQ2|]. auto.
  Qed.

  Lemma hd_step3_keeps k a Q1 acc2 Q2 : lookup k acc2 <> None -> lookup k (hd_step3 a Q1 acc2 Q2) <> None.
  Proof.
    intros Hk. unfold hd_step3. destruct (meetsb _ _); [|exact Hk]. rewrite lookup_update.
    destruct (eqb k (canon Q1, a)); [discriminate | exact Hk].
  Qed.

  Lemma hop_delta_keys P a Q1 Q2 v : In a (dS D) -> In Q1 P -> In Q2 P -> In v Q1 -> In (dstep D v a) Q2 ->
    lookup (canon Q1, a) (hop_delta canon ordB D P) <> None.
  Proof.
    intros Ha HQ1 HQ2 Hv Hs. rewrite hop_delta_unfold.
    assert (HQ1' : In Q1 (ordB P)) by (apply (Permutation_in _ (Permutation_sym (ordB_perm P))); exact HQ1).
    assert (HQ2' : In Q2 (ordB P)) by (apply (Permutation_in _ (Permutation_sym (ordB_perm P))); exact HQ2).
    set (I := fun m : list ((list A * nat) * list A) => lookup (canon Q1, a) m <> None).
    assert (Hkeep3 : forall a' Q1' l acc, I acc -> I (fold_left (hd_step3 a' Q1') l acc)).
    { intros a' Q1' l acc Hacc. apply (fold_left_pres (hd_step3 a' Q1') I); [|exact Hacc].
      intros acc2 Q2' _ Hacc2. apply hd_step3_keeps. exact Hacc2. }
    assert (Hkeep2 : forall a' l acc, I acc -> I (fold_left (fun acc1 Q1' => fold_left (hd_step3 a' Q1') (ordB P) acc1) l acc)).
    { intros a' l acc Hacc. apply (fold_left_pres (fun acc1 Q1' => fold_left (hd_step3 a' Q1') (ordB P) acc1) I); [|exact Hacc].
      intros acc1 Q1' _ Hacc1. apply Hkeep3. exact Hacc1. }
    apply (fold_left_estab (fun acc a' => fold_left (fun acc1 Q1' => fold_left (hd_step3 a' Q1') (ordB P) acc1) (ordB P) acc) I (dS D) a Ha).
    - intros acc.
      apply (fold_left_estab (fun acc1 Q1' => fold_left (hd_step3 a Q1') (ordB P) acc1) I (ordB P) Q1 HQ1').
      + intros acc1. apply (fold_left_estab (hd_step3 a Q1) I (ordB P) Q2 HQ2').
        * intros acc2. unfold I, hd_step3.
          assert (Em : meetsb (map (fun q => dstep D q a) Q1) Q2 = true) by (apply meets_map_spec; exists v; auto).
          rewrite Em, lookup_update, eqb_refl. discriminate.
        * intros acc2 Q2' _ Hacc2. apply hd_step3_keeps. exact Hacc2.
      + intros acc1 Q1' _ Hacc1. apply Hkeep3. exact Hacc1.
    - intros acc a' _ Hacc. apply Hkeep2. exact Hacc.
  Qed.

  Lemma hopcroft_assembles_gen P : good_partition P ->
    exists D',
      match block_of P (dq0 D) with
      | Some B0 => Some (mkDFA (map canon P) (dS D) (hop_delta canon ordB D P) (canon B0)
                               (map canon (filter (fun B => meetsb B (dF D)) P)))
      | None => None
      end = Some D' /\ is_quotient_of canon D P D'.
  Proof.
    intros Hgp. pose proof Hgp as [Hne [Hc Hd]].
    destruct (good_block_of P (dq0 D) Hgp (proj1 Hwf)) as [B0 [E0 [HB0 Hq0]]]. rewrite E0.
    eexists. split; [reflexivity|]. unfold is_quotient_of. cbn [dQ dS dD dq0 dF].
    split; [|split; [|split; [|split; [|split]]]].
    - intros S0. rewrite in_map_iff. split; intros [B HB]; exists B; intuition.
    - reflexivity.
    - exists B0. auto.
    - intros S0. rewrite in_map_iff. split.
      + intros [B [E HB]]. apply filter_In in HB. destruct HB as [HB Hm]. apply meetsb_spec in Hm.
        exists B. auto.
      + intros [B [HB [E Hm]]]. exists B. split; [auto|]. apply filter_In. split; [exact HB|]. apply meetsb_spec. exact Hm.
    - intros B a HB Ha. unfold ddelta. cbn [dD].
      destruct (Hne B HB) as [HBne HBincl]. destruct B as [|v0 B'] eqn:EB; [congruence|]. rewrite <- EB in *.
      assert (Hv0 : In v0 B) by (rewrite EB; left; reflexivity).
      destruct (Hc (dstep D v0 a) (step_Q v0 a (HBincl v0 Hv0) Ha)) as [B2 [HB2 Hs2]].
      pose proof (hop_delta_keys P a B B2 v0 Ha HB HB2 Hv0 Hs2) as Hkey.
      destruct (lookup (canon B, a) (hop_delta canon ordB D P)) as [S2|] eqn:El; [|congruence].
      apply lookup_In in El. destruct (hop_delta_entries P _ El) as [a' [Q1 [Q2 [v [Ha' [HQ1 [HQ2 [Hv [Hs Ee]]]]]]]]].
      inversion Ee as [[Ecan Ea ES2]]. subst a'.
      exists v, Q2. split; [|auto]. apply canon_In. rewrite Ecan. apply canon_In. exact Hv.
    - intros k S1 Hk. destruct (hop_delta_entries P _ Hk) as [a' [Q1 [Q2 [v [Ha' [HQ1 [HQ2 [Hv [Hs Ee]]]]]]]]].
      inversion Ee; subst. exists Q1. cbn [fst snd]. auto.
  Qed.

  Theorem dfa_hopcroft_assembles : exists P D',
    hop_loop ordB pick D (hop_fuel D) hop_P0 hop_W0 = Some P /\
    dfa_hopcroft canon ordB pick D = Some D' /\ is_quotient_of canon D P D'.
  Proof.
    destruct (hop_loop ordB pick D (hop_fuel D) hop_P0 hop_W0) as [P|] eqn:E.
    2:{ exfalso. exact (hop_loop_terminates E). }
    destruct (hop_loop_correct P E) as [Hgp _].
    destruct (hopcroft_assembles_gen P Hgp) as [D' [E' Hq]].
    exists P, D'. split; [reflexivity|]. split; [|exact Hq].
    unfold dfa_hopcroft. fold hop_P0. fold hop_W0. cbv zeta. fold hop_P0. fold hop_W0. rewrite E. exact E'.
  Qed.

End MH.

(* the initial partition / waiting set used in the statements are literally those of dfa_hopcroft *)
Lemma hop_P0_def {A} `{Eqb A} (D : dfa A) :
  hop_P0 D = filter (fun B => match B with [] => false | _ => true end)
                    (if seteqb (dF D) (diff (dQ D) (dF D)) then [dF D] else [dF D; diff (dQ D) (dF D)]).
Proof. reflexivity. Qed.
Lemma hop_W0_def {A} `{Eqb A} (D : dfa A) :
  hop_W0 D = fold_left (fun Wc b => w_add (min_ (dF D) (diff (dQ D) (dF D)), b) Wc) (dS D) [].
Proof. reflexivity. Qed.

Check @moore_loop_correct.
Check @moore_loop_terminates.
Check @dfa_quotient_assembles.
Check @hop_loop_correct.
Check @hop_loop_terminates.
Check @dfa_hopcroft_assembles.
Print Assumptions moore_loop_correct.
Print Assumptions moore_loop_terminates.
Print Assumptions dfa_quotient_assembles.
Print Assumptions hop_loop_correct.
Print Assumptions hop_loop_terminates.
Print Assumptions dfa_hopcroft_assembles.
