(* placeholder *)
From GT Require Import Base.Prelude Model.PDA Model.PDAConv.
