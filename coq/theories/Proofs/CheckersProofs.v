(* C12 / C13: soundness of the object-level exercise checkers of Model/Checkers.v ("OK only when the answer satisfies
   the criterion of the exercise; a reported counterexample word is genuine, of the right polarity and of minimal
   length") and acceptance of the library's own answers by these checkers. *)
From GT Require Import Base.Prelude Base.Sort Model.DFA Model.NFA Model.DFAOps Model.Minimize Model.Lang Model.Regexp
  Model.CFG Model.Chomsky Model.CYK Model.Simulate Model.Checkers Decide.DFAEquiv.
From GT Require Import Proofs.EnumProofs Proofs.RegexpProofs Proofs.LangProofs Proofs.DFAOpsProofs Proofs.NFAProofs
  Proofs.SubsetProofs Proofs.PartitionDefs Proofs.MinimizeFinal Proofs.CYKProofs Proofs.CFGEnumProofs Proofs.ChomskyFinal
  Proofs.SimulateProofs Proofs.CFGBasics.
From Coq Require Import Permutation.
Set Implicit Arguments.

(* ================================================================= compare_languages *)
Lemma shortest_None (L : list word) : shortest L = None <-> L = [].
Proof.
  destruct L as [|w L]; cbn [shortest]; [tauto|].
  split; [|discriminate].
  destruct (shortest L) as [v|]; [destruct (Nat.leb (length w) (length v))|]; discriminate.
Qed.

Lemma shortest_Some (L : list word) : forall w, shortest L = Some w ->
  In w L /\ forall v, In v L -> length w <= length v.
Proof.
  induction L as [|u L IH]; intros w Hs; cbn [shortest] in Hs; [discriminate|].
  destruct (shortest L) as [v0|] eqn:E.
  - destruct (IH v0 eq_refl) as [Hin Hmin].
    destruct (Nat.leb (length u) (length v0)) eqn:El; inversion Hs; subst w.
    + apply Nat.leb_le in El. split; [left; reflexivity|].
      intros v [<-|Hv]; [lia|]. specialize (Hmin v Hv). lia.
    + apply Nat.leb_gt in El. split; [right; exact Hin|].
      intros v [<-|Hv]; [lia|]. apply Hmin; exact Hv.
  - apply shortest_None in E. subst L. inversion Hs; subst w. split; [left; reflexivity|].
    intros v [<-|[]]. lia.
Qed.

Lemma diff_nil_incl (A1 A2 : list word) : diff A1 A2 = [] <-> incl A1 A2.
Proof.
  split.
  - intros E w Hw. destruct (mem w A2) eqn:Em; [apply mem_In; exact Em|].
    apply mem_nIn in Em. assert (Hd : In w (diff A1 A2)) by (apply diff_In; auto). rewrite E in Hd. destruct Hd.
  - intros Hi. destruct (diff A1 A2) as [|w r] eqn:E; [reflexivity|].
    assert (Hd : In w (diff A1 A2)) by (rewrite E; left; reflexivity).
    apply diff_In in Hd. destruct Hd as [H1 H2]. exfalso. apply H2, Hi, H1.
Qed.

Theorem compare_languages_none (A1 A2 : list word) : compare_languages A1 A2 = None <-> seteq A1 A2.
Proof.
  unfold compare_languages. split.
  - intros Hc. destruct (shortest (diff A1 A2)) as [w|] eqn:E1; [discriminate|].
    destruct (shortest (diff A2 A1)) as [w|] eqn:E2; [discriminate|].
    apply shortest_None, diff_nil_incl in E1. apply shortest_None, diff_nil_incl in E2.
    intros w. split; [apply E1 | apply E2].
  - intros Hs.
    assert (E1 : diff A1 A2 = []) by (apply diff_nil_incl; intros w Hw; apply Hs; exact Hw).
    assert (E2 : diff A2 A1 = []) by (apply diff_nil_incl; intros w Hw; apply Hs; exact Hw).
    rewrite E1, E2. reflexivity.
Qed.

Theorem compare_languages_extra (A1 A2 : list word) (w : word) : compare_languages A1 A2 = Some (true, w) ->
  In w A1 /\ ~ In w A2 /\ forall v, In v A1 -> ~ In v A2 -> length w <= length v.
Proof.
  unfold compare_languages. intros Hc.
  destruct (shortest (diff A1 A2)) as [w1|] eqn:E1.
  - inversion Hc; subst w1. apply shortest_Some in E1. destruct E1 as [Hin Hmin].
    apply diff_In in Hin. destruct Hin as [Hi1 Hi2]. split; [exact Hi1|]. split; [exact Hi2|].
    intros v Hv1 Hv2. apply Hmin. apply diff_In. auto.
  - destruct (shortest (diff A2 A1)); discriminate.
Qed.

Theorem compare_languages_missing (A1 A2 : list word) (w : word) : compare_languages A1 A2 = Some (false, w) ->
  (forall v, In v A1 -> In v A2) /\ In w A2 /\ ~ In w A1 /\ forall v, In v A2 -> ~ In v A1 -> length w <= length v.
Proof.
  unfold compare_languages. intros Hc.
  destruct (shortest (diff A1 A2)) as [w1|] eqn:E1; [discriminate|].
  apply shortest_None, diff_nil_incl in E1. split; [exact E1|].
  destruct (shortest (diff A2 A1)) as [w2|] eqn:E2; [|discriminate].
  inversion Hc; subst w2. apply shortest_Some in E2. destruct E2 as [Hin Hmin].
  apply diff_In in Hin. destruct Hin as [Hi1 Hi2]. split; [exact Hi1|]. split; [exact Hi2|].
  intros v Hv1 Hv2. apply Hmin. apply diff_In. auto.
Qed.

(* every verdict of compare_languages is one of the three above; Some _ is reported exactly when the sets differ *)
Theorem compare_languages_some (A1 A2 : list word) : (exists b w, compare_languages A1 A2 = Some (b, w)) <-> ~ seteq A1 A2.
Proof.
  rewrite <- compare_languages_none. destruct (compare_languages A1 A2) as [[b w]|].
  - split; [intros _; discriminate | intros _; exists b, w; reflexivity].
  - split; [intros (b & w & E); discriminate | intros Hn; exfalso; apply Hn; reflexivity].
Qed.

Lemma lang_ok_spec (A1 A2 : list word) : lang_ok A1 A2 = true <-> seteq A1 A2.
Proof.
  unfold lang_ok. rewrite <- compare_languages_none.
  destruct (compare_languages A1 A2); split; try reflexivity; discriminate.
Qed.

Lemma seteq_refl {X} `{Eqb X} (l : list X) : seteq l l.
Proof. intros x; reflexivity. Qed.

Lemma seteqb_refl {X} `{Eqb X} (l : list X) : seteqb l l = true.
Proof. apply seteqb_seteq. apply seteq_refl. Qed.

Lemma subsetb_refl {X} `{Eqb X} (l : list X) : subsetb l l = true.
Proof. apply subsetb_incl. apply incl_refl. Qed.

Lemma lang_ok_refl (L : list word) : lang_ok L L = true.
Proof. apply lang_ok_spec. apply seteq_refl. Qed.

(* ================================================================= check_max_states / check_language_from_words *)
Lemma check_max_states_spec (nstates max_states : nat) :
  check_max_states nstates max_states = true <-> max_states = 0 \/ nstates <= max_states.
Proof.
  unfold check_max_states. rewrite negb_true_iff, andb_false_iff, !Nat.ltb_ge. lia.
Qed.

Theorem check_language_from_words_spec (L : list word) (nstates max_states : nat) (words : list word) :
  check_language_from_words L nstates max_states words = true <->
  (max_states = 0 \/ nstates <= max_states) /\ seteq L words.
Proof.
  unfold check_language_from_words. rewrite andb_true_iff, check_max_states_spec, lang_ok_spec. reflexivity.
Qed.

Theorem check_language_from_words_dfa_sound {A} `{Eqb A} (D : dfa A) (n max_states : nat) (L words : list word) :
  dfa_wf D -> dfa_words D n = Some L ->
  check_language_from_words L (length (dedup (dQ D))) max_states words = true ->
  (max_states = 0 \/ length (dedup (dQ D)) <= max_states) /\
  forall w, In w words <-> length w <= n /\ Forall (fun a => In a (dS D)) w /\ dfa_lang D w.
Proof.
  intros Hwf HL Hc. apply check_language_from_words_spec in Hc. destruct Hc as [Hm Hs]. split; [exact Hm|].
  destruct (dfa_words_lang D n Hwf) as (L' & HL' & Hspec). rewrite HL in HL'. inversion HL'; subst L'.
  intros w. rewrite <- (Hs w). apply Hspec.
Qed.

Theorem check_language_from_words_nfa_sound {A} `{Eqb A} (N : nfa A) (n max_states : nat) (L words : list word) :
  nfa_wf N -> nfa_words N n = Some L ->
  check_language_from_words L (length (dedup (nQ N))) max_states words = true ->
  (max_states = 0 \/ length (dedup (nQ N)) <= max_states) /\
  forall w, In w words <-> length w <= n /\ Forall (fun a => In a (nS N)) w /\ nfa_lang N w.
Proof.
  intros Hwf HL Hc. apply check_language_from_words_spec in Hc. destruct Hc as [Hm Hs]. split; [exact Hm|].
  destruct (nfa_words_lang N n Hwf) as (L' & HL' & Hspec). rewrite HL in HL'. inversion HL'; subst L'.
  intros w. rewrite <- (Hs w). apply Hspec.
Qed.

Theorem check_language_from_words_re_sound (r : re) (n : nat) (words : list word) :
  check_language_from_words (re_words r n) 0 0 words = true ->
  forall w, In w words <-> length w <= n /\ re_lang r w.
Proof.
  intros Hc. apply check_language_from_words_spec in Hc. destruct Hc as [_ Hs].
  intros w. rewrite <- (Hs w). apply re_words_exact.
Qed.

(* check_dfa2regexp: the regular expression against the DFA, both enumerated up to n *)
Theorem check_dfa2regexp_sound {A} `{Eqb A} (D : dfa A) (r : re) (n : nat) (L : list word) :
  dfa_wf D -> dfa_words D n = Some L -> lang_ok (re_words r n) L = true ->
  forall w, length w <= n -> (re_lang r w <-> Forall (fun a => In a (dS D)) w /\ dfa_lang D w).
Proof.
  intros Hwf HL Hc w Hl. apply lang_ok_spec in Hc.
  destruct (dfa_words_lang D n Hwf) as (L' & HL' & Hspec). rewrite HL in HL'. inversion HL'; subst L'.
  specialize (Hc w). rewrite re_words_exact, Hspec in Hc. tauto.
Qed.

(* ================================================================= check_accepts_rejects *)
Theorem check_accepts_rejects_sound (va vr : list bool) :
  check_accepts_rejects va vr = true <-> Forall (fun b => b = true) va /\ Forall (fun b => b = false) vr.
Proof.
  unfold check_accepts_rejects. rewrite andb_true_iff, !forallb_forall, !Forall_forall.
  split; intros [Ha Hr]; (split; [exact Ha|]); intros b Hb; [apply negb_true_iff | apply negb_true_iff]; apply Hr; exact Hb.
Qed.

(* ================================================================= generic helpers *)
Lemma dfa_path_ext {A} `{Eqb A} (D1 D2 : dfa A) : (forall q a, ddelta D2 q a = ddelta D1 q a) ->
  forall q w p, dfa_path D1 q w p -> dfa_path D2 q w p.
Proof.
  intros He q w p Hp. induction Hp as [q|q a q1 w q2 Hd Hp IH]; [constructor|].
  apply dp_cons with q1; [rewrite He; exact Hd | exact IH].
Qed.

Lemma Forall_seteq (l1 l2 : list nat) (w : word) : seteq l1 l2 ->
  Forall (fun a => In a l1) w -> Forall (fun a => In a l2) w.
Proof. intros Hs Hf. rewrite Forall_forall in *. intros a Ha. apply Hs, Hf, Ha. Qed.

Lemma forallb_combine_seq {X} (f : nat * X -> bool) (d : X) (l : list X) : forall s,
  forallb f (combine (seq s (length l)) l) = true <-> forall i, i < length l -> f (s + i, nth i l d) = true.
Proof.
  induction l as [|x l IH]; intros s; cbn [length seq combine forallb].
  - split; [intros _ i Hi; lia | reflexivity].
  - rewrite andb_true_iff, IH. split.
    + intros [Hx Hl] [|i] Hi; cbn [nth]; [rewrite Nat.add_0_r; exact Hx|].
      replace (s + S i) with (S s + i) by lia. apply Hl. lia.
    + intros Hall. split.
      * specialize (Hall 0 ltac:(lia)). cbn [nth] in Hall. rewrite Nat.add_0_r in Hall. exact Hall.
      * intros i Hi. specialize (Hall (S i) ltac:(lia)). cbn [nth] in Hall.
        replace (S s + i) with (s + S i) by lia. exact Hall.
Qed.

Lemma NoDup_dedup {X} `{Eqb X} (l : list X) : NoDup l -> dedup l = l.
Proof.
  induction l as [|x l IH]; intros Hnd; cbn [dedup]; [reflexivity|].
  inversion Hnd as [|y ys Hnin Hnd']; subst.
  apply mem_nIn in Hnin. rewrite Hnin, (IH Hnd'). reflexivity.
Qed.

(* ================================================================= complement *)
Section SingleP.
  Context {A : Type} `{Eqb A}.

  Lemma delta_eqb_sound (D1 D2 : dfa A) : delta_eqb D1 D2 = true -> forall q a, ddelta D2 q a = ddelta D1 q a.
  Proof.
    unfold delta_eqb. rewrite andb_true_iff, !forallb_forall. intros [H1 H2] q a.
    destruct (ddelta D1 q a) as [x|] eqn:E1.
    - apply lookup_In in E1. specialize (H1 _ E1). cbn [fst snd] in H1. apply eqb_true in H1. exact H1.
    - destruct (ddelta D2 q a) as [y|] eqn:E2; [|reflexivity].
      apply lookup_In in E2. specialize (H2 _ E2). cbn [fst snd] in H2. apply eqb_true in H2. congruence.
  Qed.

  Lemma delta_eqb_refl (D : dfa A) : NoDup (map fst (dD D)) -> delta_eqb D D = true.
  Proof.
    intros Hnd. unfold delta_eqb.
    assert (E : forallb (fun e => eqb (ddelta D (fst (fst e)) (snd (fst e))) (Some (snd e))) (dD D) = true).
    { apply forallb_forall. intros [[q a] q1] He. cbn [fst snd]. unfold ddelta.
      rewrite (lookup_NoDup _ _ _ Hnd He). apply eqb_refl. }
    rewrite E. reflexivity.
  Qed.

  Theorem check_dfa_complement_sound (D1 answer : dfa A) : check_dfa_complement D1 answer = true ->
    seteq (dS D1) (dS answer) /\ seteq (dQ D1) (dQ answer) /\ dq0 D1 = dq0 answer /\
    (forall q a, ddelta answer q a = ddelta D1 q a) /\
    (forall q, In q (dF answer) <-> In q (dQ D1) /\ ~ In q (dF D1)).
  Proof.
    unfold check_dfa_complement. cbn [dfa_complement dS dQ dq0 dF].
    rewrite !andb_true_iff. intros [[[[[HS HQ] Hq0] Hd] HF1] HF2].
    apply seteqb_seteq in HS. apply seteqb_seteq in HQ. apply eqb_true in Hq0.
    apply subsetb_incl in HF1. apply subsetb_incl in HF2.
    split; [exact HS|]. split; [exact HQ|]. split; [exact Hq0|]. split.
    - intros q a. apply (delta_eqb_sound _ _ Hd q a).
    - intros q. rewrite <- diff_In. split; [apply HF2 | apply HF1].
  Qed.

  (* consequence for the language: the accepted answer recognises the complement *)
  Theorem check_dfa_complement_lang (D1 answer : dfa A) : dfa_wf D1 -> check_dfa_complement D1 answer = true ->
    forall w, Forall (fun a => In a (dS D1)) w -> (dfa_lang answer w <-> ~ dfa_lang D1 w).
  Proof.
    intros Hwf Hc w Hw. destruct (check_dfa_complement_sound _ _ Hc) as (_ & _ & Hq0 & Hd & HF).
    destruct (@complement_correct _ _ D1 Hwf) as (_ & _ & HL). rewrite <- (HL w Hw).
    unfold dfa_lang. cbn [dfa_complement dq0 dF]. rewrite <- Hq0.
    split; intros (qf & Hp & Hf); exists qf; split.
    - apply (@dfa_path_ext _ _ answer (dfa_complement D1)); [intros q a; cbn [dfa_complement ddelta dD]; symmetry; apply Hd | exact Hp].
    - apply diff_In. apply HF. exact Hf.
    - apply (@dfa_path_ext _ _ (dfa_complement D1) answer); [intros q a; apply Hd | exact Hp].
    - apply HF. apply diff_In. exact Hf.
  Qed.

  Theorem own_complement_accepted (D1 : dfa A) : NoDup (map fst (dD D1)) ->
    check_dfa_complement D1 (dfa_complement D1) = true.
  Proof.
    intros Hnd. unfold check_dfa_complement. rewrite !seteqb_refl, eqb_refl, !subsetb_refl.
    rewrite (delta_eqb_refl (dfa_complement D1) Hnd). reflexivity.
  Qed.
End SingleP.

(* the side condition of own_complement_accepted is needed: a transition list with a repeated key (which the Python
   dict cannot represent) is rejected by the model checker *)
Lemma own_complement_needs_unique_keys : dfa_wf D_dupkey /\ check_dfa_complement D_dupkey (dfa_complement D_dupkey) = false.
Proof. split; [exact D_dupkey_wf | vm_compute; reflexivity]. Qed.

(* ================================================================= product *)
Section ProductP.
  Context {A B : Type} `{Eqb A} `{Eqb B}.

  (* what a successful dfa_product looks like *)
  Lemma dfa_product_Some (ptype : nat) (D1 : dfa A) (D2 : dfa B) (D : dfa (A * B)) : dfa_product ptype D1 D2 = Some D ->
    seteq (dS D1) (dS D2) /\ dS D = dS D1 /\ dQ D = list_prod (dQ D1) (dQ D2) /\ dq0 D = (dq0 D1, dq0 D2) /\
    dF D = filter (prod_final ptype D1 D2) (list_prod (dQ D1) (dQ D2)) /\
    (forall q a t, In ((q, a), t) (dD D) ->
       In q (list_prod (dQ D1) (dQ D2)) /\ In a (dS D1) /\
       ddelta D1 (fst q) a = Some (fst t) /\ ddelta D2 (snd q) a = Some (snd t) /\ ddelta D q a = Some t) /\
    (forall q a x y, In q (list_prod (dQ D1) (dQ D2)) -> In a (dS D1) ->
       ddelta D1 (fst q) a = Some x -> ddelta D2 (snd q) a = Some y -> ddelta D q a = Some (x, y)).
  Proof.
    unfold dfa_product. destruct (seteqb (dS D1) (dS D2)) eqn:Es; cbn [negb]; [|discriminate].
    apply seteqb_seteq in Es.
    set (states := list_prod (dQ D1) (dQ D2)).
    set (g := fun pa : (A * B) * nat =>
                match ddelta D1 (fst (fst pa)) (snd pa), ddelta D2 (snd (fst pa)) (snd pa) with
                | Some x, Some y => Some (pa, (x, y))
                | _, _ => None
                end).
    destruct (all_some (map g (list_prod states (dS D1)))) as [delta|] eqn:Hdelta; [|discriminate].
    intros E. inversion E; subst D; clear E. cbn [dS dQ dq0 dF dD].
    assert (Hgfst : forall x y, g x = Some y -> fst y = x).
    { intros x y. unfold g. destruct (ddelta D1 (fst (fst x)) (snd x)); [|discriminate].
      destruct (ddelta D2 (snd (fst x)) (snd x)); [|discriminate].
      intros E; inversion E; reflexivity. }
    assert (Hlk : forall q a x y, In q states -> In a (dS D1) ->
       ddelta D1 (fst q) a = Some x -> ddelta D2 (snd q) a = Some y -> lookup (q, a) delta = Some (x, y)).
    { intros q a x y Hq Ha E1 E2.
      assert (Hin : In (q, a) (list_prod states (dS D1))) by (apply in_prod_iff; split; assumption).
      destruct (all_some_map_lookup g _ Hdelta Hgfst _ Hin) as [v [Hv Hl]].
      unfold g in Hv. cbn [fst snd] in Hv. rewrite E1, E2 in Hv. inversion Hv; subst v. exact Hl. }
    split; [exact Es|]. split; [reflexivity|]. split; [reflexivity|]. split; [reflexivity|]. split; [reflexivity|].
    split.
    - intros q a t Hi. apply (all_some_map_In g _ Hdelta) in Hi. destruct Hi as [pa [Hpa Hgpa]].
      pose proof (Hgfst _ _ Hgpa) as Efst. cbn [fst] in Efst. subst pa.
      apply in_prod_iff in Hpa. destruct Hpa as [Hq Ha].
      unfold g in Hgpa. cbn [fst snd] in Hgpa.
      destruct (ddelta D1 (fst q) a) as [x|] eqn:E1; [|discriminate].
      destruct (ddelta D2 (snd q) a) as [y|] eqn:E2; [|discriminate].
      inversion Hgpa; subst t. cbn [fst snd].
      split; [exact Hq|]. split; [exact Ha|]. split; [reflexivity|]. split; [reflexivity|].
      unfold ddelta at 1. cbn [dD]. apply Hlk; assumption.
    - intros q a x y Hq Ha E1 E2. unfold ddelta. cbn [dD]. apply Hlk; assumption.
  Qed.

  Lemma check_product_automaton_spec (D : dfa (A * B)) (D1 : dfa A) (D2 : dfa B) (answer : dfa (A * B)) :
    check_product_automaton D D1 D2 answer = true <->
    (forall q, In q (dQ answer) -> In (fst q) (dQ D1) /\ In (snd q) (dQ D2)) /\
    seteq (dS D) (dS answer) /\ dq0 answer = dq0 D /\
    (forall q a q1, In ((q, a), q1) (dD answer) -> forall t, ddelta D q a = Some t -> q1 = t) /\
    seteq (dF D) (dF answer).
  Proof.
    unfold check_product_automaton. rewrite !andb_true_iff, !forallb_forall, seteqb_seteq, eqb_eq, !subsetb_incl.
    split.
    - intros [[[[[HQ HS] Hq0] HD] HF1] HF2]. split; [|split; [exact HS|split; [exact Hq0|split]]].
      + intros q Hq. specialize (HQ q Hq). apply andb_true_iff in HQ. rewrite !mem_In in HQ. exact HQ.
      + intros q a q1 Hi t Ht. specialize (HD _ Hi). cbn beta iota in HD. rewrite Ht in HD. apply eqb_true in HD. exact HD.
      + intros q. split; [apply HF1 | apply HF2].
    - intros (HQ & HS & Hq0 & HD & HF). split; [split; [split; [split; [split|]|]|]|].
      + intros q Hq. apply andb_true_iff. rewrite !mem_In. apply HQ; exact Hq.
      + exact HS.
      + exact Hq0.
      + intros [[q a] q1] Hi. destruct (ddelta D q a) as [t|] eqn:Et; [|reflexivity].
        rewrite (HD q a q1 Hi t Et). apply eqb_refl.
      + intros q Hq. apply HF; exact Hq.
      + intros q Hq. apply HF; exact Hq.
  Qed.

  Theorem check_dfa_product_sound (ptype n : nat) (D1 : dfa A) (D2 : dfa B) (answer : dfa (A * B)) :
    dfa_wf D1 -> dfa_wf D2 -> dfa_wf answer -> check_dfa_product ptype n D1 D2 answer = true ->
    exists D, dfa_product ptype D1 D2 = Some D /\
      (forall q, In q (dQ answer) -> In (fst q) (dQ D1) /\ In (snd q) (dQ D2)) /\
      seteq (dS D1) (dS answer) /\ dq0 answer = (dq0 D1, dq0 D2) /\
      (forall q a q1, In ((q, a), q1) (dD answer) -> forall t, ddelta D q a = Some t -> q1 = t) /\
      (forall q1 q2 a t, In (((q1, q2), a), t) (dD answer) ->
         ddelta D1 q1 a = Some (fst t) /\ ddelta D2 q2 a = Some (snd t)) /\
      (forall q, In q (dF answer) <-> In (fst q) (dQ D1) /\ In (snd q) (dQ D2) /\ prod_final ptype D1 D2 q = true) /\
      (forall w, length w <= n -> Forall (fun a => In a (dS D1)) w ->
         (dfa_lang answer w <-> match ptype with
                                | 0 => dfa_lang D1 w \/ dfa_lang D2 w
                                | 1 => dfa_lang D1 w /\ dfa_lang D2 w
                                | _ => (dfa_lang D1 w /\ ~ dfa_lang D2 w) \/ (~ dfa_lang D1 w /\ dfa_lang D2 w)
                                end)).
  Proof.
    intros Hwf1 Hwf2 Hwfa Hc. unfold check_dfa_product in Hc.
    destruct (dfa_product ptype D1 D2) as [D|] eqn:EP; [|discriminate].
    destruct (dfa_words_lang D1 n Hwf1) as (L1 & EL1 & HL1).
    destruct (dfa_words_lang D2 n Hwf2) as (L2 & EL2 & HL2).
    destruct (dfa_words_lang answer n Hwfa) as (L & EL & HL).
    rewrite EL1, EL2, EL in Hc. apply andb_true_iff in Hc. destruct Hc as [Hca Hlang].
    apply check_product_automaton_spec in Hca. destruct Hca as (HQ & HS & Hq0 & HD & HF).
    destruct (dfa_product_Some _ _ _ EP) as (Hse & ES & EQ & Eq0 & EF & Hent & Hlk).
    rewrite ES in HS. rewrite Eq0 in Hq0.
    exists D. split; [reflexivity|]. split; [exact HQ|]. split; [exact HS|]. split; [exact Hq0|]. split; [exact HD|].
    split; [|split].
    - intros q1 q2 a t Hi.
      destruct Hwfa as (_ & _ & Hda & _). destruct (Hda _ _ _ Hi) as (Hq & Ha & _).
      destruct (HQ _ Hq) as [Hq1 Hq2]. cbn [fst snd] in Hq1, Hq2. apply HS in Ha.
      destruct (dfa_wf_step q1 a Hwf1 Hq1 Ha) as [E1 _].
      destruct (dfa_wf_step q2 a Hwf2 Hq2 (proj1 (Hse a) Ha)) as [E2 _].
      assert (Hst : In (q1, q2) (list_prod (dQ D1) (dQ D2))) by (apply in_prod_iff; split; assumption).
      pose proof (Hlk (q1, q2) a _ _ Hst Ha E1 E2) as Ek.
      rewrite (HD _ _ _ Hi _ Ek). cbn [fst snd]. split; assumption.
    - intros q. rewrite <- (HF q), EF, filter_In. destruct q as [q1 q2]. rewrite in_prod_iff. cbn [fst snd]. tauto.
    - intros w Hl Hw.
      assert (Hw2 : Forall (fun a => In a (dS D2)) w) by (apply (Forall_seteq Hse); exact Hw).
      assert (Hwa : Forall (fun a => In a (dS answer)) w) by (apply (Forall_seteq HS); exact Hw).
      apply lang_ok_spec in Hlang. specialize (Hlang w).
      assert (EA : In w L <-> dfa_lang answer w) by (rewrite HL; tauto).
      assert (E1 : In w L1 <-> dfa_lang D1 w) by (rewrite HL1; tauto).
      assert (E2 : In w L2 <-> dfa_lang D2 w) by (rewrite HL2; tauto).
      rewrite <- EA, Hlang. destruct ptype as [|[|k]].
      + rewrite l_union_spec, E1, E2. reflexivity.
      + rewrite l_intersection_spec, E1, E2. reflexivity.
      + rewrite l_symmetric_difference_spec, E1, E2. tauto.
  Qed.

  Theorem own_product_accepted (ptype n : nat) (D1 : dfa A) (D2 : dfa B) (D : dfa (A * B)) :
    dfa_wf D1 -> dfa_wf D2 -> dfa_product ptype D1 D2 = Some D -> check_dfa_product ptype n D1 D2 D = true.
  Proof.
    intros Hwf1 Hwf2 EP.
    destruct (dfa_product_Some _ _ _ EP) as (Hse & ES & EQ & Eq0 & EF & Hent & Hlk).
    destruct (@product_correct _ _ _ _ ptype D1 D2 Hwf1 Hwf2 Hse) as (D' & EP' & HwfD & _ & Hlang).
    rewrite EP in EP'. inversion EP'; subst D'; clear EP'.
    unfold check_dfa_product. rewrite EP.
    destruct (dfa_words_lang D1 n Hwf1) as (L1 & EL1 & HL1).
    destruct (dfa_words_lang D2 n Hwf2) as (L2 & EL2 & HL2).
    destruct (dfa_words_lang D n HwfD) as (L & EL & HL).
    rewrite EL1, EL2, EL. apply andb_true_iff. split.
    - apply check_product_automaton_spec. split; [|split; [apply seteq_refl|split; [reflexivity|split; [|apply seteq_refl]]]].
      + intros [q1 q2] Hq. rewrite EQ in Hq. apply in_prod_iff in Hq. exact Hq.
      + intros q a q1 Hi t Ht. destruct (Hent _ _ _ Hi) as (_ & _ & _ & _ & Ek). congruence.
    - apply lang_ok_spec. intros w. rewrite HL, ES.
      assert (E12 : forall w, Forall (fun a => In a (dS D1)) w <-> Forall (fun a => In a (dS D2)) w).
      { intros v. split; apply Forall_seteq; [exact Hse | intros a; symmetry; apply Hse]. }
      destruct ptype as [|[|k]].
      + rewrite l_union_spec, HL1, HL2. split.
        * intros (Hl & Hw & Hd). apply (Hlang w Hw) in Hd. pose proof (proj1 (E12 w) Hw). tauto.
        * intros [(Hl & Hw & Hd)|(Hl & Hw & Hd)]; [|apply E12 in Hw]; (split; [exact Hl|split; [exact Hw|]]);
            apply (Hlang w Hw); tauto.
      + rewrite l_intersection_spec, HL1, HL2. split.
        * intros (Hl & Hw & Hd). apply (Hlang w Hw) in Hd. pose proof (proj1 (E12 w) Hw). tauto.
        * intros [(Hl & Hw & Hd) (_ & _ & Hd2)]. split; [exact Hl|split; [exact Hw|]]. apply (Hlang w Hw); tauto.
      + rewrite l_symmetric_difference_spec, HL1, HL2. split.
        * intros (Hl & Hw & Hd). apply (Hlang w Hw) in Hd. pose proof (proj1 (E12 w) Hw). tauto.
        * intros [[(Hl & Hw & Hd) Hn]|[(Hl & Hw & Hd) Hn]]; [|apply E12 in Hw]; (split; [exact Hl|split; [exact Hw|]]);
            apply (Hlang w Hw); pose proof (proj1 (E12 w) Hw); tauto.
  Qed.
End ProductP.

(* ================================================================= CYK matrix *)
Lemma nth_map_seq {X} (f : nat -> X) (s n i : nat) (d : X) : i < n -> nth i (map f (seq s n)) d = f (s + i).
Proof.
  intros Hi. rewrite (nth_indep _ d (f 0)) by (rewrite map_length, seq_length; exact Hi).
  rewrite map_nth. rewrite seq_nth by exact Hi. reflexivity.
Qed.

(* the rows of the answer are written top-down: row k (k = 0 is the top row, the longest spans) has k+1 cells and its
   cell j is X[j, j + (n-1-k)]; in the theorem i = n-1-k is the span, so that the cell is X[j, j+i] = the set of
   variables deriving w[j..j+i] *)
Theorem check_cyk_matrix_sound (G : cfg) (w : word) (rows : list (list (list nat))) :
  is_chomsky G -> cfg_wf G -> check_cyk_matrix G w rows = true ->
  length rows = length w /\
  (forall k, k < length w -> length (nth k rows []) = S k) /\
  (forall k j A, In A (nth j (nth k rows []) []) -> In A (gV G)) /\
  forall i j, i + j < length w ->
    forall A, In A (nth j (nth (length w - 1 - i) rows []) []) <-> In A (gV G) /\ yields G (Var A) (subword w j (i + j)).
Proof.
  intros Hc Hwf Hchk. unfold check_cyk_matrix in Hchk.
  apply andb_true_iff in Hchk. destruct Hchk as [Hchk H4].
  apply andb_true_iff in Hchk. destruct Hchk as [Hchk H3].
  apply andb_true_iff in Hchk. destruct Hchk as [H1 H2].
  apply Nat.eqb_eq in H1.
  pose proof (proj1 (forallb_combine_seq _ [] rows 0) H2) as H2'. cbn [fst snd Nat.add] in H2'.
  split; [exact H1|]. split; [|split].
  - intros k Hk. apply Nat.eqb_eq. apply H2'. lia.
  - intros k j A HA. rewrite forallb_forall in H3.
    destruct (Nat.lt_ge_cases k (length rows)) as [Hk|Hk].
    + assert (Hrow : In (nth k rows []) rows) by (apply nth_In; exact Hk).
      specialize (H3 _ Hrow). rewrite forallb_forall in H3.
      destruct (Nat.lt_ge_cases j (length (nth k rows []))) as [Hj|Hj].
      * assert (Hcell : In (nth j (nth k rows []) []) (nth k rows [])) by (apply nth_In; exact Hj).
        specialize (H3 _ Hcell). apply subsetb_incl in H3. apply H3. exact HA.
      * rewrite (nth_overflow _ _ Hj) in HA. destruct HA.
    + rewrite (nth_overflow rows [] Hk) in HA. destruct j; destruct HA.
  - intros i j Hij A.
    rewrite <- (rev_length rows) in H4.
    pose proof (proj1 (forallb_combine_seq _ [] (rev rows) 0) H4 i) as H4'. cbn [Nat.add] in H4'.
    rewrite rev_length in H4'. specialize (H4' ltac:(lia)). cbn beta iota in H4'.
    rewrite rev_nth in H4' by lia.
    replace (length rows - S i) with (length w - 1 - i) in H4' by lia.
    pose proof (proj1 (forallb_combine_seq _ [] (nth (length w - 1 - i) rows []) 0) H4' j) as H5. cbn [Nat.add] in H5.
    assert (Hlen : length (nth (length w - 1 - i) rows []) = S (length w - 1 - i)).
    { apply Nat.eqb_eq. apply H2'. lia. }
    rewrite Hlen in H5. specialize (H5 ltac:(lia)). cbn beta iota in H5.
    apply seteqb_seteq in H5. rewrite (H5 A). apply cyk_cell_exact; [exact Hc | exact Hwf | lia | lia].
Qed.

(* the library's own matrix in the layout of the exercise *)
Definition cyk_rows (G : cfg) (w : word) : list (list (list nat)) :=
  map (fun i => map (fun j => cget (cyk G w) j (j + (length w - 1 - i))) (seq 0 (S i))) (seq 0 (length w)).

Theorem own_cyk_accepted (G : cfg) (w : word) : is_chomsky G -> cfg_wf G -> check_cyk_matrix G w (cyk_rows G w) = true.
Proof.
  intros Hc Hwf. unfold check_cyk_matrix.
  assert (Hlen : length (cyk_rows G w) = length w) by (unfold cyk_rows; rewrite map_length, seq_length; reflexivity).
  assert (Hrow : forall i, i < length w -> nth i (cyk_rows G w) [] =
                 map (fun j => cget (cyk G w) j (j + (length w - 1 - i))) (seq 0 (S i))).
  { intros i Hi. unfold cyk_rows. rewrite nth_map_seq by exact Hi. reflexivity. }
  apply andb_true_iff. split; [apply andb_true_iff; split; [apply andb_true_iff; split|]|].
  - rewrite Hlen. apply Nat.eqb_refl.
  - apply (forallb_combine_seq _ []). intros i Hi. cbn [fst snd Nat.add]. rewrite Hlen in Hi.
    rewrite (Hrow i Hi), map_length, seq_length. apply Nat.eqb_refl.
  - apply forallb_forall. intros row Hr. unfold cyk_rows in Hr. apply in_map_iff in Hr.
    destruct Hr as (i & <- & Hi). apply in_seq in Hi.
    apply forallb_forall. intros cell Hcell. apply in_map_iff in Hcell. destruct Hcell as (j & <- & Hj). apply in_seq in Hj.
    apply subsetb_incl. intros A HA.
    apply (cyk_cell_exact G w j (j + (length w - 1 - i)) A Hc Hwf) in HA; [tauto | lia | lia].
  - rewrite <- (rev_length (cyk_rows G w)). apply (forallb_combine_seq _ []). intros i Hi. cbn [Nat.add].
    rewrite rev_length, Hlen in Hi. rewrite rev_nth by (rewrite Hlen; exact Hi). rewrite Hlen.
    rewrite (Hrow (length w - S i)) by lia.
    apply (forallb_combine_seq _ []). intros j Hj. cbn [Nat.add]. rewrite map_length, seq_length in Hj.
    rewrite nth_map_seq by exact Hj. cbn [Nat.add].
    replace (j + (length w - 1 - (length w - S i))) with (i + j) by lia. apply seteqb_refl.
Qed.

(* ================================================================= derivations *)
Definition sym_ok (G : cfg) (s : sym) : Prop := if is_var s then In (sname s) (gV G) else In (sname s) (gSg G).

Lemma split_all_spec (x : list sym) : forall pre p A post,
  In (p, A, post) (split_all pre x) <-> exists u, x = u ++ Var A :: post /\ p = pre ++ u.
Proof.
  induction x as [|[b k] x IH]; intros pre p A post; cbn [split_all].
  - split; [intros [] | intros (u & E & _); destruct u; discriminate].
  - rewrite in_app_iff, IH. unfold is_var, sname. cbn [fst snd]. split.
    + intros [Hi|(u & Ex & Ep)].
      * destruct b; [|destruct Hi]. destruct Hi as [Hi|[]]. inversion Hi; subst.
        exists []. split; [reflexivity | rewrite app_nil_r; reflexivity].
      * exists ((b, k) :: u). split; [cbn [app]; rewrite Ex; reflexivity | rewrite Ep, <- app_assoc; reflexivity].
    + intros (u & Ex & Ep). destruct u as [|s u]; cbn [app] in Ex.
      * inversion Ex; subst. left. left. rewrite app_nil_r. reflexivity.
      * inversion Ex; subst. right. exists u. split; [reflexivity | rewrite <- app_assoc; reflexivity].
Qed.

(* mode >= 2: some variable occurrence is rewritten by a rule *)
Lemma cfg_has_derivation_any (G : cfg) (k : nat) (x y : list sym) : cfg_has_derivation G (S (S k)) x y = true <->
  exists pre A post rhs, x = pre ++ Var A :: post /\ y = pre ++ rhs ++ post /\ has_rule G A rhs.
Proof.
  cbn [cfg_has_derivation]. rewrite existsb_exists. split.
  - intros ([[pre A] post] & Hi & He). apply split_all_spec in Hi. destruct Hi as (u & Ex & Ep). cbn [app] in Ep. subst pre.
    apply rule_existsb_spec in He. destruct He as (rhs & Hr & Ey). exists u, A, post, rhs. auto.
  - intros (pre & A & post & rhs & Ex & Ey & Hr). exists (pre, A, post). split.
    + apply split_all_spec. exists pre. auto.
    + apply rule_existsb_spec. exists rhs. auto.
Qed.

Lemma cfg_has_derivation_spec (G : cfg) (mode : nat) (x y : list sym) : cfg_has_derivation G mode x y = true ->
  exists pre A post rhs, x = pre ++ Var A :: post /\ y = pre ++ rhs ++ post /\ has_rule G A rhs /\
    (mode = 0 -> all_terminals pre = true) /\ (mode = 1 -> all_terminals post = true).
Proof.
  destruct mode as [|[|k]]; intros Hs.
  - cbn [cfg_has_derivation] in Hs. apply deriv_step_ok_leftmost in Hs.
    destruct Hs as (pre & A & post & rhs & Ex & Ey & Hr & Hp). exists pre, A, post, rhs.
    split; [exact Ex|]. split; [exact Ey|]. split; [exact Hr|]. split; [intros _; exact Hp | discriminate].
  - cbn [cfg_has_derivation] in Hs. apply deriv_step_ok_rightmost in Hs; [|discriminate].
    destruct Hs as (pre & A & post & rhs & Ex & Ey & Hr & Hp). exists pre, A, post, rhs.
    split; [exact Ex|]. split; [exact Ey|]. split; [exact Hr|]. split; [discriminate | intros _; exact Hp].
  - apply cfg_has_derivation_any in Hs. destruct Hs as (pre & A & post & rhs & Ex & Ey & Hr). exists pre, A, post, rhs.
    split; [exact Ex|]. split; [exact Ey|]. split; [exact Hr|]. split; discriminate.
Qed.

Lemma step_chain_derives (G : cfg) (step : list sym -> list sym -> bool) :
  (forall x y, step x y = true -> exists pre A post rhs, x = pre ++ Var A :: post /\ y = pre ++ rhs ++ post /\ has_rule G A rhs) ->
  forall l x, chain_ok step (x :: l) = true -> derives G x (last (x :: l) x).
Proof.
  intros Hstep. induction l as [|y l IH]; intros x Hc.
  - cbn [last]. constructor.
  - rewrite chain_ok_cons in Hc. apply andb_true_iff in Hc. destruct Hc as [Hs Hc].
    rewrite last_cons_cons, (last_default y l x y).
    destruct (Hstep _ _ Hs) as (pre & A & post & rhs & -> & Ey & Hr).
    eapply d_step; [exact Hr|]. rewrite <- Ey. apply IH. exact Hc.
Qed.

Lemma chain_ok_mono {X} (s1 s2 : X -> X -> bool) : (forall x y, s1 x y = true -> s2 x y = true) ->
  forall l, chain_ok s1 l = true -> chain_ok s2 l = true.
Proof.
  intros Hm. induction l as [|x l IH]; [reflexivity|]. destruct l as [|y l]; [reflexivity|].
  rewrite !chain_ok_cons, !andb_true_iff. intros [Hs Hc]. split; [apply Hm; exact Hs | apply IH; exact Hc].
Qed.

Lemma chain_ok_nth_all {X} (step : X -> X -> bool) (d : X) : forall l, chain_ok step l = true ->
  forall i, S i < length l -> step (nth i l d) (nth (S i) l d) = true.
Proof. intros l Hc i Hi. apply chain_ok_nth; assumption. Qed.

Theorem check_cfg_derivation_sound (G : cfg) (mode : nat) (w : word) (steps : list (list sym)) :
  check_cfg_derivation G mode w steps = true ->
  hd_error steps = Some [Var (gS G)] /\ last steps [] = tword w /\
  (forall x s, In x steps -> In s x -> sym_ok G s) /\
  (forall i, S i < length steps ->
     exists pre A post rhs, nth i steps [] = pre ++ Var A :: post /\ nth (S i) steps [] = pre ++ rhs ++ post /\
       has_rule G A rhs /\ (mode = 0 -> all_terminals pre = true) /\ (mode = 1 -> all_terminals post = true)) /\
  cfg_lang G w.
Proof.
  unfold check_cfg_derivation. destruct steps as [|x0 l]; [discriminate|]. intros Hok.
  apply andb_true_iff in Hok. destruct Hok as [Hok El]. apply andb_true_iff in Hok. destruct Hok as [Hok Hc].
  apply andb_true_iff in Hok. destruct Hok as [Hsym E0].
  apply eqb_true in E0. apply eqb_true in El. subst x0.
  split; [reflexivity|]. split; [rewrite (last_default [Var (gS G)] l [] [Var (gS G)]); exact El|].
  split; [|split].
  - intros x s Hx Hs. rewrite forallb_forall in Hsym. specialize (Hsym x Hx). rewrite forallb_forall in Hsym.
    specialize (Hsym s Hs). unfold sym_ok. destruct (is_var s); apply mem_In; exact Hsym.
  - intros i Hi. apply cfg_has_derivation_spec. apply chain_ok_nth; assumption.
  - unfold cfg_lang. rewrite <- El. apply step_chain_derives with (step := cfg_has_derivation G mode); [|exact Hc].
    intros x y Hs. destruct (cfg_has_derivation_spec _ _ _ _ Hs) as (pre & A & post & rhs & Ex & Ey & Hr & _).
    exists pre, A, post, rhs. auto.
Qed.

(* ---- the library's own derivations (cfg_derive_word, checked by derivation_ok in C15) are accepted ---- *)
Lemma deriv_step_ok_split (G : cfg) (mode : nat) (x y : list sym) : deriv_step_ok G mode x y = true ->
  exists pre A post rhs, x = pre ++ Var A :: post /\ y = pre ++ rhs ++ post /\ has_rule G A rhs.
Proof.
  intros Hs. destruct (Nat.eq_dec mode 0) as [->|Hm].
  - apply deriv_step_ok_leftmost in Hs. destruct Hs as (pre & A & post & rhs & Ex & Ey & Hr & _). exists pre, A, post, rhs. auto.
  - apply (deriv_step_ok_rightmost G mode x y Hm) in Hs.
    destruct Hs as (pre & A & post & rhs & Ex & Ey & Hr & _). exists pre, A, post, rhs. auto.
Qed.

Lemma deriv_chain_sym_ok (G : cfg) (mode : nat) : cfg_wf G -> forall l x, (forall s, In s x -> sym_ok G s) ->
  chain_ok (deriv_step_ok G mode) (x :: l) = true -> forall y s, In y (x :: l) -> In s y -> sym_ok G s.
Proof.
  intros Hwf. induction l as [|z l IH]; intros x Hx Hc y s Hy Hs.
  - destruct Hy as [<-|[]]. apply Hx; exact Hs.
  - rewrite chain_ok_cons in Hc. apply andb_true_iff in Hc. destruct Hc as [Hst Hc].
    destruct Hy as [<-|Hy]; [apply Hx; exact Hs|].
    apply (IH z) with (y := y); [|exact Hc|exact Hy|exact Hs].
    intros s' Hs'. destruct (deriv_step_ok_split _ _ _ _ Hst) as (pre & A & post & rhs & Ex & Ez & (r & Hr & Ev & Er)).
    subst x z. rewrite !in_app_iff in Hs'. destruct Hs' as [Hs'|[Hs'|Hs']].
    + apply Hx. rewrite in_app_iff. left; exact Hs'.
    + destruct (Hwf r Hr) as [_ Hrhs]. subst rhs. apply Hrhs. exact Hs'.
    + apply Hx. rewrite in_app_iff. right; right; exact Hs'.
Qed.

Lemma own_derivation_symbols (G : cfg) (mode : nat) (w : word) (steps : list (list sym)) :
  cfg_wf G -> In (gS G) (gV G) -> derivation_ok G mode w steps = true ->
  forallb (fun x => forallb (fun s => if is_var s then mem (sname s) (gV G) else mem (sname s) (gSg G)) x) steps = true.
Proof.
  intros Hwf HS Hok. unfold derivation_ok in Hok. destruct steps as [|x0 l]; [discriminate|].
  apply andb_true_iff in Hok. destruct Hok as [Hok _]. apply andb_true_iff in Hok. destruct Hok as [E0 Hc].
  apply eqb_true in E0. subst x0.
  apply forallb_forall. intros y Hy. apply forallb_forall. intros s Hs.
  assert (Hok : sym_ok G s).
  { apply (@deriv_chain_sym_ok G mode Hwf l [Var (gS G)]) with (y := y); [|exact Hc|exact Hy|exact Hs].
    intros s' [<-|[]]. exact HS. }
  unfold sym_ok in Hok. destruct (is_var s); apply mem_In; exact Hok.
Qed.

(* leftmost derivations are accepted in mode 0, rightmost derivations in mode 1 *)
Theorem own_derivation_accepted (G : cfg) (mode : nat) (w : word) (steps : list (list sym)) :
  mode <= 1 -> cfg_wf G -> In (gS G) (gV G) -> derivation_ok G mode w steps = true ->
  check_cfg_derivation G mode w steps = true.
Proof.
  intros Hm Hwf HS Hok. pose proof (@own_derivation_symbols G mode w steps Hwf HS Hok) as Hsym.
  unfold check_cfg_derivation. unfold derivation_ok in Hok. destruct steps as [|x0 l]; [discriminate|].
  rewrite Hsym. cbn [andb].
  assert (E : cfg_has_derivation G mode = deriv_step_ok G mode) by (destruct mode as [|[|k]]; [reflexivity | reflexivity | lia]).
  rewrite E. exact Hok.
Qed.

(* both kinds are accepted when any derivation is asked for (mode 2) *)
Theorem own_derivation_accepted_any (G : cfg) (m k : nat) (w : word) (steps : list (list sym)) :
  cfg_wf G -> In (gS G) (gV G) -> derivation_ok G m w steps = true ->
  check_cfg_derivation G (S (S k)) w steps = true.
Proof.
  intros Hwf HS Hok. pose proof (@own_derivation_symbols G m w steps Hwf HS Hok) as Hsym.
  unfold check_cfg_derivation. unfold derivation_ok in Hok. destruct steps as [|x0 l]; [discriminate|].
  rewrite Hsym. cbn [andb].
  apply andb_true_iff in Hok. destruct Hok as [Hok El]. apply andb_true_iff in Hok. destruct Hok as [E0 Hc].
  rewrite E0, El. cbn [andb]. rewrite andb_true_r.
  apply (chain_ok_mono (deriv_step_ok G m)); [|exact Hc].
  intros x y Hs. apply cfg_has_derivation_any. apply (deriv_step_ok_split _ _ _ _ Hs).
Qed.

(* ================================================================= reverse *)
Section ReverseP.
  Context {A : Type} `{Eqb A}.

  Theorem check_dfa_reverse_sound (n : nat) (D : dfa A) (answer : nfa A) : check_dfa_reverse n D answer = true ->
    seteq (dS D) (nS answer) /\ incl (dQ D) (nQ answer) /\
    (forall q a q1, In ((q, a), q1) (dD D) -> In q (ndelta answer q1 a)) /\
    ~ In (nq0 answer) (dQ D) /\ (forall q, In q (nF answer) <-> q = dq0 D) /\
    (dfa_wf D -> nfa_wf answer ->
     forall w, length w <= n -> Forall (fun a => In a (dS D)) w -> (nfa_lang answer w <-> dfa_lang D (rev w))).
  Proof.
    unfold check_dfa_reverse. rewrite !andb_true_iff. intros [[[[[HS HQ] HD] Hq0] HF] HL].
    apply seteqb_seteq in HS. apply subsetb_incl in HQ. rewrite forallb_forall in HD.
    apply negb_true_iff, mem_nIn in Hq0. apply seteqb_seteq in HF.
    split; [exact HS|]. split; [exact HQ|]. split; [|split; [exact Hq0|split]].
    - intros q a q1 Hi. specialize (HD _ Hi). cbn beta iota in HD. apply mem_In. exact HD.
    - intros q. rewrite (HF q). cbn [In]. split; [intros [E|[]]; symmetry; exact E | intros ->; left; reflexivity].
    - intros HwfD HwfN w Hl Hw.
      destruct (nfa_words_lang answer n HwfN) as (L1 & EL1 & HL1).
      destruct (dfa_words_lang D n HwfD) as (L2 & EL2 & HL2).
      rewrite EL1, EL2 in HL. apply lang_ok_spec in HL. specialize (HL w).
      rewrite l_reverse_spec, HL1, HL2, rev_length in HL.
      assert (Hwa : Forall (fun a => In a (nS answer)) w) by (apply (Forall_seteq HS); exact Hw).
      assert (Hwr : Forall (fun a => In a (dS D)) (rev w)).
      { rewrite Forall_forall in *. intros a Ha. apply Hw. apply in_rev. exact Ha. }
      tauto.
  Qed.

  Theorem own_reverse_accepted (fresh : A) (eps n : nat) (D : dfa A) (N : nfa A) :
    dfa_wf D -> NoDup (map fst (dD D)) -> ~ In fresh (dQ D) -> dfa_reverse fresh eps D = Some N ->
    check_dfa_reverse n D N = true.
  Proof.
    intros Hwf Hnd Hfresh EN.
    assert (Heps : ~ In eps (dS D)).
    { unfold dfa_reverse in EN. destruct (mem eps (dS D)) eqn:E; [discriminate|]. apply mem_nIn. exact E. }
    destruct (@reverse_correct _ _ fresh eps D Hwf Hnd Hfresh Heps) as (N' & EN' & HwfN & ES & Eq0 & Hlang).
    rewrite EN in EN'. inversion EN'; subst N'; clear EN'.
    assert (EN2 : N = rvN fresh eps D).
    { unfold dfa_reverse in EN. destruct (mem eps (dS D)); [discriminate|]. inversion EN. reflexivity. }
    unfold check_dfa_reverse.
    destruct (nfa_words_lang N n HwfN) as (L1 & EL1 & HL1).
    destruct (dfa_words_lang D n Hwf) as (L2 & EL2 & HL2).
    rewrite EL1, EL2. rewrite !andb_true_iff. split; [split; [split; [split; [split|]|]|]|].
    - rewrite ES. apply seteqb_refl.
    - apply subsetb_incl. intros q Hq. rewrite EN2. cbn [rvN nQ]. apply add_In. right; exact Hq.
    - apply forallb_forall. intros [[q a] q1] Hi. apply mem_In. rewrite EN2.
      apply (@rv_delta0 _ _ fresh eps D q1 a q Hfresh). left.
      destruct Hwf as (_ & _ & Hd & _). destruct (Hd _ _ _ Hi) as (_ & Ha & Hq1).
      split; [exact Hq1|]. split; [exact Ha|]. apply rv_src_In. exact Hi.
    - apply negb_true_iff, mem_nIn. rewrite Eq0. exact Hfresh.
    - rewrite EN2. cbn [rvN nF]. apply seteqb_refl.
    - apply lang_ok_spec. intros w. rewrite l_reverse_spec, HL1, HL2, rev_length, ES.
      assert (Hrev : Forall (fun a => In a (dS D)) w <-> Forall (fun a => In a (dS D)) (rev w)).
      { rewrite !Forall_forall. split; intros Hf a Ha; apply Hf; [rewrite in_rev; exact Ha | rewrite <- in_rev; exact Ha]. }
      split.
      + intros (Hl & Hw & Hd). split; [exact Hl|]. split; [apply Hrev; exact Hw | apply (Hlang w Hw); exact Hd].
      + intros (Hl & Hw & Hd). apply Hrev in Hw. split; [exact Hl|]. split; [exact Hw | apply (Hlang w Hw); exact Hd].
  Qed.
End ReverseP.

(* ================================================================= minimal *)
Lemma hd_error_rep (l : list nat) : l <> [] -> exists x, hd_error l = Some x /\ In x l.
Proof. destruct l as [|x l]; [congruence|]. intros _. exists x. split; [reflexivity | left; reflexivity]. Qed.

Lemma canon_nat_In' (l : list nat) (y : nat) : In y (canon_nat l) <-> In y l.
Proof. apply canon_nat_In. Qed.

Lemma id_perm (l : list nat) : Permutation ((fun l : list nat => l) l) l.
Proof. apply Permutation_refl. Qed.

Theorem check_dfa_minimal_sound {B} `{Eqb B} (n : nat) (D : dfa nat) (answer : dfa B) :
  check_dfa_minimal n D answer = true ->
  exists Dq, dfa_quotient canon_nat (fun l => l) (@hd_error nat) D = Some Dq /\
    seteq (dS Dq) (dS answer) /\ length (dedup (dQ Dq)) = length (dedup (dQ answer)) /\
    (dfa_wf D -> NoDup (dQ D) -> NoDup (dF D) -> dfa_wf answer ->
       min_spec D Dq /\ seteq (dS D) (dS answer) /\ length (dedup (dQ answer)) = length (dQ Dq) /\
       (forall w, length w <= n -> Forall (fun a => In a (dS D)) w -> (dfa_lang answer w <-> dfa_lang D w))).
Proof.
  unfold check_dfa_minimal.
  destruct (dfa_quotient canon_nat (fun l => l) (@hd_error nat) D) as [Dq|] eqn:EQ; [|discriminate].
  rewrite !andb_true_iff. intros [[HS Hlen] HL]. apply seteqb_seteq in HS. apply Nat.eqb_eq in Hlen.
  exists Dq. split; [reflexivity|]. split; [exact HS|]. split; [exact Hlen|].
  intros HwfD HndQ HndF Hwfa.
  destruct (@dfa_quotient_spec nat _ canon_nat canon_nat_In' (fun l => l) (@hd_error nat) id_perm hd_error_rep D HwfD HndQ HndF)
    as (Dq' & EQ' & Hms).
  rewrite EQ in EQ'. inversion EQ'; subst Dq'; clear EQ'.
  pose proof Hms as (HwfQ & ESq & HndDq & HlangQ & _).
  rewrite ESq in HS.
  split; [exact Hms|]. split; [exact HS|]. split; [rewrite <- Hlen, (NoDup_dedup HndDq); reflexivity|].
  intros w Hl Hw.
  destruct (dfa_words_lang answer n Hwfa) as (L1 & EL1 & HL1).
  destruct (dfa_words_lang Dq n HwfQ) as (L2 & EL2 & HL2).
  rewrite EL1, EL2 in HL. apply lang_ok_spec in HL. specialize (HL w). rewrite HL1, HL2, ESq in HL.
  assert (Hwa : Forall (fun a => In a (dS answer)) w) by (apply (Forall_seteq HS); exact Hw).
  rewrite <- (HlangQ w Hw). tauto.
Qed.

(* with every state of D reachable, an accepted answer has the least number of states among all DFAs for the language *)
Theorem check_dfa_minimal_least {B C} `{Eqb B} `{Eqb C} (n : nat) (D : dfa nat) (answer : dfa B) (D2 : dfa C) :
  check_dfa_minimal n D answer = true -> dfa_wf D -> NoDup (dQ D) -> NoDup (dF D) -> dfa_wf answer ->
  (forall q, In q (dQ D) -> exists w, over D w /\ drun D (dq0 D) w = q) ->
  dfa_wf D2 -> dS D2 = dS D -> (forall w, over D w -> (dfa_lang D w <-> dfa_lang D2 w)) ->
  length (dedup (dQ answer)) <= length (dQ D2).
Proof.
  intros Hc HwfD HndQ HndF Hwfa Hreach Hwf2 ES2 HL2.
  destruct (check_dfa_minimal_sound _ _ _ Hc) as (Dq & _ & _ & _ & Hrest).
  destruct (Hrest HwfD HndQ HndF Hwfa) as (Hms & _ & Elen & _). rewrite Elen.
  apply (@min_spec_minimal nat _ D Dq C _ D2 HwfD HndQ Hms Hreach Hwf2 ES2 HL2).
Qed.

Theorem own_minimal_accepted (n : nat) (D : dfa nat) (Dq : dfa (list nat)) :
  dfa_wf D -> NoDup (dQ D) -> NoDup (dF D) ->
  dfa_quotient canon_nat (fun l => l) (@hd_error nat) D = Some Dq -> check_dfa_minimal n D Dq = true.
Proof.
  intros HwfD HndQ HndF EQ.
  destruct (@dfa_quotient_spec nat _ canon_nat canon_nat_In' (fun l => l) (@hd_error nat) id_perm hd_error_rep D HwfD HndQ HndF)
    as (Dq' & EQ' & Hms).
  rewrite EQ in EQ'. inversion EQ'; subst Dq'; clear EQ'.
  destruct Hms as (HwfQ & _).
  unfold check_dfa_minimal. rewrite EQ, seteqb_refl, Nat.eqb_refl.
  destruct (dfa_words_lang Dq n HwfQ) as (L & EL & _). rewrite EL, lang_ok_refl. reflexivity.
Qed.

(* two automata satisfying min_spec for the same D have the same number of states *)
Lemma mn_equiv_refl {A} `{Eqb A} (D : dfa A) p : mn_equiv D p p.
Proof. intros w _. reflexivity. Qed.

Lemma min_spec_count_le {A} `{Eqb A} (D : dfa A) (D1 D2 : dfa (list A)) :
  dfa_wf D -> NoDup (dQ D) -> min_spec D D1 -> min_spec D D2 -> length (dQ D1) <= length (dQ D2).
Proof.
  intros Hwf Hnd Hm1 Hm2.
  destruct (@min_spec_count_bounds _ _ D D2 Hwf Hnd Hm2) as [Hbound _].
  pose proof Hm1 as (_ & _ & Hnd1 & _ & _ & Hne1 & _ & _ & Hsep1).
  (* one representative per block of D1 *)
  assert (Hreps : forall Q, incl Q (dQ D1) -> NoDup Q ->
            exists l, length l = length Q /\ NoDup l /\ incl l (dQ D) /\
                      (forall p, In p l -> exists S1, In S1 Q /\ In p S1) /\
                      (forall p q, In p l -> In q l -> p <> q -> ~ mn_equiv D p q)).
  { induction Q as [|S1 Q IH]; intros Hi HndQ.
    - exists []. split; [reflexivity|]. split; [constructor|]. split; [intros x []|]. split; [intros p []|intros p q []].
    - inversion HndQ as [|y ys Hnin HndQ']; subst.
      destruct IH as (l & El & Hndl & Hil & Hl & Hsep); [intros x Hx; apply Hi; right; exact Hx | exact HndQ'|].
      assert (HS1 : In S1 (dQ D1)) by (apply Hi; left; reflexivity).
      destruct (Hne1 S1 HS1) as [Hne Hinc]. destruct S1 as [|p S1']; [congruence|].
      assert (Hnew : forall x, In x l -> ~ mn_equiv D p x /\ ~ mn_equiv D x p).
      { intros x Hx. destruct (Hl x Hx) as (S2 & HS2 & Hx2).
        assert (HS2' : In S2 (dQ D1)) by (apply Hi; right; exact HS2).
        split; intros Heq.
        - assert (E : p :: S1' = S2) by (apply (Hsep1 (p :: S1') S2 p x HS1 HS2'); [left; reflexivity | exact Hx2 | exact Heq]).
          subst S2. contradiction.
        - assert (E : S2 = p :: S1') by (apply (Hsep1 S2 (p :: S1') x p HS2' HS1); [exact Hx2 | left; reflexivity | exact Heq]).
          subst S2. contradiction. }
      exists (p :: l). split; [cbn [length]; rewrite El; reflexivity|]. split; [|split; [|split]].
      + constructor; [|exact Hndl]. intros Hp. destruct (Hnew p Hp) as [Hn _]. apply Hn. apply mn_equiv_refl.
      + intros x [<-|Hx]; [apply Hinc; left; reflexivity | apply Hil; exact Hx].
      + intros x [<-|Hx]; [exists (p :: S1'); split; [left; reflexivity | left; reflexivity]|].
        destruct (Hl x Hx) as (S2 & HS2 & Hx2). exists S2. split; [right; exact HS2 | exact Hx2].
      + intros x y [<-|Hx] [<-|Hy] Hxy.
        * congruence.
        * apply (Hnew y Hy).
        * apply (Hnew x Hx).
        * apply Hsep; assumption. }
  destruct (Hreps (dQ D1) (incl_refl _) Hnd1) as (l & El & Hndl & Hil & _ & Hsep).
  rewrite <- El. apply Hbound; [exact Hndl | exact Hil | exact Hsep].
Qed.

(* the Hopcroft result (for any admissible iteration order and pick) is accepted as well *)
Theorem own_hopcroft_accepted (n : nat) (ordB : list (list nat) -> list (list nat)) (pick : picker (list nat * nat))
  (D : dfa nat) (Dh : dfa (list nat)) :
  (forall l, Permutation (ordB l) l) -> picker_ok pick ->
  dfa_wf D -> NoDup (dQ D) -> NoDup (dF D) ->
  dfa_hopcroft canon_nat ordB pick D = Some Dh -> check_dfa_minimal n D Dh = true.
Proof.
  intros Hord Hpick HwfD HndQ HndF EH.
  destruct (@dfa_quotient_spec nat _ canon_nat canon_nat_In' (fun l => l) (@hd_error nat) id_perm hd_error_rep D HwfD HndQ HndF)
    as (Dq & EQ & Hmq).
  destruct (@dfa_hopcroft_spec nat _ canon_nat canon_nat_In' ordB pick Hord Hpick D HwfD HndQ HndF) as (Dh' & EH' & Hmh).
  rewrite EH in EH'. inversion EH'; subst Dh'; clear EH'.
  pose proof (@min_spec_count_le _ _ D Dq Dh HwfD HndQ Hmq Hmh) as Hle1.
  pose proof (@min_spec_count_le _ _ D Dh Dq HwfD HndQ Hmh Hmq) as Hle2.
  pose proof Hmq as (HwfQ & ESq & HndDq & HlangQ & _).
  pose proof Hmh as (HwfH & ESh & HndDh & HlangH & _).
  unfold check_dfa_minimal. rewrite EQ.
  destruct (dfa_words_lang Dq n HwfQ) as (L2 & EL2 & HL2).
  destruct (dfa_words_lang Dh n HwfH) as (L1 & EL1 & HL1).
  rewrite EL1, EL2. rewrite !andb_true_iff. split; [split|].
  - rewrite ESq, ESh. apply seteqb_refl.
  - apply Nat.eqb_eq. rewrite (NoDup_dedup HndDq), (NoDup_dedup HndDh). lia.
  - apply lang_ok_spec. intros w. rewrite HL1, HL2, ESq, ESh. split.
    + intros (Hl & Hw & Hd). split; [exact Hl|]. split; [exact Hw|]. apply (HlangQ w Hw). apply (HlangH w Hw). exact Hd.
    + intros (Hl & Hw & Hd). split; [exact Hl|]. split; [exact Hw|]. apply (HlangH w Hw). apply (HlangQ w Hw). exact Hd.
Qed.

(* ================================================================= NFA to DFA *)
Theorem check_nfa_to_dfa_sound (N : nfa nat) (answer : nfa (list nat)) : check_nfa_to_dfa N answer = true ->
  nQ answer <> [] /\ seteq (nS N) (nS answer) /\
  (forall q, In q (nQ answer) -> incl q (nQ N)) /\
  seteq (nq0 answer) (eclose N [nq0 N]) /\
  (forall q, In q (nQ answer) -> (In q (nF answer) <-> exists x, In x q /\ In x (nF N))) /\
  (forall q a, In q (nQ answer) -> In a (nS answer) ->
     exists q1, ndelta answer q a = [q1] /\ seteq q1 (eclose N (big_union (map (fun x => ndelta N x a) q)))) /\
  (nfa_wf N ->
     (forall x, In x (nq0 answer) <-> eps_star N (nq0 N) x) /\
     (forall q a q1, In q (nQ answer) -> In a (nS answer) -> In q1 (ndelta answer q a) ->
        forall p, In p q1 <-> exists x x1, In x q /\ In x1 (ndelta N x a) /\ eps_star N x1 p)).
Proof.
  unfold check_nfa_to_dfa. rewrite !andb_true_iff. intros [[[[[HQ HS] Hsub] Hq0] HF] HD].
  apply seteqb_seteq in HS. apply seteqb_seteq in Hq0. rewrite forallb_forall in Hsub, HF, HD.
  assert (Hsub' : forall q, In q (nQ answer) -> incl q (nQ N)).
  { intros q Hq. apply subsetb_incl. apply Hsub. exact Hq. }
  assert (HD' : forall q a, In q (nQ answer) -> In a (nS answer) ->
     exists q1, ndelta answer q a = [q1] /\ seteq q1 (eclose N (big_union (map (fun x => ndelta N x a) q)))).
  { intros q a Hq Ha. specialize (HD q Hq). rewrite forallb_forall in HD. specialize (HD a Ha).
    destruct (ndelta answer q a) as [|q1 [|q2 r]]; try discriminate.
    exists q1. split; [reflexivity|]. apply seteqb_seteq. exact HD. }
  split; [destruct (nQ answer); [discriminate HQ | discriminate]|].
  split; [exact HS|]. split; [exact Hsub'|]. split; [exact Hq0|]. split; [|split; [exact HD'|]].
  - intros q Hq. specialize (HF q Hq). apply Bool.eqb_prop in HF.
    rewrite <- mem_In, HF. apply meetsb_spec.
  - intros Hwf. split.
    + intros x. rewrite (Hq0 x).
      assert (Hi0 : incl [nq0 N] (nQ N)) by (intros y [<-|[]]; destruct Hwf as [Hin0 _]; exact Hin0).
      rewrite (eclose_spec N [nq0 N] Hwf Hi0).
      split; [intros (s & [<-|[]] & Hs); exact Hs | intros Hs; exists (nq0 N); split; [left; reflexivity | exact Hs]].
    + intros q a q1 Hq Ha Hq1 p. destruct (HD' q a Hq Ha) as (q1' & E & Hse). rewrite E in Hq1.
      destruct Hq1 as [<-|[]]. rewrite (Hse p).
      assert (Hinc : incl (big_union (map (fun x => ndelta N x a) q)) (nQ N)).
      { intros y Hy. apply big_union_In in Hy. destruct Hy as (l & Hl & Hy). apply in_map_iff in Hl.
        destruct Hl as (x & <- & _). apply (ndelta_wf N x a Hwf). exact Hy. }
      rewrite (eclose_spec N _ Hwf Hinc). split.
      * intros (s & Hs & Hst). apply big_union_In in Hs. destruct Hs as (l & Hl & Hs). apply in_map_iff in Hl.
        destruct Hl as (x & <- & Hx). exists x, s. auto.
      * intros (x & x1 & Hx & Hx1 & Hst). exists x1. split; [|exact Hst].
        apply big_union_In. exists (ndelta N x a). split; [apply in_map_iff; exists x; auto | exact Hx1].
Qed.

(* the library's DFA presented the way the exercise asks for it: as an automaton text whose state labels are sets *)
Definition dfa_as_nfa {A} `{Eqb A} (eps : nat) (D : dfa A) : nfa A :=
  mkNFA (dQ D) (dS D) (map (fun e => (fst e, [snd e])) (dD D)) (dq0 D) (dF D) eps.

Lemma dfa_as_nfa_delta {A} `{Eqb A} (eps : nat) (D : dfa A) q a :
  ndelta (dfa_as_nfa eps D) q a = match ddelta D q a with Some q1 => [q1] | None => [] end.
Proof.
  unfold ndelta, ddelta, dfa_as_nfa. cbn [nD].
  rewrite (lookup_map_val (fun v : A => [v]) (q, a) (dD D)). destruct (lookup (q, a) (dD D)); reflexivity.
Qed.

Theorem own_nfa2dfa_accepted (eps : nat) (N : nfa nat) (D : dfa (list nat)) :
  nfa_wf N -> nfa_det N = Some D -> check_nfa_to_dfa N (dfa_as_nfa eps D) = true.
Proof.
  intros Hwf E. unfold nfa_det in E. rewrite to_dfa_unfold in E.
  destruct (n2d_loop canon_nat N (S (2 ^ length (nQ N))) (st0 canon_nat N)) as [[[Q delta] F]|] eqn:El; [|discriminate].
  inversion E; subst D; clear E.
  destruct (st0_inv canon_nat N Hwf) as [HC0 HR0].
  destruct (loop_inv canon_nat N Hwf _ _ _ _ _ HC0 HR0 El) as [HC HR].
  pose proof HC as (C1 & _ & _ & C4 & _ & C6 & _).
  unfold check_nfa_to_dfa. cbn [dfa_as_nfa nQ nS nq0 nF dQ dS dq0 dF].
  rewrite !andb_true_iff. split; [split; [split; [split; [split|]|]|]|].
  - destruct Q; [destruct C1 | reflexivity].
  - apply seteqb_refl.
  - apply forallb_forall. intros X HX. apply subsetb_incl. destruct (C4 X HX) as (Y & HY & ->).
    intros y Hy. rewrite canon_nat_In in Hy. apply HY. exact Hy.
  - apply seteqb_seteq. intros y. unfold Q0. apply canon_nat_In.
  - apply forallb_forall. intros X HX. rewrite Bool.eqb_true_iff.
    destruct (meetsb X (nF N)) eqn:Em.
    + apply mem_In. apply C6. split; assumption.
    + apply mem_nIn. intros Hc. apply C6 in Hc. destruct Hc as [_ Hc]. congruence.
  - apply forallb_forall. intros X HX. apply forallb_forall. intros a Ha.
    rewrite dfa_as_nfa_delta. destruct (final_delta canon_nat N Q delta F HC HR X a HX Ha) as [Ed _].
    rewrite Ed. apply seteqb_seteq. intros y. unfold T. apply canon_nat_In.
Qed.

(* ================================================================= own word lists *)
Theorem own_words_accepted (L : list word) (nstates max_states : nat) :
  max_states = 0 \/ nstates <= max_states -> check_language_from_words L nstates max_states L = true.
Proof. intros Hm. apply check_language_from_words_spec. split; [exact Hm | apply seteq_refl]. Qed.

Theorem own_accepts_rejects_accepted (va vr : list bool) :
  Forall (fun b => b = true) va -> Forall (fun b => b = false) vr -> check_accepts_rejects va vr = true.
Proof. intros Ha Hr. apply check_accepts_rejects_sound. split; assumption. Qed.

(* ================================================================= Chomsky phases *)
Theorem check_chomsky_sound (ordV : list nat -> list nat) (stream : list nat) (G G1 : cfg) (phase start n : nat) :
  check_chomsky ordV stream G G1 phase start n = true ->
  (1 <= phase -> gS G1 = start) /\
  (2 <= phase -> forall r, In r (gR G1) -> rrhs r = [] -> rvar r = gS G1) /\
  (3 <= phase -> forall r, In r (gR G1) -> is_unit r = false) /\
  (4 <= phase -> forall r, In r (gR G1) -> length (rrhs r) <= 2) /\
  (5 <= phase -> forall r, In r (gR G1) -> alt_is_chomsky (rrhs r) = true) /\
  ((forall l, Permutation (ordV l) l) ->
   cfg_wf G -> (forall x, In x (gV G) -> ~ In x (gSg G)) -> In (gS G) (gV G) -> (forall x, In x stream -> ~ In x (gSg G)) ->
   cfg_wf G1 -> (forall x, In x (gV G1) -> ~ In x (gSg G1)) -> In (gS G1) (gV G1) -> (forall x, In x stream -> ~ In x (gSg G1)) ->
   forall w, length w <= n -> (cfg_lang G1 w <-> cfg_lang G w)).
Proof.
  unfold check_chomsky.
  destruct (cfg_words ordV stream G1 n) as [A1|] eqn:E1; [|discriminate].
  destruct (cfg_words ordV stream G n) as [A2|] eqn:E2; [|discriminate].
  rewrite !andb_true_iff, !orb_true_iff, !Nat.ltb_lt, !forallb_forall.
  intros [[[[[HL H1] H2] H3] H4] H5].
  split; [|split; [|split; [|split; [|split]]]].
  - intros Hp. destruct H1 as [H1|H1]; [lia|]. apply Nat.eqb_eq. exact H1.
  - intros Hp r Hr Er. destruct H2 as [H2|H2]; [lia|]. specialize (H2 r Hr). rewrite Er in H2. apply Nat.eqb_eq. exact H2.
  - intros Hp r Hr. destruct H3 as [H3|H3]; [lia|]. apply negb_true_iff. apply H3. exact Hr.
  - intros Hp r Hr. destruct H4 as [H4|H4]; [lia|]. apply Nat.leb_le. apply H4. exact Hr.
  - intros Hp r Hr. destruct H5 as [H5|H5]; [lia|]. apply H5. exact Hr.
  - intros Hperm Hwf Hdj HS Hst Hwf1 Hdj1 HS1 Hst1 w Hl.
    apply lang_ok_spec in HL. specialize (HL w).
    rewrite (@cfg_words_exact ordV stream G1 n A1 Hwf1 Hdj1 HS1 Hperm Hst1 E1 w) in HL.
    rewrite (@cfg_words_exact ordV stream G n A2 Hwf Hdj HS Hperm Hst E2 w) in HL. tauto.
Qed.

(* the library's own conversion passes all five phase tests (and, being language preserving, the language test) *)
Theorem own_chomsky_phases (ordV : list nat -> list nat) (stream : list nat) (G G1 : cfg) (rest : list nat) :
  (forall l, Permutation (ordV l) l) ->
  cfg_wf G -> (forall x, In x (gV G) -> ~ In x (gSg G)) -> In (gS G) (gV G) -> (forall x, In x stream -> ~ In x (gSg G)) ->
  to_chomsky ordV stream G = Some (G1, rest) -> is_chomsky G1 /\ cfg_wf G1 /\ forall w, cfg_lang G1 w <-> cfg_lang G w.
Proof.
  intros Hperm Hwf Hdj HS Hst Et.
  destruct (@to_chomsky_correct ordV stream G G1 rest Hwf Hdj HS Hperm Hst Et) as (Hwf' & Hc' & _ & _ & Hl).
  split; [exact Hc'|]. split; [exact Hwf'|]. exact Hl.
Qed.

Theorem own_chomsky_accepted (ordV : list nat -> list nat) (stream : list nat) (G G1 : cfg) (rest : list nat) (phase n : nat) :
  (forall l, Permutation (ordV l) l) ->
  cfg_wf G -> (forall x, In x (gV G) -> ~ In x (gSg G)) -> In (gS G) (gV G) -> (forall x, In x stream -> ~ In x (gSg G)) ->
  to_chomsky ordV stream G = Some (G1, rest) -> check_chomsky ordV stream G G1 phase (gS G1) n = true.
Proof.
  intros Hperm Hwf Hdj HS Hst Et.
  destruct (own_chomsky_phases ordV stream Hperm Hwf Hdj HS Hst Et) as (Hc1 & Hwf1 & Hl).
  unfold check_chomsky.
  assert (E1 : cfg_words ordV stream G1 n = Some (cnf_words G1 n)).
  { unfold cfg_words. rewrite (proj2 (is_chomsky_b_spec G1) Hc1). reflexivity. }
  rewrite E1.
  assert (X2 : forallb (fun r => match rrhs r with [] => Nat.eqb (rvar r) (gS G1) | _ => true end) (gR G1) = true).
  { apply forallb_forall. intros r Hr. destruct (Hc1 r Hr) as [[E Ev]|[(a & E)|(B & C & E & _)]]; rewrite E; [|reflexivity|reflexivity].
    apply Nat.eqb_eq. exact Ev. }
  assert (X3 : forallb (fun r => negb (is_unit r)) (gR G1) = true).
  { apply forallb_forall. intros r Hr. unfold is_unit.
    destruct (Hc1 r Hr) as [[E Ev]|[(a & E)|(B & C & E & _)]]; rewrite E; reflexivity. }
  assert (X4 : forallb (fun r => Nat.leb (length (rrhs r)) 2) (gR G1) = true).
  { apply forallb_forall. intros r Hr. destruct (Hc1 r Hr) as [[E Ev]|[(a & E)|(B & C & E & _)]]; rewrite E; reflexivity. }
  assert (X5 : forallb (fun r => alt_is_chomsky (rrhs r)) (gR G1) = true).
  { apply forallb_forall. intros r Hr. destruct (Hc1 r Hr) as [[E Ev]|[(a & E)|(B & C & E & _)]]; rewrite E; reflexivity. }
  assert (XL : exists A2, cfg_words ordV stream G n = Some A2 /\ lang_ok (cnf_words G1 n) A2 = true).
  { unfold cfg_words. destruct (is_chomsky_b G) eqn:Ec.
    - exists (cnf_words G n). split; [reflexivity|]. apply lang_ok_spec. intros w.
      apply is_chomsky_b_spec in Ec. rewrite (cnf_words_exact G1 n w Hc1), (cnf_words_exact G n w Ec), (Hl w). reflexivity.
    - rewrite Et. exists (cnf_words G1 n). split; [reflexivity | apply lang_ok_refl]. }
  destruct XL as (A2 & E2 & HL). rewrite E2, HL, X2, X3, X4, X5, Nat.eqb_refl, !orb_true_r. reflexivity.
Qed.

(* the criterion of the minimisation exercise in one statement: same alphabet, same language up to length n, and the
   number of distinct states of the answer is the number of Myhill-Nerode classes of the states of D *)
Theorem check_dfa_minimal_criterion {B} `{Eqb B} (n : nat) (D : dfa nat) (answer : dfa B) :
  check_dfa_minimal n D answer = true -> dfa_wf D -> NoDup (dQ D) -> NoDup (dF D) -> dfa_wf answer ->
  seteq (dS D) (dS answer) /\
  (forall w, length w <= n -> Forall (fun a => In a (dS D)) w -> (dfa_lang answer w <-> dfa_lang D w)) /\
  (exists Dq, dfa_quotient canon_nat (fun l => l) (@hd_error nat) D = Some Dq /\ min_spec D Dq /\
              length (dedup (dQ answer)) = length (dQ Dq)) /\
  (forall l, NoDup l -> incl l (dQ D) -> (forall p q, In p l -> In q l -> p <> q -> ~ mn_equiv D p q) ->
     length l <= length (dedup (dQ answer))) /\
  length (dedup (dQ answer)) <= length (dQ D).
Proof.
  intros Hc HwfD HndQ HndF Hwfa.
  destruct (check_dfa_minimal_sound _ _ _ Hc) as (Dq & EQ & _ & _ & Hrest).
  destruct (Hrest HwfD HndQ HndF Hwfa) as (Hms & HS & Elen & HL).
  destruct (@min_spec_count_bounds _ _ D Dq HwfD HndQ Hms) as [Hb1 Hb2].
  split; [exact HS|]. split; [exact HL|]. split; [exists Dq; auto|]. rewrite Elen. split; [exact Hb1 | exact Hb2].
Qed.
