(* Model of the three minimisers of gambatools.dfa_algorithms: dfa_minimize + dfa_from_table (table filling; as
   repaired by fix F2: empty classes are skipped), dfa_quotient (Moore refinement) and dfa_hopfcroft (exactly the
   code's variant: `P in W_cal` is always false, so the waiting set only receives (min(P1,P2), b)).
   Result states are sets of input states, named by their canonical list (`canon` = print_state_set).
   Arbitrary choices are parameters: `ord` (iteration order of a Python set), `rep` (set_element), `pick` (set.pop).
   Definitions only. *)
From GT Require Import Base.Prelude Model.DFA Model.NFA.

Section Minimize.
  Context {A : Type} `{Eqb A}.
  Variable canon : list A -> list A.            (* print_state_set: canonical name of a set *)
  Variable ord : list A -> list A.              (* iteration order of a set of states *)
  Variable ordB : list (list A) -> list (list A). (* iteration order of a set of blocks *)
  Variable rep : list A -> option A.            (* set_element(S) = next(iter(S)) *)

  (* first block containing x *)
  Fixpoint block_of (P : list (list A)) (x : A) : option (list A) :=
    match P with
    | [] => None
    | B :: P' => if mem x B then Some B else block_of P' x
    end.

  (* ============ table filling ============ *)
  Definition table := list ((A * A) * bool).
  (* entry for the unordered pair {p, r}; the Python stores it under (min index, max index) *)
  Definition tget (t : table) (p r : A) : bool :=
    match lookup (p, r) t with
    | Some b => b
    | None => match lookup (r, p) t with Some b => b | None => true end
    end.
  Definition tset (t : table) (p r : A) (b : bool) : table :=
    match lookup (p, r) t with
    | Some _ => update (p, r) b t
    | None => update (r, p) b t
    end.
  (* itertools.combinations(range(n), 2) and combinations_with_replacement, as state pairs in index order *)
  Fixpoint pairs_lt (q : list A) : list (A * A) :=
    match q with [] => [] | x :: r => map (pair x) r ++ pairs_lt r end.
  Fixpoint pairs_le (q : list A) : list (A * A) :=
    match q with [] => [] | x :: r => map (pair x) (x :: r) ++ pairs_le r end.

  Definition table_init (D : dfa A) (q : list A) : table :=
    map (fun pr => (pr, Bool.eqb (mem (fst pr) (dF D)) (mem (snd pr) (dF D)))) (pairs_le q).

  (* one pass of the `while changed` loop; the table is updated in place while the pairs are scanned *)
  Definition table_pass (D : dfa A) (q : list A) (t : table) : table * bool :=
    fold_left (fun (st : table * bool) (pr : A * A) =>
      let '(t, ch) := st in
      let '(p, r) := pr in
      if tget t p r then
        if existsb (fun a => negb (tget t (dstep D p a) (dstep D r a))) (dS D) then (tset t p r false, true) else (t, ch)
      else (t, ch)) (pairs_lt q) (t, false).
  Fixpoint table_fill (D : dfa A) (q : list A) (fuel : nat) (t : table) : option table :=
    match fuel with
    | 0 => None
    | S f => let '(t', ch) := table_pass D q t in if ch then table_fill D q f t' else Some t'
    end.

  (* dfa_from_table: leader i collects the unmarked j > i; states already collected start no class *)
  Fixpoint classes_of (t : table) (q : list A) (R : list A) : list (list A) :=
    match q with
    | [] => []
    | x :: rest =>
      if mem x R then classes_of t rest R
      else let cls := x :: filter (fun y => tget t x y) rest in
           cls :: classes_of t rest (R ++ cls)
    end.

  (* the quotient automaton over a list of blocks (shared final construction shape) *)
  Definition mk_delta (D : dfa A) (P : list (list A)) (leader : list A -> option A) : option (list ((list A * nat) * list A)) :=
    fold_right (fun B acc =>
      fold_right (fun a acc2 =>
        match acc2, leader B with
        | Some l, Some v => match block_of P (dstep D v a) with
                            | Some B' => Some (((canon B, a), canon B') :: l)
                            | None => None
                            end
        | _, _ => None
        end) acc (dS D)) (Some []) P.

  Definition dfa_from_table (D : dfa A) (q : list A) (t : table) : option (dfa (list A)) :=
    let P := classes_of t q [] in
    match mk_delta D P (fun B => hd_error B), block_of P (dq0 D) with
    | Some delta, Some B0 =>
      Some (mkDFA (map canon P) (dS D) delta (canon B0)
                  (map canon (filter (fun B => match B with x :: _ => mem x (dF D) | [] => false end) P)))
    | _, _ => None
    end.
  Definition table_fuel (q : list A) : nat := S (S (length q * length q)).
  (* q = list(Q): the order is an arbitrary permutation of Q, supplied by `ord` *)
  Definition dfa_minimize (D : dfa A) : option (dfa (list A)) :=
    let q := ord (dQ D) in
    match table_fill D q (table_fuel q) (table_init D q) with
    | Some t => dfa_from_table D q t
    | None => None
    end.

  (* ============ quotient (Moore refinement by successor-block signatures) ============ *)
  Definition same_block (P : list (list A)) (x y : A) : bool :=
    match block_of P x, block_of P y with
    | Some B1, Some B2 => seteqb B1 B2
    | _, _ => false        (* KeyError in eq[...] cannot occur for a total DFA *)
    end.
  (* place v into the first W of WW whose representative has the same signature *)
  Fixpoint place (D : dfa A) (P : list (list A)) (v : A) (WW : list (list A)) : list (list A) :=
    match WW with
    | [] => [[v]]
    | W :: WW' =>
      match rep W with
      | Some w => if forallb (fun a => same_block P (dstep D v a) (dstep D w a)) (dS D) then (W ++ [v]) :: WW'
                  else W :: place D P v WW'
      | None => W :: place D P v WW'
      end
    end.
  Definition refine_block (D : dfa A) (P : list (list A)) (V : list A) : list (list A) :=
    fold_left (fun WW v => place D P v WW) (ord V) [].
  Definition refine (D : dfa A) (P : list (list A)) : list (list A) := flat_map (refine_block D P) P.
  (* equal_sets(VV, VV1): mutual membership, blocks compared as sets *)
  Definition blocks_subset (P1 P2 : list (list A)) : bool := forallb (fun B => existsb (seteqb B) P2) P1.
  Definition equal_sets (P1 P2 : list (list A)) : bool := blocks_subset P1 P2 && blocks_subset P2 P1.
  Fixpoint moore_loop (D : dfa A) (fuel : nat) (P : list (list A)) : option (list (list A)) :=
    match fuel with
    | 0 => None
    | S f => let P1 := refine D P in if equal_sets P P1 then Some P else moore_loop D f P1
    end.
  Definition dfa_quotient (D : dfa A) : option (dfa (list A)) :=
    match moore_loop D (S (S (length (dQ D)))) [dF D; diff (dQ D) (dF D)] with
    | None => None
    | Some P =>
      match mk_delta D P rep, block_of P (dq0 D) with
      | Some delta, Some B0 =>
        Some (mkDFA (map canon P) (dS D) delta (canon B0) (map canon (filter (fun B => meetsb B (dF D)) P)))
      | _, _ => None
      end
    end.

  (* ============ Hopcroft, as implemented ============ *)
  Variable pick : picker (list A * nat).        (* W_cal.pop() *)
  Definition min_ (P Q : list A) : list A := if Nat.leb (length P) (length Q) then P else Q.
  Definition split (D : dfa A) (W : list A) (a : nat) (P : list A) : list A * list A :=
    let P1 := filter (fun p => mem (dstep D p a) W) P in (P1, diff P P1).
  (* waiting set: pairs (block, symbol); blocks compared as sets (frozenset equality) *)
  Definition w_eqb (x y : list A * nat) : bool := seteqb (fst x) (fst y) && Nat.eqb (snd x) (snd y).
  Definition w_add (x : list A * nat) (W : list (list A * nat)) : list (list A * nat) :=
    if existsb (w_eqb x) W then W else W ++ [x].
  (* one round: split every block of the snapshot of P_cal against (W, a) *)
  Definition hop_round (D : dfa A) (W : list A) (a : nat) (Pcal : list (list A)) (Wcal : list (list A * nat))
    : list (list A) * list (list A * nat) :=
    fold_left (fun (st : list (list A) * list (list A * nat)) (P : list A) =>
      let '(Pc, Wc) := st in
      if Nat.eqb (length P) 1 then st
      else let '(P1, P2) := split D W a P in
           match P1, P2 with
           | [], _ | _, [] => st
           | _, _ =>
             (filter (fun B => negb (seteqb B P)) Pc ++ [P1; P2],
              fold_left (fun Wc' b => w_add (min_ P1 P2, b) Wc') (dS D) Wc)
           end) (ordB Pcal) (Pcal, Wcal).
  Fixpoint hop_loop (D : dfa A) (fuel : nat) (Pcal : list (list A)) (Wcal : list (list A * nat)) : option (list (list A)) :=
    match fuel with
    | 0 => None
    | S f => match pick Wcal with
             | None => Some Pcal
             | Some ((W, a), rest) => let '(Pc, Wc) := hop_round D W a Pcal rest in hop_loop D f Pc Wc
             end
    end.
  Definition hop_fuel (D : dfa A) : nat := S (S (S (length (dS D)) * S (length (dQ D)))).
  (* delta1 is a dict comprehension over (a, Q1, Q2) with Q1 --a--> Q2 connected: a later entry overwrites an earlier one *)
  Definition hop_delta (D : dfa A) (P : list (list A)) : list ((list A * nat) * list A) :=
    fold_left (fun acc a =>
      fold_left (fun acc1 Q1 =>
        fold_left (fun acc2 Q2 =>
          if meetsb (map (fun q => dstep D q a) Q1) Q2 then update (canon Q1, a) (canon Q2) acc2 else acc2)
          (ordB P) acc1) (ordB P) acc) (dS D) [].
  Definition dfa_hopcroft (D : dfa A) : option (dfa (list A)) :=
    let F := dF D in let NF := diff (dQ D) (dF D) in
    let P0 := filter (fun B => match B with [] => false | _ => true end) (if seteqb F NF then [F] else [F; NF]) in
    let W0 := fold_left (fun Wc b => w_add (min_ F NF, b) Wc) (dS D) [] in
    match hop_loop D (hop_fuel D) P0 W0 with
    | None => None
    | Some P =>
      match block_of P (dq0 D) with
      | Some B0 => Some (mkDFA (map canon P) (dS D) (hop_delta D P) (canon B0) (map canon (filter (fun B => meetsb B F) P)))
      | None => None
      end
    end.
End Minimize.
