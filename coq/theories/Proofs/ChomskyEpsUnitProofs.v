(* C08, phases 2 and 3 of the Chomsky conversion: nullable variables, expansion of nullable variables,
   epsilon-rule elimination, unit-derivable variables, unit-rule elimination.
   Languages are stated with parse trees `yields G (Var A) w`.  Stdlib only, no axioms. *)
From GT Require Import Base.Prelude Model.CFG Model.Chomsky.
From Coq Require Import Permutation.

(* ------------------------------------------------------------------------------------------ *)
(* induction principle for the mutual inductive yields / yields_list *)
Scheme yields_min := Minimality for yields Sort Prop
  with yields_list_min := Minimality for yields_list Sort Prop.
Combined Scheme yields_mutind from yields_min, yields_list_min.

Lemma NoDup_snoc {A} (l : list A) x : NoDup l -> ~ In x l -> NoDup (l ++ [x]).
Proof.
  induction l as [|a l IH]; cbn; intros Hnd Hn.
  - constructor; [intros [] | constructor].
  - inversion Hnd as [|a' l' Ha Hl]; subst. constructor.
    + rewrite in_app_iff; cbn. intuition.
    + apply IH; auto.
Qed.

Lemma yields_tm_inv G a w : yields G (Tm a) w -> w = [a].
Proof. intros H; inversion H; reflexivity. Qed.

Lemma yields_nil_var G s : yields G s [] -> exists A, s = Var A.
Proof.
  intros H. destruct s as [[|] n].
  - exists n. reflexivity.
  - change (false, n) with (Tm n) in H. apply yields_tm_inv in H. discriminate.
Qed.

Lemma yields_list_single G x w : yields_list G [x] w <-> yields G x w.
Proof.
  split.
  - intros H. inversion H as [|x0 xs w1 w2 H1 H2 E1 E2]; subst.
    inversion H2; subst. rewrite app_nil_r. exact H1.
  - intros H. rewrite <- (app_nil_r w). apply yl_cons; [exact H | apply yl_nil].
Qed.

Lemma yields_list_mono (G G' : cfg) :
  (forall s w, yields G s w -> yields G' s w) -> forall l w, yields_list G l w -> yields_list G' l w.
Proof.
  intros Hy l w H. induction H as [|x xs w1 w2 H1 H2 IH]; [apply yl_nil | apply yl_cons; auto].
Qed.

Lemma rule_eqb_spec r1 r2 : rule_eqb r1 r2 = true <-> rvar r1 = rvar r2 /\ rrhs r1 = rrhs r2.
Proof.
  unfold rule_eqb. rewrite andb_true_iff, Nat.eqb_eq. split.
  - intros [H1 H2]. apply eqb_true in H2. auto.
  - intros [H1 H2]. split; [exact H1 | rewrite H2; apply eqb_refl].
Qed.

Lemma existsb_rule_eqb r R : existsb (rule_eqb r) R = true <-> exists r', In r' R /\ rvar r = rvar r' /\ rrhs r = rrhs r'.
Proof.
  rewrite existsb_exists. split; intros [r' [Hi He]]; exists r'; (split; [exact Hi|]); apply rule_eqb_spec; exact He.
Qed.

(* ------------------------------------------------------------------------------------------ *)
(* cfg_nullable_variables *)

Definition ncond (nl : list nat) (r : rule) : bool :=
  negb (mem (rvar r) nl) && forallb (fun x => is_var x && mem (sname x) nl) (rrhs r).
Definition nstep (st : list nat * bool) (r : rule) : list nat * bool :=
  let '(nl, ch) := st in if ncond nl r then (nl ++ [rvar r], true) else (nl, ch).

Lemma nullable_round_eq R nl : nullable_round R nl = fold_left nstep R (nl, false).
Proof. reflexivity. Qed.

Definition all_in (nl : list nat) (l : list sym) : bool := forallb (fun x => is_var x && mem (sname x) nl) l.

Lemma all_in_yields G nl : (forall A, In A nl -> yields G (Var A) []) ->
  forall l, all_in nl l = true -> yields_list G l [].
Proof.
  intros Hnl l. induction l as [|x l IH]; cbn [all_in forallb]; intros H.
  - apply yl_nil.
  - apply andb_true_iff in H. destruct H as [Hx Hl]. apply andb_true_iff in Hx. destruct Hx as [Hv Hm].
    destruct x as [b n]. cbn in Hv, Hm. subst b. apply mem_In in Hm.
    change (yields_list G (Var n :: l) ([] ++ [])). apply yl_cons; [apply Hnl; exact Hm | apply IH; exact Hl].
Qed.

Definition ninv (G : cfg) (nl : list nat) : Prop :=
  NoDup nl /\ forall A, In A nl -> In A (map rvar (gR G)) /\ yields G (Var A) [].

Lemma nround_spec G R : incl R (gR G) -> forall nl ch nl' ch',
  fold_left nstep R (nl, ch) = (nl', ch') -> ninv G nl ->
  ninv G nl' /\ exists added, nl' = nl ++ added /\
    (ch' = false -> ch = false /\ added = [] /\ forall r, In r R -> ncond nl r = false) /\
    (ch' = true -> ch = true \/ added <> []).
Proof.
  induction R as [|r R IH]; intros HR nl ch nl' ch' E Hinv.
  - cbn in E. inversion E; subst. split; [exact Hinv|]. exists []. rewrite app_nil_r.
    split; [reflexivity|]. split.
    + intros ->. repeat split. intros r [].
    + intros ->. left; reflexivity.
  - cbn [fold_left nstep] in E. destruct (ncond nl r) eqn:Ec.
    + assert (Hinv2 : ninv G (nl ++ [rvar r])).
      { destruct Hinv as [Hnd Hall]. unfold ncond in Ec. apply andb_true_iff in Ec. destruct Ec as [Hn Hf].
        apply negb_true_iff, mem_nIn in Hn. split.
        - apply NoDup_snoc; [exact Hnd | exact Hn].
        - intros A HA. apply in_app_iff in HA. destruct HA as [HA|[<-|[]]]; [apply Hall; exact HA|].
          split.
          + apply in_map. apply HR. left; reflexivity.
          + apply y_var with (rrhs r).
            * exists r. split; [apply HR; left; reflexivity | auto].
            * apply all_in_yields with nl; [intros B HB; apply Hall; exact HB | exact Hf]. }
      destruct (IH (fun x Hx => HR x (or_intror Hx)) _ _ _ _ E Hinv2) as [Hi [added [En [Hf Ht]]]].
      split; [exact Hi|]. exists (rvar r :: added). split; [rewrite En, <- app_assoc; reflexivity|]. split.
      * intros Hc. destruct (Hf Hc) as [Hd _]. discriminate.
      * intros _. right. discriminate.
    + destruct (IH (fun x Hx => HR x (or_intror Hx)) _ _ _ _ E Hinv) as [Hi [added [En [Hf Ht]]]].
      split; [exact Hi|]. exists added. split; [exact En|]. split.
      * intros Hc. destruct (Hf Hc) as [H1 [H2 H3]]. repeat split; auto.
        intros r' [<-|Hr']; [exact Ec | apply H3; exact Hr'].
      * exact Ht.
Qed.

Lemma closed_complete G nl : (forall r, In r (gR G) -> ncond nl r = false) ->
  (forall s w, yields G s w -> w = [] -> is_var s && mem (sname s) nl = true) /\
  (forall l w, yields_list G l w -> w = [] -> all_in nl l = true).
Proof.
  intros Hcl. apply yields_mutind.
  - intros a Hw. discriminate.
  - intros A rhs w [r [Hr [Hv Hrhs]]] _ IH Hw. specialize (IH Hw).
    specialize (Hcl r Hr). unfold ncond in Hcl. fold (all_in nl (rrhs r)) in Hcl. rewrite Hrhs, IH, andb_true_r in Hcl.
    apply negb_false_iff in Hcl. rewrite Hv in Hcl. cbn. exact Hcl.
  - intros _. reflexivity.
  - intros x xs w1 w2 _ IH1 _ IH2 Hw. apply app_eq_nil in Hw. destruct Hw as [H1 H2].
    cbn [all_in forallb]. rewrite (IH1 H1). apply IH2. exact H2.
Qed.

Lemma ninv_length G nl : ninv G nl -> length nl <= length (gR G).
Proof.
  intros [Hnd Hall]. rewrite <- (map_length rvar (gR G)). apply NoDup_incl_length; [exact Hnd|].
  intros A HA. apply Hall. exact HA.
Qed.

Lemma nloop_spec G : forall fuel nl, ninv G nl -> length (gR G) - length nl < fuel ->
  exists W, nullable_loop (gR G) fuel nl = Some W /\ ninv G W /\ (forall r, In r (gR G) -> ncond W r = false).
Proof.
  induction fuel as [|f IH]; intros nl Hinv Hf; [lia|].
  cbn [nullable_loop]. rewrite nullable_round_eq.
  destruct (fold_left nstep (gR G) (nl, false)) as [nl' ch'] eqn:E.
  destruct (nround_spec G (gR G) (incl_refl _) _ _ _ _ E Hinv) as [Hinv' [added [En [Hfalse Htrue]]]].
  destruct ch'.
  - apply IH; [exact Hinv'|].
    destruct (Htrue eq_refl) as [Hc|Hne]; [discriminate|].
    pose proof (ninv_length G _ Hinv') as Hl. rewrite En in Hl |- *. rewrite app_length in Hl |- *.
    destruct added as [|a added]; [congruence|]. cbn [length] in Hl |- *. lia.
  - destruct (Hfalse eq_refl) as [_ [Ha Hcl]]. subst added. rewrite app_nil_r in En. subst nl'.
    exists nl. auto.
Qed.

Theorem cfg_nullable_correct G : exists W, cfg_nullable G = Some W /\ forall A, In A W <-> yields G (Var A) [].
Proof.
  assert (H0 : ninv G []). { split; [constructor | intros A []]. }
  destruct (@nloop_spec G (S (S (length (gR G)))) [] H0) as [W [E [[Hnd Hall] Hcl]]]; [cbn; lia|].
  exists W. split; [exact E|]. intros A. split.
  - intros HA. apply Hall. exact HA.
  - intros Hy. destruct (closed_complete G W Hcl) as [Hc _]. specialize (Hc _ _ Hy eq_refl).
    cbn in Hc. apply mem_In. exact Hc.
Qed.

(* the result has no duplicates and only contains left-hand sides *)
Lemma cfg_nullable_NoDup G W : cfg_nullable G = Some W -> NoDup W /\ incl W (map rvar (gR G)).
Proof.
  assert (H0 : ninv G []). { split; [constructor | intros A []]. }
  destruct (@nloop_spec G (S (S (length (gR G)))) [] H0) as [W' [E [[Hnd Hall] Hcl]]]; [cbn; lia|].
  unfold cfg_nullable. rewrite E. intros Ew. inversion Ew; subst. split; [exact Hnd | intros A HA; apply Hall; exact HA].
Qed.

(* ------------------------------------------------------------------------------------------ *)
(* expand_nullable_variables *)

(* dropsub W x y : y is obtained from x by deleting some occurrences of variables whose name is in W *)
Inductive dropsub (W : list nat) : list sym -> list sym -> Prop :=
| ds_nil : dropsub W [] []
| ds_keep s x y : dropsub W x y -> dropsub W (s :: x) (s :: y)
| ds_drop A x y : In A W -> dropsub W x y -> dropsub W (Var A :: x) y.

Theorem expand_nullable_spec x W y : In y (expand_nullable x W) <-> dropsub W x y.
Proof.
  revert y. induction x as [|s x IH]; intros y; cbn [expand_nullable].
  - split.
    + intros [<-|[]]. constructor.
    + intros H. inversion H; subst. left; reflexivity.
  - rewrite in_app_iff, in_map_iff. split.
    + intros [[y' [<- Hy']]|Hd].
      * apply ds_keep. apply IH. exact Hy'.
      * destruct (is_var s && mem (sname s) W) eqn:E; [|destruct Hd].
        apply andb_true_iff in E. destruct E as [Hv Hm]. destruct s as [b n]. cbn in Hv, Hm. subst b.
        apply (ds_drop W n). { apply mem_In. exact Hm. } apply IH. exact Hd.
    + intros H. inversion H as [|s' x' y' Hd|A x' y' HA Hd]; subst.
      * left. exists y'. split; [reflexivity | apply IH; exact Hd].
      * right. cbn [Var is_var sname fst snd]. apply mem_In in HA. rewrite HA. cbn. apply IH. exact Hd.
Qed.

Lemma dropsub_incl W x y : dropsub W x y -> incl y x.
Proof.
  induction 1 as [|s x y _ IH|A x y _ _ IH]; intros z Hz.
  - exact Hz.
  - destruct Hz as [<-|Hz]; [left; reflexivity | right; apply IH; exact Hz].
  - right. apply IH. exact Hz.
Qed.

(* ------------------------------------------------------------------------------------------ *)
(* cfg_remove_epsilon_rules_in_place *)

Definition eps_alts (G : cfg) (W : list nat) (r : rule) (symbols : list sym) : list rule :=
  match symbols with
  | [] => if mem (rvar r) W && negb (Nat.eqb (rvar r) (gS G)) then [] else [mkRule (rvar r) 0 []]
  | _ => [mkRule (rvar r) 0 symbols]
  end.
Definition eps_R1 (G : cfg) (W : list nat) : list rule :=
  flat_map (fun r => flat_map (eps_alts G W r) (expand_nullable (rrhs r) W)) (gR G).

Lemma remove_eps_unfold G :
  remove_eps G = match cfg_nullable G with
                 | None => None
                 | Some W => Some (mkCFG (gV G) (gSg G) (renumber (remove_dup_rules (eps_R1 G W) []) 0) (gS G))
                 end.
Proof. reflexivity. Qed.

Lemma eps_alts_In G W r y r1 :
  In r1 (eps_alts G W r y) <-> r1 = mkRule (rvar r) 0 y /\ ~ (y = [] /\ In (rvar r) W /\ rvar r <> gS G).
Proof.
  destruct y as [|s y]; cbn [eps_alts].
  - destruct (mem (rvar r) W) eqn:Em; destruct (Nat.eqb (rvar r) (gS G)) eqn:Es; cbn [andb negb In].
    + apply Nat.eqb_eq in Es. split.
      * intros [<-|[]]. split; [reflexivity|]. intros [_ [_ Hn]]. apply Hn; exact Es.
      * intros [-> _]. left; reflexivity.
    + apply mem_In in Em. apply Nat.eqb_neq in Es. split; [intros [] | intros [_ Hn]; apply Hn; auto].
    + apply mem_nIn in Em. split.
      * intros [<-|[]]. split; [reflexivity|]. intros [_ [Hi _]]. apply Em; exact Hi.
      * intros [-> _]. left; reflexivity.
    + apply mem_nIn in Em. split.
      * intros [<-|[]]. split; [reflexivity|]. intros [_ [Hi _]]. apply Em; exact Hi.
      * intros [-> _]. left; reflexivity.
  - split.
    + intros [<-|[]]. split; [reflexivity|]. intros [Hc _]. discriminate.
    + intros [-> _]. left; reflexivity.
Qed.

Lemma eps_R1_In G W r1 :
  In r1 (eps_R1 G W) <->
  exists r, In r (gR G) /\ exists y, dropsub W (rrhs r) y /\ r1 = mkRule (rvar r) 0 y /\ ~ (y = [] /\ In (rvar r) W /\ rvar r <> gS G).
Proof.
  unfold eps_R1. rewrite in_flat_map. split.
  - intros [r [Hr Hi]]. apply in_flat_map in Hi. destruct Hi as [y [Hy Hi]].
    apply expand_nullable_spec in Hy. apply eps_alts_In in Hi. exists r. split; [exact Hr|]. exists y. tauto.
  - intros [r [Hr [y [Hd Hi]]]]. exists r. split; [exact Hr|]. apply in_flat_map. exists y.
    split; [apply expand_nullable_spec; exact Hd | apply eps_alts_In; exact Hi].
Qed.

Lemma rdr_In R : forall seen r, In r (remove_dup_rules R seen) -> In r R.
Proof.
  induction R as [|r0 R IH]; intros seen r; cbn [remove_dup_rules]; [tauto|].
  destruct (existsb (rule_eqb r0) seen).
  - intros H. right. eapply IH; exact H.
  - intros [<-|H]; [left; reflexivity | right; eapply IH; exact H].
Qed.

Lemma rdr_complete R : forall seen r, In r R ->
  existsb (rule_eqb r) seen = true \/ exists r', In r' (remove_dup_rules R seen) /\ rvar r = rvar r' /\ rrhs r = rrhs r'.
Proof.
  induction R as [|r0 R IH]; intros seen r Hr; [destruct Hr|]. cbn [remove_dup_rules].
  destruct (existsb (rule_eqb r0) seen) eqn:E.
  - destruct Hr as [<-|Hr]; [left; exact E | apply IH; exact Hr].
  - destruct Hr as [<-|Hr].
    + right. exists r0. split; [left; reflexivity | auto].
    + destruct (IH (seen ++ [r0]) r Hr) as [Hs|[r' [Hi He]]].
      * rewrite existsb_app in Hs. apply orb_true_iff in Hs. destruct Hs as [Hs|Hs]; [left; exact Hs|].
        cbn in Hs. rewrite orb_false_r in Hs. apply rule_eqb_spec in Hs.
        right. exists r0. split; [left; reflexivity | exact Hs].
      * right. exists r'. split; [right; exact Hi | exact He].
Qed.

Lemma renumber_In R : forall i r, In r (renumber R i) -> exists r0, In r0 R /\ rvar r = rvar r0 /\ rrhs r = rrhs r0.
Proof.
  induction R as [|r0 R IH]; intros i r; cbn [renumber]; [intros []|].
  intros [<-|H].
  - exists r0. split; [left; reflexivity | cbn; auto].
  - destruct (IH _ _ H) as [r1 [H1 H2]]. exists r1. split; [right; exact H1 | exact H2].
Qed.

Lemma renumber_complete R : forall i r0, In r0 R -> exists r, In r (renumber R i) /\ rvar r = rvar r0 /\ rrhs r = rrhs r0.
Proof.
  induction R as [|r1 R IH]; intros i r0; cbn [renumber]; [intros []|].
  intros [<-|H].
  - exists (mkRule (rvar r1) i (rrhs r1)). split; [left; reflexivity | cbn; auto].
  - destruct (IH (S i) _ H) as [r [H1 H2]]. exists r. split; [right; exact H1 | exact H2].
Qed.

Lemma renumber_ids R : forall i, map rid (renumber R i) = seq i (length R).
Proof.
  induction R as [|r R IH]; intros i; cbn [renumber map length seq]; [reflexivity|].
  cbn [rid]. rewrite IH. reflexivity.
Qed.

Lemma renumber_dedup_has R A y :
  (exists r, In r (renumber (remove_dup_rules R []) 0) /\ rvar r = A /\ rrhs r = y) <->
  (exists r, In r R /\ rvar r = A /\ rrhs r = y).
Proof.
  split.
  - intros [r [Hr [Hv Hy]]]. apply renumber_In in Hr. destruct Hr as [r0 [Hr0 [E1 E2]]].
    apply rdr_In in Hr0. exists r0. split; [exact Hr0|]. split; congruence.
  - intros [r [Hr [Hv Hy]]]. destruct (rdr_complete R [] r Hr) as [Hc|[r' [Hr' [E1 E2]]]]; [discriminate|].
    destruct (renumber_complete _ 0 _ Hr') as [r2 [Hr2 [E3 E4]]].
    exists r2. split; [exact Hr2|]. split; congruence.
Qed.

Section EpsCore.
  Variables (G G' : cfg) (W : list nat).
  Hypothesis W_spec : forall A, In A W <-> yields G (Var A) [].
  Hypothesis R'_spec : forall A y, has_rule G' A y <->
    exists x, has_rule G A x /\ dropsub W x y /\ ~ (y = [] /\ In A W /\ A <> gS G).

  Lemma dropsub_yields x y : dropsub W x y -> forall w, yields_list G y w -> yields_list G x w.
  Proof.
    induction 1 as [|s x y _ IH|A x y HA _ IH]; intros w Hw.
    - exact Hw.
    - inversion Hw; subst. apply yl_cons; auto.
    - change w with ([] ++ w). apply yl_cons; [apply W_spec; exact HA | apply IH; exact Hw].
  Qed.

  Lemma eps_sound : (forall s w, yields G' s w -> yields G s w) /\ (forall l w, yields_list G' l w -> yields_list G l w).
  Proof.
    apply yields_mutind.
    - intros a. apply y_tm.
    - intros A rhs w Hr _ IH. apply R'_spec in Hr. destruct Hr as [x [Hx [Hd _]]].
      apply y_var with x; [exact Hx|]. eapply dropsub_yields; eauto.
    - apply yl_nil.
    - intros x xs w1 w2 _ IH1 _ IH2. apply yl_cons; auto.
  Qed.

  Lemma eps_complete :
    (forall s w, yields G s w -> w <> [] -> yields G' s w) /\
    (forall x w, yields_list G x w -> exists y, dropsub W x y /\ yields_list G' y w /\ (w <> [] -> y <> [])).
  Proof.
    apply yields_mutind.
    - intros a _. apply y_tm.
    - intros A rhs w Hr _ [y [Hd [Hy Hne]]] Hw.
      apply y_var with y; [|exact Hy]. apply R'_spec. exists rhs. split; [exact Hr|]. split; [exact Hd|].
      intros [Hy0 _]. apply Hne; assumption.
    - exists []. split; [constructor|]. split; [apply yl_nil | congruence].
    - intros s ss u v Hs IHs _ [y [Hd [Hy Hne]]].
      destruct u as [|a u].
      + destruct (yields_nil_var _ _ Hs) as [n ->].
        exists y. split; [apply ds_drop; [apply W_spec; exact Hs | exact Hd]|]. split; [exact Hy | exact Hne].
      + exists (s :: y). split; [apply ds_keep; exact Hd|]. split.
        * apply yl_cons; [apply IHs; discriminate | exact Hy].
        * intros _. discriminate.
  Qed.

  Lemma yields_list_nil_dropsub x w : yields_list G x w -> w = [] -> dropsub W x [].
  Proof.
    induction 1 as [|s ss u v Hs Hss IH]; intros Hw.
    - constructor.
    - apply app_eq_nil in Hw. destruct Hw as [-> ->].
      destruct (yields_nil_var _ _ Hs) as [n ->].
      apply ds_drop; [apply W_spec; exact Hs | apply IH; reflexivity].
  Qed.

  Lemma dropsub_nil_yields x y : dropsub W x y -> y = [] -> yields_list G x [].
  Proof.
    induction 1 as [|s x y _ _|A x y HA _ IH]; intros Hy.
    - apply yl_nil.
    - discriminate.
    - change (@nil nat) with (@nil nat ++ []). apply yl_cons; [apply W_spec; exact HA | apply IH; exact Hy].
  Qed.

  Lemma eps_nonempty A w : w <> [] -> (yields G' (Var A) w <-> yields G (Var A) w).
  Proof.
    intros Hw. split; [apply (proj1 eps_sound) | intros H; apply (proj1 eps_complete); assumption].
  Qed.

  Lemma eps_start : yields G' (Var (gS G)) [] <-> yields G (Var (gS G)) [].
  Proof.
    split; [apply (proj1 eps_sound)|].
    intros H. inversion H as [|A rhs w Hr Hl]; subst.
    apply y_var with []; [|apply yl_nil].
    apply R'_spec. exists rhs. split; [exact Hr|]. split.
    - eapply yields_list_nil_dropsub; [exact Hl | reflexivity].
    - intros [_ [_ Hn]]. apply Hn; reflexivity.
  Qed.

  Lemma eps_post A : has_rule G' A [] -> A = gS G.
  Proof.
    intros Hr. apply R'_spec in Hr. destruct Hr as [x [Hx [Hd Hn]]].
    destruct (Nat.eq_dec A (gS G)) as [|Hne]; [assumption|]. exfalso. apply Hn.
    split; [reflexivity|]. split; [|exact Hne].
    apply W_spec. apply y_var with x; [exact Hx|]. eapply dropsub_nil_yields; [exact Hd | reflexivity].
  Qed.
End EpsCore.

Lemma remove_eps_rules G W G' : cfg_nullable G = Some W -> remove_eps G = Some G' ->
  forall A y, has_rule G' A y <-> exists x, has_rule G A x /\ dropsub W x y /\ ~ (y = [] /\ In A W /\ A <> gS G).
Proof.
  intros EW E A y. rewrite remove_eps_unfold, EW in E. inversion E; subst G'; clear E.
  unfold has_rule at 1. cbn [gR]. rewrite renumber_dedup_has. split.
  - intros [r1 [Hr1 [Hv Hy]]]. apply eps_R1_In in Hr1. destruct Hr1 as [r [Hr [y' [Hd [-> Hn]]]]].
    cbn in Hv, Hy. subst A y'. exists (rrhs r). split; [exists r; auto|]. split; [exact Hd | exact Hn].
  - intros [x [[r [Hr [Hv Hx]]] [Hd Hn]]]. subst A x.
    exists (mkRule (rvar r) 0 y). split; [|cbn; auto].
    apply eps_R1_In. exists r. split; [exact Hr|]. exists y. auto.
Qed.

Theorem remove_eps_total G : remove_eps G <> None.
Proof.
  rewrite remove_eps_unfold. destruct (cfg_nullable_correct G) as [W [E _]]. rewrite E. discriminate.
Qed.

Theorem remove_eps_correct G G' : cfg_wf G -> remove_eps G = Some G' ->
  cfg_wf G' /\ gV G' = gV G /\ gSg G' = gSg G /\ gS G' = gS G /\
  (forall r, In r (gR G') -> rrhs r = [] -> rvar r = gS G') /\
  (forall A w, w <> [] -> (yields G' (Var A) w <-> yields G (Var A) w)) /\
  (yields G' (Var (gS G)) [] <-> yields G (Var (gS G)) []) /\
  NoDup (map rid (gR G')).
Proof.
  intros Hwf E. destruct (cfg_nullable_correct G) as [W [EW HW]].
  pose proof (remove_eps_rules G W G' EW E) as HR.
  assert (EG : G' = mkCFG (gV G) (gSg G) (renumber (remove_dup_rules (eps_R1 G W) []) 0) (gS G)).
  { rewrite remove_eps_unfold, EW in E. inversion E; reflexivity. }
  assert (HV : gV G' = gV G) by (rewrite EG; reflexivity).
  assert (HSg : gSg G' = gSg G) by (rewrite EG; reflexivity).
  assert (HS : gS G' = gS G) by (rewrite EG; reflexivity).
  split; [|split; [exact HV|split; [exact HSg|split; [exact HS|split; [|split; [|split]]]]]].
  - intros r Hr. assert (Hh : has_rule G' (rvar r) (rrhs r)) by (exists r; auto).
    apply HR in Hh. destruct Hh as [x [[r0 [Hr0 [Hv Hx]]] [Hd _]]].
    destruct (Hwf r0 Hr0) as [H1 H2]. rewrite HV, HSg. split; [rewrite <- Hv; exact H1|].
    intros s Hs. apply H2. rewrite Hx. eapply dropsub_incl; eauto.
  - intros r Hr Hnil. rewrite HS. apply (eps_post G G' W HW HR). exists r. auto.
  - intros A w Hw. apply (eps_nonempty G G' W HW HR). exact Hw.
  - apply (eps_start G G' W HW HR).
  - rewrite EG. cbn [gR]. rewrite renumber_ids. apply seq_NoDup.
Qed.

(* every parse tree of the new grammar is a parse tree of the old one (all symbols, all words, also the empty word) *)
Theorem remove_eps_sound_all G G' : remove_eps G = Some G' -> forall s w, yields G' s w -> yields G s w.
Proof.
  intros E. destruct (cfg_nullable_correct G) as [W [EW HW]].
  apply (proj1 (eps_sound G G' W HW (remove_eps_rules G W G' EW E))).
Qed.

(* sanity example for the empty-word clause when the start variable occurs on a right-hand side (phase 1 not run):
   S -> A S | eps ; A -> S | a   with S = 0, A = 1, a = 5 *)
Example remove_eps_example :
  option_map (fun G' => map (fun r => (rvar r, rrhs r)) (gR G'))
    (remove_eps (mkCFG [0; 1] [5] [mkRule 0 0 [Var 1; Var 0]; mkRule 0 1 []; mkRule 1 2 [Var 0]; mkRule 1 3 [Tm 5]] 0))
  = Some [(0, [Var 1; Var 0]); (0, [Var 1]); (0, [Var 0]); (0, []); (1, [Var 0]); (1, [Tm 5])].
Proof. vm_compute. reflexivity. Qed.

(* ------------------------------------------------------------------------------------------ *)
(* cfg_derivable_variables *)

(* transitive closure, at least one step *)
Inductive tc (R : nat -> nat -> Prop) : nat -> nat -> Prop :=
| tc_one x y : R x y -> tc R x y
| tc_step x y z : R x y -> tc R y z -> tc R x z.

Lemma tc_right R x y z : tc R x y -> R y z -> tc R x z.
Proof.
  intros H. induction H as [x y Hxy|x y y' Hxy _ IH]; intros Hz.
  - apply tc_step with y; [exact Hxy | apply tc_one; exact Hz].
  - apply tc_step with y; [exact Hxy | apply IH; exact Hz].
Qed.

Lemma tc_trans R x y z : tc R x y -> tc R y z -> tc R x z.
Proof.
  intros H. induction H as [x y Hxy|x y y' Hxy _ IH]; intros Hz.
  - apply tc_step with y; assumption.
  - apply tc_step with y; [exact Hxy | apply IH; exact Hz].
Qed.

Lemma tc_equiv (R R' : nat -> nat -> Prop) : (forall x y, R x y -> R' x y) -> forall x y, tc R x y -> tc R' x y.
Proof.
  intros HR x y H. induction H as [x y Hxy|x y z Hxy _ IH].
  - apply tc_one. apply HR; exact Hxy.
  - apply tc_step with y; [apply HR; exact Hxy | exact IH].
Qed.

(* one unit step as the implementation sees it (`B in V` compares names) *)
Definition utstep (G : cfg) (X Y : nat) : Prop := exists r, In r (gR G) /\ rvar r = X /\ unit_target G r = Some Y.
(* one unit step: X -> Y is a rule, Y a variable *)
Definition ustep (G : cfg) (X Y : nat) : Prop := has_rule G X [Var Y] /\ In Y (gV G).
Definition unit_reach (G : cfg) : nat -> nat -> Prop := tc (ustep G).

Lemma unit_target_V G r B : unit_target G r = Some B -> In B (gV G).
Proof.
  unfold unit_target. destruct (rrhs r) as [|x [|x' l]]; try discriminate.
  destruct (mem (sname x) (gV G)) eqn:E; [|discriminate]. intros H; inversion H; subst. apply mem_In; exact E.
Qed.

Lemma add_NoDup (x : nat) l : NoDup l -> NoDup (add x l).
Proof.
  intros H. unfold add. destruct (mem x l) eqn:E; [exact H|]. apply NoDup_snoc; [exact H | apply mem_nIn; exact E].
Qed.

Lemma fold_add_spec (f : rule -> option nat) (g : list nat -> rule -> list nat) :
  (forall W r, g W r = match f r with Some B => add B W | None => W end) ->
  forall L W, (forall B, In B (fold_left g L W) <-> In B W \/ exists r, In r L /\ f r = Some B) /\
              (NoDup W -> NoDup (fold_left g L W)).
Proof.
  intros Hg. induction L as [|r L IH]; intros W; cbn [fold_left].
  - split; [|auto]. intros B. split; [auto | intros [H|[r [[] _]]]; exact H].
  - destruct (IH (g W r)) as [IH1 IH2]. split.
    + intros B. rewrite IH1, Hg. destruct (f r) as [B'|] eqn:E.
      * rewrite add_In. split.
        -- intros [[->|H]|[r' [Hr' Hf]]]; [right; exists r; split; [left; reflexivity|exact E] | left; exact H | right; exists r'; split; [right; exact Hr' | exact Hf]].
        -- intros [H|[r' [[<-|Hr'] Hf]]]; [left; right; exact H | left; left; congruence | right; exists r'; auto].
      * split.
        -- intros [H|[r' [Hr' Hf]]]; [left; exact H | right; exists r'; split; [right; exact Hr' | exact Hf]].
        -- intros [H|[r' [[<-|Hr'] Hf]]]; [left; exact H | congruence | right; exists r'; auto].
    + intros Hnd. apply IH2. rewrite Hg. destruct (f r); [apply add_NoDup; exact Hnd | exact Hnd].
Qed.

Definition dW0 (G : cfg) (A : nat) : list nat :=
  fold_left (fun W r => if Nat.eqb (rvar r) A then match unit_target G r with Some B => add B W | None => W end else W) (gR G) [].

Lemma cfg_derivable_unfold G A :
  cfg_derivable G A = match derivable_loop G (S (S (length (gV G)))) [] (dW0 G A) with
                      | None => None
                      | Some W => Some (filter (fun B => negb (Nat.eqb B A)) W)
                      end.
Proof. reflexivity. Qed.

Lemma dW0_spec G A : (forall B, In B (dW0 G A) <-> utstep G A B) /\ NoDup (dW0 G A).
Proof.
  unfold dW0.
  destruct (fold_add_spec (fun r => if Nat.eqb (rvar r) A then unit_target G r else None)
              (fun W r => if Nat.eqb (rvar r) A then match unit_target G r with Some B => add B W | None => W end else W)) with (L := gR G) (W := @nil nat) as [H1 H2].
  { intros W r. destruct (Nat.eqb (rvar r) A); reflexivity. }
  split; [|apply H2; constructor].
  intros B. rewrite H1. unfold utstep. split.
  - intros [[]|[r [Hr Hf]]]. destruct (Nat.eqb (rvar r) A) eqn:E; [|discriminate].
    apply Nat.eqb_eq in E. exists r. auto.
  - intros [r [Hr [Hv Hf]]]. right. exists r. split; [exact Hr|]. rewrite Hv, Nat.eqb_refl. exact Hf.
Qed.

Lemma derivable_step_spec G W1 W :
  (forall B, In B (derivable_step G W1 W) <-> In B W \/ exists C, In C W1 /\ utstep G C B) /\
  (NoDup W -> NoDup (derivable_step G W1 W)).
Proof.
  unfold derivable_step.
  destruct (fold_add_spec (fun r => if mem (rvar r) W1 then unit_target G r else None)
              (fun W r => match unit_target G r with Some B => if mem (rvar r) W1 then add B W else W | None => W end)) with (L := gR G) (W := W) as [H1 H2].
  { intros W' r. destruct (unit_target G r); destruct (mem (rvar r) W1); reflexivity. }
  split; [|exact H2].
  intros B. rewrite H1. unfold utstep. split.
  - intros [H|[r [Hr Hf]]]; [left; exact H|]. destruct (mem (rvar r) W1) eqn:E; [|discriminate].
    apply mem_In in E. right. exists (rvar r). split; [exact E|]. exists r. auto.
  - intros [H|[C [HC [r [Hr [Hv Hf]]]]]]; [left; exact H|]. right. exists r. split; [exact Hr|].
    rewrite Hv. apply mem_In in HC. rewrite HC. exact Hf.
Qed.

Lemma NoDup_incl_lt (l1 l2 : list nat) : NoDup l1 -> incl l1 l2 -> ~ incl l2 l1 -> length l1 < length l2.
Proof.
  intros Hnd Hi Hn. destruct (le_lt_dec (length l2) (length l1)) as [Hle|Hlt]; [|exact Hlt].
  exfalso. apply Hn. apply NoDup_length_incl; assumption.
Qed.

Lemma dloop_spec G A : forall fuel W1 W,
  NoDup W1 -> NoDup W -> incl W1 W -> incl W (gV G) ->
  (forall B, utstep G A B -> In B W) -> (forall B, In B W -> tc (utstep G) A B) ->
  (forall C B, In C W1 -> utstep G C B -> In B W) ->
  S (length (gV G)) - length W1 < fuel ->
  exists Wf, derivable_loop G fuel W1 W = Some Wf /\ forall B, In B Wf <-> tc (utstep G) A B.
Proof.
  induction fuel as [|f IH]; intros W1 W Hnd1 Hnd Hi HV H0 Hr Hcl Hf; [lia|].
  cbn [derivable_loop]. destruct (seteqb W1 W) eqn:E.
  - apply seteqb_seteq in E. exists W. split; [reflexivity|]. intros B. split; [apply Hr|].
    intros Ht.
    assert (Hgen : forall X Z, tc (utstep G) X Z -> X = A \/ In X W -> In Z W).
    { intros X Z HXZ. induction HXZ as [X Z HXZ|X Y Z HXY _ IHt]; intros HX.
      - destruct HX as [->|HX]; [apply H0; exact HXZ | apply (Hcl X); [apply E; exact HX | exact HXZ]].
      - apply IHt. right. destruct HX as [->|HX]; [apply H0; exact HXY | apply (Hcl X); [apply E; exact HX | exact HXY]]. }
    apply (Hgen A B Ht). left; reflexivity.
  - destruct (derivable_step_spec G W W) as [Hs1 Hs2].
    assert (Hlt : length W1 < length W).
    { apply NoDup_incl_lt; [exact Hnd1 | exact Hi|]. intros Hc.
      assert (Hse : seteqb W1 W = true) by (apply seteqb_seteq; intros x; split; [apply Hi | apply Hc]).
      congruence. }
    assert (HlV : length W <= length (gV G)) by (apply NoDup_incl_length; assumption).
    apply IH.
    + exact Hnd.
    + apply Hs2; exact Hnd.
    + intros B HB. apply Hs1. left; exact HB.
    + intros B HB. apply Hs1 in HB. destruct HB as [HB|[C [HC [r [_ [_ Hu]]]]]]; [apply HV; exact HB|].
      eapply unit_target_V; exact Hu.
    + intros B HB. apply Hs1. left. apply H0; exact HB.
    + intros B HB. apply Hs1 in HB. destruct HB as [HB|[C [HC HCB]]]; [apply Hr; exact HB|].
      apply tc_right with C; [apply Hr; exact HC | exact HCB].
    + intros C B HC HCB. apply Hs1. right. exists C. auto.
    + lia.
Qed.

(* characterisation without any hypothesis on G, in terms of the implementation's unit step *)
Theorem cfg_derivable_ut G A : exists W, cfg_derivable G A = Some W /\ forall B, In B W <-> B <> A /\ tc (utstep G) A B.
Proof.
  destruct (dW0_spec G A) as [H0 Hnd0].
  destruct (dloop_spec G A (S (S (length (gV G)))) [] (dW0 G A)) as [Wf [E HWf]].
  - constructor.
  - exact Hnd0.
  - intros x [].
  - intros B HB. apply H0 in HB. destruct HB as [r [_ [_ Hu]]]. eapply unit_target_V; exact Hu.
  - intros B HB. apply H0; exact HB.
  - intros B HB. apply tc_one. apply H0; exact HB.
  - intros C B [].
  - cbn [length]. lia.
  - rewrite cfg_derivable_unfold, E. eexists. split; [reflexivity|].
    intros B. rewrite filter_In, negb_true_iff, Nat.eqb_neq, HWf. tauto.
Qed.

Theorem cfg_derivable_total G A : cfg_derivable G A <> None.
Proof. destruct (cfg_derivable_ut G A) as [W [E _]]. rewrite E. discriminate. Qed.

Definition names_disjoint (G : cfg) : Prop := forall x, In x (gV G) -> ~ In x (gSg G).

Lemma unit_target_Var G r : cfg_wf G -> names_disjoint G -> In r (gR G) ->
  forall B, unit_target G r = Some B <-> rrhs r = [Var B] /\ In B (gV G).
Proof.
  intros Hwf Hdj Hr B. unfold unit_target. split.
  - destruct (rrhs r) as [|x [|x' l]] eqn:Erhs; try discriminate.
    destruct (mem (sname x) (gV G)) eqn:E; [|discriminate]. intros H; inversion H; subst B.
    apply mem_In in E. split; [|exact E].
    destruct x as [[|] n]; [reflexivity|]. exfalso.
    destruct (Hwf r Hr) as [_ Hx]. specialize (Hx (false, n)). rewrite Erhs in Hx. specialize (Hx (or_introl eq_refl)).
    cbn in Hx, E. apply (Hdj n E Hx).
  - intros [-> HB]. cbn [sname Var snd]. apply mem_In in HB. rewrite HB. reflexivity.
Qed.

Lemma utstep_ustep G : cfg_wf G -> names_disjoint G -> forall X Y, utstep G X Y <-> ustep G X Y.
Proof.
  intros Hwf Hdj X Y. unfold utstep, ustep, has_rule. split.
  - intros [r [Hr [Hv Hu]]]. apply (unit_target_Var G r Hwf Hdj Hr) in Hu. destruct Hu as [H1 H2].
    split; [exists r; auto | exact H2].
  - intros [[r [Hr [Hv Hrhs]]] HY]. exists r. split; [exact Hr|]. split; [exact Hv|].
    apply (unit_target_Var G r Hwf Hdj Hr). auto.
Qed.

Lemma ut_reach_unit_reach G : cfg_wf G -> names_disjoint G -> forall X Y, tc (utstep G) X Y <-> unit_reach G X Y.
Proof.
  intros Hwf Hdj X Y. unfold unit_reach. split; apply tc_equiv; intros x y H; apply (utstep_ustep G Hwf Hdj); exact H.
Qed.

Theorem cfg_derivable_correct G A : cfg_wf G -> names_disjoint G ->
  exists W, cfg_derivable G A = Some W /\ forall B, In B W <-> B <> A /\ unit_reach G A B.
Proof.
  intros Hwf Hdj. destruct (cfg_derivable_ut G A) as [W [E HW]]. exists W. split; [exact E|].
  intros B. rewrite HW, (ut_reach_unit_reach G Hwf Hdj). tauto.
Qed.

(* ------------------------------------------------------------------------------------------ *)
(* cfg_eliminate_unit_rules_in_place *)

Definition unit_rhs (rhs : list sym) : bool := match rhs with [x] => is_var x | _ => false end.
Lemma is_unit_rhs r : is_unit r = unit_rhs (rrhs r).
Proof. reflexivity. Qed.

Lemma unit_rhs_true rhs : unit_rhs rhs = true -> exists B, rhs = [Var B].
Proof.
  destruct rhs as [|[b n] [|y l]]; cbn; try discriminate. intros ->. exists n. reflexivity.
Qed.

Definition eu_copy (A : nat) (W : list nat) (R1 : list rule) (r : rule) : list rule :=
  if mem (rvar r) W && negb (is_unit r)
  then let r1 := mkRule A (rid r) (rrhs r) in if existsb (rule_eqb r1) R1 then R1 else R1 ++ [r1]
  else R1.
Definition eu_step (G : cfg) (acc : option (list rule)) (A : nat) : option (list rule) :=
  match acc, cfg_derivable G A with
  | Some R1, Some W => Some (fold_left (eu_copy A W) (gR G) R1)
  | _, _ => None
  end.

Lemma elim_unit_unfold ordV G :
  elim_unit ordV G = match fold_left (eu_step G) (ordV (gV G)) (Some (gR G)) with
                     | None => None
                     | Some R1 => Some (mkCFG (gV G) (gSg G) (put_start_in_front (gS G) (filter (fun r => negb (is_unit r)) R1)) (gS G))
                     end.
Proof. reflexivity. Qed.

Lemma psf_perm s R : Permutation (put_start_in_front s R) R.
Proof.
  unfold put_start_in_front. destruct R as [|r0 rest]; [constructor|].
  destruct (Nat.eqb (rvar r0) s); [apply Permutation_refl|].
  match goal with |- Permutation (?f [] rest) _ => set (go := f) end.
  assert (Hgo : forall post pre, pre ++ post = rest -> Permutation (go pre post) (r0 :: rest)).
  { induction post as [|r post IH]; intros pre Hp.
    - apply Permutation_refl.
    - change (go pre (r :: post)) with (if Nat.eqb (rvar r) s then r :: pre ++ r0 :: post else go (pre ++ [r]) post).
      destruct (Nat.eqb (rvar r) s).
      + rewrite <- Hp.
        transitivity (pre ++ r :: r0 :: post); [apply Permutation_middle|].
        transitivity (pre ++ r0 :: r :: post); [apply Permutation_app_head, perm_swap|].
        symmetry. apply (Permutation_middle pre (r :: post) r0).
      + apply IH. rewrite <- app_assoc. exact Hp. }
  apply Hgo. reflexivity.
Qed.

Lemma psf_In s R r : In r (put_start_in_front s R) <-> In r R.
Proof.
  split; apply Permutation_in; [apply psf_perm | apply Permutation_sym, psf_perm].
Qed.

Lemma eu_copy_fold A W L : forall R1,
  incl R1 (fold_left (eu_copy A W) L R1) /\
  (forall r, In r (fold_left (eu_copy A W) L R1) ->
     In r R1 \/ exists r0, In r0 L /\ In (rvar r0) W /\ is_unit r0 = false /\ r = mkRule A (rid r0) (rrhs r0)) /\
  (forall r0, In r0 L -> In (rvar r0) W -> is_unit r0 = false ->
     exists r, In r (fold_left (eu_copy A W) L R1) /\ rvar r = A /\ rrhs r = rrhs r0).
Proof.
  induction L as [|r1 L IH]; intros R1; cbn [fold_left].
  - split; [apply incl_refl|]. split; [intros r Hr; left; exact Hr | intros r0 []].
  - destruct (IH (eu_copy A W R1 r1)) as [IH1 [IH2 IH3]].
    assert (Hc1 : incl R1 (eu_copy A W R1 r1)).
    { unfold eu_copy. destruct (mem (rvar r1) W && negb (is_unit r1)); [|apply incl_refl]. cbv zeta.
      destruct (existsb _ R1); [apply incl_refl | apply incl_appl, incl_refl]. }
    assert (Hc2 : forall r, In r (eu_copy A W R1 r1) -> In r R1 \/
               (In (rvar r1) W /\ is_unit r1 = false /\ r = mkRule A (rid r1) (rrhs r1))).
    { intros r. unfold eu_copy. destruct (mem (rvar r1) W && negb (is_unit r1)) eqn:E; [|auto]. cbv zeta.
      apply andb_true_iff in E. destruct E as [E1 E2]. apply mem_In in E1. apply negb_true_iff in E2.
      destruct (existsb _ R1); [auto|]. rewrite in_app_iff. intros [H|[<-|[]]]; auto. }
    assert (Hc3 : In (rvar r1) W -> is_unit r1 = false -> exists r, In r (eu_copy A W R1 r1) /\ rvar r = A /\ rrhs r = rrhs r1).
    { intros H1 H2. unfold eu_copy. apply mem_In in H1. rewrite H1, H2. cbn [andb negb]. cbv zeta.
      destruct (existsb (rule_eqb (mkRule A (rid r1) (rrhs r1))) R1) eqn:E.
      - apply existsb_rule_eqb in E. destruct E as [r' [Hr' [Ev Er]]]. cbn in Ev, Er. exists r'. auto.
      - exists (mkRule A (rid r1) (rrhs r1)). split; [apply in_app_iff; right; left; reflexivity | cbn; auto]. }
    split; [eapply incl_tran; eassumption|]. split.
    + intros r Hr. destruct (IH2 r Hr) as [H|[r0 [H0 H]]].
      * destruct (Hc2 r H) as [H'|H']; [left; exact H' | right; exists r1; split; [left; reflexivity | exact H']].
      * right. exists r0. split; [right; exact H0 | exact H].
    + intros r0 [<-|H0] HW Hu.
      * destruct (Hc3 HW Hu) as [r [Hr He]]. exists r. split; [apply IH1; exact Hr | exact He].
      * apply IH3; assumption.
Qed.

Lemma eu_outer G As : forall R1,
  exists R', fold_left (eu_step G) As (Some R1) = Some R' /\ incl R1 R' /\
   (forall r, In r R' -> In r R1 \/ exists A W r0, In A As /\ cfg_derivable G A = Some W /\
       In r0 (gR G) /\ In (rvar r0) W /\ is_unit r0 = false /\ r = mkRule A (rid r0) (rrhs r0)) /\
   (forall A W r0, In A As -> cfg_derivable G A = Some W -> In r0 (gR G) -> In (rvar r0) W -> is_unit r0 = false ->
       exists r, In r R' /\ rvar r = A /\ rrhs r = rrhs r0).
Proof.
  induction As as [|A As IH]; intros R1.
  - exists R1. split; [reflexivity|]. split; [apply incl_refl|]. split; [intros r Hr; left; exact Hr|].
    intros A W r0 [].
  - destruct (cfg_derivable_ut G A) as [W [E _]].
    assert (Es : eu_step G (Some R1) A = Some (fold_left (eu_copy A W) (gR G) R1)) by (unfold eu_step; rewrite E; reflexivity).
    cbn [fold_left]. rewrite Es.
    destruct (eu_copy_fold A W (gR G) R1) as [C1 [C2 C3]].
    destruct (IH (fold_left (eu_copy A W) (gR G) R1)) as [R' [ER' [I1 [I2 I3]]]].
    exists R'. split; [exact ER'|]. split; [eapply incl_tran; eassumption|]. split.
    + intros r Hr. destruct (I2 r Hr) as [H|[A' [W' [r0 [HA' H]]]]].
      * destruct (C2 r H) as [H'|[r0 H']]; [left; exact H'|]. right. exists A, W, r0. split; [left; reflexivity|]. split; [exact E | exact H'].
      * right. exists A', W', r0. split; [right; exact HA' | exact H].
    + intros A' W' r0 [<-|HA'] EW' Hr0 HW' Hu.
      * rewrite E in EW'. inversion EW'; subst W'.
        destruct (C3 r0 Hr0 HW' Hu) as [r [Hr He]]. exists r. split; [apply I1; exact Hr | exact He].
      * eapply I3; eassumption.
Qed.

Theorem elim_unit_total ordV G : elim_unit ordV G <> None.
Proof.
  rewrite elim_unit_unfold. destruct (eu_outer G (ordV (gV G)) (gR G)) as [R' [E _]]. rewrite E. discriminate.
Qed.

Lemma unit_reach_has_rule G A B : unit_reach G A B -> exists rhs, has_rule G A rhs.
Proof. intros H. destruct H as [x y [H _]|x y z [H _] _]; eexists; exact H. Qed.

(* the rule set produced by unit elimination *)
Lemma elim_unit_rules ordV G G' : cfg_wf G -> names_disjoint G -> (forall l, Permutation (ordV l) l) ->
  elim_unit ordV G = Some G' ->
  forall A rhs, has_rule G' A rhs <-> unit_rhs rhs = false /\ exists B, (B = A \/ unit_reach G A B) /\ has_rule G B rhs.
Proof.
  intros Hwf Hdj Hperm E A rhs. rewrite elim_unit_unfold in E.
  destruct (eu_outer G (ordV (gV G)) (gR G)) as [R' [ER' [I1 [I2 I3]]]]. rewrite ER' in E. inversion E; subst G'; clear E.
  unfold has_rule at 1. cbn [gR]. split.
  - intros [r [Hr [Hv Hrhs]]]. apply psf_In, filter_In in Hr. destruct Hr as [Hr Hu]. apply negb_true_iff in Hu.
    split; [rewrite <- Hrhs, <- is_unit_rhs; exact Hu|].
    destruct (I2 r Hr) as [H|[A' [W [r0 [HA' [EW [Hr0 [HW [Hu0 ->]]]]]]]]].
    + exists A. split; [left; reflexivity | exists r; auto].
    + cbn in Hv, Hrhs. subst A' rhs. destruct (cfg_derivable_correct G A Hwf Hdj) as [W' [EW' HW']].
      rewrite EW in EW'. inversion EW'; subst W'. apply HW' in HW. destruct HW as [_ Hreach].
      exists (rvar r0). split; [right; exact Hreach | exists r0; auto].
  - intros [Hu [B [HB [r0 [Hr0 [Hv0 Hrhs0]]]]]].
    assert (Hu0 : is_unit r0 = false) by (rewrite is_unit_rhs, Hrhs0; exact Hu).
    assert (Hdirect : B = A -> exists r, In r (put_start_in_front (gS G) (filter (fun r => negb (is_unit r)) R')) /\ rvar r = A /\ rrhs r = rhs).
    { intros ->. exists r0. split; [|auto]. apply psf_In, filter_In. split; [apply I1; exact Hr0 | rewrite Hu0; reflexivity]. }
    destruct HB as [HB|HB]; [apply Hdirect; exact HB|].
    destruct (Nat.eq_dec B A) as [HBA|HBA]; [apply Hdirect; exact HBA|].
    assert (HAV : In A (ordV (gV G))).
    { apply Permutation_in with (gV G); [apply Permutation_sym, Hperm|].
      destruct (unit_reach_has_rule G A B HB) as [x [r [Hr [Hv _]]]]. rewrite <- Hv. apply Hwf; exact Hr. }
    destruct (cfg_derivable_correct G A Hwf Hdj) as [W [EW HW]].
    assert (HBW : In (rvar r0) W) by (apply HW; rewrite Hv0; auto).
    destruct (I3 A W r0 HAV EW Hr0 HBW Hu0) as [r [Hr [Hv Hrhs]]].
    exists r. split; [|split; [exact Hv | congruence]].
    apply psf_In, filter_In. split; [exact Hr|]. rewrite is_unit_rhs, Hrhs, Hrhs0, Hu. reflexivity.
Qed.

Section UnitCore.
  Variables (G G' : cfg).
  Hypothesis Hwf : cfg_wf G.
  Hypothesis Hspec : forall A rhs, has_rule G' A rhs <->
    unit_rhs rhs = false /\ exists B, (B = A \/ unit_reach G A B) /\ has_rule G B rhs.

  Lemma ustep_yields A B w : ustep G A B -> yields G (Var B) w -> yields G (Var A) w.
  Proof.
    intros [Hr _] Hy. apply y_var with [Var B]; [exact Hr | apply yields_list_single; exact Hy].
  Qed.

  Lemma reach_yields A B w : unit_reach G A B -> yields G (Var B) w -> yields G (Var A) w.
  Proof.
    intros H. induction H as [x y Hxy|x y z Hxy _ IH]; intros Hy.
    - eapply ustep_yields; eassumption.
    - eapply ustep_yields; [exact Hxy | apply IH; exact Hy].
  Qed.

  Lemma unit_sound : (forall s w, yields G' s w -> yields G s w) /\ (forall l w, yields_list G' l w -> yields_list G l w).
  Proof.
    apply yields_mutind.
    - intros a. apply y_tm.
    - intros A rhs w Hr _ IH. apply Hspec in Hr. destruct Hr as [_ [B [HB Hr]]].
      assert (HyB : yields G (Var B) w) by (apply y_var with rhs; assumption).
      destruct HB as [->|HB]; [exact HyB | eapply reach_yields; eassumption].
    - apply yl_nil.
    - intros x xs w1 w2 _ IH1 _ IH2. apply yl_cons; assumption.
  Qed.

  Lemma unit_complete : (forall s w, yields G s w -> yields G' s w) /\ (forall l w, yields_list G l w -> yields_list G' l w).
  Proof.
    apply yields_mutind.
    - intros a. apply y_tm.
    - intros A rhs w Hr _ IH. destruct (unit_rhs rhs) eqn:Eu.
      + destruct (unit_rhs_true rhs Eu) as [B ->].
        apply yields_list_single in IH.
        inversion IH as [|B' rhs' w' Hr' Hl']; subst.
        apply Hspec in Hr'. destruct Hr' as [Hu' [C [HC HrC]]].
        assert (HAB : ustep G A B).
        { split; [exact Hr|]. destruct Hr as [r [Hr [_ Hrhs]]]. destruct (Hwf r Hr) as [_ Hx].
          specialize (Hx (Var B)). rewrite Hrhs in Hx. apply (Hx (or_introl eq_refl)). }
        apply y_var with rhs'; [|exact Hl']. apply Hspec. split; [exact Hu'|]. exists C. split; [|exact HrC].
        right. destruct HC as [->|HC]; [apply tc_one; exact HAB | apply tc_step with B; assumption].
      + apply y_var with rhs; [|exact IH]. apply Hspec. split; [exact Eu|]. exists A. split; [left; reflexivity | exact Hr].
    - apply yl_nil.
    - intros x xs w1 w2 _ IH1 _ IH2. apply yl_cons; assumption.
  Qed.
End UnitCore.

Definition perm_order (ordV : list nat -> list nat) : Prop := forall l, Permutation (ordV l) l.

Theorem elim_unit_correct ordV G G' : cfg_wf G -> names_disjoint G -> perm_order ordV -> elim_unit ordV G = Some G' ->
  cfg_wf G' /\ gV G' = gV G /\ gSg G' = gSg G /\ gS G' = gS G /\
  (forall r, In r (gR G') -> is_unit r = false) /\
  (forall A w, yields G' (Var A) w <-> yields G (Var A) w) /\
  (forall r, In r (gR G') -> rrhs r = [] ->
     exists r0, In r0 (gR G) /\ rrhs r0 = [] /\ (rvar r0 = rvar r \/ unit_reach G (rvar r) (rvar r0))) /\
  (ids_consistent (gR G) -> ids_consistent (gR G')) /\
  (forall ordV2 G2, perm_order ordV2 -> elim_unit ordV2 G = Some G2 ->
     forall A rhs, has_rule G' A rhs <-> has_rule G2 A rhs).
Proof.
  intros Hwf Hdj Hperm E.
  pose proof (elim_unit_rules ordV G G' Hwf Hdj Hperm E) as Hspec.
  rewrite elim_unit_unfold in E.
  destruct (eu_outer G (ordV (gV G)) (gR G)) as [R' [ER' [I1 [I2 I3]]]]. rewrite ER' in E.
  assert (EG : G' = mkCFG (gV G) (gSg G) (put_start_in_front (gS G) (filter (fun r => negb (is_unit r)) R')) (gS G))
    by (inversion E; reflexivity).
  clear E.
  assert (Horig : forall r, In r (gR G') -> is_unit r = false /\ In (rvar r) (gV G) /\
            exists r0, In r0 (gR G) /\ rid r = rid r0 /\ rrhs r = rrhs r0).
  { intros r Hr. rewrite EG in Hr. cbn [gR] in Hr. apply psf_In, filter_In in Hr. destruct Hr as [Hr Hu].
    apply negb_true_iff in Hu. split; [exact Hu|].
    destruct (I2 r Hr) as [H|[A [W [r0 [HA [_ [Hr0 [_ [_ ->]]]]]]]]].
    - split; [apply Hwf; exact H | exists r; auto].
    - cbn [rvar rid rrhs]. split; [apply Permutation_in with (ordV (gV G)); [apply Hperm | exact HA] | exists r0; auto]. }
  split; [|split; [rewrite EG; reflexivity|split; [rewrite EG; reflexivity|split; [rewrite EG; reflexivity|]]]].
  - intros r Hr. destruct (Horig r Hr) as [_ [HV [r0 [Hr0 [_ Hrhs]]]]].
    assert (EV : gV G' = gV G) by (rewrite EG; reflexivity).
    assert (ESg : gSg G' = gSg G) by (rewrite EG; reflexivity).
    rewrite EV, ESg. split; [exact HV|]. rewrite Hrhs. apply Hwf; exact Hr0.
  - split; [intros r Hr; apply Horig; exact Hr|]. split; [|split; [|split]].
    + intros A w. split; [apply (proj1 (unit_sound G G' Hspec)) | apply (proj1 (unit_complete G G' Hwf Hspec))].
    + intros r Hr Hnil. assert (Hh : has_rule G' (rvar r) []) by (exists r; auto).
      apply Hspec in Hh. destruct Hh as [_ [B [HB [r0 [Hr0 [Hv0 Hrhs0]]]]]].
      exists r0. split; [exact Hr0|]. split; [exact Hrhs0|]. rewrite Hv0. exact HB.
    + intros Hids r1 r2 Hr1 Hr2 Eid.
      destruct (Horig r1 Hr1) as [_ [_ [s1 [Hs1 [Ei1 Er1]]]]].
      destruct (Horig r2 Hr2) as [_ [_ [s2 [Hs2 [Ei2 Er2]]]]].
      rewrite Er1, Er2. apply Hids; [exact Hs1 | exact Hs2 | congruence].
    + intros ordV2 G2 Hperm2 E2 A rhs.
      rewrite Hspec. rewrite (elim_unit_rules ordV2 G G2 Hwf Hdj Hperm2 E2). tauto.
Qed.

