From GT Require Import Base.Prelude Model.TM.

(* ---------- specification: Sipser semantics on an infinite tape (a function nat -> symbol) ---------- *)
Definition sconfig := (nat * (nat -> nat) * nat)%type.
Definition upd (t : nat -> nat) (h b : nat) : nat -> nat := fun i => if Nat.eqb i h then b else t i.

Definition step_s (T : tm) (c : sconfig) : sconfig :=
  let '(p, t, h) := c in
  let a := t h in
  let '(q, b, d) := match lookup (p, a) (tD T) with Some x => x | None => (tqr T, a, false) end in
  (q, upd t h b, if d then Nat.pred h else S h).

Fixpoint iter_s (T : tm) (n : nat) (c : sconfig) : sconfig :=
  match n with 0 => c | S n' => iter_s T n' (step_s T c) end.

Definition init_s (T : tm) (w : word) : sconfig := (tq0 T, fun i => nth i w (tblank T), 0).
Definition st (c : sconfig) : nat := fst (fst c).
Definition is_halting (T : tm) (q : nat) : Prop := q = tqa T \/ q = tqr T.

(* the machine is in state q after exactly i steps, and in no halting state before *)
Definition enters_at (T : tm) (c : sconfig) (q i : nat) : Prop :=
  st (iter_s T i c) = q /\ forall j, j < i -> ~ is_halting T (st (iter_s T j c)).
Definition enters_within (T : tm) (c : sconfig) (q k : nat) : Prop := exists i, i <= k /\ enters_at T c q i.

(* ---------- run on the specification side ---------- *)
Fixpoint run_s (T : tm) (k : nat) (c : sconfig) : option bool :=
  if Nat.eqb (st c) (tqa T) then Some true
  else if Nat.eqb (st c) (tqr T) then Some false
  else match k with 0 => None | S k' => run_s T k' (step_s T c) end.

Lemma iter_s_S T n c : iter_s T (S n) c = iter_s T n (step_s T c).
Proof. reflexivity. Qed.

Lemma run_s_true T k : forall c, run_s T k c = Some true <-> enters_within T c (tqa T) k.
Proof.
  induction k as [|k IH]; intros c; cbn [run_s].
  - destruct (Nat.eqb (st c) (tqa T)) eqn:Ea.
    + apply Nat.eqb_eq in Ea. split; [intros _|reflexivity]. exists 0. split; [lia|]. split; [exact Ea | intros j Hj; lia].
    + apply Nat.eqb_neq in Ea. split.
      * destruct (Nat.eqb (st c) (tqr T)); discriminate.
      * intros [i [Hi [Hs _]]]. assert (i = 0) by lia. subst. cbn in Hs. contradiction.
  - destruct (Nat.eqb (st c) (tqa T)) eqn:Ea.
    + apply Nat.eqb_eq in Ea. split; [intros _|reflexivity]. exists 0. split; [lia|]. split; [exact Ea | intros j Hj; lia].
    + apply Nat.eqb_neq in Ea. destruct (Nat.eqb (st c) (tqr T)) eqn:Er.
      * apply Nat.eqb_eq in Er. split; [discriminate|]. intros [i [Hi [Hs Hn]]].
        destruct i; [cbn in Hs; contradiction|]. exfalso. apply (Hn 0); [lia|]. right. exact Er.
      * apply Nat.eqb_neq in Er. rewrite IH. split.
        -- intros [i [Hi [Hs Hn]]]. exists (S i). split; [lia|]. split; [exact Hs|].
           intros [|j] Hj; [cbn; intros [Hc|Hc]; contradiction|]. rewrite iter_s_S. apply Hn. lia.
        -- intros [i [Hi [Hs Hn]]]. destruct i; [cbn in Hs; contradiction|]. exists i. split; [lia|]. split; [exact Hs|].
           intros j Hj. specialize (Hn (S j)). rewrite iter_s_S in Hn. apply Hn. lia.
Qed.

Lemma run_s_false T k : tqa T <> tqr T -> forall c, run_s T k c = Some false <-> enters_within T c (tqr T) k.
Proof.
  intros Hne. induction k as [|k IH]; intros c; cbn [run_s].
  - destruct (Nat.eqb (st c) (tqa T)) eqn:Ea.
    + apply Nat.eqb_eq in Ea. split; [discriminate|]. intros [i [Hi [Hs _]]]. assert (i = 0) by lia. subst. cbn in Hs. congruence.
    + apply Nat.eqb_neq in Ea. destruct (Nat.eqb (st c) (tqr T)) eqn:Er.
      * apply Nat.eqb_eq in Er. split; [intros _|reflexivity]. exists 0. split; [lia|]. split; [exact Er | intros j Hj; lia].
      * apply Nat.eqb_neq in Er. split; [discriminate|]. intros [i [Hi [Hs _]]]. assert (i = 0) by lia. subst. cbn in Hs. contradiction.
  - destruct (Nat.eqb (st c) (tqa T)) eqn:Ea.
    + apply Nat.eqb_eq in Ea. split; [discriminate|]. intros [i [Hi [Hs Hn]]].
      destruct i; [cbn in Hs; congruence|]. exfalso. apply (Hn 0); [lia|]. left. exact Ea.
    + apply Nat.eqb_neq in Ea. destruct (Nat.eqb (st c) (tqr T)) eqn:Er.
      * apply Nat.eqb_eq in Er. split; [intros _|reflexivity]. exists 0. split; [lia|]. split; [exact Er | intros j Hj; lia].
      * apply Nat.eqb_neq in Er. rewrite IH. split.
        -- intros [i [Hi [Hs Hn]]]. exists (S i). split; [lia|]. split; [exact Hs|].
           intros [|j] Hj; [cbn; intros [Hc|Hc]; contradiction|]. rewrite iter_s_S. apply Hn. lia.
        -- intros [i [Hi [Hs Hn]]]. destruct i; [cbn in Hs; contradiction|]. exists i. split; [lia|]. split; [exact Hs|].
           intros j Hj. specialize (Hn (S j)). rewrite iter_s_S in Hn. apply Hn. lia.
Qed.

(* ---------- refinement: finite list tape, lazily extended with blanks ---------- *)
Definition sim (T : tm) (c : config) (sc : sconfig) : Prop :=
  let '(q, tape, h) := c in let '(q', t, h') := sc in
  q = q' /\ h = h' /\ h < length tape /\ forall i, nth i tape (tblank T) = t i.

Lemma nth_set_nth (l : list nat) : forall h b i d, h < length l -> nth i (set_nth h b l) d = if Nat.eqb i h then b else nth i l d.
Proof.
  induction l as [|x l IH]; intros h b i d Hh; [cbn in Hh; lia|].
  destruct h as [|h]; cbn [set_nth].
  - destruct i; reflexivity.
  - destruct i as [|i]; [reflexivity|]. cbn [nth]. rewrite IH by (cbn in Hh; lia). reflexivity.
Qed.

Lemma length_set_nth (l : list nat) : forall h b, length (set_nth h b l) = length l.
Proof. induction l as [|x l IH]; intros [|h] b; cbn; auto. Qed.

Lemma nth_app_blank (l : list nat) b i : nth i (l ++ [b]) b = nth i l b.
Proof.
  destruct (Nat.lt_ge_cases i (length l)) as [Hl|Hl].
  - apply app_nth1; exact Hl.
  - rewrite app_nth2 by exact Hl. rewrite (nth_overflow l) by exact Hl.
    destruct (i - length l) as [|[|n]]; reflexivity.
Qed.

Lemma sim_init T w : sim T (tm_init T w) (init_s T w).
Proof.
  unfold tm_init, init_s, sim. split; [reflexivity|]. split; [reflexivity|]. destruct w as [|a w]; cbn [length].
  - split; [lia|]. intros [|[|i]]; reflexivity.
  - split; [lia|]. reflexivity.
Qed.

Lemma sim_step T c sc : sim T c sc -> sim T (tm_step T c) (step_s T sc).
Proof.
  destruct c as [[q tape] h], sc as [[q' t] h']. cbn [sim]. intros (<- & <- & Hh & Ht).
  unfold tm_step, step_s. rewrite <- (Ht h).
  destruct (match lookup (q, nth h tape (tblank T)) (tD T) with Some x => x | None => (tqr T, nth h tape (tblank T), false) end) as [[q1 b] d].
  cbn [sim]. split; [reflexivity|]. split; [reflexivity|].
  set (h1 := if d then Nat.pred h else S h).
  assert (Hh1 : h1 <= length tape) by (unfold h1; destruct d; lia).
  destruct (Nat.eqb h1 (length (set_nth h b tape))) eqn:E.
  - apply Nat.eqb_eq in E. rewrite app_length, length_set_nth in *. cbn [length]. split; [lia|].
    intros i. rewrite nth_app_blank, nth_set_nth by exact Hh. unfold upd. rewrite Ht. reflexivity.
  - apply Nat.eqb_neq in E. rewrite length_set_nth in *. split; [lia|].
    intros i. rewrite nth_set_nth by exact Hh. unfold upd. rewrite Ht. reflexivity.
Qed.

Lemma tm_run_refines T k : forall c sc, sim T c sc -> tm_run T k c = run_s T k sc.
Proof.
  induction k as [|k IH]; intros [[q tape] h] [[q' t] h'] Hs;
    pose proof Hs as Hs2; cbn [sim] in Hs2; destruct Hs2 as (Hq & _); subst q'; cbn [tm_run run_s st fst].
  - reflexivity.
  - destruct (Nat.eqb q (tqa T)); [reflexivity|]. destruct (Nat.eqb q (tqr T)); [reflexivity|].
    apply IH. apply sim_step. exact Hs.
Qed.

(* ---------- the verdict theorems ---------- *)
Theorem tm_verdict_true T w k :
  tm_accepts T w k = Some true <-> enters_within T (init_s T w) (tqa T) k.
Proof. unfold tm_accepts. rewrite (tm_run_refines T k _ _ (sim_init T w)). apply run_s_true. Qed.

Theorem tm_verdict_false T w k : tqa T <> tqr T ->
  (tm_accepts T w k = Some false <-> enters_within T (init_s T w) (tqr T) k).
Proof. intros Hne. unfold tm_accepts. rewrite (tm_run_refines T k _ _ (sim_init T w)). apply run_s_false; exact Hne. Qed.

Theorem tm_verdict_undecided T w k : tqa T <> tqr T ->
  (tm_accepts T w k = None <-> ~ enters_within T (init_s T w) (tqa T) k /\ ~ enters_within T (init_s T w) (tqr T) k).
Proof.
  intros Hne. rewrite <- tm_verdict_true, <- tm_verdict_false by exact Hne.
  destruct (tm_accepts T w k) as [[|]|].
  - split; [discriminate | intros [H1 _]; exfalso; apply H1; reflexivity].
  - split; [discriminate | intros [_ H2]; exfalso; apply H2; reflexivity].
  - split; [intros _; split; discriminate | reflexivity].
Qed.

Lemma tm_run_monotone T k : forall k' c b, k <= k' -> tm_run T k c = Some b -> tm_run T k' c = Some b.
Proof.
  induction k as [|k IH]; intros k' c b Hk; destruct c as [[q tape] h]; cbn [tm_run].
  - destruct k'; cbn [tm_run]; destruct (Nat.eqb q (tqa T)); auto; destruct (Nat.eqb q (tqr T)); auto; discriminate.
  - destruct k' as [|k']; [lia|]. cbn [tm_run]. destruct (Nat.eqb q (tqa T)); auto; destruct (Nat.eqb q (tqr T)); auto.
    apply IH. lia.
Qed.

Theorem tm_monotone T w k k' b : k <= k' -> tm_accepts T w k = Some b -> tm_accepts T w k' = Some b.
Proof. unfold tm_accepts. apply tm_run_monotone. Qed.

(* ---------- the recorded trace ---------- *)
Definition cstate (c : config) : nat := fst (fst c).

(* trace entries are the successive iterates of the step function *)
Fixpoint iter_c (T : tm) (n : nat) (c : config) : config :=
  match n with 0 => c | S n' => iter_c T n' (tm_step T c) end.

Lemma halting_spec T q : halting T q = true <-> is_halting T q.
Proof. unfold halting, is_halting. rewrite orb_true_iff, !Nat.eqb_eq. tauto. Qed.

Lemma tm_trace_nth T k : forall c i, i < length (tm_trace T k c) -> nth i (tm_trace T k c) c = iter_c T i c.
Proof.
  induction k as [|k IH]; intros c i Hi; destruct c as [[q tape] h] eqn:Ec; cbn [tm_trace] in *.
  - destruct (halting T q); cbn [length] in Hi; assert (i = 0) by lia; subst; reflexivity.
  - destruct (halting T q); [cbn [length] in Hi; assert (i = 0) by lia; subst; reflexivity|].
    destruct i as [|i]; [reflexivity|]. cbn [nth iter_c length] in *. rewrite <- IH by lia.
    apply nth_indep. lia.
Qed.

Lemma tm_trace_head T k c : exists l, tm_trace T k c = c :: l.
Proof. destruct k; destruct c as [[q tape] h]; cbn [tm_trace]; destruct (halting T q); eauto. Qed.

(* length: 1 + min (k, index of the first halting configuration) ; no halting state before the last entry *)
Lemma tm_trace_prefix_nonhalting T k : forall c i, S i < length (tm_trace T k c) -> halting T (cstate (iter_c T i c)) = false.
Proof.
  induction k as [|k IH]; intros c i Hi; destruct c as [[q tape] h] eqn:Ec; cbn [tm_trace] in *.
  - destruct (halting T q); cbn [length] in Hi; lia.
  - destruct (halting T q) eqn:Eh; [cbn [length] in Hi; lia|].
    destruct i as [|i]; [exact Eh|]. cbn [iter_c length] in *. apply IH. lia.
Qed.

Lemma tm_trace_length T k : forall c, length (tm_trace T k c) <= S k.
Proof.
  induction k as [|k IH]; intros [[q tape] h]; cbn [tm_trace]; destruct (halting T q); cbn [length]; try lia.
  specialize (IH (tm_step T (q, tape, h))). lia.
Qed.

Lemma last_cons {A} (x : A) l d : l <> [] -> last (x :: l) d = last l d.
Proof. destruct l; [congruence | reflexivity]. Qed.
Lemma last_indep {A} (l : list A) : forall d d', l <> [] -> last l d = last l d'.
Proof. induction l as [|x l IH]; intros d d' Hne; [congruence|]. destruct l; [reflexivity|]. cbn [last] in *. apply IH. discriminate. Qed.

(* a well-formed recording for budget k: consecutive entries are related by the step function, only the
   last entry may be halting, and the recording stops early only in a halting state *)
Inductive valid_trace (T : tm) : nat -> list config -> Prop :=
| vt_halt c k : halting T (cstate c) = true -> valid_trace T k [c]
| vt_budget c : halting T (cstate c) = false -> valid_trace T 0 [c]
| vt_step c k l : halting T (cstate c) = false -> valid_trace T k l -> hd c l = tm_step T c -> valid_trace T (S k) (c :: l).

Lemma tm_trace_valid T k : forall c, valid_trace T k (tm_trace T k c).
Proof.
  induction k as [|k IH]; intros [[q tape] h]; cbn [tm_trace]; destruct (halting T q) eqn:Eh.
  - apply vt_halt. exact Eh.
  - apply vt_budget. exact Eh.
  - apply vt_halt. exact Eh.
  - apply vt_step; [exact Eh | apply IH |].
    destruct (tm_trace_head T k (tm_step T (q, tape, h))) as [l El]. rewrite El. reflexivity.
Qed.

Definition verdict_of (T : tm) (q : nat) : option bool :=
  if Nat.eqb q (tqa T) then Some true else if Nat.eqb q (tqr T) then Some false else None.

(* the last entry of the trace agrees with the verdict *)
Lemma tm_trace_verdict T k : forall c, tm_run T k c = verdict_of T (cstate (last (tm_trace T k c) c)).
Proof.
  unfold verdict_of. induction k as [|k IH]; intros [[q tape] h]; cbn [tm_trace tm_run]; unfold halting.
  - destruct (Nat.eqb q (tqa T)) eqn:Ea, (Nat.eqb q (tqr T)) eqn:Er; cbn [orb last cstate fst]; rewrite ?Ea, ?Er; reflexivity.
  - destruct (Nat.eqb q (tqa T)) eqn:Ea, (Nat.eqb q (tqr T)) eqn:Er; cbn [orb].
    1-3: cbn [last cstate fst]; rewrite ?Ea, ?Er; reflexivity.
    rewrite IH.
    destruct (tm_trace_head T k (tm_step T (q, tape, h))) as [l El].
    rewrite last_cons by (rewrite El; discriminate).
    rewrite (last_indep _ (q, tape, h) (tm_step T (q, tape, h))) by (rewrite El; discriminate). reflexivity.
Qed.

Lemma sim_iter T n : forall c sc, sim T c sc -> sim T (iter_c T n c) (iter_s T n sc).
Proof. induction n as [|n IH]; intros c sc Hs; cbn [iter_c iter_s]; [exact Hs | apply IH, sim_step, Hs]. Qed.

(* enumeration under the same step budget *)
Theorem tm_words_exact T n k w :
  In w (tm_words T n k) <-> length w <= n /\ Forall (fun a => In a (tSg T)) w /\ tm_accepts T w k = Some true.
Proof.
  unfold tm_words. rewrite filter_In, words_upto_spec.
  destruct (tm_accepts T w k) as [[|]|]; split; intros H; try tauto; destruct H as [? ?]; try discriminate;
    destruct H0; discriminate.
Qed.
