(* C03 — Subset construction yields an equivalent total deterministic automaton.
   `canon` = print_state_set (a canonical name per set of states; sorted lists for nat states).
   nfa_to_dfa_fuel is the model of nfa_to_dfa with an explicit bound on the number of loop iterations. *)
From GT Require Import Base.Prelude Base.Sort Model.DFA Model.NFA Decide.DFAEquiv Proofs.SubsetProofs.
From GT Require Model.Tokens Model.Naming Proofs.NamingProofs.

Theorem C03_subset_construction_correct : forall (N : nfa nat) (fuel : nat) (D : dfa (list nat)),
  nfa_wf N -> nfa_to_dfa_fuel canon_nat N fuel = Some D ->
  dfa_wf D /\ dS D = nS N /\
  (forall w, Forall (fun a => In a (nS N)) w -> (dfa_lang D w <-> nfa_lang N w)) /\
  (forall q, In q (dq0 D) <-> eps_star N (nq0 N) q) /\
  (forall S0, In S0 (dQ D) -> exists w, Forall (fun a => In a (nS N)) w /\ dfa_path D (dq0 D) w S0) /\
  NoDup (dQ D).
Proof. exact (nfa_to_dfa_correct canon_nat (fun l y => canon_nat_In y l) canon_nat_ext). Qed.

Theorem C03_subset_construction_terminates : forall (N : nfa nat) (fuel : nat),
  nfa_wf N -> S (2 ^ length (nQ N)) <= fuel -> nfa_to_dfa_fuel canon_nat N fuel <> None.
Proof. exact (nfa_to_dfa_terminates canon_nat (fun l y => canon_nat_In y l) canon_nat_ext). Qed.

(* the oracle used by the judge to compare an NFA with the implementation's DFA is exact *)
Theorem C03_oracle_exact : forall (N : nfa nat) (D : dfa (list nat)), nfa_wf N -> dfa_wf D ->
  (nfa_dfa_equivb N D = true <-> seteq (nS N) (dS D) /\ forall w, Forall (fun a => In a (nS N)) w -> (nfa_lang N w <-> dfa_lang D w)).
Proof. exact (fun N D => nfa_dfa_equivb_correct N D). Qed.

(* ---- the names of the subset states (print_state_set: '{' + ','.join(sorted(Q)) + '}', Model/Naming.v on character tokens).
   The model above names a subset by its sorted list of codes; the Python names it by a string.  For state names accepted by
   the parsers (\w+) different subsets get different strings, and the string is read back as the subset; the two ways in
   which this can fail for constructor-built automata are exhibited (a name containing a comma; the set {''}). ---- *)
Theorem C03_subset_names_injective : forall Q1 Q2 : list Tokens.token,
  (forall x, In x Q1 -> Tokens.re_word x = true) -> (forall x, In x Q2 -> Tokens.re_word x = true) ->
  Naming.state_set_name Q1 = Naming.state_set_name Q2 -> forall x, In x Q1 <-> In x Q2.
Proof. exact NamingProofs.state_set_name_inj_words. Qed.

Theorem C03_subset_names_injective_general : forall Q1 Q2 : list Tokens.token,
  NamingProofs.no_char 44 (Q1 ++ Q2) -> ~ In [] (Q1 ++ Q2) ->
  Naming.state_set_name Q1 = Naming.state_set_name Q2 -> forall x, In x Q1 <-> In x Q2.
Proof. exact NamingProofs.state_set_name_inj. Qed.

Theorem C03_subset_names_read_back : forall Q : list Tokens.token, (forall x, In x Q -> Tokens.re_word x = true) ->
  Naming.parse_state_set (Naming.state_set_name Q) = Some (Naming.sort_tokens Q).
Proof. exact NamingProofs.parse_state_set_name_words. Qed.

Print Assumptions C03_subset_construction_correct.
Print Assumptions C03_subset_construction_terminates.
Print Assumptions C03_oracle_exact.
Print Assumptions C03_subset_names_injective.
Print Assumptions C03_subset_names_injective_general.
Print Assumptions C03_subset_names_read_back.
