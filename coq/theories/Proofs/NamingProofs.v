(* Proofs about Model/Naming.v: Python's string order on tokens is a total order, sorted(Q) is canonical, and
   the naming functions print_state_set / make_state / variable / '{}{}'.format(hint, index) are injective exactly
   under the hypotheses stated below (each hypothesis is shown necessary by a machine-checked counterexample).
   In particular they are injective on names matching \w+ (the only state names the parsers accept). *)
From Coq Require Import String Ascii Permutation Sorted.
From GT Require Import Base.Prelude Model.Tokens Model.FreshName Model.Naming Proofs.FreshNameProofs.

(* ------------------------------------------------------------------------------------------------ *)
(* code points                                                                                      *)
(* ------------------------------------------------------------------------------------------------ *)

Lemma range_true a b c : (Nat.leb a c && Nat.leb c b)%bool = true <-> a <= c <= b.
Proof. rewrite andb_true_iff, !Nat.leb_le. tauto. Qed.

Lemma range_false a b c : (Nat.leb a c && Nat.leb c b)%bool = false <-> c < a \/ b < c.
Proof. rewrite andb_false_iff, !Nat.leb_gt. tauto. Qed.

(* on the codes produced by the coding of Tokens.v, the code point determines the code *)
Lemma codepoint_inj x y : code_ok x = true -> code_ok y = true -> codepoint x = codepoint y -> x = y.
Proof.
  unfold code_ok, codepoint.
  destruct (Nat.leb 148 x && Nat.leb x 222)%bool eqn:Ex; destruct (Nat.leb 148 y && Nat.leb y 222)%bool eqn:Ey;
    intros Hx Hy E.
  - apply range_true in Ex. apply range_true in Ey. lia.
  - apply range_true in Ex. apply range_false in Ey.
    assert (H1 : (Nat.leb 48 y && Nat.leb y 122)%bool = true) by (apply range_true; lia).
    assert (H2 : (Nat.leb 48 x && Nat.leb x 122)%bool = false) by (apply range_false; lia).
    rewrite H1 in Hy. rewrite H2 in Hx. rewrite E in Hx. rewrite Hx in Hy. discriminate Hy.
  - apply range_false in Ex. apply range_true in Ey.
    assert (H1 : (Nat.leb 48 x && Nat.leb x 122)%bool = true) by (apply range_true; lia).
    assert (H2 : (Nat.leb 48 y && Nat.leb y 122)%bool = false) by (apply range_false; lia).
    rewrite H1 in Hx. rewrite H2 in Hy. rewrite <- E in Hy. rewrite Hy in Hx. discriminate Hx.
  - exact E.
Qed.

(* without code_ok the code point does not determine the code: 158 = 100 + ord ':' is not a code *)
Lemma codepoint_not_inj_cex : codepoint 158 = codepoint 58 /\ 158 <> 58.
Proof. split; [vm_compute; reflexivity | discriminate]. Qed.

(* every ASCII character of a Coq string is mapped by Tokens.tok to a code satisfying code_ok *)
Lemma code_of_ascii_ok (c : ascii) : Nat.ltb (nat_of_ascii c) 128 = true -> code_ok (code_of_ascii c) = true.
Proof.
  destruct c as [b0 b1 b2 b3 b4 b5 b6 b7].
  destruct b0, b1, b2, b3, b4, b5, b6, b7; vm_compute; intros Hc; first [reflexivity | discriminate Hc].
Qed.

Lemma map_codepoint_inj a : forall b, tok_ok a = true -> tok_ok b = true -> map codepoint a = map codepoint b -> a = b.
Proof.
  induction a as [|x a IH]; intros [|y b] Ha Hb E; cbn [map] in E; try discriminate E; [reflexivity|].
  cbn [tok_ok forallb] in Ha, Hb. apply andb_true_iff in Ha. apply andb_true_iff in Hb.
  destruct Ha as [Hx Ha]. destruct Hb as [Hy Hb]. injection E as E1 E2.
  f_equal; [apply codepoint_inj; assumption | apply IH; assumption].
Qed.

(* ------------------------------------------------------------------------------------------------ *)
(* Python's <= on strings is a total order                                                          *)
(* ------------------------------------------------------------------------------------------------ *)

Lemma tok_leb_cons x a y b :
  tok_leb (x :: a) (y :: b) = true <-> codepoint x < codepoint y \/ (codepoint x = codepoint y /\ tok_leb a b = true).
Proof.
  cbn [tok_leb]. destruct (Nat.ltb (codepoint x) (codepoint y)) eqn:E1.
  - apply Nat.ltb_lt in E1. split; [intros _; left; exact E1 | reflexivity].
  - apply Nat.ltb_ge in E1. destruct (Nat.eqb (codepoint x) (codepoint y)) eqn:E2.
    + apply Nat.eqb_eq in E2. split; [intros Hl; right; split; assumption | intros [Hl|[_ Hl]]; [lia | exact Hl]].
    + apply Nat.eqb_neq in E2. split; [discriminate | intros [Hl|[Hl _]]; lia].
Qed.

Theorem tok_leb_refl a : tok_leb a a = true.
Proof.
  induction a as [|x a IH]; [reflexivity|]. apply tok_leb_cons. right. split; [reflexivity | exact IH].
Qed.

Theorem tok_leb_total a : forall b, tok_leb a b = true \/ tok_leb b a = true.
Proof.
  induction a as [|x a IH]; intros [|y b]; try (left; reflexivity); try (right; reflexivity).
  rewrite !tok_leb_cons. destruct (Nat.lt_trichotomy (codepoint x) (codepoint y)) as [Hl|[He|Hl]].
  - left. left. exact Hl.
  - destruct (IH b) as [Hab|Hba]; [left | right]; right; split; [exact He | exact Hab | symmetry; exact He | exact Hba].
  - right. left. exact Hl.
Qed.

Theorem tok_leb_trans a : forall b c, tok_leb a b = true -> tok_leb b c = true -> tok_leb a c = true.
Proof.
  induction a as [|x a IH]; intros [|y b] [|z c]; try reflexivity; try discriminate.
  rewrite !tok_leb_cons. intros [H1|[H1 H1']] [H2|[H2 H2']].
  - left; lia.
  - left; lia.
  - left; lia.
  - right. split; [lia | exact (IH b c H1' H2')].
Qed.

(* antisymmetry up to code points: no hypothesis *)
Lemma tok_leb_antisym_cp a : forall b, tok_leb a b = true -> tok_leb b a = true -> map codepoint a = map codepoint b.
Proof.
  induction a as [|x a IH]; intros [|y b]; try reflexivity; try discriminate.
  rewrite !tok_leb_cons. intros [H1|[H1 H1']] [H2|[H2 H2']]; try lia.
  cbn [map]. f_equal; [exact H1 | exact (IH b H1' H2')].
Qed.

(* antisymmetry on tokens built from proper codes (every ASCII string; also non-ASCII codes >= 300) *)
Theorem tok_leb_antisym a b :
  tok_ok a = true -> tok_ok b = true -> tok_leb a b = true -> tok_leb b a = true -> a = b.
Proof.
  intros Ha Hb H1 H2. apply map_codepoint_inj; [exact Ha | exact Hb | apply tok_leb_antisym_cp; assumption].
Qed.

(* the hypothesis of antisymmetry is needed: "\158" and ":" are different tokens with the same code points *)
Lemma tok_leb_antisym_cex : tok_leb [158] [58] = true /\ tok_leb [58] [158] = true /\ [158] <> [58].
Proof. split; [reflexivity | split; [reflexivity | discriminate]]. Qed.

(* tokens of ASCII strings (all codes < 300, where the comparison is faithful) are a special case *)
Lemma tok_ascii_ok t : tok_ascii t = true -> tok_ok t = true /\ Forall (fun c => c < 300) t.
Proof.
  unfold tok_ascii, tok_ok. induction t as [|c t IH]; cbn [forallb]; [intros _; split; [reflexivity | constructor]|].
  intros Hc. apply andb_true_iff in Hc. destruct Hc as [Hc Ht]. apply andb_true_iff in Hc. destruct Hc as [Hc1 Hc2].
  destruct (IH Ht) as [IH1 IH2]. rewrite Hc1, IH1. split; [reflexivity|]. constructor; [apply Nat.ltb_lt; exact Hc2 | exact IH2].
Qed.

Corollary tok_leb_antisym_ascii a b :
  tok_ascii a = true -> tok_ascii b = true -> tok_leb a b = true -> tok_leb b a = true -> a = b.
Proof. intros Ha Hb. apply tok_leb_antisym; [apply (tok_ascii_ok a Ha) | apply (tok_ascii_ok b Hb)]. Qed.

(* a < b  is  not (b <= a) *)
Theorem tok_ltb_spec a : forall b, tok_ltb a b = negb (tok_leb b a).
Proof.
  induction a as [|x a IH]; intros [|y b]; try reflexivity.
  cbn [tok_ltb tok_leb]. destruct (Nat.lt_trichotomy (codepoint x) (codepoint y)) as [Hl|[He|Hl]].
  - rewrite (proj2 (Nat.ltb_lt _ _) Hl).
    rewrite (proj2 (Nat.ltb_ge (codepoint y) (codepoint x))) by lia.
    rewrite (proj2 (Nat.eqb_neq (codepoint y) (codepoint x))) by lia. reflexivity.
  - rewrite He, Nat.ltb_irrefl, Nat.eqb_refl. apply IH.
  - rewrite (proj2 (Nat.ltb_lt _ _) Hl).
    rewrite (proj2 (Nat.ltb_ge (codepoint x) (codepoint y))) by lia.
    rewrite (proj2 (Nat.eqb_neq (codepoint x) (codepoint y))) by lia. reflexivity.
Qed.

Corollary tok_ltb_leb a b : tok_ltb a b = true -> tok_leb a b = true.
Proof.
  rewrite tok_ltb_spec. intros Hn. apply negb_true_iff in Hn.
  destruct (tok_leb_total a b) as [Hab|Hba]; [exact Hab | congruence].
Qed.

Corollary tok_ltb_irrefl a : tok_ltb a a = false.
Proof. rewrite tok_ltb_spec, tok_leb_refl. reflexivity. Qed.

(* ------------------------------------------------------------------------------------------------ *)
(* sorted(Q)                                                                                         *)
(* ------------------------------------------------------------------------------------------------ *)

Definition leT (a b : token) : Prop := tok_leb a b = true.
(* every element is <= all later elements *)
Definition tsorted (l : list token) : Prop := StronglySorted leT l.

Lemma insert_tok_perm x l : Permutation (insert_tok x l) (x :: l).
Proof.
  induction l as [|y l IH]; cbn [insert_tok]; [reflexivity|].
  destruct (tok_leb x y); [reflexivity|].
  eapply perm_trans; [apply perm_skip; exact IH | apply perm_swap].
Qed.

Lemma insert_tok_sorted x l : tsorted l -> tsorted (insert_tok x l).
Proof.
  unfold tsorted. induction l as [|y l IH]; intros Hs; cbn [insert_tok].
  - constructor; constructor.
  - inversion Hs as [|y' l' Hs' Hall]; subst. destruct (tok_leb x y) eqn:E.
    + constructor; [exact Hs|]. constructor; [exact E|].
      apply Forall_forall. intros z Hz. rewrite Forall_forall in Hall.
      exact (tok_leb_trans x y z E (Hall z Hz)).
    + constructor; [apply IH; exact Hs'|].
      apply Forall_forall. intros z Hz. apply (Permutation_in _ (insert_tok_perm x l)) in Hz.
      destruct Hz as [<-|Hz].
      * destruct (tok_leb_total x y) as [Hxy|Hyx]; [congruence | exact Hyx].
      * rewrite Forall_forall in Hall. exact (Hall z Hz).
Qed.

Theorem sort_tokens_perm l : Permutation (sort_tokens l) (dedup l).
Proof.
  unfold sort_tokens. induction (dedup l) as [|x d IH]; cbn [fold_right]; [constructor|].
  eapply perm_trans; [apply insert_tok_perm | apply perm_skip; exact IH].
Qed.

Theorem sort_tokens_sorted l : tsorted (sort_tokens l).
Proof.
  unfold sort_tokens. induction (dedup l) as [|x d IH]; cbn [fold_right]; [constructor | apply insert_tok_sorted; exact IH].
Qed.

Corollary sort_tokens_Sorted l : Sorted leT (sort_tokens l).
Proof. apply StronglySorted_Sorted. apply sort_tokens_sorted. Qed.

Lemma sort_tokens_In x l : In x (sort_tokens l) <-> In x l.
Proof.
  rewrite <- (dedup_In x l). split; intros Hx.
  - exact (Permutation_in _ (sort_tokens_perm l) Hx).
  - exact (Permutation_in _ (Permutation_sym (sort_tokens_perm l)) Hx).
Qed.

Lemma sort_tokens_NoDup l : NoDup (sort_tokens l).
Proof. apply (Permutation_NoDup (Permutation_sym (sort_tokens_perm l))). apply dedup_NoDup. Qed.

Lemma sort_tokens_nil_inv l : sort_tokens l = [] -> l = [].
Proof.
  destruct l as [|x l]; [reflexivity|]. intros E. exfalso.
  assert (Hx : In x (sort_tokens (x :: l))) by (apply sort_tokens_In; left; reflexivity).
  rewrite E in Hx. exact Hx.
Qed.

(* two sorted duplicate-free lists with the same members are equal *)
Lemma tsorted_ext l1 : forall l2,
  tsorted l1 -> tsorted l2 -> NoDup l1 -> NoDup l2 ->
  (forall t, In t l1 -> tok_ok t = true) -> (forall t, In t l1 <-> In t l2) -> l1 = l2.
Proof.
  unfold tsorted. induction l1 as [|x l1 IH]; intros l2 H1 H2 N1 N2 Hok He.
  - destruct l2 as [|y l2]; [reflexivity|]. exfalso. apply (He y). left; reflexivity.
  - destruct l2 as [|y l2]; [exfalso; apply (He x); left; reflexivity|].
    inversion H1 as [|x' l1' Hs1 Hall1]; subst. inversion H2 as [|y' l2' Hs2 Hall2]; subst.
    inversion N1 as [|x' l1' Hnx Nd1]; subst. inversion N2 as [|y' l2' Hny Nd2]; subst.
    rewrite Forall_forall in Hall1, Hall2.
    assert (Hxy : x = y).
    { destruct (proj1 (He x) (or_introl eq_refl)) as [Eyx|Hx]; [symmetry; exact Eyx|].
      destruct (proj2 (He y) (or_introl eq_refl)) as [Exy|Hy]; [exact Exy|].
      apply tok_leb_antisym.
      - apply Hok; left; reflexivity.
      - apply Hok; right; exact Hy.
      - exact (Hall1 y Hy).
      - exact (Hall2 x Hx). }
    subst y. f_equal. apply IH; try assumption.
    + intros t Ht. apply Hok. right; exact Ht.
    + intros z. split; intros Hz.
      * destruct (proj1 (He z) (or_intror Hz)) as [Ez|Hz2]; [subst z; contradiction | exact Hz2].
      * destruct (proj2 (He z) (or_intror Hz)) as [Ez|Hz2]; [subst z; contradiction | exact Hz2].
Qed.

(* sorted(Q) depends only on the set Q (for names built from proper codes; in particular all codes < 300) *)
Theorem sort_tokens_canonical l1 l2 :
  (forall t, In t l1 -> tok_ok t = true) ->
  (forall t, In t l1 <-> In t l2) -> sort_tokens l1 = sort_tokens l2.
Proof.
  intros Hok He. apply tsorted_ext.
  - apply sort_tokens_sorted.
  - apply sort_tokens_sorted.
  - apply sort_tokens_NoDup.
  - apply sort_tokens_NoDup.
  - intros t Ht. apply Hok. apply sort_tokens_In. exact Ht.
  - intros t. rewrite !sort_tokens_In. apply He.
Qed.

Corollary sort_tokens_canonical_ascii l1 l2 :
  (forall t, In t l1 -> tok_ascii t = true) ->
  (forall t, In t l1 <-> In t l2) -> sort_tokens l1 = sort_tokens l2.
Proof. intros Hok. apply sort_tokens_canonical. intros t Ht. apply (tok_ascii_ok t (Hok t Ht)). Qed.

(* the hypothesis is needed: with the improper code 158 the result depends on the order of the input *)
Lemma sort_tokens_canonical_cex :
  (forall t, In t [[158]; [58]] <-> In t [[58]; [158]]) /\ sort_tokens [[158]; [58]] <> sort_tokens [[58]; [158]].
Proof. split; [intros t; cbn [In]; tauto | vm_compute; discriminate]. Qed.

Lemma dedup_NoDup_id (l : list token) : NoDup l -> dedup l = l.
Proof.
  induction l as [|x l IH]; intros Hn; [reflexivity|]. inversion Hn as [|x' l' Hx Hl]; subst.
  cbn [dedup]. rewrite (proj2 (mem_nIn x l) Hx). f_equal. apply IH; exact Hl.
Qed.

(* a sorted duplicate-free list is a fixed point (no hypothesis on the codes) *)
Lemma sort_tokens_sorted_id l : tsorted l -> NoDup l -> sort_tokens l = l.
Proof.
  unfold sort_tokens. intros Hs Hn. rewrite (dedup_NoDup_id l Hn). clear Hn.
  induction Hs as [|x l Hs IH Hall]; [reflexivity|]. cbn [fold_right]. rewrite IH.
  destruct l as [|y l]; [reflexivity|]. cbn [insert_tok].
  inversion Hall as [|y' l' Hxy Hrest]; subst. unfold leT in Hxy. rewrite Hxy. reflexivity.
Qed.

Corollary sort_tokens_idem l : sort_tokens (sort_tokens l) = sort_tokens l.
Proof. apply sort_tokens_sorted_id; [apply sort_tokens_sorted | apply sort_tokens_NoDup]. Qed.

(* ------------------------------------------------------------------------------------------------ *)
(* join / split                                                                                      *)
(* ------------------------------------------------------------------------------------------------ *)

(* no name of Q contains the character c *)
Definition no_char (c : nat) (Q : list token) : Prop := forall x, In x Q -> ~ In c x.

Lemma split_on_notin c t : ~ In c t -> split_on c t = [t].
Proof.
  induction t as [|a t IH]; intros Hn; cbn [split_on]; [reflexivity|].
  destruct (Nat.eqb a c) eqn:E.
  - apply Nat.eqb_eq in E. exfalso. apply Hn. left; exact E.
  - rewrite IH; [reflexivity | intros Hc; apply Hn; right; exact Hc].
Qed.

Lemma split_on_app c x r : ~ In c x -> split_on c (x ++ c :: r) = x :: split_on c r.
Proof.
  induction x as [|a x IH]; intros Hn; cbn [app split_on].
  - rewrite Nat.eqb_refl. reflexivity.
  - destruct (Nat.eqb a c) eqn:E.
    + apply Nat.eqb_eq in E. exfalso. apply Hn. left; exact E.
    + rewrite IH; [reflexivity | intros Hc; apply Hn; right; exact Hc].
Qed.

Lemma join_cons2 sep x y r : join sep (x :: y :: r) = x ++ sep ++ join sep (y :: r).
Proof. reflexivity. Qed.

(* s.join(l).split(s) = l  for a non-empty list of names without the separator *)
Theorem split_join c l : l <> [] -> no_char c l -> split_on c (join [c] l) = l.
Proof.
  unfold no_char. induction l as [|x l IH]; intros Hne Hn; [congruence|].
  destruct l as [|y r].
  - cbn [join]. apply split_on_notin. apply Hn. left; reflexivity.
  - rewrite join_cons2. change (x ++ [c] ++ join [c] (y :: r)) with (x ++ c :: join [c] (y :: r)).
    rewrite split_on_app by (apply Hn; left; reflexivity).
    f_equal. apply IH; [discriminate | intros z Hz; apply Hn; right; exact Hz].
Qed.

(* ''.join([]) = ''.join(['']) = '' is the only collision of join on separator-free names *)
Theorem join_inj c l1 l2 :
  no_char c l1 -> no_char c l2 -> join [c] l1 = join [c] l2 ->
  l1 = l2 \/ (l1 = [] /\ l2 = [[]]) \/ (l1 = [[]] /\ l2 = []).
Proof.
  intros H1 H2 E. destruct l1 as [|x1 r1], l2 as [|x2 r2].
  - left; reflexivity.
  - right; left. split; [reflexivity|].
    rewrite <- (split_join c (x2 :: r2)) by (discriminate || exact H2). rewrite <- E. reflexivity.
  - right; right. split; [|reflexivity].
    rewrite <- (split_join c (x1 :: r1)) by (discriminate || exact H1). rewrite E. reflexivity.
  - left. rewrite <- (split_join c (x1 :: r1)) by (discriminate || exact H1).
    rewrite <- (split_join c (x2 :: r2)) by (discriminate || exact H2). rewrite E. reflexivity.
Qed.

(* ------------------------------------------------------------------------------------------------ *)
(* print_state_set                                                                                   *)
(* ------------------------------------------------------------------------------------------------ *)

(* the set {''}: non-empty and the empty string is its only member *)
Definition only_empty_name (Q : list token) : Prop := Q <> [] /\ forall x, In x Q -> x = [].

Lemma state_set_name_unfold Q : state_set_name Q = 123 :: join [44] (sort_tokens Q) ++ [125].
Proof. destruct Q as [|x Q]; reflexivity. Qed.

Lemma sort_tokens_only_empty Q : sort_tokens Q = [[]] <-> only_empty_name Q.
Proof.
  unfold only_empty_name. split.
  - intros E. split.
    + intros ->. discriminate E.
    + intros x Hx. apply sort_tokens_In in Hx. rewrite E in Hx. destruct Hx as [<-|[]]. reflexivity.
  - intros [Hne Hall].
    assert (Hall' : forall x, In x (sort_tokens Q) -> x = []) by (intros x Hx; apply Hall, sort_tokens_In, Hx).
    pose proof (sort_tokens_NoDup Q) as Hnd.
    destruct (sort_tokens Q) as [|a [|b r]] eqn:ES.
    + apply sort_tokens_nil_inv in ES. contradiction.
    + rewrite (Hall' a (or_introl eq_refl)). reflexivity.
    + exfalso. inversion Hnd as [|a' l' Hna _]; subst. apply Hna.
      rewrite (Hall' a (or_introl eq_refl)), (Hall' b (or_intror (or_introl eq_refl))). left; reflexivity.
Qed.

Lemma only_empty_name_In Q : only_empty_name Q -> In [] Q.
Proof. intros [Hne Hall]. destruct Q as [|x Q]; [congruence|]. left. apply Hall. left; reflexivity. Qed.

Lemma no_char_sort c Q : no_char c Q -> no_char c (sort_tokens Q).
Proof. intros Hn x Hx. apply Hn. apply sort_tokens_In. exact Hx. Qed.

Lemma state_set_name_join Q1 Q2 :
  state_set_name Q1 = state_set_name Q2 -> join [44] (sort_tokens Q1) = join [44] (sort_tokens Q2).
Proof.
  rewrite !state_set_name_unfold. intros E. injection E as E. apply app_inv_tail in E. exact E.
Qed.

(* EXACT description of the collisions of print_state_set on comma-free names: the only one is {} = {''}.
   No hypothesis on braces, on the order or on the codes is needed. *)
Theorem state_set_name_eq_cases Q1 Q2 :
  no_char 44 Q1 -> no_char 44 Q2 -> state_set_name Q1 = state_set_name Q2 ->
  (forall x, In x Q1 <-> In x Q2) \/ (Q1 = [] /\ only_empty_name Q2) \/ (only_empty_name Q1 /\ Q2 = []).
Proof.
  intros H1 H2 E. apply state_set_name_join in E.
  destruct (join_inj 44 _ _ (no_char_sort 44 Q1 H1) (no_char_sort 44 Q2 H2) E) as [Es|[[Ea Eb]|[Ea Eb]]].
  - left. intros x. rewrite <- (sort_tokens_In x Q1), <- (sort_tokens_In x Q2), Es. tauto.
  - right; left. split; [apply sort_tokens_nil_inv; exact Ea | apply sort_tokens_only_empty; exact Eb].
  - right; right. split; [apply sort_tokens_only_empty; exact Ea | apply sort_tokens_nil_inv; exact Eb].
Qed.

(* injectivity, weakest form: neither set is {''} *)
Theorem state_set_name_inj_weak Q1 Q2 :
  no_char 44 Q1 -> no_char 44 Q2 -> ~ only_empty_name Q1 -> ~ only_empty_name Q2 ->
  state_set_name Q1 = state_set_name Q2 -> forall x, In x Q1 <-> In x Q2.
Proof.
  intros H1 H2 N1 N2 E. destruct (state_set_name_eq_cases Q1 Q2 H1 H2 E) as [He|[[_ Hc]|[Hc _]]];
    [exact He | contradiction | contradiction].
Qed.

(* injectivity, as requested: no name contains ',' and no name is empty *)
Theorem state_set_name_inj Q1 Q2 :
  no_char 44 (Q1 ++ Q2) -> ~ In [] (Q1 ++ Q2) ->
  state_set_name Q1 = state_set_name Q2 -> forall x, In x Q1 <-> In x Q2.
Proof.
  intros Hc Hn. apply state_set_name_inj_weak.
  - intros x Hx. apply Hc. apply in_or_app. left; exact Hx.
  - intros x Hx. apply Hc. apply in_or_app. right; exact Hx.
  - intros Ho. apply Hn. apply in_or_app. left. apply only_empty_name_In; exact Ho.
  - intros Ho. apply Hn. apply in_or_app. right. apply only_empty_name_In; exact Ho.
Qed.

(* well-definedness: the name depends only on the set (needs antisymmetry of the order, i.e. proper codes) *)
Theorem state_set_name_ext Q1 Q2 :
  (forall t, In t Q1 -> tok_ok t = true) -> (forall x, In x Q1 <-> In x Q2) -> state_set_name Q1 = state_set_name Q2.
Proof. intros Hok He. rewrite !state_set_name_unfold, (sort_tokens_canonical Q1 Q2 Hok He). reflexivity. Qed.

(* the complete characterisation *)
Theorem state_set_name_eq_iff Q1 Q2 :
  no_char 44 Q1 -> no_char 44 Q2 -> (forall t, In t Q1 -> tok_ok t = true) ->
  (state_set_name Q1 = state_set_name Q2 <->
   (forall x, In x Q1 <-> In x Q2) \/ (Q1 = [] /\ only_empty_name Q2) \/ (only_empty_name Q1 /\ Q2 = [])).
Proof.
  intros H1 H2 Hok. split; [apply state_set_name_eq_cases; assumption|].
  intros [He|[[-> Ho]|[Ho ->]]].
  - apply state_set_name_ext; assumption.
  - rewrite !state_set_name_unfold. apply sort_tokens_only_empty in Ho. rewrite Ho. reflexivity.
  - rewrite !state_set_name_unfold. apply sort_tokens_only_empty in Ho. rewrite Ho. reflexivity.
Qed.

(* --- counterexamples: each hypothesis is needed --- *)
Section StateSetCex.
  Local Open Scope string_scope.

  (* a name containing a comma: {'a,b'} and {'a','b'} are both printed '{a,b}' *)
  Lemma state_set_name_comma_cex :
    state_set_name [tok "a,b"] = state_set_name [tok "a"; tok "b"] /\
    ~ (forall x, In x [tok "a,b"] <-> In x [tok "a"; tok "b"]) /\
    ~ In [] ([tok "a,b"] ++ [tok "a"; tok "b"]).
  Proof.
    split; [vm_compute; reflexivity|]. split.
    - intros He. destruct (proj1 (He (tok "a,b")) (or_introl eq_refl)) as [Hc|[Hc|[]]]; vm_compute in Hc; discriminate Hc.
    - vm_compute. intros [Hc|[Hc|[Hc|[]]]]; discriminate Hc.
  Qed.

  (* the empty name: '{}' is the empty set and the set {''} *)
  Lemma state_set_name_empty_cex :
    state_set_name [] = state_set_name [[]] /\ ~ (forall x : token, In x [] <-> In x [[]]) /\ no_char 44 ([] ++ [[]]).
  Proof.
    split; [reflexivity|]. split.
    - intros He. apply (proj2 (He [])). left; reflexivity.
    - intros x [<-|[]] [].
  Qed.

  (* the empty name is harmless as soon as the set has another member: {'', 'a'} is printed '{,a}' *)
  Example state_set_name_empty_member :
    state_set_name [tok "a"; []] = tok "{,a}" /\ parse_state_set (tok "{,a}") = Some [[]; tok "a"].
  Proof. split; vm_compute; reflexivity. Qed.

  (* braces (and parentheses, quotes) inside names are harmless for print_state_set: only the first and the last
     character of the name are braces that matter; this instance is covered by state_set_name_inj *)
  Example state_set_name_braces :
    state_set_name [tok "{b"; tok "a}"] = tok "{a},{b}" /\
    parse_state_set (tok "{a},{b}") = Some [tok "a}"; tok "{b"].
  Proof. split; vm_compute; reflexivity. Qed.

  (* consequence of the comma hypothesis for nested constructions: subset states of a product automaton.
     The product state '(a,b)' contains a comma, so the set {'(a,b)'} is printed like the set {'(a', 'b)'} *)
  Lemma state_set_of_pairs_cex :
    state_set_name [pair_name (tok "a") (tok "b")] = state_set_name [tok "(a"; tok "b)"].
  Proof. vm_compute; reflexivity. Qed.
End StateSetCex.

(* ------------------------------------------------------------------------------------------------ *)
(* the inverse used by the harness                                                                   *)
(* ------------------------------------------------------------------------------------------------ *)

Lemma parse_state_set_braces J :
  parse_state_set (123 :: J ++ [125]) = Some (match J with [] => [] | _ :: _ => split_on 44 J end).
Proof.
  unfold parse_state_set. rewrite rev_app_distr. cbn [rev app]. rewrite rev_involutive.
  destruct J as [|a J]; reflexivity.
Qed.

Theorem parse_state_set_name Q :
  no_char 44 Q -> ~ only_empty_name Q -> parse_state_set (state_set_name Q) = Some (sort_tokens Q).
Proof.
  intros Hc Hn. rewrite state_set_name_unfold, parse_state_set_braces.
  destruct (sort_tokens Q) as [|x r] eqn:ES; [reflexivity|].
  assert (Hsp : split_on 44 (join [44] (x :: r)) = x :: r).
  { apply split_join; [discriminate|]. rewrite <- ES. apply no_char_sort. exact Hc. }
  destruct (join [44] (x :: r)) as [|a J] eqn:EJ.
  - exfalso. apply Hn. apply sort_tokens_only_empty. rewrite ES, <- Hsp. reflexivity.
  - rewrite Hsp. reflexivity.
Qed.

(* the hypothesis is needed: {''} is read back as the empty set *)
Lemma parse_state_set_name_cex : parse_state_set (state_set_name [[]]) = Some [] /\ sort_tokens [[]] = [[]].
Proof. split; reflexivity. Qed.

Lemma filter_nonempty_id (l : list token) :
  ~ In [] l -> filter (fun p : token => match p with [] => false | _ :: _ => true end) l = l.
Proof.
  induction l as [|x l IH]; intros Hn; [reflexivity|]. cbn [filter].
  destruct x as [|a x]; [exfalso; apply Hn; left; reflexivity|].
  f_equal. apply IH. intros Hc. apply Hn. right; exact Hc.
Qed.

(* the variant of the harness that drops empty parts *)
Theorem parse_state_set_nonempty_name Q :
  no_char 44 Q -> ~ In [] Q -> parse_state_set_nonempty (state_set_name Q) = Some (sort_tokens Q).
Proof.
  intros Hc Hn. unfold parse_state_set_nonempty. rewrite parse_state_set_name.
  - cbn [option_map]. rewrite filter_nonempty_id; [reflexivity|]. rewrite sort_tokens_In. exact Hn.
  - exact Hc.
  - intros Ho. apply Hn. apply only_empty_name_In. exact Ho.
Qed.

(* ------------------------------------------------------------------------------------------------ *)
(* p ++ c :: q  :  product states and grammar variables                                              *)
(* ------------------------------------------------------------------------------------------------ *)

(* the first components do not contain the separator *)
Lemma sep_inj_fst (c : nat) (p : list nat) : forall p' q q' : list nat, ~ In c p -> ~ In c p' -> p ++ c :: q = p' ++ c :: q' -> p = p' /\ q = q'.
Proof.
  induction p as [|a p IH]; intros [|a' p'] q q' Hp Hp' E; cbn [app] in E.
  - injection E as E. split; [reflexivity | exact E].
  - injection E as E1 E2. exfalso. apply Hp'. left. symmetry; exact E1.
  - injection E as E1 E2. exfalso. apply Hp. left. exact E1.
  - injection E as E1 E2. subst a'.
    destruct (IH p' q q') as [Ep Eq]; [intros Hc; apply Hp; right; exact Hc | intros Hc; apply Hp'; right; exact Hc | exact E2|].
    split; [f_equal; exact Ep | exact Eq].
Qed.

(* the second components do not contain the separator *)
Lemma sep_inj_snd (c : nat) (p p' q q' : list nat) : ~ In c q -> ~ In c q' -> p ++ c :: q = p' ++ c :: q' -> p = p' /\ q = q'.
Proof.
  intros Hq Hq' E. apply (f_equal (@rev nat)) in E.
  rewrite !rev_app_distr in E. cbn [rev] in E. rewrite <- !app_assoc in E. cbn [app] in E.
  destruct (sep_inj_fst c (rev q) (rev q') (rev p) (rev p')) as [Eq Ep].
  - rewrite <- in_rev. exact Hq.
  - rewrite <- in_rev. exact Hq'.
  - exact E.
  - split.
    + rewrite <- (rev_involutive p), <- (rev_involutive p'), Ep. reflexivity.
    + rewrite <- (rev_involutive q), <- (rev_involutive q'), Eq. reflexivity.
Qed.

(* one of the two pairs consists of separator-free names: nothing else is printed like it *)
Lemma sep_inj_one (c : nat) (p p' q q' : list nat) : ~ In c p -> ~ In c q -> p ++ c :: q = p' ++ c :: q' -> p = p' /\ q = q'.
Proof.
  intros Hp Hq E. apply (sep_inj_fst c p p' q q' Hp); [|exact E].
  apply (count_occ_not_In Nat.eq_dec).
  apply (f_equal (fun l => count_occ Nat.eq_dec l c)) in E.
  rewrite !count_occ_app, !count_occ_cons_eq in E by reflexivity.
  rewrite (proj1 (count_occ_not_In Nat.eq_dec p c) Hp), (proj1 (count_occ_not_In Nat.eq_dec q c) Hq) in E.
  lia.
Qed.

Lemma pair_name_eq p q p' q' : pair_name p q = pair_name p' q' -> p ++ 44 :: q = p' ++ 44 :: q'.
Proof.
  unfold pair_name, c_lparen, c_comma, c_rparen. intros E. injection E as E.
  change (p ++ 44 :: q ++ [41]) with (p ++ (44 :: q) ++ [41]) in E.
  change (p' ++ 44 :: q' ++ [41]) with (p' ++ (44 :: q') ++ [41]) in E.
  rewrite !app_assoc in E. apply app_inv_tail in E. exact E.
Qed.

Theorem pair_name_inj_fst p q p' q' : ~ In 44 p -> ~ In 44 p' -> pair_name p q = pair_name p' q' -> p = p' /\ q = q'.
Proof. intros Hp Hp' E. exact (sep_inj_fst 44 p p' q q' Hp Hp' (pair_name_eq _ _ _ _ E)). Qed.

Theorem pair_name_inj_snd p q p' q' : ~ In 44 q -> ~ In 44 q' -> pair_name p q = pair_name p' q' -> p = p' /\ q = q'.
Proof. intros Hq Hq' E. exact (sep_inj_snd 44 p p' q q' Hq Hq' (pair_name_eq _ _ _ _ E)). Qed.

Theorem pair_name_inj_one p q p' q' : ~ In 44 p -> ~ In 44 q -> pair_name p q = pair_name p' q' -> p = p' /\ q = q'.
Proof. intros Hp Hq E. exact (sep_inj_one 44 p p' q q' Hp Hq (pair_name_eq _ _ _ _ E)). Qed.

(* as requested: no name contains ',' *)
Theorem pair_name_inj p q p' q' :
  ~ In 44 p -> ~ In 44 q -> ~ In 44 p' -> ~ In 44 q' -> pair_name p q = pair_name p' q' -> p = p' /\ q = q'.
Proof. intros Hp _ Hp' _. apply pair_name_inj_fst; assumption. Qed.

Theorem var_name_inj_fst p q p' q' : ~ In 39 p -> ~ In 39 p' -> var_name p q = var_name p' q' -> p = p' /\ q = q'.
Proof. intros Hp Hp' E. exact (sep_inj_fst 39 p p' q q' Hp Hp' E). Qed.

Theorem var_name_inj_snd p q p' q' : ~ In 39 q -> ~ In 39 q' -> var_name p q = var_name p' q' -> p = p' /\ q = q'.
Proof. intros Hq Hq' E. exact (sep_inj_snd 39 p p' q q' Hq Hq' E). Qed.

Theorem var_name_inj_one p q p' q' : ~ In 39 p -> ~ In 39 q -> var_name p q = var_name p' q' -> p = p' /\ q = q'.
Proof. intros Hp Hq E. exact (sep_inj_one 39 p p' q q' Hp Hq E). Qed.

Theorem var_name_inj p q p' q' :
  ~ In 39 p -> ~ In 39 q -> ~ In 39 p' -> ~ In 39 q' -> var_name p q = var_name p' q' -> p = p' /\ q = q'.
Proof. intros Hp _ Hp' _. apply var_name_inj_fst; assumption. Qed.

Section PairCex.
  Local Open Scope string_scope.

  (* ('a,b', 'c') and ('a', 'b,c') are both printed '(a,b,c)' *)
  Lemma pair_name_cex :
    pair_name (tok "a,b") (tok "c") = pair_name (tok "a") (tok "b,c") /\ tok "a,b" <> tok "a".
  Proof. split; [vm_compute; reflexivity | vm_compute; discriminate]. Qed.

  (* a comma-free first component on one side and a comma-free second component on the other side do not suffice:
     in the instance above p' = 'a' and q = 'c' are comma-free *)
  Lemma pair_name_mixed_cex :
    ~ In 44 (tok "c") /\ ~ In 44 (tok "a") /\ pair_name (tok "a,b") (tok "c") = pair_name (tok "a") (tok "b,c").
  Proof.
    split; [vm_compute; intros [Hc|[]]; discriminate Hc|]. split; [vm_compute; intros [Hc|[]]; discriminate Hc|].
    vm_compute; reflexivity.
  Qed.

  (* ("a'b", 'c') and ('a', "b'c") are both printed  a'b'c *)
  Lemma var_name_cex :
    var_name (tok "a'b") (tok "c") = var_name (tok "a") (tok "b'c") /\ tok "a'b" <> tok "a".
  Proof. split; [vm_compute; reflexivity | vm_compute; discriminate]. Qed.

  (* nested products: the components of a product of products contain commas, and the name can be split in
     another way (the other reading does not consist of well-formed product names) *)
  Lemma pair_name_nested_cex :
    pair_name (pair_name (tok "a") (tok "b")) (tok "c") = pair_name (tok "(a") (tok "b),c").
  Proof. vm_compute; reflexivity. Qed.
End PairCex.

(* ------------------------------------------------------------------------------------------------ *)
(* '{}{}'.format(hint, index)                                                                        *)
(* ------------------------------------------------------------------------------------------------ *)

Theorem fresh_digits_inj (hint : token) i j : hint ++ digits i = hint ++ digits j -> i = j.
Proof. intros E. apply app_inv_head in E. apply digits_inj. exact E. Qed.

(* the numbered names differ from the hint itself (first candidate of cfg_fresh_variable) *)
Theorem fresh_digits_not_hint (hint : token) i : hint ++ digits i <> hint.
Proof.
  intros E. rewrite <- (app_nil_r hint) in E at 2. apply app_inv_head in E. exact (digits_nonempty i E).
Qed.

(* different hints can give the same name: 'q1' + '0' = 'q' + '10' *)
Lemma fresh_digits_hint_cex : [213; 149] ++ digits 0 = [213] ++ digits 10.
Proof. vm_compute; reflexivity. Qed.

(* ------------------------------------------------------------------------------------------------ *)
(* names matching \w+                                                                                *)
(* ------------------------------------------------------------------------------------------------ *)

Lemma is_w_not_sep c : is_w c = true -> 128 <= c.
Proof.
  unfold is_w. intros Hw. apply orb_true_iff in Hw. destruct Hw as [Hw|Hw]; apply range_true in Hw; lia.
Qed.

Lemma forallb_is_w_notin c t : c < 128 -> forallb is_w t = true -> ~ In c t.
Proof.
  intros Hc Hall Hin. rewrite forallb_forall in Hall. apply Hall in Hin. apply is_w_not_sep in Hin. lia.
Qed.

Theorem re_word_no_separator t :
  re_word t = true ->
  ~ In 44 t /\ ~ In 39 t /\ ~ In 123 t /\ ~ In 125 t /\ ~ In 40 t /\ ~ In 41 t /\ t <> [].
Proof.
  intros Hw. assert (Hall : forallb is_w t = true) by (destruct t as [|c t]; [discriminate Hw | exact Hw]).
  repeat split; try (apply forallb_is_w_notin; [lia | exact Hall]).
  intros ->. discriminate Hw.
Qed.

Corollary state_set_name_inj_words Q1 Q2 :
  (forall x, In x Q1 -> re_word x = true) -> (forall x, In x Q2 -> re_word x = true) ->
  state_set_name Q1 = state_set_name Q2 -> forall x, In x Q1 <-> In x Q2.
Proof.
  intros H1 H2. assert (Hw : forall x, In x (Q1 ++ Q2) -> re_word x = true).
  { intros x Hx. apply in_app_or in Hx. destruct Hx as [Hx|Hx]; [apply H1 | apply H2]; exact Hx. }
  apply state_set_name_inj.
  - intros x Hx. apply (re_word_no_separator x (Hw x Hx)).
  - intros Hx. apply Hw in Hx. discriminate Hx.
Qed.

Corollary parse_state_set_name_words Q :
  (forall x, In x Q -> re_word x = true) -> parse_state_set (state_set_name Q) = Some (sort_tokens Q).
Proof.
  intros Hw. apply parse_state_set_name.
  - intros x Hx. apply (re_word_no_separator x (Hw x Hx)).
  - intros Ho. apply only_empty_name_In in Ho. apply Hw in Ho. discriminate Ho.
Qed.

Corollary pair_name_inj_words p q p' q' :
  re_word p = true -> re_word q = true -> re_word p' = true -> re_word q' = true ->
  pair_name p q = pair_name p' q' -> p = p' /\ q = q'.
Proof.
  intros Hp Hq Hp' Hq'. apply pair_name_inj; [apply (re_word_no_separator p Hp) | apply (re_word_no_separator q Hq)
    | apply (re_word_no_separator p' Hp') | apply (re_word_no_separator q' Hq')].
Qed.

Corollary var_name_inj_words p q p' q' :
  re_word p = true -> re_word q = true -> re_word p' = true -> re_word q' = true ->
  var_name p q = var_name p' q' -> p = p' /\ q = q'.
Proof.
  intros Hp Hq Hp' Hq'. apply var_name_inj; [apply (re_word_no_separator p Hp) | apply (re_word_no_separator q Hq)
    | apply (re_word_no_separator p' Hp') | apply (re_word_no_separator q' Hq')].
Qed.

(* the three kinds of constructed names and the \w+ names are pairwise different (first / last character) *)
Lemma word_not_set_name t Q : re_word t = true -> t <> state_set_name Q.
Proof.
  intros Hw E. destruct (re_word_no_separator t Hw) as [_ [_ [Hb _]]]. apply Hb.
  rewrite E, state_set_name_unfold. left; reflexivity.
Qed.

Lemma word_not_pair_name t p q : re_word t = true -> t <> pair_name p q.
Proof.
  intros Hw E. destruct (re_word_no_separator t Hw) as [_ [_ [_ [_ [Hb _]]]]]. apply Hb.
  rewrite E. left; reflexivity.
Qed.

Lemma word_not_var_name t p q : re_word t = true -> t <> var_name p q.
Proof.
  intros Hw E. destruct (re_word_no_separator t Hw) as [_ [Hb _]]. apply Hb.
  rewrite E. unfold var_name. apply in_or_app. right. left; reflexivity.
Qed.

(* ------------------------------------------------------------------------------------------------ *)
(* non-vacuity                                                                                       *)
(* ------------------------------------------------------------------------------------------------ *)
Section Examples.
  Local Open Scope string_scope.

  Example ex_state_set_name : state_set_name [tok "q1"; tok "q0"; tok "q10"; tok "q1"] = tok "{q0,q1,q10}".
  Proof. vm_compute; reflexivity. Qed.

  Example ex_state_set_name_empty : state_set_name [] = tok "{}".
  Proof. vm_compute; reflexivity. Qed.

  (* Python: sorted(['b','{','a','_','Z','~','0','(','ab','','b'] as a set)
             == ['', '(', '0', 'Z', '_', 'a', 'ab', 'b', '{', '~']
     ('a' < '{' by code point although the code of 'a' (197) is larger than the code of '{' (123)) *)
  Example ex_sort_tokens :
    sort_tokens [tok "b"; tok "{"; tok "a"; tok "_"; tok "Z"; tok "~"; tok "0"; tok "("; tok "ab"; tok ""; tok "b"]
    = [tok ""; tok "("; tok "0"; tok "Z"; tok "_"; tok "a"; tok "ab"; tok "b"; tok "{"; tok "~"].
  Proof. vm_compute; reflexivity. Qed.

  Example ex_tok_order :
    tok_ltb (tok "q1") (tok "q10") = true /\ tok_ltb (tok "q10") (tok "q2") = true /\
    tok_ltb (tok "a") (tok "{") = true /\ tok_leb (tok "{") (tok "a") = false /\ tok_ltb (tok "q") (tok "q") = false.
  Proof. repeat split; vm_compute; reflexivity. Qed.

  Example ex_parse : parse_state_set (tok "{q0,q1,q10}") = Some [tok "q0"; tok "q1"; tok "q10"].
  Proof. vm_compute; reflexivity. Qed.

  Example ex_parse_none :
    parse_state_set (tok "{") = None /\ parse_state_set (tok "q0") = None /\ parse_state_set (tok "") = None /\
    parse_state_set (tok "{}") = Some [].
  Proof. repeat split; vm_compute; reflexivity. Qed.

  Example ex_split : split_on 44 (tok ",a,,b,") = [tok ""; tok "a"; tok ""; tok "b"; tok ""] /\ split_on 44 (tok "") = [tok ""].
  Proof. split; vm_compute; reflexivity. Qed.

  Example ex_pair_name : pair_name (tok "q0") (tok "p1") = tok "(q0,p1)".
  Proof. vm_compute; reflexivity. Qed.

  Example ex_var_name : var_name (tok "q0") (tok "q1") = tok "q0'q1".
  Proof. vm_compute; reflexivity. Qed.

  Example ex_fresh : (tok "q" ++ digits 12)%list = tok "q12".
  Proof. vm_compute; reflexivity. Qed.

  (* the hypotheses of the _words corollaries are satisfiable *)
  Example ex_words : re_word (tok "q0") = true /\ re_word (tok "A_1") = true /\ re_word (tok "") = false /\ re_word (tok "a,b") = false.
  Proof. repeat split; vm_compute; reflexivity. Qed.

  Example ex_tok_ascii : tok_ascii (tok "{q0,q1}(a'b) ~_Z") = true.
  Proof. vm_compute; reflexivity. Qed.

  (* the produced names are accepted by the patterns of the parsers (Tokens.v) *)
  Example ex_re_set_state : re_set_state (state_set_name [tok "q1"; tok "q0"]) = true.
  Proof. vm_compute; reflexivity. Qed.

  Example ex_re_product_state : re_product_state (pair_name (tok "q1") (tok "q0")) = true.
  Proof. vm_compute; reflexivity. Qed.
End Examples.

Print Assumptions codepoint_inj.
Print Assumptions code_of_ascii_ok.
Print Assumptions tok_leb_refl.
Print Assumptions tok_leb_total.
Print Assumptions tok_leb_trans.
Print Assumptions tok_leb_antisym.
Print Assumptions tok_leb_antisym_ascii.
Print Assumptions tok_leb_antisym_cex.
Print Assumptions tok_ltb_spec.
Print Assumptions sort_tokens_perm.
Print Assumptions sort_tokens_sorted.
Print Assumptions sort_tokens_Sorted.
Print Assumptions sort_tokens_canonical.
Print Assumptions sort_tokens_canonical_ascii.
Print Assumptions sort_tokens_canonical_cex.
Print Assumptions sort_tokens_idem.
Print Assumptions split_join.
Print Assumptions join_inj.
Print Assumptions state_set_name_eq_cases.
Print Assumptions state_set_name_inj_weak.
Print Assumptions state_set_name_inj.
Print Assumptions state_set_name_ext.
Print Assumptions state_set_name_eq_iff.
Print Assumptions state_set_name_comma_cex.
Print Assumptions state_set_name_empty_cex.
Print Assumptions state_set_of_pairs_cex.
Print Assumptions parse_state_set_name.
Print Assumptions parse_state_set_name_cex.
Print Assumptions parse_state_set_nonempty_name.
Print Assumptions pair_name_inj_fst.
Print Assumptions pair_name_inj_snd.
Print Assumptions pair_name_inj_one.
Print Assumptions pair_name_inj.
Print Assumptions pair_name_cex.
Print Assumptions pair_name_mixed_cex.
Print Assumptions pair_name_nested_cex.
Print Assumptions var_name_inj_fst.
Print Assumptions var_name_inj_snd.
Print Assumptions var_name_inj_one.
Print Assumptions var_name_inj.
Print Assumptions var_name_cex.
Print Assumptions fresh_digits_inj.
Print Assumptions fresh_digits_not_hint.
Print Assumptions re_word_no_separator.
Print Assumptions state_set_name_inj_words.
Print Assumptions parse_state_set_name_words.
Print Assumptions pair_name_inj_words.
Print Assumptions var_name_inj_words.
Print Assumptions word_not_set_name.
Print Assumptions word_not_pair_name.
Print Assumptions word_not_var_name.
Print Assumptions ex_state_set_name.
Print Assumptions ex_sort_tokens.
