(* C20 — The DFA isomorphism test decides isomorphism of the reachable parts.
   Specification `iso_reach` (Model/Iso.v): a relation between states that contains the pair of initial states, relates
   only reachable states, is preserved by every transition, preserves acceptance and is a partial bijection. *)
From GT Require Import Base.Prelude Model.DFA Model.NFA Model.Iso Proofs.IsoProofs.
From GT Require Proofs.IsoCorollaries.

Theorem C20_iso_matrix_decides : forall (D1 D2 : dfa nat) (pick : picker (nat * nat)),
  dfa_wf D1 -> dfa_wf D2 -> seteq (dS D1) (dS D2) -> picker_ok pick ->
  exists b, iso_matrix pick D1 D2 = Some b /\ (b = true <-> iso_reach D1 D2).
Proof. exact (fun D1 D2 pick => iso_matrix_correct D1 D2 pick). Qed.

Theorem C20_iso1_decides : forall (D1 D2 : dfa nat) (pick : picker (nat * nat)),
  dfa_wf D1 -> dfa_wf D2 -> seteq (dS D1) (dS D2) -> picker_ok pick ->
  exists b, iso1 pick D1 D2 = Some b /\ (b = true <-> iso_reach D1 D2).
Proof. exact (fun D1 D2 pick => iso1_correct D1 D2 pick). Qed.

Theorem C20_iso_symmetric : forall (D1 D2 : dfa nat), seteq (dS D1) (dS D2) -> iso_reach D1 D2 -> iso_reach D2 D1.
Proof. exact (fun D1 D2 => iso_reach_sym D1 D2). Qed.

Theorem C20_iso_implies_equivalent : forall (D1 D2 : dfa nat), dfa_wf D1 -> dfa_wf D2 -> seteq (dS D1) (dS D2) -> iso_reach D1 D2 ->
  forall w, Forall (fun a => In a (dS D1)) w -> (dfa_lang D1 w <-> dfa_lang D2 w).
Proof. exact (fun D1 D2 => iso_reach_lang D1 D2). Qed.

(* ---- the consequences named in the property text (Proofs/IsoCorollaries.v) ---- *)
(* the answers are symmetric in the arguments, for any two choice orders *)
Theorem C20_tests_symmetric : forall (D1 D2 : dfa nat) (pick1 pick2 : picker (nat * nat)),
  dfa_wf D1 -> dfa_wf D2 -> seteq (dS D1) (dS D2) -> picker_ok pick1 -> picker_ok pick2 ->
  (exists b, iso_matrix pick1 D1 D2 = Some b /\ iso_matrix pick2 D2 D1 = Some b) /\
  (exists b, iso1 pick1 D1 D2 = Some b /\ iso1 pick2 D2 D1 = Some b).
Proof.
  intros D1 D2 pick1 pick2 H1 H2 Hs Hp1 Hp2. split.
  - exact (IsoCorollaries.iso_matrix_symmetric D1 D2 H1 H2 Hs pick1 pick2 Hp1 Hp2).
  - exact (IsoCorollaries.iso1_symmetric D1 D2 H1 H2 Hs pick1 pick2 Hp1 Hp2).
Qed.

(* True for any DFA against a renamed copy of itself (f injective on the states) *)
Theorem C20_renamed_copy_true : forall (f : nat -> nat) (D : dfa nat) (pick : picker (nat * nat)),
  dfa_wf D -> (forall p q, In p (dQ D) -> In q (dQ D) -> f p = f q -> p = q) -> picker_ok pick ->
  dfa_wf (IsoCorollaries.dfa_rename f D) /\
  iso_matrix pick D (IsoCorollaries.dfa_rename f D) = Some true /\ iso1 pick D (IsoCorollaries.dfa_rename f D) = Some true.
Proof.
  intros f D pick Hwf Hinj Hp. split; [|split].
  - exact (IsoCorollaries.dfa_rename_wf f D Hwf Hinj).
  - exact (IsoCorollaries.iso_matrix_rename_true f D Hwf Hinj pick Hp).
  - exact (IsoCorollaries.iso1_rename_true f D Hwf Hinj pick Hp).
Qed.

(* False for DFAs with different languages *)
Theorem C20_different_language_false : forall (D1 D2 : dfa nat) (pick : picker (nat * nat)) (w : word),
  dfa_wf D1 -> dfa_wf D2 -> seteq (dS D1) (dS D2) -> picker_ok pick ->
  Forall (fun a => In a (dS D1)) w -> ~ (dfa_lang D1 w <-> dfa_lang D2 w) ->
  iso_matrix pick D1 D2 = Some false /\ iso1 pick D1 D2 = Some false.
Proof.
  intros D1 D2 pick w H1 H2 Hs Hp Hw Hd. split.
  - exact (IsoCorollaries.iso_matrix_lang_false D1 D2 H1 H2 Hs pick Hp w Hw Hd).
  - exact (IsoCorollaries.iso1_lang_false D1 D2 H1 H2 Hs pick Hp w Hw Hd).
Qed.

(* False for DFAs with different numbers of reachable states (l1, l2 = duplicate-free enumerations of the reachable states) *)
Theorem C20_different_reachable_count_false : forall (D1 D2 : dfa nat) (pick : picker (nat * nat)) (l1 l2 : list nat),
  dfa_wf D1 -> dfa_wf D2 -> seteq (dS D1) (dS D2) -> picker_ok pick ->
  NoDup l1 -> NoDup l2 -> (forall q, In q l1 <-> dreach D1 q) -> (forall q, In q l2 <-> dreach D2 q) -> length l1 <> length l2 ->
  iso_matrix pick D1 D2 = Some false /\ iso1 pick D1 D2 = Some false.
Proof.
  intros D1 D2 pick l1 l2 H1 H2 Hs Hp N1 N2 R1 R2 Hl. split.
  - exact (IsoCorollaries.iso_matrix_count_false D1 D2 H1 H2 Hs pick Hp l1 l2 N1 N2 R1 R2 Hl).
  - exact (IsoCorollaries.iso1_count_false D1 D2 H1 H2 Hs pick Hp l1 l2 N1 N2 R1 R2 Hl).
Qed.

(* the two tests agree with each other *)
Theorem C20_tests_agree : forall (D1 D2 : dfa nat) (pick1 pick2 : picker (nat * nat)),
  dfa_wf D1 -> dfa_wf D2 -> seteq (dS D1) (dS D2) -> picker_ok pick1 -> picker_ok pick2 ->
  exists b, iso_matrix pick1 D1 D2 = Some b /\ iso1 pick2 D1 D2 = Some b.
Proof. exact (fun D1 D2 pick1 pick2 H1 H2 Hs => IsoCorollaries.iso_matrix_iso1_agree D1 D2 H1 H2 Hs pick1 pick2). Qed.

Print Assumptions C20_iso_matrix_decides.
Print Assumptions C20_iso1_decides.
Print Assumptions C20_iso_symmetric.
Print Assumptions C20_iso_implies_equivalent.
Print Assumptions C20_tests_symmetric.
Print Assumptions C20_renamed_copy_true.
Print Assumptions C20_different_language_false.
Print Assumptions C20_different_reachable_count_false.
Print Assumptions C20_tests_agree.
