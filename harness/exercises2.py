"""Extension of exercises.py (C12 / C13):
  * the counterexample word a checker prints is judged (genuine, right polarity, minimal length for compare_languages);
  * further exercise kinds: language from a reference file (DFA / NFA / regexp answers against DFA / NFA / regexp reference
    files), accept/reject lists for a DFA, word list for a grammar, automata_checker.check_{dfa,nfa}_for_given_language.
Old kinds are delegated to exercises.py."""
import os
import random
import re
import tempfile

import coqlit as L
import conv
import gen as G
import exercises as E

NEW_KINDS = ['compare', 'file_pda_pda', 'file_dfa_dfa', 'file_nfa_nfa', 'file_re_re', 'file_re_dfa', 'file_dfa_nfa', 'accrej_dfa', 'words_cfg', 'given_dfa', 'given_nfa']
KINDS = E.KINDS + NEW_KINDS
STREAM = E.STREAM


def gen_cases(rng, n_per_kind, n_perturb):
    cases = E.gen_cases(rng, n_per_kind, n_perturb)
    for kind in NEW_KINDS:
        if kind in ('compare', 'file_pda_pda'):
            continue
        for _ in range(n_per_kind):
            c = {'ex': kind, 'seed': rng.randrange(10 ** 9), 'perturb': n_perturb, 'length': rng.choice([3, 4])}
            sigma = rng.choice(['ab', 'a', 'ab'])
            if kind in ('file_dfa_dfa', 'file_re_dfa', 'accrej_dfa', 'given_dfa'):
                c['D'] = G.random_dfa(rng, rng.randint(1, 4), sigma)
            elif kind in ('file_nfa_nfa', 'file_dfa_nfa', 'given_nfa'):
                c['N'] = G.random_nfa(rng, rng.randint(1, 4), sigma, rng.choice(['_', 'ε']), peps=0.3)
                c['N']['delta'] = [e for e in c['N']['delta'] if e[2]]
            elif kind == 'file_re_re':
                c['r'] = G.random_re(rng, rng.randint(1, 4), 2)
            else:
                c['G'] = E.nondegenerate_cfg(rng) if rng.random() < 0.5 else chomsky_shaped_cfg(rng)
            cases.append(c)
    # language from a reference file for PDAs with the bound 6: the reference is a^n b^n, one answer accepts only the words up to length 4
    for _ in range(max(2, n_per_kind // 4)):
        cases.append({'ex': 'file_pda_pda', 'seed': rng.randrange(10 ** 9), 'perturb': min(n_perturb, 2), 'length': 6,
                      'names': rng.choice([['q1', 'q2', 'q3', 'q4'], ['A', 'B', 'C', 'D'], ['s', 't', 'u', 'v']]), 'eps': rng.choice(['_', 'ε'])})
    # compare_languages itself on small word sets built in a given insertion order (the reported word is picked from a Python set)
    pool = ['', 'a', 'b', 'c', 'aa', 'ab', 'ba', 'cc', 'abc']
    for _ in range(40 * n_per_kind):
        a1 = rng.sample(pool, rng.randint(0, 4))
        a2 = rng.sample(pool, rng.randint(0, 4))
        if rng.random() < 0.5 and '' not in a1:
            a1.insert(rng.randint(0, len(a1)), '')
        cases.append({'ex': 'compare', 'seed': rng.randrange(10 ** 9), 'perturb': 0, 'length': 3, 'A1': a1, 'A2': a2})
    # grammars whose rules all have Chomsky shape although the grammar is not in normal form (the generator must still convert them)
    for _ in range(2 * n_per_kind):
        cases.append({'ex': 'words_cfg', 'seed': rng.randrange(10 ** 9), 'perturb': min(n_perturb, 2), 'length': 3, 'G': chomsky_shaped_cfg(rng)})
    return cases


def chomsky_shaped_cfg(rng):
    """every rule has the shape A -> BC | a | epsilon, but the grammar is not in Chomsky normal form: epsilon rules of other variables
    than the start variable, the start variable on right-hand sides"""
    V = ['S', 'A', 'B'][:rng.randint(2, 3)]
    rules = []
    for v in V:
        for _ in range(rng.randint(1, 3)):
            x = rng.random()
            rules.append([v, [] if x < 0.3 else ([['T', rng.choice('ab')]] if x < 0.65 else [['V', rng.choice(V)], ['V', rng.choice(V)]])])
    if not any(v == 'S' for v, _ in rules):
        rules.insert(0, ['S', [['V', V[-1]], ['V', 'S']]])
    rules.sort(key=lambda r: 0 if r[0] == 'S' else 1)
    return G.mk_cfg(rules, 'S', extra_vars=V)


# ----------------------------------------------------------------------------- worker side
def observe(c):
    if c['ex'] not in NEW_KINDS:
        return E.observe(c)
    from implutil import safe, ok
    if c['ex'] == 'compare':
        from gambatools.language_generator import compare_languages
        s1, s2 = set(), set()
        for w in c['A1']:
            s1.add(w)
        for w in c['A2']:
            s2.add(w)
        r = safe(compare_languages, s1, s2)
        fb = list(r[1]) if ok(r) else None
        return {'answers': [{'text': ' '.join(x or 'ε' for x in c['A1']), 'own': False, 'printed_ok': fb == [], 'out': '\n'.join(fb) if fb is not None else 'raised',
                             'raised': None if ok(r) else r[1], 'parsed': {'words': c['A1']}, 'skip': False}], 'info': {'words': ' '.join(x or 'ε' for x in c['A2'])}, 'setup_error': None}
    import gambatools.notebook as NB
    import gambatools.automata_checker as AC
    from gambatools.dfa_algorithms import print_dfa, parse_dfa, dfa_accepts_word
    from gambatools.nfa_algorithms import print_nfa, parse_nfa
    from gambatools.regexp import print_regexp_simple
    from gambatools.regexp_simple_parser import parse_simple_regexp
    from gambatools.cfg_algorithms import parse_simple_cfg
    mk = E.make_notebook()
    rng = random.Random(c['seed'])
    ex = c['ex']
    tmp = tempfile.mkdtemp(prefix='ex_', dir=os.environ.get('VERIF_WORK', None))
    files = []

    def wfile(name, text):
        p = os.path.join(tmp, name)
        with open(p, 'w', encoding='utf8') as f:
            f.write(text)
        files.append(p)
        return p
    length = c['length']
    info = {}
    try:
        if ex == 'file_pda_pda':
            from gambatools.pda_algorithms import parse_pda
            q1, q2, q3, q4 = c['names']
            e = c['eps']
            rtext = '\n'.join(['states %s %s %s %s' % (q1, q2, q3, q4), 'initial ' + q1, 'final %s %s' % (q1, q4), 'input_symbols a b', 'stack_symbols x $', 'epsilon ' + e,
                               '%s %s %s,%s$' % (q1, q2, e, e), '%s %s a,%sx' % (q2, q2, e), '%s %s b,x%s' % (q2, q3, e), '%s %s b,x%s' % (q3, q3, e), '%s %s %s,$%s' % (q3, q4, e, e)])
            f = wfile('ref.pda', rtext)
            own = rtext
            short = '\n'.join(['states s0 s1 s2 s3 s4 s5', 'initial s0', 'final s0 s2 s5', 'input_symbols a b', 'stack_symbols x', 'epsilon ' + e,
                               's0 s1 a,%s%s' % (e, e), 's1 s2 b,%s%s' % (e, e), 's1 s3 a,%s%s' % (e, e), 's3 s4 b,%s%s' % (e, e), 's4 s5 b,%s%s' % (e, e)])
            check = lambda a: E.run_checker(NB.check_pda_language_from_file, a, f, length)
            parse = lambda a: conv.pda_case(parse_pda(a))
            info['ref'] = conv.pda_case(parse_pda(rtext))
            info['extra_answers'] = [short]
        elif ex.startswith('file_'):
            _, ak, rk = ex.split('_')        # answer kind, reference kind
            if rk == 'dfa':
                rtext = print_dfa(conv.dfa_obj(c['D']))
                f = wfile('ref.dfa', rtext)
            elif rk == 'nfa':
                rtext = print_nfa(conv.nfa_obj(c['N']))
                f = wfile('ref.nfa', rtext)
            else:
                rtext = print_regexp_simple(conv.re_to_obj(c['r']))
                f = wfile('ref.regexp', rtext)
            if ak == rk:
                own = rtext
            elif (ak, rk) == ('re', 'dfa'):
                own = mk.apply_command('dfa2regexp', [f])
            else:                                  # a DFA answer for an NFA reference: the subset construction, states renamed
                from gambatools.nfa_algorithms import nfa_to_dfa
                Dd = nfa_to_dfa(conv.nfa_obj(c['N']))
                names = {q: 's%d' % i for i, q in enumerate(sorted(Dd.Q, key=str))}
                own = conv.dfa_text({'Q': sorted(names.values()), 'Sigma': sorted(Dd.Sigma), 'q0': names[Dd.q0], 'F': sorted(names[q] for q in Dd.F),
                                     'delta': sorted([names[q], a, names[t]] for (q, a), t in Dd.delta.items())})
            fn = {'dfa': NB.check_dfa_language_from_file, 'nfa': NB.check_nfa_language_from_file, 're': NB.check_regexp_language_from_file}[ak]
            check = lambda a: E.run_checker(fn, a, f, length)
            parse = {'dfa': lambda a: conv.dfa_case(parse_dfa(a)), 'nfa': lambda a: conv.nfa_case(parse_nfa(a)), 're': lambda a: conv.re_from_obj(parse_simple_regexp(a))}[ak]
        elif ex == 'accrej_dfa':
            D = conv.dfa_obj(c['D'])
            own = print_dfa(D)
            allw = G.words_str(c['D']['Sigma'], 3)
            acc = [w for w in allw if dfa_accepts_word(D, w)][:6]
            rej = [w for w in allw if not dfa_accepts_word(D, w)][:6]
            A, R = ' '.join(w or 'ε' for w in acc), ' '.join(w or 'ε' for w in rej)
            check = lambda a: E.run_checker(NB.check_dfa_accepts_rejects, a, A, R)
            parse = lambda a: conv.dfa_case(parse_dfa(a))
            info['acc'], info['rej'] = acc, rej
        elif ex == 'words_cfg':
            own = conv.cfg_simple_text(c['G'])
            f = wfile('x.cfg', own)
            words = mk.apply_command('generate', [f, str(length)])
            check = lambda a: E.run_checker(NB.check_cfg_language_from_words, a, words, length)
            parse = lambda a: conv.cfg_case(parse_simple_cfg(a))
            info['words'] = words
        else:
            from gambatools.automaton_algorithms import parse_automaton
            if ex == 'given_dfa':
                Dm = conv.dfa_obj(c['D'])
                own = print_dfa(Dm)
                from gambatools.dfa_algorithms import dfa_words_up_to_n
                lang = dfa_words_up_to_n(Dm, length)
                fn = AC.check_dfa_for_given_language
                from gambatools.dfa_algorithms import automaton_to_dfa
                from gambatools.automaton import Automaton

                def parse(a):      # the object the checker builds: declarations other than states / initial / final are not passed on
                    A = parse_automaton(a)
                    return conv.dfa_case(automaton_to_dfa(Automaton(A.states, A.transitions, A.initial_states, A.final_states, {})))
            else:
                Nm = conv.nfa_obj(c['N'])
                own = print_nfa(Nm)
                from gambatools.nfa_algorithms import nfa_words_up_to_n
                lang = nfa_words_up_to_n(Nm, length)
                fn = AC.check_nfa_for_given_language
                from gambatools.nfa_algorithms import automaton_to_nfa
                from gambatools.automaton import Automaton

                def parse(a):
                    A = parse_automaton(a)
                    return conv.nfa_case(automaton_to_nfa(Automaton(A.states, A.transitions, A.initial_states, A.final_states, {})))
            language = ' '.join(sorted(w or 'ε' for w in lang))
            info['words'] = language

            def check(a):
                from implutil import captured_stdout
                with captured_stdout():
                    A = safe(parse_automaton, a)
                    if not ok(A):
                        return {'ok': False, 'out': 'unparsed', 'raised': A[1]}
                    r = safe(fn, A[1].states, A[1].transitions, A[1].initial_states, A[1].final_states, language, length, timeout=20)
                if not ok(r):
                    return {'ok': False, 'out': '', 'raised': r[1]}
                return {'ok': bool(r[1].get('correct')), 'out': str(r[1].get('feedback', ''))[:300], 'raised': None}
    except Exception as e:
        return {'answers': [], 'setup_error': '%s: %s' % (type(e).__name__, e), 'info': info}
    answers = [{'text': own, 'own': True}] + [{'text': t, 'own': False} for t in info.get('extra_answers', [])]
    for _ in range(c['perturb']):
        t = own
        for _ in range(rng.choice([1, 1, 1, 2])):
            t = E.perturb_text(rng, t)
        if t != own:
            answers.append({'text': t, 'own': False})
    # the library's own answer once more at the end: a checker must not remember the rejected answers it has seen in between
    if len(answers) > 1:
        answers.append({'text': own, 'own': True})
    if ex == 'accrej_dfa' and c['perturb']:
        # a DFA that differs from the reference on the empty word only: a new initial state with the transitions of the old one
        # and the opposite acceptance
        d0 = c['D']
        nq = 'n0'
        if nq not in d0['Q']:
            d1 = {'Q': d0['Q'] + [nq], 'Sigma': d0['Sigma'], 'q0': nq, 'delta': d0['delta'] + [[nq, a_, t_] for (q_, a_, t_) in d0['delta'] if q_ == d0['q0']],
                  'F': d0['F'] + ([] if d0['q0'] in d0['F'] else [nq])}
            answers.insert(1, {'text': conv.dfa_text(d1), 'own': False})
    out = []
    for a in answers:
        res = check(a['text'])
        p = safe(parse, a['text'])
        skip = False
        if ex.split('_')[1:2] == ['re'] and not ok(p):
            q = safe(parse_simple_regexp, a['text'])
            skip = ok(q) and q[1] is not None
        out.append({'text': a['text'], 'own': a['own'], 'printed_ok': res['ok'], 'out': res['out'], 'raised': res['raised'],
                    'parsed': p[1] if ok(p) else None, 'skip': skip})
    for p in files:
        try:
            os.remove(p)
        except OSError:
            pass
    try:
        os.rmdir(tmp)
    except OSError:
        pass
    return {'answers': out, 'info': info, 'setup_error': None}


# ----------------------------------------------------------------------------- encoding
def _sy():
    sy = L.Names()
    for ch in 'abc_':
        sy(ch)
    return sy


def _dfa_opt(X, sy, st=None):
    if X is None or not all(len(s) == 1 and s in 'abc_' for s in X['Sigma']):
        return None
    return L.dfa(X, st or L.state_names(X), sy)


def _nfa_opt(X, sy, st=None):
    if X is None or not all(len(s) == 1 and s in 'abc_' for s in X['Sigma']) or not all(e[1] in ('a', 'b', 'c', '_') or e[1] == X['eps'] for e in X['delta']):
        return None
    st = st or L.state_names(X)
    f = lambda x: 90 if x == X['eps'] else sy(x)
    delta = L.lst(L.pair(L.pair(L.nat(st(q)), L.nat(f(x))), L.nats(st(t) for t in ts)) for q, x, ts in X['delta'])
    return '(mkNFA %s %s %s %s %s 90)' % (L.nats(st(q) for q in X['Q']), L.nats(sy(x) for x in X['Sigma']), delta, L.nat(st(X['q0'])), L.nats(st(q) for q in X['F']))


def _undecidable(X):
    """answers that parse but are outside the model's word representation (symbols of several characters)"""
    if isinstance(X, dict) and 'Sigma' in X and 'R' not in X and any(len(sx) != 1 or sx not in 'abc_' for sx in X['Sigma']):
        return True
    if isinstance(X, dict) and 'delta' in X and 'eps' in X and any(len(e[1]) != 1 and e[1] != X['eps'] for e in X['delta']):
        return True
    return False


def _lang_term(kind, X, n, sy, c=None):
    """Coq term of type option (list word): the bounded language of a parsed object; None if not representable"""
    if kind == 'dfa':
        d = _dfa_opt(X, sy)
        return None if d is None else '(dfa_words %s %d)' % (d, n)
    if kind == 'nfa':
        d = _nfa_opt(X, sy)
        return None if d is None else '(nfa_words %s %d)' % (d, n)
    if kind == 're':
        return '(Some (re_words %s %d))' % (L.re(X), n) if X is not None and E._re_ok(X) else None
    if kind == 'pda':
        if X is None or not all(len(a) == 1 and a in 'abc_' for a in X['Sigma']) or X['eps'] in X['Sigma']:
            return None
        f = lambda a: 90 if a == X['eps'] else (sy(a) if a in X['Sigma'] else 100 + sorted(X['Gamma']).index(a))
        if len(X['Q']) > 30:
            return None
        return "(let '(l0, tr0) := pda_words pick_head %s 2000 %d in if tr0 then None else Some l0)" % (L.pda(X, L.state_names(X), f), n)
    if kind == 'cfg':
        if X is None:
            return None
        nm = E._cfg_names()
        for v in X['V']:
            nm(v)
        return '(cfg_words_id %s %s %d)' % (L.nats(STREAM), L.cfg(X, nm), n)
    raise ValueError(kind)


def _words_term(s, sy):
    return '(Some %s)' % E._words(E._parse_word_list(s), sy)


def encode_answer(c, o, a, must_ok_for_own=True):
    ex = c['ex']
    if ex not in NEW_KINDS:
        return E.encode_answer(c, o, a, must_ok_for_own)
    if a.get('skip'):
        return '0'
    p = L.boolean(a['printed_ok'])
    m = L.boolean(bool(a['own'] and must_ok_for_own))
    info = o['info']
    n = c['length']
    sy = _sy()
    X = a['parsed']
    if _undecidable(X):
        return '0'
    if ex == 'compare':
        return 'j_lang_eq (Some %s) (Some %s) %s false 10' % (E._words(c['A1'], sy), E._words(c['A2'], sy), p)
    if ex == 'file_pda_pda':
        if X is None:
            return 'unparsed %s %s 120' % (p, m)
        if any(a not in X['Sigma'] + X['Gamma'] + [X['eps']] for t in X['delta'] for a in (t[1], t[2], t[4])):
            return '0'
        A1, A2 = _lang_term('pda', X, n, sy), _lang_term('pda', info['ref'], n, sy)
        if A1 is None or A2 is None:
            return '0'
        return 'j_lang_eq %s %s %s %s 120' % (A1, A2, p, m)
    if ex.startswith('file_') or ex in ('given_dfa', 'given_nfa', 'words_cfg'):
        if ex.startswith('file_'):
            _, ak, rk = ex.split('_')
            ref = {'dfa': c.get('D'), 'nfa': c.get('N'), 're': c.get('r')}[rk]
            A2 = _lang_term(rk, ref, n, sy)
            code = 120
        elif ex == 'words_cfg':
            ak, A2, code = 'cfg', _words_term(info['words'], E._cfg_names()), 10
        else:
            ak, A2, code = ex.split('_')[1], _words_term(info['words'], sy), 130
        if X is None:
            return 'unparsed %s %s %d' % (p, m, code)
        A1 = _lang_term(ak, X, n, sy)
        if A1 is None or A2 is None:
            return '0'
        return 'j_lang_eq %s %s %s %s %d' % (A1, A2, p, m, code)
    if ex == 'accrej_dfa':
        d = _dfa_opt(X, sy)
        if X is not None and d is None:
            return '0'
        if X is not None and not set(''.join(info['acc'] + info['rej'])) <= set(X['Sigma']):
            return '0'        # a word over another alphabet: dfa_accepts_word raises (not an OK)
        return 'j_accrej_dfa %s %s %s %s %s' % (L.option(d), E._words(info['acc'], sy), E._words(info['rej'], sy), p, m)
    raise ValueError(ex)


FB = re.compile(r"word '([^']*)' (should not be accepted|should be accepted|is not accepted)")


def feedback_of(out):
    m = FB.search(out or '')
    if not m:
        return None
    w = m.group(1)
    w = '' if w == 'ε' else w
    return (m.group(2) == 'should not be accepted', w)


def encode_feedback(c, o, a):
    """Coq term judging the counterexample word printed by the checker for this answer, or None"""
    fb = feedback_of(a.get('out'))
    if fb is None or a.get('skip'):
        return None
    extra, w = fb
    if not set(w) <= set('abc'):
        return None
    ex = c['ex']
    info = o['info']
    n = c['length']
    sy = _sy()
    X = a['parsed']
    if X is None or _undecidable(X):
        return None
    if isinstance(X, dict) and 'R' in X and (set(X['V']) & set(X['Sigma']) or not all(len(v) == 1 for v in X['V'] + X['Sigma'])):
        return None      # a name used both as variable and as terminal: outside the grammar model (names are compared as strings)
    minimal = 'true'
    A1 = A2 = None
    if ex == 'compare':
        A1, A2 = '(Some %s)' % E._words(c['A1'], sy), '(Some %s)' % E._words(c['A2'], sy)
    elif ex in ('words_dfa', 'words_nfa', 'words_re', 'words_cfg'):
        kind = {'words_dfa': 'dfa', 'words_nfa': 'nfa', 'words_re': 're', 'words_cfg': 'cfg'}[ex]
        A1 = _lang_term(kind, X, n, sy)
        A2 = _words_term(info['words'], sy if kind != 'cfg' else E._cfg_names())
    elif ex == 'dfa2regexp':
        A1 = _lang_term('re', X, n, sy)
        A2 = _lang_term('dfa', c['D'], n, sy)
    elif ex in ('minimal', 'hopcroft'):
        A1 = _lang_term('dfa', X, n, sy)
        A2 = _lang_term('dfa', c['D'], n, sy)
    elif ex == 'reverse':
        A1 = _lang_term('nfa', X, n, sy)
        d = _lang_term('dfa', c['D'], n, sy)
        A2 = None if d is None else '(option_map l_reverse %s)' % d
    elif ex in ('union', 'intersection', 'symdiff'):
        op = {'union': 'l_union', 'intersection': 'l_intersection', 'symdiff': 'l_symmetric_difference'}[ex]
        A1 = _lang_term('dfa', X, n, sy)          # product state names are plain strings here: only the language matters
        d1, d2 = _lang_term('dfa', c['D1'], n, sy), _lang_term('dfa', c['D2'], n, sy)
        A2 = None if d1 is None or d2 is None else '(match %s, %s with Some x, Some y => Some (%s x y) | _, _ => None end)' % (d1, d2, op)
    elif ex == 'file_pda_pda':
        A1, A2 = _lang_term('pda', X, n, sy), _lang_term('pda', info['ref'], n, sy)
    elif ex.startswith('file_'):
        _, ak, rk = ex.split('_')
        A1 = _lang_term(ak, X, n, sy)
        A2 = _lang_term(rk, {'dfa': c.get('D'), 'nfa': c.get('N'), 're': c.get('r')}[rk], n, sy)
    elif ex in ('given_dfa', 'given_nfa'):
        A1 = _lang_term(ex.split('_')[1], X, n, sy)
        A2 = _words_term(info['words'], sy)
        minimal = 'false'            # _compare_words reports an arbitrary word of the difference
    elif ex in ('accrej', 'accrej_dfa'):
        # polarity only: the word is in the list it is reported for, and the answer decides it the other way
        ws = info['acc'] + info['rej']
        if ex == 'accrej_dfa':
            d = _dfa_opt(X, sy)
            if d is None or not set(''.join(ws)) <= set(X['Sigma']):
                return None
            A1 = '(accepted_of (fun D0 w0 => dfa_accepts D0 w0) %s %s)' % (d, E._words(ws, sy))
            A2 = '(Some %s)' % E._words(info['acc'], sy)
        else:
            nm = E._cfg_names()
            for v in X['V']:
                nm(v)
            A1 = '(accepted_of (cfg_accepts (fun l => l) %s) %s %s)' % (L.nats(STREAM), L.cfg(X, nm), E._words(ws, E._cfg_names()))
            A2 = '(Some %s)' % E._words(info['acc'], E._cfg_names())
        minimal = 'false'
    elif ex.startswith('chomsky'):
        nm = E._cfg_names(c['G'])
        for v in X['V']:
            nm(v)
        for t in X['Sigma']:
            nm(t)
        if len(nm.m) > 250:
            return None
        A1 = '(cfg_words_id %s %s %d)' % (L.nats(STREAM), L.cfg(X, nm), n)
        A2 = '(cfg_words_id %s %s %d)' % (L.nats(STREAM), L.cfg(c['G'], nm), n)
        w_names = nm
        if A1 is None:
            return None
        return 'j_feedback %s %s (Some (%s, %s)) %s 15' % (A1, A2, L.boolean(extra), L.nats(w_names(ch) for ch in w), minimal)
    if A1 is None or A2 is None:
        return None
    wn = E._cfg_names() if ex in ('accrej', 'words_cfg') else sy
    return 'j_feedback %s %s (Some (%s, %s)) %s 15' % (A1, A2, L.boolean(extra), L.nats(wn(ch) for ch in w), minimal)
