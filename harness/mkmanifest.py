"""Writes /verif/MANIFEST.json from the property modules that exist (run after adding a property)."""
import importlib
import json
import os
import sys

HERE = os.path.dirname(os.path.abspath(__file__))
VERIF = os.path.dirname(HERE)
sys.path.insert(0, HERE)
ALL = ['C%02d' % i for i in range(1, 21)]
checks, na = [], []
for p in ALL:
    if os.path.exists(os.path.join(HERE, 'props', p + '.py')) and os.path.exists(os.path.join(VERIF, 'coq', 'theories', 'Properties', p + '.v')):
        m = importlib.import_module('props.' + p)
        checks.append({
            'property_id': p,
            'quick_cmd': './check %s --tier quick' % p,
            'thorough_cmd': './check %s --tier thorough' % p,
            'evidence_file': 'evidence/%s.json' % p,
            'replay_cmd_template': './check %s --replay {path}' % p,
            'engine': 'coq-model-correspondence',
            'level_claimed': {'category': 'proof', 'text': m.LEVEL_TEXT, 'design_ref': 'DESIGN.md section 6 (%s), section 12 (as built)' % p},
            'level_note': m.LEVEL_NOTE,
            'technique': m.TECHNIQUE,
        })
    else:
        na.append({'property_id': p, 'reason': 'not claimed yet: the Coq model, theorems and correspondence for this property are still being built (see DESIGN.md section 12); the technique applies'})
man = {
    'version': 1,
    'setup_cmd': 'sh setup.sh',
    'hooks': {'guard': 'GAMBATOOLS_VERIF', 'enable': 'no source hooks are needed: every observed routine is importable; checks run /repo/src with PYTHONPATH=/repo/src',
              'baseline_off_cmd': 'cd /repo && /venv/bin/python -m pytest -ra -q -p no:cacheprovider --timeout=900 --continue-on-collection-errors',
              'source_commits': [], 'add_only': True},
    'engines': [{'name': 'coq-model-correspondence', 'path': 'check', 'serves_properties': [c['property_id'] for c in checks],
                 'kind_free_text': 'Coq 8.16.1 theorems about a hand-written Gallina model (coq/theories), tied to /repo/src on every run by evaluating the model and a judge inside Coq (vm_compute) on the inputs and observations of the real implementation'}],
    'checks': checks,
    'not_applicable': na,
    'notes': 'All checks share ./check <id> --tier quick|thorough; evidence is rewritten on every run; known findings live in known_findings.json.',
}
with open(os.path.join(VERIF, 'MANIFEST.json'), 'w') as f:
    json.dump(man, f, indent=1)
print('claimed:', [c['property_id'] for c in checks])
