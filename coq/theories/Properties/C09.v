(* C09 — PDA acceptance test (pda_accepts_word) with the iteration limit of pda_epsilon_closure.
   "The acceptance test never answers True for a word that has no accepting computation; it answers True for
   every word that has one whenever each epsilon-closure it has to compute contains no more configurations than
   the configured iteration limit, whatever value that limit is."
   Model: Model/PDA.v.  `pda_eclose pick P limit R` returns (result, todo left over); todo <> [] means that the
   closure was truncated by the limit.  `pda_accepts` returns (verdict, some closure was truncated); `pda_words`
   (pda_words_up_to_n) returns (words, some closure was truncated).  `pick` is the order in which `todo.pop()`
   delivers configurations: every statement holds for every admissible pick (picker_ok) and every limit.
   The hypothesis `Forall (fun a => a <> peps P) w` (the word does not contain the epsilon symbol, automatic for
   words over the input alphabet of a valid PDA) is necessary: see C09_accepts_needs_no_eps. *)
From GT Require Import Base.Prelude Model.NFA Model.PDA Proofs.NFAProofs Proofs.PDAProofs.

(* closure: soundness for every pick and every limit *)
Theorem C09_eclose_sound : forall (pick : picker config) (P : pda) (limit : nat) (R res todo : list config),
  picker_ok pick -> pda_eclose pick P limit R = (res, todo) ->
  (forall c, In c R -> In c res) /\ (forall c, In c res -> exists r, In r R /\ pda_eps_star P r c) /\
  incl todo res /\ NoDup res.
Proof. exact (fun pick P limit R res todo Hp => @pda_eclose_sound pick P Hp limit R res todo). Qed.

(* closure: exactness when it was not truncated *)
Theorem C09_eclose_exact : forall (pick : picker config) (P : pda) (limit : nat) (R res : list config),
  picker_ok pick -> pda_eclose pick P limit R = (res, []) ->
  forall c, In c res <-> exists r, In r R /\ pda_eps_star P r c.
Proof. exact (fun pick P limit R res Hp => @pda_eclose_exact pick P Hp limit R res). Qed.

(* closure: no truncation when the true closure has at most `limit` elements *)
Theorem C09_eclose_complete : forall (pick : picker config) (P : pda) (limit : nat) (R C : list config),
  picker_ok pick ->
  (forall c, (exists r, In r R /\ pda_eps_star P r c) -> In c C) -> NoDup C -> length C <= limit ->
  exists res, pda_eclose pick P limit R = (res, []).
Proof. exact (fun pick P limit R C Hp => @pda_eclose_complete pick P Hp limit R C). Qed.

(* acceptance: never True for a word without an accepting computation *)
Theorem C09_accepts_sound : forall (pick : picker config) (P : pda) (limit : nat) (w : word) (tr : bool),
  picker_ok pick -> Forall (fun a => a <> peps P) w ->
  pda_accepts pick P limit w = (true, tr) -> pda_lang P w.
Proof. exact pda_accepts_sound. Qed.

(* acceptance: exact when no closure was truncated *)
Theorem C09_accepts_complete : forall (pick : picker config) (P : pda) (limit : nat) (w : word) (v : bool),
  picker_ok pick -> Forall (fun a => a <> peps P) w ->
  pda_accepts pick P limit w = (v, false) -> (v = true <-> pda_lang P w).
Proof. exact pda_accepts_complete. Qed.

(* the configurations after reading w, when nothing was truncated, are exactly those reachable by w *)
Theorem C09_configs_exact : forall (pick : picker config) (P : pda) (limit : nat) (w : word) (R0 t0 R : list config),
  picker_ok pick -> Forall (fun a => a <> peps P) w ->
  pda_eclose pick P limit [(pq0 P, [])] = (R0, t0) ->
  pda_run pick P limit w R0 (match t0 with [] => false | _ => true end) = (R, false) ->
  forall c, In c R <-> pda_reach P (pq0 P, []) w c.
Proof. exact pda_run_configs_exact. Qed.

(* order independence (no hypothesis on the word) *)
Theorem C09_accepts_pick_independent : forall (pick1 pick2 : picker config) (P : pda) (limit : nat) (w : word) (v1 v2 : bool),
  picker_ok pick1 -> picker_ok pick2 ->
  pda_accepts pick1 P limit w = (v1, false) -> pda_accepts pick2 P limit w = (v2, false) -> v1 = v2.
Proof. exact pda_accepts_pick_independent. Qed.

(* the hypothesis on the word cannot be dropped: a letter equal to the epsilon symbol is simulated as an
   epsilon move *)
Theorem C09_accepts_needs_no_eps :
  pda_wf pda_cex /\ pda_accepts pick_head pda_cex 100 [9] = (true, false) /\ ~ pda_lang pda_cex [9].
Proof. exact pda_accepts_sound_cex. Qed.

(* enumeration of the accepted words up to length n *)
Theorem C09_words_sound : forall (pick : picker config) (P : pda) (limit n : nat) (L : list word) (tr : bool),
  picker_ok pick -> pda_wf P -> pda_words pick P limit n = (L, tr) ->
  forall w, In w L -> length w <= n /\ Forall (fun a => In a (pSg P)) w /\ pda_lang P w.
Proof. exact pda_words_sound. Qed.

Theorem C09_words_exact : forall (pick : picker config) (P : pda) (limit n : nat) (L : list word),
  picker_ok pick -> pda_wf P -> pda_words pick P limit n = (L, false) ->
  forall w, In w L <-> length w <= n /\ Forall (fun a => In a (pSg P)) w /\ pda_lang P w.
Proof. exact pda_words_exact. Qed.

Print Assumptions C09_eclose_sound.
Print Assumptions C09_eclose_exact.
Print Assumptions C09_eclose_complete.
Print Assumptions C09_accepts_sound.
Print Assumptions C09_accepts_complete.
Print Assumptions C09_configs_exact.
Print Assumptions C09_accepts_pick_independent.
Print Assumptions C09_accepts_needs_no_eps.
Print Assumptions C09_words_sound.
Print Assumptions C09_words_exact.
