"""C10 - PDA normal forms and PDA -> CFG vs the proved models (Model/PDAConv.v) and exact bounded-language references."""
import coqlit as L
import gen as G
import conv
import syntax as SX

COQ_IMPORTS = ['Model.NFA', 'Model.PDA', 'Model.CFG', 'Model.PDAConv', 'Model.FreshName', 'Judge.Common', 'Judge.C10_judge', 'Judge.Extra_judge']
EXTRA_JUDGES = ['Extra']
RULE = ('random PDAs (1-3 states, input {a,b}, stack symbols from {x,y,$,@}) with several / one / no accepting states, push, pop, no-op and replace moves, acceptance with a non-empty stack, '
        'stack alphabets that already contain the markers $ and @; pda_to_one_accepting_state_in_place (on a copy), pda_to_push_pop, pda_to_accept_on_empty_stack, pda_to_cfg (every 3rd case, small PDAs); '
        'the fresh state names and the fresh marker chosen by the implementation are recorded (fresh_state / fresh_symbol wrapped in the worker) and replayed in the model. '
        'Relation: valid PDA, shape clause (single accepting state / only push or pop moves / accepting configurations have an empty stack), language equal to the original on all words <= n (n = 3; exact enumeration on both sides, '
        'closures untruncated), argument unchanged; grammar: valid and bounded language equal to that of the PDA. Non-trivial = the PDA accepts at least one non-empty word and has >= 2 transitions; distinct by PDA text.')
RULE += ' Added after the seeded rounds: the naming policy of fresh_state compared with Model/FreshName.v (informational).'
CODES = {9: 'generated PDA invalid (harness)', 1: 'structure differs from the model (or a closure was truncated), property-level relation holds where decidable',
         40: 'pda_to_cfg raised / timed out', 41: 'pda_to_cfg modified its argument', 42: 'pda_to_cfg returned an invalid grammar', 44: 'the grammar does not generate the PDA language (word <= n)', 45: 'pda_to_cfg: a chosen name was not fresh'}
for k, nme in [(10, 'pda_to_one_accepting_state_in_place'), (20, 'pda_to_push_pop'), (30, 'pda_to_accept_on_empty_stack')]:
    CODES[k] = nme + ' raised / timed out'
    CODES[k + 1] = nme + ' modified its argument'
    CODES[k + 2] = nme + ' returned an invalid PDA'
    CODES[k + 3] = nme + ' shape requirement violated'
    CODES[k + 4] = nme + ' changed the language (word <= n)'
    CODES[k + 5] = nme + ': a chosen name was not fresh'
ASSUMPTIONS = ['PDA valid (class invariant)']
RESIDUE = 'copy.deepcopy; fresh_state / fresh_symbol naming replayed from the implementation; defaultdict delta'
STREAM = list(range(1800, 1880))
SHARD = 6


def hashseeds(tier):
    return [0] if tier == 'quick' else [0, 1]       # the thorough tier is sized to finish within about 40 minutes


def gen(rng, tier):
    quick = tier == 'quick'
    ps = []
    # F10 witness family: accept with a non-empty stack
    ps.append({'Q': ['q0', 'q1'], 'Sigma': ['a'], 'Gamma': ['x'], 'eps': '_', 'q0': 'q0', 'F': ['q1'], 'delta': [['q0', 'a', '_', 'q1', 'x']]})
    for _ in range(130 if quick else 800):
        gamma = rng.choice(['x', 'xy', 'x$', 'x@$'])
        kinds = rng.choice([None, ['push', 'pop', 'push'], ['push', 'pop', 'noop', 'replace'], ['push', 'noop']])
        p = G.random_pda(rng, rng.randint(1, 3), rng.choice(['a', 'ab']), gamma, rng.choice(['_', 'ε']), ntrans=rng.randint(1, 5), kinds=kinds, pfinal=0.5)
        # avoid pushing epsilon moves so that every closure is finite (exact references on both sides)
        p['delta'] = [t for t in p['delta'] if not (t[1] == p['eps'] and t[4] != p['eps'])]
        ps.append(p)
    for _ in range(20 if quick else 100):
        p = G.random_pda(rng, rng.randint(1, 3), rng.choice(['a', 'ab']), 'xy', rng.choice(['_', 'ε']), ntrans=rng.randint(1, 4), kinds=['push', 'pop'])
        p['delta'] = [t for t in p['delta'] if not (t[1] == p['eps'] and t[4] != p['eps'])]
        p['F'] = rng.choice([[], list(p['Q']), p['Q'][:1]])
        ps.append(p)
    rep = [G.replace_pda(rng) for _ in range(12 if quick else 50)]
    cases = [{'P': p, 'n': 3, 'cfg': len(p['Sigma']) <= 2 and i % 3 == 0, 'deep': False} for i, p in enumerate(rep)]
    cases += [{'P': G.loop_exit_pda(rng), 'n': 4, 'cfg': True, 'deep': False} for _ in range(3 if quick else 10)]
    cases += [{'P': G.drain_pda(rng), 'n': 4, 'cfg': i == 0, 'deep': False} for i in range(4 if quick else 12)]
    for i, p in enumerate(ps):
        small = len(p['Q']) <= 2 and len(p['delta']) <= 3
        tiny = len(p['Q']) == 1 and len(p['delta']) <= 2 and len(p['F']) == 1 and all((t[2] == p['eps']) != (t[4] == p['eps']) for t in p['delta'])
        cases.append({'P': p, 'n': 3 if not tiny else 2, 'cfg': bool(i == 0 or (small and (i % 2 == 0))), 'deep': bool(i == 0 or (tiny and i % 2 == 0))})
    return cases


def observe(c):
    import copy
    from gambatools import pda_algorithms as PA
    from implutil import safe, ok
    P = conv.pda_obj(c['P'])
    states, symbols, calls = [], [], []
    fs, fsym = PA.fresh_state, PA.fresh_symbol

    def w_state(Q, hint='P'):
        Q0 = sorted(str(q) for q in Q)
        r = fs(Q, hint)
        states.append(str(r))
        if len(calls) < 6:
            calls.append([Q0, str(hint), None if r is None else str(r)])
        return r

    def w_sym(Sigma, symbols_):
        r = fsym(Sigma, symbols_)
        symbols.append(str(r))
        return r
    PA.fresh_state, PA.fresh_symbol = w_state, w_sym
    out = {}
    try:
        def run(name, f, inplace=False):
            del states[:]
            del symbols[:]
            before = conv.pda_case(P)
            if inplace:
                Pc = copy.deepcopy(P)
                r = safe(f, Pc)
                res = conv.pda_case(Pc) if ok(r) else None
            else:
                r = safe(f, P)
                res = (conv.pda_case(r[1]) if name != 'cfg' else conv.cfg_case(r[1])) if ok(r) else None
            out[name] = {'res': res, 'states': list(states), 'symbols': list(symbols), 'unchanged': conv.pda_case(P) == before, 'err': None if ok(r) else r[1]}
            if name == 'cfg' and ok(r):
                # the bounded language of the returned grammar, enumerated by the library (judged against the model PDA's language)
                from gambatools.cfg_algorithms import cfg_words_up_to_n
                w = safe(cfg_words_up_to_n, r[1], c['n'], timeout=40)
                out[name]['words'] = sorted(w[1]) if ok(w) else None
        run('one', PA.pda_to_one_accepting_state_in_place, inplace=True)
        run('pp', PA.pda_to_push_pop)
        run('es', PA.pda_to_accept_on_empty_stack)
        if c['cfg']:
            run('cfg', PA.pda_to_cfg)
        else:
            out['cfg'] = None
        # the non-default mode accepts_on_empty_stack=True: only the argument snapshot is judged here
        if len(c['P']['Q']) <= 3 and len(c['P']['delta']) <= 5:
            before = conv.pda_case(P)
            r = safe(lambda: PA.pda_to_cfg(P, True), timeout=20)
            out['cfg_es_unchanged'] = conv.pda_case(P) == before
    finally:
        PA.fresh_state, PA.fresh_symbol = fs, fsym
    out['fresh_calls'] = calls
    return out


def _cfg_lit(g, st, f):
    if g is None:
        return 'None'

    def var(name):
        if "'" in name:
            p, q = name.split("'", 1)
            if st.known(p) and st.known(q):
                return st(p) * 40 + st(q)
        return 1700 + (hash(name) % 90)

    def sym(s):
        return '(true, %d)' % var(s[1]) if s[0] == 'V' else '(false, %d)' % f(s[1])
    rules = L.lst('(mkRule %d %d %s)' % (var(v), 0, L.lst(sym(s) for s in rhs)) for (v, rhs) in g['R'])
    return '(Some (mkCFG %s %s %s %d))' % (L.nats(var(v) for v in g['V']), L.nats(f(t) for t in g['Sigma']), rules, var(g['S']))


def encode(c, o):
    p = c['P']
    st, sy, f = L.pda_names(p)
    lit = L.pda(p, st, f)
    dummy = f('∅')

    def opda(x):
        if x is None:
            return 'None'
        for q in x['Q']:
            st(q)
        for a in x['Gamma'] + x['Sigma']:
            f(a)
        return '(Some %s)' % L.pda(x, st, f)
    S = lambda names: L.nats(st(q) for q in names)
    one = L.pair(opda(o['one']['res']), S(o['one']['states']))
    pp = L.pair(opda(o['pp']['res']), S(o['pp']['states']), L.nat(dummy), L.boolean(o['pp']['unchanged']))
    bottom = f(o['es']['symbols'][0]) if o['es']['symbols'] else f(p['Gamma'][0] if p['Gamma'] else p['eps'])
    es = L.pair(opda(o['es']['res']), S(o['es']['states']), L.nat(bottom), L.boolean(o['es']['unchanged']))
    if o['cfg'] is None:
        # not observed for this case: feed the model's own result back so that the clause is vacuous
        cf = L.pair('None', '[]', L.nat(f(p['Gamma'][0]) if p['Gamma'] else 0), L.nat(dummy), 'true')
        cfterm = '(%s)' % cf
        # both None -> 0 only if the model also fails; force that by an empty stream and a non-fresh bottom (member of Gamma or eps)
        if not p['Gamma']:
            cf = L.pair('None', '[]', L.nat(f(p['eps'])), L.nat(dummy), 'true')
    else:
        for q in o['cfg']['states']:
            st(q)
        b2 = f(o['cfg']['symbols'][0]) if o['cfg']['symbols'] else (f(p['Gamma'][0]) if p['Gamma'] else f(p['eps']))
        cf = L.pair(_cfg_lit(o['cfg']['res'], st, f), S(o['cfg']['states']), L.nat(b2), L.nat(dummy), L.boolean(o['cfg']['unchanged']))
    assert len(st.m) < 40
    main = 'judge_C10 %s %d %s %s %s %s %s %s' % (lit, c['n'], one, pp, es, cf, L.nats(STREAM), L.boolean(c.get('deep', False)))
    # the concrete naming policy of fresh_state (Model/FreshName.v) on the calls the implementation made
    fresh = ['judge_fresh_state %s %s %s' % (SX.toks(Q0), SX.tok(hint), SX.opt_codes(r)) for Q0, hint, r in o.get('fresh_calls', [])
             if all(SX.codes(x) is not None for x in Q0 + [hint] + ([r] if r is not None else []))]
    extra = []
    if o.get('cfg') and o['cfg'].get('words') is not None and all(ch in p['Sigma'] for w in o['cfg']['words'] for ch in w):
        extra.append('judge_cfg_words_of_pda %s %d (Some %s)' % (lit, c['n'], L.lst(L.nats(f(ch) for ch in w) for w in o['cfg']['words'])))
    if o.get('cfg_es_unchanged') is False:
        extra.append('41')
    return 'worst_code [%s]' % '; '.join([main] + fresh + extra)


def explain(c):
    p = c['P']
    st, sy, f = L.pda_names(p)
    return 'explain_C10 %s %d %s %d %d' % (L.pda(p, st, f), c['n'], L.nats(range(30, 36)), f('$'), f('∅'))


def key(c):
    return conv.pda_text(c['P'])


def nontrivial(c, o):
    return len(c['P']['delta']) >= 2 and len(c['P']['F']) >= 1


def describe(c):
    return {'pda': conv.pda_text(c['P']), 'n': c['n'], 'with_cfg': c['cfg']}


def reproduce(c):
    return ('from gambatools.pda_algorithms import *; P = parse_pda(%r); P1 = pda_to_accept_on_empty_stack(P); P2 = pda_to_push_pop(P); G = pda_to_cfg(P); '
            'compare pda_words_up_to_n(P, 3) with pda_words_up_to_n(P1, 3), pda_words_up_to_n(P2, 3), cfg_words_up_to_n(G, 3)' % conv.pda_text(c['P']))


def signature(c, o, code):
    return 'C10:code%d:%s' % (code, key(c))


def distribution(cases, obs):
    d = {'accepting_states': {}, 'with_cfg': 0, 'marker_in_gamma': 0, 'replace_or_noop_moves': 0}
    for c, o in zip(cases, obs):
        k = str(len(c['P']['F']))
        d['accepting_states'][k] = d['accepting_states'].get(k, 0) + 1
        d['with_cfg'] += 1 if c['cfg'] else 0
        d['marker_in_gamma'] += 1 if ('$' in c['P']['Gamma'] or '@' in c['P']['Gamma']) else 0
        e = c['P']['eps']
        d['replace_or_noop_moves'] += sum(1 for t in c['P']['delta'] if (t[2] == e) == (t[4] == e))
    return d


def shrink(c):
    out = []
    p = c['P']
    for i in range(len(p['delta'])):
        out.append(dict(c, P=dict(p, delta=p['delta'][:i] + p['delta'][i + 1:])))
    for q in p['F']:
        out.append(dict(c, P=dict(p, F=[x for x in p['F'] if x != q])))
    return out


LEVEL_TEXT = ('Coq theorems about the models of the three PDA normal forms and of pda_to_cfg (see evidence for statements still _partial), plus a per-instance oracle evaluated in Coq on the implementation output: '
              'validity, shape clause and language equality on all words up to the bound with exact (untruncated, proved) enumerations on both sides, and grammar-vs-PDA language comparison through the proved CNF enumerator.')
LEVEL_NOTE = 'Trusted: Coq kernel + vm_compute, models Model/PDA.v, Model/PDAConv.v (pda_to_accept_on_empty_stack as repaired by fix F10), Model/CYK.v, the worker-side wrappers recording fresh names, harness. No axioms.'
TECHNIQUE = 'Coq simulation proofs for the normal forms + exact bounded-language oracle and replay of fresh-name choices, evaluated inside Coq'
