From GT Require Import Base.Prelude Base.Sort Model.DFA Model.NFA Decide.DFAEquiv Judge.Common.

Definition dfa_struct_eqb3 (D1 D2 : dfa (list nat)) : bool :=
  seteqb (dQ D1) (dQ D2) && seteqb (dS D1) (dS D2) && eqb (dq0 D1) (dq0 D2) && seteqb (dF D1) (dF D2) &&
  forallb (fun q => forallb (fun a => eqb (ddelta D1 q a) (ddelta D2 q a)) (dS D1)) (dQ D1).

(* states of the implementation's DFA are given as the (sorted) sets of NFA states parsed from their names *)
Definition judge_C03 (N : nfa nat) (oD : option (dfa (list nat))) (unchanged : bool) : nat :=
  worst_code [
    check (nfa_wf_b N) 9;
    match oD with
    | None => 2
    | Some D' =>
      if negb (dfa_wf_b D') then 3
      else if negb (seteqb (dS D') (nS N)) then 4
      else if negb (nfa_dfa_equivb N D') then 5
      else if negb (seteqb (dq0 D') (eclose N [nq0 N])) then 6
      else if negb (all_reachable_b D') then 7
      else match nfa_det N with Some M => if dfa_struct_eqb3 D' M then 0 else 1 | None => 8 end
    end;
    check unchanged 10 ].

Definition explain_C03 (N : nfa nat) := (nfa_det N, eclose N [nq0 N]).
Definition witness_C03 (N : nfa nat) (D' : dfa (list nat)) := match nfa_det N with Some M => dfa_diff_word M D' | None => None end.
