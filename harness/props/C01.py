"""C01 - DFA / NFA acceptance and epsilon closure vs the proved model (Model/DFA.v, Model/NFA.v)."""
import coqlit as L
import gen as G
import conv

COQ_IMPORTS = ['Model.DFA', 'Model.NFA', 'Judge.C01_judge']
PDA_FREE = True      # no PDA is involved: the recycling pass runs with GambaTools.pda_epsilon_closure_max_iterations = 3
LOG_SAFE = True      # no printed output is read back: the recycling pass runs with GambaTools.enable_logging = True
RULE = ('DFAs: all total DFAs with <=2 states x <=2 symbols and 3 states x 1 symbol (thorough: also 3x2 sampled, 4x1), random <=7 states x <=3 symbols, all words <=4 (small) or 30 random words <=8. '
        'NFAs: all 2-state epsilon-NFAs over one symbol (1024; thorough also a sample of 2 symbols / 3 states), random <=7 states x <=3 symbols with epsilon moves and cycles, partial relations, '
        'empty/full F, unreachable states, epsilon symbol in {_, \'\', e}; observed nfa_accepts_word, epsilon_closure of every state and of random sets, N.E, both _nfa_cache tables. '
        'Non-trivial = at least one accepted and one rejected word, and (NFA) at least one epsilon move; distinct by automaton text.')
RULE += ' Added after the seeded rounds: epsilon cycles of length 3-5 re-entered through a letter; alphabets with white space / punctuation; unusual state names (substrings of each other, the empty name); the same object queried, modified in place and queried again.'
CODES = {2: 'dfa_accepts_word differs from the proved model', 3: 'nfa_accepts_word differs from the proved model', 4: 'epsilon_closure / NFA.E differs from the set of epsilon-reachable states',
         5: '(informational since round 6) _nfa_cache Eq table differs', 6: '_nfa_cache Eqa table differs', 9: 'generated automaton is not valid (harness)'}
RESIDUE = 'delta is a defaultdict(set) as built by every library constructor; plain-dict NFAs with missing keys raise KeyError (recorded, F15)'
ASSUMPTIONS = ['single-character symbols; epsilon symbol not in Sigma (class invariant)']


def gen(rng, tier):
    cases = []
    quick = tier == 'quick'
    small = []
    for (n, s) in [(1, 'a'), (1, 'ab'), (2, 'a'), (2, 'ab'), (3, 'a')]:
        small += G.all_dfas(n, s)
    if not quick:
        small += G.all_dfas(4, 'a')
        small += rng.sample(G.all_dfas(3, 'ab'), 1500)
    for d in small:
        cases.append({'kind': 'dfa', 'D': d, 'ws': G.words_str(d['Sigma'], 4)})
    for _ in range(200 if quick else 3000):
        sigma = rng.choice(['a', 'ab', 'abc', '', '_a', 'ε', '01', '_'])
        d = G.random_dfa(rng, rng.randint(1, 7), sigma)
        cases.append({'kind': 'dfa', 'D': d, 'ws': G.random_words(rng, sigma, 30, 8)})
    nf = G.all_nfas(2, 'a')
    if not quick:
        nf += rng.sample(G.all_nfas(2, 'ab'), 4000)
    for n in nf:
        cases.append({'kind': 'nfa', 'N': n, 'ws': G.words_str(n['Sigma'], 4), 'sets': [[], ['q0', 'q1']]})
    for _ in range(300 if quick else 4000):
        sigma = rng.choice(['a', 'ab', 'abc', 'ab', '', '01', '_x'])
        eps = rng.choice([e for e in ['_', '', 'e', 'ε'] if e not in sigma])
        k = rng.randint(1, 7)
        n = G.random_nfa(rng, k, sigma, eps, peps=rng.choice([0.0, 0.2, 0.5]))
        sets = [rng.sample(n['Q'], rng.randint(0, k)) for _ in range(3)]
        cases.append({'kind': 'nfa', 'N': n, 'ws': G.random_words(rng, sigma, 24, 7), 'sets': sets})
    # epsilon cycles of length 3-5 that are entered at one state and re-entered at another through a letter (closures of
    # inner states of a cycle must be complete), with a few states outside the cycle; all words up to length 3
    for _ in range(150 if quick else 3000):
        k, extra = rng.randint(3, 5), rng.randint(1, 2)
        sigma = rng.choice(['ab', 'ab', 'abc'])
        eps = rng.choice(['_', '', 'e'])
        Q = ['q%d' % i for i in range(k + extra)]
        d = {}
        for i in range(k):
            d.setdefault((Q[i], eps), set()).add(Q[(i + 1) % k])
        for _ in range(rng.randint(2, 6)):
            d.setdefault((rng.choice(Q), rng.choice(sigma)), set()).add(rng.choice(Q))
        if rng.random() < 0.3:
            d.setdefault((rng.choice(Q), eps), set()).add(rng.choice(Q))
        F = [q for q in Q[k:] if rng.random() < 0.7] or [Q[-1]]
        n = {'Q': Q, 'Sigma': list(sigma), 'delta': sorted([q, a, sorted(qs)] for (q, a), qs in d.items()), 'q0': rng.choice(Q[:k]), 'F': F, 'eps': eps}
        cases.append({'kind': 'nfa', 'N': n, 'ws': G.words_str(n['Sigma'], 3), 'sets': [rng.sample(Q, 2)]})
    # alphabets containing white space and punctuation (objects built with the class constructors), words that begin / end with them
    for _ in range(60 if quick else 1000):
        sigma = rng.choice([' a', '\ta', ' \t', 'a ', '%a', ' ,'])
        d = G.random_dfa(rng, rng.randint(1, 4), sigma)
        cases.append({'kind': 'dfa', 'D': d, 'ws': G.words_str(sigma, 3)})
        n = G.random_nfa(rng, rng.randint(1, 4), sigma, rng.choice(['_', '']), peps=0.2)
        cases.append({'kind': 'nfa', 'N': n, 'ws': G.words_str(sigma, 3), 'sets': []})
    # unusual state names (substrings of each other, empty name, separators)
    for _ in range(60 if quick else 1000):
        k = rng.randint(2, 6)
        n = G.random_nfa(rng, k, 'ab', rng.choice(['_', '']), names=G.tricky_names(rng, k, allow_empty=True), peps=0.3)
        cases.append({'kind': 'nfa', 'N': n, 'ws': G.words_str('ab', 3), 'sets': [rng.sample(n['Q'], 2)]})
        d = G.retag(G.random_dfa(rng, rng.randint(2, 5), 'ab'), rng, allow_empty=True)
        cases.append({'kind': 'dfa', 'D': d, 'ws': G.words_str('ab', 4)})
    # the same object is queried, modified in place and queried again (no result may be remembered per object)
    for _ in range(100 if quick else 1500):
        sigma = rng.choice(['a', 'ab'])
        k = rng.randint(1, 5)
        ws = G.words_str(sigma, 3 if sigma == 'ab' else 5)
        n1, n2 = G.random_nfa(rng, k, sigma, '_', peps=0.3), G.random_nfa(rng, k, sigma, '_', peps=0.3)
        cases.append({'kind': 'nfa', 'N': n1, 'ws': ws, 'sets': [], 'then': {'kind': 'nfa', 'N': n2, 'ws': ws, 'sets': []}})
        d1, d2 = G.random_dfa(rng, k, sigma), G.random_dfa(rng, k, sigma)
        cases.append({'kind': 'dfa', 'D': d1, 'ws': ws, 'then': {'kind': 'dfa', 'D': d2, 'ws': ws}})
    # partial transition relations given as a plain dict (no defaultdict): a missing key means the empty set
    for _ in range(40 if quick else 600):
        sigma = rng.choice(['a', 'ab'])
        n = G.random_nfa(rng, rng.randint(1, 5), sigma, rng.choice(['_', '']), peps=0.3)
        cases.append({'kind': 'nfa', 'N': n, 'ws': G.random_words(rng, sigma, 10, 5), 'sets': [], 'plain': True})
    return cases


def _observe_dfa(c, D):
    from implutil import safe, ok
    from gambatools.dfa_algorithms import dfa_accepts_word
    accs = []
    for w in c['ws']:
        r = safe(dfa_accepts_word, D, w)
        accs.append(bool(r[1]) if ok(r) else None)
    return {'accs': accs}


def _observe_nfa(c, N):
    from implutil import safe, ok
    from gambatools.nfa_algorithms import nfa_accepts_word, epsilon_closure, _nfa_cache
    accs = []
    for w in c['ws']:
        r = safe(nfa_accepts_word, N, w)
        accs.append(bool(r[1]) if ok(r) else None)
    closures = []
    for q in c['N']['Q']:
        r = safe(epsilon_closure, N, q)
        closures.append([[q], sorted(r[1]) if ok(r) else None])
        r = safe(N.E, q)
        closures.append([[q], sorted(r[1]) if ok(r) else None])
    for s in c['sets']:
        arg = set(s)
        r = safe(epsilon_closure, N, arg)
        closures.append([s, sorted(r[1]) if ok(r) and arg == set(s) else None])
        r = safe(N.E, set(s))
        closures.append([s, sorted(r[1]) if ok(r) else None])
    r = safe(_nfa_cache, N)
    Eq = Eqa = None
    if ok(r):
        try:            # a private helper: its shape is not part of the property (compared as an informational layer only)
            Eq = sorted([q, sorted(s)] for q, s in r[1][0].items())
            Eqa = sorted([q, a, sorted(s)] for (q, a), s in r[1][1].items())
        except Exception:
            Eq = Eqa = None
    return {'accs': accs, 'closures': closures, 'Eq': Eq, 'Eqa': Eqa}


def observe(c):
    """`then`: the SAME object is modified in place (transitions, accepting states) into a second automaton and queried again"""
    if c['kind'] == 'dfa':
        D = conv.dfa_obj(c['D'])
        o = _observe_dfa(c, D)
        if c.get('then'):
            d2 = c['then']['D']
            D.delta.clear()
            D.delta.update({(q, a): t for q, a, t in d2['delta']})
            D.F.clear()
            D.F.update(d2['F'])
            o['then'] = _observe_dfa(c['then'], D)
        return o
    N = conv.nfa_obj(c['N'], plain_dict=bool(c.get('plain')))
    o = _observe_nfa(c, N)
    if c.get('then'):
        n2 = c['then']['N']
        N.delta.clear()
        for (q, a, qs) in n2['delta']:
            N.delta[(q, a)] = set(qs)
        N.F.clear()
        N.F.update(n2['F'])
        o['then'] = _observe_nfa(c['then'], N)
    return o


def _nfa_names(n):
    st = L.state_names(n)
    sy = L.symbol_names(n)
    sy(('eps', n['eps']))
    return st, sy


def _sym(sy, n):
    return lambda a: sy(('eps', n['eps'])) if a == n['eps'] else sy(a)


def nfa_lit(n):
    st = L.state_names(n)
    sy = L.symbol_names(n)
    epscode = sy(('eps', n['eps']))
    f = lambda a: epscode if a == n['eps'] else sy(a)
    delta = L.lst(L.pair(L.pair(L.nat(st(q)), L.nat(f(a))), L.nats(st(t) for t in ts)) for (q, a, ts) in n['delta'])
    lit = '(mkNFA %s %s %s %s %s %s)' % (L.nats(st(q) for q in n['Q']), L.nats(sy(a) for a in n['Sigma']), delta, L.nat(st(n['q0'])),
                                         L.nats(st(q) for q in n['F']), L.nat(epscode))
    return lit, st, f


def encode(c, o):
    if c.get('then'):
        return 'worst_code [%s; %s]' % (_encode1(c, o), _encode1(c['then'], o['then']))
    return _encode1(c, o)


def _encode1(c, o):
    if c['kind'] == 'dfa':
        d = c['D']
        st, sy = L.state_names(d), L.symbol_names(d)
        return 'judge_C01_dfa %s %s %s' % (L.dfa(d, st, sy), L.lst(L.wordc(w, sy) for w in c['ws']), L.lst(L.option(a, L.boolean) for a in o['accs']))
    n = c['N']
    lit, st, f = nfa_lit(n)
    ws = L.lst(L.nats(f(a) for a in w) for w in c['ws'])
    cl = L.lst(L.pair(L.nats(st(q) for q in s), L.option(r, lambda r: L.nats(st(q) for q in r))) for s, r in o['closures'])
    Eq = L.option(o['Eq'], lambda t: L.lst(L.pair(L.nat(st(q)), L.nats(st(x) for x in s)) for q, s in t))
    Eqa = L.option(o['Eqa'], lambda t: L.lst(L.pair(L.pair(L.nat(st(q)), L.nat(f(a))), L.nats(st(x) for x in s)) for q, a, s in t))
    return 'judge_C01_nfa %s %s %s %s %s %s' % (lit, ws, L.lst(L.option(a, L.boolean) for a in o['accs']), cl, Eq, Eqa)


def explain(c):
    if c['kind'] == 'dfa':
        d = c['D']
        st, sy = L.state_names(d), L.symbol_names(d)
        return 'explain_C01_dfa %s %s' % (L.dfa(d, st, sy), L.lst(L.wordc(w, sy) for w in c['ws']))
    lit, st, f = nfa_lit(c['N'])
    sets = [[q] for q in c['N']['Q']] + c['sets']
    return 'explain_C01_nfa %s %s %s' % (lit, L.lst(L.nats(f(a) for a in w) for w in c['ws']), L.lst(L.nats(st(q) for q in s) for s in sets))


def key(c):
    k = conv.dfa_text(c['D']) if c['kind'] == 'dfa' else conv.nfa_text(c['N'])
    return k + ('\n=then=>\n' + key(c['then']) if c.get('then') else '')


def nontrivial(c, o):
    both = (True in o['accs']) and (False in o['accs'])
    if c['kind'] == 'dfa':
        return both
    return both and any(a == c['N']['eps'] for (_, a, _) in c['N']['delta'])


def describe(c):
    if c['kind'] == 'dfa':
        return {'dfa': conv.dfa_text(c['D']), 'words': c['ws'][:20]}
    return {'nfa': conv.nfa_text(c['N']), 'words': c['ws'][:20], 'sets': c['sets']}


def reproduce(c):
    if c['kind'] == 'dfa':
        return 'from gambatools.dfa_algorithms import *; D = parse_dfa(%r); [dfa_accepts_word(D, w) for w in %r]' % (conv.dfa_text(c['D']), c['ws'][:10])
    return ('from gambatools.nfa_algorithms import *; N = parse_nfa(%r); [nfa_accepts_word(N, w) for w in %r]; [epsilon_closure(N, q) for q in N.Q]'
            % (conv.nfa_text(c['N']), c['ws'][:10]))


def signature(c, o, code):
    return 'C01:code%d:%s' % (code, key(c))


def distribution(cases, obs):
    d = {'dfa': 0, 'nfa': 0, 'states': {}, 'eps_cycle': 0, 'F_empty': 0, 'accepted': 0, 'rejected': 0, 'eps_symbol': {}}
    for c, o in zip(cases, obs):
        a = c['D'] if c['kind'] == 'dfa' else c['N']
        d[c['kind']] += 1
        k = str(len(a['Q']))
        d['states'][k] = d['states'].get(k, 0) + 1
        d['F_empty'] += 0 if a['F'] else 1
        if c['kind'] == 'nfa':
            d['eps_cycle'] += 1 if G.nfa_has_eps_cycle(a) else 0
            d['eps_symbol'][repr(a['eps'])] = d['eps_symbol'].get(repr(a['eps']), 0) + 1
        d['accepted'] += sum(1 for x in o['accs'] if x is True)
        d['rejected'] += sum(1 for x in o['accs'] if x is False)
    return d


def shrink(c):
    out = []
    if c['kind'] == 'nfa':
        n = c['N']
        for i in range(len(n['delta'])):
            m = dict(n)
            m['delta'] = n['delta'][:i] + n['delta'][i + 1:]
            out.append(dict(c, N=m))
            q, a, ts = n['delta'][i]
            if len(ts) > 1:
                for t in ts:
                    m = dict(n)
                    m['delta'] = n['delta'][:i] + [[q, a, [x for x in ts if x != t]]] + n['delta'][i + 1:]
                    out.append(dict(c, N=m))
        for q in n['Q']:
            if q != n['q0']:
                m = dict(n)
                m['Q'] = [x for x in n['Q'] if x != q]
                m['F'] = [x for x in n['F'] if x != q]
                m['delta'] = [[p, a, [t for t in ts if t != q]] for (p, a, ts) in n['delta'] if p != q]
                m['delta'] = [e for e in m['delta'] if e[2]]
                out.append(dict(c, N=m, sets=[[x for x in s if x != q] for s in c['sets']]))
    if len(c['ws']) > 1:
        for w in c['ws']:
            out.append(dict(c, ws=[w]))
    elif c['ws'] and len(c['ws'][0]) > 0:
        w = c['ws'][0]
        out.append(dict(c, ws=[w[1:]]))
        out.append(dict(c, ws=[w[:-1]]))
    return out


LEVEL_TEXT = ('Machine-checked Coq theorems for all valid DFAs/NFAs and all words over the alphabet: the models of dfa_accepts_word and nfa_accepts_word answer true exactly when an accepting run '
              'exists (textbook inductive definition), epsilon_closure computes exactly the epsilon-reachable states for every pop order, and both _nfa_cache tables are the closures they claim. '
              'Tied to the Python by in-Coq evaluation of the model on exhaustive small automata and seeded random ones.')
LEVEL_NOTE = 'Trusted: Coq kernel + vm_compute, hand-written models Model/DFA.v, Model/NFA.v, harness encoding. No axioms. defaultdict semantics of delta assumed (F15).'
TECHNIQUE = 'Coq proof (worklist invariant for arbitrary pick, induction on words) + in-Coq differential correspondence'
