(* C10, core of the PDA -> CFG conversion (Sipser, Lemma 2.27) for the model `pda_to_cfg_core`:
   for a well-formed PDA in push/pop format whose state codes are below 40 (so that the variable encoding
   `pairv` is injective), the variable A_pq generates exactly the words read by the balanced computations
   from (p, empty stack) to (q, empty stack).
   Part 1 is the abstract core (design-notes/proto_pda_to_cfg_core.v, adapted to nat codes and to the
   epsilon symbol `e`); Part 2 relates the abstract push/pop relations to `moves`/`pda_reach`;
   Part 3 relates the abstract language A p q to the parse trees of the generated grammar.
   Stdlib only, no axioms. *)
From GT Require Import Base.Prelude Model.NFA Model.PDA Model.CFG Model.PDAConv Proofs.PDAProofs Proofs.CFGBasics.
Import ListNotations.

(* ------------------------------------------------------------------------------------------------ *)
(* Part 1: abstract core                                                                             *)
(* ------------------------------------------------------------------------------------------------ *)
Section Sipser.
  Variable e : nat.                                           (* the epsilon symbol *)
  Definition optw (a : nat) : word := if Nat.eqb a e then [] else [a].
  Variable push : nat -> nat -> nat -> nat -> Prop.           (* push p a q u :  p --a, eps -> u--> q *)
  Variable pop  : nat -> nat -> nat -> nat -> Prop.           (* pop p a u q  :  p --a, u -> eps--> q *)

  Inductive sstep : config -> nat -> config -> Prop :=
  | s_push p a q u st : push p a q u -> sstep (p, st) a (q, u :: st)
  | s_pop p a u q st : pop p a u q -> sstep (p, u :: st) a (q, st).

  (* step-counted computations; a step labelled e reads nothing *)
  Inductive srun : nat -> config -> word -> config -> Prop :=
  | run_0 c : srun 0 c [] c
  | run_S n c a c1 x c2 : sstep c a c1 -> srun n c1 x c2 -> srun (S n) c (optw a ++ x) c2.

  Definition sbal (p : nat) (x : word) (q : nat) : Prop := exists n, srun n (p, []) x (q, []).

  Inductive SA : nat -> nat -> word -> Prop :=
  | A_eps p : SA p p []
  | A_cat p r q x y : SA p r x -> SA r q y -> SA p q (x ++ y)
  | A_wrap p r s q a b u x : push p a r u -> pop s b u q -> SA r s x -> SA p q (optw a ++ x ++ optw b).

  Lemma srun_app n1 c1 x c2 : srun n1 c1 x c2 -> forall n2 y c3, srun n2 c2 y c3 -> srun (n1 + n2) c1 (x ++ y) c3.
  Proof.
    induction 1 as [c|n c a c1 x c2 Hs _ IH]; intros n2 y c3 H2; cbn [app plus]; auto.
    rewrite <- app_assoc. eapply run_S; eauto.
  Qed.

  (* frame: a computation can be replayed above any base stack *)
  Lemma sstep_frame c a c' t : sstep c a c' -> sstep (fst c, snd c ++ t) a (fst c', snd c' ++ t).
  Proof. destruct 1; cbn [fst snd app]; constructor; auto. Qed.
  Lemma srun_frame n c x c' t : srun n c x c' -> srun n (fst c, snd c ++ t) x (fst c', snd c' ++ t).
  Proof.
    induction 1 as [c|n c a c1 x c2 Hs _ IH].
    - constructor.
    - eapply run_S; [apply sstep_frame; eauto | exact IH].
  Qed.

  Theorem SA_sbal p q x : SA p q x -> sbal p x q.
  Proof.
    induction 1 as [p|p r q x y _ [n1 H1] _ [n2 H2]|p r s q a b u x Hpush Hpop _ [n H]].
    - exists 0. constructor.
    - exists (n1 + n2). eapply srun_app; eauto.
    - exists (S (n + 1)). eapply run_S; [apply s_push; eauto|].
      apply srun_frame with (t := [u]) in H. cbn [fst snd app] in H.
      eapply srun_app; [exact H|].
      replace (optw b) with (optw b ++ []) by apply app_nil_r.
      eapply run_S; [apply s_pop; eauto | constructor].
  Qed.

  Lemma sstep_inv c a c' : sstep c a c' ->
      (exists q u, push (fst c) a q u /\ c' = (q, u :: snd c)) \/
      (exists u q st, pop (fst c) a u q /\ snd c = u :: st /\ c' = (q, st)).
  Proof. destruct 1; cbn [fst snd]; [left|right]; eauto 6. Qed.

  (* first return to the base *)
  Lemma first_return n : forall p s u x q, srun n (p, s ++ [u]) x (q, []) ->
      exists n1 n2 x1 b x2 s' q', n = n1 + 1 + n2 /\ x = x1 ++ optw b ++ x2 /\
        srun n1 (p, s) x1 (s', []) /\ pop s' b u q' /\ srun n2 (q', []) x2 (q, []).
  Proof.
    induction n as [|n IH]; intros p s u x q H.
    - inversion H; subst. destruct s; discriminate.
    - inversion H as [|n' c a c1 x' c2 Hs Hr]; subst.
      apply sstep_inv in Hs. cbn [fst snd] in Hs.
      destruct Hs as [(q0 & v & Hpush & ->)|(v & q0 & st & Hpop & Hst & ->)].
      + change (v :: s ++ [u]) with ((v :: s) ++ [u]) in Hr.
        destruct (IH _ _ _ _ _ Hr) as (n1 & n2 & x1 & b & x2 & s' & q' & -> & -> & H1 & Hp & H2).
        exists (S n1), n2, (optw a ++ x1), b, x2, s', q'. repeat split; auto.
        * now rewrite <- app_assoc.
        * eapply run_S; [apply s_push; eauto | exact H1].
      + destruct s as [|v0 s0]; cbn [app] in Hst; inversion Hst; subst.
        * exists 0, n, [], a, x', p, q0. repeat split; auto. constructor.
        * destruct (IH _ _ _ _ _ Hr) as (n1 & n2 & x1 & b & x2 & s' & q' & -> & -> & H1 & Hp & H2).
          exists (S n1), n2, (optw a ++ x1), b, x2, s', q'. repeat split; auto.
          -- now rewrite <- app_assoc.
          -- eapply run_S; [apply s_pop; eauto | exact H1].
  Qed.

  Theorem sbal_SA : forall n p x q, srun n (p, []) x (q, []) -> SA p q x.
  Proof.
    induction n as [n IH] using lt_wf_ind. intros p x q H.
    destruct n as [|n].
    - inversion H; subst. constructor.
    - inversion H as [|n' c a c1 x' c2 Hs Hr]; subst.
      apply sstep_inv in Hs. cbn [fst snd] in Hs.
      destruct Hs as [(r & u & Hpush & ->)|(v & q0 & st & _ & Hst & _)]; [|discriminate].
      change [u] with ([] ++ [u]) in Hr.
      destruct (first_return _ _ _ _ _ _ Hr) as (n1 & n2 & x1 & b & x2 & s' & q' & -> & -> & H1 & Hp & H2).
      assert (A1 : SA r s' x1) by (apply (IH n1); [lia|exact H1]).
      assert (A2 : SA q' q x2) by (apply (IH n2); [lia|exact H2]).
      replace (optw a ++ x1 ++ optw b ++ x2) with ((optw a ++ x1 ++ optw b) ++ x2) by now rewrite <- !app_assoc.
      eapply A_cat; [|exact A2]. eapply A_wrap; eauto.
  Qed.

  Theorem SA_iff_sbal p q x : SA p q x <-> sbal p x q.
  Proof. split; [apply SA_sbal | intros [n H]; eapply sbal_SA; eauto]. Qed.
End Sipser.

(* ------------------------------------------------------------------------------------------------ *)
(* Part 2: the push/pop relations of a PDA, computations = pda_reach                                 *)
(* ------------------------------------------------------------------------------------------------ *)

Definition small_states (P : pda) : Prop := forall q, In q (pQ P) -> q < 40.

Definition cpush (P : pda) (p a r u : nat) : Prop := In (p, a, peps P, r, u) (transitions P) /\ u <> peps P.
Definition cpop (P : pda) (s b u q : nat) : Prop := In (s, b, u, q, peps P) (transitions P) /\ u <> peps P.

Lemma pda_wf_parts P : pda_wf P ->
  In (pq0 P) (pQ P) /\ ~ In (peps P) (pSg P) /\ ~ In (peps P) (pGm P) /\ incl (pF P) (pQ P) /\
  (forall p a u q v, In (p, a, u, q, v) (transitions P) ->
     In p (pQ P) /\ (In a (pSg P) \/ a = peps P) /\ (In u (pGm P) \/ u = peps P) /\ In q (pQ P) /\
     (In v (pGm P) \/ v = peps P)).
Proof.
  unfold pda_wf, pda_wf_b. rewrite !andb_true_iff. intros [[[[[H1 H2] H3] H4] H5] _].
  apply mem_In in H1. apply negb_true_iff, mem_nIn in H2. apply negb_true_iff, mem_nIn in H3.
  apply subsetb_incl in H4. rewrite forallb_forall in H5.
  split; [exact H1|]. split; [exact H2|]. split; [exact H3|]. split; [exact H4|].
  intros p a u q v Ht. specialize (H5 _ Ht). cbn beta iota in H5.
  rewrite !andb_true_iff, !orb_true_iff, !mem_In, !Nat.eqb_eq in H5. tauto.
Qed.

Lemma push_pop_trans P : pda_is_push_pop P = true -> forall p a u q v, In (p, a, u, q, v) (transitions P) ->
  (u = peps P /\ v <> peps P) \/ (u <> peps P /\ v = peps P).
Proof.
  unfold pda_is_push_pop. rewrite forallb_forall. intros H p a u q v Ht. specialize (H _ Ht).
  unfold is_push_pop_t in H. rewrite orb_true_iff, !andb_true_iff, !negb_true_iff, !Nat.eqb_eq, !Nat.eqb_neq in H.
  exact H.
Qed.

Lemma p2c_moves_In P a c c1 : In c1 (moves P a c) <->
  exists u q v, In (fst c, a, u, q, v) (transitions P) /\ can_pop_push P (snd c) u = true /\ c1 = (q, pop_push P (snd c) u v).
Proof.
  unfold moves. rewrite in_flat_map. split.
  - intros ([[[[p a1] u] q] v] & Ht & Hin).
    destruct (Nat.eqb p (fst c)) eqn:Ep; [|destruct Hin].
    destruct (Nat.eqb a1 a) eqn:Ea; [|destruct Hin].
    destruct (can_pop_push P (snd c) u) eqn:Ec; [|destruct Hin].
    cbn [andb] in Hin. destruct Hin as [Hin|[]].
    apply Nat.eqb_eq in Ep. apply Nat.eqb_eq in Ea. subst p a1.
    exists u, q, v. split; [exact Ht|]. split; [exact Ec | symmetry; exact Hin].
  - intros (u & q & v & Ht & Ec & ->). exists (fst c, a, u, q, v). split; [exact Ht|].
    rewrite !Nat.eqb_refl, Ec. cbn [andb]. left. reflexivity.
Qed.

Lemma moves_sstep P a c c1 : pda_is_push_pop P = true ->
  (In c1 (moves P a c) <-> sstep (cpush P) (cpop P) c a c1).
Proof.
  intros Hpp. rewrite p2c_moves_In. destruct c as [p st]. cbn [fst snd]. split.
  - intros (u & q & v & Ht & Ec & ->).
    destruct (push_pop_trans P Hpp _ _ _ _ _ Ht) as [[Eu Nv]|[Nu Ev]].
    + subst u. unfold pop_push. rewrite Nat.eqb_refl. apply Nat.eqb_neq in Nv. rewrite Nv.
      apply s_push. split; [exact Ht | apply Nat.eqb_neq; exact Nv].
    + subst v. unfold can_pop_push in Ec. unfold pop_push. rewrite Nat.eqb_refl.
      assert (Nu' := Nu). apply Nat.eqb_neq in Nu'. rewrite Nu' in Ec |- *. cbn [orb] in Ec.
      destruct st as [|x st]; [discriminate|]. apply Nat.eqb_eq in Ec. subst x. cbn [tl].
      apply s_pop. split; [exact Ht | exact Nu].
  - intros Hs. inversion Hs as [p' a' q u st' [Ht Nu] | p' a' u q st' [Ht Nu]]; subst.
    + exists (peps P), q, u. split; [exact Ht|]. unfold can_pop_push, pop_push. rewrite Nat.eqb_refl.
      apply Nat.eqb_neq in Nu. rewrite Nu. split; reflexivity.
    + exists u, q, (peps P). split; [exact Ht|]. unfold can_pop_push, pop_push. rewrite !Nat.eqb_refl.
      apply Nat.eqb_neq in Nu. rewrite Nu. cbn [orb tl]. split; reflexivity.
Qed.

Lemma reach_srun P c x c' : pda_is_push_pop P = true -> pda_reach P c x c' ->
  exists n, srun (peps P) (cpush P) (cpop P) n c x c'.
Proof.
  intros Hpp Hr. induction Hr as [c|c c1 w c2 H1 Hr [n IH]|c a c1 w c2 Ha H1 Hr [n IH]].
  - exists 0. constructor.
  - exists (S n). apply (moves_sstep P _ _ _ Hpp) in H1.
    assert (E : w = optw (peps P) (peps P) ++ w) by (unfold optw; rewrite Nat.eqb_refl; reflexivity).
    rewrite E. eapply run_S; [exact H1 | exact IH].
  - exists (S n). apply (moves_sstep P _ _ _ Hpp) in H1.
    assert (E : a :: w = optw (peps P) a ++ w).
    { unfold optw. apply Nat.eqb_neq in Ha. rewrite Ha. reflexivity. }
    rewrite E. eapply run_S; [exact H1 | exact IH].
Qed.

Lemma srun_reach P n c x c' : pda_is_push_pop P = true -> srun (peps P) (cpush P) (cpop P) n c x c' ->
  pda_reach P c x c'.
Proof.
  intros Hpp Hr. induction Hr as [c|n c a c1 x c2 Hs Hr IH].
  - apply pr_refl.
  - apply (moves_sstep P _ _ _ Hpp) in Hs. unfold optw. destruct (Nat.eqb a (peps P)) eqn:Ea.
    + apply Nat.eqb_eq in Ea. subst a. cbn [app]. apply pr_eps with c1; assumption.
    + apply Nat.eqb_neq in Ea. cbn [app]. apply pr_sym with c1; assumption.
Qed.

Lemma sbal_reach P p q x : pda_is_push_pop P = true ->
  (sbal (peps P) (cpush P) (cpop P) p x q <-> pda_reach P (p, []) x (q, [])).
Proof.
  intros Hpp. split; [intros [n H]; eapply srun_reach; eauto | apply reach_srun; exact Hpp].
Qed.

(* the frame property, for any PDA: a computation can be replayed above any base stack *)
Lemma p2c_moves_frame P a c c1 below : In c1 (moves P a c) -> In (fst c1, snd c1 ++ below) (moves P a (fst c, snd c ++ below)).
Proof.
  rewrite !p2c_moves_In. intros (u & q & v & Ht & Ec & ->). cbn [fst snd]. exists u, q, v. split; [exact Ht|].
  unfold can_pop_push, pop_push in *. destruct (Nat.eqb u (peps P)) eqn:Eu; cbn [orb] in *.
  - split; [reflexivity|]. destruct (Nat.eqb v (peps P)); reflexivity.
  - destruct (snd c) as [|x st]; [discriminate|]. cbn [app tl]. split; [exact Ec|].
    destruct (Nat.eqb v (peps P)); reflexivity.
Qed.

Theorem p2c_reach_frame P c x c' below : pda_reach P c x c' ->
  pda_reach P (fst c, snd c ++ below) x (fst c', snd c' ++ below).
Proof.
  intros Hr. induction Hr as [c|c c1 w c2 H1 Hr IH|c a c1 w c2 Ha H1 Hr IH].
  - apply pr_refl.
  - apply pr_eps with (fst c1, snd c1 ++ below); [apply p2c_moves_frame; exact H1 | exact IH].
  - apply pr_sym with (fst c1, snd c1 ++ below); [exact Ha | apply p2c_moves_frame; exact H1 | exact IH].
Qed.

(* ------------------------------------------------------------------------------------------------ *)
(* Part 3: the rules of pda_to_cfg_core, parse trees = the abstract language SA                       *)
(* ------------------------------------------------------------------------------------------------ *)

Definition wrap_rule (P : pda) (p a r s b q : nat) : rule :=
  mkRule (pairv p q) 0 (opt_tm (peps P) a ++ [Var (pairv r s)] ++ opt_tm (peps P) b).

Lemma core_rules P rl : In rl (gR (pda_to_cfg_core P)) <->
  (exists p a r u s b q v, In u (pGm P) /\ In (p, a, peps P, r, u) (transitions P) /\
      In (s, b, u, q, v) (transitions P) /\ u <> peps P /\ rl = wrap_rule P p a r s b q) \/
  (exists p q r, In p (pQ P) /\ In q (pQ P) /\ In r (pQ P) /\
      rl = mkRule (pairv p q) 0 [Var (pairv p r); Var (pairv r q)]) \/
  (exists p, In p (pQ P) /\ rl = mkRule (pairv p p) 0 []).
Proof.
  unfold pda_to_cfg_core. cbn [gR]. rewrite !in_app_iff. split.
  - intros [H|[H|H]].
    + left. apply in_flat_map in H. destruct H as (u & Hu & H).
      apply in_flat_map in H. destruct H as (t1 & Ht1 & H).
      apply in_map_iff in H. destruct H as (t2 & E & Ht2).
      apply filter_In in Ht1. destruct Ht1 as [Ht1 C1]. apply filter_In in Ht2. destruct Ht2 as [Ht2 C2].
      destruct t1 as [[[[p a] u1] r] v1]. destruct t2 as [[[[s b] u2] q] v2].
      apply andb_true_iff in C1. destruct C1 as [C1a C1b]. apply Nat.eqb_eq in C1a. apply Nat.eqb_eq in C1b.
      apply andb_true_iff in C2. destruct C2 as [C2a C2b]. apply negb_true_iff, Nat.eqb_neq in C2a. apply Nat.eqb_eq in C2b.
      subst u1 v1 u2. exists p, a, r, u, s, b, q, v2. repeat split; auto.
    + right; left. apply in_flat_map in H. destruct H as (p & Hp & H).
      apply in_flat_map in H. destruct H as (q & Hq & H).
      apply in_map_iff in H. destruct H as (r & E & Hr). exists p, q, r. auto.
    + right; right. apply in_map_iff in H. destruct H as (p & E & Hp). exists p. auto.
  - intros [(p & a & r & u & s & b & q & v & Hu & Ht1 & Ht2 & Nu & ->)|[(p & q & r & Hp & Hq & Hr & ->)|(p & Hp & ->)]].
    + left. apply in_flat_map. exists u. split; [exact Hu|].
      apply in_flat_map. exists (p, a, peps P, r, u). split.
      { apply filter_In. split; [exact Ht1|]. rewrite !Nat.eqb_refl. reflexivity. }
      apply in_map_iff. exists (s, b, u, q, v). split; [reflexivity|].
      apply filter_In. split; [exact Ht2|]. rewrite Nat.eqb_refl, andb_true_r. apply negb_true_iff, Nat.eqb_neq. exact Nu.
    + right; left. apply in_flat_map. exists p. split; [exact Hp|].
      apply in_flat_map. exists q. split; [exact Hq|]. apply in_map_iff. exists r. auto.
    + right; right. apply in_map_iff. exists p. auto.
Qed.

Lemma core_vars P A : In A (gV (pda_to_cfg_core P)) <-> exists p q, In p (pQ P) /\ In q (pQ P) /\ A = pairv p q.
Proof.
  unfold pda_to_cfg_core. cbn [gV]. rewrite in_flat_map. split.
  - intros (p & Hp & H). apply in_map_iff in H. destruct H as (q & E & Hq). exists p, q. auto.
  - intros (p & q & Hp & Hq & ->). exists p. split; [exact Hp|]. apply in_map_iff. exists q. auto.
Qed.

Lemma pairv_inj p q p' q' : q < 40 -> q' < 40 -> pairv p q = pairv p' q' -> p = p' /\ q = q'.
Proof. unfold pairv. lia. Qed.

(* ---- well-formedness of the grammar ---- *)
Theorem pda_to_cfg_core_wf P : pda_wf P -> cfg_wf (pda_to_cfg_core P).
Proof.
  intros Hwf. destruct (pda_wf_parts P Hwf) as (_ & _ & _ & _ & Htr).
  intros rl Hrl. apply core_rules in Hrl.
  destruct Hrl as [(p & a & r & u & s & b & q & v & Hu & Ht1 & Ht2 & Nu & ->)|[(p & q & r & Hp & Hq & Hr & ->)|(p & Hp & ->)]];
    cbn [rvar rrhs wrap_rule].
  - destruct (Htr _ _ _ _ _ Ht1) as (Hp & Ha & _ & Hr & _). destruct (Htr _ _ _ _ _ Ht2) as (Hs & Hb & _ & Hq & _).
    split; [apply core_vars; exists p, q; auto|].
    intros x Hx. rewrite !in_app_iff in Hx. destruct Hx as [Hx|[Hx|Hx]].
    + unfold opt_tm in Hx. destruct (Nat.eqb a (peps P)) eqn:Ea; [destruct Hx|]. destruct Hx as [<-|[]].
      cbn [is_var sname Tm fst snd]. apply Nat.eqb_neq in Ea. destruct Ha as [Ha|Ha]; [exact Ha | contradiction].
    + destruct Hx as [<-|[]]. cbn [is_var sname Var fst snd]. apply core_vars. exists r, s. auto.
    + unfold opt_tm in Hx. destruct (Nat.eqb b (peps P)) eqn:Eb; [destruct Hx|]. destruct Hx as [<-|[]].
      cbn [is_var sname Tm fst snd]. apply Nat.eqb_neq in Eb. destruct Hb as [Hb|Hb]; [exact Hb | contradiction].
  - split; [apply core_vars; exists p, q; auto|].
    intros x [<-|[<-|[]]]; cbn [is_var sname Var fst snd]; apply core_vars; [exists p, r | exists r, q]; auto.
  - split; [apply core_vars; exists p, p; auto|]. intros x [].
Qed.

(* ---- computations -> parse trees ---- *)
Lemma yl_opt_tm G e a : yields_list G (opt_tm e a) (optw e a).
Proof.
  unfold opt_tm, optw. destruct (Nat.eqb a e); [constructor|]. apply yields_list_single. constructor.
Qed.

Lemma SA_states P : pda_wf P -> forall p q x, SA (peps P) (cpush P) (cpop P) p q x -> In p (pQ P) -> In q (pQ P).
Proof.
  intros Hwf. destruct (pda_wf_parts P Hwf) as (_ & _ & _ & _ & Htr).
  induction 1 as [p|p r q x y _ IH1 _ IH2|p r s q a b u x Hpush Hpop _ _]; intros Hp; auto.
  destruct Hpop as [Ht _]. apply (Htr _ _ _ _ _ Ht).
Qed.

Lemma SA_yields P : pda_wf P -> forall p q x, SA (peps P) (cpush P) (cpop P) p q x -> In p (pQ P) ->
  yields (pda_to_cfg_core P) (Var (pairv p q)) x.
Proof.
  intros Hwf. destruct (pda_wf_parts P Hwf) as (_ & _ & _ & _ & Htr).
  induction 1 as [p|p r q x y H1 IH1 H2 IH2|p r s q a b u x Hpush Hpop H IH]; intros Hp.
  - apply y_var with (rhs := []); [|constructor].
    exists (mkRule (pairv p p) 0 []). split; [|split; reflexivity]. apply core_rules. right; right. exists p. auto.
  - assert (Hr : In r (pQ P)) by (apply (SA_states P Hwf _ _ _ H1 Hp)).
    assert (Hq : In q (pQ P)) by (apply (SA_states P Hwf _ _ _ H2 Hr)).
    apply y_var with (rhs := [Var (pairv p r); Var (pairv r q)]).
    + exists (mkRule (pairv p q) 0 [Var (pairv p r); Var (pairv r q)]). split; [|split; reflexivity].
      apply core_rules. right; left. exists p, q, r. auto.
    + apply yields_list_pair. exists x, y. split; [reflexivity|]. split; [apply IH1; exact Hp | apply IH2; exact Hr].
  - destruct Hpush as [Ht1 Nu]. destruct Hpop as [Ht2 _].
    destruct (Htr _ _ _ _ _ Ht1) as (_ & _ & _ & Hr & Hu). destruct Hu as [Hu|Hu]; [|contradiction].
    apply y_var with (rhs := opt_tm (peps P) a ++ [Var (pairv r s)] ++ opt_tm (peps P) b).
    + exists (wrap_rule P p a r s b q). split; [|split; reflexivity].
      apply core_rules. left. exists p, a, r, u, s, b, q, (peps P). auto.
    + apply yields_list_app; [apply yl_opt_tm|]. apply yields_list_app; [|apply yl_opt_tm].
      apply yields_list_single. apply IH. exact Hr.
Qed.

(* ---- parse trees -> computations ---- *)
Definition symsem (P : pda) (x : sym) (w : word) : Prop :=
  if fst x then forall p q, In p (pQ P) -> In q (pQ P) -> snd x = pairv p q -> SA (peps P) (cpush P) (cpop P) p q w
  else w = [snd x].
Fixpoint lsem (P : pda) (xs : list sym) (w : word) : Prop :=
  match xs with
  | [] => w = []
  | x :: xs' => exists w1 w2, w = w1 ++ w2 /\ symsem P x w1 /\ lsem P xs' w2
  end.

Lemma lsem_app P xs ys : forall w, lsem P (xs ++ ys) w -> exists w1 w2, w = w1 ++ w2 /\ lsem P xs w1 /\ lsem P ys w2.
Proof.
  induction xs as [|x xs IH]; intros w H; cbn [app lsem] in *.
  - exists [], w. auto.
  - destruct H as (w1 & w2 & -> & Hx & H). destruct (IH _ H) as (v1 & v2 & -> & H1 & H2).
    exists (w1 ++ v1), v2. split; [apply app_assoc|]. split; [|exact H2]. exists w1, v1. auto.
Qed.

Lemma lsem_opt_tm P e a w : lsem P (opt_tm e a) w -> w = optw e a.
Proof.
  unfold opt_tm, optw. destruct (Nat.eqb a e); cbn [lsem]; [auto|].
  intros (w1 & w2 & -> & Hx & ->). unfold symsem in Hx. cbn [Tm fst snd] in Hx. subst w1. reflexivity.
Qed.

Lemma yields_sem P : pda_wf P -> pda_is_push_pop P = true -> small_states P ->
  (forall x w, yields (pda_to_cfg_core P) x w -> symsem P x w) /\
  (forall xs w, yields_list (pda_to_cfg_core P) xs w -> lsem P xs w).
Proof.
  intros Hwf Hpp Hsm. destruct (pda_wf_parts P Hwf) as (_ & _ & _ & _ & Htr).
  apply yields_mutind.
  - intros a. reflexivity.
  - intros A rhs w Hr _ IH. unfold symsem. cbn [Var fst snd]. intros p q Hp Hq EA.
    destruct Hr as (rl & Hin & Hv & Hrhs). apply core_rules in Hin.
    destruct Hin as [(p' & a & r & u & s & b & q' & v & Hu & Ht1 & Ht2 & Nu & ->)|[(p' & q' & r & Hp' & Hq' & Hr & ->)|(p' & Hp' & ->)]];
      cbn [rvar rrhs wrap_rule] in Hv, Hrhs; subst A rhs.
    + destruct (Htr _ _ _ _ _ Ht1) as (Hp' & _ & _ & Hr & _). destruct (Htr _ _ _ _ _ Ht2) as (Hs & _ & _ & Hq' & _).
      destruct (pairv_inj p' q' p q (Hsm _ Hq') (Hsm _ Hq) EA) as [-> ->].
      destruct (push_pop_trans P Hpp _ _ _ _ _ Ht2) as [[Eu _]|[_ Ev]]; [contradiction|]. subst v.
      apply lsem_app in IH. destruct IH as (w1 & w23 & -> & H1 & H23).
      apply lsem_app in H23. destruct H23 as (w2 & w3 & -> & H2 & H3).
      apply lsem_opt_tm in H1. apply lsem_opt_tm in H3. subst w1 w3.
      cbn [lsem] in H2. destruct H2 as (v1 & v2 & -> & Hx & ->). rewrite app_nil_r.
      unfold symsem in Hx. cbn [Var fst snd] in Hx.
      apply A_wrap with (u := u) (r := r) (s := s); [split; assumption | split; assumption | apply Hx; auto].
    + destruct (pairv_inj p' q' p q (Hsm _ Hq') (Hsm _ Hq) EA) as [-> ->].
      cbn [lsem] in IH. destruct IH as (w1 & w2' & -> & H1 & (w2 & w3 & -> & H2 & ->)). rewrite app_nil_r.
      unfold symsem in H1, H2. cbn [Var fst snd] in H1, H2.
      apply A_cat with (r := r); [apply H1; auto | apply H2; auto].
    + destruct (pairv_inj p' p' p q (Hsm _ Hp') (Hsm _ Hq) EA) as [-> ->].
      cbn [lsem] in IH. subst w. apply A_eps.
  - reflexivity.
  - intros x xs w1 w2 _ IH1 _ IH2. cbn [lsem]. exists w1, w2. auto.
Qed.

(* ------------------------------------------------------------------------------------------------ *)
(* Main theorems                                                                                     *)
(* ------------------------------------------------------------------------------------------------ *)

(* every derivation is a computation *)
Theorem sipser_2_27_yields_reach P p q x : pda_wf P -> pda_is_push_pop P = true -> small_states P ->
  In p (pQ P) -> In q (pQ P) ->
  yields (pda_to_cfg_core P) (Var (pairv p q)) x -> pda_reach P (p, []) x (q, []).
Proof.
  intros Hwf Hpp Hsm Hp Hq Hy. apply (sbal_reach P p q x Hpp). apply SA_sbal.
  apply (proj1 (yields_sem P Hwf Hpp Hsm)) in Hy. unfold symsem in Hy. cbn [Var fst snd] in Hy. apply Hy; auto.
Qed.

(* every balanced computation is a derivation (the encoding need not be injective here) *)
Theorem sipser_2_27_reach_yields P p q x : pda_wf P -> pda_is_push_pop P = true -> In p (pQ P) ->
  pda_reach P (p, []) x (q, []) -> yields (pda_to_cfg_core P) (Var (pairv p q)) x.
Proof.
  intros Hwf Hpp Hp Hr. apply SA_yields; [exact Hwf| |exact Hp].
  apply SA_iff_sbal. apply (sbal_reach P p q x Hpp). exact Hr.
Qed.

(* the hypothesis on the letters of x is not needed: both sides exclude the epsilon symbol by themselves *)
Theorem sipser_2_27_strong P p q x : pda_wf P -> pda_is_push_pop P = true -> small_states P ->
  In p (pQ P) -> In q (pQ P) ->
  (yields (pda_to_cfg_core P) (Var (pairv p q)) x <-> pda_reach P (p, []) x (q, [])).
Proof.
  intros Hwf Hpp Hsm Hp Hq. split.
  - apply sipser_2_27_yields_reach; assumption.
  - apply sipser_2_27_reach_yields; assumption.
Qed.

Theorem sipser_2_27 P p q x : pda_wf P -> pda_is_push_pop P = true -> small_states P -> In p (pQ P) -> In q (pQ P) ->
  Forall (fun a => a <> peps P) x ->
  (yields (pda_to_cfg_core P) (Var (pairv p q)) x <-> pda_reach P (p, []) x (q, [])).
Proof. intros Hwf Hpp Hsm Hp Hq _. apply sipser_2_27_strong; assumption. Qed.

Theorem pda_to_cfg_core_correct_strong P qa : pda_wf P -> pda_is_push_pop P = true -> small_states P -> pF P = [qa] ->
  (forall w st, pda_reach P (pq0 P, []) w (qa, st) -> st = []) ->
  forall w, (cfg_lang (pda_to_cfg_core P) w <-> pda_lang P w).
Proof.
  intros Hwf Hpp Hsm HF Hemp w. destruct (pda_wf_parts P Hwf) as (Hq0 & _ & _ & HFQ & _).
  assert (Hqa : In qa (pQ P)) by (apply HFQ; rewrite HF; left; reflexivity).
  rewrite derives_yields. unfold yields_lang.
  assert (ES : gS (pda_to_cfg_core P) = pairv (pq0 P) qa) by (unfold pda_to_cfg_core; cbn [gS]; rewrite HF; reflexivity).
  rewrite ES. rewrite (sipser_2_27_strong P (pq0 P) qa w Hwf Hpp Hsm Hq0 Hqa).
  unfold pda_lang. rewrite HF. split.
  - intros Hr. exists qa, []. split; [left; reflexivity | exact Hr].
  - intros (q & st & [<-|[]] & Hr). rewrite (Hemp _ _ Hr) in Hr. exact Hr.
Qed.

Theorem pda_to_cfg_core_correct P qa : pda_wf P -> pda_is_push_pop P = true -> small_states P -> pF P = [qa] ->
  (forall w st, pda_reach P (pq0 P, []) w (qa, st) -> st = []) ->
  forall w, Forall (fun a => a <> peps P) w -> (cfg_lang (pda_to_cfg_core P) w <-> pda_lang P w).
Proof. intros Hwf Hpp Hsm HF Hemp w _. apply pda_to_cfg_core_correct_strong with qa; assumption. Qed.

(* ------------------------------------------------------------------------------------------------ *)
(* The bound on the state codes is needed: pairv 0 40 = pairv 1 0.  In the automaton below nothing    *)
(* can be done from the initial state 0 (the language is empty), but the start variable A_{0,40} has  *)
(* the same code as A_{1,0}, which derives the word 5 6 by the loop 1 -5,push 7-> 1 -6,pop 7-> 0.     *)
(* (Only the direction "derivation -> computation" is affected; sipser_2_27_reach_yields holds for    *)
(* every state coding.)                                                                               *)
(* ------------------------------------------------------------------------------------------------ *)
Definition p2c_cex : pda :=
  mkPDA [0; 1; 40] [5; 6] [7] [((1, 5, 9), [(1, 7)]); ((1, 6, 7), [(0, 9)])] 0 [40] 9.

Lemma small_states_needed :
  pda_wf p2c_cex /\ pda_is_push_pop p2c_cex = true /\ pF p2c_cex = [40] /\
  (forall w st, pda_reach p2c_cex (pq0 p2c_cex, []) w (40, st) -> st = []) /\
  cfg_lang (pda_to_cfg_core p2c_cex) [5; 6] /\ ~ pda_lang p2c_cex [5; 6].
Proof.
  assert (Hstuck : forall w c, pda_reach p2c_cex (0, []) w c -> c = (0, [])).
  { intros w c Hr. inversion Hr as [c0|c0 c1 w0 c2 H1 _|c0 a c1 w0 c2 _ H1 _]; subst; [reflexivity| |].
    - cbn in H1. destruct H1.
    - unfold moves in H1. cbn in H1. destruct H1. }
  split; [vm_compute; reflexivity|]. split; [vm_compute; reflexivity|]. split; [reflexivity|].
  split; [|split].
  - intros w st Hr. apply Hstuck in Hr. discriminate.
  - apply derives_yields. unfold yields_lang.
    change (gS (pda_to_cfg_core p2c_cex)) with 40.
    apply y_var with (rhs := [Tm 5; Var 41; Tm 6]).
    + exists (mkRule 40 0 [Tm 5; Var 41; Tm 6]). split; [|split; reflexivity]. vm_compute. left. reflexivity.
    + change [5; 6] with ([5] ++ [] ++ [6]). constructor; [constructor|]. constructor; [|apply yields_list_single; constructor].
      apply y_var with (rhs := []); [|constructor].
      exists (mkRule 41 0 []). split; [|split; reflexivity]. vm_compute. tauto.
  - intros (q & st & Hq & Hr). apply Hstuck in Hr. destruct Hq as [Hq|[]]. subst q. discriminate.
Qed.

(* ------------------------------------------------------------------------------------------------ *)
(* Composition: pda_to_cfg = the three normal forms followed by pda_to_cfg_core                       *)
(* ------------------------------------------------------------------------------------------------ *)
Lemma pda_to_cfg_stages bottom dummy states P G : pda_to_cfg bottom dummy states P = Some G ->
  exists P1 s1 P2 s2 P3 s3,
    to_one_accept states P = Some (P1, s1) /\
    ((pda_is_push_pop P1 = true /\ P2 = P1 /\ s2 = s1) \/
     (pda_is_push_pop P1 = false /\ to_push_pop dummy s1 P1 = Some (P2, s2))) /\
    to_empty_stack bottom s2 P2 = Some (P3, s3) /\ G = pda_to_cfg_core P3.
Proof.
  unfold pda_to_cfg.
  assert (E1 : (if Nat.eqb (length (dedup (pF P))) 1 then Some (P, states) else to_one_accept states P)
               = to_one_accept states P).
  { unfold to_one_accept. destruct (Nat.eqb (length (dedup (pF P))) 1); reflexivity. }
  rewrite E1. destruct (to_one_accept states P) as [[P1 s1]|] eqn:H1; [|discriminate].
  destruct (pda_is_push_pop P1) eqn:Hpp.
  - destruct (to_empty_stack bottom s1 P1) as [[P3 s3]|] eqn:H3; [|discriminate].
    intros E. inversion E; subst G. exists P1, s1, P1, s1, P3, s3. repeat split; auto.
  - destruct (to_push_pop dummy s1 P1) as [[P2 s2]|] eqn:H2; [|discriminate].
    destruct (to_empty_stack bottom s2 P2) as [[P3 s3]|] eqn:H3; [|discriminate].
    intros E. inversion E; subst G. exists P1, s1, P2, s2, P3, s3. repeat split; auto.
Qed.

(* Conditional composition.  The three hypotheses are the specifications of the normal-form routines
   (established separately, Proofs/PDAConvProofs.v: to_one_accept_correct, to_push_pop_correct,
   to_empty_stack_correct); they are explicit hypotheses here so that this file does not depend on that one.
   The state codes of the final automaton (which include the fresh states taken from `states`) must be < 40. *)
Theorem pda_to_cfg_correct_cond bottom dummy states P G :
  (forall st P0 P' rest, pda_wf P0 -> to_one_accept st P0 = Some (P', rest) ->
     pda_wf P' /\ (forall w, pda_lang P' w <-> pda_lang P0 w)) ->
  (forall st P0 P' rest, pda_wf P0 -> to_push_pop dummy st P0 = Some (P', rest) ->
     pda_wf P' /\ pda_is_push_pop P' = true /\ (forall w, pda_lang P' w <-> pda_lang P0 w)) ->
  (forall st P0 P' rest, pda_wf P0 -> to_empty_stack bottom st P0 = Some (P', rest) ->
     pda_wf P' /\ (pda_is_push_pop P0 = true -> pda_is_push_pop P' = true) /\ (exists qa, pF P' = [qa]) /\
     (forall w q st', In q (pF P') -> pda_reach P' (pq0 P', []) w (q, st') -> st' = []) /\
     (forall w, pda_lang P' w <-> pda_lang P0 w)) ->
  pda_wf P -> pda_to_cfg bottom dummy states P = Some G ->
  exists P3, G = pda_to_cfg_core P3 /\ cfg_wf G /\
    (small_states P3 -> forall w, cfg_lang G w <-> pda_lang P w).
Proof.
  intros S1 S2 S3 Hwf E. apply pda_to_cfg_stages in E.
  destruct E as (P1 & s1 & P2 & s2 & P3 & s3 & E1 & E2 & E3 & ->).
  destruct (S1 _ _ _ _ Hwf E1) as (Hwf1 & L1).
  assert (H2 : pda_wf P2 /\ pda_is_push_pop P2 = true /\ (forall w, pda_lang P2 w <-> pda_lang P1 w)).
  { destruct E2 as [(Hpp & -> & ->)|(_ & E2)].
    - split; [exact Hwf1|]. split; [exact Hpp|]. intros w. reflexivity.
    - apply (S2 _ _ _ _ Hwf1 E2). }
  destruct H2 as (Hwf2 & Hpp2 & L2).
  destruct (S3 _ _ _ _ Hwf2 E3) as (Hwf3 & Hpp3 & (qa & HF) & Hemp & L3).
  exists P3. split; [reflexivity|]. split; [apply pda_to_cfg_core_wf; exact Hwf3|].
  intros Hsm w. rewrite (pda_to_cfg_core_correct_strong P3 qa Hwf3 (Hpp3 Hpp2) Hsm HF).
  - rewrite L3, L2, L1. reflexivity.
  - intros w' st Hr. apply (Hemp w' qa st); [rewrite HF; left; reflexivity | exact Hr].
Qed.

Print Assumptions pda_to_cfg_core_wf.
Print Assumptions sipser_2_27_yields_reach.
Print Assumptions sipser_2_27_reach_yields.
Print Assumptions sipser_2_27.
Print Assumptions sipser_2_27_strong.
Print Assumptions pda_to_cfg_core_correct.
Print Assumptions pda_to_cfg_core_correct_strong.
Print Assumptions p2c_reach_frame.
Print Assumptions small_states_needed.
Print Assumptions pda_to_cfg_stages.
Print Assumptions pda_to_cfg_correct_cond.
