"""Conversions between JSON-able case data and gambatools objects (used inside workers).

Object recycling (VERIF_RECYCLE=1, set by the driver for one extra pass per check): instead of constructing a new library
object for every case, the k-th object of a kind built for the previous case is REFILLED IN PLACE with the content of the new
case (same Python object, same container objects).  Whatever the library remembered about the object (weak-key caches,
lru_cache on the object, attributes stored on it) is then stale, and the observation is judged against the model of the new
content as always.  Objects needed at the same time within one case are always distinct objects."""
import os

_RECYCLE = os.environ.get('VERIF_RECYCLE') == '1'
_pool, _idx = {}, {}


def new_case():
    _idx.clear()


def _recycled(kind, make, refill):
    if not _RECYCLE:
        return make()
    i = _idx.get(kind, 0)
    _idx[kind] = i + 1
    lst = _pool.setdefault(kind, [])
    if i < len(lst):
        refill(lst[i])
        return lst[i]
    obj = make()
    lst.append(obj)
    return obj


def _shuffled(items):
    """in the recycling pass the entries of a transition relation are inserted in a shuffled (but reproducible) order: the iteration
    order of a dict is its insertion order, and nothing may depend on transitions of one state being adjacent"""
    items = list(items)
    if _RECYCLE and len(items) > 2:
        import random
        random.Random(len(items) * 7919 + sum(len(str(x)) for x in items)).shuffle(items)
    return items


def _reset(container, items):
    container.clear()
    container.update(items)
SYMS = 'abcdefgh01_ε'


def sym(a):
    return SYMS[a]


def word_str(w):
    return ''.join(SYMS[a] for a in w)


def word_codes(s):
    return [SYMS.index(ch) for ch in s]


def re_to_obj(t):
    from gambatools import regexp as R
    k = t[0]
    if k == '0':
        return R.Zero()
    if k == '1':
        return R.One()
    if k == 's':
        return R.Symbol(SYMS[t[1]])
    if k == '+':
        return R.Sum(re_to_obj(t[1]), re_to_obj(t[2]))
    if k == '.':
        return R.Concat(re_to_obj(t[1]), re_to_obj(t[2]))
    if k == '*':
        return R.Iteration(re_to_obj(t[1]))
    raise ValueError(t)


def re_from_obj(x):
    from gambatools import regexp as R
    if isinstance(x, R.Zero):
        return ['0']
    if isinstance(x, R.One):
        return ['1']
    if isinstance(x, R.Symbol):
        return ['s', SYMS.index(x.symbol)]
    if isinstance(x, R.Sum):
        return ['+', re_from_obj(x.left), re_from_obj(x.right)]
    if isinstance(x, R.Concat):
        return ['.', re_from_obj(x.left), re_from_obj(x.right)]
    if isinstance(x, R.Iteration):
        return ['*', re_from_obj(x.operand)]
    raise ValueError(x)


def re_str(t):
    k = t[0]
    if k in '01':
        return k
    if k == 's':
        return SYMS[t[1]]
    if k == '*':
        return '(%s)*' % re_str(t[1])
    return '(%s%s%s)' % (re_str(t[1]), k, re_str(t[2]))


# ---------------------------------------------------------------- Turing machines
def tm_obj(c):
    from gambatools.tm import TM
    delta = {(p, a): (q, b, d) for (p, a, q, b, d) in _shuffled(c['delta'])}

    def refill(T):
        _reset(T.Q, c['Q'])
        _reset(T.Sigma, c['Sigma'])
        _reset(T.Gamma, c['Gamma'])
        _reset(T.delta, delta)
        T.q0, T.q_accept, T.q_reject, T.blank = c['q0'], c['qa'], c['qr'], c['blank']
    return _recycled('tm', lambda: TM(set(c['Q']), set(c['Sigma']), set(c['Gamma']), delta, c['q0'], c['qa'], c['qr'], c['blank']), refill)


def tm_text(c):
    lines = ['states ' + ' '.join(c['Q']), 'initial ' + c['q0'], 'accept ' + c['qa'], 'reject ' + c['qr'],
             'input_symbols ' + ' '.join(c['Sigma']), 'tape_symbols ' + ' '.join(c['Gamma']), 'blank ' + c['blank']]
    for (p, a, q, b, d) in c['delta']:
        lines.append('%s %s %s%s,%s' % (p, q, a, b, d))
    return '\n'.join(lines)


# ---------------------------------------------------------------- DFA / NFA (case dicts <-> gambatools objects)
def dfa_obj(c, check=True):
    from gambatools.dfa import DFA
    delta = {(q, a): q1 for (q, a, q1) in _shuffled(c['delta'])}

    def refill(D):
        _reset(D.Q, c['Q'])
        _reset(D.Sigma, c['Sigma'])
        _reset(D.delta, delta)
        D.q0 = c['q0']
        _reset(D.F, c['F'])
    return _recycled('dfa', lambda: DFA(set(c['Q']), set(c['Sigma']), delta, c['q0'], set(c['F']), check_validity=check), refill)


def dfa_case(D):
    return {'Q': sorted(D.Q), 'Sigma': sorted(D.Sigma), 'delta': sorted([q, a, q1] for (q, a), q1 in D.delta.items()),
            'q0': D.q0, 'F': sorted(D.F)}


def dfa_text(c):
    lines = ['states ' + ' '.join(c['Q']), 'initial ' + c['q0'], 'final ' + ' '.join(c['F']), 'input_symbols ' + ' '.join(c['Sigma'])]
    for (q, a, q1) in c['delta']:
        lines.append('%s %s %s' % (q, q1, a))
    return '\n'.join(lines)


def nfa_obj(c, plain_dict=False):
    from collections import defaultdict
    from gambatools.nfa import NFA
    delta = {} if plain_dict else defaultdict(set)
    for (q, a, qs) in _shuffled(c['delta']):
        delta[(q, a)] = set(qs)

    def refill(N):
        _reset(N.Q, c['Q'])
        _reset(N.Sigma, c['Sigma'])
        N.delta.clear()
        for k, v in delta.items():
            N.delta[k] = v
        N.q0, N.epsilon = c['q0'], c['eps']
        _reset(N.F, c['F'])
    return _recycled('nfa_plain' if plain_dict else 'nfa', lambda: NFA(set(c['Q']), set(c['Sigma']), delta, c['q0'], set(c['F']), c['eps']), refill)


def nfa_case(N):
    return {'Q': sorted(N.Q), 'Sigma': sorted(N.Sigma), 'delta': sorted([q, a, sorted(qs)] for (q, a), qs in N.delta.items() if qs),
            'q0': N.q0, 'F': sorted(N.F), 'eps': N.epsilon}


def nfa_text(c):
    eps = c['eps'] if c['eps'] else "''"
    lines = ['states ' + ' '.join(c['Q']), 'initial ' + c['q0'], 'final ' + ' '.join(c['F']), 'input_symbols ' + ' '.join(c['Sigma']), 'epsilon ' + eps]
    for (q, a, qs) in c['delta']:
        for q1 in qs:
            lines.append('%s %s %s' % (q, q1, a if a != c['eps'] else eps))
    return '\n'.join(lines)


# ---------------------------------------------------------------- context-free grammars
def cfg_obj(c):
    from gambatools.cfg import CFG, Rule, Alternative, Variable, Terminal
    mk = lambda s: Variable(s[1]) if s[0] == 'V' else Terminal(s[1])
    R = [Rule(Variable(v), Alternative([mk(s) for s in rhs])) for (v, rhs) in c['R']]

    def refill(G):
        _reset(G.V, [Variable(v) for v in c['V']])
        _reset(G.Sigma, [Terminal(t) for t in c['Sigma']])
        G.R[:] = R
        G.S = Variable(c['S'])
    return _recycled('cfg', lambda: CFG(set(Variable(v) for v in c['V']), set(Terminal(t) for t in c['Sigma']), R, Variable(c['S']), check_validity=False), refill)


def cfg_case(G):
    from gambatools.cfg import Variable
    ids = {}
    R, rid = [], []
    for r in G.R:
        R.append([str(r.variable), [['V' if isinstance(s, Variable) else 'T', str(s)] for s in r.alternative.symbols]])
        rid.append(ids.setdefault(id(r.alternative), len(ids)))
    return {'V': sorted(str(v) for v in G.V), 'Sigma': sorted(str(t) for t in G.Sigma), 'R': R, 'S': str(G.S), 'rid': rid}


def cfg_text(c):
    lines = []
    for v, rhs in c['R']:
        lines.append('%s -> %s' % (v, ' '.join(s[1] for s in rhs) if rhs else 'ε'))
    return 'start %s; V = %s; Sigma = %s\n' % (c['S'], ' '.join(c['V']), ' '.join(c['Sigma'])) + '\n'.join(lines)


def cfg_simple_text(c):
    """the grammar in the simple text format (single-character names), start variable first"""
    order, rules = [], {}
    for v, rhs in c['R']:
        if v not in rules:
            rules[v] = []
            order.append(v)
        rules[v].append(''.join(s[1] for s in rhs) if rhs else '_')
    if c['S'] in order:
        order.remove(c['S'])
        order.insert(0, c['S'])
    return '\n'.join('%s -> %s' % (v, ' | '.join(rules[v])) for v in order)


# ---------------------------------------------------------------- PDAs
def pda_obj(c):
    from collections import defaultdict
    from gambatools.pda import PDA
    delta = defaultdict(set)
    for (p, a, u, q, v) in _shuffled(c['delta']):
        delta[(p, a, u)].add((q, v))

    def refill(P):
        _reset(P.Q, c['Q'])
        _reset(P.Sigma, c['Sigma'])
        _reset(P.Gamma, c['Gamma'])
        P.delta.clear()
        for k, v in delta.items():
            P.delta[k] = v
        P.q0, P.epsilon = c['q0'], c['eps']
        _reset(P.F, c['F'])
    return _recycled('pda', lambda: PDA(set(c['Q']), set(c['Sigma']), set(c['Gamma']), delta, c['q0'], set(c['F']), c['eps']), refill)


def pda_case(P):
    return {'Q': sorted(P.Q), 'Sigma': sorted(P.Sigma), 'Gamma': sorted(P.Gamma),
            'delta': sorted([p, a, u, q, v] for (p, a, u), tg in P.delta.items() for (q, v) in tg),
            'q0': P.q0, 'F': sorted(P.F), 'eps': P.epsilon}


def pda_text(c):
    eps = c['eps'] if c['eps'] else "''"
    e = lambda x: eps if x == c['eps'] else x
    lines = ['states ' + ' '.join(c['Q']), 'initial ' + c['q0'], 'final ' + ' '.join(c['F']), 'input_symbols ' + ' '.join(c['Sigma']),
             'stack_symbols ' + ' '.join(c['Gamma']), 'epsilon ' + eps]
    for (p, a, u, q, v) in c['delta']:
        lines.append('%s %s %s,%s%s' % (p, q, e(a), e(u), e(v)))
    return '\n'.join(lines)
