"""C02 - bounded language enumeration for the six formalisms vs the proved enumerators."""
import itertools
import coqlit as L
import gen as G
import conv
from props.C01 import nfa_lit
from props.C11 import tm_lit, _names as tm_names
import props.C11 as C11
import props.C09 as C09

COQ_IMPORTS = ['Model.DFA', 'Model.NFA', 'Model.Regexp', 'Model.TM', 'Model.CFG', 'Model.PDA', 'Judge.C02_judge']
LOG_SAFE = True      # no printed output is read back: the recycling pass runs with GambaTools.enable_logging = True
RULE = ('objects of the six kinds (generators of C01, C05, C07, C09, C11: exhaustive small DFAs / NFAs / regexp trees, random larger ones, random grammars incl. non-CNF, random PDAs with closure limits '
        '{1,2,5,50,1000}, TMs with step budgets {0,1,5,1000}) x all bounds n in {0,..,4} (n <= 3 for grammars and PDAs). Observed: X_words_up_to_n, generate_language, and the set of all words <= n over the alphabet '
        'that the matching acceptance test accepts. Relation: all three equal the proved-exact model enumeration (PDA: when no closure is truncated; otherwise subset of the language decided with a larger budget). '
        'Non-trivial = the enumerated set for the largest n is non-empty and smaller than the set of all words; distinct by object text.')
RULE += ' Added after the seeded rounds: letter-nondeterministic fan PDAs; objects with unusual state names.'
CODES = {9: 'generated object invalid (harness)', 1: 'PDA: truncated closure, undecided within the larger budget', 63: 'pda_words_up_to_n raised', 64: 'pda_words_up_to_n contains a word outside the language'}
for c, k in [(10, 'dfa'), (20, 'nfa'), (30, 'regexp'), (40, 'tm'), (50, 'cfg'), (60, 'pda')]:
    CODES[c] = k + '_words_up_to_n differs from the exact set'
    CODES[c + 1] = 'generate_language differs from the exact set for a ' + k
    CODES[c + 2] = k + ': the words <= n accepted by the acceptance test differ from the exact set'
    CODES[c + 3] = k + ': model has no value (raised) but the implementation returned one'
ASSUMPTIONS = ['objects valid; single-character symbols; grammar variable and terminal names disjoint']
RESIDUE = 'itertools.product, str concatenation, set comprehension; isinstance dispatch of generate_language'
STREAM = list(range(300, 360))
SHARD = 10


def gen(rng, tier):
    quick = tier == 'quick'
    cases = []
    NS = [0, 1, 2, 3, 4]
    ds = G.all_dfas(1, 'a') + G.all_dfas(2, 'a') + rng.sample(G.all_dfas(2, 'ab'), 30 if quick else 64)
    ds += [G.random_dfa(rng, rng.randint(1, 6), rng.choice(['a', 'ab', 'abc', '', '01', 'a_', 'ε1'])) for _ in range(60 if quick else 1500)]
    for i, d in enumerate(ds):
        cases.append({'kind': 'dfa', 'X': G.retag(d, rng, allow_empty=True) if i % 7 == 3 and len(d['Q']) <= 6 else d, 'ns': NS})
    ns = rng.sample(G.all_nfas(2, 'a'), 80 if quick else 1024)
    ns += [G.random_nfa(rng, rng.randint(1, 6), rng.choice(['a', 'ab', 'ab', '']), rng.choice(['_', '', 'e']), peps=rng.choice([0.0, 0.3])) for _ in range(80 if quick else 1500)]
    for i, n in enumerate(ns):
        cases.append({'kind': 'nfa', 'X': G.retag(n, rng, allow_empty=True) if i % 7 == 3 and len(n['Q']) <= 6 else n, 'ns': NS})
    rs = [t for k in range(1, 5) for t in G.re_trees(k, 2)]
    if quick:
        rs = rng.sample(rs, 90)
    rs += [G.random_re(rng, rng.randint(2, 5), 2) for _ in range(50 if quick else 1500)]
    for i, r in enumerate(rs):
        if G.re_nodes(r) <= 14:
            cases.append({'kind': 're', 'X': G.relabel_re(r, G.CODE_SETS[i % len(G.CODE_SETS)]), 'ns': NS})
    tms = C11.gen(rng, tier)
    for t in (rng.sample(tms, 80) if quick else tms[:1500]):
        t = dict(t)
        t['runs'] = []
        t['enum'] = [[n, k] for n in ([0, 1, 2, 3] if len(t['Sigma']) <= 1 else [0, 1, 2]) for k in ([0, 1, 5] if n < 3 else [5])] + [[2, 1000]]
        cases.append({'kind': 'tm', 'X': t})
    pool = G.all_rules(['S', 'A'], ['a', 'b'], 2)
    gs = [G.mk_cfg([rng.choice(pool) for _ in range(rng.choice([1, 2, 3]))], 'S', extra_vars=['A']) for _ in range(60 if quick else 1500)]
    gs += [G.random_cfg(rng, rng.randint(1, 3), 2, rng.randint(1, 5), maxlen=3) for _ in range(40 if quick else 1000)]
    gs += [G.random_cnf(rng, rng.randint(2, 4), 2, rng.randint(2, 7)) for _ in range(60 if quick else 1500)]
    gs += [G.nullable_chain_cfg(rng) for _ in range(25 if quick else 500)]
    # grammars with 24-28 declared variables (most of them unused): the normalisation inside the enumerator / the acceptance test then
    # has to invent its fresh variables beyond the 26 letters
    import string
    for _ in range(8 if quick else 150):
        k = rng.randint(23, 27)
        names = [x for x in string.ascii_uppercase if x != 'S'][:min(k, 25)] + ['S%d' % i for i in range(max(0, k - 25))]
        rules = [rng.choice(pool) for _ in range(rng.choice([1, 2]))]
        rules.append(('S', [('T', 'a'), ('V', 'S'), ('T', 'b')]) if rng.random() < 0.5 else ('S', [('T', 'a'), ('T', 'b'), ('T', 'a'), ('V', 'A')]))
        rules.append(('S', [('T', 'a'), ('T', 'b')]))
        gs.append(G.mk_cfg(rules, 'S', extra_vars=names))
    for g in gs:
        cases.append({'kind': 'cfg', 'X': g, 'ns': [0, 1, 2, 3]})
    for c in [x for x in C09.gen(rng, tier) if len(x['P']['Q']) <= 10][:(70 if quick else 1500)]:
        eps_push = any(t[1] == c['P']['eps'] and t[4] != c['P']['eps'] for t in c['P']['delta'])
        lim = min(c['limit'], 5) if eps_push else c['limit']
        cases.append({'kind': 'pda', 'X': c['P'], 'limit': lim, 'ns': ([0, 1, 2, 3] if len(c['P']['Sigma']) <= 1 else [0, 1, 2]) if not eps_push else [0, 1, 2][:3 - len(c['P']['Sigma']) + 1]})
    # letter moves with several target configurations that are reached again through another letter in the same round
    # (per-configuration word sets of pda_words_up_to_n must not be shared); no epsilon-input moves, so closures are tiny
    for _ in range(60 if quick else 1500):
        P = G.fan_pda(rng)
        cases.append({'kind': 'pda', 'X': P, 'limit': 50, 'ns': [0, 1, 2, 3] if len(P['Sigma']) <= 2 else [0, 1, 2]})
    return cases


def _re_codes(t):
    if t[0] == 's':
        return {t[1]}
    out = set()
    for x in t[1:]:
        if isinstance(x, list):
            out |= _re_codes(x)
    return out


def _filter(accept, sigma, n):
    out = []
    for k in range(n + 1):
        for w in itertools.product(sorted(sigma), repeat=k):
            w = ''.join(w)
            if accept(w):
                out.append(w)
    return out


def observe(c):
    from implutil import safe, ok
    from gambatools.language_generator import generate_language
    k = c['kind']
    out = []
    if k == 'dfa':
        from gambatools.dfa_algorithms import dfa_words_up_to_n as enum, dfa_accepts_word as acc
        X = conv.dfa_obj(c['X'])
    elif k == 'nfa':
        from gambatools.nfa_algorithms import nfa_words_up_to_n as enum, nfa_accepts_word as acc
        X = conv.nfa_obj(c['X'])
    elif k == 're':
        from gambatools.regexp_algorithms import regexp_words_up_to_n as enum, regexp_accepts_word as acc
        X = conv.re_to_obj(c['X'])
    elif k == 'cfg':
        from gambatools.cfg_algorithms import cfg_words_up_to_n as enum, cfg_accepts_word as acc
        X = conv.cfg_obj(c['X'])
    elif k == 'pda':
        from gambatools.pda_algorithms import pda_words_up_to_n as enum, pda_accepts_word as acc
        from gambatools.global_settings import GambaTools
        X = conv.pda_obj(c['X'])
        old = GambaTools.pda_epsilon_closure_max_iterations
        GambaTools.pda_epsilon_closure_max_iterations = c['limit']
    if k == 'tm':
        from gambatools.tm_algorithms import tm_words_up_to_n, tm_accepts_word
        T = conv.tm_obj(c['X'])
        for n, steps in c['X']['enum']:
            e = safe(tm_words_up_to_n, T, n, steps, timeout=20)
            g = safe(generate_language, T, n, timeout=20) if steps == 1000 else e
            f = safe(_filter, lambda w: tm_accepts_word(T, w, steps) is True, c['X']['Sigma'], n, timeout=20)
            out.append([sorted(x[1]) if ok(x) else None for x in (e, g, f)])
        return {'runs': out}
    sigma = c['X']['Sigma'] if k != 're' else sorted(set(conv.SYMS[i] for i in _re_codes(c['X'])) | {'a'})
    try:
        for n in c['ns']:
            e = safe(enum, X, n, timeout=20)
            g = safe(generate_language, X, n, timeout=20)
            f = safe(_filter, lambda w: acc(X, w), sigma, n, timeout=30)
            out.append([sorted(x[1]) if ok(x) else None for x in (e, g, f)])
    finally:
        if k == 'pda':
            GambaTools.pda_epsilon_closure_max_iterations = old
    return {'runs': out}


def _obs3(r, wl):
    return L.pair(*[L.option(x, lambda ws: L.lst(wl(w) for w in ws)) for x in r])


def encode(c, o):
    k = c['kind']
    x = c['X']
    if k == 'dfa':
        st, sy = L.state_names(x), L.symbol_names(x)
        wl = lambda w: L.wordc(w, sy)
        return 'judge_C02_dfa %s %s' % (L.dfa(x, st, sy), L.lst(L.pair(L.nat(n), _obs3(r, wl)) for n, r in zip(c['ns'], o['runs'])))
    if k == 'nfa':
        lit, st, f = nfa_lit(x)
        wl = lambda w: L.nats(f(a) for a in w)
        return 'judge_C02_nfa %s %s' % (lit, L.lst(L.pair(L.nat(n), _obs3(r, wl)) for n, r in zip(c['ns'], o['runs'])))
    if k == 're':
        wl = lambda w: L.word(conv.word_codes(w))
        return 'judge_C02_re %s %s' % (L.re(x), L.lst(L.pair(L.nat(n), _obs3(r, wl)) for n, r in zip(c['ns'], o['runs'])))
    if k == 'tm':
        st, sy = tm_names(x)
        wl = lambda w: L.nats(sy(a) for a in w)
        return 'judge_C02_tm %s %s' % (tm_lit(x, st, sy), L.lst(L.pair(L.nat(n), L.nat(s), _obs3(r, wl)) for (n, s), r in zip(x['enum'], o['runs'])))
    if k == 'cfg':
        nm = L.Names()
        for v in x['V']:
            nm(v)
        for t in ['a', 'b', 'c'] + x['Sigma']:
            nm(t)
        wl = lambda w: L.nats(nm(a) for a in w)
        return 'judge_C02_cfg %s %s %s' % (L.cfg(x, nm), L.nats(STREAM), L.lst(L.pair(L.nat(n), _obs3(r, wl)) for n, r in zip(c['ns'], o['runs'])))
    st, sy, f = L.pda_names(x)
    wl = lambda w: L.nats(f(a) for a in w)
    return 'judge_C02_pda %s %d %s' % (L.pda(x, st, f), c['limit'], L.lst(L.pair(L.nat(n), _obs3(r, wl)) for n, r in zip(c['ns'], o['runs'])))


def explain(c):
    k = c['kind']
    x = c['X']
    if k == 'cfg':
        nm = L.Names()
        for v in x['V']:
            nm(v)
        for t in ['a', 'b', 'c'] + x['Sigma']:
            nm(t)
        return 'explain_C02_cfg %s %s %d' % (L.cfg(x, nm), L.nats(STREAM), c['ns'][-1])
    if k == 'pda':
        st, sy, f = L.pda_names(x)
        return 'explain_C02_pda %s %d %d' % (L.pda(x, st, f), c['limit'], c['ns'][-1])
    return '0'


def key(c):
    k = c['kind']
    x = c['X']
    t = {'dfa': conv.dfa_text, 'nfa': conv.nfa_text, 're': conv.re_str, 'tm': conv.tm_text, 'cfg': conv.cfg_text, 'pda': conv.pda_text}[k](x)
    return k + '|' + t + ('|%d' % c['limit'] if k == 'pda' else '')


def nontrivial(c, o):
    last = o['runs'][-1][0] if o['runs'] else None
    if not last:
        return False
    x = c['X']
    sigma = ['a', 'b', 'c'] if c['kind'] == 're' else x['Sigma']
    n = (x['enum'][-1][0] if c['kind'] == 'tm' else c['ns'][-1])
    total = sum(len(sigma) ** i for i in range(n + 1))
    return 0 < len(last) < total


def describe(c):
    return {'kind': c['kind'], 'object': key(c), 'bounds': c.get('ns') or c['X'].get('enum')}


def reproduce(c):
    return 'from gambatools.language_generator import generate_language; X = <%s>; [generate_language(X, n) for n in range(5)]' % key(c).replace('\n', ' ; ')


def signature(c, o, code):
    return 'C02:code%d:%s' % (code, key(c))


def distribution(cases, obs):
    d = {}
    for c in cases:
        d[c['kind']] = d.get(c['kind'], 0) + 1
    return d


def shrink(c):
    out = []
    if 'ns' in c and len(c['ns']) > 1:
        for n in c['ns']:
            out.append(dict(c, ns=[n]))
    if c['kind'] == 'cfg':
        g = c['X']
        for i in range(len(g['R'])):
            e = dict(g, R=g['R'][:i] + g['R'][i + 1:])
            out.append(dict(c, X=e))
    return out


LEVEL_TEXT = ('Machine-checked Coq theorems, one per formalism, for every object and every bound n >= 0: the model of X_words_up_to_n returns exactly the words of length <= n over the alphabet that are in the '
              'language (= that the proved-correct acceptance model accepts); PDAs under "no closure truncated", TMs under the same step budget. Tied to the Python by in-Coq evaluation of enumerator, generate_language '
              'and acceptance-filtered word sets for all n in 0..4.')
LEVEL_NOTE = 'Trusted: Coq kernel + vm_compute, the models of C01/C05/C07/C09/C11, harness. No axioms. cfg_words_up_to_n modelled as repaired by fix F12.'
TECHNIQUE = 'Coq proofs by induction on the bound (frontier invariants) + in-Coq differential correspondence for n = 0..4'
