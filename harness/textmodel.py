"""Token-level encoding of automaton descriptions (C16 / C17): Python text -> list of lines of tokens of char codes."""
import re
import coqlit as L

FIXED = {'ε': 301, '□': 401}


class Chars:
    def __init__(self):
        self.w, self.nw = {}, {}

    def code(self, ch):
        if ch in FIXED:
            return FIXED[ch]
        o = ord(ch)
        if o < 128:
            if ch.isalnum() or ch == '_':
                return 100 + o
            return o
        if re.fullmatch(r'\w', ch):
            if ch not in self.w:
                self.w[ch] = 302 + len(self.w)
            return self.w[ch]
        if ch not in self.nw:
            self.nw[ch] = 402 + len(self.nw)
        return self.nw[ch]

    def tok(self, s):
        return L.lst(str(self.code(ch)) for ch in s)

    def toks(self, ss):
        return L.lst(self.tok(s) for s in ss)

    def text(self, text):
        return L.lst(L.lst(self.tok(w) for w in line.strip().split()) for line in text.split('\n'))


def dfa_rec(ch, d):
    """d: {'Q','Sigma','delta':[[q,a,q1]],'q0','F'} with string names -> tdfa literal"""
    delta = L.lst(L.pair(L.pair(ch.tok(q), ch.tok(a)), ch.tok(t)) for q, a, t in d['delta'])
    return '(mkTDFA %s %s %s %s %s)' % (ch.toks(d['Q']), ch.toks(d['Sigma']), delta, ch.tok(d['q0']), ch.toks(d['F']))


def nfa_rec(ch, n):
    delta = L.lst(L.pair(L.pair(ch.tok(q), ch.tok(a)), ch.toks(ts)) for q, a, ts in n['delta'])
    return '(mkTNFA %s %s %s %s %s %s)' % (ch.toks(n['Q']), ch.toks(n['Sigma']), delta, ch.tok(n['q0']), ch.toks(n['F']), ch.tok(n['eps']))


def pda_rec(ch, p):
    delta = L.lst(L.pair(ch.tok(x[0]), ch.tok(x[1]), ch.tok(x[2]), ch.tok(x[3]), ch.tok(x[4])) for x in p['delta'])
    return '(mkTPDA %s %s %s %s %s %s %s)' % (ch.toks(p['Q']), ch.toks(p['Sigma']), ch.toks(p['Gamma']), delta, ch.tok(p['q0']), ch.toks(p['F']), ch.tok(p['eps']))


def tm_rec(ch, t):
    delta = L.lst(L.pair(L.pair(ch.tok(p), ch.tok(a)), L.pair(ch.tok(q), ch.tok(b), L.boolean(d == 'L'))) for p, a, q, b, d in t['delta'])
    return '(mkTTM %s %s %s %s %s %s %s %s)' % (ch.toks(t['Q']), ch.toks(t['Sigma']), ch.toks(t['Gamma']), delta, ch.tok(t['q0']), ch.tok(t['qa']), ch.tok(t['qr']), ch.tok(t['blank']))


def tm_case(T):
    return {'Q': sorted(T.Q), 'Sigma': sorted(T.Sigma), 'Gamma': sorted(T.Gamma),
            'delta': sorted([p, a, q, b, d] for (p, a), (q, b, d) in T.delta.items()), 'q0': T.q0, 'qa': T.q_accept, 'qr': T.q_reject, 'blank': T.blank}
