"""C07 - CYK table and membership vs the proved model (Model/CYK.v)."""
import coqlit as L
import gen as G
import conv

COQ_IMPORTS = ['Model.CFG', 'Model.Chomsky', 'Model.CYK', 'Judge.C07_judge']
PDA_FREE = True      # no PDA is involved: the recycling pass runs with GambaTools.pda_epsilon_closure_max_iterations = 3
LOG_SAFE = True      # no printed output is read back: the recycling pass runs with GambaTools.enable_logging = True
RULE = ('grammars over variables {S,A,B,..} and terminals {a,b}: all one-rule grammars and a seeded sample of two- and three-rule grammars from the right-hand sides of length <= 2 over {S,A,a,b}; '
        'random arbitrary grammars (epsilon, unit, cyclic, useless rules, rhs length <= 4) and random CNF grammars (<= 5 variables); each with all words of length <= 4 over {a,b} (incl. the empty word). '
        'Observed: CFG.is_chomsky, cfg_accepts_word for every word, every cell (i,j) of cfg_cyk_matrix for CNF grammars. Non-trivial = at least one word accepted and one rejected; distinct by grammar text.')
RULE += ' Added after the seeded rounds: call sequences in one process (sibling grammar with the same rules and another start variable; start variable changed in place).'
CODES = {2: 'cfg_accepts_word differs from the proved model', 3: 'a cell of cfg_cyk_matrix differs from the proved table', 4: 'CFG.is_chomsky differs', 9: 'generated grammar invalid (harness)'}
ASSUMPTIONS = ['variable names and terminal names are disjoint strings (both parsers guarantee it: terminals are lower-case characters)', 'terminals are single characters']
RESIDUE = 'str-subclass equality of Variable/Terminal; defaultdict P, X'
STREAM = list(range(300, 360))
SHARD = 50


def gen(rng, tier):
    quick = tier == 'quick'
    ws = G.all_words(2, 4)
    gs = []
    pool = G.all_rules(['S', 'A'], ['a', 'b'], 2)
    for r in pool:
        gs.append(G.mk_cfg([r], 'S', extra_vars=['A']))
    for _ in range(250 if quick else 4000):
        k = rng.choice([2, 3, 3])
        gs.append(G.mk_cfg([rng.choice(pool) for _ in range(k)], 'S', extra_vars=['A']))
    for _ in range(250 if quick else 4000):
        gs.append(G.random_cfg(rng, rng.randint(1, 4), rng.randint(1, 2), rng.randint(1, 7), maxlen=rng.choice([2, 3, 4]), varnames=rng.choice([None, None, ['S', 'A', 'AB', 'B', 'BB']])))
    for _ in range(300 if quick else 4000):
        gs.append(G.random_cnf(rng, rng.randint(2, 5), 2, rng.randint(2, 9), names=rng.choice([None, None, ['S', 'A', 'AB', 'B', 'BB'], ['S', 'X', 'XY', 'Y', 'YX']])))
    gs += [G.nullable_chain_cfg(rng) for _ in range(25 if quick else 500)]
    # lower-case variable names (legal with the CFG constructor and the general parser): "terminal" must be decided by type, not by spelling
    def lower(g):
        m = dict(zip(g['V'], ['s', 't', 'u', 'v', 'w', 'x', 'y', 'z'][:len(g['V'])]))
        if len(m) < len(g['V']) or any(x in g['Sigma'] for x in m.values()):
            return g
        return {'V': [m[v] for v in g['V']], 'Sigma': g['Sigma'], 'S': m[g['S']],
                'R': [[m[v], [[k, (m[n] if k == 'V' else n)] for k, n in rhs]] for v, rhs in g['R']]}
    gs = [lower(g) if i % 6 == 4 else g for i, g in enumerate(gs)]
    cases = [{'G': g, 'ws': ws} for g in gs]
    # 26-28 declared variables and one rule with 14-16 terminals: more than ten fresh variables with two-digit indices beyond the 26 letters
    import string
    for _ in range(3 if quick else 40):
        k = rng.randint(25, 27)
        names = [x for x in string.ascii_uppercase if x != 'S'][:min(k, 25)] + ['S%d' % i for i in range(max(0, k - 25))]
        w = [rng.randint(0, 1) for _ in range(rng.randint(14, 16))]
        if 0 not in w or 1 not in w:
            w[0], w[1] = 0, 1
        rules = [['S', [['T', 'ab'[i]] for i in w]], ['S', [['T', 'a'], ['T', 'b']]]]
        flip = list(w)
        flip[rng.randrange(len(w))] ^= 1
        cases.append({'G': G.mk_cfg(rules, 'S', extra_vars=names), 'ws': [w, w[:-1], w[1:], flip, [0, 1], [], w + [0]] + [w[:i] + w[i + 1:] for i in range(len(w) - 5, len(w) - 1)] + [w[:i] + [w[i]] + w[i:] for i in range(len(w) - 4, len(w) - 2)]})
    # call sequences in one process: a grammar is queried, then a sibling with the SAME rules and another start variable
    # (a new object), then the first object again after its start variable was changed in place
    for _ in range(120 if quick else 2000):
        g = G.random_cfg(rng, rng.randint(2, 3), 2, rng.randint(2, 6), maxlen=3) if rng.random() < 0.6 else G.random_cnf(rng, rng.randint(2, 4), 2, rng.randint(2, 7))
        others = [v for v in g['V'] if v != g['S']]
        if not others:
            continue
        g2 = dict(g, S=rng.choice(others))
        cases.append({'G': g, 'ws': ws, 'then': {'G': g2, 'ws': ws}, 'inplace': rng.random() < 0.5})
    return cases


def _observe1(c, Gm):
    from gambatools.cfg_algorithms import cfg_accepts_word, cfg_cyk_matrix
    from implutil import safe, ok
    r = safe(Gm.is_chomsky)
    chom = bool(r[1]) if ok(r) else None
    obs = []
    for w in c['ws']:
        s = conv.word_str(w)
        a = safe(cfg_accepts_word, Gm, s)
        cells = None
        if chom and w:
            x = safe(cfg_cyk_matrix, Gm, s)
            if ok(x):
                n = len(w)
                cells = [[i, j, sorted(str(v) for v in x[1][i, j])] for i in range(n) for j in range(i, n)]
        obs.append({'acc': bool(a[1]) if ok(a) else None, 'cells': cells})
    return {'chom': chom, 'obs': obs}


def observe(c):
    Gm = conv.cfg_obj(c['G'])
    o = _observe1(c, Gm)
    if c.get('then'):
        if c.get('inplace'):
            from gambatools.cfg import Variable
            Gm.S = Variable(c['then']['G']['S'])
            o['then'] = _observe1(c['then'], Gm)
        else:
            o['then'] = _observe1(c['then'], conv.cfg_obj(c['then']['G']))
    return o


def _nm(g):
    nm = L.Names()
    for v in g['V']:
        nm(v)
    for t in ['a', 'b', 'c']:
        nm(t)
    for t in g['Sigma']:
        nm(t)
    return nm


def encode(c, o):
    if c.get('then'):
        return 'worst_code [%s; %s]' % (_encode1(c, o), _encode1(c['then'], o['then']))
    return _encode1(c, o)


def _encode1(c, o):
    g = c['G']
    nm = _nm(g)
    lit = L.cfg(g, nm)
    items = []
    for w, ob in zip(c['ws'], o['obs']):
        wl = L.nats(nm(conv.sym(a)) for a in w)
        cells = L.option(ob['cells'], lambda cs: L.lst(L.pair(L.pair(L.nat(i), L.nat(j)), L.nats(nm(v) for v in vs)) for i, j, vs in cs))
        items.append(L.pair(wl, L.option(ob['acc'], L.boolean), cells))
    return 'judge_C07 %s %s %s %s' % (lit, L.nats(STREAM), L.option(o['chom'], L.boolean), L.lst(items))


def explain(c):
    g = c['G']
    nm = _nm(g)
    return 'explain_C07 %s %s %s' % (L.cfg(g, nm), L.nats(STREAM), L.lst(L.nats(nm(conv.sym(a)) for a in w) for w in c['ws'][:12]))


def key(c):
    return conv.cfg_text(c['G']) + ('\n=then=>\n' + key(c['then']) if c.get('then') else '')


def nontrivial(c, o):
    accs = [x['acc'] for x in o['obs']]
    return (True in accs) and (False in accs)


def describe(c):
    return {'grammar': conv.cfg_text(c['G']), 'words': [conv.word_str(w) for w in c['ws']][:12]}


def reproduce(c):
    return 'from gambatools.cfg_algorithms import *; G = <grammar: %s>; [cfg_accepts_word(G, w) for w in ...]; cfg_cyk_matrix(G, w)' % conv.cfg_text(c['G']).replace('\n', ' ; ')


def signature(c, o, code):
    return 'C07:code%d:%s' % (code, key(c))


def distribution(cases, obs):
    d = {'cnf': 0, 'non_cnf': 0, 'rules': {}, 'accepted': 0, 'rejected': 0, 'eps_rule': 0, 'unit_rule': 0}
    for c, o in zip(cases, obs):
        d['cnf' if o['chom'] else 'non_cnf'] += 1
        k = str(len(c['G']['R']))
        d['rules'][k] = d['rules'].get(k, 0) + 1
        d['accepted'] += sum(1 for x in o['obs'] if x['acc'] is True)
        d['rejected'] += sum(1 for x in o['obs'] if x['acc'] is False)
        d['eps_rule'] += 1 if any(not rhs for _, rhs in c['G']['R']) else 0
        d['unit_rule'] += 1 if any(len(rhs) == 1 and rhs[0][0] == 'V' for _, rhs in c['G']['R']) else 0
    return d


def shrink(c):
    out = []
    g = c['G']
    for i in range(len(g['R'])):
        e = dict(g, R=g['R'][:i] + g['R'][i + 1:])
        e.pop('rid', None)
        out.append({'G': e, 'ws': c['ws']})
    if len(c['ws']) > 1:
        for w in c['ws']:
            out.append({'G': g, 'ws': [w]})
    return out


LEVEL_TEXT = ('Coq theorems about the model of cfg_cyk_matrix / cfg_accepts_word: for a CNF grammar every cell (i,j) holds exactly the variables of V deriving w[i..j], and membership is exact; for arbitrary grammars '
              'membership composes with the conversion theorems of C08. Tied to the Python by in-Coq evaluation of every table cell and every verdict on exhaustive small and random grammars.')
LEVEL_NOTE = 'Trusted: Coq kernel + vm_compute, models Model/CFG.v, Model/CYK.v, Model/Chomsky.v, harness. No axioms. See evidence for statements still _partial.'
TECHNIQUE = 'Coq proof (induction on span length, parse trees) + in-Coq differential correspondence on every table cell'
