(* Model of dfa_to_gnfa, gnfa_minimize and dfa_to_regexp (gambatools.regexp_algorithms).
   `start`, `accept` are the codes of the state names 'start' and 'accept' (asserted not to be in Q).
   `order` is the order in which the states are ripped (iteration order of the set Q - {start, accept}).
   delta is a defaultdict with default Zero.  Definitions only. *)
From GT Require Import Base.Prelude Model.DFA Model.Regexp.

Section GNFA.
  Context {A : Type} `{Eqb A}.
  Definition gdelta := list ((A * A) * re).
  Definition gget (d : gdelta) (p q : A) : re := match lookup (p, q) d with Some r => r | None => Zero end.

  (* dfa_to_gnfa: edges in the iteration order of D.delta; parallel edges are summed *)
  Definition dfa_to_gnfa (start accept : A) (D : dfa A) : option gdelta :=
    if mem start (dQ D) || mem accept (dQ D) then None
    else
      let d0 := update (start, dq0 D) One [] in
      let d1 := fold_left (fun d q => update (q, accept) One d) (dF D) d0 in
      Some (fold_left (fun d e => let '((q, a), q1) := e in
                         match lookup (q, q1) d with
                         | Some r => update (q, q1) (Sum r (Sym a)) d
                         | None => update (q, q1) (Sym a) d
                         end) (dD D) d1).

  (* rip one state: Q is the set of remaining states (without q_rip), including start and accept *)
  Definition rip (start accept : A) (Q : list A) (q_rip : A) (d : gdelta) : gdelta :=
    let R2 := gget d q_rip q_rip in
    fold_left (fun d q_i =>
      let R1 := gget d q_i q_rip in
      fold_left (fun d q_j =>
        let R3 := gget d q_rip q_j in
        let R4 := gget d q_i q_j in
        update (q_i, q_j) (simplify (Sum (Cat R1 (Cat (Star R2) R3)) R4)) d)
        (filter (fun q => negb (eqb q start)) Q) d)
      (filter (fun q => negb (eqb q accept)) Q) d.

  Fixpoint rip_all (start accept : A) (Q : list A) (order : list A) (d : gdelta) : gdelta :=
    match order with
    | [] => d
    | q :: order' => let Q' := filter (fun x => negb (eqb x q)) Q in rip_all start accept Q' order' (rip start accept Q' q d)
    end.

  Definition dfa_to_regexp (start accept : A) (order : list A) (D : dfa A) : option re :=
    match dfa_to_gnfa start accept D with
    | None => None
    | Some d => Some (gget (rip_all start accept (dQ D ++ [accept; start]) order d) start accept)
    end.
End GNFA.

Fixpoint perms {A} (l : list A) : list (list A) :=
  match l with
  | [] => [[]]
  | x :: l' => flat_map (fun p => map (fun i => firstn i p ++ x :: skipn i p) (seq 0 (S (length p)))) (perms l')
  end.
