(* Model of the PDA normal forms and of the PDA -> CFG conversion of gambatools.pda_algorithms:
   pda_to_one_accepting_state_in_place, pda_to_accept_on_empty_stack_in_place (as repaired by fix F10: the
   stack is drained by pop moves before the bottom marker is removed), pda_to_push_pop_in_place, pda_is_push_pop,
   pda_to_cfg.  Fresh state names (fresh_state) and the fresh stack marker (fresh_symbol) are taken from streams
   supplied by the caller (the names the implementation chose); a name that is not fresh makes the routine fail.
   Definitions only. *)
From GT Require Import Base.Prelude Model.PDA Model.CFG.

Definition take1 (used : list nat) (stream : list nat) : option (nat * list nat) :=
  match stream with
  | [] => None
  | x :: rest => if mem x used then None else Some (x, rest)
  end.

(* delta[k].add(t) on the association list *)
Definition d_add (k : nat * nat * nat) (t : nat * nat) (d : list ((nat * nat * nat) * list (nat * nat))) :=
  match lookup k d with
  | Some tg => update k (add t tg) d
  | None => d ++ [(k, [t])]
  end.

Definition is_push_pop_t (P : pda) (t : trans) : bool :=
  let '(_, _, u, _, v) := t in
  (Nat.eqb u (peps P) && negb (Nat.eqb v (peps P))) || (negb (Nat.eqb u (peps P)) && Nat.eqb v (peps P)).
Definition pda_is_push_pop (P : pda) : bool := forallb (is_push_pop_t P) (transitions P).

(* ---- one accepting state ---- *)
Definition to_one_accept (states : list nat) (P : pda) : option (pda * list nat) :=
  if Nat.eqb (length (dedup (pF P))) 1 then Some (P, states)
  else match take1 (pQ P) states with
       | None => None
       | Some (qa, rest) =>
         let e := peps P in
         Some (mkPDA (pQ P ++ [qa]) (pSg P) (pGm P)
                     (fold_left (fun d q => d_add (q, e, e) (qa, e) d) (dedup (pF P)) (pD P))
                     (pq0 P) [qa] e, rest)
       end.

(* ---- accept on empty stack (with drain) ---- *)
Definition to_empty_stack (bottom : nat) (states : list nat) (P : pda) : option (pda * list nat) :=
  if mem bottom (pGm P) || Nat.eqb bottom (peps P) then None
  else match take1 (pQ P) states with
  | None => None
  | Some (qi, s1) =>
    match take1 (pQ P ++ [qi]) s1 with
    | None => None
    | Some (qd, s2) =>
      match take1 (pQ P ++ [qi; qd]) s2 with
      | None => None
      | Some (qa, s3) =>
        let e := peps P in
        let d0 := d_add (qi, e, e) (pq0 P, bottom) (pD P) in
        let d1 := fold_left (fun d q =>
                    fold_left (fun d X => d_add (q, e, X) (qd, e) d) (pGm P) (d_add (q, e, bottom) (qa, e) d)) (dedup (pF P)) d0 in
        let d2 := fold_left (fun d X => d_add (qd, e, X) (qd, e) d) (pGm P) d1 in
        let d3 := d_add (qd, e, bottom) (qa, e) d2 in
        Some (mkPDA (pQ P ++ [qi; qd; qa]) (pSg P) (pGm P ++ [bottom]) d3 qi [qa] e, s3)
      end
    end
  end.

(* ---- push/pop format ---- *)
Definition pp_step (e dummy : nat) (st : option (list nat * list ((nat * nat * nat) * list (nat * nat)) * list nat)) (t : trans)
  : option (list nat * list ((nat * nat * nat) * list (nat * nat)) * list nat) :=
  match st with
  | None => None
  | Some (Q, d1, stream) =>
    let '(p, a, u, q, v) := t in
    if (Nat.eqb u e && negb (Nat.eqb v e)) || (negb (Nat.eqb u e) && Nat.eqb v e) then Some (Q, d_add (p, a, u) (q, v) d1, stream)
    else match take1 Q stream with
         | None => None
         | Some (m, rest) =>
           if Nat.eqb u e then  (* no-op: push dummy, pop dummy *)
             Some (Q ++ [m], d_add (m, e, dummy) (q, e) (d_add (p, a, e) (m, dummy) d1), rest)
           else                 (* replace: pop u, push v *)
             Some (Q ++ [m], d_add (m, e, e) (q, v) (d_add (p, a, u) (m, e) d1), rest)
         end
  end.
Definition to_push_pop (dummy : nat) (states : list nat) (P : pda) : option (pda * list nat) :=
  match to_one_accept states P with
  | None => None
  | Some (P1, s1) =>
    if mem dummy (pGm P1) then None        (* assert dummy not in Gamma *)
    else match fold_left (pp_step (peps P1) dummy) (transitions P1) (Some (pQ P1, [], s1)) with
         | None => None
         | Some (Q, d1, s2) => Some (mkPDA Q (pSg P1) (pGm P1 ++ [dummy]) d1 (pq0 P1) (pF P1) (peps P1), s2)
         end
  end.

(* ---- PDA -> CFG (Sipser): variable A_pq is encoded by pairv p q; terminals are the input symbols ---- *)
Definition pairv (p q : nat) : nat := p * 40 + q.
Definition opt_tm (e a : nat) : list sym := if Nat.eqb a e then [] else [Tm a].
Definition pda_to_cfg_core (P : pda) : cfg :=
  let e := peps P in
  let ts := transitions P in
  let qa := hd 0 (pF P) in
  let pushes := fun u => filter (fun t => let '(_, _, u1, _, v) := t in Nat.eqb u1 e && Nat.eqb v u) ts in
  let pops := fun u => filter (fun t => let '(_, _, u1, _, _) := t in negb (Nat.eqb u1 e) && Nat.eqb u1 u) ts in
  let r1 := flat_map (fun u => flat_map (fun t1 => map (fun t2 =>
               let '(p, a, _, r, _) := t1 in let '(s, b, _, q, _) := t2 in
               mkRule (pairv p q) 0 (opt_tm e a ++ [Var (pairv r s)] ++ opt_tm e b)) (pops u)) (pushes u)) (pGm P) in
  let r2 := flat_map (fun p => flat_map (fun q => map (fun r => mkRule (pairv p q) 0 [Var (pairv p r); Var (pairv r q)]) (pQ P)) (pQ P)) (pQ P) in
  let r3 := map (fun p => mkRule (pairv p p) 0 []) (pQ P) in
  mkCFG (flat_map (fun p => map (pairv p) (pQ P)) (pQ P)) (pSg P) (r1 ++ r2 ++ r3) (pairv (pq0 P) qa).

Definition pda_to_cfg (bottom dummy : nat) (states : list nat) (P : pda) : option cfg :=
  match (if Nat.eqb (length (dedup (pF P))) 1 then Some (P, states) else to_one_accept states P) with
  | None => None
  | Some (P1, s1) =>
    match (if pda_is_push_pop P1 then Some (P1, s1) else to_push_pop dummy s1 P1) with
    | None => None
    | Some (P2, s2) =>
      match to_empty_stack bottom s2 P2 with
      | None => None
      | Some (P3, _) => Some (pda_to_cfg_core P3)
      end
    end
  end.
