(* Shared specification-level definitions for the minimiser proofs (C04). *)
From GT Require Import Base.Prelude Model.DFA.

Section Defs.
  Context {A : Type} `{Eqb A}.

  Definition over (D : dfa A) (w : word) : Prop := Forall (fun a => In a (dS D)) w.

  (* Myhill-Nerode equivalence of two states of D *)
  Definition mn_equiv (D : dfa A) (p q : A) : Prop :=
    forall w, over D w -> (In (drun D p w) (dF D) <-> In (drun D q w) (dF D)).

  (* P (a list of blocks, blocks as lists) is exactly the partition of dQ D into Myhill-Nerode classes *)
  Definition is_mn_partition (D : dfa A) (P : list (list A)) : Prop :=
    (forall B, In B P -> B <> [] /\ incl B (dQ D)) /\
    (forall q, In q (dQ D) -> exists B, In B P /\ In q B) /\
    (forall B p q, In B P -> In p B -> In q B -> mn_equiv D p q) /\
    (forall B1 B2 p q, In B1 P -> In B2 P -> In p B1 -> In q B2 -> mn_equiv D p q -> B1 = B2).

  (* partition stability notions used by the refinement algorithms *)
  Definition refines_F (D : dfa A) (P : list (list A)) : Prop :=
    forall B p q, In B P -> In p B -> In q B -> (In p (dF D) <-> In q (dF D)).
  Definition stable (D : dfa A) (P : list (list A)) : Prop :=
    forall B C a p q, In B P -> In C P -> In a (dS D) -> In p B -> In q B -> In (dstep D p a) C -> In (dstep D q a) C.
  Definition coarser_than_mn (D : dfa A) (P : list (list A)) : Prop :=
    forall B p q, In B P -> In p B -> In q (dQ D) -> mn_equiv D p q -> In q B.
End Defs.

(* D' (states = canonical names of blocks of P) is the quotient automaton of D by the partition P *)
Section Quot.
  Context {A : Type} `{Eqb A}.
  Variable canon : list A -> list A.
  Definition is_quotient_of (D : dfa A) (P : list (list A)) (D' : dfa (list A)) : Prop :=
    (forall S0, In S0 (dQ D') <-> exists B, In B P /\ S0 = canon B) /\
    dS D' = dS D /\
    (exists B0, In B0 P /\ In (dq0 D) B0 /\ dq0 D' = canon B0) /\
    (forall S0, In S0 (dF D') <-> exists B, In B P /\ S0 = canon B /\ exists q, In q B /\ In q (dF D)) /\
    (forall B a, In B P -> In a (dS D) ->
       exists v B', In v B /\ In B' P /\ In (dstep D v a) B' /\ ddelta D' (canon B) a = Some (canon B')) /\
    (forall k S1, In (k, S1) (dD D') -> exists B, In B P /\ fst k = canon B /\ In (snd k) (dS D)).
End Quot.
