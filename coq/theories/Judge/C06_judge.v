From GT Require Import Base.Prelude Base.Sort Model.DFA Model.NFA Model.Regexp Model.NFAOps Model.GNFA Decide.DFAEquiv Judge.Common Judge.C18_judge.

Definition names_from (n : nat) : list nat := seq 0 n.     (* 'q{i}' is coded by i *)
Definition EPS0 := 90.

(* regexp -> NFA *)
Definition judge_C06_re (r : re) (oN : option (nfa nat)) : nat :=
  match oN, re_to_nfa EPS0 r (names_from (2 * nodes r + 2)) with
  | None, _ => 2
  | Some R, Some (M, _) =>
    if negb (nfa_wf_b R) then 3
    else if negb (forallb (fun w => eqb (nfa_accepts R w) (Some (acc r w))) (words_upto (dedup (re_symbols r)) 4)) then 4
    else if nfa_struct_eqb R M then 0
    else match nfa_equivb_f 400 R M with Some true => 1 | Some false => 5 | None => 1 end
  | Some _, None => 8
  end.

(* the NFA of a regexp, over a given (larger) alphabet *)
Definition re_nfa_over (r : re) (Sg : list nat) : option (nfa nat) :=
  match re_to_nfa EPS0 r (names_from (2 * nodes r + 2)) with
  | Some (N, _) => Some (mkNFA (nQ N) Sg (nD N) (nq0 N) (nF N) (neps N))
  | None => None
  end.
Definition re_dfa_equivb (r : re) (D : dfa nat) : option bool :=
  if negb (subsetb (re_symbols r) (dS D)) then Some false
  else match re_nfa_over r (dS D) with Some N => nfa_dfa_equivb_f 600 N D | None => None end.

(* edge labels are compared up to the order and grouping of the summands: the sum of the symbols leading from p to q is built in the
   iteration order of the transition dict, which is not part of the property *)
Fixpoint summands (r : re) : list re :=
  match r with Sum a b => summands a ++ summands b | _ => [r] end.
Definition sum_eqb (r1 r2 : re) : bool :=
  let l1 := summands r1 in let l2 := summands r2 in
  forallb (fun x => existsb (re_eqb x) l2) l1 && forallb (fun x => existsb (re_eqb x) l1) l2.
Definition gdelta_eqb (d1 d2 : list ((nat * nat) * re)) (Q : list nat) : bool :=
  forallb (fun p => forallb (fun q => sum_eqb (gget d1 p q) (gget d2 p q)) Q) Q.

(* DFA -> regexp: start/accept codes; the implementation's GNFA edges and regexp *)
Definition judge_C06_dfa (D : dfa nat) (start accept : nat) (ogn : option (list ((nat * nat) * re))) (ore : option re) : nat :=
  worst_code [
    check (dfa_wf_b D) 9;
    match ogn, dfa_to_gnfa start accept D with
    | Some g, Some m => check (gdelta_eqb g m (start :: accept :: dQ D)) 10
    | None, None => 0
    | _, _ => 10
    end;
    match ore, dfa_to_gnfa start accept D with
    | None, None => 0
    | None, Some _ => 11
    | Some _, None => 11
    | Some r, Some _ =>
      match re_dfa_equivb r D with
      | Some false => 12
      | None => 1                      (* budget of the oracle exhausted: undecided *)
      | Some true =>
           if Nat.leb (length (dQ D)) 3
           then if existsb (fun order => match dfa_to_regexp start accept order D with Some m => re_eqb r m | None => false end) (perms (dQ D)) then 0 else 1
           else 0
      end
    end ].

Definition explain_C06_re (r : re) := re_to_nfa EPS0 r (names_from (2 * nodes r + 2)).
Definition explain_C06_dfa (D : dfa nat) (start accept : nat) := (dfa_to_gnfa start accept D, dfa_to_regexp start accept (dQ D) D).
