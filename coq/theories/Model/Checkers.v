(* Object-level model of the exercise checkers (gambatools.language_generator.compare_languages,
   notebook.check_max_states / check_language_from_words / check_automaton_accepts_rejects / check_dfa2regexp,
   notebook_dfa.check_product_automaton + union / intersection / symmetric difference, check_dfa_complement (as repaired
   by fix F5), check_dfa_reverse, check_dfa_minimal, notebook_nfa2dfa.check_nfa_to_dfa_answer,
   notebook_cfg.check_cyk_matrix (as repaired by fix F6), cfg_has_derivation / check_cfg_derivation,
   notebook_chomsky.cfg_check_chomsky).  Each check returns true when the Python prints OK (empty feedback).
   The parsing of the answer text is done by the library's own parsers (C16/C17); this model starts from the objects. *)
From GT Require Import Base.Prelude Base.Sort Model.DFA Model.NFA Model.DFAOps Model.Minimize Model.Lang Model.CFG Model.Chomsky Model.CYK Model.Simulate.

(* ---- compare_languages(A1, A2): A1 = answer, A2 = expected.  Result: None (no feedback),
        Some (true, w): "w should not be accepted" (w in A1 - A2), Some (false, w): "w should be accepted" (w in A2 - A1);
        the reported word has minimal length in its difference set ---- *)
Fixpoint shortest (L : list word) : option word :=
  match L with
  | [] => None
  | w :: L' => match shortest L' with
               | Some v => if Nat.leb (length w) (length v) then Some w else Some v
               | None => Some w
               end
  end.
Definition compare_languages (A1 A2 : list word) : option (bool * word) :=
  match shortest (diff A1 A2) with
  | Some w => Some (true, w)
  | None => match shortest (diff A2 A1) with Some w => Some (false, w) | None => None end
  end.
Definition lang_ok (A1 A2 : list word) : bool := match compare_languages A1 A2 with None => true | Some _ => false end.

Definition check_max_states (nstates max_states : nat) : bool := negb (Nat.ltb 0 max_states && Nat.ltb max_states nstates).

(* check_language_from_words: answer language (enumerated up to `length`) vs the given word list *)
Definition check_language_from_words (answer_words : list word) (nstates max_states : nat) (words : list word) : bool :=
  check_max_states nstates max_states && lang_ok answer_words words.

(* check_automaton_accepts_rejects: verdicts of the acceptance test on the two word lists *)
Definition check_accepts_rejects (acc_verdicts rej_verdicts : list bool) : bool :=
  forallb (fun b => b) acc_verdicts && forallb negb rej_verdicts.

(* ---- product automata: D = the library's product, answer = the submitted DFA over pair states ---- *)
Section Product.
  Context {A B : Type} `{Eqb A} `{Eqb B}.
  Definition check_product_automaton (D : dfa (A * B)) (D1 : dfa A) (D2 : dfa B) (answer : dfa (A * B)) : bool :=
    forallb (fun q => mem (fst q) (dQ D1) && mem (snd q) (dQ D2)) (dQ answer) &&
    seteqb (dS D) (dS answer) &&
    eqb (dq0 answer) (dq0 D) &&
    forallb (fun e => let '((q, a), q1) := e in match ddelta D q a with Some t => eqb q1 t | None => true end) (dD answer) &&
    subsetb (dF D) (dF answer) && subsetb (dF answer) (dF D).
  (* ptype: 0 union, 1 intersection, 2 symmetric difference; n = length bound *)
  Definition check_dfa_product (ptype n : nat) (D1 : dfa A) (D2 : dfa B) (answer : dfa (A * B)) : bool :=
    match dfa_product ptype D1 D2, dfa_words D1 n, dfa_words D2 n, dfa_words answer n with
    | Some D, Some L1, Some L2, Some L =>
      check_product_automaton D D1 D2 answer &&
      lang_ok L (match ptype with 0 => l_union L1 L2 | 1 => l_intersection L1 L2 | _ => l_symmetric_difference L1 L2 end)
    | _, _, _, _ => false
    end.
End Product.

Section Single.
  Context {A : Type} `{Eqb A}.
  Definition delta_eqb (D1 D2 : dfa A) : bool :=
    forallb (fun e => eqb (ddelta D2 (fst (fst e)) (snd (fst e))) (Some (snd e))) (dD D1) &&
    forallb (fun e => eqb (ddelta D1 (fst (fst e)) (snd (fst e))) (Some (snd e))) (dD D2).
  (* check_dfa_complement (repaired): every component equals the complemented DFA *)
  Definition check_dfa_complement (D1 answer : dfa A) : bool :=
    let D := dfa_complement D1 in
    seteqb (dS D) (dS answer) && seteqb (dQ D) (dQ answer) && eqb (dq0 D) (dq0 answer) && delta_eqb D answer &&
    subsetb (dF D) (dF answer) && subsetb (dF answer) (dF D).

  (* check_dfa_reverse: answer is an NFA *)
  Definition check_dfa_reverse (n : nat) (D : dfa A) (answer : nfa A) : bool :=
    seteqb (dS D) (nS answer) &&
    subsetb (dQ D) (nQ answer) &&
    forallb (fun e => let '((q, a), q1) := e in mem q (ndelta answer q1 a)) (dD D) &&
    negb (mem (nq0 answer) (dQ D)) &&
    seteqb (nF answer) [dq0 D] &&
    match nfa_words answer n, dfa_words D n with
    | Some L1, Some L2 => lang_ok L1 (l_reverse L2)
    | _, _ => false
    end.
End Single.

(* check_dfa_minimal: answer over arbitrary state names; compared with the quotient of D *)
Definition check_dfa_minimal {B} `{Eqb B} (n : nat) (D : dfa nat) (answer : dfa B) : bool :=
  match dfa_quotient canon_nat (fun l => l) (@hd_error nat) D with
  | Some Dq =>
    seteqb (dS Dq) (dS answer) && Nat.eqb (length (dedup (dQ Dq))) (length (dedup (dQ answer))) &&
    match dfa_words answer n, dfa_words Dq n with Some L1, Some L2 => lang_ok L1 L2 | _, _ => false end
  | None => false
  end.

(* check_nfa_to_dfa_answer: the answer is parsed as an NFA whose states are sets of states of N *)
Definition check_nfa_to_dfa (N : nfa nat) (answer : nfa (list nat)) : bool :=
  negb (match nQ answer with [] => true | _ => false end) &&
  seteqb (nS N) (nS answer) &&
  forallb (fun q => subsetb q (nQ N)) (nQ answer) &&
  seteqb (nq0 answer) (eclose N [nq0 N]) &&
  forallb (fun q => Bool.eqb (mem q (nF answer)) (meetsb q (nF N))) (nQ answer) &&
  forallb (fun q => forallb (fun a =>
     match ndelta answer q a with
     | [q1] => seteqb q1 (eclose N (big_union (map (fun x => ndelta N x a) q)))
     | _ => false                    (* no or several outgoing a-transitions *)
     end) (nS answer)) (nQ answer).

(* ---- check_cyk_matrix (repaired): the answer has exactly |w| rows, row i (from the top) has i+1 entries, and after
        reversal row i holds X[j, i+j] for j = 0..; entries are sets of variables of G ---- *)
Definition check_cyk_matrix (G : cfg) (w : word) (rows : list (list (list nat))) : bool :=
  let X := cyk G w in
  let n := length w in
  Nat.eqb (length rows) n &&
  forallb (fun ir => Nat.eqb (length (snd ir)) (S (fst ir))) (combine (seq 0 (length rows)) rows) &&
  forallb (fun row => forallb (fun cell => subsetb cell (gV G)) row) rows &&
  forallb (fun ir => let '(i, row) := ir in
     forallb (fun jc => let '(j, cell) := jc in seteqb cell (cget X j (i + j))) (combine (seq 0 (length row)) row))
     (combine (seq 0 (length rows)) (rev rows)).

(* ---- cfg_has_derivation / check_cfg_derivation: mode 0 leftmost, 1 rightmost, 2 any ---- *)
Fixpoint split_all (pre x : list sym) : list (list sym * nat * list sym) :=
  match x with
  | [] => []
  | s :: x' => (if is_var s then [(pre, sname s, x')] else []) ++ split_all (pre ++ [s]) x'
  end.
Definition cfg_has_derivation (G : cfg) (mode : nat) (x y : list sym) : bool :=
  match mode with
  | 0 | 1 => deriv_step_ok G mode x y
  | _ => existsb (fun t => let '(pre, A, post) := t in
            existsb (fun r => Nat.eqb (rvar r) A && eqb y (pre ++ rrhs r ++ post)) (gR G)) (split_all [] x)
  end.
Definition check_cfg_derivation (G : cfg) (mode : nat) (w : word) (steps : list (list sym)) : bool :=
  match steps with
  | [] => false
  | x0 :: _ =>
    forallb (fun x => forallb (fun s => if is_var s then mem (sname s) (gV G) else mem (sname s) (gSg G)) x) steps &&
    eqb x0 [Var (gS G)] && chain_ok (cfg_has_derivation G mode) steps && eqb (last steps x0) (tword w)
  end.

(* ---- cfg_check_chomsky(cfg, cfg1, phase, start_variable, length) ---- *)
Definition check_chomsky (ordV : list nat -> list nat) (stream : list nat) (G G1 : cfg) (phase start n : nat) : bool :=
  match cfg_words ordV stream G1 n, cfg_words ordV stream G n with
  | Some A1, Some A2 =>
    lang_ok A1 A2 &&
    (Nat.ltb phase 1 || Nat.eqb (gS G1) start) &&
    (Nat.ltb phase 2 || forallb (fun r => match rrhs r with [] => Nat.eqb (rvar r) (gS G1) | _ => true end) (gR G1)) &&
    (Nat.ltb phase 3 || forallb (fun r => negb (is_unit r)) (gR G1)) &&
    (Nat.ltb phase 4 || forallb (fun r => Nat.leb (length (rrhs r)) 2) (gR G1)) &&
    (Nat.ltb phase 5 || forallb (fun r => alt_is_chomsky (rrhs r)) (gR G1))
  | _, _ => false
  end.
