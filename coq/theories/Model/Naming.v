(* String-level model of the state / variable naming functions of gambatools.  The automata models of this
   development (Model/NFAOps.v, DFAOps.v, PDAToCFG ...) represent constructed state names by abstract codes
   (lists of nat for subset states, pairs for product states, p*40+q for the variables of pda_to_cfg); the
   Python code builds *strings*:

     dfa.py, lines 17-20
        def print_state_set(Q):
            if len(Q) == 0: return '{}'
            return '{{{}}}'.format(','.join(sorted(Q)))             -->  state_set_name
     dfa_algorithms.py, lines 470-471 (dfa_product; the same text in the commented block at 427-428)
        def make_state(q1, q2): return State('({},{})'.format(q1,q2))  -->  pair_name
     pda_algorithms.py, lines 161-162 (pda_to_cfg)
        def variable(p, q): return Variable("{}'{}".format(p, q))      -->  var_name
     dfa_algorithms.fresh_state / cfg_algorithms.cfg_fresh_variable
        '{}{}'.format(hint, index)                                     -->  hint ++ digits index  (Model/FreshName.v)

   Names are tokens (Model/Tokens.v: lists of character codes; ASCII \w characters are 100+ord, other ASCII
   characters are ord: ',' = 44, '{' = 123, '}' = 125, '(' = 40, ')' = 41, "'" = 39).
   Python compares strings lexicographically by Unicode code point, therefore `sorted` is modelled through
   `codepoint`, which undoes the +100 shift of the ASCII \w characters.
   Definitions only; the theorems are in Proofs/NamingProofs.v. *)
From GT Require Import Base.Prelude Model.Tokens.

Definition c_lbrace := 123.   (* '{' *)
Definition c_rbrace := 125.   (* '}' *)
Definition c_lparen := 40.    (* '(' *)
Definition c_rparen := 41.    (* ')' *)
Definition c_quote := 39.     (* "'" *)
(* c_comma = 44 is defined in Tokens.v *)

(* Unicode code point of a character code.  148..222 are the shifted ASCII \w characters; all other codes below
   128 are plain ASCII.  Codes >= 300 stand for non-ASCII characters: the function returns the code itself, i.e.
   the ORDER AMONG NON-ASCII CHARACTERS IS NOT MODELLED (only that they are larger than every ASCII character,
   which is true in Unicode).  Codes 128..147 and 223..299 are not used by the coding. *)
Definition codepoint (c : nat) : nat :=
  if (Nat.leb 148 c && Nat.leb c 222)%bool then c - 100 else c.

(* ord values of the ASCII characters matched by \w : 0-9 A-Z _ a-z *)
Definition is_word_ord (n : nat) : bool :=
  ((Nat.leb 48 n && Nat.leb n 57) || (Nat.leb 65 n && Nat.leb n 90) || (Nat.leb 97 n && Nat.leb n 122) || Nat.eqb n 95)%bool.

(* c is a code that the coding of Tokens.v can produce: an ASCII \w character is always shifted and an ASCII
   non-\w character never is (so 65 and 158 = 100 + ord ':' are not codes).  On such codes `codepoint` is injective. *)
Definition code_ok (c : nat) : bool :=
  if (Nat.leb 48 c && Nat.leb c 122)%bool then negb (is_word_ord c)
  else if (Nat.leb 148 c && Nat.leb c 222)%bool then is_word_ord (c - 100)
  else true.
Definition tok_ok (t : token) : bool := forallb code_ok t.
(* an ASCII string: faithful comparison *)
Definition tok_ascii (t : token) : bool := forallb (fun c => code_ok c && Nat.ltb c 300) t.

(* Python  a <= b  and  a < b  on str: lexicographic on code points, a proper prefix is smaller *)
Fixpoint tok_leb (a b : token) : bool :=
  match a, b with
  | [], _ => true
  | _ :: _, [] => false
  | x :: a', y :: b' =>
    if Nat.ltb (codepoint x) (codepoint y) then true
    else if Nat.eqb (codepoint x) (codepoint y) then tok_leb a' b' else false
  end.

Fixpoint tok_ltb (a b : token) : bool :=
  match a, b with
  | _, [] => false
  | [], _ :: _ => true
  | x :: a', y :: b' =>
    if Nat.ltb (codepoint x) (codepoint y) then true
    else if Nat.eqb (codepoint x) (codepoint y) then tok_ltb a' b' else false
  end.

(* sorted(Q) for a Python set Q of strings (a list used as a set: duplicates are removed first) *)
Fixpoint insert_tok (x : token) (l : list token) : list token :=
  match l with
  | [] => [x]
  | y :: l' => if tok_leb x y then x :: l else y :: insert_tok x l'
  end.
Definition sort_tokens (l : list token) : list token := fold_right insert_tok [] (dedup l).

(* sep.join(l) *)
Fixpoint join (sep : token) (l : list token) : token :=
  match l with
  | [] => []
  | x :: r => match r with [] => x | _ :: _ => x ++ sep ++ join sep r end
  end.

(* dfa.print_state_set *)
Definition state_set_name (Q : list token) : token :=
  match Q with
  | [] => [c_lbrace; c_rbrace]
  | _ :: _ => c_lbrace :: join [c_comma] (sort_tokens Q) ++ [c_rbrace]
  end.

(* dfa_algorithms.dfa_product.make_state : '({},{})'.format(p, q) *)
Definition pair_name (p q : token) : token := c_lparen :: p ++ c_comma :: q ++ [c_rparen].

(* pda_algorithms.pda_to_cfg.variable : "{}'{}".format(p, q) *)
Definition var_name (p q : token) : token := p ++ c_quote :: q.

(* t.split(c) for a one-character separator: never returns the empty list, ''.split(c) = [''] *)
Fixpoint split_on (c : nat) (t : token) : list token :=
  match t with
  | [] => [[]]
  | x :: t' =>
    if Nat.eqb x c then [] :: split_on c t'
    else match split_on c t' with
         | h :: r => (x :: h) :: r
         | [] => [[x]]     (* unreachable *)
         end
  end.

(* the inverse of print_state_set used by the correspondence harness (harness/props/C03.py, _parse_set):
     if name.startswith('{') and name.endswith('}'): inner = name[1:-1]; parts = inner.split(',') if inner else []
   (the startswith/endswith test on a one-character string cannot succeed for both, so the name has length >= 2) *)
Definition parse_state_set (t : token) : option (list token) :=
  match t with
  | 123 :: rest =>
    match rev rest with
    | 125 :: rinner =>
      match rev rinner with
      | [] => Some []
      | (_ :: _) as inner => Some (split_on c_comma inner)
      end
    | _ => None
    end
  | _ => None
  end.

(* the harness additionally drops empty parts:  [p for p in inner.split(',') if p != ''] *)
Definition parse_state_set_nonempty (t : token) : option (list token) :=
  option_map (filter (fun p => match p with [] => false | _ :: _ => true end)) (parse_state_set t).
