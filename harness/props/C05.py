"""C05 - regexp matcher and simplifier vs the proved model (Model/Regexp.v)."""
import coqlit as L
import gen as G
import conv

COQ_IMPORTS = ['Model.Regexp', 'Judge.C05_judge']
PDA_FREE = True      # no PDA is involved: the recycling pass runs with GambaTools.pda_epsilon_closure_max_iterations = 3
LOG_SAFE = True      # no printed output is read back: the recycling pass runs with GambaTools.enable_logging = True
RULE = ('all regexp trees with <= N nodes over {0,1,a,b} (N=4 quick, 6 thorough), each with all words of length <= 4 over {a,b}; '
        'plus random trees of depth <= 7 over {a,b,c} with 24 random words of length <= 7. Observed: regexp_accepts_word on every word, '
        'regexp_simplify, regexp_size. Non-trivial = the tree contains a star or a concatenation and at least one word is accepted and one rejected; distinct by tree.')
CODES = {2: 'regexp_accepts_word differs from the proved matcher on some word', 3: 'regexp_simplify raised', 4: 'regexp_simplify changed the language (word of length <= 5 distinguishes)',
         5: 'regexp_simplify returned a larger expression', 6: 'regexp_size differs', 1: 'simplified tree differs structurally only'}
RESIDUE = 'symbols are single characters; Python str slicing w[:k], w[k:] modelled by firstn/skipn'
ASSUMPTIONS = ['regexp symbols are single characters (multi-character Symbol objects are outside the model)']


def gen(rng, tier):
    cases = []
    maxn = 4 if tier == 'quick' else 6
    ws = G.all_words(2, 4)
    for n in range(1, maxn + 1):
        for t in G.re_trees(n, 2):
            cases.append({'r': t, 'ws': ws})
    nrand = 300 if tier == 'quick' else 4000
    for _ in range(nrand):
        t = G.random_re(rng, rng.randint(2, 7), 3)
        if G.re_nodes(t) > 40:
            continue
        words = [[rng.randrange(3) for _ in range(rng.randint(0, 7))] for _ in range(24)]
        cases.append({'r': t, 'ws': words})
    # "twin" operands: two sub-expressions with the same children under different (or the same) operators, combined by + and . -
    # rewrite rules that compare operands structurally or by printed form must not confuse them
    def small():
        return G.random_re(rng, rng.randint(1, 2), 2)
    mk = {'+': lambda x, y: ['+', x, y], '.': lambda x, y: ['.', x, y], '*': lambda x, y: ['*', x]}
    for _ in range(120 if tier == 'quick' else 2000):
        x, y = small(), small()
        o1, o2, top = rng.choice('+.*'), rng.choice('+.*'), rng.choice('++.')
        t = [top, mk[o1](x, y), mk[o2](x, y)] if rng.random() < 0.8 else [top, mk[o1](x, y), mk[o2](y, x)]
        if rng.random() < 0.3:
            t = [rng.choice('+.'), t, small()] if rng.random() < 0.5 else ['*', t]
        cases.append({'r': t, 'ws': G.all_words(2, 4)})
    # symbols named like the constants 0 / 1 or like the epsilon notation: same trees and words, relabelled
    out = []
    for i, c in enumerate(cases):
        codes = G.CODE_SETS[i % len(G.CODE_SETS)]
        out.append({'r': G.relabel_re(c['r'], codes), 'ws': G.relabel_words(c['ws'], codes)})
    return out


def observe(c):
    from gambatools.regexp_algorithms import regexp_accepts_word, regexp_simplify, regexp_size
    from implutil import safe, ok, val
    r = conv.re_to_obj(c['r'])
    accs = []
    for w in c['ws']:
        a = safe(regexp_accepts_word, r, conv.word_str(w))
        accs.append(bool(a[1]) if ok(a) and a[1] is not None else None)
    s = safe(regexp_simplify, r)
    simp = conv.re_from_obj(s[1]) if ok(s) else None
    sz = None
    if ok(s):
        a, b = safe(regexp_size, r), safe(regexp_size, s[1])
        if ok(a) and ok(b):
            sz = [a[1], b[1]]
    return {'accs': accs, 'simp': simp, 'sz': sz}


def encode(c, o):
    return 'judge_C05 %s %s %s %s %s' % (
        L.re(c['r']), L.words(c['ws']),
        L.lst(L.option(a, L.boolean) for a in o['accs']),
        L.option(o['simp'], L.re),
        L.option(o['sz'], lambda p: L.pair(L.nat(p[0]), L.nat(p[1]))))


def explain(c):
    return 'explain_C05 %s %s' % (L.re(c['r']), L.words(c['ws']))


def key(c):
    return conv.re_str(c['r'])


def nontrivial(c, o):
    s = conv.re_str(c['r'])
    return ('*' in s or '.' in s) and (True in o['accs']) and (False in o['accs'])


def describe(c):
    return {'regexp': conv.re_str(c['r']), 'words': [conv.word_str(w) for w in c['ws']][:40]}


def reproduce(c):
    return ('from gambatools.regexp_algorithms import *; from gambatools.regexp_simple_parser import parse_simple_regexp  # regexp %s; '
            'compare regexp_accepts_word / regexp_simplify with the model values in "model"' % conv.re_str(c['r']))


def signature(c, o, code):
    return 'C05:code%d:%s' % (code, conv.re_str(c['r']))


def distribution(cases, obs):
    d = {'nodes': {}, 'nested_star': 0, 'accepting_verdicts': 0, 'rejecting_verdicts': 0}
    for c, o in zip(cases, obs):
        n = G.re_nodes(c['r'])
        d['nodes'][str(n)] = d['nodes'].get(str(n), 0) + 1
        d['nested_star'] += 1 if G.re_has_nested_star(c['r']) else 0
        d['accepting_verdicts'] += sum(1 for a in o['accs'] if a is True)
        d['rejecting_verdicts'] += sum(1 for a in o['accs'] if a is False)
    return d


def shrink(c):
    r = c['r']
    out = []
    # replace the tree by a child, drop words
    def subs(t):
        for x in t[1:]:
            if isinstance(x, list):
                yield x
                for y in subs(x):
                    yield y
    for s in subs(r):
        out.append({'r': s, 'ws': c['ws']})
    if len(c['ws']) > 1:
        half = len(c['ws']) // 2
        out.append({'r': r, 'ws': c['ws'][:half]})
        out.append({'r': r, 'ws': c['ws'][half:]})
    return out

LEVEL_TEXT = ('Machine-checked Coq theorems, for all regexp trees and all words: the model of regexp_accepts_word accepts exactly the denoted language '
              '(nested stars and stars of nullable operands included), the model of regexp_simplify preserves the language and never grows the expression. '
              'The model is tied to the Python by evaluating it inside Coq on every generated case and comparing with the implementation.')
LEVEL_NOTE = ('Trusted: Coq kernel + vm_compute, the hand-written model (Model/Regexp.v) and the correspondence harness; no axioms. '
              'Modelled not verified: Python str slicing; single-character symbols.')
TECHNIQUE = 'Coq proof by structural induction (model = denotational semantics) + in-Coq differential correspondence with the implementation'
