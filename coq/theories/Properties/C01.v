(* C01 — DFA and NFA word acceptance equals the textbook language definition; the epsilon closure is exactly
   the set of states reachable by epsilon moves alone.  Specification: `dfa_path`/`dfa_lang`, `nfa_path`/`nfa_lang`,
   `eps_star` (inductive definitions in Model/DFA.v, Model/NFA.v).  `pick` ranges over every admissible
   set.pop() order.  No hypothesis excludes epsilon cycles, partial relations, empty F or unreachable states. *)
From GT Require Import Base.Prelude Model.DFA Model.NFA Proofs.NFAProofs.

Theorem C01_dfa_accepts_exact : forall (D : dfa nat) (w : word), dfa_wf D -> Forall (fun a => In a (dS D)) w ->
  exists b, dfa_accepts D w = Some b /\ (b = true <-> dfa_lang D w).
Proof. exact (fun D w => dfa_accepts_correct D w). Qed.

Theorem C01_epsilon_closure_exact : forall (N : nfa nat) (pick : picker nat) (S0 : list nat),
  nfa_wf N -> picker_ok pick -> incl S0 (nQ N) ->
  exists r, eclose_with pick N S0 = Some r /\ (forall q, In q r <-> exists s, In s S0 /\ eps_star N s q) /\ NoDup r /\ incl r (nQ N).
Proof. exact (fun N pick S0 => eclose_correct N pick S0). Qed.

Theorem C01_nfa_cache_exact : forall (N : nfa nat), nfa_wf N ->
  (forall q, In q (nQ N) -> exists s, Eq_get (nfa_Eq N) q = Some s /\ forall p, In p s <-> eps_star N q p) /\
  exists Eqa, nfa_Eqa N = Some Eqa /\
    forall q a p, In p (Eqa_get Eqa q a) <-> exists q1, In q1 (ndelta N q a) /\ eps_star N q1 p.
Proof. exact (fun N => nfa_cache_correct N). Qed.

Theorem C01_nfa_accepts_exact : forall (N : nfa nat) (w : word), nfa_wf N -> Forall (fun a => In a (nS N)) w ->
  exists b, nfa_accepts N w = Some b /\ (b = true <-> nfa_lang N w).
Proof. exact (fun N w => nfa_accepts_correct N w). Qed.

(* the boolean validity tests evaluated by the judges are the class invariants *)
Theorem C01_wf_reflect : (forall D : dfa nat, dfa_wf_b D = true <-> dfa_wf D) /\ (forall N : nfa nat, nfa_wf_b N = true <-> nfa_wf N).
Proof. exact (conj (fun D => dfa_wf_b_spec D) (fun N => nfa_wf_b_spec N)). Qed.

Print Assumptions C01_dfa_accepts_exact.
Print Assumptions C01_epsilon_closure_exact.
Print Assumptions C01_nfa_cache_exact.
Print Assumptions C01_nfa_accepts_exact.
Print Assumptions C01_wf_reflect.
