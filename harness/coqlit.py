"""Python value -> Coq literal (text).  All numerals are small nats."""


def nat(n):
    assert isinstance(n, int) and 0 <= n < 5000, n   # nat literals stay small
    return str(n)


def boolean(b):
    return 'true' if b else 'false'


def lst(items):
    items = list(items)
    if not items:
        return '[]'
    return '[' + '; '.join(items) + ']'


def pair(*xs):
    return '(' + ', '.join(xs) + ')'


def option(x, f=lambda y: y):
    return 'None' if x is None else '(Some ' + f(x) + ')'


def word(w):
    return lst(nat(a) for a in w)


def words(ws):
    return lst(word(w) for w in ws)


def nats(xs):
    return lst(nat(x) for x in xs)


def re(t):
    """regexp tree as nested tuples: ('0',) ('1',) ('s', a) ('+', l, r) ('.', l, r) ('*', x)"""
    k = t[0]
    if k == '0':
        return 'Zero'
    if k == '1':
        return 'One'
    if k == 's':
        return '(Sym %d)' % t[1]
    if k == '+':
        return '(Sum %s %s)' % (re(t[1]), re(t[2]))
    if k == '.':
        return '(Cat %s %s)' % (re(t[1]), re(t[2]))
    if k == '*':
        return '(Star %s)' % re(t[1])
    raise ValueError(t)


class Names:
    """Injective assignment of small nat codes to Python names (strings) within one case."""

    def __init__(self, start=0):
        self.m = {}
        self.start = start

    def __call__(self, name):
        if name not in self.m:
            self.m[name] = self.start + len(self.m)
        return self.m[name]

    def known(self, name):
        return name in self.m

    def inverse(self):
        return {v: k for k, v in self.m.items()}


def state_names(*automata):
    st = Names()
    for c in automata:
        for q in c['Q']:
            st(q)
    return st


def symbol_names(*automata):
    sy = Names()
    for c in automata:
        for a in c['Sigma']:
            sy(a)
    return sy


def dfa(c, st, sy):
    delta = lst(pair(pair(nat(st(q)), nat(sy(a))), nat(st(q1))) for (q, a, q1) in c['delta'])
    return '(mkDFA %s %s %s %s %s)' % (nats(st(q) for q in c['Q']), nats(sy(a) for a in c['Sigma']), delta, nat(st(c['q0'])), nats(st(q) for q in c['F']))


def nfa(c, st, sy):
    """sy must map c['eps'] to a code too (call sy(c['eps']) after the alphabet)."""
    delta = lst(pair(pair(nat(st(q)), nat(sy(a))), nats(st(q1) for q1 in qs)) for (q, a, qs) in c['delta'])
    return '(mkNFA %s %s %s %s %s %s)' % (nats(st(q) for q in c['Q']), nats(sy(a) for a in c['Sigma']), delta, nat(st(c['q0'])),
                                          nats(st(q) for q in c['F']), nat(sy(('eps', c['eps']))))


def wordc(w, sy):
    return nats(sy(a) for a in w)


def csym(s, nm):
    return '(%s, %d)' % ('true' if s[0] == 'V' else 'false', nm(s[1]))


def cfg(c, nm):
    """nm: one Names instance for all strings of the case (variables and terminals share the name space, as str equality does)"""
    rid = c.get('rid') or list(range(len(c['R'])))
    rules = lst('(mkRule %d %d %s)' % (nm(v), i, lst(csym(s, nm) for s in rhs)) for (v, rhs), i in zip(c['R'], rid))
    return '(mkCFG %s %s %s %d)' % (nats(nm(v) for v in c['V']), nats(nm(t) for t in c['Sigma']), rules, nm(c['S']))


def pda_names(c):
    st = Names()
    for q in c['Q']:
        st(q)
    sy = Names()
    epscode = sy(('eps', c['eps']))
    for a in list(c['Sigma']) + list(c['Gamma']):
        sy(a)
    f = lambda a: epscode if a == c['eps'] else sy(a)
    return st, sy, f


def pda(c, st, f):
    groups = {}
    for (p, a, u, q, v) in c['delta']:
        groups.setdefault((p, a, u), []).append((q, v))
    delta = lst(pair(pair(nat(st(p)), nat(f(a)), nat(f(u))), lst(pair(nat(st(q)), nat(f(v))) for (q, v) in tg)) for (p, a, u), tg in groups.items())
    return '(mkPDA %s %s %s %s %d %s %d)' % (nats(st(q) for q in c['Q']), nats(f(a) for a in c['Sigma']), nats(f(a) for a in c['Gamma']), delta,
                                             st(c['q0']), nats(st(q) for q in c['F']), f(c['eps']))


def config(cfgn, st, f):
    q, stack = cfgn
    return pair(nat(st(q)), nats(f(x) for x in reversed(stack)))     # model keeps the top of the stack at the head
