(* Property C20: dfa_isomorphic (matrix version) and dfa_isomorphic1 (two maps) decide isomorphism of the
   reachable parts; the specification iso_reach is symmetric and implies language equality.
   Key notion: PR = set of pairs reachable in the synchronous product; iso_reach holds iff every pair of PR
   agrees on acceptance and PR is a partial bijection (iso_reach_char). *)
From GT Require Import Base.Prelude Model.DFA Model.NFA Model.Iso Proofs.WorklistProofs Proofs.NFAProofs.

(* ------------------------------------------------------------------ generic facts *)
Lemma drun_snoc {X} `{Eqb X} (D : dfa X) (w : word) : forall q a, drun D q (w ++ [a]) = dstep D (drun D q w) a.
Proof. induction w as [|b w IH]; intros q a; cbn [drun app]; [reflexivity | apply IH]. Qed.

Lemma dstep_in {X} `{Eqb X} (D : dfa X) q a : dfa_wf D -> In q (dQ D) -> In (dstep D q a) (dQ D).
Proof.
  intros Hwf Hq. unfold dstep. destruct (ddelta D q a) as [q1|] eqn:E; [apply (ddelta_wf D q a q1 Hwf E) | exact Hq].
Qed.

Lemma drun_in {X} `{Eqb X} (D : dfa X) (w : word) : dfa_wf D -> forall q, In q (dQ D) -> In (drun D q w) (dQ D).
Proof.
  intros Hwf. induction w as [|a w IH]; intros q Hq; cbn [drun]; [exact Hq | apply IH, dstep_in; assumption].
Qed.

Lemma dfa_run_drun {X} `{Eqb X} (D : dfa X) (w : word) : forall q q', dfa_run D q w = Some q' -> drun D q w = q'.
Proof.
  induction w as [|a w IH]; intros q q' E; cbn [dfa_run drun] in *.
  - inversion E; reflexivity.
  - unfold dstep. destruct (ddelta D q a) as [q1|]; [apply IH; exact E | discriminate].
Qed.

Lemma dfa_lang_drun {X} `{Eqb X} (D : dfa X) (w : word) : dfa_wf D -> Forall (fun a => In a (dS D)) w ->
  (dfa_lang D w <-> In (drun D (dq0 D) w) (dF D)).
Proof.
  intros Hwf Hw. assert (Hq0 : In (dq0 D) (dQ D)) by (destruct Hwf as (Hq & _); exact Hq).
  destruct (dfa_run_correct D Hwf w (dq0 D) Hq0 Hw) as (q' & Er & _ & Hp).
  apply dfa_run_drun in Er. subst q'. unfold dfa_lang. split.
  - intros (qf & Hpath & HF). apply Hp in Hpath. subst qf. exact HF.
  - intros HF. exists (drun D (dq0 D) w). split; [apply Hp; reflexivity | exact HF].
Qed.

Lemma filter_le1 {X} (f : X -> bool) (l : list X) : NoDup l ->
  (Nat.leb (length (filter f l)) 1 = true <->
   forall x y, In x l -> In y l -> f x = true -> f y = true -> x = y).
Proof.
  intros Hnd. pose proof (NoDup_filter f Hnd) as Hndf.
  assert (Hin : forall x, In x (filter f l) <-> In x l /\ f x = true) by (intros x; apply filter_In).
  destruct (filter f l) as [|u [|v r]]; cbn [length Nat.leb].
  - split; [|reflexivity]. intros _ x y Hx _ Fx _. exfalso. apply (Hin x). split; assumption.
  - split; [|reflexivity]. intros _ x y Hx Hy Fx Fy.
    assert (Hxu : In x [u]) by (apply Hin; split; assumption).
    assert (Hyu : In y [u]) by (apply Hin; split; assumption).
    destruct Hxu as [<-|[]]. destruct Hyu as [<-|[]]. reflexivity.
  - split; [discriminate|]. intros Hc. exfalso.
    assert (Hu : In u l /\ f u = true) by (apply Hin; left; reflexivity).
    assert (Hv : In v l /\ f v = true) by (apply Hin; right; left; reflexivity).
    destruct Hu as [Hu Fu]. destruct Hv as [Hv Fv].
    assert (Euv : u = v) by (apply Hc; assumption). subst v.
    inversion Hndf as [|u' r' Hnin _]; subst. apply Hnin. left; reflexivity.
Qed.

Lemma lookup_NoDup {K V} `{Eqb K} (m : list (K * V)) k v : NoDup (map fst m) -> In (k, v) m -> lookup k m = Some v.
Proof.
  induction m as [|[k' v'] m IH]; intros Hnd Hin; [destruct Hin|].
  cbn [map fst] in Hnd. inversion Hnd as [|k0 l0 Hnin Hnd']; subst.
  cbn [lookup]. destruct (eqb k k') eqn:E.
  - apply eqb_true in E. subst k'. destruct Hin as [Hin|Hin]; [inversion Hin; reflexivity|].
    exfalso. apply Hnin. apply in_map_iff. exists (k, v). split; [reflexivity | exact Hin].
  - apply eqb_neq in E. destruct Hin as [Hin|Hin]; [inversion Hin; congruence|]. apply IH; assumption.
Qed.

Lemma lookup_None_keys {K V} `{Eqb K} (m : list (K * V)) k : lookup k m = None -> ~ In k (map fst m).
Proof.
  intros E Hin. apply in_map_iff in Hin. destruct Hin as ([k' v] & Hk & Hin). cbn [fst] in Hk. subst k'.
  rewrite lookup_None in E. apply (E v); exact Hin.
Qed.

Lemma fold_add_spec {X} `{Eqb X} (f : nat -> X) (sigma : list nat) : forall t : list X,
  (forall z, In z (fold_left (fun t a => add (f a) t) sigma t) <-> In z t \/ exists a, In a sigma /\ z = f a) /\
  length (fold_left (fun t a => add (f a) t) sigma t) <= length t + length sigma.
Proof.
  induction sigma as [|a sigma IH]; intros t; cbn [fold_left length].
  - split; [|lia]. intros z. split; [auto | intros [Hz|(a & [] & _)]; exact Hz].
  - destruct (IH (add (f a) t)) as [IH1 IH2]. split.
    + intros z. rewrite IH1, add_In. split.
      * intros [[->|Hz]|(a' & Ha' & ->)];
          [right; exists a; split; [left; reflexivity | reflexivity] | left; exact Hz
          | right; exists a'; split; [right; exact Ha' | reflexivity]].
      * intros [Hz|(a' & [<-|Ha'] & ->)];
          [left; right; exact Hz | left; left; reflexivity | right; exists a'; split; [exact Ha' | reflexivity]].
    + pose proof (add_length (f a) t). lia.
Qed.

(* ------------------------------------------------------------------ the synchronous product *)
Section S.
  Context {A B : Type} `{Eqb A} `{Eqb B}.

  Section Fix.
  Variables (D1 : dfa A) (D2 : dfa B).

  Definition succ2 (z : A * B) (a : nat) : A * B := (dstep D1 (fst z) a, dstep D2 (snd z) a).
  Definition PR (z : A * B) : Prop :=
    exists w, Forall (fun a => In a (dS D1)) w /\ z = (drun D1 (dq0 D1) w, drun D2 (dq0 D2) w).
  Definition pbij : Prop :=
    (forall p q q', PR (p, q) -> PR (p, q') -> q = q') /\ (forall p p' q, PR (p, q) -> PR (p', q) -> p = p').
  Definition good : Prop := (forall z, PR z -> agree D1 D2 z = true) /\ pbij.

  Lemma agree_spec z : agree D1 D2 z = true <-> (In (fst z) (dF D1) <-> In (snd z) (dF D2)).
  Proof.
    unfold agree. rewrite <- (mem_In (fst z)), <- (mem_In (snd z)).
    destruct (mem (fst z) (dF D1)); destruct (mem (snd z) (dF D2)); cbn [Bool.eqb];
      (split; [intros E; try discriminate E; tauto | intros [Hc1 Hc2]; try reflexivity]).
    - apply Hc1; reflexivity.
    - apply Hc2; reflexivity.
  Qed.

  Lemma PR_init : PR (dq0 D1, dq0 D2).
  Proof. exists []. split; [constructor | reflexivity]. Qed.

  Lemma PR_step z a : PR z -> In a (dS D1) -> PR (succ2 z a).
  Proof.
    intros (w & Hw & ->) Ha. exists (w ++ [a]). split.
    - apply Forall_app. split; [exact Hw | constructor; [exact Ha | constructor]].
    - unfold succ2. cbn [fst snd]. rewrite !drun_snoc. reflexivity.
  Qed.

  Lemma PR_closed (X : A * B -> Prop) : X (dq0 D1, dq0 D2) ->
    (forall z a, PR z -> X z -> In a (dS D1) -> X (succ2 z a)) -> forall z, PR z -> X z.
  Proof.
    intros Hinit Hs z (w & Hw & ->). induction w as [|a w IH] using rev_ind; [exact Hinit|].
    apply Forall_app in Hw. destruct Hw as [Hw Ha]. inversion Ha as [|a' l' Ha' _]; subst.
    rewrite !drun_snoc.
    apply (Hs (drun D1 (dq0 D1) w, drun D2 (dq0 D2) w) a); [exists w; split; [exact Hw | reflexivity] | apply IH; exact Hw | exact Ha'].
  Qed.

  Lemma PR_in_Q z : dfa_wf D1 -> dfa_wf D2 -> PR z -> In (fst z) (dQ D1) /\ In (snd z) (dQ D2).
  Proof.
    intros Hwf1 Hwf2 (w & _ & ->). cbn [fst snd]. split; apply drun_in; auto.
    - destruct Hwf1 as (Hq & _); exact Hq.
    - destruct Hwf2 as (Hq & _); exact Hq.
  Qed.

  (* characterisation of the specification *)
  Lemma iso_reach_char : seteq (dS D1) (dS D2) -> (iso_reach D1 D2 <-> good).
  Proof.
    intros HS. split.
    - intros (R & R1 & R2 & R3 & R4 & R5 & R6).
      assert (HPR : forall z, PR z -> R (fst z) (snd z)).
      { apply PR_closed; [exact R1|]. intros z a _ Hz Ha. unfold succ2. cbn [fst snd]. apply R3; assumption. }
      split; [|split].
      + intros z Hz. apply agree_spec. apply R4. apply HPR; exact Hz.
      + intros p q q' H1 H2. apply (R5 p); [apply (HPR _ H1) | apply (HPR _ H2)].
      + intros p p' q H1 H2. apply (R6 p p' q); [apply (HPR _ H1) | apply (HPR _ H2)].
    - intros (Hag & Hf & Hi). exists (fun p q => PR (p, q)). split; [exact PR_init|]. split; [|split; [|split; [|split]]].
      + intros p q (w & Hw & E). inversion E; subst. split.
        * exists w. split; [exact Hw | reflexivity].
        * exists w. split; [|reflexivity]. eapply Forall_impl; [|exact Hw]. intros a Ha. apply HS; exact Ha.
      + intros p q a Hpq Ha. apply (PR_step (p, q) a Hpq Ha).
      + intros p q Hpq. apply (agree_spec (p, q)). apply Hag; exact Hpq.
      + exact Hf.
      + exact Hi.
  Qed.

  (* ---------------------------------------------------------------- matrix version *)
  Lemma iso_succs_spec p sigma : forall m t,
    match iso_succs D1 D2 p sigma m t with
    | Some (m', t') => exists new, m' = m ++ new /\ NoDup new /\
         (forall z, In z new <-> (exists a, In a sigma /\ z = succ2 p a) /\ ~ In z m) /\
         (forall z, In z new -> agree D1 D2 z = true) /\
         (forall z, In z t' <-> In z t \/ In z new) /\ length t' <= length t + length new
    | None => exists a, In a sigma /\ agree D1 D2 (succ2 p a) = false
    end.
  Proof.
    induction sigma as [|a sigma IH]; intros m t; cbn [iso_succs].
    - exists []. rewrite app_nil_r. split; [reflexivity|]. split; [constructor|]. split; [|split; [|split]].
      + intros z. cbn [In]. split; [tauto | intros [(a & [] & _) _]].
      + intros z [].
      + intros z. cbn [In]. tauto.
      + cbn [length]. lia.
    - change (dstep D1 (fst p) a, dstep D2 (snd p) a) with (succ2 p a). set (p' := succ2 p a).
      destruct (mem p' m) eqn:Hm.
      + apply mem_In in Hm. specialize (IH m t). destruct (iso_succs D1 D2 p sigma m t) as [[m' t']|].
        * destruct IH as (new & Em & Hnd & Hin & Hag & Ht & Hl). exists new.
          split; [exact Em|]. split; [exact Hnd|]. split; [|split; [|split]]; auto.
          intros z. rewrite Hin. split.
          -- intros [(a' & Ha' & Ez) Hn]. split; [exists a'; split; [right; exact Ha' | exact Ez] | exact Hn].
          -- intros [(a' & [<-|Ha'] & Ez) Hn]; [exfalso; apply Hn; rewrite Ez; exact Hm|].
             split; [exists a'; split; assumption | exact Hn].
        * destruct IH as (a' & Ha' & Hd). exists a'. split; [right; exact Ha' | exact Hd].
      + apply mem_nIn in Hm. destruct (agree D1 D2 p') eqn:Hagp.
        * specialize (IH (m ++ [p']) (add p' t)).
          destruct (iso_succs D1 D2 p sigma (m ++ [p']) (add p' t)) as [[m' t']|].
          -- destruct IH as (new & Em & Hnd & Hin & Hag & Ht & Hl). exists (p' :: new).
             split; [rewrite Em, <- app_assoc; reflexivity|]. split; [|split; [|split; [|split]]].
             ++ constructor; [|exact Hnd]. intros Hc. apply Hin in Hc. destruct Hc as [_ Hc]. apply Hc.
                apply in_or_app. right. left. reflexivity.
             ++ intros z. cbn [In]. rewrite Hin. split.
                ** intros [<-|[(a' & Ha' & Ez) Hn]].
                   --- split; [exists a; split; [left; reflexivity | reflexivity] | exact Hm].
                   --- split; [exists a'; split; [right; exact Ha' | exact Ez]|].
                       intros Hc. apply Hn. apply in_or_app. left; exact Hc.
                ** intros [(a' & Ha' & Ez) Hn]. destruct (eqb_dec p' z) as [Epz|Hne]; [left; exact Epz|].
                   right. split.
                   --- destruct Ha' as [<-|Ha']; [exfalso; apply Hne; rewrite Ez; reflexivity|].
                       exists a'. split; assumption.
                   --- intros Hc. apply in_app_or in Hc. destruct Hc as [Hc|[Hc|[]]]; [exact (Hn Hc) | exact (Hne Hc)].
             ++ intros z [<-|Hz]; [exact Hagp | apply Hag; exact Hz].
             ++ intros z. rewrite Ht, add_In. cbn [In]. split.
                ** intros [[->|Hz]|Hz]; [right; left; reflexivity | left; exact Hz | right; right; exact Hz].
                ** intros [Hz|[<-|Hz]]; [left; right; exact Hz | left; left; reflexivity | right; exact Hz].
             ++ pose proof (add_length p' t). cbn [length]. lia.
          -- destruct IH as (a' & Ha' & Hd). exists a'. split; [right; exact Ha' | exact Hd].
        * exists a. split; [left; reflexivity | exact Hagp].
  Qed.

  Definition MInv (m t : list (A * B)) : Prop :=
    In (dq0 D1, dq0 D2) m /\ (forall z, In z m -> PR z) /\ (forall z, In z t -> In z m) /\
    (forall z a, In z m -> ~ In z t -> In a (dS D1) -> In (succ2 z a) m) /\
    (forall z, In z m -> agree D1 D2 z = true) /\ NoDup m.

  Lemma PR_length (m : list (A * B)) : dfa_wf D1 -> dfa_wf D2 -> NoDup m -> (forall z, In z m -> PR z) ->
    length m <= length (dQ D1) * length (dQ D2).
  Proof.
    intros Hwf1 Hwf2 Hnd Hm. rewrite <- prod_length. apply NoDup_incl_length; [exact Hnd|].
    intros [p q] Hz. apply in_prod; apply (PR_in_Q (p, q) Hwf1 Hwf2 (Hm _ Hz)).
  Qed.

  Lemma iso_matrix_loop_correct (pick : picker (A * B)) : dfa_wf D1 -> dfa_wf D2 -> picker_ok pick ->
    forall fuel m t, MInv m t -> length (dQ D1) * length (dQ D2) + length t - length m < fuel ->
      match iso_matrix_loop pick D1 D2 fuel m t with
      | None => False
      | Some None => exists z, PR z /\ agree D1 D2 z = false
      | Some (Some m') => (forall z, In z m' <-> PR z) /\ (forall z, PR z -> agree D1 D2 z = true)
      end.
  Proof.
    intros Hwf1 Hwf2 Hpick. induction fuel as [|f IH]; intros m t HI Hf; [lia|].
    cbn [iso_matrix_loop]. destruct HI as (I1 & I2 & I3 & I4 & I5 & I6).
    destruct (pick t) as [[p rest]|] eqn:Hp.
    - destruct (picker_some pick t p rest Hpick Hp) as [Hperm Hlen].
      assert (Hpm : In p m) by (apply I3, Hperm; left; reflexivity).
      pose proof (iso_succs_spec p (dS D1) m rest) as Hs.
      destruct (iso_succs D1 D2 p (dS D1) m rest) as [[m' t']|].
      + destruct Hs as (new & -> & Hnd & Hin & Hag & Ht & Hl).
        assert (HPRn : forall z, In z (m ++ new) -> PR z).
        { intros z Hz. apply in_app_or in Hz. destruct Hz as [Hz|Hz]; [apply I2; exact Hz|].
          apply Hin in Hz. destruct Hz as [(a & Ha & ->) _]. apply PR_step; [apply I2; exact Hpm | exact Ha]. }
        assert (Hndn : NoDup (m ++ new)).
        { apply NoDup_app_intro; auto. intros z Hz Hc. apply Hin in Hc. tauto. }
        apply IH.
        * split; [apply in_or_app; left; exact I1|]. split; [exact HPRn|]. split; [|split; [|split]].
          -- intros z Hz. apply in_or_app. apply Ht in Hz. destruct Hz as [Hz|Hz]; [left|right; exact Hz].
             apply I3, Hperm. right; exact Hz.
          -- intros z a Hz Hnt Ha. apply in_or_app. apply in_app_or in Hz. destruct Hz as [Hz|Hz].
             ++ destruct (eqb_dec z p) as [Ezp|Hne].
                ** subst z. destruct (mem (succ2 p a) m) eqn:Hm; [left; apply mem_In; exact Hm|].
                   right. apply Hin. split; [exists a; split; [exact Ha | reflexivity] | apply mem_nIn; exact Hm].
                ** left. apply I4; auto. intros Hc. apply Hperm in Hc. destruct Hc as [Hc|Hc]; [exact (Hne Hc)|].
                   apply Hnt. apply Ht. left; exact Hc.
             ++ exfalso. apply Hnt. apply Ht. right; exact Hz.
          -- intros z Hz. apply in_app_or in Hz. destruct Hz as [Hz|Hz]; [apply I5; exact Hz | apply Hag; exact Hz].
          -- exact Hndn.
        * pose proof (PR_length (m ++ new) Hwf1 Hwf2 Hndn HPRn) as Hle. rewrite app_length in *. lia.
      + destruct Hs as (a & Ha & Hd). exists (succ2 p a). split; [|exact Hd].
        apply PR_step; [apply I2; exact Hpm | exact Ha].
    - apply (picker_none pick t Hpick) in Hp. subst t. split.
      + intros z. split; [apply I2|]. revert z. apply PR_closed; [exact I1|].
        intros z a _ Hz Ha. apply I4; auto.
      + intros z Hz. apply I5. revert z Hz. apply PR_closed; [exact I1|].
        intros z a _ Hz Ha. apply I4; auto.
  Qed.

  Lemma counts_ok_spec (m : list (A * B)) : dfa_wf D1 -> dfa_wf D2 -> (forall z, In z m <-> PR z) ->
    (counts_ok D1 D2 m = true <-> pbij).
  Proof.
    intros Hwf1 Hwf2 Hm. unfold counts_ok, pbij. rewrite andb_true_iff, !forallb_forall. split.
    - intros [Hc1 Hc2]. split.
      + intros p q q' H1 H2.
        destruct (PR_in_Q _ Hwf1 Hwf2 H1) as [Hp Hq]. destruct (PR_in_Q _ Hwf1 Hwf2 H2) as [_ Hq']. cbn [fst snd] in *.
        pose proof (proj1 (filter_le1 _ _ (dedup_NoDup (dQ D2))) (Hc1 p Hp)) as Hc1'.
        apply Hc1'; try (apply dedup_In; assumption); apply mem_In, Hm; assumption.
      + intros p p' q H1 H2.
        destruct (PR_in_Q _ Hwf1 Hwf2 H1) as [Hp Hq]. destruct (PR_in_Q _ Hwf1 Hwf2 H2) as [Hp' _]. cbn [fst snd] in *.
        pose proof (proj1 (filter_le1 _ _ (dedup_NoDup (dQ D1))) (Hc2 q Hq)) as Hc2'.
        apply Hc2'; try (apply dedup_In; assumption); apply mem_In, Hm; assumption.
    - intros [Hf Hi]. split.
      + intros q1 _. apply filter_le1; [apply dedup_NoDup|]. intros x y _ _ Hx Hy.
        apply mem_In, Hm in Hx. apply mem_In, Hm in Hy. apply (Hf q1); assumption.
      + intros q2 _. apply filter_le1; [apply dedup_NoDup|]. intros x y _ _ Hx Hy.
        apply mem_In, Hm in Hx. apply mem_In, Hm in Hy. apply (Hi x y q2); assumption.
  Qed.

  Theorem iso_matrix_correct_good (pick : picker (A * B)) :
    dfa_wf D1 -> dfa_wf D2 -> seteq (dS D1) (dS D2) -> picker_ok pick ->
    exists b, iso_matrix pick D1 D2 = Some b /\ (b = true <-> good).
  Proof.
    intros Hwf1 Hwf2 HS Hpick. unfold iso_matrix.
    apply seteqb_seteq in HS. rewrite HS. cbn [negb].
    destruct (agree D1 D2 (dq0 D1, dq0 D2)) eqn:Hag0; cbn [negb].
    - assert (HI : MInv [(dq0 D1, dq0 D2)] [(dq0 D1, dq0 D2)]).
      { split; [left; reflexivity|]. split; [intros z [<-|[]]; exact PR_init|]. split; [auto|]. split; [|split].
        - intros z a Hz Hn. contradiction.
        - intros z [<-|[]]. exact Hag0.
        - constructor; [intros []|constructor]. }
      pose proof (iso_matrix_loop_correct pick Hwf1 Hwf2 Hpick (iso_fuel D1 D2) _ _ HI) as Hl.
      destruct (iso_matrix_loop pick D1 D2 (iso_fuel D1 D2) [(dq0 D1, dq0 D2)] [(dq0 D1, dq0 D2)]) as [[m|]|].
      + destruct Hl as [Hm Hag]; [unfold iso_fuel; cbn [length]; lia|].
        exists (counts_ok D1 D2 m). split; [reflexivity|]. rewrite (counts_ok_spec m Hwf1 Hwf2 Hm).
        unfold good. tauto.
      + destruct Hl as (z & Hz & Hd); [unfold iso_fuel; cbn [length]; lia|].
        exists false. split; [reflexivity|]. split; [discriminate|]. intros [Hag _]. rewrite (Hag z Hz) in Hd. discriminate.
      + exfalso. apply Hl. unfold iso_fuel; cbn [length]; lia.
    - exists false. split; [reflexivity|]. split; [discriminate|]. intros [Hag _].
      rewrite (Hag _ PR_init) in Hag0. discriminate.
  Qed.

  (* ---------------------------------------------------------------- version with the two maps *)
  Definition swap (z : A * B) : B * A := (snd z, fst z).

  Definition JInv (m12 : list (A * B)) (m21 : list (B * A)) (t : list (A * B)) : Prop :=
    m21 = map swap m12 /\ NoDup (map fst m12) /\ NoDup (map snd m12) /\
    (forall z, In z m12 -> PR z /\ agree D1 D2 z = true) /\
    (forall z, In z t -> PR z) /\
    (In (dq0 D1, dq0 D2) m12 \/ In (dq0 D1, dq0 D2) t) /\
    (forall z a, In z m12 -> In a (dS D1) -> In (succ2 z a) m12 \/ In (succ2 z a) t).

  Lemma map_fst_swap (m : list (A * B)) : map fst (map swap m) = map snd m.
  Proof. rewrite map_map. apply map_ext. intros [a b]. reflexivity. Qed.

  Lemma in_swap (m : list (A * B)) q1 q2 : In (q2, q1) (map swap m) <-> In (q1, q2) m.
  Proof.
    rewrite in_map_iff. split.
    - intros ([a b] & E & Hin). unfold swap in E. cbn [fst snd] in E. inversion E; subst. exact Hin.
    - intros Hin. exists (q1, q2). split; [reflexivity | exact Hin].
  Qed.

  Lemma iso1_loop_correct (pick : picker (A * B)) : dfa_wf D1 -> dfa_wf D2 -> picker_ok pick ->
    forall fuel m12 m21 t, JInv m12 m21 t ->
      length t + (length (dQ D1) - length m12) * S (length (dS D1)) < fuel ->
      match iso1_loop pick D1 D2 fuel m12 m21 t with
      | None => False
      | Some true => good
      | Some false => ~ good
      end.
  Proof.
    intros Hwf1 Hwf2 Hpick. induction fuel as [|f IH]; intros m12 m21 t HJ Hf; [exfalso; exact (Nat.nlt_0_r _ Hf)|].
    cbn [iso1_loop]. destruct HJ as (J1 & J2 & J3 & J4 & J5 & J6 & J7).
    destruct (pick t) as [[[q1 q2] rest]|] eqn:Hp.
    - destruct (picker_some pick t (q1, q2) rest Hpick Hp) as [Hperm Hlen].
      assert (Hpr : PR (q1, q2)) by (apply J5, Hperm; left; reflexivity).
      assert (J2' : NoDup (map fst m21)) by (rewrite J1, map_fst_swap; exact J3).
      (* the continue branch *)
      assert (HT : lookup q1 m12 = Some q2 -> lookup q2 m21 = Some q1 ->
                   match iso1_loop pick D1 D2 f m12 m21 rest with
                   | None => False | Some true => good | Some false => ~ good end).
      { intros L1 _. apply lookup_In in L1. apply IH; [|lia].
        split; [exact J1|]. split; [exact J2|]. split; [exact J3|]. split; [exact J4|]. split; [|split].
        - intros z Hz. apply J5, Hperm. right; exact Hz.
        - destruct J6 as [J6|J6]; [left; exact J6|]. apply Hperm in J6. destruct J6 as [J6|J6]; [left; rewrite J6; exact L1 | right; exact J6].
        - intros z a Hz Ha. destruct (J7 z a Hz Ha) as [Hs|Hs]; [left; exact Hs|].
          apply Hperm in Hs. destruct Hs as [Hs|Hs]; [left; rewrite Hs; exact L1 | right; exact Hs]. }
      (* the check cannot fail when PR is a partial bijection *)
      assert (HF : good -> (lookup q1 m12 <> None \/ lookup q2 m21 <> None) ->
                   lookup q1 m12 = Some q2 /\ lookup q2 m21 = Some q1).
      { intros (_ & Hfun & Hinj) Hor.
        assert (Hin : In (q1, q2) m12).
        { destruct Hor as [Hor|Hor].
          - destruct (lookup q1 m12) as [v|] eqn:L1; [|congruence]. apply lookup_In in L1.
            assert (v = q2) by (apply (Hfun q1); [apply J4; exact L1 | exact Hpr]). subst v. exact L1.
          - destruct (lookup q2 m21) as [v|] eqn:L2; [|congruence]. apply lookup_In in L2.
            rewrite J1 in L2. apply in_swap in L2.
            assert (v = q1) by (apply (Hinj v q1 q2); [apply J4; exact L2 | exact Hpr]). subst v. exact L2. }
        split; [apply lookup_NoDup; assumption|]. apply lookup_NoDup; [exact J2'|]. rewrite J1. apply in_swap; exact Hin. }
      destruct (lookup q1 m12) as [v1|] eqn:L1; destruct (lookup q2 m21) as [v2|] eqn:L2; cbv beta iota.
      1-3: match goal with |- context [if ?c then _ else Some false] => destruct c eqn:Ec end;
        [ apply andb_true_iff in Ec; destruct Ec as [E1 E2]; apply eqb_true in E1; apply eqb_true in E2;
          apply HT; assumption
        | intros Hg; destruct (HF Hg) as [E1 E2]; [(left; discriminate) || (right; discriminate)|];
          rewrite E1, E2, !eqb_refl in Ec; discriminate Ec ].
      (* a new match *)
      destruct (agree D1 D2 (q1, q2)) eqn:Hag; cbn [negb].
      + pose proof (fold_add_spec (fun a => (dstep D1 q1 a, dstep D2 q2 a)) (dS D1) rest) as [Hfold Hflen].
        cbv beta in Hfold, Hflen.
        set (t' := fold_left (fun t0 a => add (dstep D1 q1 a, dstep D2 q2 a) t0) (dS D1) rest) in *.
        assert (Hk1 : NoDup (map fst (m12 ++ [(q1, q2)]))).
        { rewrite map_app. apply NoDup_app_intro; [exact J2 | constructor; [intros []|constructor] |].
          intros x Hx [<-|[]]. exact (lookup_None_keys _ _ L1 Hx). }
        assert (Hk2 : NoDup (map snd (m12 ++ [(q1, q2)]))).
        { rewrite map_app. apply NoDup_app_intro; [exact J3 | constructor; [intros []|constructor] |].
          intros x Hx [<-|[]]. apply (lookup_None_keys _ _ L2). rewrite J1, map_fst_swap. exact Hx. }
        apply IH.
        * split; [rewrite map_app, J1; reflexivity|]. split; [exact Hk1|]. split; [exact Hk2|]. split; [|split; [|split]].
          -- intros z Hz. apply in_app_or in Hz. destruct Hz as [Hz|[<-|[]]]; [apply J4; exact Hz | split; assumption].
          -- intros z Hz. apply Hfold in Hz. destruct Hz as [Hz|(a & Ha & ->)].
             ++ apply J5, Hperm. right; exact Hz.
             ++ apply (PR_step (q1, q2) a Hpr Ha).
          -- destruct J6 as [J6|J6]; [left; apply in_or_app; left; exact J6|]. apply Hperm in J6.
             destruct J6 as [J6|J6]; [left; apply in_or_app; right; left; symmetry; exact J6 | right; apply Hfold; left; exact J6].
          -- intros z a Hz Ha. apply in_app_or in Hz. destruct Hz as [Hz|[<-|[]]].
             ++ destruct (J7 z a Hz Ha) as [Hs|Hs]; [left; apply in_or_app; left; exact Hs|].
                apply Hperm in Hs. destruct Hs as [Hs|Hs];
                  [left; apply in_or_app; right; left; symmetry; exact Hs | right; apply Hfold; left; exact Hs].
             ++ right. apply Hfold. right. exists a. split; [exact Ha | reflexivity].
        * assert (Hle : length (m12 ++ [(q1, q2)]) <= length (dQ D1)).
          { rewrite <- (map_length fst). apply NoDup_incl_length; [exact Hk1|].
            intros x Hx. apply in_map_iff in Hx. destruct Hx as (z & <- & Hz).
            apply in_app_or in Hz. assert (Hz' : PR z) by (destruct Hz as [Hz|[<-|[]]]; [apply J4; exact Hz | exact Hpr]).
            apply (PR_in_Q z Hwf1 Hwf2 Hz'). }
          rewrite app_length in *. cbn [length] in *.
          remember (length (dQ D1) - (length m12 + 1)) as k eqn:Ek.
          replace (length (dQ D1) - length m12) with (S k) in Hf by lia.
          rewrite Nat.mul_succ_l in Hf. lia.
      + intros [Hg _]. rewrite (Hg _ Hpr) in Hag. discriminate.
    - apply (picker_none pick t Hpick) in Hp. subst t.
      assert (Hin : forall z, PR z -> In z m12).
      { apply PR_closed.
        - destruct J6 as [J6|[]]. exact J6.
        - intros z a _ Hz Ha. destruct (J7 z a Hz Ha) as [Hs|[]]. exact Hs. }
      split; [intros z Hz; apply J4, Hin; exact Hz|]. split.
      + intros p q q' H1 H2. apply Hin in H1. apply Hin in H2.
        pose proof (lookup_NoDup _ _ _ J2 H1) as E1. pose proof (lookup_NoDup _ _ _ J2 H2) as E2. congruence.
      + intros p p' q H1 H2. apply Hin in H1. apply Hin in H2.
        assert (J2' : NoDup (map fst (map swap m12))) by (rewrite map_fst_swap; exact J3).
        apply in_swap in H1. apply in_swap in H2.
        pose proof (lookup_NoDup _ _ _ J2' H1) as E1. pose proof (lookup_NoDup _ _ _ J2' H2) as E2. congruence.
  Qed.

  Theorem iso1_correct_good (pick : picker (A * B)) :
    dfa_wf D1 -> dfa_wf D2 -> seteq (dS D1) (dS D2) -> picker_ok pick ->
    exists b, iso1 pick D1 D2 = Some b /\ (b = true <-> good).
  Proof.
    intros Hwf1 Hwf2 HS Hpick. unfold iso1.
    apply seteqb_seteq in HS. rewrite HS. cbn [negb].
    assert (HJ : JInv [] [] [(dq0 D1, dq0 D2)]).
    { split; [reflexivity|]. split; [constructor|]. split; [constructor|]. split; [intros z []|]. split; [|split].
      - intros z [<-|[]]. exact PR_init.
      - right. left. reflexivity.
      - intros z a []. }
    pose proof (iso1_loop_correct pick Hwf1 Hwf2 Hpick (iso1_fuel D1 D2) _ _ _ HJ) as Hl.
    assert (Hfuel : length [(dq0 D1, dq0 D2)] + (length (dQ D1) - length (@nil (A * B))) * S (length (dS D1)) < iso1_fuel D1 D2).
    { unfold iso1_fuel. cbn [length]. rewrite Nat.sub_0_r.
      assert (Hq2 : 1 <= length (dQ D2)).
      { destruct Hwf2 as (Hq & _). destruct (dQ D2); [destruct Hq | cbn [length]; lia]. }
      assert (length (dQ D1) * S (length (dS D1)) <= length (dQ D1) * length (dQ D2) * S (length (dS D1))).
      { apply Nat.mul_le_mono_r. rewrite <- (Nat.mul_1_r (length (dQ D1))) at 1. apply Nat.mul_le_mono_l. exact Hq2. }
      lia. }
    specialize (Hl Hfuel).
    destruct (iso1_loop pick D1 D2 (iso1_fuel D1 D2) [] [] [(dq0 D1, dq0 D2)]) as [[|]|].
    - exists true. split; [reflexivity|]. tauto.
    - exists false. split; [reflexivity|]. split; [discriminate | intros Hg; exfalso; exact (Hl Hg)].
    - destruct Hl.
  Qed.
  End Fix.

  (* ---------------------------------------------------------------- main theorems *)
  Theorem iso_matrix_correct (D1 : dfa A) (D2 : dfa B) (pick : picker (A * B)) :
    dfa_wf D1 -> dfa_wf D2 -> seteq (dS D1) (dS D2) -> picker_ok pick ->
    exists b, iso_matrix pick D1 D2 = Some b /\ (b = true <-> iso_reach D1 D2).
  Proof.
    intros Hwf1 Hwf2 HS Hpick. destruct (iso_matrix_correct_good D1 D2 pick Hwf1 Hwf2 HS Hpick) as (b & E & Hb).
    exists b. split; [exact E|]. rewrite (iso_reach_char D1 D2 HS). exact Hb.
  Qed.

  Theorem iso1_correct (D1 : dfa A) (D2 : dfa B) (pick : picker (A * B)) :
    dfa_wf D1 -> dfa_wf D2 -> seteq (dS D1) (dS D2) -> picker_ok pick ->
    exists b, iso1 pick D1 D2 = Some b /\ (b = true <-> iso_reach D1 D2).
  Proof.
    intros Hwf1 Hwf2 HS Hpick. destruct (iso1_correct_good D1 D2 pick Hwf1 Hwf2 HS Hpick) as (b & E & Hb).
    exists b. split; [exact E|]. rewrite (iso_reach_char D1 D2 HS). exact Hb.
  Qed.

  Theorem iso_reach_sym (D1 : dfa A) (D2 : dfa B) : seteq (dS D1) (dS D2) -> iso_reach D1 D2 -> iso_reach D2 D1.
  Proof.
    intros HS (R & R1 & R2 & R3 & R4 & R5 & R6). exists (fun q p => R p q).
    split; [exact R1|]. split; [|split; [|split; [|split]]].
    - intros q p Hr. destruct (R2 p q Hr) as [Hp Hq]. split; assumption.
    - intros q p a Hr Ha. apply R3; [exact Hr | apply HS; exact Ha].
    - intros q p Hr. symmetry. apply R4; exact Hr.
    - intros q p p' Hr Hr'. apply (R6 p p' q); assumption.
    - intros q q' p Hr Hr'. apply (R5 p q q'); assumption.
  Qed.

  Theorem iso_reach_lang (D1 : dfa A) (D2 : dfa B) : dfa_wf D1 -> dfa_wf D2 -> seteq (dS D1) (dS D2) -> iso_reach D1 D2 ->
    forall w, Forall (fun a => In a (dS D1)) w -> (dfa_lang D1 w <-> dfa_lang D2 w).
  Proof.
    intros Hwf1 Hwf2 HS Hiso w Hw. apply (iso_reach_char D1 D2 HS) in Hiso. destruct Hiso as [Hag _].
    assert (Hw2 : Forall (fun a => In a (dS D2)) w).
    { eapply Forall_impl; [|exact Hw]. intros a Ha. apply HS; exact Ha. }
    rewrite (dfa_lang_drun D1 w Hwf1 Hw), (dfa_lang_drun D2 w Hwf2 Hw2).
    apply (agree_spec D1 D2 (drun D1 (dq0 D1) w, drun D2 (dq0 D2) w)). apply Hag.
    exists w. split; [exact Hw | reflexivity].
  Qed.
End S.

Print Assumptions iso_matrix_correct.
Print Assumptions iso1_correct.
Print Assumptions iso_reach_sym.
Print Assumptions iso_reach_lang.
Print Assumptions iso_reach_char.
