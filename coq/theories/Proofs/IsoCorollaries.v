(* Consequences of the C20 theorems (IsoProofs.v) promised by the property text:
   "the answer is symmetric in its arguments, True for any DFA against a renamed copy of itself, and False for
   DFAs with different languages or different numbers of reachable states".
   Everything is stated for arbitrary state types A, B with a boolean equality; the instances at nat are checked
   at the end of the file.  Stdlib only, no axioms. *)
From Coq Require Import List Arith Bool Lia.
From GT Require Import Base.Prelude Model.DFA Model.NFA Model.Iso Proofs.IsoProofs.

(* ------------------------------------------------------------------ generic facts *)
Lemma dreach_init {X} `{Eqb X} (D : dfa X) : dreach D (dq0 D).
Proof. exists []. split; [constructor | reflexivity]. Qed.

Lemma dreach_step {X} `{Eqb X} (D : dfa X) q a : dreach D q -> In a (dS D) -> dreach D (dstep D q a).
Proof.
  intros (w & Hw & <-) Ha. exists (w ++ [a]). split.
  - apply Forall_app. split; [exact Hw | constructor; [exact Ha | constructor]].
  - apply drun_snoc.
Qed.

Lemma dreach_in {X} `{Eqb X} (D : dfa X) q : dfa_wf D -> dreach D q -> In q (dQ D).
Proof.
  intros Hwf (w & _ & <-). apply drun_in; [exact Hwf | destruct Hwf as (Hq & _); exact Hq].
Qed.

(* an injective, total (on l1) relation into l2 bounds the length of a duplicate-free l1 *)
Lemma rel_inj_length {X Y} (R : X -> Y -> Prop) :
  (forall p p' q, R p q -> R p' q -> p = p') ->
  forall l1 : list X, NoDup l1 -> forall l2 : list Y,
  (forall p, In p l1 -> exists q, In q l2 /\ R p q) -> length l1 <= length l2.
Proof.
  intros Hinj l1 Hnd. induction Hnd as [|p l1 Hnin Hnd IH]; intros l2 Htot; cbn [length]; [lia|].
  destruct (Htot p (or_introl eq_refl)) as (q & Hq & Hpq).
  destruct (in_split q l2 Hq) as (u & v & ->).
  rewrite app_length. cbn [length]. rewrite <- plus_n_Sm, <- app_length. apply le_n_S. apply IH.
  intros p' Hp'. destruct (Htot p' (or_intror Hp')) as (q' & Hq' & Hpq'). exists q'. split; [|exact Hpq'].
  apply in_app_or in Hq'. apply in_or_app. destruct Hq' as [Hq'|[Eq|Hq']]; [left; exact Hq' | | right; exact Hq'].
  exfalso. subst q'. apply Hnin. rewrite (Hinj p p' q Hpq Hpq'). exact Hp'.
Qed.

(* ------------------------------------------------------------------ 1. renaming the states *)
Section Rename.
  Context {A B : Type} {EA : Eqb A} {EB : Eqb B}.

  (* every state is mapped through f: states, transition keys and targets, initial state, accepting states *)
  Definition dfa_rename (f : A -> B) (D : dfa A) : dfa B :=
    mkDFA (map f (dQ D)) (dS D)
          (map (fun e : (A * nat) * A => ((f (fst (fst e)), snd (fst e)), f (snd e))) (dD D))
          (f (dq0 D)) (map f (dF D)).

  Variable f : A -> B.

  Lemma lookup_rename (m : list ((A * nat) * A)) q a :
    (forall q' a' q1, In ((q', a'), q1) m -> f q' = f q -> q' = q) ->
    lookup (f q, a) (map (fun e : (A * nat) * A => ((f (fst (fst e)), snd (fst e)), f (snd e))) m)
    = option_map f (lookup (q, a) m).
  Proof.
    induction m as [|[[q' a'] q1] m IH]; intros Hk; [reflexivity|].
    cbn [map lookup fst snd].
    destruct (eqb (q, a) (q', a')) eqn:E1; destruct (eqb (f q, a) (f q', a')) eqn:E2.
    - reflexivity.
    - apply eqb_true in E1. inversion E1; subst q' a'. rewrite eqb_refl in E2. discriminate E2.
    - apply eqb_true in E2. inversion E2 as [[Ef Ea]]. subst a'.
      assert (Eq : q' = q) by (apply (Hk q' a q1); [left; reflexivity | symmetry; exact Ef]).
      subst q'. rewrite eqb_refl in E1. discriminate E1.
    - apply IH. intros q2 a2 q3 Hin. apply (Hk q2 a2 q3). right; exact Hin.
  Qed.

  Section D.
    Variable D : dfa A.
    Hypothesis Hwf : dfa_wf D.
    Hypothesis Hinj : forall p q, In p (dQ D) -> In q (dQ D) -> f p = f q -> p = q.

    Lemma ddelta_rename q a : In q (dQ D) -> ddelta (dfa_rename f D) (f q) a = option_map f (ddelta D q a).
    Proof.
      intros Hq. unfold ddelta. cbn [dfa_rename dD]. apply lookup_rename.
      intros q' a' q1 Hin E. apply Hinj; [|exact Hq|exact E].
      destruct Hwf as (_ & _ & Hd & _). destruct (Hd q' a' q1 Hin) as (Hq' & _). exact Hq'.
    Qed.

    Lemma dstep_rename q a : In q (dQ D) -> dstep (dfa_rename f D) (f q) a = f (dstep D q a).
    Proof.
      intros Hq. unfold dstep. rewrite (ddelta_rename q a Hq). destruct (ddelta D q a); reflexivity.
    Qed.

    Lemma drun_rename (w : word) : forall q, In q (dQ D) -> drun (dfa_rename f D) (f q) w = f (drun D q w).
    Proof.
      induction w as [|a w IH]; intros q Hq; cbn [drun]; [reflexivity|].
      rewrite (dstep_rename q a Hq). apply IH. apply dstep_in; assumption.
    Qed.

    Lemma In_map_inj (l : list A) p : incl l (dQ D) -> In p (dQ D) -> (In (f p) (map f l) <-> In p l).
    Proof.
      intros Hl Hp. split; [|apply in_map].
      intros Hin. apply in_map_iff in Hin. destruct Hin as (p' & E & Hp').
      rewrite <- (Hinj p' p (Hl p' Hp') Hp E). exact Hp'.
    Qed.

    Theorem dfa_rename_wf : dfa_wf (dfa_rename f D).
    Proof.
      pose proof Hwf as (Hq0 & HF & Hd & Ht). unfold dfa_wf. cbn [dfa_rename dQ dS dD dq0 dF].
      split; [apply in_map; exact Hq0|]. split; [|split].
      - intros q Hq. apply in_map_iff in Hq. destruct Hq as (p & <- & Hp). apply in_map. apply HF; exact Hp.
      - intros q a q1 Hin. apply in_map_iff in Hin. destruct Hin as ([[p b] p1] & E & Hin).
        cbn [fst snd] in E. inversion E; subst q a q1. destruct (Hd p b p1 Hin) as (Hp & Hb & Hp1).
        split; [apply in_map; exact Hp|]. split; [exact Hb | apply in_map; exact Hp1].
      - intros q a Hq Ha. apply in_map_iff in Hq. destruct Hq as (p & <- & Hp).
        change (ddelta (dfa_rename f D) (f p) a <> None). rewrite (ddelta_rename p a Hp).
        specialize (Ht p a Hp Ha). destruct (ddelta D p a); [discriminate | exfalso; apply Ht; reflexivity].
    Qed.

    Theorem iso_reach_rename : iso_reach D (dfa_rename f D).
    Proof.
      assert (Hq0 : In (dq0 D) (dQ D)) by (destruct Hwf as (Hq & _); exact Hq).
      assert (HF : incl (dF D) (dQ D)) by (destruct Hwf as (_ & HF & _); exact HF).
      exists (fun p q => dreach D p /\ q = f p).
      split; [split; [apply dreach_init | reflexivity]|]. split; [|split; [|split; [|split]]].
      - intros p q [Hp ->]. split; [exact Hp|]. destruct Hp as (w & Hw & <-).
        exists w. split; [exact Hw|]. change (dq0 (dfa_rename f D)) with (f (dq0 D)). apply drun_rename; exact Hq0.
      - intros p q a [Hp ->] Ha. split; [apply dreach_step; assumption|].
        apply dstep_rename. apply dreach_in; assumption.
      - intros p q [Hp ->]. cbn [dfa_rename dF]. symmetry. apply In_map_inj; [exact HF | apply dreach_in; assumption].
      - intros p q q' [_ ->] [_ ->]. reflexivity.
      - intros p p' q [Hp ->] [Hp' E]. apply Hinj; [apply dreach_in; assumption | apply dreach_in; assumption | exact E].
    Qed.

    (* ---------------------------------------------------------------- 2. the tests answer True on a renamed copy *)
    Theorem iso_matrix_rename_true (pick : picker (A * B)) : picker_ok pick ->
      iso_matrix pick D (dfa_rename f D) = Some true.
    Proof.
      intros Hpick.
      assert (HS : seteq (dS D) (dS (dfa_rename f D))) by (intros x; cbn [dfa_rename dS]; tauto).
      destruct (iso_matrix_correct D (dfa_rename f D) pick Hwf dfa_rename_wf HS Hpick) as (b & E & Hb).
      rewrite E. f_equal. apply Hb. exact iso_reach_rename.
    Qed.

    Theorem iso1_rename_true (pick : picker (A * B)) : picker_ok pick ->
      iso1 pick D (dfa_rename f D) = Some true.
    Proof.
      intros Hpick.
      assert (HS : seteq (dS D) (dS (dfa_rename f D))) by (intros x; cbn [dfa_rename dS]; tauto).
      destruct (iso1_correct D (dfa_rename f D) pick Hwf dfa_rename_wf HS Hpick) as (b & E & Hb).
      rewrite E. f_equal. apply Hb. exact iso_reach_rename.
    Qed.
  End D.
End Rename.

(* reflexivity: holds for every DFA (well-formedness is not even needed) *)
Theorem iso_reach_refl_any {A} `{Eqb A} (D : dfa A) : iso_reach D D.
Proof.
  exists (fun p q => dreach D p /\ q = p).
  split; [split; [apply dreach_init | reflexivity]|]. split; [|split; [|split; [|split]]].
  - intros p q [Hp ->]. split; exact Hp.
  - intros p q a [Hp ->] Ha. split; [apply dreach_step; assumption | reflexivity].
  - intros p q [_ ->]. tauto.
  - intros p q q' [_ ->] [_ ->]. reflexivity.
  - intros p p' q [_ ->] [_ E]. exact E.
Qed.

Theorem iso_reach_refl {A} `{Eqb A} (D : dfa A) : dfa_wf D -> iso_reach D D.
Proof. intros _. apply iso_reach_refl_any. Qed.

(* ------------------------------------------------------------------ 3. necessary conditions; 4. symmetry *)
Section Two.
  Context {A B : Type} {EA : Eqb A} {EB : Eqb B}.
  Variables (D1 : dfa A) (D2 : dfa B).

  (* the witnessing relation is total on the reachable states of both automata *)
  Lemma iso_rel_total (R : A -> B -> Prop) : R (dq0 D1) (dq0 D2) ->
    (forall p q a, R p q -> In a (dS D1) -> R (dstep D1 p a) (dstep D2 q a)) ->
    forall w, Forall (fun a => In a (dS D1)) w -> R (drun D1 (dq0 D1) w) (drun D2 (dq0 D2) w).
  Proof.
    intros R1 R3 w. induction w as [|a w IH] using rev_ind; intros Hw; [exact R1|].
    apply Forall_app in Hw. destruct Hw as [Hw Ha]. inversion Ha as [|a' l' Ha' _]; subst.
    rewrite !drun_snoc. apply R3; [apply IH; exact Hw | exact Ha'].
  Qed.

  Theorem iso_reach_same_count : seteq (dS D1) (dS D2) -> iso_reach D1 D2 ->
    forall l1 l2, NoDup l1 -> NoDup l2 ->
    (forall q, In q l1 <-> dreach D1 q) -> (forall q, In q l2 <-> dreach D2 q) -> length l1 = length l2.
  Proof.
    intros HS (R & R1 & R2 & R3 & R4 & R5 & R6) l1 l2 Hnd1 Hnd2 Hl1 Hl2.
    pose proof (iso_rel_total R R1 R3) as Htot.
    apply Nat.le_antisymm.
    - apply (rel_inj_length R R6 l1 Hnd1). intros p Hp. apply Hl1 in Hp. destruct Hp as (w & Hw & <-).
      exists (drun D2 (dq0 D2) w). split; [|apply Htot; exact Hw].
      apply Hl2. exists w. split; [|reflexivity]. eapply Forall_impl; [|exact Hw]. intros a Ha. apply HS; exact Ha.
    - apply (rel_inj_length (fun q p => R p q)); [intros q q' p Hq Hq'; apply (R5 p q q'); assumption | exact Hnd2 |].
      intros q Hq. apply Hl2 in Hq. destruct Hq as (w & Hw & <-).
      assert (Hw1 : Forall (fun a => In a (dS D1)) w).
      { eapply Forall_impl; [|exact Hw]. intros a Ha. apply HS; exact Ha. }
      exists (drun D1 (dq0 D1) w). split; [|apply Htot; exact Hw1].
      apply Hl1. exists w. split; [exact Hw1 | reflexivity].
  Qed.

  Hypothesis Hwf1 : dfa_wf D1.
  Hypothesis Hwf2 : dfa_wf D2.
  Hypothesis HS : seteq (dS D1) (dS D2).

  Lemma iso_matrix_not_iso (pick : picker (A * B)) : picker_ok pick -> ~ iso_reach D1 D2 ->
    iso_matrix pick D1 D2 = Some false.
  Proof.
    intros Hpick Hn. destruct (iso_matrix_correct D1 D2 pick Hwf1 Hwf2 HS Hpick) as ([|] & E & Hb); [|exact E].
    exfalso. apply Hn. apply Hb. reflexivity.
  Qed.

  Lemma iso1_not_iso (pick : picker (A * B)) : picker_ok pick -> ~ iso_reach D1 D2 ->
    iso1 pick D1 D2 = Some false.
  Proof.
    intros Hpick Hn. destruct (iso1_correct D1 D2 pick Hwf1 Hwf2 HS Hpick) as ([|] & E & Hb); [|exact E].
    exfalso. apply Hn. apply Hb. reflexivity.
  Qed.

  (* different numbers of reachable states *)
  Theorem iso_matrix_count_false (pick : picker (A * B)) : picker_ok pick ->
    forall l1 l2, NoDup l1 -> NoDup l2 ->
    (forall q, In q l1 <-> dreach D1 q) -> (forall q, In q l2 <-> dreach D2 q) -> length l1 <> length l2 ->
    iso_matrix pick D1 D2 = Some false.
  Proof.
    intros Hpick l1 l2 Hnd1 Hnd2 Hl1 Hl2 Hne. apply iso_matrix_not_iso; [exact Hpick|].
    intros Hiso. apply Hne. apply (iso_reach_same_count HS Hiso l1 l2 Hnd1 Hnd2 Hl1 Hl2).
  Qed.

  Theorem iso1_count_false (pick : picker (A * B)) : picker_ok pick ->
    forall l1 l2, NoDup l1 -> NoDup l2 ->
    (forall q, In q l1 <-> dreach D1 q) -> (forall q, In q l2 <-> dreach D2 q) -> length l1 <> length l2 ->
    iso1 pick D1 D2 = Some false.
  Proof.
    intros Hpick l1 l2 Hnd1 Hnd2 Hl1 Hl2 Hne. apply iso1_not_iso; [exact Hpick|].
    intros Hiso. apply Hne. apply (iso_reach_same_count HS Hiso l1 l2 Hnd1 Hnd2 Hl1 Hl2).
  Qed.

  (* different languages *)
  Theorem iso_matrix_lang_false (pick : picker (A * B)) : picker_ok pick ->
    forall w, Forall (fun a => In a (dS D1)) w -> ~ (dfa_lang D1 w <-> dfa_lang D2 w) ->
    iso_matrix pick D1 D2 = Some false.
  Proof.
    intros Hpick w Hw Hne. apply iso_matrix_not_iso; [exact Hpick|].
    intros Hiso. apply Hne. apply (iso_reach_lang D1 D2 Hwf1 Hwf2 HS Hiso w Hw).
  Qed.

  Theorem iso1_lang_false (pick : picker (A * B)) : picker_ok pick ->
    forall w, Forall (fun a => In a (dS D1)) w -> ~ (dfa_lang D1 w <-> dfa_lang D2 w) ->
    iso1 pick D1 D2 = Some false.
  Proof.
    intros Hpick w Hw Hne. apply iso1_not_iso; [exact Hpick|].
    intros Hiso. apply Hne. apply (iso_reach_lang D1 D2 Hwf1 Hwf2 HS Hiso w Hw).
  Qed.

  (* the same, phrased with the executable acceptance test dfa_accepts *)
  Theorem iso_tests_accepts_false (pick : picker (A * B)) : picker_ok pick ->
    forall w b1 b2, Forall (fun a => In a (dS D1)) w ->
    dfa_accepts D1 w = Some b1 -> dfa_accepts D2 w = Some b2 -> b1 <> b2 ->
    iso_matrix pick D1 D2 = Some false /\ iso1 pick D1 D2 = Some false.
  Proof.
    intros Hpick w b1 b2 Hw E1 E2 Hne.
    assert (Hw2 : Forall (fun a => In a (dS D2)) w).
    { eapply Forall_impl; [|exact Hw]. intros a Ha. apply HS; exact Ha. }
    assert (Hl : ~ (dfa_lang D1 w <-> dfa_lang D2 w)).
    { rewrite (dfa_lang_drun D1 w Hwf1 Hw), (dfa_lang_drun D2 w Hwf2 Hw2).
      unfold dfa_accepts in E1, E2.
      destruct (dfa_run D1 (dq0 D1) w) as [q1|] eqn:Er1; [|discriminate E1].
      destruct (dfa_run D2 (dq0 D2) w) as [q2|] eqn:Er2; [|discriminate E2].
      apply dfa_run_drun in Er1. apply dfa_run_drun in Er2. rewrite Er1, Er2.
      inversion E1 as [M1]. inversion E2 as [M2]. rewrite <- (mem_In q1), <- (mem_In q2), M1, M2.
      intros Hiff. apply Hne. destruct b1, b2; try reflexivity.
      - symmetry. apply Hiff. reflexivity.
      - apply Hiff. reflexivity. }
    split; [apply (iso_matrix_lang_false pick Hpick w Hw Hl) | apply (iso1_lang_false pick Hpick w Hw Hl)].
  Qed.

  (* ---------------------------------------------------------------- 4. symmetry of the answers *)
  Lemma seteq_sym_S : seteq (dS D2) (dS D1).
  Proof. intros x. symmetry. apply HS. Qed.

  Theorem iso_matrix_symmetric (pick1 : picker (A * B)) (pick2 : picker (B * A)) :
    picker_ok pick1 -> picker_ok pick2 ->
    exists b, iso_matrix pick1 D1 D2 = Some b /\ iso_matrix pick2 D2 D1 = Some b.
  Proof.
    intros Hp1 Hp2.
    destruct (iso_matrix_correct D1 D2 pick1 Hwf1 Hwf2 HS Hp1) as (b1 & E1 & Hb1).
    destruct (iso_matrix_correct D2 D1 pick2 Hwf2 Hwf1 seteq_sym_S Hp2) as (b2 & E2 & Hb2).
    exists b1. split; [exact E1|]. rewrite E2. f_equal.
    assert (Hiff : b1 = true <-> b2 = true).
    { rewrite Hb1, Hb2. split; [apply iso_reach_sym; exact HS | apply iso_reach_sym; exact seteq_sym_S]. }
    destruct b1, b2; try reflexivity; [apply Hiff; reflexivity | symmetry; apply Hiff; reflexivity].
  Qed.

  Theorem iso1_symmetric (pick1 : picker (A * B)) (pick2 : picker (B * A)) :
    picker_ok pick1 -> picker_ok pick2 ->
    exists b, iso1 pick1 D1 D2 = Some b /\ iso1 pick2 D2 D1 = Some b.
  Proof.
    intros Hp1 Hp2.
    destruct (iso1_correct D1 D2 pick1 Hwf1 Hwf2 HS Hp1) as (b1 & E1 & Hb1).
    destruct (iso1_correct D2 D1 pick2 Hwf2 Hwf1 seteq_sym_S Hp2) as (b2 & E2 & Hb2).
    exists b1. split; [exact E1|]. rewrite E2. f_equal.
    assert (Hiff : b1 = true <-> b2 = true).
    { rewrite Hb1, Hb2. split; [apply iso_reach_sym; exact HS | apply iso_reach_sym; exact seteq_sym_S]. }
    destruct b1, b2; try reflexivity; [apply Hiff; reflexivity | symmetry; apply Hiff; reflexivity].
  Qed.

  (* the two tests agree with each other *)
  Theorem iso_matrix_iso1_agree (pick1 pick2 : picker (A * B)) : picker_ok pick1 -> picker_ok pick2 ->
    exists b, iso_matrix pick1 D1 D2 = Some b /\ iso1 pick2 D1 D2 = Some b.
  Proof.
    intros Hp1 Hp2.
    destruct (iso_matrix_correct D1 D2 pick1 Hwf1 Hwf2 HS Hp1) as (b1 & E1 & Hb1).
    destruct (iso1_correct D1 D2 pick2 Hwf1 Hwf2 HS Hp2) as (b2 & E2 & Hb2).
    exists b1. split; [exact E1|]. rewrite E2. f_equal.
    assert (Hiff : b1 = true <-> b2 = true) by (rewrite Hb1, Hb2; tauto).
    destruct b1, b2; try reflexivity; [apply Hiff; reflexivity | symmetry; apply Hiff; reflexivity].
  Qed.
End Two.

(* ------------------------------------------------------------------ the statements at nat, as requested *)
Definition IsoCorollaries_statements_at_nat :=
  (fun f D => @dfa_rename_wf nat nat _ _ f D :
     dfa_wf D -> (forall p q, In p (dQ D) -> In q (dQ D) -> f p = f q -> p = q) -> dfa_wf (dfa_rename f D),
   fun f D => @iso_reach_rename nat nat _ _ f D :
     dfa_wf D -> (forall p q, In p (dQ D) -> In q (dQ D) -> f p = f q -> p = q) -> iso_reach D (dfa_rename f D),
   fun D : dfa nat => iso_reach_refl D : dfa_wf D -> iso_reach D D,
   fun f (D : dfa nat) => @iso_matrix_rename_true nat nat _ _ f D :
     dfa_wf D -> (forall p q, In p (dQ D) -> In q (dQ D) -> f p = f q -> p = q) ->
     forall pick, picker_ok pick -> iso_matrix pick D (dfa_rename f D) = Some true,
   fun f (D : dfa nat) => @iso1_rename_true nat nat _ _ f D :
     dfa_wf D -> (forall p q, In p (dQ D) -> In q (dQ D) -> f p = f q -> p = q) ->
     forall pick, picker_ok pick -> iso1 pick D (dfa_rename f D) = Some true).

(* ------------------------------------------------------------------ 5. non-vacuity *)
Definition ex_dfa : dfa nat :=
  mkDFA [0; 1; 2] [0; 1]
        [((0, 0), 1); ((0, 1), 2); ((1, 0), 1); ((1, 1), 2); ((2, 0), 0); ((2, 1), 2)] 0 [2].
Definition ex_f : nat -> nat := fun q => q + 7.
(* same shape, other accepting set: language differs on the word [0] *)
Definition ex_dfa_F : dfa nat :=
  mkDFA [0; 1; 2] [0; 1]
        [((0, 0), 1); ((0, 1), 2); ((1, 0), 1); ((1, 1), 2); ((2, 0), 0); ((2, 1), 2)] 0 [1; 2].
(* state 1 is unreachable here: two reachable states against three in ex_dfa *)
Definition ex_dfa_2 : dfa nat :=
  mkDFA [0; 1; 2] [0; 1]
        [((0, 0), 0); ((0, 1), 2); ((1, 0), 1); ((1, 1), 2); ((2, 0), 0); ((2, 1), 2)] 0 [2].

Example ex_rename_shape :
  dfa_rename ex_f ex_dfa =
  mkDFA [7; 8; 9] [0; 1] [((7, 0), 8); ((7, 1), 9); ((8, 0), 8); ((8, 1), 9); ((9, 0), 7); ((9, 1), 9)] 7 [9].
Proof. vm_compute. reflexivity. Qed.

Example ex_wf : dfa_wf_b ex_dfa = true /\ dfa_wf_b (dfa_rename ex_f ex_dfa) = true /\
                dfa_wf_b ex_dfa_F = true /\ dfa_wf_b ex_dfa_2 = true.
Proof. vm_compute. repeat split. Qed.

Example ex_iso_matrix_rename : iso_matrix pick_head ex_dfa (dfa_rename ex_f ex_dfa) = Some true.
Proof. vm_compute. reflexivity. Qed.
Example ex_iso1_rename : iso1 pick_head ex_dfa (dfa_rename ex_f ex_dfa) = Some true.
Proof. vm_compute. reflexivity. Qed.
Example ex_iso_matrix_rename_sym : iso_matrix pick_head (dfa_rename ex_f ex_dfa) ex_dfa = Some true.
Proof. vm_compute. reflexivity. Qed.
Example ex_iso_lang_false :
  dfa_accepts ex_dfa [0] = Some false /\ dfa_accepts ex_dfa_F [0] = Some true /\
  iso_matrix pick_head ex_dfa ex_dfa_F = Some false /\ iso1 pick_head ex_dfa ex_dfa_F = Some false /\
  iso_matrix pick_head ex_dfa_F ex_dfa = Some false /\ iso1 pick_head ex_dfa_F ex_dfa = Some false.
Proof. vm_compute. repeat split. Qed.
Example ex_iso_count_false :
  iso_matrix pick_head ex_dfa ex_dfa_2 = Some false /\ iso1 pick_head ex_dfa ex_dfa_2 = Some false /\
  iso_matrix pick_head ex_dfa_2 ex_dfa = Some false /\ iso1 pick_head ex_dfa_2 ex_dfa = Some false.
Proof. vm_compute. repeat split. Qed.

(* the hypotheses of the general theorems are satisfiable: the example is an instance of iso_matrix_rename_true *)
Example ex_hyps_hold :
  dfa_wf ex_dfa /\ (forall p q, In p (dQ ex_dfa) -> In q (dQ ex_dfa) -> ex_f p = ex_f q -> p = q) /\
  picker_ok (@pick_head (nat * nat)).
Proof.
  split; [apply GT.Proofs.NFAProofs.dfa_wf_b_spec; vm_compute; reflexivity|].
  split; [intros p q _ _; unfold ex_f; lia | apply GT.Proofs.NFAProofs.pick_head_ok].
Qed.

Example ex_by_theorem : iso_matrix pick_head ex_dfa (dfa_rename ex_f ex_dfa) = Some true /\
                        iso1 pick_head ex_dfa (dfa_rename ex_f ex_dfa) = Some true.
Proof.
  destruct ex_hyps_hold as (Hwf & Hinj & Hpick).
  split; [apply iso_matrix_rename_true; assumption | apply iso1_rename_true; assumption].
Qed.

Print Assumptions dfa_rename_wf.
Print Assumptions iso_reach_rename.
Print Assumptions iso_reach_refl.
Print Assumptions iso_reach_refl_any.
Print Assumptions iso_matrix_rename_true.
Print Assumptions iso1_rename_true.
Print Assumptions iso_reach_same_count.
Print Assumptions iso_matrix_count_false.
Print Assumptions iso1_count_false.
Print Assumptions iso_matrix_lang_false.
Print Assumptions iso1_lang_false.
Print Assumptions iso_tests_accepts_false.
Print Assumptions iso_matrix_symmetric.
Print Assumptions iso1_symmetric.
Print Assumptions iso_matrix_iso1_agree.
Print Assumptions ex_by_theorem.
